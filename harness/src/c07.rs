//! C07 -- river equity and turn histograms over observations x the 24 suit permutations
use crate::util::*;
use crate::Opts;
use robopoker::cards::hand::Hand;
use robopoker::cards::observation::Observation;
use robopoker::cards::permutation::Permutation;
use robopoker::clustering::abstraction::Abstraction;
use robopoker::clustering::histogram::Histogram;

fn hist_str(h: &Histogram) -> String {
    let (m, parts) = h.verif_parts();
    format!("{}/{}", m, parts.iter().map(|(a, c)| format!("{}:{}", a, c)).collect::<Vec<_>>().join("+"))
}
pub fn run(o: &Opts, deck: &str) -> String {
    let mut out = Shards::new(&o.out, "c07", o.shards);
    out.directive(&format!("@deck {}", deck));
    let mut rng = Rng::new(o.seed, 7);
    let nr = if o.thorough() { 20_000 } else { 500 };
    for i in 0..nr {
        // river observations, some biased to made hands / ties on board (straights and flushes on the board)
        let (pk, pb) = if i % 5 == 0 {
            let s = rng.below(4) as u8;
            let ranks: Vec<u8> = (0..13u8).filter(|r| DECK_MASK >> (r * 4) & 1 == 1).collect();
            let start = rng.below((ranks.len() - 4) as u64) as usize;
            let mut pb = 0u64;
            for k in 0..5 { pb |= 1u64 << (ranks[start + k] * 4 + if i % 10 == 0 { s } else { rng.below(4) as u8 }); }
            (rng.cards(2, DECK_MASK & !pb), pb)
        } else {
            let pk = rng.cards(2, DECK_MASK);
            (pk, rng.cards(5, DECK_MASK & !pk))
        };
        let r = catch(|| {
            let ob = Observation::from((Hand::from(pk), Hand::from(pb)));
            let e = ob.equity();
            let b = u64::from(Abstraction::from(e));
            let perms: Vec<String> = Permutation::exhaust().iter().map(|p| { let x = p.permute(&ob).equity(); format!("{}:{}", x.to_bits(), u64::from(Abstraction::from(x))) }).collect();
            format!("{} {} {}", e.to_bits(), b, perms.join(","))
        });
        out.line(&format!("eq {} {} | {}", pk, pb, r.unwrap_or("P".into())));
    }
    let nt = if o.thorough() { 2000 } else { 40 };
    for _ in 0..nt {
        let pk = rng.cards(2, DECK_MASK);
        let pb = rng.cards(4, DECK_MASK & !pk);
        let r = catch(|| {
            let ob = Observation::from((Hand::from(pk), Hand::from(pb)));
            let h = Histogram::from(ob);
            let perms: Vec<String> = Permutation::exhaust().iter().step_by(5).map(|p| hist_str(&Histogram::from(p.permute(&ob)))).collect();
            format!("{} {}", hist_str(&h), perms.join(","))
        });
        out.line(&format!("hist {} {} | {}", pk, pb, r.unwrap_or("P".into())));
    }
    // the bucket of every equity value a river can have: wins / decided for every decided <= 990 (one line per denominator)
    for n in 1..=990u32 {
        let r = catch(|| (0..=n).map(|w| u64::from(Abstraction::from(w as f32 / n as f32)).to_string()).collect::<Vec<_>>().join(","));
        out.line(&format!("qt {} | {}", n, r.unwrap_or("P".into())));
    }
    let lines = out.finish();
    format!("{{\"lines\":{}}}", lines)
}
