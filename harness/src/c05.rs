//! C05 -- suit-isomorphism canonicalisation over observations x the 24 suit permutations
use crate::util::*;
use crate::Opts;
use robopoker::cards::hand::Hand;
use robopoker::cards::isomorphism::Isomorphism;
use robopoker::cards::observation::Observation;
use robopoker::cards::permutation::Permutation;

fn o2s(o: &Observation) -> String {
    format!("{} {}", u64::from(*o.pocket()), u64::from(*o.public()))
}
/// iso pk pb | c.pk c.pb cc.pk cc.pb iscan(c) iscan(o) p0.pk p0.pb c0.pk c0.pb ... (24 permutations in exhaust() order)
pub fn iso_line(pk: u64, pb: u64) -> String {
    let r = catch(|| {
        let o = Observation::from((Hand::from(pk), Hand::from(pb)));
        let c = Observation::from(Isomorphism::from(o));
        let cc = Observation::from(Isomorphism::from(c));
        let mut s = format!("{} {} {} {}", o2s(&c), o2s(&cc), Isomorphism::is_canonical(&c) as u8, Isomorphism::is_canonical(&o) as u8);
        for p in Permutation::exhaust().iter() {
            let po = p.permute(&o);
            let pc = Observation::from(Isomorphism::from(po));
            s.push_str(&format!(" {} {}", o2s(&po), o2s(&pc)));
        }
        s
    });
    format!("iso {} {} | {}", pk, pb, r.unwrap_or("P".into()))
}
/// observation biased to tied suit keys: equal lane sizes, equal min / max ranks across suits
fn tied(rng: &mut Rng, nboard: usize) -> (u64, u64) {
    let ranks: Vec<u8> = (0..13u8).filter(|r| DECK_MASK >> (r * 4) & 1 == 1).collect();
    let pick = |rng: &mut Rng| ranks[rng.below(ranks.len() as u64) as usize];
    loop {
        let mut pk = 0u64;
        let mut pb = 0u64;
        // same rank in several suits for the pocket (pairs) or suited connectors
        let r1 = pick(rng);
        let r2 = pick(rng);
        let s1 = rng.below(4) as u8;
        let s2 = rng.below(4) as u8;
        pk |= 1u64 << (r1 * 4 + s1);
        pk |= 1u64 << (r2 * 4 + s2);
        // board: reuse few ranks across suits so that min/max ranks tie
        let base: Vec<u8> = (0..3).map(|_| pick(rng)).collect();
        let mut guard = 0;
        while (pb.count_ones() as usize) < nboard && guard < 100 {
            guard += 1;
            let r = if rng.chance(0.7) { base[rng.below(3) as usize] } else { pick(rng) };
            let s = rng.below(4) as u8;
            let c = 1u64 << (r * 4 + s);
            if pk & c == 0 {
                pb |= c;
            }
        }
        if pk.count_ones() == 2 && pb.count_ones() as usize == nboard {
            return (pk, pb);
        }
    }
}
pub fn run(o: &Opts, deck: &str) -> String {
    let mut out = Shards::new(&o.out, "c05", o.shards);
    out.directive(&format!("@deck {}", deck));
    let mut rng = Rng::new(o.seed, 5);
    let cards: Vec<u8> = (0..52u8).filter(|c| DECK_MASK >> c & 1 == 1).collect();
    // every pre-flop observation
    for (i, &a) in cards.iter().enumerate() {
        for &b in cards.iter().skip(i + 1) {
            out.line(&iso_line(1u64 << a | 1u64 << b, 0));
        }
    }
    let (nu, nt) = if o.thorough() { (1_500_000, 1_500_000) } else { (60_000, 90_000) };
    for i in 0..nu {
        let k = [3usize, 4, 5][i % 3];
        let pk = rng.cards(2, DECK_MASK);
        let pb = rng.cards(k, DECK_MASK & !pk);
        out.line(&iso_line(pk, pb));
    }
    for i in 0..nt {
        let k = [3usize, 4, 5][i % 3];
        let (pk, pb) = tied(&mut rng, k);
        out.line(&iso_line(pk, pb));
    }
    // call sequences: the canonical form of b must not depend on what was asked before (the recogniser applied to a
    // DIFFERENT deal of the same cards just before)
    let ns = if o.thorough() { 200_000 } else { 20_000 };
    for i in 0..ns {
        let k = [3usize, 4, 5][i % 3];
        let all = rng.cards(2 + k, DECK_MASK);
        let pa = rng.cards(2, all);
        let mut pb2 = rng.cards(2, all);
        if pb2 == pa { pb2 = rng.cards(2, all); }
        let r = catch(|| {
            let a = Observation::from((Hand::from(pa), Hand::from(all & !pa)));
            let b = Observation::from((Hand::from(pb2), Hand::from(all & !pb2)));
            let fresh = Observation::from(Isomorphism::from(b));
            let _ = Isomorphism::is_canonical(&a);
            let after = Observation::from(Isomorphism::from(b));
            let _ = Isomorphism::is_canonical(&a);
            let recog = Isomorphism::is_canonical(&fresh);
            format!("{} {} {}", o2s(&fresh), o2s(&after), recog as u8)
        });
        out.line(&format!("isoseq {} {} {} | {}", pa, pb2, all, r.unwrap_or("P P P P P".into())));
    }
    let lines = out.finish();
    format!("{{\"lines\":{}}}", lines)
}
