//! C04 -- showdown ledgers through the public Showdown::from(..).settle()
use crate::util::*;
use crate::Opts;
use robopoker::cards::kicks::Kickers;
use robopoker::cards::rank::Rank;
use robopoker::cards::ranking::Ranking;
use robopoker::cards::strength::Strength;
use robopoker::gameplay::seat::State;
use robopoker::gameplay::settlement::Settlement;
use robopoker::gameplay::showdown::Showdown;

fn strength(level: u8) -> Strength {
    // a ladder of strictly increasing strengths: 26 ordinary ones, then the top of the scale (a king-high straight
    // flush and the royal flush, the strongest hand there is)
    if level < 13 {
        Strength::from((Ranking::HighCard(Rank::from(level)), Kickers::default()))
    } else if level < 26 {
        Strength::from((Ranking::OnePair(Rank::from(level - 13)), Kickers::default()))
    } else if level == 26 {
        Strength::from((Ranking::StraightFlush(Rank::from(11u8)), Kickers::default()))
    } else {
        Strength::from((Ranking::StraightFlush(Rank::from(12u8)), Kickers::default()))
    }
}
fn state(s: u8) -> State {
    match s {
        0 => State::Betting,
        1 => State::Shoving,
        _ => State::Folding,
    }
}
fn line(risked: &[i16], status: &[u8], level: &[u8]) -> String {
    let ledger: Vec<Settlement> = (0..risked.len()).map(|i| Settlement::from((risked[i], state(status[i]), strength(level[i])))).collect();
    let r = catch(|| Showdown::from(ledger).settle().iter().map(|s| s.reward.to_string()).collect::<Vec<_>>().join(","));
    let j = |v: Vec<String>| v.join(",");
    format!(
        "sd {} {} {} | {}",
        j(risked.iter().map(|x| x.to_string()).collect()),
        j(status.iter().map(|x| x.to_string()).collect()),
        j(level.iter().map(|x| x.to_string()).collect()),
        r.unwrap_or("P".into())
    )
}
fn exhaustive(out: &mut Shards, n: usize, maxrisk: i16, nlevels: u8) {
    let per = (maxrisk as usize + 1) * 3 * nlevels as usize;
    let total = per.pow(n as u32);
    for mut code in 0..total {
        let mut risked = vec![0i16; n];
        let mut status = vec![0u8; n];
        let mut level = vec![0u8; n];
        for i in 0..n {
            let c = code % per;
            code /= per;
            risked[i] = (c % (maxrisk as usize + 1)) as i16;
            status[i] = ((c / (maxrisk as usize + 1)) % 3) as u8;
            level[i] = (c / (maxrisk as usize + 1) / 3) as u8;
        }
        out.line(&line(&risked, &status, &level));
    }
}
pub fn run(o: &Opts, _deck: &str) -> String {
    let mut out = Shards::new(&o.out, "c04", o.shards);
    let mut rng = Rng::new(o.seed, 4);
    // the ledgers of the unit tests first
    out.line(&line(&[150, 200, 350, 50], &[1, 1, 1, 1], &[4, 3, 1, 0]));
    out.line(&line(&[50, 100, 150, 150], &[1, 1, 0, 0], &[4, 3, 1, 0]));
    exhaustive(&mut out, 2, 4, 3);
    exhaustive(&mut out, 3, 4, 3);
    exhaustive(&mut out, 4, 4, 3);
    if o.thorough() {
        exhaustive(&mut out, 5, 3, 2);
    }
    // random well-formed-by-construction ledgers of 2..9 players: odd chips, multi-level ties, folded players between levels
    let nr = if o.thorough() { 3_000_000 } else { 250_000 };
    for _ in 0..nr {
        let n = 2 + rng.below(8) as usize;
        let cap = if rng.chance(0.5) { 40 } else { 3000 }; let top = 1 + rng.below(cap) as i16;
        let nlev = 1 + rng.below(4) as u8;
        let mut risked = vec![0i16; n];
        let mut status = vec![0u8; n];
        let mut level = vec![0u8; n];
        let anchor = rng.below(n as u64) as usize; // somebody contests at the top
        for i in 0..n {
            level[i] = rng.below(nlev as u64) as u8;
            let k = if i == anchor { rng.below(2) } else { rng.below(3) };
            status[i] = k as u8;
            risked[i] = match k {
                0 => top,
                1 => if i == anchor { top } else { 1 + rng.below(top as u64) as i16 },
                _ => rng.below(top as u64 + 1) as i16,
            };
        }
        // one ledger in four has the royal flush as its best hand (and sometimes the king-high straight flush below it)
        if rng.chance(0.25) {
            let below = rng.chance(0.5);
            for i in 0..n {
                if level[i] + 1 == nlev { level[i] = 27; } else if below && nlev >= 2 && level[i] + 2 == nlev { level[i] = 26; }
            }
        }
        // a few malformed ones too (the model must still agree; the oracle skips them)
        if rng.chance(0.03) {
            let i = rng.below(n as u64) as usize;
            risked[i] = risked[i].saturating_add(1 + rng.below(5) as i16);
        }
        out.line(&line(&risked, &status, &level));
    }
    let lines = out.finish();
    format!("{{\"lines\":{}}}", lines)
}
