//! C15 -- integer codecs: every From impl run on exhaustive / sampled values
use crate::util::*;
use crate::Opts;
use robopoker::cards::card::Card;
use robopoker::cards::hand::Hand;
use robopoker::cards::observation::Observation;
use robopoker::cards::street::Street;
use robopoker::clustering::abstraction::Abstraction;
use robopoker::clustering::pair::Pair;
use robopoker::gameplay::action::Action;
use robopoker::mccfr::edge::Edge;
use robopoker::mccfr::odds::Odds;
use robopoker::mccfr::path::Path;

fn p<T: std::fmt::Display>(x: Option<T>) -> String {
    match x {
        Some(v) => v.to_string(),
        None => "PANIC".into(),
    }
}
fn cards_str(v: &[Card]) -> String {
    if v.is_empty() {
        "-".into()
    } else {
        v.iter().map(|c| u8::from(*c).to_string()).collect::<Vec<_>>().join(",")
    }
}
fn action_str(a: &Action) -> String {
    match a {
        Action::Draw(h) => format!("draw {}", u64::from(*h)),
        Action::Fold => "fold 0".into(),
        Action::Check => "check 0".into(),
        Action::Call(c) => format!("call {}", c),
        Action::Raise(c) => format!("raise {}", c),
        Action::Shove(c) => format!("shove {}", c),
        Action::Blind(c) => format!("blind {}", c),
    }
}
pub fn edge_str(e: &Edge) -> String {
    match e {
        Edge::Draw => "draw 0 0".into(),
        Edge::Fold => "fold 0 0".into(),
        Edge::Check => "check 0 0".into(),
        Edge::Call => "call 0 0".into(),
        Edge::Shove => "shove 0 0".into(),
        Edge::Raise(Odds(n, d)) => format!("raise {} {}", n, d),
    }
}
fn street_ix(s: Street) -> usize {
    s as isize as usize
}
fn obs_line(pk: u64, pb: u64) -> String {
    let r = catch(|| {
        let o = Observation::from((Hand::from(pk), Hand::from(pb)));
        let code = i64::from(o);
        let back = Observation::from(code);
        let s1 = street_ix(Street::from(code));
        let s2 = street_ix(o.street());
        format!("{} {} {} {} {}", code, u64::from(*back.pocket()), u64::from(*back.public()), s1, s2)
    });
    format!("obs {} {} | {}", pk, pb, r.unwrap_or_else(|| "PANIC PANIC PANIC PANIC PANIC".into()))
}

pub fn run(o: &Opts, deck: &str) -> String {
    let mut out = Shards::new(&o.out, "c15", o.shards);
    out.directive(&format!("@deck {}", deck));
    let mut rng = Rng::new(o.seed, 15);
    // ---- cards: all 52 (u8 values 0..=51), plus the u32 form
    for c in 0u8..52 {
        let card = Card::from(c);
        let u = catch(|| u32::from(card));
        let rt = u.and_then(|u| catch(|| u8::from(Card::from(u))));
        out.line(&format!("card {} | {} {} {}", c, u8::from(card), p(u), p(rt)));
    }
    // ---- hands: Hand::from(u64) masks; Vec<Card> both ways
    let nh = if o.thorough() { 2_000_000 } else { 100_000 };
    for i in 0..nh {
        let n = match i % 4 {
            0 => rng.next(),
            1 => rng.next() & rng.next() & rng.next(),
            2 => { let k = 1 + rng.below(9) as usize; rng.cards(k, u64::MAX) }
            _ => rng.next() | rng.next(),
        };
        let h = Hand::from(n);
        out.line(&format!("hand {} | {}", n, u64::from(h)));
        if i % 5 == 0 {
            let v = Vec::<Card>::from(h);
            let back = catch(|| u64::from(Hand::from(v.clone())));
            out.line(&format!("handvec {} | {} {}", u64::from(h), cards_str(&v), p(back)));
        }
    }
    // ---- observations: all pre-flop; flop exhaustive (thorough) or sampled; turn/river sampled
    let deck_cards: Vec<u8> = (0..52u8).filter(|c| DECK_MASK >> c & 1 == 1).collect();
    for (i, &a) in deck_cards.iter().enumerate() {
        for &b in deck_cards.iter().skip(i + 1) {
            out.line(&obs_line(1u64 << a | 1u64 << b, 0));
        }
    }
    if o.thorough() {
        // every flop observation: C(n,2) * C(n-2,3)
        let n = deck_cards.len();
        for i in 0..n {
            for j in i + 1..n {
                let pk = 1u64 << deck_cards[i] | 1u64 << deck_cards[j];
                let rest: Vec<u8> = deck_cards.iter().copied().filter(|c| pk >> c & 1 == 0).collect();
                let m = rest.len();
                for a in 0..m {
                    for b in a + 1..m {
                        for c in b + 1..m {
                            out.line(&obs_line(pk, 1u64 << rest[a] | 1u64 << rest[b] | 1u64 << rest[c]));
                        }
                    }
                }
            }
        }
    }
    let ns = if o.thorough() { 3_000_000 } else { 300_000 };
    for i in 0..ns {
        let k = [3usize, 4, 5][i % 3];
        let pk = rng.cards(2, DECK_MASK);
        let pb = rng.cards(k, DECK_MASK & !pk);
        out.line(&obs_line(pk, pb));
    }
    // ---- actions: every i16 amount for the four chip kinds (Call/Raise/Shove/Blind), all flops as draws
    let step = if o.thorough() { 1 } else { 7 };
    let mut amt: i32 = i16::MIN as i32;
    while amt <= i16::MAX as i32 {
        let c = amt as i16;
        for a in [Action::Call(c), Action::Raise(c), Action::Shove(c), Action::Blind(c)] {
            let code = u32::from(a);
            let back = catch(|| Action::from(code));
            out.line(&format!("action {} | {} {}", action_str(&a), code, back.map(|b| action_str(&b)).unwrap_or("PANIC PANIC".into())));
        }
        amt += if amt >= -200 && amt <= 200 || amt > 32700 || amt < -32700 { 1 } else { step };
    }
    for a in [Action::Fold, Action::Check, Action::Draw(Hand::empty())] {
        let code = u32::from(a);
        let back = catch(|| Action::from(code));
        out.line(&format!("action {} | {} {}", action_str(&a), code, back.map(|b| action_str(&b)).unwrap_or("PANIC PANIC".into())));
    }
    for i in 0..52u8 {
        for j in i..52u8 {
            for k in j..52u8 {
                // 1, 2 and 3 card draws (i == j / j == k collapse to fewer cards)
                let h = Hand::from(1u64 << i | 1u64 << j | 1u64 << k);
                let a = Action::Draw(h);
                let code = u32::from(a);
                let back = catch(|| Action::from(code));
                out.line(&format!("action {} | {} {}", action_str(&a), code, back.map(|b| action_str(&b)).unwrap_or("PANIC PANIC".into())));
            }
        }
    }
    // ---- edges: the 15 symbols, both integer forms
    let mut edges: Vec<Edge> = vec![Edge::Draw, Edge::Fold, Edge::Check, Edge::Call, Edge::Shove];
    edges.extend(Odds::GRID.iter().map(|o| Edge::Raise(*o)));
    for e in edges.iter() {
        let c8 = catch(|| u8::from(*e));
        let r8 = c8.and_then(|c| catch(|| Edge::from(c)));
        let c64 = u64::from(*e);
        let r64 = catch(|| Edge::from(c64));
        out.line(&format!(
            "edge {} | {} {} {} {}",
            edge_str(e),
            p(c8),
            r8.map(|e| edge_str(&e)).unwrap_or("PANIC PANIC PANIC".into()),
            c64,
            r64.map(|e| edge_str(&e)).unwrap_or("PANIC PANIC PANIC".into())
        ));
    }
    // ---- paths: all of length 0..2 over the 15 symbols, random of length 3..16
    let code = |e: &Edge| u8::from(*e);
    let path_line = |es: &Vec<Edge>| {
        let codes = if es.is_empty() { "-".to_string() } else { es.iter().map(|e| code(e).to_string()).collect::<Vec<_>>().join(",") };
        let packed = catch(|| u64::from(Path::from(es.clone())));
        let back = packed.and_then(|p| catch(|| Vec::<Edge>::from(Path::from(p))));
        let bs = back.map(|b| if b.is_empty() { "-".to_string() } else { b.iter().map(|e| code(e).to_string()).collect::<Vec<_>>().join(",") });
        // ... and through the signed 64-bit form (the database column type)
        let back_i = catch(|| Vec::<Edge>::from(Path::from(i64::from(Path::from(es.clone())))));
        let bi = back_i.map(|b| if b.is_empty() { "-".to_string() } else { b.iter().map(|e| code(e).to_string()).collect::<Vec<_>>().join(",") });
        format!("path {} | {} {} {}", codes, p(packed), p(bs), p(bi))
    };
    out.line(&path_line(&vec![]));
    for a in edges.iter() {
        out.line(&path_line(&vec![*a]));
        for b in edges.iter() {
            out.line(&path_line(&vec![*a, *b]));
        }
    }
    let np = if o.thorough() { 1_000_000 } else { 100_000 };
    for _ in 0..np {
        let len = 3 + rng.below(14) as usize;
        let es: Vec<Edge> = (0..len).map(|_| edges[rng.below(15) as usize]).collect();
        out.line(&path_line(&es));
    }
    // ---- abstractions: every bucket of every street
    for s in [Street::Pref, Street::Flop, Street::Turn, Street::Rive] {
        let all = Abstraction::all(s);
        for (i, a) in all.iter().enumerate() {
            let variant = |a: &Abstraction| match a {
                Abstraction::Percent(_) => "percent",
                Abstraction::Learned(_) => "learned",
                Abstraction::Preflop(_) => "preflop",
            };
            let code = u64::from(*a);
            let back = Abstraction::from(i64::from(*a));
            out.line(&format!(
                "abs {} {} | {} {} {} {} {} {}",
                street_ix(s), i, code, variant(a), u64::from(back), variant(&back), street_ix(a.street()), a.index()
            ));
        }
    }
    // ---- pair keys within each learned street (one shard: collisions are checked across the stream)
    let mut npairs = 0u64;
    for s in [Street::Flop, Street::Turn, Street::Rive] {
        let all = Abstraction::all(s);
        for i in 0..all.len() {
            for j in i + 1..all.len() {
                let key = i64::from(Pair::from((&all[i], &all[j])));
                out.line_to(0, &format!("pair {} {} {} | {}", street_ix(s), i, j, key));
                npairs += 1;
            }
        }
    }
    let lines = out.finish();
    format!("{{\"lines\":{},\"pairs\":{}}}", lines, npairs)
}
