//! C09 -- regret matching: policy_vector of a real information set under chosen stored regrets and epoch counters
//! C20 -- the seeded sampler: same (epoch, bucket) => same branch, on any thread, in any tree; unbiased across epochs
use crate::util::*;
use crate::walk::edge_tok;
use crate::Opts;
use robopoker::cards::hand::Hand;
use robopoker::clustering::abstraction::Abstraction;
use robopoker::gameplay::game::Game;
use robopoker::gameplay::ply::Turn;
use robopoker::mccfr::data::Data;
use robopoker::mccfr::tree::{Branch, Tree};
use robopoker::mccfr::blueprint::Blueprint;
use robopoker::mccfr::bucket::Bucket;
use robopoker::mccfr::edge::Edge;
use robopoker::mccfr::encoder::Encoder;
use robopoker::mccfr::info::Info;
use robopoker::mccfr::node::Node;
use robopoker::mccfr::partition::Partition;
use robopoker::mccfr::player::Player;
use robopoker::mccfr::profile::Profile;

fn bkey(b: &Bucket) -> String {
    format!("{}.{}.{}", u64::from(b.0), u64::from(b.1), u64::from(b.2))
}
fn regret_bits(rng: &mut Rng, style: u64) -> f32 {
    match style {
        0 => (rng.unit() as f32 - 0.5) * 200.0,
        1 => -(rng.unit() as f32) * 50.0,          // nothing positive
        2 => 0.0,
        3 => if rng.chance(0.5) { 1e30 } else { -1e30 },
        4 => if rng.chance(0.5) { 1e-30 } else { f32::from_bits(rng.below(100) as u32 + 1) }, // tiny / denormal
        5 => 7.25,                                  // all equal
        6 => -3e5,                                  // at the clamp
        9 => (if rng.chance(0.7) { 1.0 } else { -1.0 }) * (1e37 + (rng.unit() as f32) * 3e38).min(f32::MAX), // near the clamp f32::MAX
        10 => f32::MAX,                             // every action at the clamp
        _ => (rng.unit() as f32) * 1e4,
    }
}
fn profile_for(info: &Info, regrets: &[f32], epochs: usize) -> Profile {
    let node = info.node();
    let b = node.bucket();
    let edges: Vec<Edge> = node.outgoing().into_iter().copied().collect();
    let mut sorted = edges.clone();
    sorted.sort();
    let rows: Vec<(u64, u64, u64, u64, f32, f32)> = sorted
        .iter()
        .zip(regrets.iter())
        .map(|(e, r)| (u64::from(b.0), u64::from(b.1), u64::from(b.2), u64::from(*e), *r, 0.5f32))
        .collect();
    let mut p = Profile::verif_from_rows(&rows);
    p.verif_set_epochs(epochs);
    p
}

pub fn run(o: &Opts, _deck: &str) -> String {
    let mut out = Shards::new(&o.out, "c09", o.shards);
    let mut rng = Rng::new(o.seed, 9);
    // two solvers: traverser P0 (even epochs) and P1 (odd epochs)
    let mut infosets: Vec<(usize, Vec<Info>)> = vec![];
    for parity in 0..2usize {
        let bp = Blueprint::verif_new(Profile::default());
        if parity == 1 {
            bp.verif_profile().write().unwrap().next();
        }
        let tree = bp.verif_tree();
        let mut infos: Vec<Info> = Vec::<Info>::from(Partition::from(tree));
        infos.sort_by_key(|i| i.node().outgoing().len());
        // information sets with 1..13 actions, a few of each size
        let mut picked: Vec<Info> = vec![];
        let mut count = std::collections::HashMap::new();
        for i in infos {
            let n = i.node().outgoing().len();
            let c = count.entry(n).or_insert(0usize);
            if *c < 3 {
                *c += 1;
                picked.push(i);
            }
        }
        infosets.push((parity, picked));
    }
    let n = if o.thorough() { 300_000 } else { 50_000 };
    // incl. counters at and beyond 2^24, where `epochs as f32` stops being exact and 2^-126 / epochs underflows
    let epochs_even = [0usize, 2, 390, 392, 1_000_000, 16_777_214, 16_777_216, 16_777_218, 1 << 32, 1 << 40, 1 << 53];
    let epochs_odd = [1usize, 3, 391, 999_999, 16_777_215, 16_777_217, (1 << 31) + 1, (1 << 40) + 1, (1 << 53) - 1];
    let mut aborts = 0u64;
    for k in 0..n {
        let (parity, infos) = &infosets[k % 2];
        let info = &infos[rng.below(infos.len() as u64) as usize];
        let nact = info.node().outgoing().len();
        let style = if k < 40 { 10 } else { rng.below(10) };
        let regrets: Vec<f32> = (0..nact).map(|_| { let st = if style == 8 { rng.below(8) } else { style }; regret_bits(&mut rng, st) }).collect();
        let t = if *parity == 0 { epochs_even[rng.below(epochs_even.len() as u64) as usize] } else { epochs_odd[rng.below(epochs_odd.len() as u64) as usize] };
        let p = profile_for(info, &regrets, t);
        let r = catch(|| p.policy_vector(info));
        let rb = regrets.iter().map(|x| x.to_bits().to_string()).collect::<Vec<_>>().join(",");
        let res = match r {
            Some(m) => m.values().map(|x| x.to_bits().to_string()).collect::<Vec<_>>().join(","),
            None => { aborts += 1; "P".into() }
        };
        out.line(&format!("pv {} {} | {}", t, rb, res));
    }
    let lines = out.finish();
    format!("{{\"lines\":{},\"aborts\":{}}}", lines, aborts)
}

// ---------------------------------------------------------------- C20
fn opponent_nodes<'a>(tree: &'a robopoker::mccfr::tree::Tree, walker: Player) -> Vec<Node<'a>> {
    tree.all().into_iter().filter(|n| n.children().len() > 0 && n.player() != walker && n.player() != Player::chance()).collect()
}
pub fn run_c20(o: &Opts, _deck: &str) -> String {
    let mut out = Shards::new(&o.out, "c20", o.shards);
    let mut rng = Rng::new(o.seed, 20);
    let enc = Encoder::default();
    let ntrees = if o.thorough() { 300 } else { 40 };
    let mut calls = 0u64;
    // one solver; its profile is only read here (policies as witnessed: uniform, then biased by hand)
    let bp = Blueprint::verif_new(Profile::default());
    for ti in 0..ntrees {
        if ti == ntrees / 2 {
            bp.verif_profile().write().unwrap().next(); // second half with the other traverser
        }
        let tree = bp.verif_tree();
        let prof = bp.verif_profile();
        let p = prof.read().unwrap();
        let nodes = opponent_nodes(&tree, p.walker());
        for node in nodes.iter().take(60) {
            // the same question asked again, and from other threads
            let ask = |p: &Profile| -> String {
                let br = enc.branches(node);
                let chosen = p.explore_one(br, node);
                edge_tok(chosen[0].edge())
            };
            let a = catch(|| ask(&p)).unwrap_or("P".into());
            let b = catch(|| ask(&p)).unwrap_or("P".into());
            let c = std::thread::scope(|s| {
                let hs: Vec<_> = (0..3).map(|_| s.spawn(|| catch(|| ask(&p)).unwrap_or("P".into()))).collect();
                hs.into_iter().map(|h| h.join().unwrap()).collect::<Vec<_>>().join(",")
            });
            calls += 5;
            out.line_to(0, &format!("samp {} {} {} | {} {} {}", p.epochs(), bkey(node.bucket()), node.index().index() as u64 + 1_000_000 * ti as u64, a, b, c));
        }
        // chance nodes: one branch
        for node in tree.all().into_iter().filter(|n| n.player() == Player::chance() && n.children().len() > 0).take(10) {
            let r = catch(|| { let br = enc.branches(&node); p.explore_any(br, &node).len() });
            out.line_to(0, &format!("sampchance {} {} | {}", p.epochs(), bkey(node.bucket()), r.map(|x| x.to_string()).unwrap_or("P".into())));
        }
        drop(p);
        let _ = rng.next();
    }
    // distribution across epochs at a fixed information set with hand-set policy weights
    let bp2 = Blueprint::verif_new(Profile::default());
    let tree = bp2.verif_tree();
    let prof2 = bp2.verif_profile();
    let walker = prof2.read().unwrap().walker();
    let nodes = opponent_nodes(&tree, walker);
    let nd = if o.thorough() { 12 } else { 4 };
    let ne = if o.thorough() { 40_000 } else { 12_000 };
    for node in nodes.iter().filter(|n| Vec::<Edge>::from(n.bucket().2.clone()).len() >= 3).take(nd) {
        let b = node.bucket();
        let mut edges: Vec<Edge> = Vec::from(b.2.clone());
        edges.sort();
        let weights: Vec<f32> = edges.iter().enumerate().map(|(i, _)| 0.05 + (i as f32) * 0.3 + rng.unit() as f32).collect();
        let rows: Vec<(u64, u64, u64, u64, f32, f32)> = edges.iter().zip(weights.iter()).map(|(e, w)| (u64::from(b.0), u64::from(b.1), u64::from(b.2), u64::from(*e), 0.0, *w)).collect();
        let mut p = Profile::verif_from_rows(&rows);
        let mut counts = vec![0u32; edges.len()];
        // consecutive epochs must be independent draws: agreements of (2t, 2t+1) and of (2t+1, 2t+2)
        let mut prev: Option<usize> = None;
        let mut agree = [0u32; 2];
        for ep in 0..ne {
            p.verif_set_epochs(ep);
            let br = enc.branches(node);
            let chosen = p.explore_one(br, node);
            let e = *chosen[0].edge();
            let ix = edges.iter().position(|x| *x == e).unwrap();
            counts[ix] += 1;
            if let Some(q) = prev {
                if q == ix { agree[(ep + 1) % 2] += 1; } // ep odd: the pair (ep-1, ep) starts at an even epoch -> slot 0
            }
            prev = Some(ix);
            calls += 1;
        }
        out.line(&format!(
            "sampdist {} {} | {} {} {} {}",
            bkey(b),
            weights.iter().map(|w| w.to_bits().to_string()).collect::<Vec<_>>().join(","),
            counts.iter().map(|c| c.to_string()).collect::<Vec<_>>().join(","),
            agree[0], agree[1], ne / 2
        ));
    }
    let _ = Turn::Terminal;
    // ---- information sets below the recalled depth: a Bucket recalls 16 edges, so nodes that agree on those, on the
    // abstraction and on the menu are ONE information set whatever happened later; their PRNG streams and sampled
    // branches must agree (trees built by hand through the public API, abstraction fixed per street)
    let nwalks = if o.thorough() { 20_000 } else { 1500 };
    let mut deep_groups = 0u64;
    for _ in 0..nwalks {
        let picks: Vec<u64> = (0..16).map(|_| rng.next()).collect();
        let lines = catch(|| deep_walk(&picks)).unwrap_or(vec!["seedfn 0 0 0 | P".to_string()]);
        for l in lines {
            deep_groups += 1;
            out.line(&l);
        }
    }
    // ---- a chance node offered several deals: the pick is a function of (epoch, information set)
    let nch = if o.thorough() { 12 } else { 3 };
    for ci in 0..nch {
        let r = catch(|| any_choice(ci)).unwrap_or(vec![format!("anychoice {} 0 | P", ci)]);
        for l in r {
            out.line_to(1, &l); // one shard: the per-node judgement looks across epochs
        }
    }
    // ---- the same transcript from a second process (a re-run, a resumed training)
    {
        let here = catch(|| c20_probe()).unwrap_or("P".into());
        let there = std::env::current_exe().ok()
            .and_then(|exe| std::process::Command::new(exe).arg("c20probe").output().ok())
            .map(|o| String::from_utf8_lossy(&o.stdout).trim().to_string())
            .unwrap_or("unavailable".into());
        let h = |s: &String| { let mut x: u64 = 0xcbf29ce484222325; for c in s.bytes() { x = (x ^ c as u64).wrapping_mul(0x100000001b3); } format!("{:016x}", x) };
        out.line(&format!("xproc 24 | {} {} {}", h(&here), h(&there), if there == "unavailable" || there.is_empty() { 0 } else { 1 }));
    }
    let lines = out.finish();
    format!("{{\"lines\":{},\"sampler_calls\":{},\"deep_infoset_groups\":{}}}", lines, calls, deep_groups)
}

/// a transcript of the sampler that depends on nothing but (epoch, information set): the first PRNG word and the sampled
/// branch at two hand-built nodes over 24 epochs.  Printed by the sub-command `c20probe`, so that a second PROCESS can
/// be compared with this one.
pub fn c20_probe() -> String {
    use rand::Rng as _;
    let mut tree = Tree::empty(Player::default());
    let root = tree.plant(fixed_data(Game::root())).index();
    let second = {
        let brs = { let node = tree.at(root); fixed_branches(&node) };
        let b = brs.into_iter().find(|b| *b.edge() == Edge::Call).expect("limp on the menu");
        tree.fork(b).index()
    };
    let mut profile = Profile::default();
    let mut out = vec![];
    for _ in 0..24 {
        for ix in [root, second] {
            let node = tree.at(ix);
            profile.witness(&node, &fixed_branches(&node));
            let w = profile.rng(&node).gen::<u64>();
            let e = edge_tok(profile.explore_one(fixed_branches(&node), &node)[0].edge());
            out.push(format!("{}:{}", w, e));
        }
        profile.next();
    }
    out.join(",")
}
fn fixed_data(game: Game) -> Data {
    Data::from((game, Abstraction::from((game.street(), 7))))
}
fn fixed_branches(node: &Node) -> Vec<Branch> {
    node.branches().into_iter().map(|(e, g)| Branch(fixed_data(g), e, node.index())).collect()
}
/// a line of 16 edges that keeps the hand going, then every node up to three plies below it; decision nodes that
/// share a Bucket are grouped and asked, at 6 epochs, for their PRNG stream and their sampled branch
fn deep_walk(picks: &[u64]) -> Vec<String> {
    let mut tree = Tree::empty(Player::default());
    let mut head = tree.plant(fixed_data(Game::root())).index();
    for k in 0..16 {
        let mut brs: Vec<Branch> = { let node = tree.at(head); fixed_branches(&node) };
        brs.retain(|b| !matches!(b.edge(), Edge::Fold | Edge::Shove));
        if brs.is_empty() {
            if std::env::var("VERIF_DEBUG").is_ok() { eprintln!("deep_walk: line ends after {} plies", k); }
            return vec![];
        }
        // the smallest raise every other time, a passive edge otherwise: the line must last 16 plies on 100 chips
        let mut raises: Vec<usize> = (0..brs.len()).filter(|i| matches!(brs[*i].edge(), Edge::Raise(_))).collect();
        raises.sort_by(|a, b| match (brs[*a].edge(), brs[*b].edge()) {
            (Edge::Raise(x), Edge::Raise(y)) => (x.0 as i64 * y.1 as i64).cmp(&(y.0 as i64 * x.1 as i64)),
            _ => std::cmp::Ordering::Equal,
        });
        let passive: Vec<usize> = (0..brs.len()).filter(|i| !matches!(brs[*i].edge(), Edge::Raise(_))).collect();
        let idx = if !raises.is_empty() && (picks[k] % 2 != 0 || passive.is_empty()) { raises[if picks[k] % 7 == 0 && raises.len() > 1 { 1 } else { 0 }] } else { passive[(picks[k] / 3) as usize % passive.len()] };
        head = tree.fork(brs.swap_remove(idx)).index();
    }
    let mut frontier = vec![head];
    let mut below = vec![];
    for _ in 0..3 {
        let mut next = vec![];
        for h in frontier {
            let brs = { let node = tree.at(h); fixed_branches(&node) };
            for b in brs {
                let c = tree.fork(b).index();
                next.push(c);
                below.push(c);
            }
        }
        frontier = next;
        if below.len() > 3000 { break; }
    }
    let mut groups: std::collections::BTreeMap<String, Vec<petgraph::graph::NodeIndex>> = Default::default();
    for c in below {
        let node = tree.at(c);
        if node.player() != Player::chance() && node.branches().len() > 1 {
            groups.entry(bkey(node.bucket())).or_default().push(c);
        }
    }
    if std::env::var("VERIF_DEBUG").is_ok() { eprintln!("deep_walk: {} buckets, sizes {:?}", groups.len(), groups.values().map(|v| v.len()).collect::<Vec<_>>()); }
    let mut out = vec![];
    // the menus of nodes below the recalled depth (the raise count of the CURRENT betting round decides them)
    {
        let mut emitted = 0;
        for (_, members) in groups.iter() {
            for m in members.iter() {
                if emitted >= 40 { break; }
                let node = tree.at(*m);
                if node.history().len() <= 16 { continue; }
                let hist: Vec<String> = node.history().iter().map(|e| edge_tok(e)).collect();
                let menu: Vec<String> = Vec::<Edge>::from(node.bucket().2.clone()).iter().map(edge_tok).collect();
                out.push(format!("dmenu {} | {} {}", hist.join(","), crate::walk::state_str(node.data().game()), menu.join(",")));
                emitted += 1;
            }
        }
    }
    let mut profile = Profile::default();
    for epoch in 0..6 {
        for (key, members) in groups.iter().filter(|(_, m)| m.len() >= 2).take(6) {
            let mut seeds = vec![];
            let mut edges = vec![];
            for m in members.iter().take(6) {
                let node = tree.at(*m);
                profile.witness(&node, &fixed_branches(&node));
                use rand::Rng as _;
                seeds.push(profile.rng(&node).gen::<u64>().to_string());
                edges.push(edge_tok(profile.explore_one(fixed_branches(&node), &node)[0].edge()));
            }
            let depths: Vec<String> = members.iter().take(6).map(|m| tree.at(*m).history().len().to_string()).collect();
            out.push(format!("seedfn {} {} {} | {} {}", epoch, key, depths.join(","), seeds.join(","), edges.join(",")));
        }
        profile.next();
    }
    out
}
/// the first chance node of a hand, offered 12 different deals, asked 20 times from 4 threads at each of 24 epochs
fn any_choice(ci: usize) -> Vec<String> {
    let mut tree = Tree::empty(Player::default());
    let mut head = tree.plant(fixed_data(Game::root())).index();
    let line: &[Edge] = if ci % 2 == 0 { &[Edge::Call, Edge::Check] } else { &[Edge::Call, Edge::Check, Edge::Draw, Edge::Check, Edge::Check] };
    for e in line {
        let brs = { let node = tree.at(head); fixed_branches(&node) };
        let b = brs.into_iter().find(|b| b.edge() == e).expect("edge on the menu");
        head = tree.fork(b).index();
    }
    let node = tree.at(head);
    assert!(node.player() == Player::chance());
    let mut games: Vec<Game> = vec![];
    while games.len() < 12 {
        for (_, g) in node.branches() {
            let b = u64::from(Hand::from(g.board()));
            if games.iter().all(|x| u64::from(Hand::from(x.board())) != b) {
                games.push(g);
            }
        }
    }
    let offer = || -> Vec<Branch> { games.iter().map(|g| Branch(fixed_data(*g), Edge::Draw, node.index())).collect() };
    let mut profile = Profile::default();
    let mut out = vec![];
    for epoch in 0..24 {
        let p = &profile;
        let ask = || -> String {
            let chosen = p.explore_any(offer(), &node);
            let b = u64::from(Hand::from(chosen[0].0.game().board()));
            games.iter().position(|x| u64::from(Hand::from(x.board())) == b).map(|i| i.to_string()).unwrap_or("?".into())
        };
        let answers: Vec<String> = std::thread::scope(|s| {
            let hs: Vec<_> = (0..4).map(|_| s.spawn(|| (0..5).map(|_| catch(|| ask()).unwrap_or("P".into())).collect::<Vec<_>>())).collect();
            hs.into_iter().flat_map(|h| h.join().unwrap()).collect()
        });
        out.push(format!("anychoice {} {} {} | {}", ci, epoch, bkey(node.bucket()), answers.join(",")));
        profile.next();
    }
    out
}
