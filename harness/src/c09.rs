//! C09 -- regret matching: policy_vector of a real information set under chosen stored regrets and epoch counters
//! C20 -- the seeded sampler: same (epoch, bucket) => same branch, on any thread, in any tree; unbiased across epochs
use crate::util::*;
use crate::walk::edge_tok;
use crate::Opts;
use robopoker::gameplay::ply::Turn;
use robopoker::mccfr::blueprint::Blueprint;
use robopoker::mccfr::bucket::Bucket;
use robopoker::mccfr::edge::Edge;
use robopoker::mccfr::encoder::Encoder;
use robopoker::mccfr::info::Info;
use robopoker::mccfr::node::Node;
use robopoker::mccfr::partition::Partition;
use robopoker::mccfr::player::Player;
use robopoker::mccfr::profile::Profile;

fn bkey(b: &Bucket) -> String {
    format!("{}.{}.{}", u64::from(b.0), u64::from(b.1), u64::from(b.2))
}
fn regret_bits(rng: &mut Rng, style: u64) -> f32 {
    match style {
        0 => (rng.unit() as f32 - 0.5) * 200.0,
        1 => -(rng.unit() as f32) * 50.0,          // nothing positive
        2 => 0.0,
        3 => if rng.chance(0.5) { 1e30 } else { -1e30 },
        4 => if rng.chance(0.5) { 1e-30 } else { f32::from_bits(rng.below(100) as u32 + 1) }, // tiny / denormal
        5 => 7.25,                                  // all equal
        6 => -3e5,                                  // at the clamp
        _ => (rng.unit() as f32) * 1e4,
    }
}
fn profile_for(info: &Info, regrets: &[f32], epochs: usize) -> Profile {
    let node = info.node();
    let b = node.bucket();
    let edges: Vec<Edge> = node.outgoing().into_iter().copied().collect();
    let mut sorted = edges.clone();
    sorted.sort();
    let rows: Vec<(u64, u64, u64, u64, f32, f32)> = sorted
        .iter()
        .zip(regrets.iter())
        .map(|(e, r)| (u64::from(b.0), u64::from(b.1), u64::from(b.2), u64::from(*e), *r, 0.5f32))
        .collect();
    let mut p = Profile::verif_from_rows(&rows);
    p.verif_set_epochs(epochs);
    p
}

pub fn run(o: &Opts, _deck: &str) -> String {
    let mut out = Shards::new(&o.out, "c09", o.shards);
    let mut rng = Rng::new(o.seed, 9);
    // two solvers: traverser P0 (even epochs) and P1 (odd epochs)
    let mut infosets: Vec<(usize, Vec<Info>)> = vec![];
    for parity in 0..2usize {
        let bp = Blueprint::verif_new(Profile::default());
        if parity == 1 {
            bp.verif_profile().write().unwrap().next();
        }
        let tree = bp.verif_tree();
        let mut infos: Vec<Info> = Vec::<Info>::from(Partition::from(tree));
        infos.sort_by_key(|i| i.node().outgoing().len());
        // information sets with 1..13 actions, a few of each size
        let mut picked: Vec<Info> = vec![];
        let mut count = std::collections::HashMap::new();
        for i in infos {
            let n = i.node().outgoing().len();
            let c = count.entry(n).or_insert(0usize);
            if *c < 3 {
                *c += 1;
                picked.push(i);
            }
        }
        infosets.push((parity, picked));
    }
    let n = if o.thorough() { 300_000 } else { 50_000 };
    let epochs_even = [0usize, 2, 390, 392, 1_000_000];
    let epochs_odd = [1usize, 3, 391, 999_999];
    let mut aborts = 0u64;
    for k in 0..n {
        let (parity, infos) = &infosets[k % 2];
        let info = &infos[rng.below(infos.len() as u64) as usize];
        let nact = info.node().outgoing().len();
        let style = rng.below(9);
        let regrets: Vec<f32> = (0..nact).map(|_| { let st = if style == 8 { rng.below(8) } else { style }; regret_bits(&mut rng, st) }).collect();
        let t = if *parity == 0 { epochs_even[rng.below(5) as usize] } else { epochs_odd[rng.below(4) as usize] };
        let p = profile_for(info, &regrets, t);
        let r = catch(|| p.policy_vector(info));
        let rb = regrets.iter().map(|x| x.to_bits().to_string()).collect::<Vec<_>>().join(",");
        let res = match r {
            Some(m) => m.values().map(|x| x.to_bits().to_string()).collect::<Vec<_>>().join(","),
            None => { aborts += 1; "P".into() }
        };
        out.line(&format!("pv {} {} | {}", t, rb, res));
    }
    let lines = out.finish();
    format!("{{\"lines\":{},\"aborts\":{}}}", lines, aborts)
}

// ---------------------------------------------------------------- C20
fn opponent_nodes<'a>(tree: &'a robopoker::mccfr::tree::Tree, walker: Player) -> Vec<Node<'a>> {
    tree.all().into_iter().filter(|n| n.children().len() > 0 && n.player() != walker && n.player() != Player::chance()).collect()
}
pub fn run_c20(o: &Opts, _deck: &str) -> String {
    let mut out = Shards::new(&o.out, "c20", o.shards);
    let mut rng = Rng::new(o.seed, 20);
    let enc = Encoder::default();
    let ntrees = if o.thorough() { 300 } else { 40 };
    let mut calls = 0u64;
    // one solver; its profile is only read here (policies as witnessed: uniform, then biased by hand)
    let bp = Blueprint::verif_new(Profile::default());
    for ti in 0..ntrees {
        if ti == ntrees / 2 {
            bp.verif_profile().write().unwrap().next(); // second half with the other traverser
        }
        let tree = bp.verif_tree();
        let prof = bp.verif_profile();
        let p = prof.read().unwrap();
        let nodes = opponent_nodes(&tree, p.walker());
        for node in nodes.iter().take(60) {
            // the same question asked again, and from other threads
            let ask = |p: &Profile| -> String {
                let br = enc.branches(node);
                let chosen = p.explore_one(br, node);
                edge_tok(chosen[0].edge())
            };
            let a = catch(|| ask(&p)).unwrap_or("P".into());
            let b = catch(|| ask(&p)).unwrap_or("P".into());
            let c = std::thread::scope(|s| {
                let hs: Vec<_> = (0..3).map(|_| s.spawn(|| catch(|| ask(&p)).unwrap_or("P".into()))).collect();
                hs.into_iter().map(|h| h.join().unwrap()).collect::<Vec<_>>().join(",")
            });
            calls += 5;
            out.line_to(0, &format!("samp {} {} {} | {} {} {}", p.epochs(), bkey(node.bucket()), node.index().index() as u64 + 1_000_000 * ti as u64, a, b, c));
        }
        // chance nodes: one branch
        for node in tree.all().into_iter().filter(|n| n.player() == Player::chance() && n.children().len() > 0).take(10) {
            let r = catch(|| { let br = enc.branches(&node); p.explore_any(br, &node).len() });
            out.line_to(0, &format!("sampchance {} {} | {}", p.epochs(), bkey(node.bucket()), r.map(|x| x.to_string()).unwrap_or("P".into())));
        }
        drop(p);
        let _ = rng.next();
    }
    // distribution across epochs at a fixed information set with hand-set policy weights
    let bp2 = Blueprint::verif_new(Profile::default());
    let tree = bp2.verif_tree();
    let prof2 = bp2.verif_profile();
    let walker = prof2.read().unwrap().walker();
    let nodes = opponent_nodes(&tree, walker);
    let nd = if o.thorough() { 12 } else { 4 };
    let ne = if o.thorough() { 40_000 } else { 12_000 };
    for node in nodes.iter().filter(|n| Vec::<Edge>::from(n.bucket().2.clone()).len() >= 3).take(nd) {
        let b = node.bucket();
        let mut edges: Vec<Edge> = Vec::from(b.2.clone());
        edges.sort();
        let weights: Vec<f32> = edges.iter().enumerate().map(|(i, _)| 0.05 + (i as f32) * 0.3 + rng.unit() as f32).collect();
        let rows: Vec<(u64, u64, u64, u64, f32, f32)> = edges.iter().zip(weights.iter()).map(|(e, w)| (u64::from(b.0), u64::from(b.1), u64::from(b.2), u64::from(*e), 0.0, *w)).collect();
        let mut p = Profile::verif_from_rows(&rows);
        let mut counts = vec![0u32; edges.len()];
        for ep in 0..ne {
            p.verif_set_epochs(ep);
            let br = enc.branches(node);
            let chosen = p.explore_one(br, node);
            let e = *chosen[0].edge();
            counts[edges.iter().position(|x| *x == e).unwrap()] += 1;
            calls += 1;
        }
        out.line(&format!(
            "sampdist {} {} | {}",
            bkey(b),
            weights.iter().map(|w| w.to_bits().to_string()).collect::<Vec<_>>().join(","),
            counts.iter().map(|c| c.to_string()).collect::<Vec<_>>().join(",")
        ));
    }
    let _ = Turn::Terminal;
    let lines = out.finish();
    format!("{{\"lines\":{},\"sampler_calls\":{}}}", lines, calls)
}
