//! sampled trees of the solver (C08, C10): real Blueprint::tree() through the hooks, a few training
//! epochs, every tree dumped with what the models need.
//! line `tree <walker> <epoch> <fresh> | <node> <node> ... I<infoset> ...`
use crate::util::*;
use crate::walk::{edge_tok, state_str};
use crate::Opts;
use robopoker::cards::hand::Hand;
use robopoker::cards::hole::Hole;
use robopoker::gameplay::ply::Turn;
use robopoker::mccfr::blueprint::Blueprint;
use robopoker::mccfr::bucket::Bucket;
use robopoker::mccfr::encoder::Encoder;
use robopoker::mccfr::info::Info;
use robopoker::mccfr::node::Node;
use robopoker::mccfr::partition::Partition;
use robopoker::mccfr::player::Player;
use robopoker::mccfr::profile::Profile;

fn bkey(b: &Bucket) -> String {
    format!("{}.{}.{}", u64::from(b.0), u64::from(b.1), u64::from(b.2))
}
fn turn_code(t: Turn) -> String {
    match t {
        Turn::Terminal => "T".into(),
        Turn::Chance => "C".into(),
        Turn::Choice(i) => format!("P{}", i),
    }
}
/// is the bucket's card abstraction unchanged when the opponent's hole cards are replaced?
fn opp_independent(node: &Node, enc: &Encoder) -> u8 {
    let g = node.data().game();
    let seats = g.verif_seats();
    let actor = match g.turn() {
        Turn::Choice(i) => i,
        _ => return 1,
    };
    let board = u64::from(Hand::from(g.board()));
    let mine = u64::from(Hand::from(seats[actor].cards()));
    let free = DECK_MASK & !(board | mine);
    // the two lowest free cards as the opponent's new hole
    let a = free & free.wrapping_neg();
    let rest = free & !a;
    let b = rest & rest.wrapping_neg();
    let mut holes = [seats[0].cards(), seats[1].cards()];
    holes[1 - actor] = Hole::from(Hand::from(a | b));
    let g2 = g.clone().verif_with_holes(holes);
    (enc.abstraction(&g2) == enc.abstraction(g)) as u8
}

pub fn run(o: &Opts, deck: &str) -> String {
    let mut out = Shards::new(&o.out, "cfr", o.shards);
    out.directive(&format!("@deck {}", deck));
    let runs = if o.thorough() { 40 } else { 6 };
    let epochs = if o.thorough() { 30 } else { 12 };
    let per_epoch = 2;
    let mut ntrees = 0u64;
    let mut nnodes = 0u64;
    for _ in 0..runs {
        let bp = Blueprint::verif_new(Profile::default());
        let prof = bp.verif_profile();
        for epoch in 0..epochs {
            let mut updates = vec![];
            for k in 0..per_epoch {
                let fresh = epoch == 0 && k == 0;
                let tree = bp.verif_tree();
                nnodes += tree.all().len() as u64;
                ntrees += 1;
                // the tree is moved into the partition; dump through the infosets' shared Arc
                let infos: Vec<Info> = Vec::<Info>::from(Partition::from(tree));
                let p = prof.read().unwrap();
                let mut dumped: Vec<(Info, Vec<(String, u32)>, Vec<(String, u32)>)> = vec![];
                for info in infos.iter() {
                    let r = catch(|| p.regret_vector(info));
                    let pv = catch(|| p.policy_vector(info));
                    let rv = r.as_ref().map(|m| m.iter().map(|(e, v)| (edge_tok(e), v.to_bits())).collect()).unwrap_or(vec![("P".into(), 0)]);
                    let pp = pv.as_ref().map(|m| m.iter().map(|(e, v)| (edge_tok(e), v.to_bits())).collect()).unwrap_or(vec![("P".into(), 0)]);
                    dumped.push((info.clone(), rv, pp));
                }
                if let Some(first) = infos.first() {
                    let any = first.node();
                    // every Info shares the same tree; reach it through any node's graph
                    let t = TreeView(any.graph());
                    out.line(&dump_view(&t, tree_walker(&p), &p, epoch, fresh, &dumped).replacen(" | ", &format!(" {} | ", ntrees), 1));
                }
                for info in infos {
                    let cf = p.counterfactual(info);
                    updates.push(cf);
                }
            }
            let mut p = prof.write().unwrap();
            for cf in updates.iter() {
                let bucket = cf.info().node().bucket().clone();
                p.add_regret(&bucket, cf.regret());
                p.add_policy(&bucket, cf.policy());
            }
            p.next();
        }
    }
    let lines = out.finish();
    format!("{{\"lines\":{},\"trees\":{},\"nodes\":{}}}", lines, ntrees, nnodes)
}

// ---- a Tree is consumed by Partition::from; afterwards it is reachable only through the graph of its nodes
use petgraph::graph::DiGraph;
use robopoker::mccfr::data::Data;
use robopoker::mccfr::edge::Edge;
pub struct TreeView<'a>(pub &'a DiGraph<Data, Edge>);
fn tree_walker(p: &Profile) -> Player {
    p.walker()
}
pub fn dump_view(t: &TreeView, walker: Player, profile: &Profile, epoch: usize, fresh: bool, infos: &[(Info, Vec<(String, u32)>, Vec<(String, u32)>)]) -> String {
    let enc = Encoder::default();
    let w = match walker { Player(Turn::Choice(i)) => i, _ => 9 };
    let mut toks: Vec<String> = vec![];
    for ix in t.0.node_indices() {
        let node = Node::from((ix, t.0));
        let g = node.data().game();
        let parent = node.parent().map(|p| p.index().index() as i64).unwrap_or(-1);
        let inc = node.incoming().map(edge_tok).unwrap_or("-".into());
        let sigma = match (node.parent(), node.incoming()) {
            (Some(p), Some(e)) => {
                if p.player() == Player::chance() { 1f32.to_bits() } else { profile.weight(p.bucket(), e).to_bits() }
            }
            _ => 1f32.to_bits(),
        };
        let leaf = node.children().is_empty();
        let pays = if leaf {
            catch(|| format!("{}:{}", node.payoff(&Player(Turn::Choice(0))), node.payoff(&Player(Turn::Choice(1))))).unwrap_or("P".into())
        } else {
            "-".into()
        };
        let menu_w = if fresh && !leaf && node.player() != Player::chance() {
            let es: Vec<Edge> = Vec::from(node.bucket().2.clone());
            es.iter().map(|e| format!("{}={}", edge_tok(e), catch(|| profile.weight(node.bucket(), e).to_bits()).map(|b| b.to_string()).unwrap_or("P".into()))).collect::<Vec<_>>().join(",")
        } else {
            "-".into()
        };
        toks.push(format!(
            "{}|{}|{}|{}|{}|{}|{}|{}|{}|{}",
            node.index().index(), parent, inc, state_str(g), turn_code(g.turn()), bkey(node.bucket()), sigma, pays, opp_independent(&node, &enc), menu_w
        ));
    }
    for (info, regrets, policy) in infos {
        let roots = info.roots().iter().map(|n| n.index().index().to_string()).collect::<Vec<_>>().join(",");
        let f = |v: &Vec<(String, u32)>| v.iter().map(|(e, b)| format!("{}={}", e, b)).collect::<Vec<_>>().join(",");
        toks.push(format!("I{}|{}|{}|{}", bkey(info.node().bucket()), roots, f(regrets), f(policy)));
    }
    format!("tree {} {} {} | {}", w, epoch, fresh as u8, toks.join(" "))
}
