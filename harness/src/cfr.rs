//! sampled trees of the solver (C08, C10): real Blueprint::tree() through the hooks, a few training
//! epochs, every tree dumped with what the models need.
//! line `tree <walker> <epoch> <fresh> | <node> <node> ... I<infoset> ...`
use crate::util::*;
use crate::walk::{edge_tok, state_str};
use crate::Opts;
use robopoker::cards::hand::Hand;
use robopoker::cards::hole::Hole;
use robopoker::gameplay::ply::Turn;
use robopoker::mccfr::blueprint::Blueprint;
use robopoker::mccfr::bucket::Bucket;
use robopoker::mccfr::encoder::Encoder;
use robopoker::mccfr::info::Info;
use robopoker::mccfr::node::Node;
use robopoker::mccfr::partition::Partition;
use robopoker::mccfr::player::Player;
use robopoker::mccfr::profile::Profile;

fn bkey(b: &Bucket) -> String {
    format!("{}.{}.{}", u64::from(b.0), u64::from(b.1), u64::from(b.2))
}
fn turn_code(t: Turn) -> String {
    match t {
        Turn::Terminal => "T".into(),
        Turn::Chance => "C".into(),
        Turn::Choice(i) => format!("P{}", i),
    }
}
/// is the bucket's card abstraction unchanged when the opponent's hole cards are replaced?
/// `encoded`: the tree was built through the Encoder (solver trees): then the abstraction the NODE carries must be the
/// encoder's abstraction of the actor's own cards and the board, whatever the opponent holds; hand-built trees carry
/// an abstraction fixed per street, for which only the encoder's function itself is probed.
fn opp_independent(node: &Node, enc: &Encoder, encoded: bool) -> u8 {
    let g = node.data().game();
    let seats = g.verif_seats();
    let actor = match g.turn() {
        Turn::Choice(i) => i,
        _ => return 1,
    };
    let board = u64::from(Hand::from(g.board()));
    let mine = u64::from(Hand::from(seats[actor].cards()));
    let free = DECK_MASK & !(board | mine);
    // the two lowest free cards as the opponent's new hole
    let a = free & free.wrapping_neg();
    let rest = free & !a;
    let b = rest & rest.wrapping_neg();
    let mut holes = [seats[0].cards(), seats[1].cards()];
    holes[1 - actor] = Hole::from(Hand::from(a | b));
    let g2 = g.clone().verif_with_holes(holes);
    if encoded {
        (*node.data().abstraction() == enc.abstraction(&g2)) as u8
    } else {
        (enc.abstraction(&g2) == enc.abstraction(g)) as u8
    }
}

pub fn run(o: &Opts, deck: &str) -> String {
    let mut out = Shards::new(&o.out, "cfr", o.shards);
    out.directive(&format!("@deck {}", deck));
    let runs = if o.thorough() { 40 } else { 6 };
    let epochs = if o.thorough() { 30 } else { 12 };
    let per_epoch = 2;
    let mut ntrees = 0u64;
    let mut nnodes = 0u64;
    for _ in 0..runs {
        let bp = Blueprint::verif_new(Profile::default());
        let prof = bp.verif_profile();
        for epoch in 0..epochs {
            let mut updates = vec![];
            let mut rescoring: Option<Vec<Info>> = None;
            for k in 0..per_epoch {
                let fresh = epoch == 0 && k == 0;
                let tree = bp.verif_tree();
                nnodes += tree.all().len() as u64;
                ntrees += 1;
                // the tree is moved into the partition; dump through the infosets' shared Arc
                let infos: Vec<Info> = Vec::<Info>::from(Partition::from(tree));
                let p = prof.read().unwrap();
                let mut dumped: Vec<(Info, Vec<(String, u32)>, Vec<(String, u32)>)> = vec![];
                for info in infos.iter() {
                    let r = catch(|| p.regret_vector(info));
                    let pv = catch(|| p.policy_vector(info));
                    let rv = r.as_ref().map(|m| m.iter().map(|(e, v)| (edge_tok(e), v.to_bits())).collect()).unwrap_or(vec![("P".into(), 0)]);
                    let pp = pv.as_ref().map(|m| m.iter().map(|(e, v)| (edge_tok(e), v.to_bits())).collect()).unwrap_or(vec![("P".into(), 0)]);
                    dumped.push((info.clone(), rv, pp));
                }
                if let Some(first) = infos.first() {
                    let any = first.node();
                    // every Info shares the same tree; reach it through any node's graph
                    let t = TreeView(any.graph());
                    out.line(&dump_view(&t, tree_walker(&p), &p, epoch, fresh, true, &dumped).replacen(" | ", &format!(" {} | ", ntrees), 1));
                }
                if k == per_epoch - 1 && epoch % 3 == 1 {
                    rescoring = Some(dumped.iter().map(|d| d.0.clone()).collect());
                }
                for info in infos {
                    let key = bkey(info.node().bucket());
                    match catch(|| p.counterfactual(info)) {
                        Some(cf) => updates.push(cf),
                        None => out.line(&format!("cfpanic {} {} | P", ntrees, key)),
                    }
                }
            }
            let mut p = prof.write().unwrap();
            for cf in updates.iter() {
                let bucket = cf.info().node().bucket().clone();
                p.add_regret(&bucket, cf.regret());
                p.add_policy(&bucket, cf.policy());
            }
            // the information sets of the epoch's last tree scored AGAIN, now that the profile has moved (same traverser):
            // the recorded regret is a function of (tree, profile), not of what was computed before
            if let Some(kept) = rescoring.take() {
                let mut dumped2: Vec<(Info, Vec<(String, u32)>, Vec<(String, u32)>)> = vec![];
                for info in kept.iter() {
                    let r = catch(|| p.regret_vector(info));
                    let rv = r.as_ref().map(|m| m.iter().map(|(e, v)| (edge_tok(e), v.to_bits())).collect()).unwrap_or(vec![("P".into(), 0)]);
                    dumped2.push((info.clone(), rv, vec![]));
                }
                if let Some(first) = kept.first() {
                    let t = TreeView(first.node().graph());
                    ntrees += 1;
                    out.line(&dump_view(&t, tree_walker(&p), &p, epoch, false, true, &dumped2).replacen(" | ", &format!(" {} | ", ntrees), 1));
                }
            }
            p.next();
        }
    }
    // trees holding an information set with two or more sampled nodes (a Bucket recalls 16 edges, so these are lines
    // deeper than that; about one solver tree in 6000 under a fresh profile).  External-sampling trees built through
    // the public API exactly as Blueprint::tree does, except that the opponent's single sampled action is chosen here
    // to keep the hand going: the estimator under test does not depend on how that action was drawn.
    let want = if o.thorough() { 80 } else { 12 };
    let tries = if o.thorough() { 100_000 } else { 20_000 };
    let mut multi = 0u64;
    let mut tried = 0u64;
    let mut rng = Rng::new(o.seed, 8);
    while multi < want && tried < tries {
        tried += 1;
        let mut profile = Profile::default();
        if tried % 2 == 0 {
            profile.next(); // the other traverser
        }
        let picks: Vec<u64> = (0..64).map(|_| rng.next()).collect();
        let (members, who) = match catch(|| find_group(&picks)) {
            Some(Some(x)) => x,
            _ => continue,
        };
        if who != profile.walker() {
            profile.next();
        }
        let tree = match catch(|| deep_es_tree(&mut profile, &members)) {
            Some(Some(t)) => t,
            other => { if std::env::var("VERIF_DEBUG").is_ok() { eprintln!("deep_es_tree: {}", if other.is_none() { "panic" } else { "too big" }); } continue; }
        };
        if std::env::var("VERIF_DEBUG").is_ok() {
            let all = tree.all();
            let maxd = all.iter().map(|n| n.history().len()).max().unwrap_or(0);
            let deepw = all.iter().filter(|n| n.history().len() > 16 && n.player() == profile.walker() && n.children().len() > 0).count();
            let mut g: std::collections::HashMap<String, usize> = Default::default();
            for n in all.iter().filter(|n| n.player() == profile.walker() && n.children().len() > 0) { *g.entry(bkey(n.bucket())).or_default() += 1; }
            let coll = g.values().filter(|c| **c >= 2).count();
            let sample: Vec<String> = all.iter().filter(|n| n.history().len() > 16 && n.player() == profile.walker() && n.children().len() > 0).take(4).map(|n| format!("{} h={}", n.bucket(), n.history().iter().map(|e| edge_tok(e)).collect::<Vec<_>>().join(""))).collect();
            eprintln!("deep_es_tree: {} nodes, max depth {}, walker nodes deeper than 16: {}, colliding buckets {} :: {:?}", all.len(), maxd, deepw, coll, sample);
        }
        // does some bucket hold two of the traverser's decision nodes?  (counted on the tree itself, not on what the
        // partition reports)
        let crowded = {
            let mut seen: std::collections::HashMap<String, usize> = Default::default();
            for n in tree.all().iter().filter(|n| n.player() == profile.walker() && !n.children().is_empty()) {
                *seen.entry(bkey(n.bucket())).or_default() += 1;
            }
            seen.values().any(|c| *c >= 2)
        };
        let infos: Vec<Info> = Vec::<Info>::from(Partition::from(tree));
        if !crowded {
            continue;
        }
        multi += 1;
        ntrees += 1;
        let p = &profile;
        let mut dumped: Vec<(Info, Vec<(String, u32)>, Vec<(String, u32)>)> = vec![];
        for info in infos.iter() {
            let r = catch(|| p.regret_vector(info));
            let pv = catch(|| p.policy_vector(info));
            let rv = r.as_ref().map(|m| m.iter().map(|(e, v)| (edge_tok(e), v.to_bits())).collect()).unwrap_or(vec![("P".into(), 0)]);
            let pp = pv.as_ref().map(|m| m.iter().map(|(e, v)| (edge_tok(e), v.to_bits())).collect()).unwrap_or(vec![("P".into(), 0)]);
            dumped.push((info.clone(), rv, pp));
        }
        if let Some(first) = infos.first() {
            let any = first.node();
            nnodes += any.graph().node_count() as u64;
            let t = TreeView(any.graph());
            out.line(&dump_view(&t, tree_walker(p), p, p.epochs(), false, false, &dumped).replacen(" | ", &format!(" {} | ", ntrees), 1));
        }
        // the same tree under a profile in which every action the opponent was sampled to take has a denormal weight
        // (3.8e-41: what add_policy stores at epoch 0 for an action without positive regret): reaches underflow in
        // binary32, values become inf / NaN -- recorded regrets must still be finite, inside the clamp, and nothing aborts
        if let Some(first) = infos.first() {
            let graph = first.node().graph();
            let walker = profile.walker();
            let mut tiny: std::collections::HashSet<(u64, u64, u64, u64)> = Default::default();
            let mut skewed: std::collections::HashSet<(u64, u64, u64)> = Default::default();
            for ix in graph.node_indices() {
                let node = Node::from((ix, graph));
                if node.player() != walker && node.player() != Player::chance() {
                    for c in node.children() {
                        if let Some(e) = c.incoming() {
                            let b = node.bucket();
                            tiny.insert((u64::from(b.0), u64::from(b.1), u64::from(b.2), u64::from(*e)));
                            skewed.insert((u64::from(b.0), u64::from(b.1), u64::from(b.2)));
                        }
                    }
                }
            }
            let rows: Vec<(u64, u64, u64, u64, f32, f32)> = profile
                .verif_rows()
                .into_iter()
                .map(|r| {
                    if tiny.contains(&(r.0, r.1, r.2, r.3)) { (r.0, r.1, r.2, r.3, r.4, f32::from_bits(27_000)) }
                    else if skewed.contains(&(r.0, r.1, r.2)) { (r.0, r.1, r.2, r.3, r.4, 1.0) }
                    else { r }
                })
                .collect();
            // ... and under a profile that merely makes the sampled line unlikely (each sampled opponent action at ~2%:
            // the line's probability falls below 1e-7 without any underflow): a full `tree` line, estimator included
            {
                let rows2: Vec<(u64, u64, u64, u64, f32, f32)> = profile
                    .verif_rows()
                    .into_iter()
                    .map(|r| {
                        if tiny.contains(&(r.0, r.1, r.2, r.3)) { (r.0, r.1, r.2, r.3, r.4, 0.02) }
                        else if skewed.contains(&(r.0, r.1, r.2)) { (r.0, r.1, r.2, r.3, r.4, 1.0) }
                        else { r }
                    })
                    .collect();
                let mut q2 = Profile::verif_from_rows(&rows2);
                q2.verif_set_epochs(profile.epochs());
                let mut dumped2: Vec<(Info, Vec<(String, u32)>, Vec<(String, u32)>)> = vec![];
                for info in infos.iter() {
                    let r = catch(|| q2.regret_vector(info));
                    let rv = r.as_ref().map(|m| m.iter().map(|(e, v)| (edge_tok(e), v.to_bits())).collect()).unwrap_or(vec![("P".into(), 0)]);
                    dumped2.push((info.clone(), rv, vec![]));
                }
                let t = TreeView(graph);
                ntrees += 1;
                out.line(&dump_view(&t, tree_walker(&q2), &q2, q2.epochs(), false, false, &dumped2).replacen(" | ", &format!(" {} | ", ntrees), 1));
            }
            let mut q = Profile::verif_from_rows(&rows);
            q.verif_set_epochs(profile.epochs());
            let toks: Vec<String> = infos
                .iter()
                .map(|info| {
                    let r = catch(|| q.regret_vector(info));
                    format!("I{}|{}|{}", bkey(info.node().bucket()), info.roots().len(),
                        r.map(|m| m.iter().map(|(e, v)| format!("{}={}", edge_tok(e), v.to_bits())).collect::<Vec<_>>().join(",")).unwrap_or("P".into()))
                })
                .collect();
            out.line(&format!("utree {} | {}", ntrees, toks.join(" ")));
            // ... and with the traverser's own strategy degenerate as well (the first action of every traverser bucket
            // weighs 1, the others 3.8e-41): a counterfactual value can then overflow to +inf while the expected value stays
            // finite -- the recorded regret must still be finite and inside the clamp
            {
                let mut first: std::collections::HashSet<(u64, u64, u64)> = Default::default();
                let rows3: Vec<(u64, u64, u64, u64, f32, f32)> = rows
                    .iter()
                    .map(|r| {
                        if tiny.contains(&(r.0, r.1, r.2, r.3)) || skewed.contains(&(r.0, r.1, r.2)) { *r }
                        else if first.insert((r.0, r.1, r.2)) { (r.0, r.1, r.2, r.3, r.4, 1.0) }
                        else { (r.0, r.1, r.2, r.3, r.4, f32::from_bits(27_000)) }
                    })
                    .collect();
                let mut q3 = Profile::verif_from_rows(&rows3);
                q3.verif_set_epochs(profile.epochs());
                let toks: Vec<String> = infos
                    .iter()
                    .map(|info| {
                        let r = catch(|| q3.regret_vector(info));
                        format!("I{}|{}|{}", bkey(info.node().bucket()), info.roots().len(),
                            r.map(|m| m.iter().map(|(e, v)| format!("{}={}", edge_tok(e), v.to_bits())).collect::<Vec<_>>().join(",")).unwrap_or("P".into()))
                    })
                    .collect();
                out.line(&format!("utree {} | {}", ntrees + 500_000, toks.join(" ")));
                // one site only: a traverser action with a denormal probability leading to an opponent node whose sampled
                // action has a denormal weight, everything else as the profile has it.  The counterfactual value of that
                // action overflows to +inf while the expected value stays finite: the recorded regret must be REGRET_MAX
                'site: for ix in graph.node_indices() {
                    let h = Node::from((ix, graph));
                    if h.player() != walker || h.children().len() < 2 { continue; }
                    for c in h.children().into_iter().skip(1) {
                        if c.player() == walker || c.player() == Player::chance() || c.children().is_empty() { continue; }
                        let (hb, cb) = (h.bucket(), c.bucket());
                        let a = u64::from(*c.incoming().unwrap());
                        let e = u64::from(*c.children()[0].incoming().unwrap());
                        let hk = (u64::from(hb.0), u64::from(hb.1), u64::from(hb.2));
                        let ck = (u64::from(cb.0), u64::from(cb.1), u64::from(cb.2));
                        let rows5: Vec<(u64, u64, u64, u64, f32, f32)> = profile.verif_rows().into_iter().map(|r| {
                            let k = (r.0, r.1, r.2);
                            if k == hk { (r.0, r.1, r.2, r.3, r.4, if r.3 == a { f32::from_bits(27_000) } else { 1.0 }) }
                            else if k == ck { (r.0, r.1, r.2, r.3, r.4, if r.3 == e { f32::from_bits(27_000) } else { 1.0 }) }
                            else { r }
                        }).collect();
                        let mut q5 = Profile::verif_from_rows(&rows5);
                        q5.verif_set_epochs(profile.epochs());
                        let toks: Vec<String> = infos.iter().map(|info| {
                            let r = catch(|| q5.regret_vector(info));
                            format!("I{}|{}|{}", bkey(info.node().bucket()), info.roots().len(),
                                r.map(|m| m.iter().map(|(e, v)| format!("{}={}", edge_tok(e), v.to_bits())).collect::<Vec<_>>().join(",")).unwrap_or("P".into()))
                        }).collect();
                        out.line(&format!("utree {} | {}", ntrees + 900_000, toks.join(" ")));
                        break 'site;
                    }
                }
                // the same traverser strategy with an ordinary opponent: every reach is a normal number except the
                // traverser's own, which never enters the estimator -- a full `tree` line
                let rows4: Vec<(u64, u64, u64, u64, f32, f32)> = {
                    let mut first: std::collections::HashSet<(u64, u64, u64)> = Default::default();
                    profile.verif_rows().into_iter().map(|r| {
                        if skewed.contains(&(r.0, r.1, r.2)) { r }
                        else if first.insert((r.0, r.1, r.2)) { (r.0, r.1, r.2, r.3, r.4, 1.0) }
                        else { (r.0, r.1, r.2, r.3, r.4, f32::from_bits(27_000)) }
                    }).collect()
                };
                let mut q4 = Profile::verif_from_rows(&rows4);
                q4.verif_set_epochs(profile.epochs());
                let mut dumped4: Vec<(Info, Vec<(String, u32)>, Vec<(String, u32)>)> = vec![];
                for info in infos.iter() {
                    let r = catch(|| q4.regret_vector(info));
                    let rv = r.as_ref().map(|m| m.iter().map(|(e, v)| (edge_tok(e), v.to_bits())).collect()).unwrap_or(vec![("P".into(), 0)]);
                    dumped4.push((info.clone(), rv, vec![]));
                }
                let t = TreeView(graph);
                ntrees += 1;
                out.line(&dump_view(&t, tree_walker(&q4), &q4, q4.epochs(), false, false, &dumped4).replacen(" | ", &format!(" {} | ", ntrees), 1));
            }
        }
    }
    // a counterfactual value that overflows while the expected value stays finite: the opponent opens with an all-in his
    // strategy gives a weight of 1e-37, the traverser calls and wins 100 chips (100 / 1e-37 overflows binary32) or folds
    // (2 / 1e-37 does not).  The recorded regret of calling must be the finite clamp REGRET_MAX.
    for attempt in 0..40 {
        let mut profile = Profile::default();
        let tree = match catch(|| deep_es_tree(&mut profile, &[vec![Edge::Shove]])) { Some(Some(t)) => t, _ => continue };
        let walker = profile.walker();
        let won = tree.all().iter().any(|n| n.children().is_empty() && n.history().len() > 2 && catch(|| n.payoff(&walker)).map(|x| x > 50.0).unwrap_or(false));
        if !won { continue; }
        let root_b = { let r = tree.at(petgraph::graph::NodeIndex::new(0)); let b = r.bucket(); (u64::from(b.0), u64::from(b.1), u64::from(b.2)) };
        let shove = u64::from(Edge::Shove);
        let fold = u64::from(Edge::Fold);
        let infos: Vec<Info> = Vec::<Info>::from(Partition::from(tree));
        let rows: Vec<(u64, u64, u64, u64, f32, f32)> = profile.verif_rows().into_iter().map(|r| {
            if (r.0, r.1, r.2) == root_b { (r.0, r.1, r.2, r.3, r.4, if r.3 == shove { 1e-37 } else { 1.0 }) }
            else { (r.0, r.1, r.2, r.3, r.4, if r.3 == fold { 1.0 } else { 1e-30 }) }
        }).collect();
        let mut q = Profile::verif_from_rows(&rows);
        q.verif_set_epochs(profile.epochs());
        let toks: Vec<String> = infos.iter().map(|info| {
            let r = catch(|| q.regret_vector(info));
            format!("I{}|{}|{}", bkey(info.node().bucket()), info.roots().len(),
                r.map(|m| m.iter().map(|(e, v)| format!("{}={}", edge_tok(e), v.to_bits())).collect::<Vec<_>>().join(",")).unwrap_or("P".into()))
        }).collect();
        out.line(&format!("utree {} | {}", 950_000 + attempt, toks.join(" ")));
        break;
    }
    let lines = out.finish();
    format!("{{\"lines\":{},\"trees\":{},\"nodes\":{},\"trees_with_multi_node_infosets\":{},\"trees_sampled_to_find_them\":{}}}", lines, ntrees, nnodes, multi, tried)
}

// ---- a Tree is consumed by Partition::from; afterwards it is reachable only through the graph of its nodes
use petgraph::graph::DiGraph;
use robopoker::mccfr::data::Data;
use robopoker::mccfr::edge::Edge;
pub struct TreeView<'a>(pub &'a DiGraph<Data, Edge>);
fn tree_walker(p: &Profile) -> Player {
    p.walker()
}
pub fn dump_view(t: &TreeView, walker: Player, profile: &Profile, epoch: usize, fresh: bool, encoded: bool, infos: &[(Info, Vec<(String, u32)>, Vec<(String, u32)>)]) -> String {
    let enc = Encoder::default();
    let w = match walker { Player(Turn::Choice(i)) => i, _ => 9 };
    let mut toks: Vec<String> = vec![];
    for ix in t.0.node_indices() {
        let node = Node::from((ix, t.0));
        let g = node.data().game();
        let parent = node.parent().map(|p| p.index().index() as i64).unwrap_or(-1);
        let inc = node.incoming().map(edge_tok).unwrap_or("-".into());
        let sigma = match (node.parent(), node.incoming()) {
            (Some(p), Some(e)) => {
                if p.player() == Player::chance() { 1f32.to_bits() } else { profile.weight(p.bucket(), e).to_bits() }
            }
            _ => 1f32.to_bits(),
        };
        let leaf = node.children().is_empty();
        let pays = if leaf {
            catch(|| format!("{}:{}", node.payoff(&Player(Turn::Choice(0))), node.payoff(&Player(Turn::Choice(1))))).unwrap_or("P".into())
        } else {
            "-".into()
        };
        let menu_w = if fresh && !leaf && node.player() != Player::chance() {
            let es: Vec<Edge> = Vec::from(node.bucket().2.clone());
            es.iter().map(|e| format!("{}={}", edge_tok(e), catch(|| profile.weight(node.bucket(), e).to_bits()).map(|b| b.to_string()).unwrap_or("P".into()))).collect::<Vec<_>>().join(",")
        } else {
            "-".into()
        };
        toks.push(format!(
            "{}|{}|{}|{}|{}|{}|{}|{}|{}|{}",
            node.index().index(), parent, inc, state_str(g), turn_code(g.turn()), bkey(node.bucket()), sigma, pays, opp_independent(&node, &enc, encoded), menu_w
        ));
    }
    for (info, regrets, policy) in infos {
        let roots = info.roots().iter().map(|n| n.index().index().to_string()).collect::<Vec<_>>().join(",");
        let f = |v: &Vec<(String, u32)>| v.iter().map(|(e, b)| format!("{}={}", e, b)).collect::<Vec<_>>().join(",");
        toks.push(format!("I{}|{}|{}|{}", bkey(info.node().bucket()), roots, f(regrets), f(policy)));
    }
    format!("tree {} {} {} | {}", w, epoch, fresh as u8, toks.join(" "))
}

use robopoker::clustering::abstraction::Abstraction;
use robopoker::gameplay::game::Game;
use robopoker::mccfr::tree::{Branch, Tree};
fn fixed_data(g: Game) -> Data {
    Data::from((g, Abstraction::from((g.street(), 7))))
}
fn fixed_branches(node: &Node) -> Vec<Branch> {
    node.branches().into_iter().map(|(e, g)| Branch(fixed_data(g), e, node.index())).collect()
}
/// search: a random line of 16 small-bet edges, everything three plies below it; two or more decision nodes of one
/// player that share a Bucket and whose paths never ask the other player for two different actions at one node.
/// Returns the members' full histories and the player.
fn find_group(picks: &[u64]) -> Option<(Vec<Vec<Edge>>, Player)> {
    let mut tree = Tree::empty(Player::default());
    let mut head = tree.plant(fixed_data(Game::root())).index();
    for k in 0..16 {
        let mut brs: Vec<Branch> = { let node = tree.at(head); fixed_branches(&node) };
        brs.retain(|b| !matches!(b.edge(), Edge::Fold | Edge::Shove));
        if brs.is_empty() {
            return None;
        }
        let mut raises: Vec<usize> = (0..brs.len()).filter(|i| matches!(brs[*i].edge(), Edge::Raise(_))).collect();
        raises.sort_by(|a, b| match (brs[*a].edge(), brs[*b].edge()) {
            (Edge::Raise(x), Edge::Raise(y)) => (x.0 as i64 * y.1 as i64).cmp(&(y.0 as i64 * x.1 as i64)),
            _ => std::cmp::Ordering::Equal,
        });
        let passive: Vec<usize> = (0..brs.len()).filter(|i| !matches!(brs[*i].edge(), Edge::Raise(_))).collect();
        let idx = if !raises.is_empty() && (picks[k] % 2 != 0 || passive.is_empty()) { raises[if picks[k] % 7 == 0 && raises.len() > 1 { 1 } else { 0 }] } else { passive[(picks[k] / 3) as usize % passive.len()] };
        head = tree.fork(brs.swap_remove(idx)).index();
    }
    let mut frontier = vec![head];
    let mut below = vec![];
    for _ in 0..3 {
        let mut next = vec![];
        for h in frontier {
            let brs = { let node = tree.at(h); fixed_branches(&node) };
            for b in brs {
                let c = tree.fork(b).index();
                next.push(c);
                below.push(c);
            }
        }
        frontier = next;
        if below.len() > 3000 { break; }
    }
    let mut groups: std::collections::BTreeMap<(String, String), Vec<petgraph::graph::NodeIndex>> = Default::default();
    for c in below {
        let node = tree.at(c);
        if node.player() != Player::chance() && node.branches().len() > 1 {
            groups.entry((bkey(node.bucket()), turn_code(node.data().game().turn()))).or_default().push(c);
        }
    }
    for (_, members) in groups.iter().filter(|(_, m)| m.len() >= 2) {
        let who = tree.at(members[0]).player();
        // greedily keep members whose paths are compatible at the other player's nodes
        let mut script: std::collections::HashMap<Vec<Edge>, Edge> = Default::default();
        let mut kept: Vec<Vec<Edge>> = vec![];
        for m in members {
            let hist: Vec<Edge> = tree.at(*m).history().into_iter().copied().collect();
            let mut add: Vec<(Vec<Edge>, Edge)> = vec![];
            let mut ok = true;
            let mut cur = tree.at(petgraph::graph::NodeIndex::new(0));
            for (i, e) in hist.iter().enumerate() {
                if cur.player() != who && cur.player() != Player::chance() {
                    let key = hist[..i].to_vec();
                    match script.get(&key) {
                        Some(x) if x != e => { ok = false; break; }
                        _ => add.push((key, *e)),
                    }
                }
                cur = match cur.follow(e) { Some(n) => n, None => { ok = false; break; } };
            }
            if ok {
                for (k, v) in add { script.insert(k, v); }
                kept.push(hist);
            }
        }
        if kept.len() >= 2 {
            return Some((kept, who));
        }
    }
    None
}
/// Blueprint::tree with the opponent's sampled action scripted: along the members' paths he plays what they need,
/// anywhere else he gives up (fold, else check, else call)
fn deep_es_tree(profile: &mut Profile, members: &[Vec<Edge>]) -> Option<Tree> {
    let walker = profile.walker();
    let chance = Player::chance();
    let mut tree = Tree::empty(walker);
    let mut todo: Vec<Branch> = {
        let root = tree.plant(fixed_data(Game::root()));
        let brs = fixed_branches(&root);
        sample_es(profile, brs, &root, walker, chance, members)
    };
    while let Some(branch) = todo.pop() {
        let node = tree.fork(branch);
        let brs = fixed_branches(&node);
        let children = sample_es(profile, brs, &node, walker, chance, members);
        todo.extend(children);
        if node.graph().node_count() > 60_000 {
            return None;
        }
    }
    Some(tree)
}
fn sample_es(profile: &mut Profile, mut brs: Vec<Branch>, node: &Node, walker: Player, chance: Player, members: &[Vec<Edge>]) -> Vec<Branch> {
    if brs.is_empty() {
        return vec![];
    }
    let p = node.player();
    if p == chance {
        profile.explore_any(brs, node)
    } else if p == walker {
        profile.witness(node, &brs);
        profile.explore_all(brs, node)
    } else {
        profile.witness(node, &brs);
        let hist: Vec<Edge> = node.history().into_iter().copied().collect();
        let wanted = members.iter().find(|m| m.len() > hist.len() && m[..hist.len()] == hist[..]).map(|m| m[hist.len()]);
        let idx = wanted
            .and_then(|w| brs.iter().position(|b| *b.edge() == w))
            .or_else(|| [Edge::Fold, Edge::Check, Edge::Call].iter().find_map(|w| brs.iter().position(|b| b.edge() == w)))
            .unwrap_or(0);
        vec![brs.swap_remove(idx)]
    }
}
