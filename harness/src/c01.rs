//! C01 -- hand evaluator: strengths of 5..7 card hands and their order
use crate::util::*;
use crate::Opts;
use robopoker::cards::hand::Hand;
use robopoker::cards::ranking::Ranking;
use robopoker::cards::strength::Strength;
use std::cmp::Ordering;

fn r(x: robopoker::cards::rank::Rank) -> u8 {
    u8::from(x)
}
pub fn strength_str(s: &Strength) -> String {
    let (name, a, b) = match s.verif_value() {
        Ranking::HighCard(x) => ("HighCard", r(x), 0),
        Ranking::OnePair(x) => ("OnePair", r(x), 0),
        Ranking::TwoPair(x, y) => ("TwoPair", r(x), r(y)),
        Ranking::ThreeOAK(x) => ("ThreeOAK", r(x), 0),
        Ranking::Straight(x) => ("Straight", r(x), 0),
        Ranking::FullHouse(x, y) => ("FullHouse", r(x), r(y)),
        Ranking::Flush(x) => ("Flush", r(x), 0),
        Ranking::FourOAK(x) => ("FourOAK", r(x), 0),
        Ranking::StraightFlush(x) => ("StraightFlush", r(x), 0),
        Ranking::MAX => ("RMAX", 0, 0),
    };
    format!("{} {} {} {}", name, a, b, u16::from(s.kicks))
}
fn ord_str(o: Ordering) -> &'static str {
    match o {
        Ordering::Less => "lt",
        Ordering::Equal => "eq",
        Ordering::Greater => "gt",
    }
}
fn eval(h: u64) -> Option<Strength> {
    catch(|| Strength::from(Hand::from(h)))
}
fn str_line(h: u64) -> String {
    format!("str {} | {}", h, eval(h).map(|s| strength_str(&s)).unwrap_or("PANIC 0 0 0".into()))
}
fn cmp_line(a: u64, b: u64) -> String {
    let o = catch(|| Strength::from(Hand::from(a)).cmp(&Strength::from(Hand::from(b))));
    format!("cmp {} {} | {}", a, b, o.map(ord_str).unwrap_or("PANIC"))
}

/// structured hand of n cards: forced flushes, straights, wheels, paired boards
fn structured(rng: &mut Rng, n: usize, cards: &[u8]) -> u64 {
    let ranks: Vec<u8> = {
        let mut v: Vec<u8> = cards.iter().map(|c| c / 4).collect();
        v.dedup();
        v
    };
    let lo = ranks[0];
    let mut h = 0u64;
    match rng.below(8) {
        0 => {
            // five or more of one suit
            let s = rng.below(4) as u8;
            let suited: Vec<u8> = cards.iter().copied().filter(|c| c % 4 == s).collect();
            let k = 5 + rng.below((n - 4) as u64) as usize;
            let mut m = 0u64;
            for c in suited {
                m |= 1u64 << c;
            }
            h |= rng.cards(k.min(n), m);
        }
        1 => {
            // run of five consecutive ranks (or the wheel), random suits
            let start = rng.below((ranks.len() - 3) as u64) as usize;
            for i in 0..5 {
                let rk = if start == 0 && i == 0 { 12 } else { lo + (start as u8) + i as u8 - 1 };
                h |= 1u64 << (rk * 4 + rng.below(4) as u8);
            }
        }
        2 => {
            // straight flush material
            let s = rng.below(4) as u8;
            let start = rng.below((ranks.len() - 3) as u64) as usize;
            for i in 0..5 {
                let rk = if start == 0 && i == 0 { 12 } else { lo + (start as u8) + i as u8 - 1 };
                h |= 1u64 << (rk * 4 + s);
            }
        }
        3 | 4 => {
            // pairs / trips / quads
            let groups = 1 + rng.below(3) as usize;
            for _ in 0..groups {
                let rk = ranks[rng.below(ranks.len() as u64) as usize];
                let k = 2 + rng.below(3) as usize;
                h |= rng.cards(k, 0xFu64 << (rk * 4));
            }
        }
        _ => {}
    }
    let have = h.count_ones() as usize;
    if have > n {
        // drop random cards
        while h.count_ones() as usize > n {
            let bits: Vec<u8> = (0..52u8).filter(|c| h >> c & 1 == 1).collect();
            h &= !(1u64 << bits[rng.below(bits.len() as u64) as usize]);
        }
    } else {
        h |= rng.cards(n - have, DECK_MASK & !h);
    }
    h
}

fn for_each_comb(cards: &[u8], k: usize, f: &mut dyn FnMut(u64)) {
    fn go(cards: &[u8], k: usize, start: usize, acc: u64, f: &mut dyn FnMut(u64)) {
        if k == 0 {
            f(acc);
            return;
        }
        for i in start..=cards.len() - k {
            go(cards, k - 1, i + 1, acc | 1u64 << cards[i], f);
        }
    }
    go(cards, k, 0, 0, f);
}

pub fn run(o: &Opts, deck: &str) -> String {
    let mut out = Shards::new(&o.out, "c01", o.shards);
    out.directive(&format!("@deck {}", deck));
    let mut rng = Rng::new(o.seed, 1);
    let cards: Vec<u8> = (0..52u8).filter(|c| DECK_MASK >> c & 1 == 1).collect();
    // every five-card hand
    for_each_comb(&cards, 5, &mut |h| out.line(&str_line(h)));
    if o.thorough() {
        for_each_comb(&cards, 6, &mut |h| out.line(&str_line(h)));
        if deck == "short" {
            for_each_comb(&cards, 7, &mut |h| out.line(&str_line(h)));
        }
    }
    let ns = if o.thorough() { 12_000_000 } else { 600_000 };
    for i in 0..ns {
        let n = if i % 3 == 0 { 6 } else { 7 };
        let h = structured(&mut rng, n, &cards);
        out.line(&str_line(h));
    }
    // ordered pairs: random, same-class neighbours (one card changed), shared boards
    let np = if o.thorough() { 6_000_000 } else { 500_000 };
    for i in 0..np {
        let n = 5 + (i % 3) as usize;
        let a = structured(&mut rng, n, &cards);
        let b = match i % 4 {
            0 => { let m = 5 + rng.below(3) as usize; structured(&mut rng, m, &cards) }
            1 | 2 => {
                // change one card of a
                let bits: Vec<u8> = (0..52u8).filter(|c| a >> c & 1 == 1).collect();
                let drop = bits[rng.below(bits.len() as u64) as usize];
                (a & !(1u64 << drop)) | rng.cards(1, DECK_MASK & !a)
            }
            _ => {
                // shared board of five, different hole cards
                let board = rng.cards(n.min(5), a);
                board | rng.cards(2, DECK_MASK & !board)
            }
        };
        out.line(&cmp_line(a, b));
    }
    let lines = out.finish();
    format!("{{\"lines\":{}}}", lines)
}
