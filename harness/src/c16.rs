//! C16 -- text parsers under catch_unwind: grammar-guided mutations of valid encodings, a malformed
//! stream over a fixed alphabet of code points, and print -> parse round trips
use crate::util::*;
use crate::walk::act_tok;
use crate::Opts;
use robopoker::cards::card::Card;
use robopoker::cards::hand::Hand;
use robopoker::cards::hole::Hole;
use robopoker::cards::observation::Observation;
use robopoker::cards::street::Street;
use robopoker::clustering::abstraction::Abstraction;
use robopoker::gameplay::action::Action;
use robopoker::gameplay::ply::Turn;

const KINDS: [&str; 8] = ["card", "hand", "hole", "obs", "street", "abs", "action", "turn"];
/// code points the malformed stream draws from (the model's std-function tables are validated on these)
const ALPHABET: [u32; 47] = [
    0x20, 0x09, 0x0A, 0x0D, 0xA0, 0x85, 0x2003, 0x3000, 0x200B, 0x00, // whitespace and look-alikes, NUL
    0x41, 0x61, 0x4B, 0x6B, 0x54, 0x74, 0x32, 0x39, 0x63, 0x64, 0x68, 0x73, 0x53, 0x43, // rank and suit letters
    0x7E, 0x3A, 0x2B, 0x2D, 0x30, 0x31, 0x66, 0x50, 0x58, 0x3F, // ~ : + - digits hex P X ?
    0xE9, 0x2663, 0x2660, 0x1F600, 0x0301, 0x17F, 0x212A, 0xFB00, 0x131, 0xDF, // 2-,3-,4-byte, combining, case-mapping oddities
    0x1E97, 0xFB03, 0xFB04, // the other code points whose upper case starts with one of the letters the parsers match on (T, F)
];
fn cps(s: &str) -> String {
    if s.is_empty() {
        "-".into()
    } else {
        s.chars().map(|c| (c as u32).to_string()).collect::<Vec<_>>().join(",")
    }
}
fn turn_s(t: &Turn) -> String {
    match t {
        Turn::Terminal => "T".into(),
        Turn::Chance => "C".into(),
        Turn::Choice(i) => format!("P{}", i),
    }
}
fn parse(kind: &str, s: &str) -> String {
    let r: Option<Option<String>> = catch(|| match kind {
        "card" => Card::try_from(s).ok().map(|c| format!("{} rt{}", u8::from(c), (Card::try_from(c.to_string().as_str()).ok() == Some(c)) as u8)),
        "hand" => Hand::try_from(s).ok().map(|h| u64::from(h).to_string()),
        "hole" => Hole::try_from(s).ok().map(|h| u64::from(Hand::from(h)).to_string()),
        "obs" => Observation::try_from(s).ok().map(|o| format!("{}:{} rt{}", u64::from(*o.pocket()), u64::from(*o.public()), (Observation::try_from(o.to_string().as_str()).ok() == Some(o)) as u8)),
        "street" => Street::try_from(s).ok().map(|x| (x as isize).to_string()),
        // the value a parser returns must itself survive print -> parse (two values that print alike must be equal)
        "abs" => Abstraction::try_from(s).ok().map(|a| format!("{} rt{}", u64::from(a), (Abstraction::try_from(a.to_string().as_str()).ok() == Some(a)) as u8)),
        "action" => Action::try_from(s).ok().map(|a| format!("{} rt{}", act_tok(&a), (Action::try_from(a.to_string().as_str()).ok() == Some(a)) as u8)),
        "turn" => Turn::try_from(s).ok().map(|t| turn_s(&t)),
        _ => unreachable!(),
    });
    match r {
        None => "panic".into(),
        Some(None) => "err".into(),
        Some(Some(v)) => format!("ok {}", v),
    }
}
fn line(kind: &str, s: &str) -> String {
    format!("parse {} {} | {}", kind, cps(s), parse(kind, s))
}
fn card_str(c: u8) -> String {
    Card::from(c).to_string()
}
fn valid(kind: &str, rng: &mut Rng) -> String {
    let card = |rng: &mut Rng| card_str(rng.below(52) as u8);
    match kind {
        "card" => card(rng),
        "hand" => (0..rng.below(6)).map(|_| card(rng)).collect::<Vec<_>>().join(if rng.chance(0.5) { " " } else { "" }),
        "hole" => format!("{}{}{}", card(rng), if rng.chance(0.5) { " " } else { "" }, card(rng)),
        "obs" => {
            let k = [0usize, 3, 4, 5][rng.below(4) as usize];
            let pk = rng.cards(2, 0x000FFFFFFFFFFFFF);
            let pb = if rng.chance(0.85) { rng.cards(k, 0x000FFFFFFFFFFFFF & !pk) } else { rng.cards(k, 0x000FFFFFFFFFFFFF) };
            let h = |m: u64| Hand::from(m).to_string();
            if k == 0 && rng.chance(0.5) { h(pk) } else { format!("{} ~ {}", h(pk), h(pb)) }
        }
        "street" => ["preflop", "flop", "turn", "river", "P", "f", "T", "r"][rng.below(8) as usize].into(),
        "abs" => format!("{}::{:02x}", ["P", "F", "T", "R"][rng.below(4) as usize], rng.below(300)),
        "action" => match rng.below(7) {
            0 => "CHECK".into(),
            1 => "FOLD".into(),
            2 => format!("CALL  {}", rng.range(-5, 200)),
            3 => format!("RAISE {}", rng.range(-5, 40000)),
            4 => format!("SHOVE {}", rng.range(0, 100)),
            5 => format!("BLIND {}", rng.range(0, 3)),
            _ => format!("DEAL  {}", (0..rng.below(4)).map(|_| card(rng)).collect::<Vec<_>>().join(if rng.chance(0.5) { " " } else { "" })),
        },
        _ => ["XX", "??", "P0", "P1", "P17", "P+3"][rng.below(6) as usize].into(),
    }
}
fn mutate(s: &str, rng: &mut Rng) -> String {
    let mut cs: Vec<char> = s.chars().collect();
    let n = 1 + rng.below(3);
    for _ in 0..n {
        let len = cs.len();
        let a = ALPHABET[rng.below(ALPHABET.len() as u64) as usize];
        let ch = char::from_u32(a).unwrap();
        match rng.below(7) {
            0 if len > 0 => { cs.remove(rng.below(len as u64) as usize); }
            1 if len > 0 => { let i = rng.below(len as u64) as usize; let c = cs[i]; cs.insert(i, c); }
            2 if len > 1 => { let i = rng.below(len as u64 - 1) as usize; cs.swap(i, i + 1); }
            3 if len > 0 => { let i = rng.below(len as u64) as usize; cs[i] = if cs[i].is_lowercase() { cs[i].to_ascii_uppercase() } else { cs[i].to_ascii_lowercase() }; }
            4 => { cs.insert(rng.below(len as u64 + 1) as usize, ch); }
            5 if len > 0 => { let i = rng.below(len as u64) as usize; cs[i] = ch; }
            _ => { cs.insert(rng.below(len as u64 + 1) as usize, ' '); }
        }
    }
    cs.into_iter().collect()
}

pub fn run(o: &Opts, _deck: &str) -> String {
    let mut out = Shards::new(&o.out, "c16", o.shards);
    let mut rng = Rng::new(o.seed, 16);
    // fixed corpus: empty, whitespace only, the recorded defects' witnesses
    for k in KINDS {
        for s in ["", " ", "\t\n", "\u{a0}", "é", "\u{301}", "A\u{301}", "♠", "A♠", "a♣", "😀", "As Ks ~ As Qd Jh", "DEAL é", "DEAL", "CALL", "CALL x", "RAISE 32768", "RAISE -32769", "raıse 5", "P", "P-1", "ﬀ", "F::", "::", "P::+a", "P::-1", "T::10000000000000000", "P18446744073709551615", "P18446744073709551616", "P99999999999999999999999", "P00000000000000000000001", "\u{131}", "\u{fb01}", "\u{149}", "chec\u{fb02}", "cal\u{131} 5", "\u{1f0}", "\u{17f}hove 5", "\u{1e97}", "\u{fb03}", "\u{fb04}::0", "\u{fb03}::1f", "AsAs", "As As", "2c2d ~ 2h2s3c3d3h3s"] {
            out.line(&line(k, s));
        }
    }
    let n = if o.thorough() { 5_000_000 } else { 200_000 };
    let mut dist = [0u64; 3];
    for i in 0..n {
        let k = KINDS[i % 8];
        let s = match i % 10 {
            0 | 1 | 2 => valid(k, &mut rng),
            3 | 4 | 5 | 6 => { let v = valid(k, &mut rng); mutate(&v, &mut rng) }
            7 => { let v = valid(KINDS[rng.below(8) as usize], &mut rng); mutate(&v, &mut rng) } // another kind's text
            _ => (0..rng.below(7)).map(|_| char::from_u32(ALPHABET[rng.below(ALPHABET.len() as u64) as usize]).unwrap()).collect(),
        };
        let l = line(k, &s);
        dist[if l.ends_with("panic") { 2 } else if l.ends_with("err") { 1 } else { 0 }] += 1;
        out.line(&l);
    }
    // print -> parse over values
    let pp = |kind: &str, val: String, printed: String| format!("print {} {} | {} {}", kind, val, cps(&printed), parse(kind, &printed));
    for c in 0..52u8 {
        out.line(&pp("card", c.to_string(), card_str(c)));
    }
    let nv = if o.thorough() { 300_000 } else { 30_000 };
    for i in 0..nv {
        match i % 6 {
            0 => { let k = rng.below(8) as usize; let h = rng.cards(k, 0x000FFFFFFFFFFFFF); out.line(&pp("hand", h.to_string(), Hand::from(h).to_string())); }
            1 => { let h = rng.cards(2, 0x000FFFFFFFFFFFFF); out.line(&pp("hole", h.to_string(), Hole::from(Hand::from(h)).to_string())); }
            2 => {
                let k = [0usize, 3, 4, 5][rng.below(4) as usize];
                let pk = rng.cards(2, DECK_MASK);
                let pb = rng.cards(k, DECK_MASK & !pk);
                let ob = Observation::from((Hand::from(pk), Hand::from(pb)));
                out.line(&pp("obs", format!("{}:{}", pk, pb), ob.to_string()));
            }
            3 => {
                let a = match rng.below(7) {
                    0 => Action::Fold, 1 => Action::Check,
                    2 => Action::Call(rng.range(-32768, 32767) as i16), 3 => Action::Raise(rng.range(-300, 32767) as i16),
                    4 => Action::Shove(rng.range(0, 100) as i16), 5 => Action::Blind(rng.range(0, 2) as i16),
                    _ => { let k = rng.below(4) as usize; Action::Draw(Hand::from(rng.cards(k, DECK_MASK))) }
                };
                out.line(&pp("action", act_tok(&a), a.to_string()));
            }
            4 => {
                let s = [Street::Pref, Street::Flop, Street::Turn, Street::Rive][rng.below(4) as usize];
                let all = Abstraction::all(s);
                let a = all[rng.below(all.len() as u64) as usize];
                out.line(&pp("abs", u64::from(a).to_string(), a.to_string()));
            }
            _ => {
                let t = match rng.below(3) { 0 => Turn::Terminal, 1 => Turn::Chance, _ => Turn::Choice(rng.below(1000) as usize) };
                out.line(&pp("turn", turn_s(&t), t.to_string()));
                let s = [Street::Pref, Street::Flop, Street::Turn, Street::Rive][rng.below(4) as usize];
                out.line(&pp("street", (s as isize).to_string(), s.to_string()));
            }
        }
    }
    let lines = out.finish();
    format!("{{\"lines\":{},\"parse_ok\":{},\"parse_err\":{},\"parse_panic\":{}}}", lines, dist[0], dist[1], dist[2])
}
