//! C17 / C18 -- table files: save(), load(), and load() of every strict prefix
use crate::util::*;
use crate::Opts;
use robopoker::cards::hand::Hand;
use robopoker::cards::isomorphism::Isomorphism;
use robopoker::cards::observation::Observation;
use robopoker::cards::street::Street;
use robopoker::clustering::abstraction::Abstraction;
use robopoker::clustering::histogram::Histogram;
use robopoker::clustering::lookup::Lookup;
use robopoker::clustering::metric::Metric;
use robopoker::clustering::transitions::Decomp;
use robopoker::mccfr::edge::Edge;
use robopoker::mccfr::odds::Odds;
use robopoker::mccfr::path::Path;
use robopoker::mccfr::profile::Profile;
use robopoker::save::upload::Table;
use std::collections::BTreeMap;

fn hex(b: &[u8]) -> String {
    if b.is_empty() {
        "-".into()
    } else {
        b.iter().map(|x| format!("{:02x}", x)).collect()
    }
}
fn float_bits(rng: &mut Rng) -> u32 {
    match rng.below(10) {
        0 => 0,                                  // +0
        1 => 0x8000_0000,                        // -0
        2 => f32::MAX.to_bits(),
        3 => (-3e5f32).to_bits(),
        4 => f32::MIN_POSITIVE.to_bits(),
        5 => 0x7fc0_0001 + rng.below(1000) as u32, // NaN payloads
        6 => f32::INFINITY.to_bits(),
        7 => (rng.unit() as f32).to_bits(),
        8 => (-(rng.unit() as f32) * 1e6).to_bits(),
        _ => rng.next() as u32,
    }
}
fn read(path: &str) -> Vec<u8> {
    std::fs::read(path).expect("read saved file")
}
/// outcome of loading every strict prefix: E = failed, S = same as the complete table, D = silently different
fn cuts<T: PartialEq>(path: &str, bytes: &[u8], full: &T, load: &dyn Fn() -> T, every: usize) -> String {
    let mut s = String::new();
    // large files: besides the sampled offsets, every cut within one byte of a row boundary at a multiple of 512 rows
    // (where a loader that reads rows in blocks would end on a full block).  Row lengths of the three tables: 22
    // (metric), 26 (lookup), 66 (profile); recognised by the field-count word that starts every row.
    let rowlen = if bytes.len() > 21 + 4096 {
        [22usize, 26, 66].into_iter().find(|l| (1..6).all(|k| 19 + k * l + 1 < bytes.len() && bytes[19 + k * l] == bytes[19] && bytes[19 + k * l + 1] == bytes[20])).unwrap_or(0)
    } else { 0 };
    for n in 0..bytes.len() {
        let near_block = rowlen > 0 && n + 1 >= 19 + 512 * rowlen && {
            let q = (n + 1 - 19) / (512 * rowlen);
            let b = 19 + q * 512 * rowlen;
            q > 0 && n + 1 >= b && n <= b + 1
        };
        if !near_block && every > 1 && n % every != 0 && n + 40 < bytes.len() && n > 40 {
            s.push('.');
            continue;
        }
        std::fs::write(path, &bytes[..n]).unwrap();
        s.push(match catch(|| load()) {
            None => 'E',
            Some(t) => {
                if &t == full {
                    'S'
                } else {
                    'D'
                }
            }
        });
    }
    std::fs::write(path, bytes).unwrap();
    s
}

// a save that dies half way: the process's file-size limit is lowered for the duration of the call (writes beyond it
// fail with EFBIG, as on a full disk); only the save runs meanwhile, nothing else in this process writes
extern "C" {
    fn getrlimit(resource: i32, rlim: *mut [u64; 2]) -> i32;
    fn setrlimit(resource: i32, rlim: *const [u64; 2]) -> i32;
    fn signal(sig: i32, handler: usize) -> usize;
}
fn with_file_size_limit<T>(limit: u64, f: impl FnOnce() -> T) -> T {
    const RLIMIT_FSIZE: i32 = 1;
    const SIGXFSZ: i32 = 25;
    unsafe {
        let mut old = [0u64; 2];
        getrlimit(RLIMIT_FSIZE, &mut old);
        signal(SIGXFSZ, 1); // SIG_IGN: the write returns EFBIG instead of killing the process
        let new = [limit, old[1]];
        setrlimit(RLIMIT_FSIZE, &new);
        let r = f();
        setrlimit(RLIMIT_FSIZE, &old);
        r
    }
}
/// the old table is on disk; the new one is saved and dies after `k` bytes; what does load() say afterwards?
/// E = refuses, S = exactly the new table, D = something else (silently)
fn crash_points<T: PartialEq>(path: &str, old_bytes: &[u8], new_len: usize, new_full: &T, save_new: &dyn Fn(), load: &dyn Fn() -> T, every: usize) -> String {
    let mut s = String::new();
    for k in 0..new_len {
        if every > 1 && k % every != 0 && k + 40 < new_len && k > 40 {
            s.push('.');
            continue;
        }
        std::fs::write(path, old_bytes).unwrap();
        let _ = with_file_size_limit(k as u64, || catch(|| save_new()));
        s.push(match catch(|| load()) {
            None => 'E',
            Some(t) => if &t == new_full { 'S' } else { 'D' },
        });
    }
    let _ = std::fs::remove_file(path);
    s
}

fn random_edge(rng: &mut Rng) -> Edge {
    match rng.below(6) {
        0 => Edge::Draw,
        1 => Edge::Fold,
        2 => Edge::Check,
        3 => Edge::Call,
        4 => Edge::Shove,
        _ => Edge::Raise(Odds::GRID[rng.below(10) as usize]),
    }
}
fn random_abs(rng: &mut Rng) -> Abstraction {
    let s = [Street::Pref, Street::Flop, Street::Turn, Street::Rive][rng.below(4) as usize];
    let n = if s == Street::Rive { 101 } else { s.k() };
    Abstraction::from((s, rng.below(n as u64) as usize))
}

pub fn run(o: &Opts, _deck: &str) -> String {
    let mut out = Shards::new(&o.out, "c17", o.shards);
    let mut rng = Rng::new(o.seed, 17);
    let dir = format!("{}/pgscratch", o.out);
    std::fs::create_dir_all(format!("{}/pgcopy", dir)).unwrap();
    std::env::set_current_dir(&dir).unwrap();
    let ntables = if o.thorough() { 400 } else { 40 };
    let mut files = 0u64;
    let mut loads = 0u64;
    for t in 0..ntables {
        let nrows = match t % 5 {
            0 => 0,
            1 => 1,
            2 => 2 + rng.below(6) as usize,
            3 => 10 + rng.below(40) as usize,
            // a few large tables (beyond one 8 KiB read buffer many times over; the real metrics have 8128 / 10296 rows)
            _ => if t == 4 { 8200 } else if t == 9 || (o.thorough() && t % 50 == 4) { 3100 } else { 60 + rng.below(200) as usize },
        };
        let every = if nrows <= 50 { 1 } else if nrows <= 400 { 13 } else { 4099 };
        // ---------------- blueprint profile
        {
            let rows: Vec<(u64, u64, u64, u64, f32, f32)> = (0..nrows)
                .map(|_| {
                    let past = Path::from((0..rng.below(6)).map(|_| random_edge(&mut rng)).collect::<Vec<_>>());
                    let fut = Path::from((0..1 + rng.below(5)).map(|_| random_edge(&mut rng)).collect::<Vec<_>>());
                    (u64::from(past), u64::from(random_abs(&mut rng)), u64::from(fut), u64::from(random_edge(&mut rng)),
                     f32::from_bits(float_bits(&mut rng)), f32::from_bits(float_bits(&mut rng)))
                })
                .collect();
            let p = Profile::verif_from_rows(&rows);
            let bits = |v: Vec<(u64, u64, u64, u64, f32, f32)>| v.iter().map(|r| format!("{}:{}:{}:{}:{}:{}", r.0, r.1, r.2, r.3, r.4.to_bits(), r.5.to_bits())).collect::<Vec<_>>().join(",");
            let saved = bits(p.verif_rows());
            p.save();
            let path = Profile::path(Street::Pref);
            let bytes = read(&path);
            let loaded = catch(|| bits(Profile::load(Street::Pref).verif_rows()));
            let full = saved.clone();
            let cs = cuts(&path, &bytes, &full, &|| bits(Profile::load(Street::Pref).verif_rows()), every);
            loads += bytes.len() as u64;
            files += 1;
            out.line(&format!("pg profile {} | {} {} {}", if saved.is_empty() { "-".into() } else { saved }, hex(&bytes), loaded.map(|l| if l.is_empty() { "-".into() } else { l }).unwrap_or("P".into()), cs));
            // a checkpoint that dies while overwriting the previous one (C18): `bytes` is the table just saved (the new
            // one); the previous checkpoint is another table of 2..60 rows
            if t % 4 == 2 && nrows >= 2 && nrows <= 400 {
                let old_rows: Vec<(u64, u64, u64, u64, f32, f32)> = (0..2 + rng.below(58))
                    .map(|_| {
                        let past = Path::from((0..rng.below(6)).map(|_| random_edge(&mut rng)).collect::<Vec<_>>());
                        let fut = Path::from((0..1 + rng.below(5)).map(|_| random_edge(&mut rng)).collect::<Vec<_>>());
                        (u64::from(past), u64::from(random_abs(&mut rng)), u64::from(fut), u64::from(random_edge(&mut rng)), 1.5f32, 0.25f32)
                    })
                    .collect();
                Profile::verif_from_rows(&old_rows).save();
                let old_bytes = read(&path);
                let cp = crash_points(&path, &old_bytes, bytes.len(), &full, &|| p.save(), &|| bits(Profile::load(Street::Pref).verif_rows()), every.max(7));
                loads += bytes.len() as u64;
                out.line(&format!("pg crashsave profile | {} ok {}", hex(&bytes[..bytes.len().min(64)]), cp));
            }
        }
        // ---------------- metric
        {
            let entries: Vec<(i64, f32)> = (0..nrows).map(|_| (rng.next() as i64, f32::from_bits(float_bits(&mut rng)))).collect();
            let m = Metric::verif_from_entries(&entries);
            let bits = |v: Vec<(i64, f32)>| v.iter().map(|r| format!("{}:{}", r.0 as u64, r.1.to_bits())).collect::<Vec<_>>().join(",");
            let saved = bits(m.verif_entries());
            m.save();
            // Metric::street() is inferred from the number of entries
            let path = [Street::Rive, Street::Turn, Street::Flop, Street::Pref].iter().map(|s| Metric::path(*s)).find(|p| std::path::Path::new(p).exists()).unwrap();
            let street = [Street::Rive, Street::Turn, Street::Flop, Street::Pref].into_iter().find(|s| Metric::path(*s) == path).unwrap();
            let bytes = read(&path);
            let loaded = catch(|| bits(Metric::load(street).verif_entries()));
            let full = saved.clone();
            let cs = cuts(&path, &bytes, &full, &|| bits(Metric::load(street).verif_entries()), every);
            std::fs::remove_file(&path).unwrap();
            loads += bytes.len() as u64;
            files += 1;
            out.line(&format!("pg metric {} | {} {} {}", if saved.is_empty() { "-".into() } else { saved }, hex(&bytes), loaded.map(|l| if l.is_empty() { "-".into() } else { l }).unwrap_or("P".into()), cs));
        }
        // ---------------- lookup (non-empty: its street is read from the first key)
        if nrows > 0 {
            // (the pre-flop street has only 169 classes: large tables go to the flop / turn)
            let street = if nrows > 1000 { [Street::Flop, Street::Turn][t % 2] } else { [Street::Pref, Street::Flop, Street::Turn, Street::Rive][t % 4] };
            let map: BTreeMap<Isomorphism, Abstraction> = (0..nrows)
                .map(|_| {
                    let pk = rng.cards(2, DECK_MASK);
                    let pb = rng.cards(street.n_observed(), DECK_MASK & !pk);
                    (Isomorphism::from(Observation::from((Hand::from(pk), Hand::from(pb)))), random_abs(&mut rng))
                })
                .collect();
            let bits = |m: &BTreeMap<Isomorphism, Abstraction>| m.iter().map(|(k, v)| format!("{}:{}:{}", u64::from(*k.0.pocket()), u64::from(*k.0.public()), u64::from(*v))).collect::<Vec<_>>().join(",");
            let saved = bits(&map);
            Lookup::from(map.clone()).save();
            let path = Lookup::path(street);
            let bytes = read(&path);
            let loaded = catch(|| bits(&BTreeMap::from(Lookup::load(street))));
            // typed comparison too: two Abstractions can share their 64-bit code and still be different values
            let same = catch(|| BTreeMap::from(Lookup::load(street)) == map).map(|b| if b { "1" } else { "0" }).unwrap_or("-");
            let full = saved.clone();
            let cs = cuts(&path, &bytes, &full, &|| bits(&BTreeMap::from(Lookup::load(street))), every);
            std::fs::remove_file(&path).unwrap();
            loads += bytes.len() as u64;
            files += 1;
            out.line(&format!("pg lookup {} | {} {} {} {}", saved, hex(&bytes), loaded.unwrap_or("P".into()), cs, same));
        }
        // ---------------- transitions (C18 only: its loader re-quantises the weights).
        // An empty table is skipped: it is written as transitions.river, which load() cannot read at all
        // (Street::Rive.n_children() panics) -- it fails loudly, which is not a C18 concern.
        if nrows >= 3 {
            let street = [Street::Flop, Street::Turn][t % 2];
            let mut map: BTreeMap<Abstraction, Histogram> = BTreeMap::new();
            for _ in 0..(nrows / 3).min(40) {
                let from = Abstraction::from((street, rng.below(street.k() as u64) as usize));
                let h = map.entry(from).or_insert_with(Histogram::default);
                for _ in 0..1 + rng.below(4) {
                    let into = Abstraction::from((street.next(), rng.below(50) as usize));
                    h.set(into, 1 + rng.below(30) as usize);
                }
            }
            let d = Decomp::from(map);
            d.save();
            let path = [Street::Flop, Street::Turn, Street::Rive, Street::Pref].iter().map(|s| Decomp::path(*s)).find(|p| std::path::Path::new(p).exists()).unwrap();
            let st = [Street::Flop, Street::Turn, Street::Rive, Street::Pref].into_iter().find(|s| Decomp::path(*s) == path).unwrap();
            let bytes = read(&path);
            let full = catch(|| Decomp::load(st).verif_entries());
            let cs = match &full {
                Some(f) => cuts(&path, &bytes, f, &|| Decomp::load(st).verif_entries(), every),
                None => "P".into(),
            };
            std::fs::remove_file(&path).unwrap();
            loads += bytes.len() as u64;
            files += 1;
            out.line(&format!("pg transitions - | {} {} {}", hex(&bytes), if full.is_some() { "ok" } else { "P" }, cs));
        }
        // ---------------- encoder (C18): the four street lookups loaded together; one of them cut short.  Observed through
        // Encoder::abstraction on two games whose observations are keys of the pre-flop resp. flop file
        if t % 8 == 3 {
            use robopoker::cards::hole::Hole;
            use robopoker::gameplay::action::Action;
            use robopoker::gameplay::game::Game;
            use robopoker::mccfr::encoder::Encoder;
            let h0 = rng.cards(2, DECK_MASK);
            let h1 = rng.cards(2, DECK_MASK & !h0);
            let fl = rng.cards(3, DECK_MASK & !(h0 | h1));
            let g0 = Game::root().verif_with_holes([Hole::from(Hand::from(h0)), Hole::from(Hand::from(h1))]);
            let g1 = g0.apply(Action::Call(g0.to_call())).apply(Action::Check).apply(Action::Draw(Hand::from(fl)));
            let streets = [Street::Pref, Street::Flop, Street::Turn, Street::Rive];
            for (si, street) in streets.iter().enumerate() {
                let mut map: BTreeMap<Isomorphism, Abstraction> = (0..3 + rng.below(6))
                    .map(|_| {
                        let pk = rng.cards(2, DECK_MASK);
                        let pb = rng.cards(street.n_observed(), DECK_MASK & !pk);
                        (Isomorphism::from(Observation::from((Hand::from(pk), Hand::from(pb)))), Abstraction::from((*street, rng.below(50) as usize)))
                    })
                    .collect();
                if si == 0 { map.insert(Isomorphism::from(g0.sweat()), Abstraction::from((*street, 5))); }
                if si == 1 { map.insert(Isomorphism::from(g1.sweat()), Abstraction::from((*street, 6))); }
                Lookup::from(map).save();
            }
            let probe = |e: &Encoder| format!("{}:{}", u64::from(e.abstraction(&g0)), u64::from(e.abstraction(&g1)));
            let full = catch(|| probe(&Encoder::load(Street::Pref)));
            for street in [Street::Pref, Street::Flop] {
                let path = Lookup::path(street);
                let bytes = read(&path);
                let mut cs = String::new();
                for n in 0..bytes.len() {
                    std::fs::write(&path, &bytes[..n]).unwrap();
                    cs.push(match catch(|| Encoder::load(Street::Pref)) {
                        None => 'E',
                        Some(e) => match catch(|| probe(&e)) {
                            Some(x) if Some(&x) == full.as_ref() => 'S',
                            _ => 'D',
                        },
                    });
                }
                std::fs::write(&path, &bytes).unwrap();
                loads += bytes.len() as u64;
                out.line(&format!("pg encoder {} | {} {} {}", street as isize, hex(&bytes), if full.is_some() { "ok" } else { "P" }, cs));
            }
            for street in streets {
                let _ = std::fs::remove_file(Lookup::path(street));
            }
            files += 4;
        }
    }
    // ---------------- metrics of the real sizes C(k,2): each must come back from ITS street's file
    for (street, k) in [(Street::Flop, Street::Flop.k()), (Street::Turn, Street::Turn.k()), (Street::Pref, Street::Pref.k())] {
        let n = k * (k - 1) / 2;
        let entries: Vec<(i64, f32)> = (0..n).map(|i| (((i as u64 + 1).wrapping_mul(0x9E3779B97F4A7C15)) as i64, (i as f32 + 1.0) / n as f32)).collect();
        let m = Metric::verif_from_entries(&entries);
        let want = m.verif_entries();
        for s in [Street::Rive, Street::Turn, Street::Flop, Street::Pref] {
            let _ = std::fs::remove_file(Metric::path(s));
        }
        m.save();
        let found: Vec<String> = [Street::Pref, Street::Flop, Street::Turn, Street::Rive].iter().filter(|s| std::path::Path::new(&Metric::path(**s)).exists()).map(|s| (*s as isize).to_string()).collect();
        let back = catch(|| Metric::load(street).verif_entries() == want).map(|b| if b { "1" } else { "0" }).unwrap_or("P");
        // the last 48 byte offsets of the full-size file (a loader that counts the street's pairs could stop early)
        let tailcuts = {
            let path = Metric::path(street);
            match std::fs::read(&path) {
                Ok(bytes) if bytes.len() > 48 => {
                    let mut cs = String::new();
                    for n in bytes.len() - 48..bytes.len() {
                        std::fs::write(&path, &bytes[..n]).unwrap();
                        cs.push(match catch(|| Metric::load(street).verif_entries()) { None => 'E', Some(t) => if t == want { 'S' } else { 'D' } });
                    }
                    std::fs::write(&path, &bytes).unwrap();
                    cs
                }
                _ => "-".into(),
            }
        };
        for s in [Street::Rive, Street::Turn, Street::Flop, Street::Pref] {
            let _ = std::fs::remove_file(Metric::path(s));
        }
        files += 1;
        out.line(&format!("mstreet {} {} | {} {} {}", street as isize, n, if found.is_empty() { "-".into() } else { found.join(",") }, back, tailcuts));
    }
    let _ = std::fs::remove_dir_all(&dir);
    let lines = out.finish();
    format!("{{\"lines\":{},\"files\":{},\"prefix_loads\":{}}}", lines, files, loads)
}
