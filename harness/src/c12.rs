//! C12 -- earth mover's distances: Sinkhorn (cost, plan marginals), greedy heuristic, equity variation
use crate::util::*;
use crate::Opts;
use robopoker::cards::street::Street;
use robopoker::clustering::abstraction::Abstraction;
use robopoker::clustering::equity::Equity;
use robopoker::clustering::heuristic::Heuristic;
use robopoker::clustering::histogram::Histogram;
use robopoker::clustering::metric::Metric;
use robopoker::clustering::pair::Pair;
use robopoker::clustering::sinkhorn::Sinkhorn;
use robopoker::transport::coupling::Coupling;

fn hist(street: Street, counts: &[(usize, usize)]) -> Histogram {
    let mut h = Histogram::default();
    for (i, c) in counts {
        h.set(Abstraction::from((street, *i)), *c);
    }
    h
}
fn hs(c: &[(usize, usize)]) -> String {
    c.iter().map(|(i, n)| format!("{}:{}", i, n)).collect::<Vec<_>>().join("+")
}
fn support(rng: &mut Rng, pool: usize, size: usize, skew: bool) -> Vec<(usize, usize)> {
    let mut idx: Vec<usize> = (0..pool).collect();
    let mut out = vec![];
    for _ in 0..size.min(pool) {
        let k = rng.below(idx.len() as u64) as usize;
        let i = idx.swap_remove(k);
        let c = if skew { if rng.chance(0.2) { 200 + rng.below(800) as usize } else { 1 + rng.below(5) as usize } } else { 10 + rng.below(10) as usize };
        out.push((i, c));
    }
    out.sort();
    out
}
pub fn run(o: &Opts, _deck: &str) -> String {
    let mut out = Shards::new(&o.out, "c12", o.shards);
    let mut rng = Rng::new(o.seed, 12);
    let street = Street::Turn; // learned buckets 0..143
    let ni = if o.thorough() { 6000 } else { 300 };
    for q in 0..ni {
        let pool = 4 + rng.below(if q % 10 == 0 { 100 } else { 24 }) as usize;
        let smax = pool.min(if q % 10 == 0 { 100 } else { 14 });
        let sm = 1 + rng.below(smax as u64) as usize;
        let sn = 1 + rng.below(smax as u64) as usize;
        let mut mu = support(&mut rng, pool, sm, q % 3 == 0);
        let mut nu = support(&mut rng, pool, sn, q % 5 == 0);
        if q % 50 == 48 {
            mu = (0..4.min(pool)).map(|i| (i, 5usize)).collect();                       // uniform source
            nu = (0..4.min(pool)).map(|i| (i, if i == 3 { 65usize } else { 5 })).collect(); // 1:1:1:13 target
        }
        // metric over the pool: embedded points (|a-b| on a line / plane), random symmetric, or nearly degenerate
        let kind = q % 3;
        let pts: Vec<(f32, f32)> = (0..pool).map(|_| (rng.unit() as f32, rng.unit() as f32)).collect();
        let mut entries: Vec<(usize, usize, f32)> = vec![];
        let mut mx = f32::MIN_POSITIVE;
        for i in 0..pool {
            for j in 0..i {
                let d = if q % 50 == 49 { 0.0 } else if q % 50 == 48 { 1e-5 * (1.0 + 0.2 * rng.unit() as f32) } else { match kind {
                    0 => ((pts[i].0 - pts[j].0).powi(2) + (pts[i].1 - pts[j].1).powi(2)).sqrt(),
                    1 => 0.02 + 0.98 * rng.unit() as f32,
                    _ => if rng.chance(0.8) { 1e-4 * (1.0 + rng.unit() as f32) } else { rng.unit() as f32 },
                } };
                mx = mx.max(d);
                entries.push((i, j, d));
            }
        }
        // one instance in fifty: every bucket within 1.2e-5 of every other (entries NOT rescaled), uniform source, skewed target
        if q % 50 == 48 { mx = 1.0; }
        let all = Abstraction::all(street);
        let raw: Vec<(i64, f32)> = entries.iter().map(|(i, j, d)| (i64::from(Pair::from((&all[*i], &all[*j]))), d / mx)).collect();
        // one instance in fifty: every distance zero (all centroids coincide), built through the public normalising
        // constructor Metric::from
        let metric = if q % 50 == 49 {
            match catch(|| Metric::from(entries.iter().map(|(i, j, d)| (Pair::from((&all[*i], &all[*j])), *d)).collect::<std::collections::BTreeMap<Pair, f32>>())) {
                Some(m) => m,
                None => Metric::verif_from_entries(&raw),
            }
        } else {
            Metric::verif_from_entries(&raw)
        };
        let hm = hist(street, &mu);
        let hn = hist(street, &nu);
        let r = catch(|| {
            let sk = Sinkhorn::from((&hm, &hn, &metric)).minimize();
            let cost = sk.cost();
            let xs: Vec<Abstraction> = mu.iter().map(|(i, _)| all[*i]).collect();
            let ys: Vec<Abstraction> = nu.iter().map(|(i, _)| all[*i]).collect();
            let mut rows = vec![0f64; xs.len()];
            let mut cols = vec![0f64; ys.len()];
            let mut minp = f32::INFINITY;
            let mut plan: Vec<String> = vec![];
            for (a, x) in xs.iter().enumerate() {
                for (b, y) in ys.iter().enumerate() {
                    let p = sk.verif_coupling(x, y);
                    rows[a] += p as f64;
                    cols[b] += p as f64;
                    minp = minp.min(p);
                    if xs.len() * ys.len() <= 36 {
                        plan.push(p.to_bits().to_string());
                    }
                }
            }
            let greedy = Heuristic::from((&hm, &hn, &metric)).minimize().cost();
            let selfcost = Sinkhorn::from((&hm, &hm, &metric)).minimize().cost();
            let f = |v: &Vec<f64>| v.iter().map(|x| format!("{:.9}", x)).collect::<Vec<_>>().join(",");
            format!("{} {} {} {} {} {} {}", cost.to_bits(), f(&rows), f(&cols), minp.to_bits(), greedy.to_bits(), selfcost.to_bits(), if plan.is_empty() { "-".into() } else { plan.join(",") })
        });
        let ms = entries.iter().map(|(i, j, d)| format!("{}:{}:{}", i, j, (d / mx).to_bits())).collect::<Vec<_>>().join(",");
        out.line(&format!("sk {} {} {} | {}", hs(&mu), hs(&nu), if ms.is_empty() { "-".into() } else { ms }, r.unwrap_or("P".into())));
    }
    // equity histograms: variation
    let nv = if o.thorough() { 20_000 } else { 2_000 };
    for q in 0..nv {
        let mk = |rng: &mut Rng| { let s = 1 + rng.below(if q % 4 == 0 { 101 } else { 12 }) as usize; support(rng, 101, s, q % 3 == 0) };
        let (x, y, z) = (mk(&mut rng), if q % 9 == 0 { vec![] } else { mk(&mut rng) }, mk(&mut rng));
        let y = if y.is_empty() { x.iter().map(|(i, c)| (*i, c * 3)).collect() } else { y }; // same density, other mass
        let (hx, hy, hz) = (hist(Street::Rive, &x), hist(Street::Rive, &y), hist(Street::Rive, &z));
        let v = |a: &Histogram, b: &Histogram| Equity::variation(a, b).to_bits();
        out.line(&format!("var {} {} {} | {} {} {} {} {}", hs(&x), hs(&y), hs(&z), v(&hx, &hy), v(&hy, &hx), v(&hx, &hz), v(&hz, &hy), v(&hx, &hx)));
    }
    let lines = out.finish();
    format!("{{\"lines\":{}}}", lines)
}
