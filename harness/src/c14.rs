//! C14 -- Deck::draw: frequency of the drawn card per deck subset, removal, hole / deal disjointness
use crate::util::*;
use crate::Opts;
use robopoker::cards::deck::Deck;
use robopoker::cards::hand::Hand;
use robopoker::cards::street::Street;
use robopoker::gameplay::game::Game;

pub fn run(o: &Opts, deck: &str) -> String {
    let mut out = Shards::new(&o.out, "c14", o.shards);
    out.directive(&format!("@deck {}", deck));
    let mut rng = Rng::new(o.seed, 14);
    let nsub = if o.thorough() { 6000 } else { 1200 };
    let per = if o.thorough() { 1000 } else { 400 }; // expected draws per card
    let mut total = 0u64;
    for s in 0..nsub {
        let size = match s % 6 { 0 => 1, 1 => 2, 2 => 52, 3 => 51, _ => 1 + rng.below(52) as usize };
        let mask = if size >= 52 { DECK_MASK } else { rng.cards(size, DECK_MASK) };
        let n = mask.count_ones() as u64;
        let draws = n * per;
        let mut counts = [0u32; 64];
        let mut removed_ok = 1u8;
        for _ in 0..draws {
            let mut d = Deck::from(Hand::from(mask));
            let c = u8::from(d.draw());
            counts[c as usize] += 1;
            let rest = u64::from(Hand::from(d));
            if rest != mask & !(1u64 << c) || mask >> c & 1 == 0 {
                removed_ok = 0;
            }
        }
        total += draws;
        let cs = (0..64).map(|c| counts[c].to_string()).collect::<Vec<_>>().join(",");
        out.line(&format!("draw {} {} | {} {}", mask, draws, cs, removed_ok));
    }
    // dealt hands: hole cards of the two seats and the dealt streets never overlap
    let nd = if o.thorough() { 100_000 } else { 10_000 };
    let mut bad = 0u64;
    for _ in 0..nd {
        let g = Game::root();
        let seats = g.verif_seats();
        let a = u64::from(Hand::from(seats[0].cards()));
        let b = u64::from(Hand::from(seats[1].cards()));
        let mut dk = g.deck();
        let flop = u64::from(dk.deal(Street::Pref));
        let turn = u64::from(dk.deal(Street::Flop));
        let river = u64::from(dk.deal(Street::Turn));
        let all = [a, b, flop, turn, river];
        let union = all.iter().fold(0u64, |x, y| x | y);
        let cnt: u32 = all.iter().map(|x| x.count_ones()).sum();
        if union.count_ones() != cnt || cnt != 9 || union & !DECK_MASK != 0 {
            bad += 1;
            out.line(&format!("dealt {} {} {} {} {} | overlap", a, b, flop, turn, river));
        }
    }
    out.line(&format!("dealtsummary {} | {}", nd, bad));
    // the next hand on the same table: dealt from a full deck again (a card of the previous hand comes back with
    // probability 1 - C(48,4)/C(52,4))
    let nr = if o.thorough() { 40_000 } else { 6_000 };
    let r = catch(|| {
        let mut g = Game::root();
        let mut overlaps = 0u64;
        let mut seen = 0u64;
        for _ in 0..nr {
            let before = g.verif_seats().iter().fold(0u64, |a, s| a | u64::from(Hand::from(s.cards())));
            g = g.deal();
            let after = g.verif_seats().iter().fold(0u64, |a, s| a | u64::from(Hand::from(s.cards())));
            if before & after != 0 { overlaps += 1; }
            seen |= after;
        }
        format!("{} {}", overlaps, seen.count_ones())
    });
    out.line(&format!("redeal {} | {}", nr, r.unwrap_or("P P".into())));
    // the first card a fresh thread draws from a full deck: threads must not replay one stream
    {
        let nthreads = 48;
        let firsts: Vec<u8> = (0..nthreads)
            .map(|_| std::thread::spawn(|| catch(|| { let mut d = Deck::new(); u8::from(d.draw()) }).unwrap_or(255)).join().unwrap_or(255))
            .collect();
        let mut distinct = firsts.clone();
        distinct.sort();
        distinct.dedup();
        out.line(&format!("threadfirst {} | {}", nthreads, distinct.len()));
    }
    // a random observation of a street: which of its cards are private must not depend on their rank order
    // (the highest card of the observation is private with probability 2 / (2 + board cards))
    for street in [Street::Flop, Street::Turn, Street::Rive] {
        let n = 6000u32;
        let r = catch(|| {
            let mut top_private = 0u32;
            for _ in 0..n {
                let ob = robopoker::cards::observation::Observation::from(street);
                let (pk, pb) = (u64::from(*ob.pocket()), u64::from(*ob.public()));
                if 63 - pk.leading_zeros() > 63 - pb.leading_zeros() { top_private += 1; }
            }
            top_private
        });
        out.line(&format!("randobs {} {} | {}", street as isize, n, r.map(|x| x.to_string()).unwrap_or("P".into())));
    }
    let lines = out.finish();
    format!("{{\"lines\":{},\"draws\":{},\"dealt_hands\":{}}}", lines, total, nd)
}
