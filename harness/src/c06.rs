//! C06 -- exhaustive iterators: HandIterator, ObservationIterator, IsomorphismIterator, children
use crate::util::*;
use crate::Opts;
use robopoker::cards::hand::Hand;
use robopoker::cards::hands::HandIterator;
use robopoker::cards::isomorphisms::IsomorphismIterator;
use robopoker::cards::observation::Observation;
use robopoker::cards::observations::ObservationIterator;
use robopoker::cards::street::Street;

fn streets() -> [Street; 4] {
    [Street::Pref, Street::Flop, Street::Turn, Street::Rive]
}
/// hands k mask | count xor sum mono first last hint full
fn hands_line(k: usize, mask: u64) -> String {
    let r = catch(|| {
        let it = HandIterator::from((k, Hand::from(mask)));
        let hint = catch(|| it.size_hint().0 as i64).unwrap_or(-1);
        let mut count = 0u64;
        let mut xor = 0u64;
        let mut sum = 0u64;
        let mut mono = 1u8;
        let mut prev: Option<u64> = None;
        let mut first: Vec<u64> = vec![];
        let mut last: std::collections::VecDeque<u64> = std::collections::VecDeque::new();
        let mut full: Vec<u64> = vec![];
        for h in it {
            let v = u64::from(h);
            count += 1;
            xor ^= v;
            sum = sum.wrapping_add(v);
            if let Some(p) = prev {
                if p >= v {
                    mono = 0;
                }
            }
            prev = Some(v);
            if first.len() < 4 {
                first.push(v);
            }
            last.push_back(v);
            if last.len() > 4 {
                last.pop_front();
            }
            if full.len() <= 300 {
                full.push(v);
            }
        }
        let l = |v: Vec<u64>| if v.is_empty() { "-".to_string() } else { v.iter().map(|x| x.to_string()).collect::<Vec<_>>().join(",") };
        format!(
            "{} {} {} {} {} {} {} {}",
            count, xor, sum, mono, l(first), l(last.into_iter().collect()), hint,
            if count <= 300 { l(full) } else { "+".into() }
        )
    });
    format!("hands {} {} | {}", k, mask, r.unwrap_or("P".into()))
}

pub fn run(o: &Opts, deck: &str) -> String {
    let mut out = Shards::new(&o.out, "c06", o.shards);
    out.directive(&format!("@deck {}", deck));
    let mut rng = Rng::new(o.seed, 6);
    // ---- HandIterator: k in 0..=7 x masks (empty, small, dense, top-heavy, complement-of-few)
    // the iterator scans all C(52,k) bit patterns whatever the mask: the model replays k <= 5 in full;
    // for k = 6, 7 the masks leave <= 28 free cards and the case is judged by the specification only
    let kmax_full = if o.thorough() { 5 } else { 4 };
    for k in 0..=kmax_full {
        out.line(&hands_line(k, 0));
        out.line(&hands_line(k, 0xF));
    }
    let nm = if o.thorough() { 4000 } else { 200 };
    let cap: u128 = if o.thorough() { 3_000_000 } else { 60_000 };
    for i in 0..nm {
        let k = (i % 8) as usize;
        let blocked = match i % 5 {
            0 => rng.below(8) as usize,
            1 => 8 + rng.below(20) as usize,
            2 => 52 - (k + rng.below(4) as usize).min(52),
            3 => 40 + rng.below(8) as usize,
            _ => rng.below(52) as usize,
        };
        let mask = match i % 7 {
            5 => rng.cards(blocked.min(20), 0x000FFFFF00000000), // top-heavy
            6 => rng.cards(blocked.min(20), 0x00000000000FFFFF), // bottom-heavy
            _ => rng.cards(blocked, 0x000FFFFFFFFFFFFF),
        };
        // keep the enumeration itself bounded: C(free, k) <= ~3M and dense masks only with small k (skip runs)
        let free = 52 - (mask & DECK_MASK).count_ones() as u64 - if cfg!(feature = "shortdeck") { 16 } else { 0 };
        let mut c: u128 = 1;
        for j in 0..k as u64 {
            c = c * (free.saturating_sub(j)) as u128 / (j + 1) as u128;
        }
        let keep: u64 = if o.thorough() { 28 } else { 20 };
        let mask = if k >= 6 && free > keep { mask | rng.cards((free - keep) as usize, DECK_MASK & !mask) } else { mask };
        let c = if k >= 6 { c.min(cap) } else { c };
        // quick tier: the k = 5 scan (2.6M patterns in the model) only for one mask in eight
        if c <= cap && (o.thorough() || k != 5 || i % 64 == 5) {
            out.line(&hands_line(k, mask));
        }
    }
    // ---- the other ways of consuming the observation iterator (nth / skip / step_by) visit the same sequence as next()
    {
        let s = Street::Flop;
        let reference: Vec<(u64, u64)> = ObservationIterator::from(s).take(70_000).map(|ob| (u64::from(*ob.pocket()), u64::from(*ob.public()))).collect();
        let boards = reference.iter().take_while(|x| x.0 == reference[0].0).count(); // observations per pocket
        for (pre, n) in [(0usize, 5usize), (3, boards + 5), (3, 2 * boards + 1), (1000, boards + 400), (boards - 1, 1), (7, 5), (boards, boards)] {
            let r = catch(|| {
                let mut it = ObservationIterator::from(s);
                for _ in 0..pre { it.next(); }
                it.nth(n).map(|ob| format!("{}:{}", u64::from(*ob.pocket()), u64::from(*ob.public()))).unwrap_or("none".into())
            });
            let want = reference.get(pre + n).map(|x| format!("{}:{}", x.0, x.1)).unwrap_or("none".into());
            out.line(&format!("obsnth {} {} {} | {} {}", s as isize, pre, n, r.unwrap_or("P".into()), want));
        }
        let r = catch(|| {
            let got: Vec<(u64, u64)> = ObservationIterator::from(s).skip(2).step_by(boards + 1).take(3).map(|ob| (u64::from(*ob.pocket()), u64::from(*ob.public()))).collect();
            let want: Vec<(u64, u64)> = reference.iter().skip(2).step_by(boards + 1).take(3).cloned().collect();
            format!("{} {}", (got == want) as u8, got.len())
        });
        out.line(&format!("obsstep {} {} | {}", s as isize, boards + 1, r.unwrap_or("P P".into())));
    }
    // ---- ObservationIterator / IsomorphismIterator: counts; full list for pre-flop; prefix for flop
    for s in streets() {
        let big = matches!(s, Street::Turn | Street::Rive);
        if big && !o.thorough() {
            continue;
        }
        if matches!(s, Street::Rive) && !cfg!(feature = "shortdeck") && std::env::var("VERIF_RIVER").is_err() {
            // 2.8e9 observations: counted only when explicitly requested (VERIF_RIVER=1), about 5 minutes
            continue;
        }
        let r = catch(|| {
            let it = ObservationIterator::from(s);
            let hint = it.combinations();
            let mut count = 0u64;
            let mut xp = 0u64;
            let mut xb = 0u64;
            let mut canon = 0u64;
            let mut head: Vec<String> = vec![];
            let mut distinct_ok = 1u8;
            let mut prev: Option<(u64, u64)> = None;
            for ob in it {
                let (p, b) = (u64::from(*ob.pocket()), u64::from(*ob.public()));
                count += 1;
                xp ^= p.wrapping_mul(0x9E3779B97F4A7C15).rotate_left((count % 63) as u32);
                xb ^= b.wrapping_mul(0xD1B54A32D192ED03).rotate_left((count % 61) as u32);
                if let Some(q) = prev {
                    if q >= (p, b) {
                        distinct_ok = 0; // lexicographically increasing in (pocket, board) => no repeats
                    }
                }
                prev = Some((p, b));
                if robopoker::cards::isomorphism::Isomorphism::is_canonical(&ob) {
                    canon += 1;
                }
                if head.len() < 1400 {
                    head.push(format!("{}:{}", p, b));
                }
            }
            format!("{} {} {} {} {} {}", count, hint, distinct_ok, canon, xp ^ xb, head.join(","))
        });
        out.line(&format!("obsit {} | {}", s as isize, r.unwrap_or("P".into())));
        let r2 = catch(|| {
            let it = IsomorphismIterator::from(s);
            let hint = it.size_hint().0;
            let mut count = 0u64;
            let mut head: Vec<String> = vec![];
            let mut all_canonical = 1u8;
            for iso in it {
                let ob = Observation::from(iso);
                count += 1;
                if !robopoker::cards::isomorphism::Isomorphism::is_canonical(&ob) {
                    all_canonical = 0;
                }
                if head.len() < 200 {
                    head.push(format!("{}:{}", u64::from(*ob.pocket()), u64::from(*ob.public())));
                }
            }
            format!("{} {} {} {}", count, hint, all_canonical, head.join(","))
        });
        out.line(&format!("isoit {} | {}", s as isize, r2.unwrap_or("P".into())));
    }
    // ---- exactly one canonical member per suit-equivalence class: orbits of sampled turn / river observations
    {
        use robopoker::cards::isomorphism::Isomorphism;
        use robopoker::cards::permutation::Permutation;
        let no = if o.thorough() { 200_000 } else { 12_000 };
        for i in 0..no {
            let k = if i % 2 == 0 { 4 } else { 5 };
            // half of them: pocket pair plus two-card holdings in two suits with nested ranks (tied suit keys)
            let (pk, pb) = if i % 4 < 2 {
                let pk = rng.cards(2, DECK_MASK);
                (pk, rng.cards(k, DECK_MASK & !pk))
            } else {
                let ranks: Vec<u8> = (0..13u8).filter(|r| DECK_MASK >> (r * 4) & 1 == 1).collect();
                let r = ranks[rng.below(ranks.len() as u64) as usize];
                let (s1, s2) = (rng.below(4) as u8, rng.below(4) as u8);
                let pk = (1u64 << (r * 4 + s1)) | (1u64 << (r * 4 + (if s2 == s1 { (s1 + 1) % 4 } else { s2 })));
                let mut pb = 0u64;
                let mut guard = 0;
                while (pb.count_ones() as usize) < k && guard < 200 {
                    guard += 1;
                    let c = 1u64 << (ranks[rng.below(ranks.len() as u64) as usize] * 4 + rng.below(2) as u8 * 2 + rng.below(2) as u8 * (i % 2) as u8);
                    if pk & c == 0 { pb |= c; }
                }
                if (pb.count_ones() as usize) < k { pb = rng.cards(k, DECK_MASK & !pk); }
                (pk, pb)
            };
            let r = catch(|| {
                let ob = Observation::from((Hand::from(pk), Hand::from(pb)));
                let mut seen: Vec<(u64, u64)> = vec![];
                let mut canon = 0u32;
                for p in Permutation::exhaust().iter() {
                    let q = p.permute(&ob);
                    let key = (u64::from(*q.pocket()), u64::from(*q.public()));
                    if !seen.contains(&key) {
                        seen.push(key);
                        if Isomorphism::is_canonical(&q) { canon += 1; }
                    }
                }
                format!("{} {}", canon, seen.len())
            });
            out.line(&format!("orbit {} {} | {}", pk, pb, r.unwrap_or("P P".into())));
        }
    }
    // ---- children of observations
    let nc = if o.thorough() { 3000 } else { 150 };
    for i in 0..nc {
        let k = [0usize, 3, 4][i % 3];
        let pk = rng.cards(2, DECK_MASK);
        let pb = rng.cards(k, DECK_MASK & !pk);
        let r = catch(|| {
            let ob = Observation::from((Hand::from(pk), Hand::from(pb)));
            let mut count = 0u64;
            let mut x = 0u64;
            let mut ok = 1u8;
            let mut prev: Option<u64> = None;
            for c in ob.children() {
                count += 1;
                let b = u64::from(*c.public());
                x ^= b.wrapping_mul(0x9E3779B97F4A7C15);
                if u64::from(*c.pocket()) != pk || b & pb != pb || b & pk != 0 || (b.count_ones() as usize) != k + if k == 0 { 3 } else { 1 } {
                    ok = 0;
                }
                if let Some(q) = prev {
                    if q >= b {
                        ok = 0;
                    }
                }
                prev = Some(b);
            }
            format!("{} {} {}", count, x, ok)
        });
        out.line(&format!("children {} {} | {}", pk, pb, r.unwrap_or("P".into())));
    }
    let lines = out.finish();
    format!("{{\"lines\":{}}}", lines)
}
