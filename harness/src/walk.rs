//! state walk of the betting engine (C02, C03, C11, C14): every reachable betting state from a dealt
//! hand, with the accepted set of every action kind x amount probed through the public API.
//!
//! line `st <hist> | <state> <turn> <fold> <check> <calls> <raises> <shoves> <blinds> <draws> <deck> <succs> <settles>`
//! line `menu <hist> <n> | <edges> <actions> <allowed>`
use crate::util::*;
use crate::Opts;
use robopoker::cards::hand::Hand;
use robopoker::cards::hole::Hole;
use robopoker::gameplay::action::Action;
use robopoker::gameplay::game::Game;
use robopoker::gameplay::ply::Turn;
use robopoker::gameplay::seat::State;
use robopoker::mccfr::edge::Edge;
use robopoker::mccfr::odds::Odds;
use std::collections::HashSet;

pub fn act_tok(a: &Action) -> String {
    match a {
        Action::Fold => "f".into(),
        Action::Check => "k".into(),
        Action::Call(c) => format!("c{}", c),
        Action::Raise(c) => format!("r{}", c),
        Action::Shove(c) => format!("s{}", c),
        Action::Blind(c) => format!("b{}", c),
        Action::Draw(h) => format!("d{}", u64::from(*h)),
    }
}
pub fn hist_str(h: &[Action]) -> String {
    if h.is_empty() {
        "-".into()
    } else {
        h.iter().map(act_tok).collect::<Vec<_>>().join(",")
    }
}
fn st_ix(s: State) -> u8 {
    match s {
        State::Betting => 0,
        State::Shoving => 1,
        State::Folding => 2,
    }
}
pub fn state_str(g: &Game) -> String {
    let seats = g
        .verif_seats()
        .iter()
        .map(|s| format!("{},{},{},{},{}", st_ix(s.state()), s.stack(), s.stake(), s.spent(), u64::from(Hand::from(s.cards()))))
        .collect::<Vec<_>>()
        .join(";");
    format!("{}/{}/{}/{}/{}", seats, g.pot(), u64::from(Hand::from(g.board())), g.verif_dealer(), g.verif_ticker())
}
fn key(g: &Game) -> (Vec<(u8, i16, i16, i16)>, i16, u32, usize, usize) {
    (
        g.verif_seats().iter().map(|s| (st_ix(s.state()), s.stack(), s.stake(), s.spent())).collect(),
        g.pot(),
        u64::from(Hand::from(g.board())).count_ones(),
        g.verif_dealer(),
        g.verif_ticker(),
    )
}
fn turn_str(t: Turn) -> String {
    match t {
        Turn::Terminal => "T".into(),
        Turn::Chance => "C".into(),
        Turn::Choice(i) => format!("P{}", i),
    }
}
/// accepted amounts among lo..=hi as a range list "a-b+c-d" or "-"
fn ranges(g: &Game, mk: &dyn Fn(i16) -> Action, lo: i16, hi: i16) -> String {
    let mut out: Vec<String> = vec![];
    let mut start: Option<i16> = None;
    let mut x = lo;
    loop {
        let ok = x <= hi && catch(|| g.is_allowed(&mk(x))).unwrap_or(false);
        match (ok, start) {
            (true, None) => start = Some(x),
            (false, Some(s)) => {
                out.push(format!("{}:{}", s, x - 1));
                start = None;
            }
            _ => {}
        }
        if x > hi {
            break;
        }
        x += 1;
    }
    if out.is_empty() {
        "-".into()
    } else {
        out.join("+")
    }
}

pub struct Deal {
    pub holes: [[u64; 2]; 4], // [seat0, seat1] per deal: seat 0 wins / seat 1 wins / tie / pair over pair
    pub streets: [u64; 3],    // flop, turn, river cards
}
/// fixed cards: board Ts Js Qs + two low off-suit cards, so that a royal flush IN HAND can meet a lower
/// straight flush (deals 0, 1), both players can play the board's queen-high (deal 2, a tie) and a plain
/// pair-over-pair showdown exists (deal 3)
pub fn deal() -> Deal {
    let c = |r: u8, s: u8| 1u64 << (r * 4 + s);
    // ranks: 2=0 .. 9=7 T=8 J=9 Q=10 K=11 A=12 ; the short deck has no cards below 6 (rank 4)
    let short = cfg!(feature = "shortdeck");
    let (lo1, lo2) = if short { (c(4, 1), c(5, 2)) } else { (c(0, 1), c(5, 2)) }; // 6d 7h / 2d 7h
    let (f1, f2, f3, tn, rv) = (c(8, 3), c(9, 3), c(10, 3), lo1, lo2); // Ts Js Qs
    let royal = c(12, 3) | c(11, 3); // As Ks
    let lower = c(7, 3) | c(6, 3); // 9s 8s: queen-high straight flush
    let (t0, t1) = if short { (c(6, 0) | c(6, 1), c(6, 2) | c(7, 0)) } else { (c(1, 0) | c(2, 1), c(1, 2) | c(2, 3)) };
    // standard deck: 3c4d vs 3h4s (both play Q J T 7 4); short deck: 8c8d vs 8h9c is not a tie, so the
    // short-deck "tie" deal is simply another decided showdown (the walk streams run on the standard build)
    let aa = c(12, 2) | c(12, 1); // Ah Ad
    let kk = c(11, 2) | c(11, 1); // Kh Kd
    Deal { holes: [[royal, lower], [lower, royal], [t0, t1], [aa, kk]], streets: [f1 | f2 | f3, tn, rv] }
}
fn hole(m: u64) -> Hole {
    Hole::from(Hand::from(m))
}
pub fn root_with(holes: [u64; 2]) -> Game {
    Game::root().verif_with_holes([hole(holes[0]), hole(holes[1])])
}
fn next_draw(g: &Game, d: &Deal) -> Hand {
    let n = u64::from(Hand::from(g.board())).count_ones();
    Hand::from(match n {
        0 => d.streets[0],
        3 => d.streets[1],
        _ => d.streets[2],
    })
}

pub fn edge_tok(e: &Edge) -> String {
    match e {
        Edge::Draw => "D".into(),
        Edge::Fold => "F".into(),
        Edge::Check => "K".into(),
        Edge::Call => "C".into(),
        Edge::Shove => "S".into(),
        Edge::Raise(Odds(n, d)) => format!("R{}:{}", n, d),
    }
}

/// everything observable about one state
fn st_line(g: &Game, hist: &[Action], d: &Deal, rng: &mut Rng) -> String {
    let seats = g.verif_seats();
    let maxstack = seats.iter().map(|s| s.stack()).max().unwrap_or(0);
    let hi = maxstack + 1;
    let turn = g.turn();
    let f = catch(|| g.is_allowed(&Action::Fold)).unwrap_or(false) as u8;
    let k = catch(|| g.is_allowed(&Action::Check)).unwrap_or(false) as u8;
    let calls = ranges(g, &|x| Action::Call(x), -1, hi);
    let raises = ranges(g, &|x| Action::Raise(x), -1, hi);
    let shoves = ranges(g, &|x| Action::Shove(x), -1, hi);
    let blinds = ranges(g, &|x| Action::Blind(x), -1, hi);
    // draws: well-formed next street; one card too many; one card too few; a card already in play
    let wf = next_draw(g, d);
    let wfm = u64::from(wf);
    let inplay = u64::from(Hand::from(seats[0].cards()));
    let extra = 1u64 << 50 | 1u64 << 49 | 1u64 << 48; // Ah Ad Kc-ish region: free cards in both decks? chosen below
    let free: u64 = DECK_MASK & !(d.streets[0] | d.streets[1] | d.streets[2] | u64::from(Hand::from(seats[0].cards())) | u64::from(Hand::from(seats[1].cards())) | u64::from(Hand::from(g.board())));
    let _ = extra;
    let one_free = free & free.wrapping_neg();
    let probes: [u64; 4] = [
        wfm,
        wfm | one_free,
        wfm & (wfm - 1),
        (wfm & (wfm - 1)) | (inplay & inplay.wrapping_neg()),
    ];
    let draws = probes
        .iter()
        .map(|m| format!("{}={}", m, catch(|| g.is_allowed(&Action::Draw(Hand::from(*m)))).map(|b| b as u8 as i8).unwrap_or(-1)))
        .collect::<Vec<_>>()
        .join(",");
    let deck = catch(|| u64::from(Hand::from(g.deck()))).map(|x| x.to_string()).unwrap_or("P".into());
    // successors for the non-raise actions, the extreme raises and two sampled raises
    let mut succ: Vec<String> = vec![];
    let mut cands: Vec<Action> = vec![Action::Fold, Action::Check, Action::Call(g.to_call()), Action::Shove(g.to_shove()), Action::Draw(wf)];
    if turn != Turn::Terminal && turn != Turn::Chance {
        let lo = g.to_raise();
        let hi2 = g.to_shove() - 1;
        if lo <= hi2 {
            cands.push(Action::Raise(lo));
            cands.push(Action::Raise(hi2));
            cands.push(Action::Raise(rng.range(lo as i64, hi2 as i64) as i16));
        }
        cands.push(Action::Raise(hi2 + 1));
        cands.push(Action::Raise(lo - 1));
    }
    // the end points of every range of amounts the engine says it accepts: each is applied, so an accepted
    // over- or under-sized amount shows in the state it leads to
    let ends = |r: &str| -> Vec<i16> { r.split('+').filter(|x| *x != "-").flat_map(|ab| ab.split(':').filter_map(|x| x.parse::<i16>().ok()).collect::<Vec<_>>()).collect() };
    for x in ends(&calls) { cands.push(Action::Call(x)); }
    for x in ends(&raises) { cands.push(Action::Raise(x)); }
    for x in ends(&shoves) { cands.push(Action::Shove(x)); }
    for x in ends(&blinds) { cands.push(Action::Blind(x)); }
    {
        let mut seen_c: Vec<String> = vec![];
        cands.retain(|a| { let t = act_tok(a); if seen_c.contains(&t) { false } else { seen_c.push(t); true } });
    }
    for a in cands {
        let r = catch(|| g.apply(a));
        succ.push(format!("{}>{}", act_tok(&a), r.map(|x| state_str(&x)).unwrap_or("X".into())));
    }
    // settlements under the three deals
    let settles = if turn == Turn::Terminal {
        d.holes
            .iter()
            .map(|hs| {
                let g2 = g.clone().verif_with_holes([hole(hs[0]), hole(hs[1])]);
                catch(|| g2.settlements().iter().map(|s| s.reward.to_string()).collect::<Vec<_>>().join(","))
                    .map(|r| format!("{}&{}={}", hs[0], hs[1], r))
                    .unwrap_or(format!("{}&{}=P", hs[0], hs[1]))
            })
            .collect::<Vec<_>>()
            .join(";")
    } else {
        "-".into()
    };
    format!(
        "st {} | {} {} {} {} {} {} {} {} {} {} {} {}",
        hist_str(hist), state_str(g), turn_str(turn), f, k, calls, raises, shoves, blinds, draws, deck, succ.join("~"), settles
    )
}

fn menu_lines(g: &Game, hist: &[Action], out: &mut Shards) {
    for n in 0..=5usize {
        let r = catch(|| {
            let es = g.choices(n);
            let acts: Vec<Action> = es.iter().map(|e| g.actionize(e)).collect();
            let oks: Vec<u8> = acts.iter().map(|a| g.is_allowed(a) as u8).collect();
            format!(
                "{} {} {}",
                es.iter().map(edge_tok).collect::<Vec<_>>().join(","),
                acts.iter().map(act_tok).collect::<Vec<_>>().join(","),
                oks.iter().map(|b| b.to_string()).collect::<Vec<_>>().join(",")
            )
        });
        let seats = g.verif_seats();
        out.line(&format!(
            "menu {} {} {} {} | {}",
            hist_str(hist), n, u64::from(Hand::from(seats[0].cards())), u64::from(Hand::from(seats[1].cards())), r.unwrap_or("P P P".into())
        ));
    }
}

pub struct WalkStats {
    pub states: u64,
    pub transitions: u64,
    pub terminals: u64,
    pub chance: u64,
}

/// depth-first walk. `all_raises`: every integer raise size; otherwise the sizes the abstraction produces
/// (every grid edge through actionize) plus the minimum and maximum raise.
pub fn walk(out: &mut Shards, all_raises: bool, minmax: bool, menus: bool, rng: &mut Rng, limit: u64) -> WalkStats {
    let d = deal();
    let root = root_with(d.holes[0]);
    let mut seen: HashSet<(Vec<(u8, i16, i16, i16)>, i16, u32, usize, usize)> = HashSet::new();
    let mut todo: Vec<(Game, Vec<Action>)> = vec![(root, vec![])];
    seen.insert(key(&root));
    let mut stats = WalkStats { states: 0, transitions: 0, terminals: 0, chance: 0 };
    while let Some((g, hist)) = todo.pop() {
        stats.states += 1;
        out.line(&st_line(&g, &hist, &d, rng));
        let turn = g.turn();
        let mut next: Vec<Action> = vec![];
        match turn {
            Turn::Terminal => stats.terminals += 1,
            Turn::Chance => {
                stats.chance += 1;
                next.push(Action::Draw(next_draw(&g, &d)));
            }
            Turn::Choice(_) => {
                if menus {
                    menu_lines(&g, &hist, out);
                }
                for a in g.legal() {
                    match a {
                        Action::Raise(lo) => {
                            let hi = g.to_shove() - 1;
                            if all_raises {
                                for x in lo..=hi {
                                    next.push(Action::Raise(x));
                                }
                            } else {
                                let mut xs: Vec<i16> = if minmax { vec![lo, hi] } else { vec![] };
                                for o in Odds::GRID.iter() {
                                    if let Action::Raise(x) = g.actionize(&Edge::Raise(*o)) {
                                        xs.push(x);
                                    }
                                }
                                xs.sort();
                                xs.dedup();
                                for x in xs {
                                    // an edge that translates to a raise the engine refuses is reported by the menu lines;
                                    // the walk itself only follows accepted actions
                                    if catch(|| g.is_allowed(&Action::Raise(x))).unwrap_or(false) {
                                        next.push(Action::Raise(x));
                                    }
                                }
                            }
                        }
                        other => next.push(other),
                    }
                }
            }
        }
        for a in next {
            stats.transitions += 1;
            let child = match catch(|| g.apply(a)) {
                Some(c) => c,
                None => continue, // the st line of g already records that apply aborts on this action
            };
            if seen.insert(key(&child)) {
                let mut h = hist.clone();
                h.push(a);
                todo.push((child, h));
            }
        }
        if stats.states >= limit {
            break;
        }
    }
    stats
}

/// random full-range walks from the root to the end of the hand
pub fn random_walks(out: &mut Shards, n: usize, menus: bool, rng: &mut Rng) -> u64 {
    let d = deal();
    let mut steps = 0u64;
    for w in 0..n {
        let mut g = root_with(d.holes[w % 4]);
        let mut hist: Vec<Action> = vec![];
        loop {
            steps += 1;
            out.line(&st_line(&g, &hist, &d, rng));
            let a = match g.turn() {
                Turn::Terminal => break,
                Turn::Chance => Action::Draw(next_draw(&g, &d)),
                Turn::Choice(_) => {
                    if menus && rng.chance(0.3) {
                        menu_lines(&g, &hist, out);
                    }
                    let legal = g.legal();
                    let a = legal[rng.below(legal.len() as u64) as usize];
                    match a {
                        Action::Raise(lo) => {
                            let hi = g.to_shove() - 1;
                            // bias to small raises so that long raise wars occur
                            let x = if rng.chance(0.6) { lo + rng.below(3.min((hi - lo + 1) as u64)) as i16 } else { rng.range(lo as i64, hi as i64) as i16 };
                            Action::Raise(x)
                        }
                        other => other,
                    }
                }
            };
            g = match catch(|| g.apply(a)) {
                Some(x) => x,
                None => break, // an action listed as legal is refused: the st line of g records it
            };
            hist.push(a);
            // every hand ends within 2 * STACK + 16 actions (C03_terminates); a line far beyond that is reported, not followed
            if hist.len() > 400 {
                out.line(&format!("stuck {} | {}", w, hist.len()));
                break;
            }
        }
    }
    steps
}

/// hands checked down to a showdown on chosen boards: random ones and boards that play themselves (straight flush,
/// quads, flush, straight, full house on the board) against holdings that do or do not improve on them -- the
/// settlement clauses (strongest hand takes the pot, equal hands split) on card configurations a fixed deal never meets
pub fn showdowns(out: &mut Shards, n: usize, rng: &mut Rng) -> u64 {
    let c = |r: u64, s: u64| 1u64 << (r * 4 + s);
    let lowest = if cfg!(feature = "shortdeck") { 4u64 } else { 0u64 };
    let mut lines = 0u64;
    for i in 0..n {
        let su = rng.below(4);
        let mut forced: Option<(u64, u64)> = None; // (flush holding, full-house holding) of the seventh category
        let board: u64 = match i % 7 {
            6 => {
                // a paired board with three cards of one suit: a flush against a full house
                let rs: Vec<u64> = { let mut v: Vec<u64> = (lowest..13).collect(); for k in 0..5 { let j = k + rng.below((v.len() - k) as u64) as usize; v.swap(k, j); } v };
                let (p, a, b, x, f1, f2) = (rs[0], rs[1], rs[2], rs[3], rs[4], rs[5 % rs.len()]);
                let (s2, s3) = ((su + 1) % 4, (su + 2) % 4);
                forced = Some((c(f1, su) | c(if f2 == f1 { x } else { f2 }, su), c(p, s3) | c(a, s2)));
                c(p, su) | c(p, s2) | c(a, su) | c(b, su) | c(x, s3)
            }
            1 => { let lo = lowest + rng.below(13 - 4 - lowest); (0..5).map(|k| c(lo + k, su)).fold(0, |a, b| a | b) } // straight flush
            2 => { let q = lowest + rng.below(13 - lowest); let mut k = lowest + rng.below(13 - lowest); if k == q { k = (q + 1 - lowest) % (13 - lowest) + lowest; } (0..4).map(|s| c(q, s)).fold(0, |a, b| a | b) | c(k, rng.below(4)) }
            3 => rng.cards(5, (0..13).filter(|r| *r >= lowest).map(|r| c(r, su)).fold(0, |a, b| a | b) & DECK_MASK), // five of one suit
            4 => { let lo = lowest + rng.below(13 - 4 - lowest); (0..5).map(|k| c(lo + k, (su + k) % 4)).fold(0, |a, b| a | b) } // rainbow straight
            5 => { let t = lowest + rng.below(13 - lowest); let mut p = lowest + rng.below(13 - lowest); if p == t { p = (t + 1 - lowest) % (13 - lowest) + lowest; } c(t, 0) | c(t, 1) | c(t, 2) | c(p, 0) | c(p, 3) } // full house
            _ => rng.cards(5, DECK_MASK),
        };
        let free = DECK_MASK & !board;
        // a holding with a high card of the board's suit / rank region, and random ones
        let suited_high: Vec<u64> = (0..13u64).rev().map(|r| c(r, su)).filter(|m| free & m != 0).collect();
        let special = if let Some((fl, _)) = forced {
            fl
        } else if !suited_high.is_empty() && i % 7 != 0 {
            // any free card of the board's suit (higher or lower than the board's): it may or may not play
            let a = suited_high[rng.below(suited_high.len() as u64) as usize];
            a | rng.cards(1, free & !a)
        } else {
            rng.cards(2, free)
        };
        let other = if let Some((_, fh)) = forced { fh } else { rng.cards(2, free & !special) };
        let r1 = rng.cards(2, free);
        let r2 = rng.cards(2, free & !r1);
        let r3 = rng.cards(2, free);
        let r4 = rng.cards(2, free & !r3);
        // the board in dealing order: three lowest bits as the flop
        let b0 = board & board.wrapping_neg();
        let b1 = (board & !b0) & (board & !b0).wrapping_neg();
        let b2 = (board & !b0 & !b1) & (board & !b0 & !b1).wrapping_neg();
        let rest = board & !(b0 | b1 | b2);
        let tn = rest & rest.wrapping_neg();
        let rv = rest & !tn;
        let d = Deal { holes: [[special, other], [other, special], [r1, r2], [r3, r4]], streets: [b0 | b1 | b2, tn, rv] };
        let mut g = root_with(d.holes[0]);
        let mut hist: Vec<Action> = vec![];
        // checked (or bet and called) down to the river
        let mut ok = true;
        for _ in 0..40 {
            let a = match g.turn() {
                Turn::Terminal => break,
                Turn::Chance => Action::Draw(next_draw(&g, &d)),
                Turn::Choice(_) => {
                    let legal = g.legal();
                    if let Some(x) = legal.iter().find(|a| matches!(a, Action::Check)) { *x }
                    else if let Some(x) = legal.iter().find(|a| matches!(a, Action::Call(_))) { *x }
                    else { ok = false; break; }
                }
            };
            g = match catch(|| g.apply(a)) { Some(x) => x, None => { ok = false; break; } };
            hist.push(a);
        }
        if ok && g.turn() == Turn::Terminal {
            out.line(&st_line(&g, &hist, &d, rng));
            lines += 1;
        }
    }
    lines
}

pub fn run(o: &Opts, deck: &str, name: &str) -> String {
    let mut out = Shards::new(&o.out, name, o.shards);
    out.directive(&format!("@deck {}", deck));
    let mut rng = Rng::new(o.seed, 2);
    let menus = true;
    // quick: the states the abstraction reaches (every grid edge through actionize);
    // thorough: every integer raise size (all reachable betting states)
    let st = if o.thorough() {
        walk(&mut out, true, true, menus, &mut rng, u64::MAX)
    } else {
        walk(&mut out, false, false, menus, &mut rng, u64::MAX)
    };
    let nrand = if o.thorough() { 200_000 } else { 10_000 };
    let steps = random_walks(&mut out, nrand, menus, &mut rng);
    let shows = showdowns(&mut out, if o.thorough() { 60_000 } else { 3_000 }, &mut rng);
    let lines = out.finish();
    format!(
        "{{\"lines\":{},\"states\":{},\"transitions\":{},\"terminals\":{},\"chance\":{},\"random_walk_steps\":{},\"showdowns_on_chosen_boards\":{},\"exhaustive_raise_sizes\":{}}}",
        lines, st.states, st.transitions, st.terminals, st.chance, steps, shows, o.thorough()
    )
}
