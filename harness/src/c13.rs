//! C13 -- one k-means step on synthetic layers (hooks Layer::verif_*); C20 -- centroid seeding twice / across thread counts
use crate::util::*;
use crate::Opts;
use robopoker::cards::isomorphisms::IsomorphismIterator;
use robopoker::cards::observation::Observation;
use robopoker::cards::street::Street;
use robopoker::clustering::abstraction::Abstraction;
use robopoker::clustering::histogram::Histogram;
use robopoker::clustering::layer::Layer;
use robopoker::clustering::metric::Metric;
use robopoker::clustering::pair::Pair;
use std::collections::BTreeMap;

fn hist_str(h: &Histogram) -> String {
    let (_, parts) = h.verif_parts();
    if parts.is_empty() { "e".into() } else { parts.iter().map(|(a, c)| format!("{}:{}", a, c)).collect::<Vec<_>>().join("+") }
}
fn hists_str(v: &[Histogram]) -> String {
    if v.is_empty() { "-".into() } else { v.iter().map(hist_str).collect::<Vec<_>>().join(",") }
}
fn random_samples(rng: &mut Rng, inner: Street, support: usize, samples: usize) -> Vec<Abstraction> {
    let n = if inner == Street::Rive { 101 } else { inner.k() };
    let keys: Vec<usize> = (0..support).map(|_| rng.below(n as u64) as usize).collect();
    let mut v = vec![];
    for _ in 0..samples {
        v.push(Abstraction::from((inner, keys[rng.below(keys.len() as u64) as usize])));
    }
    v
}
fn random_hist(rng: &mut Rng, inner: Street, support: usize, samples: usize) -> Histogram {
    Histogram::from(random_samples(rng, inner, support, samples))
}
/// a full random symmetric metric over the buckets of `inner` (needed by Sinkhorn for learned streets)
fn random_metric(rng: &mut Rng, inner: Street) -> Metric {
    let all = Abstraction::all(inner);
    let mut m: Vec<(i64, f32)> = vec![];
    for i in 0..all.len() {
        for j in 0..i {
            m.push((i64::from(Pair::from((&all[i], &all[j]))), 0.05 + 0.95 * rng.unit() as f32));
        }
    }
    Metric::verif_from_entries(&m)
}
/// centroids in near-identical pairs (one sample in 400 moved): many points are then almost equidistant from
/// two centroids, which is where an inexact or asymmetric distance decides the assignment
fn near_pairs(rng: &mut Rng, inner: Street, k: usize) -> Vec<Histogram> {
    let mut out = vec![];
    while out.len() < k {
        let s = 2 + rng.below(6) as usize;
        let v = random_samples(rng, inner, s, 400);
        let mut w = v.clone();
        let (a, b) = (rng.below(400) as usize, rng.below(400) as usize);
        w[a] = v[b];
        out.push(Histogram::from(v));
        if out.len() < k { out.push(Histogram::from(w)); }
    }
    out
}
/// a metric whose distances are all tiny (0.0005 .. 0.005): the entropic cost of a spread histogram to ITSELF is then
/// of the same order as its cost to a neighbouring concentrated one
fn tight_metric(rng: &mut Rng, inner: Street) -> Metric {
    let all = Abstraction::all(inner);
    let mut m: Vec<(i64, f32)> = vec![];
    for i in 0..all.len() {
        for j in 0..i {
            m.push((i64::from(Pair::from((&all[i], &all[j]))), 0.0005 + 0.0045 * rng.unit() as f32));
        }
    }
    Metric::verif_from_entries(&m)
}
fn make_layer(rng: &mut Rng, street: Street, n: usize, k: usize, ties: bool, near: bool) -> (Layer, Vec<Histogram>, Vec<Histogram>) {
    let inner = street.next();
    let points: Vec<Histogram> = (0..n).map(|_| { let s = 1 + rng.below(6) as usize; let c = 5 + rng.below(40) as usize; random_hist(rng, inner, s, c) }).collect();
    let mut kmeans: Vec<Histogram> = (0..k).map(|i| if ties && i % 2 == 1 { points[rng.below(n as u64) as usize].clone() } else { let s = 2 + rng.below(8) as usize; random_hist(rng, inner, s, 60) }).collect();
    if near {
        kmeans = near_pairs(rng, inner, k);
    }
    if ties && k >= 2 {
        kmeans[k - 1] = kmeans[0].clone(); // two identical centroids: the first must win
    }
    // flop layers with ties and few centroids: a tight metric, even centroids concentrated on one bucket taken from a
    // point's support (the odd ones are copies of points)
    let tight = ties && inner != Street::Rive && k <= 8;
    if tight {
        for i in (0..k.saturating_sub(1)).step_by(2) {
            // a pair of centroids for one point: a copy of the point, and a histogram concentrated on the point's middle bucket
            let j = rng.below(n as u64) as usize;
            let (_, parts) = points[j].verif_parts();
            if let Some((key, _)) = parts.get(parts.len() / 2) {
                kmeans[i] = Histogram::from(vec![Abstraction::from(*key); 30]);
                kmeans[i + 1] = points[j].clone();
            }
        }
    }
    let metric = if inner == Street::Rive { Metric::default() } else if tight { tight_metric(rng, inner) } else { random_metric(rng, inner) };
    (Layer::verif_new(street, metric, points.clone(), kmeans.clone()), points, kmeans)
}

pub fn run(o: &Opts, _deck: &str) -> String {
    let mut out = Shards::new(&o.out, "c13", o.shards);
    let mut rng = Rng::new(o.seed, 13);
    let nl = if o.thorough() { 400 } else { 48 };
    for li in 0..nl {
        let street = if li % 4 == 3 { Street::Flop } else { Street::Turn };
        let n = if street == Street::Flop { 10 + rng.below(30) as usize } else { 10 + rng.below(if li % 8 == 0 { 490 } else { 120 }) as usize };
        // one full-size turn layer (all 144 buckets: the derived metric then has all C(144,2) pair keys)
        let k = if li == 1 { Street::Turn.k() } else { 2 + rng.below(15) as usize };
        let (street, n) = if li == 1 { (Street::Turn, 150) } else { (street, n) };
        let near = street == Street::Flop && li % 8 == 7;
        let n = if near { 150 } else { n };
        let (layer, points, kmeans) = make_layer(&mut rng, street, n, k, li % 3 == 0, near);
        let r = catch(|| {
            // the K x N matrix of distances the layer itself uses
            let d: Vec<String> = kmeans.iter().map(|c| points.iter().map(|p| layer.verif_emd(p, c).to_bits().to_string()).collect::<Vec<_>>().join(",")).collect();
            let nb: Vec<String> = points.iter().map(|p| { let (i, x) = layer.verif_neighborhood(p); format!("{}:{}", i, x.to_bits()) }).collect();
            let next = layer.verif_next();
            let classes: Vec<Observation> = IsomorphismIterator::from(street).take(n).map(Observation::from).collect();
            let lookup = layer.verif_lookup();
            let lk: Vec<String> = classes.iter().map(|ob| format!("{}:{}:{}", u64::from(*ob.pocket()), u64::from(*ob.public()), u64::from(lookup.lookup(ob)))).collect();
            // centroid-to-centroid distances for the derived metric
            let cc: Vec<String> = kmeans.iter().map(|a| kmeans.iter().map(|b| layer.verif_emd(a, b).to_bits().to_string()).collect::<Vec<_>>().join(",")).collect();
            let metric = layer.verif_metric().verif_entries();
            let ms: Vec<String> = metric.iter().map(|(p, x)| format!("{}:{}", *p as u64, x.to_bits())).collect();
            format!("{} {} {} {} {} {}", d.join(";"), nb.join(","), hists_str(&next), lk.join(","), cc.join(";"), if ms.is_empty() { "-".into() } else { ms.join(",") })
        });
        out.line(&format!("km {} {} {} {} {} | {}", street as isize, n, k, hists_str(&points), hists_str(&kmeans), r.unwrap_or("P".into())));
    }
    // centroid seeding: twice, and under 1 / 4 / 16 worker threads
    let ni = if o.thorough() { 6 } else { 2 };
    for ii in 0..ni {
        let street = Street::Turn;
        let n = street.k() + 20 + rng.below(60) as usize;
        let (layer, points, _) = make_layer(&mut rng, street, n, 2, false, false);
        let run = |threads: usize| -> String {
            let pool = rayon::ThreadPoolBuilder::new().num_threads(threads).build().unwrap();
            pool.install(|| catch(|| hists_str(&layer.verif_init())).unwrap_or("P".into()))
        };
        let a = catch(|| hists_str(&layer.verif_init())).unwrap_or("P".into());
        let b = catch(|| hists_str(&layer.verif_init())).unwrap_or("P".into());
        let h = |s: &String| { let mut x: u64 = 0xcbf29ce484222325; for c in s.bytes() { x = (x ^ c as u64).wrapping_mul(0x100000001b3); } format!("{}#{:016x}", s.matches(',').count() + 1, x) };
        out.line(&format!("init {} {} {} | {} {} {} {} {}", street as isize, ii, points.len(), h(&a), h(&b), h(&run(1)), h(&run(4)), h(&run(16))));
    }
    let lines = out.finish();
    format!("{{\"lines\":{}}}", lines)
}
