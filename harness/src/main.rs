//! vpharness -- drives the implementation (robopoker, built from /repo's working tree with
//! `--cfg robopoker_verif`) on generated inputs and writes one case per line:
//!     tag in1 in2 ... | out1 out2 ...
//! The extracted Coq model/spec driver (extract/driver) reads the same lines.
mod util;
mod c01;
mod c04;
mod c05;
mod c09;
mod c06;
mod c07;
mod c12;
mod c13;
mod c14;
mod c15;
mod c16;
mod c17;
mod c19;
mod cfr;
mod walk;

pub struct Opts {
    pub tier: String,
    pub seed: u64,
    pub out: String,
    pub shards: usize,
}
impl Opts {
    pub fn thorough(&self) -> bool {
        self.tier == "thorough"
    }
}

fn main() {
    // panics of the code under test are expected and caught case by case; VERIF_DEBUG=1 shows where they come from
    if std::env::var("VERIF_DEBUG").is_ok() {
        std::panic::set_hook(Box::new(|info| eprintln!("panic: {}", info)));
    } else {
        std::panic::set_hook(Box::new(|_| {}));
    }
    let args: Vec<String> = std::env::args().collect();
    if args.len() >= 2 && args[1] == "c20probe" {
        // second-process transcript for the reproducibility check (see c09::run_c20)
        println!("{}", c09::c20_probe());
        return;
    }
    if args.len() < 2 {
        eprintln!("usage: vpharness <check> [--tier quick|thorough] [--seed N] [--out DIR] [--shards K]");
        std::process::exit(2);
    }
    let mut o = Opts { tier: "quick".into(), seed: 1, out: "/verif/.cache/cases".into(), shards: 16 };
    let mut i = 2;
    while i + 1 < args.len() {
        match args[i].as_str() {
            "--tier" => o.tier = args[i + 1].clone(),
            "--seed" => o.seed = args[i + 1].parse().expect("seed"),
            "--out" => o.out = args[i + 1].clone(),
            "--shards" => o.shards = args[i + 1].parse().expect("shards"),
            x => panic!("unknown option {}", x),
        }
        i += 2;
    }
    let deck = if cfg!(feature = "shortdeck") { "short" } else { "std" };
    let summary = match args[1].as_str() {
        "c01" => c01::run(&o, deck),
        "c04" => c04::run(&o, deck),
        "c05" => c05::run(&o, deck),
        "c06" => c06::run(&o, deck),
        "c12" => c12::run(&o, deck),
        "c13" => c13::run(&o, deck),
        "c14" => c14::run(&o, deck),
        "c07" => c07::run(&o, deck),
        "c09" => c09::run(&o, deck),
        "c20" => c09::run_c20(&o, deck),
        "c15" => c15::run(&o, deck),
        "c16" => c16::run(&o, deck),
        "c17" => c17::run(&o, deck),
        "c19" => c19::run(&o, deck),
        "cfr" => cfr::run(&o, deck),
        "walk" => walk::run(&o, deck, "walk"),
        x => {
            eprintln!("unknown check {}", x);
            std::process::exit(2);
        }
    };
    println!("{}", summary);
}
