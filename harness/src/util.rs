//! shared helpers: deterministic PRNG (every random choice derives from VERIF_SEED), sharded output
use std::io::Write;

#[derive(Clone)]
pub struct Rng(pub u64);
impl Rng {
    pub fn new(seed: u64, stream: u64) -> Self {
        let mut r = Rng(seed ^ stream.wrapping_mul(0x9E3779B97F4A7C15) ^ 0xD1B54A32D192ED03);
        r.next();
        r
    }
    pub fn next(&mut self) -> u64 {
        self.0 = self.0.wrapping_add(0x9E3779B97F4A7C15);
        let mut z = self.0;
        z = (z ^ (z >> 30)).wrapping_mul(0xBF58476D1CE4E5B9);
        z = (z ^ (z >> 27)).wrapping_mul(0x94D049BB133111EB);
        z ^ (z >> 31)
    }
    pub fn below(&mut self, n: u64) -> u64 {
        if n == 0 { 0 } else { self.next() % n }
    }
    pub fn range(&mut self, lo: i64, hi: i64) -> i64 {
        lo + self.below((hi - lo + 1) as u64) as i64
    }
    pub fn unit(&mut self) -> f64 {
        (self.next() >> 11) as f64 / (1u64 << 53) as f64
    }
    pub fn chance(&mut self, p: f64) -> bool {
        self.unit() < p
    }
    /// k distinct cards out of the 52 (or those allowed by mask), as a bit mask
    pub fn cards(&mut self, k: usize, allowed: u64) -> u64 {
        let mut out = 0u64;
        let mut avail: Vec<u8> = (0..64u8).filter(|i| allowed >> i & 1 == 1).collect();
        for _ in 0..k.min(avail.len()) {
            let i = self.below(avail.len() as u64) as usize;
            out |= 1u64 << avail.swap_remove(i);
        }
        out
    }
}

/// a set of output shards `dir/name.K.cases`
pub struct Shards {
    files: Vec<std::io::BufWriter<std::fs::File>>,
    next: usize,
    pub lines: u64,
}
impl Shards {
    pub fn new(dir: &str, name: &str, n: usize) -> Self {
        std::fs::create_dir_all(dir).expect("create out dir");
        let files = (0..n)
            .map(|k| std::io::BufWriter::with_capacity(1 << 20, std::fs::File::create(format!("{}/{}.{}.cases", dir, name, k)).expect("create shard")))
            .collect();
        Shards { files, next: 0, lines: 0 }
    }
    /// directive lines go to every shard
    pub fn directive(&mut self, s: &str) {
        for f in self.files.iter_mut() {
            writeln!(f, "{}", s).unwrap();
        }
    }
    /// a case line goes to the shard chosen by a hash of its input part (text before '|'),
    /// so equal inputs meet in one shard and per-shard distinct counts add up exactly
    pub fn line(&mut self, s: &str) {
        let input = s.split('|').next().unwrap_or(s);
        let mut h: u64 = 0xcbf29ce484222325;
        for b in input.bytes() {
            h = (h ^ b as u64).wrapping_mul(0x100000001b3);
        }
        let k = ((h >> 17) % self.files.len() as u64) as usize;
        writeln!(self.files[k], "{}", s).unwrap();
        self.lines += 1;
    }
    /// all lines of one logical group go to one shard (for whole-stream checks such as collisions)
    pub fn line_to(&mut self, shard: usize, s: &str) {
        let n = self.files.len();
        writeln!(self.files[shard % n], "{}", s).unwrap();
        self.lines += 1;
    }
    pub fn finish(mut self) -> u64 {
        for f in self.files.iter_mut() {
            f.flush().unwrap();
        }
        self.lines
    }
}

/// run f, mapping a panic to None (the default panic message is silenced by the hook set in main)
pub fn catch<T>(f: impl FnOnce() -> T) -> Option<T> {
    std::panic::catch_unwind(std::panic::AssertUnwindSafe(f)).ok()
}

pub const DECK_MASK: u64 = if cfg!(feature = "shortdeck") { 0x000FFFFFFFFF0000 } else { 0x000FFFFFFFFFFFFF };
