//! C19 -- discounted accumulation of regret and average strategy at one information set, walker alternation
use crate::util::*;
use crate::Opts;
use robopoker::cards::street::Street;
use robopoker::clustering::abstraction::Abstraction;
use robopoker::mccfr::bucket::Bucket;
use robopoker::mccfr::discount::Discount;
use robopoker::mccfr::edge::Edge;
use robopoker::mccfr::path::Path;
use robopoker::mccfr::player::Player;
use robopoker::mccfr::policy::Policy;
use robopoker::mccfr::profile::Profile;
use robopoker::mccfr::regret::Regret;
use robopoker::gameplay::ply::Turn;
use std::collections::BTreeMap;

/// first epoch of the prune phase (Phase::from): found by asking the library
fn robopoker_prune_start() -> usize {
    let (mut lo, mut hi) = (0usize, 10_000_000usize);
    while lo < hi {
        let mid = (lo + hi) / 2;
        if robopoker::mccfr::phase::Phase::from(mid) == robopoker::mccfr::phase::Phase::Prune { hi = mid } else { lo = mid + 1 }
    }
    lo
}
fn bits(v: &[f32]) -> String {
    if v.is_empty() { "-".into() } else { v.iter().map(|x| x.to_bits().to_string()).collect::<Vec<_>>().join(",") }
}
pub fn run(o: &Opts, _deck: &str) -> String {
    let mut out = Shards::new(&o.out, "c19", o.shards);
    let mut rng = Rng::new(o.seed, 19);
    let nseq = if o.thorough() { 3000 } else { 400 };
    let edges = [Edge::Fold, Edge::Call, Edge::Shove];
    let mut total = 0u64;
    for q in 0..nseq {
        let len = match q % 6 { 0 => 1, 1 => 2 + rng.below(5) as usize, 2 => 380 + rng.below(30) as usize, 3 => 2000, 4 => 5 + rng.below(35) as usize, _ => 1 + rng.below(600) as usize };
        // some sequences start near the end of the discount phase, some near the start of the prune phase
        let start = if q % 7 == 3 { 385 } else if q % 7 == 5 { robopoker_prune_start() - 5 } else { 0 };
        let past = Path::from(vec![Edge::Check]);
        let fut = Path::from(edges.to_vec());
        let present = Abstraction::from((Street::Flop, q % 128));
        let bucket = Bucket::from((past, present, fut));
        let init_r = if q % 5 == 0 { 7.5f32 } else { 0.0 };
        let init_p = if q % 3 == 0 { 0.25f32 } else { 0.0 };
        let rows: Vec<(u64, u64, u64, u64, f32, f32)> = edges.iter().map(|e| (u64::from(past), u64::from(present), u64::from(fut), u64::from(*e), init_r, init_p)).collect();
        let mut p = Profile::verif_from_rows(&rows);
        p.verif_set_epochs(start);
        let e = edges[q % 3];
        let mut rs: Vec<f32> = vec![];
        let mut ps: Vec<f32> = vec![];
        let mut dr: Vec<f32> = vec![];
        let mut dp: Vec<f32> = vec![];
        let mut walkers = String::new();
        let style = q % 6;
        for _ in 0..len {
            let t = p.epochs();
            let r: f32 = match style {
                0 => (rng.unit() as f32 - 0.5) * 40.0,
                1 => if rng.chance(0.3) { 0.0 } else { (rng.unit() as f32 - 0.3) * 5.0 },
                2 => 1.0,
                3 => -(rng.unit() as f32) * 3.0,
                4 => -8000.0 - (rng.unit() as f32) * 4000.0, // a long losing streak: the accumulated regret goes far below REGRET_MIN
                _ => if rng.chance(0.5) { 0.0 } else { (rng.unit() as f32 - 0.5) * 10.0 },
            };
            // pure strategies (exactly 0.0 / 1.0) occur in styles 1 and 5
            let pol: f32 = match style { 2 => 0.5, 1 | 5 => if rng.chance(0.4) { if rng.chance(0.5) { 0.0 } else { 1.0 } } else { rng.unit() as f32 }, _ => rng.unit() as f32 };
            walkers.push(match p.walker() { Player(Turn::Choice(0)) => '0', Player(Turn::Choice(_)) => '1', _ => '?' });
            dr.push(if p.phase() == robopoker::mccfr::phase::Phase::Discount { Discount::default().regret(t, r) } else { 1.0 });
            dp.push(Discount::default().policy(t));
            // every edge gets an update; we track one
            let rm: BTreeMap<Edge, f32> = edges.iter().map(|x| (*x, if *x == e { r } else { -r })).collect();
            let pm: BTreeMap<Edge, f32> = edges.iter().map(|x| (*x, if *x == e { pol } else { 1.0 - pol })).collect();
            p.add_regret(&bucket, &Regret::from(rm));
            p.add_policy(&bucket, &Policy::from(pm));
            p.next();
            rs.push(r);
            ps.push(pol);
            total += 1;
        }
        let (fr, fp) = p.verif_memory(&bucket, &e).unwrap();
        // the average strategy as the library reports it, beside the accumulators it is computed from
        let accs: Vec<f32> = edges.iter().map(|x| p.verif_memory(&bucket, x).map(|m| m.1).unwrap_or(f32::NAN)).collect();
        let wts: Vec<f32> = edges.iter().map(|x| catch(|| p.weight(&bucket, x)).unwrap_or(f32::NAN)).collect();
        out.line(&format!(
            "disc {} {} {} {} {} | {} {} {} {} {} {} {}",
            start, init_r.to_bits(), init_p.to_bits(), bits(&rs), bits(&ps), bits(&dr), bits(&dp), fr.to_bits(), fp.to_bits(), walkers, bits(&accs), bits(&wts)
        ));
    }
    let lines = out.finish();
    format!("{{\"lines\":{},\"epochs\":{}}}", lines, total)
}
