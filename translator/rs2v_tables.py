"""table layouts (C17/C18): header/footer, per table the order and width of write_* calls in save(),
the read_* calls of load(), the COPY column list, the declared column types, the loader's EOF rule."""
import re
from rs2v import Refuse, header, one, src, strip_comments, rust_int


NAMING = {  # writer expression -> the column it denotes (trusted naming table, see DESIGN.md section 3)
    "u64::from(bucket.0)": "past", "u64::from(bucket.1)": "present", "u64::from(bucket.2)": "future",
    "u64::from(edge.clone())": "edge", "memory.regret()": "regret", "memory.policy()": "policy",
    "i64::from(*pair)": "xor", "*distance": "dx",
    "i64::from(*obs)": "obs", "i64::from(*abs)": "abs",
    "i64::from(*from)": "prev", "i64::from(*into)": "next", "histogram.density(into)": "dx",
}
WIDTH = {"u64": 8, "i64": 8, "f32": 4, "u32": 4, "i32": 4}


COLUMNS = ["past", "present", "future", "edge", "regret", "policy", "xor", "dx", "obs", "abs", "prev", "next", "position"]


def coq_str_list(l):
    for x in l:
        if x not in COLUMNS:
            raise Refuse(f"unknown column name {x!r}")
    return "[" + "; ".join("Col_" + x for x in l) + "]"


def table(rel, impl_name, prefix):
    t = strip_comments(src(rel))
    m = re.search(r"impl crate::save::upload::Table for " + impl_name + r"\s*\{(.*)\n\}", t, re.S)
    if not m:
        raise Refuse(f"{rel}: impl Table for {impl_name} not found")
    body = m.group(1)
    out = []
    # COPY column list
    copy = one(r"fn copy\(\)\s*->\s*String\s*\{\s*\"(.*?)\"", body, f"{impl_name}::copy")
    cm = re.search(r"COPY\s+([a-z_]+)\s*\((.*?)\)\s*FROM STDIN BINARY", copy, re.S)
    if not cm:
        raise Refuse(f"{impl_name}::copy: unrecognised COPY statement")
    cols = [c.strip() for c in cm.group(2).split(",")]
    if not all(re.fullmatch(r"[a-z_]+", c) for c in cols):
        raise Refuse(f"{impl_name}::copy: unrecognised column list")
    out.append(f"Definition {prefix}_COPY_COLUMNS : list column := {coq_str_list(cols)}.\n")
    # declared column types
    colty = one(r"fn columns\(\)\s*->\s*&'static \[tokio_postgres::types::Type\]\s*\{\s*&\[(.*?)\]\s*\}", body, f"{impl_name}::columns")
    tys = re.findall(r"tokio_postgres::types::Type::([A-Z0-9]+)", colty)
    if any(x not in ("INT8", "FLOAT4", "INT4") for x in tys):
        raise Refuse(f"{impl_name}::columns: unknown type in {tys}")
    out.append(f"Definition {prefix}_COLUMN_TYPES : list pgtype := [" + "; ".join(tys) + "].\n")
    # save(): N_FIELDS, the write sequence inside the row loop, the trailer
    save = one(r"fn save\(&self\)\s*\{(.*?)\n    \}", body, f"{impl_name}::save")
    nf = rust_int(one(r"const N_FIELDS\s*:\s*u16\s*=\s*([0-9]+)\s*;", save, f"{impl_name}::save N_FIELDS"))
    if not re.search(r"file\.write_all\(Self::header\(\)\)", save) or not re.search(r"file\.write_u16::<BE>\(Self::footer\(\)\)", save):
        raise Refuse(f"{impl_name}::save: header/footer writes not found")
    row = save[save.index("file.write_u16::<BE>(N_FIELDS)"):save.rindex("file.write_u16::<BE>(Self::footer())")]
    writes = re.findall(r"file\.write_(u16|u32|u64|i64|f32)::<BE>\((.*?)\)\.unwrap\(\);", row, re.S)
    if not writes or writes[0] != ("u16", "N_FIELDS"):
        raise Refuse(f"{impl_name}::save: row does not start with the field count")
    fields = []
    ws = writes[1:]
    if len(ws) % 2 != 0:
        raise Refuse(f"{impl_name}::save: odd number of length/value writes")
    for (lt, le), (vt, ve) in zip(ws[0::2], ws[1::2]):
        lm = re.fullmatch(r"size_of::<(u64|i64|f32)>\(\) as u32", le.strip())
        if lt != "u32" or not lm:
            raise Refuse(f"{impl_name}::save: unrecognised length write {le!r}")
        ve = re.sub(r"\s+", "", ve)
        key = {re.sub(r"\s+", "", k): v for k, v in NAMING.items()}
        if ve not in key:
            raise Refuse(f"{impl_name}::save: value expression {ve!r} is not in the naming table")
        fields.append((key[ve], WIDTH[lm.group(1)], WIDTH[vt]))
    if len(fields) != nf:
        raise Refuse(f"{impl_name}::save: N_FIELDS = {nf} but {len(fields)} fields are written")
    out.append(f"Definition {prefix}_NFIELDS : N := {nf}%N.\n")
    out.append(f"Definition {prefix}_WRITER_FIELDS : list column := {coq_str_list([f[0] for f in fields])}.\n")
    out.append(f"Definition {prefix}_WRITER_LENGTHS : list N := [" + "; ".join(f"{f[1]}%N" for f in fields) + "].\n")
    out.append(f"Definition {prefix}_WRITER_WIDTHS : list N := [" + "; ".join(f"{f[2]}%N" for f in fields) + "].\n")
    # load(): seek, loop rule, field count, reads
    load = one(r"fn load\((?:_|street): Street\)\s*->\s*Self\s*\{(.*?)\n    \}", body, f"{impl_name}::load")
    sk = rust_int(one(r"reader\.seek\(SeekFrom::Start\(([0-9]+)\)\)", load, f"{impl_name}::load seek"))
    if re.search(r"while reader\.read_exact\(buffer\)\.is_ok\(\)\s*\{", load):
        strict = False
    elif re.search(r"loop\s*\{\s*reader\s*\.read_exact\(buffer\)\s*\.expect\(", load):
        strict = True
    else:
        raise Refuse(f"{impl_name}::load: unrecognised row loop")
    arm = one(r"match u16::from_be_bytes\(buffer\.clone\(\)\)\s*\{\s*([0-9]+)\s*=>", load, f"{impl_name}::load field-count arm")
    if not re.search(r"0xFFFF\s*=>\s*break", load) or not re.search(r"n\s*=>\s*panic!", load):
        raise Refuse(f"{impl_name}::load: trailer / default arms not found")
    rowl = load[load.index("match u16::from_be_bytes"):]
    reads = re.findall(r"(assert!\(\s*([0-9]+)\s*==\s*)?reader\.read_(u32|u64|i64|f32)::<BE>\(\)", rowl)
    if len(reads) % 2 != 0:
        raise Refuse(f"{impl_name}::load: odd number of reads")
    rsz, asserts = [], []
    for (a, av, lt), (b, bv, vt) in zip(reads[0::2], reads[1::2]):
        if lt != "u32":
            raise Refuse(f"{impl_name}::load: length is not read as u32")
        rsz.append(WIDTH[vt])
        asserts.append(int(av) if a else -1)
    out.append(f"Definition {prefix}_LOADER_SEEK : N := {sk}%N.\n")
    out.append(f"Definition {prefix}_LOADER_NFIELDS : N := {int(arm)}%N.\n")
    out.append(f"Definition {prefix}_LOADER_WIDTHS : list N := [" + "; ".join(f"{x}%N" for x in rsz) + "].\n")
    out.append(f"Definition {prefix}_LOADER_ASSERTED_LENGTHS : list (option N) := [" + "; ".join("None" if x < 0 else f"Some {x}%N" for x in asserts) + "].\n")
    out.append(f"Definition {prefix}_LOADER_EOF_IS_ERROR : bool := {'true' if strict else 'false'}.\n")
    return "".join(out)


def gen_tables():
    out = [header("Tables")]
    out.append("Inductive pgtype := INT8 | FLOAT4 | INT4.\n")
    out.append("Inductive column := " + " | ".join("Col_" + c for c in COLUMNS) + ".\n")
    up = strip_comments(src("save/upload.rs"))
    hd = one(r'fn header\(\)\s*->\s*&\'static \[u8\]\s*\{\s*b"((?:[^"\\]|\\.)*)"\s*\}', up, "Table::header")
    bs = []
    i = 0
    while i < len(hd):
        if hd[i] == "\\":
            c = hd[i + 1]
            if c == "x":
                bs.append(int(hd[i + 2:i + 4], 16)); i += 4
            elif c == "n":
                bs.append(10); i += 2
            elif c == "r":
                bs.append(13); i += 2
            elif c == "0":
                bs.append(0); i += 2
            else:
                raise Refuse("Table::header: unknown escape")
        else:
            bs.append(ord(hd[i])); i += 1
    out.append("Definition PG_HEADER : list N := [" + "; ".join(f"{b}%N" for b in bs) + "].\n")
    ft = one(r"fn footer\(\)\s*->\s*u16\s*\{\s*(0x[0-9A-Fa-f]+)\s*\}", up, "Table::footer")
    out.append(f"Definition PG_FOOTER : N := {rust_int(ft)}%N.\n")
    out.append(table("mccfr/profile.rs", "Profile", "PROFILE"))
    out.append(table("clustering/metric.rs", "Metric", "METRIC"))
    out.append(table("clustering/lookup.rs", "Lookup", "LOOKUP"))
    out.append(table("clustering/transitions.rs", "Decomp", "TRANSITIONS"))
    return "".join(out)


GENERATORS = {"GenTables.v": gen_tables}
