"""per-property configuration of bin/verify"""

COMMON_TRUSTED = [
    "Coq 8.16.1 kernel and vm_compute (no native_compute)",
    "translator/rs2v.py (pattern based; refuses when a pattern no longer matches)",
    "Coq extraction with ExtrOcamlBasic only; OCaml 4.13.1; extract/{conv,framework,h_*}.ml glue",
    "Rust harness /verif/harness (built against /repo with --cfg robopoker_verif, release + overflow-checks + debug-assertions) and rustc",
]

CHECKS = {
    "C01": {
        "harness": "c01", "level": "proof", "shortdeck": True,
        "technique": "Coq theorems (evaluator strength = best five-card rule-book value; order embedding) over an executable bitwise model + per-run model/implementation correspondence and rule-book oracle",
        "level_text": "Theorems over the executable model of the bitwise evaluator (coq/Model/Evaluator.v) against a rule-book specification written from the property text (coq/Spec/SpecPoker.v), parameterised by the enum order, kicker table, wheel and masks REGENERATED from the Rust source on every run; the model is replayed against the implementation on all 2,598,960 five-card hands plus structured 6/7-card hands and ordered pairs (quick), all six-card hands and the short-deck build (thorough); every implementation strength is also checked directly against the extracted specification (best5, cmp_spec).",
        "level_note": "Trusted: Coq kernel + vm_compute, hand-written model (validated per run), translator, extraction + OCaml glue, harness. The hook Strength::verif_value exposes the private Ranking.",
        "rule": "str: Strength::from(Hand) for every 5-card hand, structured 6/7-card hands (forced flushes, straights, wheels, pairs/trips/quads, random fill); cmp: Ord on pairs (random, one-card neighbours, shared boards). distinct = distinct input parts",
        "exhaustive": {"quick": False, "thorough": False},
        "explanation": "model strength compared field by field with the implementation's; implementation strength value compared with extracted best5; implementation order compared with extracted cmp_spec",
        "trusted_base": ["Model/Evaluator.v hand written; Spec/SpecPoker.v written from the property text"],
        "assumptions": ["hands are 5..7 distinct cards of the configured deck"],
    },
    "C15": {
        "harness": "c15", "level": "proof",
        "technique": "Coq theorems (round trips, injectivity, key-set NoDup by reflection) over an executable codec model + per-run model/implementation correspondence on integer codes",
        "level_text": "Machine-checked round-trip and injectivity theorems for every codec over all well-formed values (unbounded where the domain is, finite reflection where it is finite), on a model that every run replays against the implementation on ~600k (quick) / ~30M (thorough) values comparing the integer codes themselves.",
        "level_note": "Trusted: Coq kernel + vm_compute, the hand-written model (validated per run by the correspondence), translator for the code tables, extraction + OCaml glue, Rust harness. Panics are modelled as None; debug integer semantics.",
        "rule": "every From/Into codec of the anchors run on: all 52 cards; random/structured u64 hands; all pre-flop observations, "
                "all flop observations (thorough) or samples, sampled turn/river; every i16 amount x 4 chip kinds (stride 7 in quick), all draws of <= 3 cards; "
                "the 15 edges; all paths of length <= 2 and random paths to length 16; all 542 buckets; all 23,474 within-street pair keys. "
                "distinct = distinct input parts; a case is trivial only if its handler flags it",
        "exhaustive": {"quick": False, "thorough": False},
        "explanation": "Theorems in coq/Props/C15.v state the round trips for all well-formed values over the executable model coq/Model/Codec.v; "
                       "the model is tied to the code by regenerated constants (coq/Gen) and by replaying every harness case through the extracted model (codes compared as integers).",
        "trusted_base": ["Model/Codec.v is hand written; tied to src/cards/{card,hand,observation,street}.rs, src/gameplay/action.rs, src/mccfr/{edge,path}.rs, src/clustering/{abstraction,pair}.rs by the correspondence stream"],
        "assumptions": ["a Rust panic is modelled as None", "debug-build integer semantics (overflow panics)"],
    },
}
