"""per-property configuration of bin/verify"""

COMMON_TRUSTED = [
    "Coq 8.16.1 kernel and vm_compute (no native_compute)",
    "translator/rs2v.py (pattern based; refuses when a pattern no longer matches)",
    "Coq extraction with ExtrOcamlBasic only; OCaml 4.13.1; extract/{conv,framework,h_*}.ml glue",
    "Rust harness /verif/harness (built against /repo with --cfg robopoker_verif, release + overflow-checks + debug-assertions) and rustc",
]

CHECKS = {
    "C01": {
        "harness": "c01", "level": "proof", "shortdeck": True,
        "technique": "Coq theorems (evaluator strength = best five-card rule-book value; order embedding) over an executable bitwise model + per-run model/implementation correspondence and rule-book oracle",
        "level_text": "Theorems over the executable model of the bitwise evaluator (coq/Model/Evaluator.v) against a rule-book specification written from the property text (coq/Spec/SpecPoker.v), parameterised by the enum order, kicker table, wheel and masks REGENERATED from the Rust source on every run; the model is replayed against the implementation on all 2,598,960 five-card hands plus structured 6/7-card hands and ordered pairs (quick), all six-card hands and the short-deck build (thorough); every implementation strength is also checked directly against the extracted specification (best5, cmp_spec).",
        "level_note": "Trusted: Coq kernel + vm_compute, hand-written model (validated per run), translator, extraction + OCaml glue, harness. The hook Strength::verif_value exposes the private Ranking.",
        "rule": "str: Strength::from(Hand) for every 5-card hand, structured 6/7-card hands (forced flushes, straights, wheels, pairs/trips/quads, random fill); cmp: Ord on pairs (random, one-card neighbours, shared boards). distinct = distinct input parts",
        "exhaustive": {"quick": False, "thorough": False},
        "explanation": "model strength compared field by field with the implementation's; implementation strength value compared with extracted best5; implementation order compared with extracted cmp_spec",
        "trusted_base": ["Model/Evaluator.v hand written; Spec/SpecPoker.v written from the property text"],
        "assumptions": ["hands are 5..7 distinct cards of the configured deck"],
    },

    "C02": {
        "harness": ["walk"], "level": "proof",
        "rule": 'state walk of the engine from a dealt hand: quick = every state reachable with the raise sizes the abstraction produces (all ten grid odds through actionize) plus 10k random full-range lines of play; thorough = every reachable betting state with EVERY integer raise size plus 200k random lines. Per state: turn, accepted set of Fold/Check and of Call/Raise/Shove/Blind for every amount -1..=stack+1, four draw probes (well-formed, one card too many, too few, card in play), the deck offered, successors of all non-raise actions and of the extreme/sampled raises, settlements under hero-wins / villain-wins / tie deals; per decision state the menus for raise counts 0..5 with their translations. distinct = distinct (history[, raise count]) inputs',
        "exhaustive": {"quick": False, "thorough": True},
        "trusted_base": ["Model/Game.v, Model/Showdown.v hand written (validated per run); Spec/SpecNLHE.v written from the property text; hooks Game::verif_seats/verif_dealer/verif_ticker/verif_with_holes"],

        "spec_prefix": ["c02_"],
        "technique": "Coq inductive invariant over arbitrary action histories on an executable model of the engine + per-run replay of every walked state through the extracted model, invariants evaluated on the implementation's own states",
        "level_text": "Inductive invariant (chips conserved, pot = sum of contributions, stack + contribution = starting stack, no overflow) and the settlement theorem over the executable engine model, for every action list; the model is replayed against the implementation on every state of an exhaustive walk (field-by-field state comparison along the history, settlements under three deals), and the invariants and the zero-sum/winner clauses are evaluated directly on the implementation's states.",
        "level_note": "Trusted: Coq kernel, hand-written model (validated per run), translator (constants, fix-site shapes), extraction + glue, harness + hooks. Cards abstracted to three fixed deals (seat 0 wins / seat 1 wins / tie).",
        "explanation": "walk + model replay + extracted invariants",
        "assumptions": ["two seats, equal starting stacks as configured in lib.rs"],
    },
    "C03": {
        "harness": ["walk"], "level": "proof",
        "rule": 'state walk of the engine from a dealt hand: quick = every state reachable with the raise sizes the abstraction produces (all ten grid odds through actionize) plus 10k random full-range lines of play; thorough = every reachable betting state with EVERY integer raise size plus 200k random lines. Per state: turn, accepted set of Fold/Check and of Call/Raise/Shove/Blind for every amount -1..=stack+1, four draw probes (well-formed, one card too many, too few, card in play), the deck offered, successors of all non-raise actions and of the extreme/sampled raises, settlements under hero-wins / villain-wins / tie deals; per decision state the menus for raise counts 0..5 with their translations. distinct = distinct (history[, raise count]) inputs',
        "exhaustive": {"quick": False, "thorough": True},
        "trusted_base": ["Model/Game.v, Model/Showdown.v hand written (validated per run); Spec/SpecNLHE.v written from the property text; hooks Game::verif_seats/verif_dealer/verif_ticker/verif_with_holes"],

        "spec_prefix": ["c03_"],
        "technique": "Coq bisimulation between an executable model of the engine and a rule-book NLHE machine + per-run comparison of the implementation with both on every walked state x every action kind x every amount",
        "level_text": "Bisimulation theorem (same turn, same accepted set for every action kind and every integer amount, draws well- and ill-formed) between the engine model and a rule-book machine written from the property text, termination bound; per run the implementation is compared with the extracted model AND the extracted rule-book machine on every state of the walk (exhaustive over all raise sizes in the thorough tier).",
        "level_note": "Trusted: as C02. Ring rotation rule for two seats as the anchors describe it.",
        "explanation": "walk + model replay + extracted rule-book machine",
        "assumptions": ["two seats", "ring blind/position rule"],
    },
    "C11": {
        "harness": ["walk"], "level": "proof",
        "rule": 'state walk of the engine from a dealt hand: quick = every state reachable with the raise sizes the abstraction produces (all ten grid odds through actionize) plus 10k random full-range lines of play; thorough = every reachable betting state with EVERY integer raise size plus 200k random lines. Per state: turn, accepted set of Fold/Check and of Call/Raise/Shove/Blind for every amount -1..=stack+1, four draw probes (well-formed, one card too many, too few, card in play), the deck offered, successors of all non-raise actions and of the extreme/sampled raises, settlements under hero-wins / villain-wins / tie deals; per decision state the menus for raise counts 0..5 with their translations. distinct = distinct (history[, raise count]) inputs',
        "exhaustive": {"quick": False, "thorough": True},
        "trusted_base": ["Model/Game.v, Model/Showdown.v hand written (validated per run); Spec/SpecNLHE.v written from the property text; hooks Game::verif_seats/verif_dealer/verif_ticker/verif_with_holes"],

        "spec_prefix": ["c11_"],
        "technique": "Coq theorems on the menu/translation functions of the engine model (+ binary32 bet = floor by Flocq reflection) + per-run comparison of menus and translations on every walked decision state x raise counts 0..5",
        "level_text": "Theorems: menu non-empty/duplicate-free, every entry translates to an accepted action, monotone in the pot fraction, snapping; path packing (C15_path). Per run every decision state of the walk x raise count 0..5: choices, actionize and is_allowed compared with the extracted model and judged by the extracted rule-book machine.",
        "level_note": "Trusted: as C02; the float computation (pot as f32 * odds) as i16 is modelled as floor(pot*num/den), proved equal to the binary32 computation on the reachable range in Flocq.",
        "explanation": "walk menus + model replay + rule-book legality of every translated action",
        "assumptions": ["two seats"],
    },
    "C14": {
        "harness": ["walk", "c14"], "level": "proof",
        "rule": 'state walk of the engine from a dealt hand: quick = every state reachable with the raise sizes the abstraction produces (all ten grid odds through actionize) plus 10k random full-range lines of play; thorough = every reachable betting state with EVERY integer raise size plus 200k random lines. Per state: turn, accepted set of Fold/Check and of Call/Raise/Shove/Blind for every amount -1..=stack+1, four draw probes (well-formed, one card too many, too few, card in play), the deck offered, successors of all non-raise actions and of the extreme/sampled raises, settlements under hero-wins / villain-wins / tie deals; per decision state the menus for raise counts 0..5 with their translations. distinct = distinct (history[, raise count]) inputs',
        "exhaustive": {"quick": False, "thorough": True},
        "trusted_base": ["Model/Game.v, Model/Showdown.v hand written (validated per run); Spec/SpecNLHE.v written from the property text; hooks Game::verif_seats/verif_dealer/verif_ticker/verif_with_holes"],

        "spec_prefix": ["c14_"],
        "technique": "Coq theorems (draw bijection on the deck bit-walk; card disjointness invariant over action histories) + per-run replay and statistical validation of the RNG link",
        "level_text": "Theorems: the bit-walk of Deck::draw returns the (i+1)-th remaining card (a bijection from indices to remaining cards, so a uniform index gives a uniform card) and removes it; hole cards and board are pairwise disjoint in every reachable state and the deck offered is exactly the unseen cards. Per run: disjointness/deck checked on every walked state; draw frequencies per deck subset.",
        "level_note": "Trusted: as C02; uniformity of rand::gen_range itself is trusted (statistical test at p < 1e-9 only).",
        "explanation": "walk + deck-draw stream",
        "assumptions": ["thread_rng / gen_range uniform"],
    },

    "C04": {
        "harness": ["c04"], "level": "proof",
        "technique": "Coq refinement of the two payout loops to a layered fair-share pot specification (any number of players) + per-run replay of ledgers through the extracted model and specification",
        "level_text": "Theorems over the executable model of Showdown::settle (nested loops on fuel) against a declarative layered-pot specification with rational fair shares, for every well-formed ledger of any size; per run the implementation is compared with the extracted model on every ledger and judged by the extracted specification (payout_ok) on every well-formed one: exhaustive for <= 4 players x commitments <= 4 x 3 states x 3 strengths, plus random 2-9 player ledgers.",
        "level_note": "Trusted: Coq kernel, hand-written model (validated per run), extraction + glue (incl. Coq Q arithmetic extracted as is), harness. Strengths are an order-isomorphic ladder of 26 values.",
        "rule": "sd: ledgers (commitment, state, strength level per seat); exhaustive 2,3,4 players x commitments 0..4 x {betting, all-in, folded} x 3 strength levels (5 players in thorough), random ledgers of 2-9 players with odd chips, multi-level ties, folded players between levels; a case is trivial when the ledger is not well-formed (the oracle skips it, the model is still compared)",
        "exhaustive": {"quick": True, "thorough": True},
        "explanation": "ledger -> settle() vs extracted model; extracted payout_ok on the implementation's rewards",
        "trusted_base": ["Model/Showdown.v hand written; Spec/SpecPots.v written from the property text"],
        "assumptions": ["chip totals stay below 2^15 (i16)"],
    },

    "C05": {
        "harness": ["c05"], "level": "proof", "shortdeck": True,
        "technique": "Coq theorems (key determines lane; sorted arrangement unique; image = mathematical suit relabeling) over an executable model of the canonicaliser + per-run replay of observations x 24 permutations",
        "level_text": "Theorems over the executable model of Permutation::from/permute and Isomorphism::from: the shift-and-mask image is the mathematical suit relabeling, the canonical form is a relabeling of the original (pocket and board apart), it is invariant under all 24 relabelings, idempotent and recognised. Per run: every pre-flop observation and sampled flop/turn/river observations (uniform and biased to tied suit keys) x all 24 permutations: canonical form, idempotence, is_canonical and every permuted image compared with the extracted model and judged by the extracted relabeling specification.",
        "level_note": "Trusted: Coq kernel, hand-written model (validated per run), translator (key order, exhaust table, masks), extraction + glue, harness.",
        "rule": "iso: observation (pocket, board) -> canon, canon(canon), is_canonical, and for each of the 24 permutations the permuted observation and its canon; all 1,326 (630) pre-flop observations, random flop/turn/river, and observations biased to tied suit keys (equal lane sizes, equal min/max ranks)",
        "exhaustive": {"quick": False, "thorough": False},
        "explanation": "observation x 24 permutations vs extracted model; relabeling specification evaluated on the implementation's outputs",
        "trusted_base": ["Model/Iso.v hand written; Spec/SpecIso.v written from the property text"],
        "assumptions": ["observations have 2 private and 0/3/4/5 board cards, disjoint, inside the deck"],
    },

    "C06": {
        "harness": ["c06"], "level": "proof", "shortdeck": True,
        "technique": "Coq theorems (Gosper step = colex successor, iterator = increasing list of k-subsets of the free cards, counts = binomials, class counts = Burnside formula = published constants) + per-run replay of iterator runs through the extracted model and specification",
        "level_text": "Theorems over the executable model of HandIterator / ObservationIterator / IsomorphismIterator; the published per-street constants (regenerated from street.rs) are proved equal to the counting formulas and to the Burnside value. Per run: hand iterators for k in 0..7 over structured blocking masks (count, xor, sum, order, ends, full list when small) against the extracted model and the extracted specification enumerator; the observation / isomorphism iterators are run to exhaustion (pre-flop and flop in quick, turn in thorough) and their counts, strict order and canonical counts judged against the formulas; children of sampled observations.",
        "level_note": "Trusted: Coq kernel, hand-written model (validated per run), translator (published constants), extraction + glue, harness. Known finding D4 (k = 0 yields no hand; a unit test pins it). The lemma 'Burnside fixed-point formula = number of fixed observations' is arithmetic-checked against exhaustive execution, not proved in general (partial).",
        "rule": "hands k mask: digest (count, xor, wrapping sum, strictly-increasing flag, first/last four, size_hint, full list if <= 300) of HandIterator::from((k, mask)); obsit/isoit street: full run of the iterators (count, order, canonical count, head); children: successors of sampled observations. A case is trivial when it is judged by the specification only (k >= 6: the 20M / 134M pattern scan is not replayed in the model)",
        "exhaustive": {"quick": False, "thorough": False},
        "explanation": "iterator digests vs extracted model and extracted combs specification; counts vs formulas proved equal to the published constants",
        "trusted_base": ["Model/Hands.v hand written; Spec/SpecCombs.v written from the property text"],
        "assumptions": ["blocking masks are hands of the configured deck"],
    },

    "C17": {
        "harness": ["c17"], "level": "proof",
        "rule": "pg kind rows: tables (empty, one row, a few, tens, hundreds; thousands in thorough) of the blueprint profile, metric, lookup and transitions with extreme / negative / NaN-payload / infinite floats, all edge kinds and streets: save() bytes, load() of the complete file, and load() of every strict prefix (every byte for <= 50 rows, the first and last 40 bytes plus every 13th byte beyond)",
        "exhaustive": {"quick": False, "thorough": False},
        "trusted_base": ["Model/Pgcopy.v hand written (validated byte for byte per run); Spec/SpecPgcopy.v written from the PostgreSQL COPY BINARY documentation; the naming table writer-expression -> column name in translator/rs2v_tables.py; hooks Profile::verif_rows/verif_from_rows, Metric::verif_entries/verif_from_entries, Decomp::verif_entries"],

        "spec_prefix": ["c17_"],
        "technique": "Coq theorems (load o save = id on sorted tables; output parses under the COPY grammar with the declared types; writer field order = COPY column list) over a byte-level model with REGENERATED layouts + per-run byte-for-byte comparison",
        "level_text": "Theorems over the byte-level model of save()/load() whose layouts (field count, order and width of write_* calls, read_* calls, COPY column list, declared types) are regenerated from the Rust source on every run: load(save(t)) = t bit-identically for all sorted tables, the bytes are a well-formed binary COPY stream with the declared field widths, and the fields are written in the order of the COPY column list. Per run: saved bytes compared byte for byte with the model, loaded tables compared, the bytes parsed by the extracted COPY grammar.",
        "level_note": "Trusted: Coq kernel, model (validated per run), translator incl. its expression-to-column naming table, extraction + glue, harness + hooks. The file system is a byte list.",
        "explanation": "save/load vs extracted model; extracted COPY grammar and column checks on the implementation's bytes",
        "assumptions": ["tables are in BTreeMap order (checked against the model's key order per run)"],
    },
    "C18": {
        "harness": ["c17"], "level": "proof",
        "rule": "pg kind rows: tables (empty, one row, a few, tens, hundreds; thousands in thorough) of the blueprint profile, metric, lookup and transitions with extreme / negative / NaN-payload / infinite floats, all edge kinds and streets: save() bytes, load() of the complete file, and load() of every strict prefix (every byte for <= 50 rows, the first and last 40 bytes plus every 13th byte beyond)",
        "exhaustive": {"quick": False, "thorough": False},
        "trusted_base": ["Model/Pgcopy.v hand written (validated byte for byte per run); Spec/SpecPgcopy.v written from the PostgreSQL COPY BINARY documentation; the naming table writer-expression -> column name in translator/rs2v_tables.py; hooks Profile::verif_rows/verif_from_rows, Metric::verif_entries/verif_from_entries, Decomp::verif_entries"],

        "spec_prefix": ["c18_"],
        "technique": "Coq theorem: every strict prefix of a saved file is rejected by the loader (induction on rows, depends on the regenerated EOF rule) + per-run loading of every prefix of real files",
        "level_text": "Theorem: for every table and every n < length, loading the first n bytes fails, for all four table kinds - it depends on the loader's EOF rule, which is regenerated from the source (a loader that stops quietly at a short read refutes it, witness in Coq). Per run every strict prefix of saved files is loaded through the real loaders under catch_unwind and the outcome (failed / equal to the original / silently different) compared with the model; 'silently different' is the violation.",
        "level_note": "Trusted: as C17. A crash is modelled as a prefix of the file (torn or reordered sectors are outside the model).",
        "explanation": "every-prefix loads vs extracted model",
        "assumptions": ["crash = prefix"],
    },

    "C16": {
        "harness": ["c16"], "level": "proof",
        "technique": "Coq theorems over three-valued (Ok/Err/Panic) parser models on code-point strings: totality for ALL strings, validity of returned observations, print-parse round trips + per-run comparison on grammar-guided and malformed strings",
        "level_text": "Theorems over the executable model of every TryFrom<&str> / Display pair: no string makes any parser panic (byte-indexed slicing is modelled through UTF-8 lengths), a returned observation is well formed, every value's printed form parses back to it. The model follows the code at the repaired sites through flags regenerated from the source. Per run the implementation is run under catch_unwind on valid encodings, mutated encodings (dropped / duplicated / transposed / case-flipped / foreign tokens) and a malformed stream over a fixed alphabet (whitespace variants, NUL, 2-, 3-, 4-byte UTF-8, combining marks, case-mapping oddities), outcome compared as Ok value / Err / Panic; print-parse over sampled values.",
        "level_note": "Trusted: Coq kernel, model (validated per run), translator flags, extraction + glue, harness. The std string functions (trim, split_whitespace, to_uppercase/to_lowercase, str::parse) are modelled by tables validated on the harness alphabet only.",
        "rule": "parse kind string: TryFrom<&str> for each of the 8 kinds on a fixed corpus (empty, whitespace-only, the recorded defect witnesses), valid encodings, 1-3 random edits of valid encodings, encodings of other kinds, random alphabet strings; print kind value: Display then TryFrom. distinct = distinct (kind, string)",
        "exhaustive": {"quick": False, "thorough": False},
        "explanation": "three-valued outcome of every parser vs extracted model; panic / invalid observation / failed round trip are violations",
        "trusted_base": ["Model/Parse.v hand written; std string functions modelled by tables"],
        "assumptions": ["case mapping and White_Space tables as listed in Model/Parse.v"],
    },

    "C19": {
        "harness": ["c19"], "level": "proof",
        "technique": "Coq theorems over exact rationals (telescoping products: stored strategy = polynomially weighted mean; regret = weighted sum with weights in (0,1], monotone, 1 after the discount phase; walker alternation) + per-run replay of update sequences through the public add_regret / add_policy / next",
        "level_text": "Theorems over the executable model (exact rationals) of Memory::add_regret/add_policy, Discount::policy, the phase switch and Profile::walker, with the exponent and the phase boundary regenerated from the source and the code shapes of discount.rs / memory.rs / phase.rs / profile.rs pinned by the translator. Per run: 400 (3000) sequences of 1-2000 epochs at one information set through the public API; stored values compared with the model (exact rationals up to 40 epochs, the same recurrences in double precision beyond) and with the closed forms, at relative 1e-3 (f32 accumulation); the discount factors the implementation applies are checked against (t/(t+1))^gamma and the (0,1] / =1-after-phase claims; traverser alternation checked exactly.",
        "level_note": "Trusted: Coq kernel, model (validated per run), translator (shapes + parameters), extraction + glue (incl. binary32-to-rational conversion), harness + hooks (Profile::verif_from_rows, verif_memory, verif_set_epochs). libm powf is trusted; f32 rounding drift is tested at 1e-3, not proved. The property is stated at the API level it names (one update per epoch): Blueprint::solve applies add_policy once per (tree, information set), so an information set met k times in a batch is discounted k times - outside the statement, recorded in DESIGN.md.",
        "rule": "disc: start epoch, initial stored values, per-epoch regret and strategy inputs (mixed signs, zeros, constants), -> the discount factors used, final stored regret and policy, walker per epoch. Sequence lengths 1, 2-6, 5-39, 380-409 (across the end of the discount phase), 2000, 1-600. A case is trivial when it is replayed in double precision only (more than 40 epochs)",
        "exhaustive": {"quick": False, "thorough": False},
        "explanation": "update sequences vs extracted rational model and closed forms",
        "trusted_base": ["Model/Discount.v hand written"],
        "assumptions": ["one update per epoch at the information set", "finite f32 inputs"],
    },

    "C08": {
        "harness": ["cfr"], "level": "proof",
        "rule": "tree walker epoch fresh serial: trees sampled by the real Blueprint::tree() (hooks) over random deals during 12 (30) training epochs of 6 (40) fresh solvers with a stand-in card abstraction, dumped node by node (state, turn, bucket, incoming edge and its profile weight, leaf payoffs) with the regret and policy vector of every information set",
        "exhaustive": {"quick": False, "thorough": False},
        "trusted_base": ["Model/Cfr.v, Model/Tree.v hand written (validated per run); the estimator spec in Model/Cfr.v written from the property text; hooks Blueprint::verif_new/verif_tree/verif_profile, Encoder stand-in abstraction (a fixed function of the actor's cards and the board)"],

        "spec_prefix": ["c08_"],
        "technique": "Coq theorem: the regret computed by the model of profile.rs equals the external-sampling estimator (telescoping of reach products along paths, over exact rationals) + per-run replay of real sampled trees",
        "level_text": "Theorem over the rational-arithmetic instance of the executable model of reach / external_reach / relative_reach / terminal_value / expected_value / cfactual_value / gain (code shapes pinned and repaired-site flags regenerated from profile.rs): on every external-sampling tree the recorded regret is the sampled counterfactual value of the action minus the strategy-weighted average; corollaries: invariance under adding a constant to all payoffs, zero when all actions are worth the same. Per run the regret vector of every information set of real sampled trees is compared with the model and with the estimator (double-precision instance of the same definitions, relative 2e-3).",
        "level_note": "Trusted: Coq kernel, model (validated per run), translator, extraction + glue, harness + hooks. f32 rounding and the clamp boundary are tested, not proved.",
        "explanation": "regret vectors of sampled trees vs extracted model and estimator",
        "assumptions": ["external-sampling shape of the tree (checked per run by C10)"],
    },
    "C10": {
        "harness": ["cfr"], "level": "proof",
        "rule": "tree walker epoch fresh serial: trees sampled by the real Blueprint::tree() (hooks) over random deals during 12 (30) training epochs of 6 (40) fresh solvers with a stand-in card abstraction, dumped node by node (state, turn, bucket, incoming edge and its profile weight, leaf payoffs) with the regret and policy vector of every information set",
        "exhaustive": {"quick": False, "thorough": False},
        "trusted_base": ["Model/Cfr.v, Model/Tree.v hand written (validated per run); the estimator spec in Model/Cfr.v written from the property text; hooks Blueprint::verif_new/verif_tree/verif_profile, Encoder stand-in abstraction (a fixed function of the actor's cards and the board)"],

        "spec_prefix": ["c10_"],
        "technique": "Coq theorems composing the engine theorems (every menu entry is accepted, hands end zero-sum, bounded length) with the raise-cap and sampler-measure lemmas + per-run structural check of every node of real sampled trees against the extracted models",
        "level_text": "Per run every node of every sampled tree is re-derived with the extracted engine / menu / tree models: bucket paths, the children of a traverser node are exactly the menu (each once), one child at opponent and chance nodes, every child is the parent after the translated permitted action, leaves are finished zero-sum hands, information sets partition the traverser's nodes by bucket, the bucket ignores the opponent's cards (metamorphic), fresh information sets are uniform, raise cap per betting round.",
        "level_note": "Trusted: as C08. The PRNG stream (rand, SipHash) is not modelled; that the opponent action is drawn with the profile's probability is a statistical test in C20's stream.",
        "explanation": "every node of sampled trees vs extracted models and structural predicates",
        "assumptions": ["two seats"],
    },

    "C09": {
        "harness": ["c09", "cfr"], "level": "proof", "spec_prefix": ["c09_"],
        "technique": "Coq theorems over exact rationals on the model of policy_vector (valid distribution, floor epsilon, uniform / proportional cases, divisor >= 1 from the regenerated flag) + per-run replay of policy_vector on real information sets under chosen stored regrets and epoch counters incl. 0",
        "level_text": "Theorems over the rational instance of the executable model of cumulated_regret / policy_vector: for every regret vector and every epoch counter (0 included, through the regenerated divisor flag) the result is a probability distribution over exactly the actions, proportional to the positive part of the regrets up to the floor, uniform when none is positive. Per run policy_vector is called through the public API on real information sets (1-13 actions) of sampled trees under profiles holding chosen regrets (signs, zeros, denormals, 1e30, equal, at the clamp) and epoch counters {0,1,2,3,390,391,392,999999,1000000}; the result is compared with the binary32-rounded instance of the model and judged (range, sum, proportionality, no abort); recorded regrets of sampled trees are checked finite and clamped.",
        "level_note": "Trusted: Coq kernel, model (validated per run), translator flag, extraction + glue, harness + hooks. The binary32 no-abort claim (rounding monotonicity) is validated per run, not proved in Flocq (partial); sums whose magnitude overflows binary32 (|R| > 2^100) are outside the statement.",
        "rule": "pv epochs regrets: policy_vector of an information set with the given stored regrets; distinct = distinct (epochs, regret vector)",
        "exhaustive": {"quick": False, "thorough": False},
        "explanation": "policy_vector vs extracted model (binary32 rounding) and the distribution predicates",
        "trusted_base": ["Model/RegretMatching.v hand written; hooks Profile::verif_from_rows/verif_set_epochs, Blueprint::verif_tree"],
        "assumptions": ["|regret| <= 2^100"],
    },
    "C20": {
        "harness": ["c20"], "level": "other", "spec_prefix": ["c20_"],
        "technique": "differential check over repeated, concurrent and cross-tree invocations + chi-square test across epochs; the Coq part is the sampler-measure lemma (C10) and the by-construction determinism of the model",
        "level_text": "The sampler's choice at (epoch, information set) is compared across repeated calls, three concurrent threads and different trees of the same solver (any disagreement is a violation); across 12,000 (40,000) epochs at fixed information sets the choices are tested against the profile's weights (chi-square, 6.5 sigma); chance nodes keep one branch; k-means seeding is run twice and under 1, 4 and 16 rayon threads and compared bit for bit. In the Coq model these are functions, so the theorem content is the interval lemma for the inverse-CDF sampler (Props/C10.v) - determinism of the real code is runtime behaviour no theorem about the model can show.",
        "level_note": "Runtime behaviour the model cannot exhibit: thread-local RNG state, hasher seeding (DefaultHasher keys), rayon scheduling. rand::SmallRng / WeightedIndex / SipHash are trusted.",
        "rule": "samp epoch bucket node: explore_one asked 2x + 3 threads; same (epoch, bucket) across trees must agree; sampdist: choice frequencies over epochs vs weights; init: Layer::init twice and across thread counts",
        "exhaustive": {"quick": False, "thorough": False},
        "explanation": "Differential testing of determinism across invocations, threads and trees, plus a goodness-of-fit test of the sampling distribution; partial: no theorem covers the runtime sources of nondeterminism.",
        "trusted_base": ["hooks Blueprint::verif_tree, Profile::verif_from_rows/verif_set_epochs, Layer::verif_*"],
        "assumptions": ["statistical threshold 6.5 sigma"],
    },
    "C15": {
        "harness": "c15", "level": "proof",
        "technique": "Coq theorems (round trips, injectivity, key-set NoDup by reflection) over an executable codec model + per-run model/implementation correspondence on integer codes",
        "level_text": "Machine-checked round-trip and injectivity theorems for every codec over all well-formed values (unbounded where the domain is, finite reflection where it is finite), on a model that every run replays against the implementation on ~600k (quick) / ~30M (thorough) values comparing the integer codes themselves.",
        "level_note": "Trusted: Coq kernel + vm_compute, the hand-written model (validated per run by the correspondence), translator for the code tables, extraction + OCaml glue, Rust harness. Panics are modelled as None; debug integer semantics.",
        "rule": "every From/Into codec of the anchors run on: all 52 cards; random/structured u64 hands; all pre-flop observations, "
                "all flop observations (thorough) or samples, sampled turn/river; every i16 amount x 4 chip kinds (stride 7 in quick), all draws of <= 3 cards; "
                "the 15 edges; all paths of length <= 2 and random paths to length 16; all 542 buckets; all 23,474 within-street pair keys. "
                "distinct = distinct input parts; a case is trivial only if its handler flags it",
        "exhaustive": {"quick": False, "thorough": False},
        "explanation": "Theorems in coq/Props/C15.v state the round trips for all well-formed values over the executable model coq/Model/Codec.v; "
                       "the model is tied to the code by regenerated constants (coq/Gen) and by replaying every harness case through the extracted model (codes compared as integers).",
        "trusted_base": ["Model/Codec.v is hand written; tied to src/cards/{card,hand,observation,street}.rs, src/gameplay/action.rs, src/mccfr/{edge,path}.rs, src/clustering/{abstraction,pair}.rs by the correspondence stream"],
        "assumptions": ["a Rust panic is modelled as None", "debug-build integer semantics (overflow panics)"],
    },
}
