#!/usr/bin/env python3
"""writes MANIFEST.json from bin/checks.py (claimed checks) and the property list"""
import json, os, sys
V = os.path.dirname(os.path.dirname(os.path.abspath(__file__)))
sys.path.insert(0, os.path.join(V, "bin"))
import checks
props = [json.loads(l) for l in open(os.path.join(V, "properties.jsonl"))]
hooks_commits = []
hp = os.path.join(V, "hooks_commits.txt")
if os.path.exists(hp):
    hooks_commits = [l.split()[0] for l in open(hp) if l.strip()]
m = {
    "version": 1,
    "setup_cmd": "bin/verify setup",
    "hooks": {
        "guard": "robopoker_verif",
        "enable": "RUSTFLAGS=\"--cfg robopoker_verif\" (set by bin/verify when it builds /verif/harness against /repo)",
        "baseline_off_cmd": "cd /repo && cargo test --workspace --no-fail-fast --offline",
        "source_commits": hooks_commits,
        "add_only": True,
    },
    "engines": [{
        "name": "rocq-model-proof-correspondence", "path": "bin/verify",
        "serves_properties": sorted(checks.CHECKS),
        "kind_free_text": "Coq 8.16.1 theorems over executable Gallina models (coq/), models tied to /repo by a source-to-Coq translator for constants/tables (translator/rs2v.py -> coq/Gen) and by a correspondence check that replays Rust harness cases through the extracted OCaml model and specification (extract/driver)",
    }],
    "checks": [],
    "notes": "see DESIGN.md; known findings in known_findings.json",
    "not_applicable": [],
}
for p in props:
    cid = p["id"]
    c = checks.CHECKS.get(cid)
    if c is None or c.get("unclaimed"):
        m["not_applicable"].append({"property_id": cid, "reason": (c or {}).get("unclaimed", "check not built yet in this round (work in progress; every property has an executable model planned, see DESIGN.md section 5)")})
        continue
    m["checks"].append({
        "property_id": cid,
        "quick_cmd": f"bin/verify check {cid} --tier quick",
        "thorough_cmd": f"bin/verify check {cid} --tier thorough",
        "evidence_file": f"evidence/{cid}.json",
        "replay_cmd_template": f"bin/verify replay {cid} {{path}}",
        "engine": "rocq-model-proof-correspondence",
        "level_claimed": {"category": c["level"], "text": c["level_text"], "design_ref": f"DESIGN.md section 5, {cid}"},
        "level_note": c["level_note"],
        "technique": c["technique"],
    })
json.dump(m, open(os.path.join(V, "MANIFEST.json"), "w"), indent=1)
print("MANIFEST.json:", len(m["checks"]), "checks,", len(m["not_applicable"]), "not claimed")
