#!/usr/bin/env python3
"""ot_oracle.py -- exact optimal-transport oracle for the C12 stream (search / validation only, never a proof).
Reads `sk` case lines, solves the transport LP in double precision (HiGHS through scipy) and judges the
implementation's Sinkhorn cost by the two-sided bound of the property, the greedy cost by cost >= optimum,
the self-distance by the entropic allowance.  Prints `SPECFAIL <rule> <line> :: detail` lines and a summary."""
import math
import struct
import sys

import numpy as np
from scipy.optimize import linprog

TEMPERATURE = float(sys.argv[1])
SLACK = 2e-3


def f32(bits):
    return struct.unpack("<f", struct.pack("<I", int(bits)))[0]


def hist(s):
    kv = [x.split(":") for x in s.split("+")]
    ks = [int(k) for k, _ in kv]
    cs = np.array([float(c) for _, c in kv])
    return ks, cs / cs.sum()


def entropy(p):
    p = np.asarray(p, dtype=float)
    p = p[p > 0]
    return float(-(p * np.log(p)).sum())


def ot(mu, nu, C):
    n, m = C.shape
    A = []
    b = []
    for i in range(n):
        row = np.zeros(n * m)
        row[i * m:(i + 1) * m] = 1
        A.append(row)
        b.append(mu[i])
    for j in range(m - 1):
        col = np.zeros(n * m)
        col[j::m] = 1
        A.append(col)
        b.append(nu[j])
    r = linprog(C.reshape(-1), A_eq=np.array(A), b_eq=np.array(b), bounds=(0, None), method="highs")
    if r.status != 0:
        return None
    return float(r.fun)


def main():
    n = fails = skipped = 0
    for path in sys.argv[2:]:
        for line in open(path):
            if not line.startswith("sk "):
                continue
            ins, outs = line.rstrip("\n").split(" | ", 1)
            i = ins.split(" ")
            o = outs.split(" ")
            if o[0] == "P":
                continue
            xs, mu = hist(i[1])
            ys, nu = hist(i[2])
            if len(xs) * len(ys) > 2500:
                skipped += 1
                continue
            d = {}
            if i[3] != "-":
                for e in i[3].split(","):
                    a, b, v = e.split(":")
                    d[(int(a), int(b))] = d[(int(b), int(a))] = f32(v)
            C = np.array([[0.0 if x == y else d[(x, y)] for y in ys] for x in xs])
            best = ot(mu, nu, C)
            if best is None:
                skipped += 1
                continue
            n += 1
            cost = f32(o[0])
            rows = np.array([float(x) for x in o[1].split(",")])
            tv = 0.5 * float(np.abs(rows - mu).sum())
            allowance = TEMPERATURE * min(entropy(rows / max(rows.sum(), 1e-30)), entropy(nu))
            short = line[:240].rstrip("\n")
            if cost < best - tv - SLACK:
                fails += 1
                print(f"SPECFAIL c12_sinkhorn_lower_bound {short} :: cost {cost:.6f} < optimum {best:.6f} - misplaced mass {tv:.6f}")
            if cost > best + tv + allowance + SLACK:
                fails += 1
                print(f"SPECFAIL c12_sinkhorn_upper_bound {short} :: cost {cost:.6f} > optimum {best:.6f} + misplaced mass {tv:.6f} + entropic allowance {allowance:.6f}")
            greedy = f32(o[4])
            if greedy < best - 1e-4:
                fails += 1
                print(f"SPECFAIL c12_greedy_not_below_optimum {short} :: greedy {greedy:.6f} < optimum {best:.6f}")
            selfcost = f32(o[5])
            if selfcost > TEMPERATURE * entropy(mu) + SLACK:
                fails += 1
                print(f"SPECFAIL c12_self_distance {short} :: {selfcost:.6f} > {TEMPERATURE * entropy(mu):.6f}")
    print(f"ORACLE instances={n} skipped={skipped} failures={fails}")


if __name__ == "__main__":
    main()
