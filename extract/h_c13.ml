(* h_c13.ml -- one k-means step (property C13) and centroid seeding (C20) *)
open Framework
open Conv
open Floatq

let split c s = if s = "" || s = "-" then [] else String.split_on_char c s
let hist_of (s : string) : Kmeans.hist =
  if s = "e" then [] else Stdlib.List.map (fun kc -> match split ':' kc with [k; c] -> (n_of_string k, n_of_string c) | _ -> failwith "hist") (split '+' s)
let hists_of s = Stdlib.List.map hist_of (split ',' s)
let hist_s (h : Kmeans.hist) = if h = [] then "e" else String.concat "+" (Stdlib.List.map (fun (k, c) -> string_of_n k ^ ":" ^ string_of_n c) h)
let fb s = float_of_f32bits (int_of_string s)

let () =
  register "km" (fun i o ->
    if o.(0) = "P" then [Specfail ("c13_step_aborts", "a k-means step on a synthetic layer panicked")] else begin
    let street = n_of_string i.(1) and n = int_of_string i.(2) and k = int_of_string i.(3) in
    let points = hists_of i.(4) in
    let fails = ref [] in
    let nm = ref 0 in
    let mism m = incr nm; if !nm <= 5 then fails := Mismatch m :: !fails in
    let spec rule cond detail = if not cond then fails := Specfail (rule, detail) :: !fails in
    (* D.(c).(p) *)
    let d = Array.of_list (Stdlib.List.map (fun row -> Array.of_list (Stdlib.List.map fb (split ',' row))) (split ';' o.(0))) in
    let column p = Stdlib.List.init k (fun c -> let x = d.(c).(p) in if Float.is_nan x then None else Some x) in
    let columns = Stdlib.List.init n column in
    let nb_model p = Kmeans.neighborhood (fun a b -> a < b) (column p) in
    (* neighbourhoods *)
    let nbs = Array.of_list (Stdlib.List.map (fun s -> match split ':' s with [a; b] -> (int_of_string a, fb b) | _ -> (-1, nan)) (split ',' o.(1))) in
    Array.iteri (fun p (idx, dist) ->
      (match nb_model p with
       | Some (j, x) -> if int_of_nat j <> idx || x <> dist then mism (Printf.sprintf "point %d -> centroid %d at %g" p (int_of_nat j) x)
       | None -> mism (Printf.sprintf "point %d: model has no neighbour" p));
      (* specification: a nearest centroid, the first of the nearest *)
      let best = Array.fold_left (fun a row -> Float.min a row.(p)) infinity d in
      spec "c13_nearest_centroid" (idx >= 0 && idx < k && d.(idx).(p) = best) (Printf.sprintf "point %d assigned to %d at %g, nearest is at %g" p idx d.(idx).(p) best);
      spec "c13_first_of_equally_near" (idx >= 0 && Stdlib.List.for_all (fun c -> d.(c).(p) > best) (Stdlib.List.init (max idx 0) (fun c -> c))) (Printf.sprintf "point %d" p)) nbs;
    (* next: every point absorbed into exactly its nearest centroid *)
    let next_impl = split ',' o.(2) in
    let kslots = Stdlib.List.length next_impl in
    (match Kmeans.next_step (fun a b -> a < b) (nat_of_int kslots) points columns with
     | Some cs -> if Stdlib.List.map hist_s cs <> next_impl then mism "next centroids differ"
     | None -> mism "model next_step fails");
    (* mass conservation, key-wise: the union of the new centroids is the union of the points *)
    let tally hs = Stdlib.List.fold_left (fun acc h -> Kmeans.absorb acc h) [] hs in
    spec "c13_mass_conserved" (hist_s (tally (Stdlib.List.map hist_of next_impl)) = hist_s (tally points)) "samples per bucket differ between points and new centroids";
    (* lookup: class i -> bucket of the centroid nearest to point i *)
    Stdlib.List.iteri (fun p s ->
      match split ':' s with
      | [_; _; a] ->
        (match nb_model p with
         | Some (j, _) ->
           (match Codec.abs_make street (n_of_int (int_of_nat j)) with
            | Some x -> if string_of_n x.Codec.abits <> a then
                (mism (Printf.sprintf "lookup of class %d" p);
                 spec "c13_lookup_aligned" false (Printf.sprintf "class %d maps to %s, nearest centroid is %d" p a (int_of_nat j)))
            | None -> ())
         | None -> ())
      | _ -> ()) (split ',' o.(3));
    spec "c13_lookup_covers_points" (Stdlib.List.length (split ',' o.(3)) = n) "";
    (* derived metric *)
    let cc = Array.of_list (Stdlib.List.map (fun row -> Array.of_list (Stdlib.List.map fb (split ',' row))) (split ';' o.(4))) in
    let r32 x = Int32.float_of_bits (Int32.bits_of_float x) in
    let model = Kmeans.metric_step (fun a b -> r32 (a +. b)) (fun a b -> r32 (a /. b)) (fun a b -> a <= b) 2.0 (Int32.float_of_bits 0x00800000l)
        street (fun a b -> cc.(int_of_nat a).(int_of_nat b)) (nat_of_int k) in
    let impl = Stdlib.List.map (fun s -> match split ':' s with [p; x] -> (p, fb x) | _ -> ("", nan)) (split ',' o.(5)) in
    (match model with
     | Some es ->
       let ms = Stdlib.List.sort compare (Stdlib.List.map (fun (p, x) -> (Printf.sprintf "%020s" (string_of_n p), x)) es) in
       let is = Stdlib.List.sort compare (Stdlib.List.map (fun (p, x) -> (Printf.sprintf "%020s" p, x)) impl) in
       if Stdlib.List.length ms <> Stdlib.List.length is || not (Stdlib.List.for_all2 (fun (p, x) (q, y) -> p = q && close ~rel:1e-6 ~abs:1e-7 x y) ms is) then begin
         mism "derived metric differs";
         (* same keys, other values: an entry is not the symmetrised distance (d(a,b) + d(b,a)) / 2 of its two centroids
            over the largest such value -- with a one-sided distance the table depends on the order the buckets are listed in *)
         if Stdlib.List.length ms = Stdlib.List.length is && Stdlib.List.for_all2 (fun (p, _) (q, _) -> p = q) ms is then
           spec "c13_metric_entry_is_the_symmetrised_distance" false
             (let (p, x), (_, y) = Stdlib.List.find (fun ((_, x), (_, y)) -> not (close ~rel:1e-6 ~abs:1e-7 x y)) (Stdlib.List.combine ms is) in
              Printf.sprintf "pair key %s: %.7g in the table, %.7g from the layer's own distances" (String.trim p) y x)
       end
     | None -> mism "model metric_step fails");
    spec "c13_metric_one_entry_per_pair" (Stdlib.List.length impl = k * (k - 1) / 2) (Printf.sprintf "%d entries for %d buckets" (Stdlib.List.length impl) k);
    spec "c13_metric_keys_distinct" (Stdlib.List.length (Stdlib.List.sort_uniq compare (Stdlib.List.map fst impl)) = Stdlib.List.length impl) "";
    spec "c13_metric_nonnegative" (Stdlib.List.for_all (fun (_, x) -> x >= 0.0) impl) "";
    if impl <> [] && Stdlib.List.exists (fun (_, x) -> x > 0.0) impl then
      (* exactly one: the largest raw distance divided by itself (IEEE: x / x = 1 for finite non-zero x); a table whose
         largest entry is 0.99999994 (scaled by a rounded reciprocal, say) is not "scaled to a maximum of one" *)
      (let mx = Stdlib.List.fold_left (fun a (_, x) -> Float.max a x) 0.0 impl in
       spec "c13_metric_max_is_one" (mx = 1.0) (Printf.sprintf "the largest entry is %.9g" mx));
    !fails end);
  register "init" (fun i o ->
    let all = Array.to_list o in
    (if Stdlib.List.exists (fun x -> String.length x > 0 && x.[0] = 'P') all then [Specfail ("c20_init_aborts", i.(2))] else [])
    @ (if Stdlib.List.for_all (fun x -> x = o.(0)) all then [] else
         [Specfail ("c20_init_reproducible", "centroids differ between runs / thread counts: " ^ String.concat " " all)])
    @ (let k = match String.split_on_char '#' o.(0) with a :: _ -> int_of_string a | [] -> 0 in
       if k = 144 then [] else [Specfail ("c20_init_count", string_of_int k)]))
