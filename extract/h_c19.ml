(* h_c19.ml -- discounted accumulation (property C19) *)
open Framework
open Conv
open Floatq
open Discount

let split c s = if s = "" || s = "-" then [] else String.split_on_char c s
let fl s = Stdlib.List.map (fun x -> int_of_string x) (split ',' s)

let () =
  register "disc" (fun i o ->
    let start = int_of_string i.(1) in
    let init_r = q_of_f32bits (int_of_string i.(2)) and init_p = q_of_f32bits (int_of_string i.(3)) in
    let rs = fl i.(4) and ps = fl i.(5) in
    let drs = fl o.(0) and dps = fl o.(1) in
    let fr = float_of_f32bits (int_of_string o.(2)) and fp = float_of_f32bits (int_of_string o.(3)) in
    let walkers = o.(4) in
    let n = Stdlib.List.length rs in
    let fails = ref [] in
    let spec rule cond detail = if not cond then fails := Specfail (rule, detail) :: !fails in
    (* model: the recurrences over exact rationals (regret with the factors the implementation used);
       exact numerators grow by ~50 bits per epoch, so runs beyond 40 epochs are replayed with the same
       recurrences in double precision (glue) *)
    let exact = n <= 40 in
    if not exact then mark_trivial ();
    let f = float_of_f32bits in
    let mr_f () = Stdlib.List.fold_left2 (fun acc d r -> acc *. f d +. f r) (float_of_q init_r) drs rs in
    let mp_f () = fst (Stdlib.List.fold_left (fun (acc, t) p ->
        let x = float_of_int t /. float_of_int (t + 1) in (acc *. (x ** float_of_q GenDiscount.coq_DISCOUNT_GAMMA) +. f p, t + 1)) (float_of_q init_p, start) ps) in
    let mr = if exact then regret_run init_r (Stdlib.List.map2 (fun d r -> (q_of_f32bits d, q_of_f32bits r)) drs rs) else q_of_f32bits 0 in
    let mp = if exact then policy_run (z_of_int start) init_p (Stdlib.List.map q_of_f32bits ps) else q_of_f32bits 0 in
    let float_of_q q = if exact then float_of_q q else nan in
    let mrf = if exact then float_of_q mr else mr_f () and mpf = if exact then float_of_q mp else mp_f () in
    (* f32 accumulation of up to 2000 multiply-adds: relative 1e-3 of the magnitude of the terms *)
    let scale l = Stdlib.List.fold_left (fun a b -> a +. Float.abs (float_of_f32bits b)) 1e-3 l in
    if not (close ~rel:1e-3 ~abs:(1e-4 *. scale rs) mrf fr) then fails := Mismatch (Printf.sprintf "regret=%g (impl %g)" mrf fr) :: !fails;
    if not (close ~rel:1e-3 ~abs:(1e-4 *. scale ps) mpf fp) then fails := Mismatch (Printf.sprintf "policy=%g (impl %g)" mpf fp) :: !fails;
    (* the policy discount factors are (t/(t+1))^gamma *)
    Stdlib.List.iteri (fun k d ->
      let want = Floatq.float_of_q (policy_discount (z_of_int (start + k))) in
      if not (close ~rel:1e-5 ~abs:1e-7 want (float_of_f32bits d)) then fails := Mismatch (Printf.sprintf "policy discount at t=%d: %g" (start + k) want) :: !fails) dps;
    (* specification *)
    (* average strategy: polynomially weighted mean (closed form) when the run starts at epoch 0 *)
    if start = 0 then begin
      let g = Floatq.float_of_q GenDiscount.coq_DISCOUNT_GAMMA in
      let closed = if exact then Floatq.float_of_q (sum_policy (z_of_int 0) (z_of_int (n - 1)) (Stdlib.List.map q_of_f32bits ps))
        else fst (Stdlib.List.fold_left (fun (a, s_) p -> (a +. f p *. ((float_of_int (s_ + 1) /. float_of_int n) ** g), s_ + 1)) (0.0, 0) ps) in
      spec "c19_policy_weighted_mean" (close ~rel:1e-3 ~abs:(1e-4 *. scale ps) closed fp)
        (Printf.sprintf "stored %g, sum_s p_s ((s+1)/(T+1))^gamma = %g" fp closed)
    end;
    (* regret weights: every factor in (0,1] (epoch 0 wipes: factor 0 allowed there), 1 outside the discount phase *)
    let phase = int_of_z GenLib.coq_CFR_DISCOUNT_PHASE in
    Stdlib.List.iteri (fun k d ->
      let t = start + k and v = float_of_f32bits d in
      spec "c19_regret_weight_range" ((v > 0.0 || t = 0) && v <= 1.0) (Printf.sprintf "factor %g at epoch %d" v t);
      if t >= phase then spec "c19_regret_weight_one_after_phase" (v = 1.0) (Printf.sprintf "factor %g at epoch %d" v t)) drs;
    let closed_r = if exact then Floatq.float_of_q (sum_regret (Stdlib.List.map2 (fun d r -> (q_of_f32bits d, q_of_f32bits r)) drs rs))
      else begin
        (* sum_s r_s * prod_{u>s} d_u, evaluated from the right *)
        let (acc, _) = Stdlib.List.fold_right2 (fun d r (acc, w) -> (acc +. f r *. w, w *. f d)) drs rs (0.0, 1.0) in acc
      end in
    let wipes = start = 0 && n > 0 && float_of_f32bits (Stdlib.List.hd drs) = 0.0 in
    if wipes || int_of_string i.(2) = 0 then
      spec "c19_regret_is_weighted_sum" (close ~rel:1e-3 ~abs:(1e-4 *. scale rs) closed_r fr)
        (Printf.sprintf "stored %g, weighted sum %g" fr closed_r);
    (* the average strategy the library reports (Profile::weight) is the accumulator over the sum of the accumulators *)
    if Array.length o > 6 then begin
      let accs = Stdlib.List.map float_of_f32bits (fl o.(5)) and wts = Stdlib.List.map float_of_f32bits (fl o.(6)) in
      let tot = Stdlib.List.fold_left ( +. ) 0.0 accs in
      if tot > 0.0 && Float.is_finite tot && Stdlib.List.length accs = Stdlib.List.length wts then
        Stdlib.List.iteri (fun k (a, w) ->
          spec "c19_average_strategy_is_normalised_accumulator" (Float.abs (w -. a /. tot) <= 1e-5)
            (Printf.sprintf "action %d: accumulated %g of %g in all, reported weight %g" k a tot w)) (Stdlib.List.combine accs wts)
    end;
    (* traversers alternate, starting with player (start mod 2) = 0 at epoch 0 *)
    String.iteri (fun k ch ->
      spec "c19_walker_alternates" (ch = (if (start + k) mod 2 = 0 then '0' else '1')) (Printf.sprintf "epoch %d walker %c" (start + k) ch)) walkers;
    !fails)
