(* h_c16.ml -- text parsers and printers (property C16) *)
open Framework
open Conv
open Codec
open Parse

let split c s = if s = "" || s = "-" then [] else String.split_on_char c s
let str_of (s : string) : BinNums.coq_N list = Stdlib.List.map n_of_string (split ',' s)
let show_str (l : BinNums.coq_N list) = if l = [] then "-" else String.concat "," (Stdlib.List.map string_of_n l)
let tok_of_action = H_game.tok_of_action
let turn_s = function TTerminal -> "T" | TChance -> "C" | TChoice i -> "P" ^ string_of_n i
let res f = function POk v -> "ok " ^ f v | PErr -> "err" | PPanic -> "panic"

let model_parse (kind : string) (s : BinNums.coq_N list) : string =
  match kind with
  | "card" -> res string_of_n (parse_card s)
  | "hand" -> res string_of_n (parse_hand s)
  | "hole" -> res string_of_n (parse_hole s)
  | "obs" -> res (fun o -> string_of_n o.pocket ^ ":" ^ string_of_n o.public) (parse_obs s)
  | "street" -> res string_of_z (parse_street s)
  | "abs" -> res (fun a -> string_of_n a.abits) (parse_abs s)
  | "action" -> res tok_of_action (parse_action s)
  | "turn" -> res turn_s (parse_turn s)
  | _ -> failwith "kind"

let popcount n = int_of_n (Bits.popcount64 n)

let () =
  register "parse" (fun i o ->
    let s = str_of i.(2) in
    (* a trailing rt0 / rt1: did the returned value survive its own print -> parse? *)
    let n = Array.length o in
    let rt = if n >= 1 && (o.(n - 1) = "rt0" || o.(n - 1) = "rt1") then Some o.(n - 1) else None in
    let o = if rt = None then o else Array.sub o 0 (n - 1) in
    let impl = String.concat " " (Array.to_list o) in
    let m = model_parse i.(1) s in
    (if m = impl then [] else [Mismatch m])
    @ (if impl = "panic" then [Specfail ("c16_parser_aborts", "parsing " ^ i.(1) ^ " panicked")] else [])
    @ (if rt = Some "rt0" then [Specfail ("c16_returned_value_round_trips", "the " ^ i.(1) ^ " this string parses to does not parse back from its own printed form (" ^ impl ^ ")")] else [])
    @ (if i.(1) = "obs" && Array.length o = 2 && o.(0) = "ok" then
         (match split ':' o.(1) with
          | [pk; pb] ->
            let pk = n_of_string pk and pb = n_of_string pb in
            let n = popcount pb in
            (if popcount pk = 2 && (n = 0 || n = 3 || n = 4 || n = 5) then [] else [Specfail ("c16_observation_card_counts", o.(1))])
            @ (if BinNat.N.eqb (BinNat.N.coq_land pk pb) BinNums.N0 then [] else [Specfail ("c16_observation_overlap", "a card is both private and on the board: " ^ o.(1))])
          | _ -> [])
       else [])
    @ (if i.(1) = "hole" && Array.length o = 2 && o.(0) = "ok" && popcount (n_of_string o.(1)) <> 2 then [Specfail ("c16_hole_card_count", o.(1))] else []));
  (* print kind value | printed parsed-back *)
  register "print" (fun i o ->
    let n = Array.length o in
    let rt = if n >= 1 && (o.(n - 1) = "rt0" || o.(n - 1) = "rt1") then Some o.(n - 1) else None in
    let o = if rt = None then o else Array.sub o 0 (n - 1) in
    let kind = i.(1) and v = i.(2) in
    let printed = match kind with
      | "card" -> print_card (n_of_string v)
      | "hand" | "hole" -> print_hand (n_of_string v)
      | "obs" -> (match split ':' v with [a; b] -> print_obs { pocket = n_of_string a; public = n_of_string b } | _ -> [])
      | "street" -> print_street (z_of_string v)
      | "abs" -> (match abs_of_u64 (n_of_string v) with Some a -> print_abs a | None -> [])
      | "action" -> print_action (H_game.action_of_tok v)
      | "turn" -> print_turn (match v with "T" -> TTerminal | "C" -> TChance | _ -> TChoice (n_of_string (String.sub v 1 (String.length v - 1))))
      | _ -> [] in
    let back = String.concat " " (Array.to_list (Array.sub o 1 (Array.length o - 1))) in
    (if show_str printed = o.(0) then [] else [Mismatch ("printed=" ^ show_str printed)])
    @ (let m = model_parse kind (str_of o.(0)) in if m = back then [] else [Mismatch ("parsed=" ^ m)])
    @ (if back = "ok " ^ v then [] else [Specfail ("c16_print_parse_roundtrip", kind ^ " " ^ v ^ " printed and parsed back gives " ^ back)]))
