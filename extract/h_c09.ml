(* h_c09.ml -- regret matching (property C09) and the seeded sampler (property C20) *)
open Framework
open Conv
open Floatq

let split c s = if s = "" || s = "-" then [] else String.split_on_char c s
let f32_min_positive = Int32.float_of_bits 0x00800000l
(* round a double to binary32 (the implementation computes in f32) *)
let r32 (x : float) : float = Int32.float_of_bits (Int32.bits_of_float x)

let () =
  register "pv" (fun i o ->
    let t = int_of_string i.(1) in
    let regs = Stdlib.List.map (fun b -> float_of_f32bits (int_of_string b)) (split ',' i.(2)) in
    let n = Stdlib.List.length regs in
    let fails = ref [] in
    let spec rule cond detail = if not cond then fails := Specfail (rule, detail) :: !fails in
    (* model, float instance with binary32 rounding after every operation *)
    let m = RegretMatching.policy_vector 0.0 (fun a b -> r32 (a +. b)) (fun a b -> r32 (a /. b)) (fun a b -> a <= b) (fun a b -> a < b)
        (fun z -> r32 (float_of_int (int_of_z z))) f32_min_positive (z_of_int t) regs in
    (match m, o.(0) with
     | None, "P" -> ()
     | None, _ -> fails := Mismatch "model aborts" :: !fails
     | Some _, "P" -> fails := Mismatch "model does not abort" :: !fails
     | Some mp, s ->
       let ip = Stdlib.List.map (fun b -> float_of_f32bits (int_of_string b)) (split ',' s) in
       if Stdlib.List.length ip <> Stdlib.List.length mp || not (Stdlib.List.for_all2 (fun a b -> close ~rel:1e-5 ~abs:1e-7 a b) mp ip) then
         fails := Mismatch ("policy=" ^ String.concat "," (Stdlib.List.map (Printf.sprintf "%g") mp)) :: !fails);
    (* specification *)
    if o.(0) = "P" then spec "c09_policy_vector_aborts" false (Printf.sprintf "epochs = %d" t)
    else begin
      let ip = Stdlib.List.map (fun b -> float_of_f32bits (int_of_string b)) (split ',' o.(0)) in
      spec "c09_one_probability_per_action" (Stdlib.List.length ip = n) "";
      spec "c09_probabilities_in_range" (Stdlib.List.for_all (fun p -> p >= 0.0 && p <= 1.0) ip) o.(0);
      (* judged where the binary32 sum of the floored cumulated regrets does not overflow (C09_f32_sum_overflow_all_zero:
         beyond that the function returns all zeros, finding D15); the family "every action at f32::MAX" is judged
         regardless, so that the finding is reported on its own inputs *)
      let div0 = r32 (float_of_int (max t 1)) in
      let floored_sum = Stdlib.List.fold_left (fun a r -> a +. Float.max (r /. div0) f32_min_positive) 0.0 regs in
      let all_max = regs <> [] && Stdlib.List.for_all (fun r -> r = Int32.float_of_bits 0x7f7fffffl) regs in
      let guard = (Stdlib.List.for_all Float.is_finite regs && floored_sum <= 3.3e38) || all_max in
      if guard then begin
        let s = Stdlib.List.fold_left ( +. ) 0.0 ip in
        spec "c09_probabilities_sum_to_one" (Float.abs (s -. 1.0) <= 1e-5) (Printf.sprintf "sum %.8f" s);
        let div = r32 (float_of_int (max t 1)) in
        let pos = Stdlib.List.map (fun r -> Float.max (r /. div) 0.0) regs in
        let sp = Stdlib.List.fold_left ( +. ) 0.0 pos in
        if sp > 1e-20 then
          spec "c09_proportional_to_positive_regret"
            (Stdlib.List.for_all2 (fun p q -> Float.abs (p -. q /. sp) <= 1e-4) ip pos) o.(0)
        else if sp = 0.0 then
          spec "c09_uniform_without_positive_regret"
            (Stdlib.List.for_all (fun p -> Float.abs (p -. 1.0 /. float_of_int n) <= 1e-5) ip) o.(0)
      end
    end;
    !fails)

(* ---------- C20 ---------- *)
let () =
  let seen : (string, string) Hashtbl.t = Hashtbl.create 4096 in
  let conflicts = ref [] in
  register "samp" (fun i o ->
    let key = i.(1) ^ "@" ^ i.(2) in
    let all = o.(0) :: o.(1) :: split ',' o.(2) in
    let fails = ref [] in
    if Stdlib.List.exists (fun x -> x = "P") all then fails := Specfail ("c20_sampler_aborts", key) :: !fails;
    if Stdlib.List.exists (fun x -> x <> o.(0)) all then
      fails := Specfail ("c20_same_question_same_answer", key ^ ": " ^ String.concat "," all) :: !fails;
    (match Hashtbl.find_opt seen key with
     | Some e when e <> o.(0) -> conflicts := (key ^ ": " ^ e ^ " in one tree, " ^ o.(0) ^ " in another") :: !conflicts
     | Some _ -> ()
     | None -> Hashtbl.replace seen key o.(0));
    !fails);
  at_finish (fun () -> Stdlib.List.map (fun c -> Specfail ("c20_same_epoch_and_infoset_same_branch", c)) !conflicts);
  (* nodes of one information set (same Bucket) below the recalled depth: same PRNG stream, same branch *)
  register "seedfn" (fun i o ->
    if o.(0) = "P" then [Specfail ("c20_sampler_aborts", "hand-built deep line")] else begin
    let seeds = split ',' o.(0) and edges = split ',' o.(1) in
    let same l = match l with [] -> true | x :: r -> Stdlib.List.for_all (fun y -> y = x) r in
    (if same seeds then [] else
       [Specfail ("c20_seed_is_a_function_of_epoch_and_infoset",
                  Printf.sprintf "epoch %s, information set %s, nodes at depths %s: PRNG streams start %s" i.(1) i.(2) i.(3) o.(0))])
    @ (if same edges then [] else
         [Specfail ("c20_same_epoch_and_infoset_same_branch",
                    Printf.sprintf "epoch %s, information set %s, nodes at depths %s: sampled %s" i.(1) i.(2) i.(3) o.(1))]) end);
  (* a chance node offered 12 deals: one answer per epoch, and not the same answer at all 24 epochs *)
  (let per_node : (string, string list) Hashtbl.t = Hashtbl.create 16 in
   register "anychoice" (fun i o ->
     let answers = split ',' o.(0) in
     let prev = match Hashtbl.find_opt per_node i.(1) with Some l -> l | None -> [] in
     (match answers with a :: _ -> Hashtbl.replace per_node i.(1) (a :: prev) | [] -> ());
     (if Stdlib.List.exists (fun x -> x = "P" || x = "?") answers then [Specfail ("c20_sampler_aborts", "chance node " ^ i.(1))] else [])
     @ (match answers with
        | a :: r when Stdlib.List.exists (fun y -> y <> a) r ->
          [Specfail ("c20_same_question_same_answer", Printf.sprintf "chance node %s, epoch %s, information set %s: 20 calls on 4 threads picked deals %s" i.(1) i.(2) i.(3) o.(0))]
        | _ -> []));
   at_finish (fun () ->
     Hashtbl.fold (fun k l acc ->
       match l with
       | a :: r when Stdlib.List.length l >= 24 && Stdlib.List.for_all (fun y -> y = a) r ->
         Specfail ("c20_choice_varies_across_epochs", Printf.sprintf "chance node %s: deal %s at every one of %d epochs" k a (Stdlib.List.length l)) :: acc
       | _ -> acc) per_node []));
  (* the sampler's transcript (first PRNG word and sampled branch at two nodes, 24 epochs) from this process and from a second one *)
  register "xproc" (fun _ o ->
    if o.(2) <> "1" then [Mismatch "the second process could not be run"] else
    if o.(0) = o.(1) then [] else
      [Specfail ("c20_same_choices_in_another_process", "the sampler's transcript at fixed (epoch, information set) pairs differs between two runs of the program")]);
  register "sampchance" (fun _ o -> if o.(0) = "1" then [] else [Specfail ("c20_chance_one_branch", o.(0))]);
  (* across epochs the choice follows the profile's weights (chi-square, 6.5 sigma) *)
  register "sampdist" (fun i o ->
    let ws = Stdlib.List.map (fun b -> float_of_f32bits (int_of_string b)) (split ',' i.(2)) in
    let cs = Stdlib.List.map float_of_string (split ',' o.(0)) in
    let tw = Stdlib.List.fold_left ( +. ) 0.0 ws and tc = Stdlib.List.fold_left ( +. ) 0.0 cs in
    let chi = Stdlib.List.fold_left2 (fun a w c -> let e = tc *. w /. tw in a +. (c -. e) ** 2.0 /. e) 0.0 ws cs in
    let df = float_of_int (Stdlib.List.length ws - 1) in
    let a = 2.0 /. (9.0 *. df) in
    let bound = df *. ((1.0 -. a +. 6.5 *. sqrt a) ** 3.0) in
    (if chi <= bound then [] else
      [Specfail ("c20_unbiased_across_epochs", Printf.sprintf "chi2 %.1f > %.1f over %.0f epochs" chi bound tc);
       Specfail ("c10_opponent_drawn_with_profile_probability", Printf.sprintf "choice frequencies over %.0f epochs do not follow the profile's weights (chi2 %.1f > %.1f)" tc chi bound)])
    (* consecutive epochs are independent draws: the number of agreeing neighbours, for pairs starting at an even and at an
       odd epoch, is binomial with q = sum of squared probabilities (6.5 sigma) *)
    @ (if Array.length o < 4 then [] else begin
        let q = Stdlib.List.fold_left (fun a w -> a +. (w /. tw) ** 2.0) 0.0 ws in
        let n = float_of_string o.(3) in
        let sd = sqrt (n *. q *. (1.0 -. q)) in
        Stdlib.List.concat_map (fun (k, what) ->
            let a = float_of_string o.(k) in
            if Float.abs (a -. n *. q) <= 6.5 *. sd +. 1.0 then [] else
              [Specfail ("c20_fresh_draw_every_epoch", Printf.sprintf "the choices at epochs (%s) agree %.0f times out of %.0f; independent draws would agree %.0f +- %.0f times" what a n (n *. q) sd)])
          [(1, "2t, 2t+1"); (2, "2t+1, 2t+2")]
      end))
