(* framework.ml -- line-protocol framework of the model/spec driver.
   Input : one case per line  `tag in1 in2 ... | out1 out2 ...`
           (inputs chosen by the Rust harness, outputs produced by the implementation).
   Output: `MISMATCH ...`  the extracted model disagrees with the implementation (correspondence);
           `SPECFAIL ...`  the implementation's output violates the extracted specification (oracle);
           a final `STATS` line. *)

type failure = Mismatch of string | Specfail of string * string (* rule, detail *)

type handler = string array -> string array -> failure list

let handlers : (string, handler) Hashtbl.t = Hashtbl.create 64
let register (tag : string) (h : handler) = Hashtbl.replace handlers tag h

(* directives: `@key value` lines set driver state *)
let directives : (string, string) Hashtbl.t = Hashtbl.create 8
let directive k default = try Hashtbl.find directives k with Not_found -> default

(* end-of-stream hooks (e.g. duplicate detection over the whole stream) *)
let finishers : (unit -> failure list) list ref = ref []
let at_finish f = finishers := f :: !finishers

(* a handler may flag the current case as trivial (empty input, identity, zero amount, ...) *)
let cur_trivial = ref false
let mark_trivial () = cur_trivial := true

let split_ws (s : string) : string array =
  Array.of_list (Stdlib.List.filter (fun x -> x <> "") (String.split_on_char ' ' s))

let max_print = 25

let run (ic : in_channel) =
  let lines = ref 0 and mism = ref 0 and spec = ref 0 and unknown = ref 0 in
  let per_tag : (string, int) Hashtbl.t = Hashtbl.create 32 in
  let distinct : (int, unit) Hashtbl.t = Hashtbl.create 100000 in
  let nontrivial = ref 0 in
  let samples = ref [] in
  let per_rule : (string, int) Hashtbl.t = Hashtbl.create 32 in
  let bump t k = Hashtbl.replace t k (1 + try Hashtbl.find t k with Not_found -> 0) in
  let report line fs =
    Stdlib.List.iter (fun f ->
      match f with
      | Mismatch m ->
        incr mism;
        if !mism <= max_print then Printf.printf "MISMATCH %s :: model=%s\n" line m
      | Specfail (rule, d) ->
        incr spec; bump per_rule rule;
        if !spec <= max_print then Printf.printf "SPECFAIL %s %s :: %s\n" rule line d) fs in
  (try
    while true do
      let line = input_line ic in
      if String.length line = 0 || line.[0] = '#' then ()
      else if line.[0] = '@' then begin
        match String.index_opt line ' ' with
        | Some i -> Hashtbl.replace directives (String.sub line 1 (i - 1))
                      (String.sub line (i + 1) (String.length line - i - 1))
        | None -> ()
      end else begin
        incr lines;
        let (ins, outs) =
          match String.index_opt line '|' with
          | Some i -> (String.sub line 0 i, String.sub line (i + 1) (String.length line - i - 1))
          | None -> (line, "") in
        let ia = split_ws ins and oa = split_ws outs in
        if Array.length ia = 0 then () else begin
          let tag = ia.(0) in
          bump per_tag tag;
          match Hashtbl.find_opt handlers tag with
          | None -> incr unknown; if !unknown <= 3 then Printf.printf "UNKNOWN-TAG %s\n" tag
          | Some h ->
            cur_trivial := false;
            let fs = (try h ia oa with e -> [Mismatch ("driver exception: " ^ Printexc.to_string e)]) in
            let key = Hashtbl.hash ins in
            if not (Hashtbl.mem distinct key) then begin
              Hashtbl.replace distinct key ();
              if not !cur_trivial then incr nontrivial
            end;
            if Hashtbl.find per_tag tag <= 2 && Stdlib.List.length !samples < 24 then samples := line :: !samples;
            if fs <> [] then report line fs
        end
      end
    done
  with End_of_file -> ());
  Stdlib.List.iter (fun f -> let fs = f () in if fs <> [] then report "<end-of-stream>" fs) !finishers;
  let tags = Hashtbl.fold (fun k v acc -> Printf.sprintf "\"%s\":%d" k v :: acc) per_tag [] in
  let rules = Hashtbl.fold (fun k v acc -> Printf.sprintf "\"%s\":%d" k v :: acc) per_rule [] in
  Stdlib.List.iter (fun l -> Printf.printf "SAMPLE %s\n" l) (Stdlib.List.rev !samples);
  Printf.printf "STATS {\"lines\":%d,\"mismatch\":%d,\"specfail\":%d,\"unknown\":%d,\"distinct\":%d,\"distinct_nontrivial\":%d,\"tags\":{%s},\"rules\":{%s}}\n"
    !lines !mism !spec !unknown (Hashtbl.length distinct) !nontrivial (String.concat "," tags) (String.concat "," rules)
