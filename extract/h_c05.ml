(* h_c05.ml -- canonicalisation streams (property C05) *)
open Framework
open Conv
open Codec
open Iso

let deck () = if directive "deck" "std" = "short" then Short else Standard
let os (o : obs) = string_of_n o.pocket ^ " " ^ string_of_n o.public
let oopt = function Some o -> os o | None -> "P P"

let () =
  (* the canonical form asked for twice, with the recogniser applied to another deal of the same cards in between *)
  register "isoseq" (fun i o ->
    if o.(0) = "P" then [Specfail ("c05_canonicalisation_aborts", "sequence " ^ i.(1) ^ " " ^ i.(2))] else
    (if o.(0) = o.(2) && o.(1) = o.(3) then [] else
       [Specfail ("c05_canonical_form_depends_on_what_was_asked_before",
                  Printf.sprintf "cards %s: the canonical form of the deal with pocket %s is %s %s when asked first and %s %s after is_canonical was applied to the deal with pocket %s"
                    i.(3) i.(2) o.(0) o.(1) o.(2) o.(3) i.(1))])
    @ (if o.(4) = "1" then [] else [Specfail ("c05_canonical_form_recognised", "after the sequence the canonical form " ^ o.(0) ^ " " ^ o.(1) ^ " is not recognised")]));
  register "iso" (fun i o ->
    let d = deck () in
    let ob = { pocket = n_of_string i.(1); public = n_of_string i.(2) } in
    if o.(0) = "P" then
      [Specfail ("c05_aborts", "canonicalising a valid observation panicked")]
      @ (match canon d ob with None -> [] | Some _ -> [Mismatch "model does not panic"])
    else begin
      let fails = ref [] in
      let mism name m impl = if m <> impl then fails := Mismatch (name ^ "=" ^ m) :: !fails in
      let spec rule cond detail = if not cond then fails := Specfail (rule, detail) :: !fails in
      let c = canon d ob in
      mism "canon" (oopt c) (o.(0) ^ " " ^ o.(1));
      (match c with
       | Some c ->
         mism "canon-canon" (oopt (canon d c)) (o.(2) ^ " " ^ o.(3));
         mism "is_canonical(canon)" (if is_canonical d c then "1" else "0") o.(4)
       | None -> ());
      mism "is_canonical" (if is_canonical d ob then "1" else "0") o.(5);
      let ic = { pocket = n_of_string o.(0); public = n_of_string o.(1) } in
      (* idempotent, recognised *)
      spec "c05_idempotent" (o.(2) = o.(0) && o.(3) = o.(1)) "canon(canon o) <> canon o";
      spec "c05_recognised" (o.(4) = "1") "is_canonical(canon o) = false";
      spec "c05_is_canonical_iff" ((o.(5) = "1") = (o.(0) = i.(1) && o.(1) = i.(2))) "is_canonical(o) <-> canon o = o";
      (* faithful: the canonical form is a suit relabeling of the original, pocket and board apart *)
      spec "c05_faithful" (SpecIso.isomorphic ob ic) "canonical form is not a suit relabeling of the observation";
      (* invariant under all 24 relabelings; the implementation's permute is the true relabeling *)
      Stdlib.List.iteri (fun k p ->
        let b = 6 + 4 * k in
        let po = { pocket = n_of_string o.(b); public = n_of_string o.(b + 1) } in
        let want = SpecIso.relabel_obs p ob in
        mism (Printf.sprintf "permute[%d]" k) (oopt (permute d p ob)) (o.(b) ^ " " ^ o.(b + 1));
        if k mod 6 = 0 then mism (Printf.sprintf "canon(permute[%d])" k) (oopt (canon d po)) (o.(b + 2) ^ " " ^ o.(b + 3));
        spec "c05_permute_is_relabeling" (SpecIso.obs_eqb po want) (Printf.sprintf "permutation %d" k);
        spec "c05_invariant" (o.(b + 2) = o.(0) && o.(b + 3) = o.(1)) (Printf.sprintf "canon differs under permutation %d" k))
        GenPerm.coq_EXHAUST;
      !fails
    end)
