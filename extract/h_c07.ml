(* h_c07.ml -- river equity and turn histograms (property C07) *)
open Framework
open Conv
open Codec

let deck () = if directive "deck" "std" = "short" then Short else Standard
let split c s = if s = "" || s = "-" then [] else String.split_on_char c s
let r32 (x : float) : float = Int32.float_of_bits (Int32.bits_of_float x)
let bits32 (x : float) : string = Printf.sprintf "%lu" (Int32.bits_of_float x)
(* the implementation's float path: won as f32 / sum as f32 ; (p * 100).round() *)
let equity_f32 (w, n) = if n = 0 then 0.5 else r32 (float_of_int w /. float_of_int n)
let bucket_index p = int_of_float (Float.round (r32 (p *. 100.0)))
let bucket_code ix = match abs_make (n_of_int 3) (n_of_int ix) with Some a -> a.abits | None -> BinNums.N0

let sample_every = 4
let () =
  register "eq" (fun i o ->
    if o.(0) = "P" then [Specfail ("c07_equity_aborts", "")] else begin
    let d = deck () in
    let ob = { pocket = n_of_string i.(1); public = n_of_string i.(2) } in
    let fails = ref [] in
    let spec rule cond detail = if not cond then fails := Specfail (rule, detail) :: !fails in
    let disagree = ref false in
    (match Equity.equity_counts d ob with
     | None -> fails := Mismatch "model cannot evaluate" :: !fails; disagree := true
     | Some (w, n) ->
       let w = int_of_n w and n = int_of_n n in
       let p = equity_f32 (w, n) in
       if bits32 p <> o.(0) then (disagree := true; fails := Mismatch (Printf.sprintf "equity %d/%d = %s" w n (bits32 p)) :: !fails);
       if string_of_n (bucket_code (bucket_index p)) <> o.(1) then (disagree := true; fails := Mismatch (Printf.sprintf "bucket %d" (bucket_index p)) :: !fails);
       (* the definition: wins / (wins + losses) over all C(45,2) holdings, one half when all tie *)
       spec "c07_counts_in_range" (0 <= w && w <= n && n <= 990) (Printf.sprintf "%d/%d" w n));
    (* the property's own definition, from the rule book alone (SpecEquity.spec_counts): evaluated where model and
       implementation disagree (the search for a failing input) and on a sample of the other cases *)
    if !disagree || Hashtbl.hash (i.(1), i.(2)) mod sample_every = 0 then begin
      let (w, n) = SpecEquity.spec_counts d ob in
      let w = int_of_n w and n = int_of_n n in
      let p = equity_f32 (w, n) in
      spec "c07_equity_is_wins_over_decided" (bits32 p = o.(0))
        (Printf.sprintf "hero beats %d of the %d holdings he does not tie with: equity %g, the implementation says %g" w n p (Floatq.float_of_f32bits (int_of_string o.(0))));
      spec "c07_bucket_is_rounded_percent" (string_of_n (bucket_code (bucket_index p)) = o.(1)) (Printf.sprintf "bucket %d expected" (bucket_index p))
    end;
    let e = Floatq.float_of_f32bits (int_of_string o.(0)) in
    spec "c07_equity_in_unit_interval" (e >= 0.0 && e <= 1.0) o.(0);
    Stdlib.List.iteri (fun k s ->
      match split ':' s with
      | [eb; bk] ->
        spec "c07_equity_ignores_suits" (eb = o.(0)) (Printf.sprintf "permutation %d: %s vs %s" k eb o.(0));
        spec "c07_bucket_ignores_suits" (bk = o.(1)) (Printf.sprintf "permutation %d" k)
      | _ -> ()) (split ',' o.(2));
    !fails end);
  (* the bucket of the equity w / n, for every w <= n: round(100 * equity) in binary32, ties away from zero *)
  register "qt" (fun i o ->
    if o.(0) = "P" then [Specfail ("c07_bucket_aborts", i.(1))] else begin
    let n = int_of_string i.(1) in
    let fails = ref [] in
    Stdlib.List.iteri (fun w b ->
      if Stdlib.List.length !fails < 4 then begin
        let want = bucket_code (bucket_index (equity_f32 (w, n))) in
        (* the statement, for every pair of the reachable range: C07_bucket32_characterised proves that the bit-exact
           Flocq model bucket32 equals this integer expression (nearest percent, exact halves up, one less at the
           ties of rounds_down_tie); bucket_exact and rounds_down_tie are extracted from Model/BucketF32.v *)
        let zw = z_of_int w and zn = z_of_int n in
        let e = int_of_z (BucketF32.bucket_exact zw zn) in
        let proved = if BucketF32.rounds_down_tie zw zn then e - 1 else e in
        if string_of_n want <> b then
          fails := Mismatch (Printf.sprintf "bucket of %d/%d" w n) :: !fails;
        if n <= 990 && string_of_n (bucket_code proved) <> b then
          fails := Specfail ("c07_bucket_is_bucket32", Printf.sprintf "equity %d/%d belongs to bucket %d (bucket32 of the Coq model, C07_bucket32_characterised), the implementation says %s" w n proved b) :: !fails
      end) (split ',' o.(0));
    !fails end);
  register "hist" (fun i o ->
    if o.(0) = "P" then [Specfail ("c07_histogram_aborts", "")] else begin
    let d = deck () in
    let ob = { pocket = n_of_string i.(1); public = n_of_string i.(2) } in
    let fails = ref [] in
    let bucket_of (w, n) = bucket_code (bucket_index (equity_f32 (int_of_n w, int_of_n n))) in
    let show h =
      let total = Stdlib.List.fold_left (fun a (_, c) -> a + int_of_n c) 0 h in
      Printf.sprintf "%d/%s" total (String.concat "+" (Stdlib.List.map (fun (k, c) -> string_of_n k ^ ":" ^ string_of_n c) h)) in
    let disagree = ref false in
    (match Equity.turn_histogram bucket_of d ob with
     | None -> fails := Mismatch "model cannot evaluate" :: !fails; disagree := true
     | Some h -> if show h <> o.(0) then (disagree := true; fails := Mismatch ("histogram " ^ show h) :: !fails));
    (* the definition: the count list of the buckets of the river successors, each from the rule book alone *)
    if !disagree || Hashtbl.hash (i.(1), i.(2)) mod sample_every = 0 then begin
      let h = SpecEquity.hist_of (Stdlib.List.map (fun o' -> bucket_of (SpecEquity.spec_counts d o')) (SpecEquity.river_successors d ob)) in
      if show h <> o.(0) then fails := Specfail ("c07_histogram_counts_river_buckets", "expected " ^ show h) :: !fails
    end;
    Stdlib.List.iteri (fun k s ->
      if s <> o.(0) then fails := Specfail ("c07_histogram_ignores_suits", Printf.sprintf "permutation %d" (5 * k)) :: !fails) (split ',' o.(1));
    !fails end)
