(* h_cfr.ml -- sampled trees of the solver (properties C08 and C10) *)
open Framework
open Conv
open Codec
open Game

let deck () = if directive "deck" "std" = "short" then Short else Standard
let split c s = if s = "" || s = "-" then [] else String.split_on_char c s

type nd = { idx : int; parent : int; inc : string; state : string; turn : string; bkey : string;
            sigma : float; pays : string; oppinv : string; menuw : string;
            mutable kids : int list }

let game_of_state (s : string) : game =
  let st = H_game.parse_state s in
  { seats = Stdlib.List.map (fun x ->
        { st = (match x.H_game.ist with 0 -> Showdown.Betting | 1 -> Showdown.Shoving | _ -> Showdown.Folding);
          stack = z_of_int x.H_game.istack; stake = z_of_int x.H_game.istake; spent = z_of_int x.H_game.ispent; cards = x.H_game.icards })
        st.H_game.iseats;
    pot = z_of_int st.H_game.ipot; board = st.H_game.iboard; dealer = z_of_int st.H_game.idealer; ticker = z_of_int st.H_game.iticker }

let fbits s = Floatq.float_of_f32bits (int_of_string s)
let close a b = Floatq.close ~rel:2e-3 ~abs:2e-3 a b

(* a node below the recalled depth, built by hand: its menu must be the model's menu for its full history *)
let () =
  register "dmenu" (fun i o ->
    let h = Stdlib.List.map H_game.edge_of_tok (split ',' i.(1)) in
    let g = game_of_state o.(0) in
    let impl = Stdlib.List.sort compare (split ',' (if Array.length o > 1 then o.(1) else "")) in
    match Tree.node_menu g h with
    | None -> [Mismatch "model has no menu here"]
    | Some m ->
      let ms = Stdlib.List.sort compare (Stdlib.List.map H_game.tok_of_edge m) in
      if ms = impl then [] else
        [Mismatch ("menu " ^ String.concat "," ms);
         Specfail ("c10_menu_counts_raises_of_the_current_round",
                   Printf.sprintf "after %s the node offers %s; with the raises of the current betting round counted the abstract game offers %s"
                     i.(1) (String.concat "," impl) (String.concat "," ms))])

(* a sampled tree scored under a profile with denormal opponent weights: only the statement about the recorded
   regrets themselves is judged (finite, inside the clamp, no abort); the estimator comparison makes no sense where
   binary32 reaches underflow *)
let () =
  register "utree" (fun _ o ->
    let rmin = Floatq.float_of_q Cfr.regret_min_Q in
    let fails = ref [] in
    Array.iter (fun tok ->
      match String.split_on_char '|' tok with
      | [bk; roots; regs] ->
        if regs = "P" then fails := Specfail ("c09_regret_vector_aborts", Printf.sprintf "information set %s (%s sampled nodes), denormal opponent weights" bk roots) :: !fails
        else Stdlib.List.iter (fun er ->
            match split '=' er with
            | [et; bits] ->
              let v = fbits bits in
              if not (Float.is_finite v && v >= rmin) then
                fails := Specfail ("c09_recorded_regret_finite_and_clamped",
                                   Printf.sprintf "information set %s (%s sampled nodes) action %s: recorded %g (clamp %g)" bk roots et v rmin) :: !fails
            | _ -> ()) (split ',' regs)
      | _ -> ()) o;
    (match !fails with a :: b :: c :: _ -> [a; b; c] | l -> l))

(* scoring an information set of a sampled tree aborted *)
let () =
  register "cfpanic" (fun i _ ->
    [Specfail ("c08_scoring_an_information_set_aborts", "tree " ^ i.(1) ^ ", information set " ^ i.(2));
     Specfail ("c09_regret_vector_aborts", "tree " ^ i.(1) ^ ", information set " ^ i.(2));
     Specfail ("c10_scoring_an_information_set_aborts", "tree " ^ i.(1) ^ ", information set " ^ i.(2))])

let () =
  register "tree" (fun i o ->
    let d = deck () in
    let walker = int_of_string i.(1) in
    let fresh = i.(3) = "1" in
    let fails = ref [] in
    let nm = ref 0 in
    let mism m = incr nm; if !nm <= 6 then fails := Mismatch m :: !fails in
    let ns = ref 0 in
    let spec rule cond detail = if not cond then begin incr ns; if !ns <= 12 then fails := Specfail (rule, detail) :: !fails end in
    (* ---- parse *)
    let nodes = Hashtbl.create 4096 in
    let order = ref [] in
    let infos = ref [] in
    Array.iter (fun tok ->
      if String.length tok > 0 && tok.[0] = 'I' then infos := String.sub tok 1 (String.length tok - 1) :: !infos
      else match String.split_on_char '|' tok with
        | [a; b; c; s; t; bk; sg; py; oi; mw] ->
          let n = { idx = int_of_string a; parent = int_of_string b; inc = c; state = s; turn = t; bkey = bk;
                    sigma = fbits sg; pays = py; oppinv = oi; menuw = mw; kids = [] } in
          Hashtbl.replace nodes n.idx n; order := n.idx :: !order
        | _ -> mism ("unparsable node token " ^ tok)) o;
    let order = Stdlib.List.rev !order in
    Stdlib.List.iter (fun k -> let n = Hashtbl.find nodes k in
                       if n.parent >= 0 then (let p = Hashtbl.find nodes n.parent in p.kids <- p.kids @ [k])) order;
    let rec history k = let n = Hashtbl.find nodes k in
      if n.parent < 0 then [] else history n.parent @ [H_game.edge_of_tok n.inc] in
    let wz = z_of_int walker in
    (* ---- C10: every node is what the models say it is *)
    Stdlib.List.iter (fun k ->
      let n = Hashtbl.find nodes k in
      let g = game_of_state n.state in
      let h = history k in
      let kids = Stdlib.List.map (Hashtbl.find nodes) n.kids in
      (* bucket components *)
      (match String.split_on_char '.' n.bkey with
       | [past; _abs; fut] ->
         (match Tree.bucket_paths g h with
          | Some (p, f) -> if string_of_n p <> past || string_of_n f <> fut then begin
              mism (Printf.sprintf "node %d bucket paths = %s . %s (impl %s . %s)" k (string_of_n p) (string_of_n f) past fut);
              if string_of_n p <> past then
                spec "c10_bucket_recalls_the_first_16_edges" false
                  (Printf.sprintf "node %d (%d edges deep): its bucket recalls the history %s, the first 16 edges of its history pack to %s" k (Stdlib.List.length h) past (string_of_n p));
              if string_of_n p = past then
                spec "c10_menu_counts_raises_of_the_current_round" false
                  (Printf.sprintf "node %d (%d edges deep): its bucket offers the menu %s; with the raises of the current betting round counted the abstract game offers %s" k (Stdlib.List.length h) fut (string_of_n f))
            end
          | None -> mism (Printf.sprintf "node %d: model cannot build the bucket" k))
       | _ -> ());
      let menu = match Tree.node_menu g h with Some m -> m | None -> [] in
      let menu_s = Stdlib.List.sort compare (Stdlib.List.map H_game.tok_of_edge menu) in
      let kid_edges = Stdlib.List.sort compare (Stdlib.List.map (fun c -> c.inc) kids) in
      (match Tree.who_acts g wz with
       | Tree.WTraverser ->
         (* the profile's weights over the menu are a probability distribution (every child is present here) *)
         let tot = Stdlib.List.fold_left (fun a c -> a +. c.sigma) 0.0 kids in
         if kids <> [] then spec "c08_strategy_weights_sum_to_one" (Float.abs (tot -. 1.0) <= 1e-4)
             (Printf.sprintf "node %d: the action probabilities used by the estimator sum to %.6f" k tot);
         spec "c10_traverser_all_actions_once" (kid_edges = menu_s)
           (Printf.sprintf "node %d: children %s, menu %s" k (String.concat "," kid_edges) (String.concat "," menu_s))
       | Tree.WOpponent | Tree.WChance ->
         spec "c10_one_sampled_child" (Stdlib.List.length kids = 1 && Stdlib.List.mem (Stdlib.List.hd kid_edges) menu_s)
           (Printf.sprintf "node %d: children %s, menu %s" k (String.concat "," kid_edges) (String.concat "," menu_s))
       | Tree.WNobody ->
         spec "c10_leaf_is_terminal" (kids = []) (Printf.sprintf "node %d is terminal but has children" k));
      if kids = [] then begin
        spec "c10_leaf_is_terminal" (n.turn = "T") (Printf.sprintf "leaf %d is not the end of a hand (%s)" k n.turn);
        (match split ':' n.pays with
         | [a; b] ->
           let fa = float_of_string a and fb = float_of_string b in
           spec "c10_leaf_zero_sum" (fa +. fb = 0.0) (Printf.sprintf "leaf %d pays %s and %s" k a b);
           (match settlements d g with
            | Some rw ->
              let pnl = Stdlib.List.map2 (fun r s -> int_of_z r - int_of_z s.spent) rw g.seats in
              if pnl <> [int_of_float fa; int_of_float fb] then mism (Printf.sprintf "leaf %d payoffs" k)
            | None -> mism (Printf.sprintf "leaf %d: model cannot settle" k))
         | _ -> spec "c10_leaf_payoff" false (Printf.sprintf "leaf %d has no payoffs" k))
      end;
      (* every child is the parent after the translated action *)
      Stdlib.List.iter (fun c ->
        let e = H_game.edge_of_tok c.inc in
        let cg = game_of_state c.state in
        let dealt = BinNat.N.coq_lxor cg.board g.board in
        (match Tree.child_game d g e dealt with
         | Some g' -> if H_game.state_str g' <> c.state then mism (Printf.sprintf "node %d -> %d by %s: model state %s" k c.idx c.inc (H_game.state_str g'))
         | None -> mism (Printf.sprintf "node %d -> %d by %s: the model rejects the action" k c.idx c.inc));
        let a = match e with EDraw -> Draw dealt | _ -> actionize g e in
        spec "c10_child_by_permitted_action" (match is_allowed d g a with Some true -> true | _ -> false)
          (Printf.sprintf "node %d -> %d by %s" k c.idx c.inc)) kids;
      (* raise cap per betting round *)
      let rec cap hs cur best = match hs with
        | [] -> max cur best
        | EDraw :: r -> cap r 0 (max cur best)
        | ERaise _ :: r -> cap r (cur + 1) best
        | _ :: r -> cap r cur best in
      spec "c10_raise_cap" (cap h 0 0 <= int_of_z GenLib.coq_MAX_RAISE_REPEATS + 1)
        (Printf.sprintf "node %d: %d raises in one betting round" k (cap h 0 0));
      spec "c10_bucket_ignores_opponent_cards" (n.oppinv = "1") (Printf.sprintf "node %d" k);
      (* a newly met information set starts uniform *)
      if fresh && n.menuw <> "-" then begin
        let ws = Stdlib.List.map (fun ew -> match split '=' ew with [_; b] when b <> "P" -> fbits b | _ -> nan) (split ',' n.menuw) in
        let u = 1.0 /. float_of_int (Stdlib.List.length ws) in
        spec "c10_new_infoset_uniform" (Stdlib.List.for_all (fun w -> Float.abs (w -. u) <= 1e-5) ws) (Printf.sprintf "node %d weights %s" k n.menuw)
      end) order;
    (* ---- C10: information sets = traverser's internal nodes grouped by bucket *)
    let seen = Hashtbl.create 64 in
    Stdlib.List.iter (fun it ->
      match String.split_on_char '|' it with
      | bk :: roots :: _ ->
        Stdlib.List.iter (fun r ->
          let n = Hashtbl.find nodes (int_of_string r) in
          spec "c10_infoset_same_bucket" (n.bkey = bk) (Printf.sprintf "node %s in infoset %s has bucket %s" r bk n.bkey);
          spec "c10_infoset_once" (not (Hashtbl.mem seen r)) ("node " ^ r ^ " in two infosets");
          Hashtbl.replace seen r bk) (split ',' roots)
      | _ -> ()) !infos;
    Stdlib.List.iter (fun k ->
      let n = Hashtbl.find nodes k in
      let mine = n.kids <> [] && n.turn = "P" ^ string_of_int walker in
      spec "c10_infosets_cover_traverser_nodes" (mine = Hashtbl.mem seen (string_of_int k)) (Printf.sprintf "node %d" k)) order;
    (* ---- C08: recorded regrets *)
    let bids = Hashtbl.create 64 in
    let bid bk = match Hashtbl.find_opt bids bk with Some x -> x | None -> let x = Hashtbl.length bids in Hashtbl.replace bids bk x; x in
    let ecode tok = match edge_to_u8 (H_game.edge_of_tok tok) with Some c -> c | None -> n_of_int 0 in
    let rec build k : float Cfr.tree =
      let n = Hashtbl.find nodes k in
      let kind = if n.turn = "C" then Cfr.KChance else if n.turn = "P" ^ string_of_int walker then Cfr.KWalker else Cfr.KOpponent in
      let pay = match split ':' n.pays with [a; b] -> float_of_string (if walker = 0 then a else b) | _ -> 0.0 in
      Cfr.T (kind, n_of_int (bid n.bkey), pay,
             Stdlib.List.map (fun c -> let cn = Hashtbl.find nodes c in ((ecode cn.inc, cn.sigma), build c)) n.kids) in
    (match order with
     | [] -> ()
     | root :: _ ->
       let t = build root in
       let model = Cfr.immediate_regrets 0.0 1.0 ( +. ) ( -. ) ( *. ) ( /. ) t in
       let est = Cfr.regret_estimator 0.0 1.0 ( +. ) ( -. ) ( *. ) t in
       let rmin = Floatq.float_of_q Cfr.regret_min_Q in
       let total l b e = Stdlib.List.fold_left (fun acc ((b', e'), g) -> if b' = b && e' = e then acc +. g else acc) 0.0 l in
       Stdlib.List.iter (fun it ->
         match String.split_on_char '|' it with
         | [bk; _roots; regs; _pol] ->
           let b = n_of_int (bid bk) in
           Stdlib.List.iter (fun er ->
             match split '=' er with
             | [et; bits] when et <> "P" ->
               let impl = fbits bits in
               let e = ecode et in
               let m = Float.max rmin (total model b e) and sp = Float.max rmin (total est b e) in
               if not (close m impl) then mism (Printf.sprintf "regret at %s %s: model %g, impl %g" bk et m impl);
               spec "c08_regret_is_external_sampling_estimator" (close sp impl)
                 (Printf.sprintf "infoset %s action %s: recorded %g, estimator %g" bk et impl sp);
               spec "c09_recorded_regret_finite_and_clamped" (Float.is_finite impl && impl >= rmin) (Printf.sprintf "%g" impl)
             | ["P"; _] -> spec "c09_regret_vector_aborts" false bk
             | _ -> ()) (split ',' regs)
         | _ -> ()) !infos);
    !fails)
