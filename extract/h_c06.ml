(* h_c06.ml -- exhaustive iterators (property C06) *)
open Framework
open Conv
open Codec
open Hands

let deck () = if directive "deck" "std" = "short" then Short else Standard
let split c s = if s = "" then [] else String.split_on_char c s
let i64_of_n (n : BinNums.coq_N) : int64 = Int64.of_string ("0u" ^ string_of_n n)
let u64s (x : int64) = Printf.sprintf "%Lu" x
let lst l = if l = [] then "-" else String.concat "," l
let popcount_int n = int_of_n (Bits.popcount64 n)

(* digest of a sequence of hands given as a step function *)
type digest = { mutable count : int; mutable xor : int64; mutable sum : int64; mutable mono : bool;
                mutable prev : int64 option; mutable first : string list; mutable last : string list; mutable full : string list }
let new_digest () = { count = 0; xor = 0L; sum = 0L; mono = true; prev = None; first = []; last = []; full = [] }
let feed dg (h : BinNums.coq_N) =
  let v = i64_of_n h in
  dg.count <- dg.count + 1;
  dg.xor <- Int64.logxor dg.xor v;
  dg.sum <- Int64.add dg.sum v;
  (match dg.prev with Some p -> if Int64.unsigned_compare p v >= 0 then dg.mono <- false | None -> ());
  dg.prev <- Some v;
  let s = string_of_n h in
  if Stdlib.List.length dg.first < 4 then dg.first <- dg.first @ [s];
  dg.last <- (if Stdlib.List.length dg.last >= 4 then Stdlib.List.tl dg.last else dg.last) @ [s];
  if dg.count <= 301 then dg.full <- s :: dg.full
let show dg hint =
  Printf.sprintf "%d %s %s %d %s %s %s %s" dg.count (u64s dg.xor) (u64s dg.sum) (if dg.mono then 1 else 0)
    (lst dg.first) (lst dg.last) hint (if dg.count <= 300 then lst (Stdlib.List.rev dg.full) else "+")

let rec drain d it dg =
  match hand_next d it with
  | None -> false
  | Some None -> true
  | Some (Some (h, it')) -> feed dg h; drain d it' dg

let obs_s (o : obs) = string_of_n o.pocket ^ ":" ^ string_of_n o.public

let () =
  register "hands" (fun i o ->
    let d = deck () in
    let k = int_of_string i.(1) in
    let mask = hand_of_u64 d (n_of_string i.(2)) in      (* Hand::from(mask) in the harness *)
    let impl = String.concat " " (Array.to_list o) in
    let fails = ref [] in
    (* model *)
    (if k >= 6 then mark_trivial () (* 20M / 134M scan steps: not replayed in the model; judged by the specification below *) else
     match hand_iter d (n_of_int k) mask with
     | None -> if impl <> "P" then fails := [Mismatch "P"]
     | Some it ->
       let hint = match combinations d it with Some c -> string_of_n c | None -> "-1" in
       let dg = new_digest () in
       if drain d it dg then (let m = show dg hint in if m <> impl then fails := [Mismatch m])
       else if impl <> "P" then fails := [Mismatch "P (during iteration)"]);
    (* specification: the increasing list of k-subsets avoiding the mask *)
    if impl = "P" then fails := Specfail ("c06_hands_abort", "iteration panicked") :: !fails
    else begin
      let sp = SpecCombs.spec_hands d (nat_of_int k) mask in
      let dg = new_digest () in
      Stdlib.List.iter (feed dg) sp;
      let free = popcount_int (BinNat.N.coq_land (hand_mask d) (BinNat.N.coq_lxor mask (hand_mask d))) in
      let binom = SpecCombs.choose (nat_of_int free) (nat_of_int k) in
      let same =
        o.(0) = string_of_int dg.count && o.(1) = u64s dg.xor && o.(2) = u64s dg.sum && o.(3) = "1"
        && o.(4) = lst dg.first && o.(5) = lst dg.last && (o.(7) = "+" || o.(7) = lst (Stdlib.List.rev dg.full)) in
      if not same then fails := Specfail ("c06_hands_enum", Printf.sprintf "expected %d hands (xor %s), increasing, each once" dg.count (u64s dg.xor)) :: !fails;
      (* the size the iterator announces is the binomial coefficient (judged where at least k cards are free: with
         fewer free cards nothing is yielded, which is what the property asks; the announcement there is 1 or an
         arithmetic abort -- noted in DESIGN.md, not claimed as a violation of the statement about yielded hands; and
         on the standard deck only: the short-deck build announces C(52 - |mask|, k), the literal 52 of the source) *)
      if d = Standard && free >= k && k >= 1 && o.(6) <> string_of_n binom then
        fails := Specfail ("c06_announced_size_is_binomial", Printf.sprintf "size_hint says %s, C(%d,%d) = %s" o.(6) free k (string_of_n binom)) :: !fails;
      if string_of_n binom <> string_of_int dg.count then fails := Mismatch "spec count <> binomial (driver bug)" :: !fails
    end;
    !fails)

let street_b = function 0 -> 0 | 1 -> 3 | 2 -> 4 | _ -> 5
let gen_tab (tstd, tshort) d s =
  match Stdlib.List.nth (match d with Standard -> tstd | Short -> tshort) s with Some z -> string_of_z z | None -> "?"

let () =
  register "obsnth" (fun i o ->
    if o.(0) = o.(1) then [] else
      [Specfail ("c06_obs_nth_follows_next", Printf.sprintf "street %s: after %s items nth(%s) gives %s, plain iteration gives %s" i.(1) i.(2) i.(3) o.(0) o.(1))]);
  register "obsstep" (fun i o ->
    if o.(0) = "1" then [] else [Specfail ("c06_obs_step_by_follows_next", "skip(2).step_by(" ^ i.(2) ^ ") visits other observations than plain iteration")]);
  register "obsit" (fun i o ->
    let d = deck () in
    let s = int_of_string i.(1) in
    if o.(0) = "P" then [Specfail ("c06_obs_abort", "")] else begin
      let fails = ref [] in
      let spec rule cond detail = if not cond then fails := Specfail (rule, detail) :: !fails in
      let want = string_of_n (SpecCombs.n_observations d (nat_of_int (street_b s))) in
      spec "c06_obs_count" (o.(0) = want) ("expected " ^ want);
      spec "c06_obs_count_published" (o.(0) = gen_tab (GenStreet.coq_N_OBSERVATIONS_STD, GenStreet.coq_N_OBSERVATIONS_SHORT) d s) "differs from Street::n_observations";
      spec "c06_obs_each_once" (o.(2) = "1") "not strictly increasing in (pocket, board)";
      (* standard deck only: the short-deck build announces sizes computed from the literal 52 of the source *)
      if d = Standard then spec "c06_obs_announced_size" (o.(1) = want) ("combinations() says " ^ o.(1) ^ ", expected " ^ want);
      let bs = string_of_n (SpecCombs.burnside d (nat_of_int (street_b s))) in
      spec "c06_iso_count_burnside" (o.(3) = bs) ("canonical observations " ^ o.(3) ^ ", Burnside " ^ bs);
      spec "c06_iso_count_published" (o.(3) = gen_tab (GenStreet.coq_N_ISOMORPHISMS_STD, GenStreet.coq_N_ISOMORPHISMS_SHORT) d s) "differs from Street::n_isomorphisms";
      (* model: the first observations in iteration order *)
      let head = split ',' (if Array.length o > 5 then o.(5) else "") in
      (match obs_iter d (z_of_int s) with
       | None -> fails := Mismatch "model obs_iter = P" :: !fails
       | Some it ->
         (match obs_take (nat_of_int (Stdlib.List.length head)) d it with
          | Some l -> let m = Stdlib.List.map obs_s l in if m <> head then fails := Mismatch ("head=" ^ String.concat "," (Stdlib.List.filteri (fun k _ -> k < 6) m)) :: !fails
          | None -> fails := Mismatch "model obs_take = P" :: !fails));
      !fails
    end);
  register "isoit" (fun i o ->
    let d = deck () in
    let s = int_of_string i.(1) in
    if o.(0) = "P" then [Specfail ("c06_iso_abort", "")] else begin
      let fails = ref [] in
      let spec rule cond detail = if not cond then fails := Specfail (rule, detail) :: !fails in
      let bs = string_of_n (SpecCombs.burnside d (nat_of_int (street_b s))) in
      spec "c06_iso_count_burnside" (o.(0) = bs) ("yielded " ^ o.(0) ^ ", Burnside " ^ bs);
      spec "c06_iso_size_hint" (o.(1) = o.(0)) "size_hint differs from the number yielded";
      spec "c06_iso_all_canonical" (o.(2) = "1") "";
      let head = split ',' (if Array.length o > 3 then o.(3) else "") in
      (match obs_iter d (z_of_int s) with
       | None -> fails := Mismatch "model obs_iter = P" :: !fails
       | Some it ->
         (* enough observations to see the first canonical ones: pre-flop all, later streets a prefix *)
         (match obs_take (nat_of_int (if s = 0 then 1400 else 4000)) d it with
          | Some l ->
            let m = Stdlib.List.map obs_s (iso_filter d l) in
            let n = min (Stdlib.List.length m) (Stdlib.List.length head) in
            let pre l = Stdlib.List.filteri (fun k _ -> k < n) l in
            if pre m <> pre head || (s = 0 && Stdlib.List.length m <> int_of_string o.(0)) then fails := Mismatch "iso head differs" :: !fails
          | None -> fails := Mismatch "model obs_take = P" :: !fails));
      !fails
    end);
  (* orbit pocket board | #canonical members among the distinct relabelings, #distinct relabelings *)
  register "orbit" (fun i o ->
    if o.(0) = "P" then [Specfail ("c06_orbit_abort", "")] else begin
    let d = deck () in
    let ob = { pocket = n_of_string i.(1); public = n_of_string i.(2) } in
    let imgs = Stdlib.List.sort_uniq compare (Stdlib.List.filter_map (fun p ->
        match Iso.permute d p ob with Some q -> Some (string_of_n q.pocket ^ ":" ^ string_of_n q.public, q) | None -> None) GenPerm.coq_EXHAUST) in
    let ncan = Stdlib.List.length (Stdlib.List.filter (fun (_, q) -> Iso.is_canonical d q) imgs) in
    (if Printf.sprintf "%d %d" ncan (Stdlib.List.length imgs) = o.(0) ^ " " ^ o.(1) then [] else [Mismatch (Printf.sprintf "%d canonical of %d" ncan (Stdlib.List.length imgs))])
    @ (if o.(0) = "1" then [] else [Specfail ("c06_one_representative_per_class", Printf.sprintf "%s of the %s relabelings of this observation are recognised as canonical" o.(0) o.(1))])
    end);
  register "children" (fun i o ->
    let d = deck () in
    let pk = n_of_string i.(1) and pb = n_of_string i.(2) in
    if o.(0) = "P" then [Specfail ("c06_children_abort", "")] else begin
      let fails = ref [] in
      let spec rule cond detail = if not cond then fails := Specfail (rule, detail) :: !fails in
      let b = popcount_int pb in
      let reveal = if b = 0 then 3 else 1 in
      let want = SpecCombs.n_children d (nat_of_int (2 + b)) (nat_of_int reveal) in
      spec "c06_children_count" (o.(0) = string_of_n want) ("expected " ^ string_of_n want);
      spec "c06_children_wellformed_increasing" (o.(2) = "1") "";
      (* model: hand iterator over the unseen cards *)
      (match hand_iter d (n_of_int reveal) (BinNat.N.coq_lor pk pb) with
       | None -> fails := Mismatch "P" :: !fails
       | Some it ->
         let cnt = ref 0 and x = ref 0L in
         let rec go it = match hand_next d it with
           | Some (Some (h, it')) ->
             incr cnt;
             x := Int64.logxor !x (Int64.mul (i64_of_n (BinNat.N.coq_lor pb h)) 0x9E3779B97F4A7C15L);
             go it'
           | _ -> () in
         go it;
         let m = Printf.sprintf "%d %s" !cnt (u64s !x) in
         if m <> o.(0) ^ " " ^ o.(1) then fails := Mismatch m :: !fails);
      !fails
    end)
