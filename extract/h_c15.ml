(* h_c15.ml -- handlers for the codec streams (property C15). *)
open Framework
open Conv
open Codec

let deck () = if directive "deck" "std" = "short" then Short else Standard

let expect name model impl = if model = impl then [] else [Mismatch (name ^ "=" ^ model)]
let opt f = function Some x -> f x | None -> "PANIC"

let () =
  (* card c | u8 u32 rt32 *)
  register "card" (fun i o ->
    let c = n_of_string i.(1) in
    let m32 = card_to_u32 c in
    let mrt = match m32 with Some code -> card_of_u32 code | None -> None in
    expect "u8" i.(1) o.(0) @ expect "u32" (opt string_of_n m32) o.(1) @ expect "rt32" (opt string_of_n mrt) o.(2)
    @ (if o.(2) <> i.(1) then [Specfail ("card_roundtrip", "decode(encode c) <> c")] else []));
  (* hand n | h *)
  register "hand" (fun i o ->
    let n = n_of_string i.(1) in
    expect "hand" (string_of_n (hand_of_u64 (deck ()) n)) o.(0)
    @ (let h = n_of_string o.(0) in
       if BinNat.N.eqb (hand_of_u64 (deck ()) h) h then [] else [Specfail ("hand_roundtrip", "Hand::from(u64::from(h)) <> h")]));
  (* handvec h | cards back *)
  register "handvec" (fun i o ->
    let h = n_of_string i.(1) in
    let cs = hand_cards h in
    expect "cards" (if cs = [] then "-" else string_of_nlist cs) o.(0)
    @ expect "back" (opt string_of_n (hand_of_cards cs)) o.(1)
    @ (if o.(1) <> i.(1) then [Specfail ("handvec_roundtrip", "Hand::from(Vec::from(h)) <> h")] else []));
  (* obs pk pb | code rtpk rtpb street_of_code street_of_obs *)
  register "obs" (fun i o ->
    let ob = { pocket = n_of_string i.(1); public = n_of_string i.(2) } in
    let code = obs_to_i64 ob in
    let back = obs_of_i64 code in
    expect "code" (string_of_z code) o.(0)
    @ expect "rt" (opt (fun b -> string_of_n b.pocket ^ " " ^ string_of_n b.public) back) (o.(1) ^ " " ^ o.(2))
    @ expect "street_of_code" (opt string_of_z (street_of_obs_code code)) o.(3)
    @ expect "street_of_obs" (opt string_of_z (obs_street ob)) o.(4)
    @ (if o.(1) <> i.(1) || o.(2) <> i.(2) then [Specfail ("obs_roundtrip", "decode(encode o) <> o")] else [])
    @ (if o.(3) <> o.(4) then [Specfail ("obs_street", "street from code <> street of observation")] else []));
  (* action kind arg | code rtkind rtarg *)
  let mk kind arg =
    match kind with
    | "draw" -> Draw (n_of_string arg) | "fold" -> Fold | "check" -> Check
    | "call" -> Call (z_of_string arg) | "raise" -> Raise (z_of_string arg)
    | "shove" -> Shove (z_of_string arg) | "blind" -> Blind (z_of_string arg)
    | _ -> failwith "action kind" in
  let show = function
    | Draw h -> "draw " ^ string_of_n h | Fold -> "fold 0" | Check -> "check 0"
    | Call c -> "call " ^ string_of_z c | Raise c -> "raise " ^ string_of_z c
    | Shove c -> "shove " ^ string_of_z c | Blind c -> "blind " ^ string_of_z c in
  register "action" (fun i o ->
    let a = mk i.(1) i.(2) in
    let code = action_to_u32 a in
    expect "code" (string_of_n code) o.(0)
    @ expect "rt" (opt show (action_of_u32 code)) (o.(1) ^ " " ^ o.(2))
    @ (if o.(1) <> i.(1) || o.(2) <> i.(2) then [Specfail ("action_roundtrip", "decode(encode a) <> a")] else []));
  (* edge kind num den | u8 rt8kind rt8num rt8den u64 rt64kind rt64num rt64den *)
  let mke kind n d =
    match kind with
    | "draw" -> EDraw | "fold" -> EFold | "check" -> ECheck | "call" -> ECall | "shove" -> EShove
    | "raise" -> ERaise (z_of_string n, z_of_string d) | _ -> failwith "edge kind" in
  let showe = function
    | EDraw -> "draw 0 0" | EFold -> "fold 0 0" | ECheck -> "check 0 0" | ECall -> "call 0 0" | EShove -> "shove 0 0"
    | ERaise (n, d) -> "raise " ^ string_of_z n ^ " " ^ string_of_z d in
  register "edge" (fun i o ->
    let e = mke i.(1) i.(2) i.(3) in
    let c8 = edge_to_u8 e in
    let c64 = edge_to_u64 e in
    let me = i.(1) ^ " " ^ i.(2) ^ " " ^ i.(3) in
    expect "u8" (opt string_of_n c8) o.(0)
    @ expect "rt8" (match c8 with Some c -> opt showe (edge_of_u8 c) | None -> "PANIC") (o.(1) ^ " " ^ o.(2) ^ " " ^ o.(3))
    @ expect "u64" (string_of_n c64) o.(4)
    @ expect "rt64" (opt showe (edge_of_u64 c64)) (o.(5) ^ " " ^ o.(6) ^ " " ^ o.(7))
    @ (if (o.(1) ^ " " ^ o.(2) ^ " " ^ o.(3)) <> me then [Specfail ("edge_u8_roundtrip", "")] else [])
    @ (if (o.(5) ^ " " ^ o.(6) ^ " " ^ o.(7)) <> me then [Specfail ("edge_u64_roundtrip", "")] else []));
  (* path codes | packed rtcodes *)
  register "path" (fun i o ->
    let codes = nlist_of_string i.(1) in
    let edges = Stdlib.List.map (fun c -> match edge_of_u8 c with Some e -> e | None -> failwith "bad edge code") codes in
    let packed = path_pack edges in
    let back = match packed with Some p -> path_unpack p | None -> None in
    let back8 = match back with
      | Some es -> Some (Stdlib.List.map (fun e -> match edge_to_u8 e with Some c -> c | None -> failwith "enc") es)
      | None -> None in
    expect "packed" (opt string_of_n packed) o.(0)
    @ expect "rt" (opt (fun l -> if l = [] then "-" else string_of_nlist l) back8) o.(1)
    @ (if o.(1) <> i.(1) then [Specfail ("path_roundtrip", "unpack(pack es) <> es")] else [])
    @ (if Array.length o > 2 && o.(2) <> i.(1) then [Specfail ("path_roundtrip_i64", "the path does not come back from its signed 64-bit form: " ^ o.(2))] else []));
  (* abs street index | code variant rtcode rtvariant street index *)
  let showv = function Percent -> "percent" | Learned -> "learned" | Preflop -> "preflop" in
  register "abs" (fun i o ->
    let s = n_of_string i.(1) and ix = n_of_string i.(2) in
    let a = abs_make s ix in
    match a with
    | None -> expect "abs" "PANIC" o.(0)
    | Some a ->
      let code = abs_to_u64 a in
      let back = abs_of_i64 (abs_to_i64 a) in
      expect "code" (string_of_n code) o.(0)
      @ expect "variant" (showv a.avariant) o.(1)
      @ expect "rt" (opt (fun b -> string_of_n b.abits ^ " " ^ showv b.avariant) back) (o.(2) ^ " " ^ o.(3))
      @ expect "street" (opt string_of_n (abs_street a)) o.(4)
      @ expect "index" (string_of_n (abs_index a)) o.(5)
      @ (if o.(2) <> o.(0) || o.(3) <> o.(1) then [Specfail ("abs_roundtrip", "")] else [])
      @ (if o.(4) <> i.(1) then [Specfail ("abs_street", "street not recovered from code")] else [])
      @ (if o.(5) <> i.(2) then [Specfail ("abs_index", "index not recovered from code")] else []));
  (* pair street i j | key    -- key collisions are detected over the whole stream *)
  let seen : (string, string) Hashtbl.t = Hashtbl.create 50000 in
  let dups = ref [] in
  register "pair" (fun i o ->
    let s = n_of_string i.(1) in
    let code x = match abs_make s (n_of_string x) with Some a -> a.abits | None -> failwith "abs" in
    let key = pair_key (code i.(2)) (code i.(3)) in
    let me = i.(1) ^ ":" ^ i.(2) ^ "," ^ i.(3) in
    (match Hashtbl.find_opt seen o.(0) with
     | Some other -> dups := (me ^ " collides with " ^ other ^ " on key " ^ o.(0)) :: !dups
     | None -> Hashtbl.replace seen o.(0) me);
    expect "key" (string_of_z (Bits.i64_of_u64 key)) o.(0)
    @ (if o.(0) = "0" then [Specfail ("pair_key_zero", me)] else []));
  at_finish (fun () -> Stdlib.List.map (fun d -> Specfail ("pair_key_collision", d)) !dups)
