(* driver.ml -- entry point: driver [file]   (reads stdin when no file is given) *)
let () =
  let ic = if Array.length Sys.argv > 1 then open_in Sys.argv.(1) else stdin in
  Framework.run ic
