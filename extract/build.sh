#!/bin/sh
# builds extract/driver from the extracted modules in extract/gen and the hand-written glue
set -e
cd "$(dirname "$0")"
rm -rf _build && mkdir -p _build
cp gen/*.ml gen/*.mli conv.ml floatq.ml framework.ml h_*.ml _build/
cd _build
ORDER=$(ocamlfind ocamldep -sort *.mli *.ml)
cp ../driver.ml .
rm -f ../driver
ocamlfind ocamlopt -O3 -w -a -o ../driver $ORDER driver.ml 2>&1 | grep -v "options -O3" || true
test -x ../driver
