(* h_c04.ml -- showdown ledgers (property C04) *)
open Framework
open Conv
open Showdown

let split c s = if s = "" then [] else String.split_on_char c s
let status_of = function "0" -> Betting | "1" -> Shoving | _ -> Folding

let () =
  register "sd" (fun i o ->
    let risked = Stdlib.List.map z_of_string (split ',' i.(1)) in
    let status = Stdlib.List.map status_of (split ',' i.(2)) in
    let level = Stdlib.List.map n_of_string (split ',' i.(3)) in
    let ledger = Stdlib.List.map2 (fun (r, s) k -> { reward = BinNums.Z0; risked = r; status = s; skey = k })
                   (Stdlib.List.combine risked status) level in
    let m = match settle ledger with Some rw -> String.concat "," (Stdlib.List.map string_of_z rw) | None -> "P" in
    (if m = o.(0) then [] else [Mismatch m])
    @ (if not (SpecPots.wf_ledger ledger) then (mark_trivial (); [])
       else if o.(0) = "P" then [Specfail ("c04_settle_aborts", "a well-formed ledger made settle() panic")]
       else
         let rw = Stdlib.List.map z_of_string (split ',' o.(0)) in
         if SpecPots.payout_ok ledger rw then [] else
           [Specfail ("c04_payout", "payout violates the layered-pot specification; fair shares = " ^
              String.concat "," (Stdlib.List.map (fun q -> string_of_z q.QArith_base.coq_Qnum ^ "/" ^ string_of_pos q.QArith_base.coq_Qden) (SpecPots.fair_share ledger)))]))
