(* h_c14.ml -- Deck::draw frequencies (property C14) *)
open Framework
open Conv

let split c s = if s = "" || s = "-" then [] else String.split_on_char c s
(* upper quantile of chi-square with df degrees of freedom at z standard deviations (Wilson-Hilferty) *)
let chi2_bound (df : float) (z : float) : float =
  let a = 2.0 /. (9.0 *. df) in df *. ((1.0 -. a +. z *. sqrt a) ** 3.0)

let () =
  register "draw" (fun i o ->
    let mask = n_of_string i.(1) in
    let draws = int_of_string i.(2) in
    let counts = Array.of_list (Stdlib.List.map int_of_string (split ',' o.(0))) in
    let cards = Stdlib.List.map int_of_n (Codec.hand_cards mask) in
    let n = Stdlib.List.length cards in
    let fails = ref [] in
    let spec rule cond detail = if not cond then fails := Specfail (rule, detail) :: !fails in
    (* model: with a uniform index, card c comes with probability #{i : draw_at d i = c} / n *)
    let hits = Array.make 64 0 in
    for k = 0 to n - 1 do
      let c = int_of_n (Deck.draw_at mask (n_of_int k)) in
      hits.(c) <- hits.(c) + 1
    done;
    (* correspondence: observed frequencies against the model's law (chi-square, 6.5 sigma) *)
    let chi = ref 0.0 and off_support = ref false in
    Array.iteri (fun c obs ->
      let e = float_of_int (hits.(c) * draws) /. float_of_int n in
      if hits.(c) = 0 then (if obs > 0 then off_support := true)
      else chi := !chi +. ((float_of_int obs -. e) ** 2.0) /. e) counts;
    let df = float_of_int (max 1 (Array.fold_left (fun a h -> if h > 0 then a + 1 else a) 0 hits - 1)) in
    if !off_support || (n > 1 && !chi > chi2_bound df 6.5) then
      fails := Mismatch (Printf.sprintf "frequencies do not follow the model's law (chi2 %.1f, df %.0f)" !chi df) :: !fails;
    (* specification: every remaining card equally likely; only remaining cards; the card is removed *)
    let e = float_of_int draws /. float_of_int n in
    let chi_u = ref 0.0 in
    Array.iteri (fun c obs ->
      if Stdlib.List.mem c cards then begin
        chi_u := !chi_u +. ((float_of_int obs -. e) ** 2.0) /. e;
        spec "c14_every_card_can_be_drawn" (obs > 0) (Printf.sprintf "card %d never drawn in %d draws from %d cards" c draws n)
      end else spec "c14_only_remaining_cards" (obs = 0) (Printf.sprintf "card %d drawn but not in the deck" c)) counts;
    if n > 1 then spec "c14_uniform" (!chi_u <= chi2_bound (float_of_int (n - 1)) 6.5)
        (Printf.sprintf "chi2 %.1f over %d cards, %d draws (bound %.1f)" !chi_u n draws (chi2_bound (float_of_int (n - 1)) 6.5));
    spec "c14_drawn_card_removed" (o.(1) = "1") "";
    !fails);
  register "dealt" (fun _ _ -> [Specfail ("c14_dealt_cards_overlap", "hole cards / streets dealt from one deck overlap")]);
  (* consecutive hands: the second is dealt from a full deck, so it shares a card with the first with probability
     1 - C(48,4)/C(52,4) (standard deck) resp. 1 - C(32,4)/C(36,4) (short deck); 6.5 sigma *)
  register "redeal" (fun i o ->
    if o.(0) = "P" then [Specfail ("c14_redeal_aborts", "")] else begin
    let n = float_of_string i.(1) and k = float_of_string o.(0) in
    let ds = if directive "deck" "std" = "short" then 36.0 else 52.0 in
    let c4 x = x *. (x -. 1.) *. (x -. 2.) *. (x -. 3.) /. 24.0 in
    let p = 1.0 -. c4 (ds -. 4.0) /. c4 ds in
    let sd = sqrt (n *. p *. (1.0 -. p)) in
    (if Float.abs (k -. n *. p) <= 6.5 *. sd then [] else
       [Specfail ("c14_next_hand_dealt_from_a_full_deck", Printf.sprintf "%s of %s consecutive hands share a card with the hand before (expected %.0f +- %.0f)" o.(0) i.(1) (n *. p) sd)])
    @ (if int_of_string o.(1) = int_of_float ds then [] else [Specfail ("c14_every_card_can_be_dealt", o.(1) ^ " different cards seen in the hole cards of " ^ i.(1) ^ " hands")])
    end);
  (* 48 fresh threads each draw one card from a full deck: with independent generators about 31 different cards are
     seen (fewer than 12 has probability below 1e-12) *)
  register "threadfirst" (fun i o ->
    if int_of_string o.(0) >= 12 then [] else
      [Specfail ("c14_threads_draw_independently", Printf.sprintf "the first cards drawn by %s fresh threads take only %s different values" i.(1) o.(0))]);
  (* a random observation: its highest card is private with probability 2/(2+b), b board cards; 6.5 sigma *)
  register "randobs" (fun i o ->
    if o.(0) = "P" then [Specfail ("c14_random_observation_aborts", i.(1))] else begin
    let b = float_of_int (match int_of_string i.(1) with 1 -> 3 | 2 -> 4 | _ -> 5) in
    let n = float_of_string i.(2) and k = float_of_string o.(0) in
    let p = 2.0 /. (2.0 +. b) in
    let sd = sqrt (n *. p *. (1.0 -. p)) in
    if Float.abs (k -. n *. p) <= 6.5 *. sd then [] else
      [Specfail ("c14_random_observation_deals_uniformly", Printf.sprintf "street %s: the highest card of the observation is private in %s of %s samples (expected %.0f +- %.0f)" i.(1) o.(0) i.(2) (n *. p) sd)]
    end);
  register "dealtsummary" (fun _ o -> if o.(0) = "0" then [] else [Specfail ("c14_dealt_cards_overlap", o.(0) ^ " hands")])
