(* h_c12.ml -- earth mover's distances (property C12): model replay; the exact-transport oracle runs in bin/ot_oracle.py *)
open Framework
open Conv
open Floatq

let split c s = if s = "" || s = "-" then [] else String.split_on_char c s
let r32 (x : float) : float = Int32.float_of_bits (Int32.bits_of_float x)
let fb s = float_of_f32bits (int_of_string s)
let hist_of (s : string) : (int * int) list =
  Stdlib.List.map (fun kc -> match split ':' kc with [k; c] -> (int_of_string k, int_of_string c) | _ -> failwith "hist") (split '+' s)
(* histograms and potentials are BTreeMaps keyed by Abstraction: iteration follows the bucket CODE (street tag,
   hash bits, index), not the index *)
let code_of street k = match Codec.abs_make (n_of_int street) (n_of_int k) with Some a -> string_of_n a.Codec.abits | None -> "" 
let dens ?(street = 2) (h : (int * int) list) : (BinNums.coq_N * float) list =
  let m = Stdlib.List.fold_left (fun a (_, c) -> a + c) 0 h in
  let pad s = String.make (24 - String.length s) '0' ^ s in
  let sorted = Stdlib.List.sort (fun (a, _) (b, _) -> compare (pad (code_of street a)) (pad (code_of street b))) h in
  Stdlib.List.map (fun (k, c) -> (n_of_int k, r32 (float_of_int c /. float_of_int m))) sorted
let temperature = r32 (float_of_q (match GenLib.coq_SINKHORN_TEMPERATURE with GenLib.FQ q -> q | _ -> failwith "temp"))
let tolerance = r32 (float_of_q (match GenLib.coq_SINKHORN_TOLERANCE with GenLib.FQ q -> q | _ -> failwith "tol"))
let minpos = Int32.float_of_bits 0x00800000l
let add a b = r32 (a +. b) and sub a b = r32 (a -. b) and mul a b = r32 (a *. b) and div a b = r32 (a /. b)
let fexp x = r32 (exp x) and fln x = r32 (log x)
let float_of_int_nat (n : Datatypes.nat) : float = float_of_int (int_of_nat n)

let () =
  register "sk" (fun i o ->
    if o.(0) = "P" then [Specfail ("c12_sinkhorn_aborts", "")] else begin
    let mu = hist_of i.(1) and nu = hist_of i.(2) in
    let tbl = Hashtbl.create 256 in
    Stdlib.List.iter (fun e -> match split ':' e with
      | [a; b; d] -> Hashtbl.replace tbl (int_of_string a, int_of_string b) (fb d); Hashtbl.replace tbl (int_of_string b, int_of_string a) (fb d)
      | _ -> ()) (split ',' i.(3));
    let dist x y = let a = int_of_n x and b = int_of_n y in if a = b then 0.0 else (try Hashtbl.find tbl (a, b) with Not_found -> nan) in
    let fails = ref [] in
    let spec rule cond detail = if not cond then fails := Specfail (rule, detail) :: !fails in
    let cost_impl = fb o.(0) in
    (* model: the same iteration in binary32 (libm exp / ln emulated by rounding the double-precision results) *)
    let m = Emd.sinkhorn_emd 0.0 add sub mul div fexp fln Float.abs (fun a b -> a < b) (fun a b -> a <= b)
        temperature tolerance minpos float_of_int_nat dist (dens mu) (dens nu) in
    if not (close ~rel:2e-3 ~abs:2e-4 m cost_impl) then fails := Mismatch (Printf.sprintf "sinkhorn cost %g (impl %g)" m cost_impl) :: !fails;
    let gm = Emd.greedy 0.0 sub (fun a b -> a < b) (fun a b -> a <= b) dist (nat_of_int 400) (dens mu) (dens nu) [] in
    let gcost = Stdlib.List.fold_left (fun a (((_, _), mass), dd) -> a +. mass *. dd) 0.0 gm in
    if not (close ~rel:1e-4 ~abs:1e-5 gcost (fb o.(4))) then fails := Mismatch (Printf.sprintf "greedy cost %g (impl %g)" gcost (fb o.(4))) :: !fails;
    (* plan: non-negative, total mass one, columns = target *)
    let rows = Stdlib.List.map float_of_string (split ',' o.(1)) and cols = Stdlib.List.map float_of_string (split ',' o.(2)) in
    spec "c12_plan_nonnegative" (fb o.(3) >= 0.0) o.(3);
    let total = Stdlib.List.fold_left ( +. ) 0.0 cols in
    spec "c12_plan_total_mass" (Float.abs (total -. 1.0) <= 2e-3) (Printf.sprintf "%.6f" total);
    let mass_nu = float_of_int (Stdlib.List.fold_left (fun a (_, c) -> a + c) 0 nu) in
    Stdlib.List.iter2 (fun c (_, cnt) -> let d = float_of_int cnt /. mass_nu in
                        spec "c12_plan_columns_are_target" (Float.abs (c -. d) <= 2e-3) (Printf.sprintf "column %.6f, target %.6f" c d)) cols nu;
    ignore rows;
    !fails end)

let () =
  register "var" (fun i o ->
    let full h = (* density over the 101 equity buckets *)
      let hh = hist_of h in
      let m = Stdlib.List.fold_left (fun a (_, c) -> a + c) 0 hh in
      Stdlib.List.init 101 (fun k -> match Stdlib.List.assoc_opt k hh with Some c -> r32 (float_of_int c /. float_of_int m) | None -> r32 (0.0 /. float_of_int m)) in
    let x = full i.(1) and y = full i.(2) and z = full i.(3) in
    let var a b = Emd.variation 0.0 add sub div Float.abs (fun n -> float_of_int (int_of_nat n)) a b in
    let fails = ref [] in
    let spec rule cond detail = if not cond then fails := Specfail (rule, detail) :: !fails in
    let vxy = fb o.(0) and vyx = fb o.(1) and vxz = fb o.(2) and vzy = fb o.(3) and vxx = fb o.(4) in
    if Printf.sprintf "%lu" (Int32.bits_of_float (var x y)) <> o.(0) then fails := Mismatch (Printf.sprintf "variation %g (impl %g)" (var x y) vxy) :: !fails;
    (* exact one-dimensional Wasserstein distance on the grid k/100: (1/100) sum_{k<100} |F(k) - G(k)|, times 100/101 *)
    let exact a b =
      let ha = hist_of a and hb = hist_of b in
      let ma = float_of_int (Stdlib.List.fold_left (fun s (_, c) -> s + c) 0 ha) and mb = float_of_int (Stdlib.List.fold_left (fun s (_, c) -> s + c) 0 hb) in
      let ca = ref 0.0 and cb = ref 0.0 and acc = ref 0.0 in
      for k = 0 to 99 do
        (match Stdlib.List.assoc_opt k ha with Some c -> ca := !ca +. float_of_int c /. ma | None -> ());
        (match Stdlib.List.assoc_opt k hb with Some c -> cb := !cb +. float_of_int c /. mb | None -> ());
        acc := !acc +. Float.abs (!ca -. !cb)
      done;
      !acc /. 100.0 *. (100.0 /. 101.0) in
    spec "c12_variation_is_wasserstein" (Float.abs (vxy -. exact i.(1) i.(2)) <= 2e-5) (Printf.sprintf "%g vs %g" vxy (exact i.(1) i.(2)));
    spec "c12_variation_symmetric" (o.(0) = o.(1)) "";
    spec "c12_variation_nonnegative" (vxy >= 0.0) "";
    spec "c12_variation_self_zero" (vxx = 0.0) "";
    let same = exact i.(1) i.(2) <= 1e-12 in
    spec "c12_variation_zero_iff_equal" ((vxy <= 1e-7) = same) (Printf.sprintf "variation %g, exact %g" vxy (exact i.(1) i.(2)));
    spec "c12_variation_triangle" (vxy <= vxz +. vzy +. 1e-5) (Printf.sprintf "%g > %g + %g" vxy vxz vzy);
    !fails)
