(* h_c01.ml -- handlers for the evaluator streams (property C01). *)
open Framework
open Conv
open Codec
open Evaluator

let deck () = if directive "deck" "std" = "short" then Short else Standard

let cat_name = function
  | GenCards.HighCard -> "HighCard" | GenCards.OnePair -> "OnePair" | GenCards.TwoPair -> "TwoPair"
  | GenCards.ThreeOAK -> "ThreeOAK" | GenCards.Straight -> "Straight" | GenCards.FullHouse -> "FullHouse"
  | GenCards.Flush -> "Flush" | GenCards.FourOAK -> "FourOAK" | GenCards.StraightFlush -> "StraightFlush"
  | GenCards.RMAX -> "RMAX"
let cat_of_name = function
  | "HighCard" -> GenCards.HighCard | "OnePair" -> GenCards.OnePair | "TwoPair" -> GenCards.TwoPair
  | "ThreeOAK" -> GenCards.ThreeOAK | "Straight" -> GenCards.Straight | "FullHouse" -> GenCards.FullHouse
  | "Flush" -> GenCards.Flush | "FourOAK" -> GenCards.FourOAK | "StraightFlush" -> GenCards.StraightFlush
  | "RMAX" -> GenCards.RMAX | s -> failwith ("category " ^ s)

let show_strength (s : strength) =
  Printf.sprintf "%s %s %s %s" (cat_name s.svalue.rcat) (string_of_n s.svalue.r1) (string_of_n s.svalue.r2) (string_of_n s.skicks)
let show_cmp = function Datatypes.Lt -> "lt" | Datatypes.Eq -> "eq" | Datatypes.Gt -> "gt"

let () =
  (* str h | cat r1 r2 kicks *)
  register "str" (fun i o ->
    let d = deck () in
    let h = hand_of_u64 d (n_of_string i.(1)) in
    let m = strength_of d h in
    let ms = match m with Some s -> show_strength s | None -> "PANIC 0 0 0" in
    let impl = String.concat " " (Array.to_list o) in
    (if ms = impl then [] else [Mismatch ms])
    @ (if o.(0) = "PANIC" then [Specfail ("evaluator_panic", "evaluating a 5..7 card hand aborted")] else
       let s = { svalue = { rcat = cat_of_name o.(0); r1 = n_of_string o.(1); r2 = n_of_string o.(2) }; skicks = n_of_string o.(3) } in
       let v = SpecStrength.strength_value d s in
       let b = SpecPoker.best5 d (hand_cards h) in
       if BinNat.N.eqb v b then [] else
         [Specfail ("strength_is_best5", Printf.sprintf "strength denotes %s, best five-card value is %s" (string_of_n v) (string_of_n b))]));
  (* cmp h1 h2 | ord *)
  register "cmp" (fun i o ->
    let d = deck () in
    let a = hand_of_u64 d (n_of_string i.(1)) and b = hand_of_u64 d (n_of_string i.(2)) in
    let m = match strength_of d a, strength_of d b with
      | Some x, Some y -> show_cmp (cmp_strength d x y) | _, _ -> "PANIC" in
    let spec = show_cmp (SpecPoker.cmp_spec d (hand_cards a) (hand_cards b)) in
    (if m = o.(0) then [] else [Mismatch m])
    @ (if spec = o.(0) then [] else [Specfail ("order_is_poker_ranking", "rule-book comparison says " ^ spec)]))
