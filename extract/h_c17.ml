(* h_c17.ml -- table files (properties C17, C18) *)
open Framework
open Conv
open Pgcopy

let split c s = if s = "" || s = "-" then [] else String.split_on_char c s
let bytes_of_hex (h : string) : BinNums.coq_N list =
  if h = "-" then [] else
  Stdlib.List.init (String.length h / 2) (fun i -> n_of_int (int_of_string ("0x" ^ String.sub h (2 * i) 2)))
let rows_of (s : string) : BinNums.coq_N list list =
  Stdlib.List.map (fun r -> Stdlib.List.map n_of_string (split ':' r)) (split ',' s)
let show_rows (rs : BinNums.coq_N list list) : string =
  if rs = [] then "-" else String.concat "," (Stdlib.List.map (fun r -> String.concat ":" (Stdlib.List.map string_of_n r)) rs)

type kind = { layout : layout; decode : BinNums.coq_N list -> kv option; encode : kv -> BinNums.coq_N list;
              cols : GenTables.pgtype list; wfields : string list; ccols : string list;
              to_row : BinNums.coq_N list -> BinNums.coq_N list (* harness row -> file row *) }
let col_name = function
  | GenTables.Col_past -> "past" | GenTables.Col_present -> "present" | GenTables.Col_future -> "future"
  | GenTables.Col_edge -> "edge" | GenTables.Col_regret -> "regret" | GenTables.Col_policy -> "policy"
  | GenTables.Col_xor -> "xor" | GenTables.Col_dx -> "dx" | GenTables.Col_obs -> "obs" | GenTables.Col_abs -> "abs"
  | GenTables.Col_prev -> "prev" | GenTables.Col_next -> "next" | GenTables.Col_position -> "position"
let strs l = Stdlib.List.map col_name l

let kinds = [
  "profile", { layout = profile_layout; decode = profile_decode; encode = profile_encode;
               cols = GenTables.coq_PROFILE_COLUMN_TYPES; wfields = strs GenTables.coq_PROFILE_WRITER_FIELDS; ccols = strs GenTables.coq_PROFILE_COPY_COLUMNS;
               to_row = (fun r -> r) };
  "metric", { layout = metric_layout; decode = metric_decode; encode = metric_encode;
              cols = GenTables.coq_METRIC_COLUMN_TYPES; wfields = strs GenTables.coq_METRIC_WRITER_FIELDS; ccols = strs GenTables.coq_METRIC_COPY_COLUMNS;
              to_row = (fun r -> r) };
  "lookup", { layout = lookup_layout; decode = lookup_decode; encode = lookup_encode;
              cols = GenTables.coq_LOOKUP_COLUMN_TYPES; wfields = strs GenTables.coq_LOOKUP_WRITER_FIELDS; ccols = strs GenTables.coq_LOOKUP_COPY_COLUMNS;
              (* the harness prints pocket:public:abs ; the file row is obs-code:abs *)
              to_row = (fun r -> match r with
                | [pk; pb; a] -> [Bits.u64_of_i64 (Codec.obs_to_i64 { Codec.pocket = pk; Codec.public = pb }); a]
                | _ -> r) };
]

(* a metric of the real size C(k,2) of a street must be written to, and come back from, that street's file *)
let () =
  register "mstreet" (fun i o ->
    (if o.(0) = i.(1) then [] else
       [Specfail ("c17_metric_file_of_its_street", Printf.sprintf "a metric of %s entries (street %s) was written to the file of street %s" i.(2) i.(1) o.(0))])
    @ (if o.(1) = "1" then [] else
         [Specfail ("c17_metric_loads_from_its_street", Printf.sprintf "a metric of %s entries saved; Metric::load(street %s) %s" i.(2) i.(1)
                      (if o.(1) = "P" then "fails" else "returns something else"))])
    @ (if Array.length o < 3 || o.(2) = "-" then [] else begin
        let bad = ref [] in
        String.iteri (fun k ch -> if ch <> 'E' && ch <> 'S' && !bad = [] then
            bad := [Specfail ("c18_truncated_file_loaded", Printf.sprintf "the full-size metric of street %s (%s entries) cut %d bytes before its end loads silently with different content" i.(1) i.(2) (48 - k))]) o.(2);
        !bad end))

let () =
  register "pg" (fun i o ->
    let fails = ref [] in
    let mism name m impl = if m <> impl then fails := Mismatch (name ^ "=" ^ (if String.length m > 300 then String.sub m 0 300 else m)) :: !fails in
    let spec rule cond detail = if not cond then fails := Specfail (rule, detail) :: !fails in
    let bytes = bytes_of_hex o.(0) in
    let nbytes = Stdlib.List.length bytes in
    let cuts = o.(2) in
    if i.(1) = "crashsave" then begin
      (* C18: the save of a new table died after n bytes while overwriting an older file *)
      String.iteri (fun n ch ->
        if ch <> '.' then
          spec "c18_truncated_file_loaded" (ch = 'E' || ch = 'S')
            (Printf.sprintf "%s: a save that died after %d bytes over an existing file left something that loads without complaint and is not the table being saved" i.(2) n)) cuts;
      (match !fails with a :: b :: _ -> [a; b] | l -> l)
    end else
    if i.(1) = "encoder" then begin
      (* C18: one of the four street lookups cut short, the four loaded together through Encoder::load *)
      if o.(1) <> "ok" then fails := Mismatch "the complete lookup files failed to load through Encoder::load" :: !fails;
      String.iteri (fun n ch ->
        spec "c18_truncated_file_loaded" (ch = 'E' || ch = 'S')
          (Printf.sprintf "street-%s lookup cut at byte %d of %d: Encoder::load returned a table with rows missing" i.(2) n nbytes)) cuts;
      (match !fails with a :: b :: _ -> [a; b] | l -> l)
    end else
    if i.(1) = "transitions" then begin
      (* C18 only: every strict prefix must fail *)
      if o.(1) <> "ok" then fails := Mismatch "complete transitions file failed to load in the implementation" :: !fails;
      String.iteri (fun n ch ->
        if ch <> '.' then begin
          let m = match load_transitions_rows (Stdlib.List.filteri (fun k _ -> k < n) bytes) with LError -> 'E' | LOk _ -> 'D' in
          if m <> ch && not (m = 'D' && ch = 'S') then fails := Mismatch (Printf.sprintf "cut %d -> %c" n m) :: !fails;
          spec "c18_truncated_file_loaded" (ch = 'E' || ch = 'S') (Printf.sprintf "transitions cut at byte %d of %d loaded silently" n nbytes)
        end) cuts;
      !fails
    end else begin
      if Array.length o > 3 && o.(3) = "0" then
        spec "c17_loaded_table_equals_saved" false "the loaded table encodes to the same integers as the saved one but is not equal to it as a value";
      let k = Stdlib.List.assoc i.(1) kinds in
      let saved_rows = Stdlib.List.map k.to_row (rows_of i.(2)) in
      (* the table as the implementation iterates it; its order must be the model's key order *)
      let table = Stdlib.List.fold_left (fun acc r -> match acc, k.decode r with
          | Some t, Some (key, v) -> Some (t @ [(key, v)]) | _, _ -> None) (Some []) saved_rows in
      (match table with
       | None -> fails := Mismatch "model cannot decode a saved row" :: !fails
       | Some t ->
         let rebuilt = Stdlib.List.fold_left (fun acc (key, v) -> insert_kv key v acc) [] t in
         if rebuilt <> t then fails := Mismatch "table order differs from the model's key order" :: !fails;
         let mb = save_bytes k.layout (Stdlib.List.map k.encode t) in
         if mb <> bytes then fails := Mismatch "save bytes differ" :: !fails;
         (* load of the complete file *)
         let ml = match load_with k.layout k.decode bytes with
           | LOk t' -> show_rows (Stdlib.List.map (fun e -> k.encode e) t') | LError -> "P" in
         let impl_loaded = if o.(1) = "P" then "P" else show_rows (Stdlib.List.map k.to_row (rows_of o.(1))) in
         mism "load" ml impl_loaded;
         (* prefixes *)
         String.iteri (fun n ch ->
           if ch <> '.' then begin
             let m = match load_with k.layout k.decode (Stdlib.List.filteri (fun j _ -> j < n) bytes) with
               | LError -> 'E' | LOk t' -> if t' = t then 'S' else 'D' in
             if m <> ch then fails := Mismatch (Printf.sprintf "cut %d -> %c" n m) :: !fails
           end) cuts);
      (* C17: round trip, grammar, declared types, column order *)
      spec "c17_roundtrip" (o.(1) = i.(2)) "load(save(t)) differs from t";
      (match SpecPgcopy.pg_parse bytes with
       | None -> spec "c17_copy_grammar" false "the file is not a well-formed binary COPY stream"
       | Some tuples ->
         spec "c17_row_count" (Stdlib.List.length tuples = Stdlib.List.length saved_rows) "";
         spec "c17_declared_types" (Stdlib.List.for_all (SpecPgcopy.typed_ok k.cols) tuples) "a field does not have its column's declared width";
         (* the values read through the COPY column list are the values those names denote *)
         if Stdlib.List.length tuples = Stdlib.List.length saved_rows then begin
           let denoted = Stdlib.List.map2 (fun tu row ->
               Stdlib.List.length tu = Stdlib.List.length row && Stdlib.List.for_all2 (fun (_, data) v -> be_value data = v) tu row) tuples saved_rows in
           spec "c17_field_values" (Stdlib.List.for_all (fun b -> b) denoted) ""
         end);
      spec "c17_column_order" (k.wfields = k.ccols)
        (Printf.sprintf "written: %s ; COPY list: %s" (String.concat "," k.wfields) (String.concat "," k.ccols));
      (* C18 *)
      String.iteri (fun n ch ->
        spec "c18_truncated_file_loaded" (ch = 'E' || ch = 'S' || ch = '.')
          (Printf.sprintf "%s cut at byte %d of %d loaded silently with different content" i.(1) n nbytes)) cuts;
      !fails
    end)
