(* floatq.ml -- exact conversion of IEEE binary32 bit patterns to Coq rationals, and back to OCaml
   floats for tolerance comparisons (trusted glue). *)
open BinNums
open Conv

(* finite binary32 -> exact (numerator, power-of-two denominator) *)
let q_of_f32bits (b : int) : QArith_base.coq_Q =
  let sign = (b lsr 31) land 1 and e = (b lsr 23) land 0xff and m = b land 0x7fffff in
  if e = 0xff then failwith "q_of_f32bits: NaN or infinity";
  let mant = if e = 0 then m else m lor 0x800000 in
  let ex = (if e = 0 then 1 else e) - 127 - 23 in
  let z = z_of_int (if sign = 1 then - mant else mant) in
  if ex >= 0 then { QArith_base.coq_Qnum = BinInt.Z.mul z (BinInt.Z.pow (z_of_int 2) (z_of_int ex)); QArith_base.coq_Qden = Coq_xH }
  else { QArith_base.coq_Qnum = z; QArith_base.coq_Qden = BinPos.Pos.pow (Coq_xO Coq_xH) (pos_of_int (- ex)) }
let float_of_f32bits (b : int) : float = Int32.float_of_bits (Int32.of_int (if b >= 0x80000000 then b - 0x100000000 else b))
(* Coq Z -> float (rounded) *)
let rec float_of_pos (p : positive) : float =
  match p with Coq_xH -> 1.0 | Coq_xO q -> 2.0 *. float_of_pos q | Coq_xI q -> 2.0 *. float_of_pos q +. 1.0
let float_of_z (z : coq_Z) : float = match z with Z0 -> 0.0 | Zpos p -> float_of_pos p | Zneg p -> -. float_of_pos p
(* numerator and denominator can be astronomically large: scale both down by a common power of two first *)
let rec pos_bits (p : positive) : int = match p with Coq_xH -> 1 | Coq_xO q | Coq_xI q -> 1 + pos_bits q
let float_of_q (q : QArith_base.coq_Q) : float =
  let nb = (match q.QArith_base.coq_Qnum with Z0 -> 0 | Zpos p | Zneg p -> pos_bits p) and db = pos_bits q.QArith_base.coq_Qden in
  let drop = max 0 (min nb db - 80) in
  let sh z = BinInt.Z.shiftr z (z_of_int drop) in
  float_of_z (sh q.QArith_base.coq_Qnum) /. float_of_z (sh (Zpos q.QArith_base.coq_Qden))
let close ?(rel = 1e-3) ?(abs = 1e-6) (a : float) (b : float) : bool =
  Float.abs (a -. b) <= abs +. rel *. Float.max (Float.abs a) (Float.abs b)
