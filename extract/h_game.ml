(* h_game.ml -- handlers for the betting-engine state walk (properties C02, C03, C11, C14). *)
open Framework
open Conv
open Codec
open Game

let deck () = if directive "deck" "std" = "short" then Short else Standard

let split c s = if s = "" then [] else String.split_on_char c s
let tail s = String.sub s 1 (String.length s - 1)

let action_of_tok (t : string) : action =
  match t.[0] with
  | 'f' -> Fold | 'k' -> Check
  | 'c' -> Call (z_of_string (tail t)) | 'r' -> Raise (z_of_string (tail t))
  | 's' -> Shove (z_of_string (tail t)) | 'b' -> Blind (z_of_string (tail t))
  | 'd' -> Draw (n_of_string (tail t))
  | _ -> failwith ("action token " ^ t)
let tok_of_action = function
  | Fold -> "f" | Check -> "k" | Call c -> "c" ^ string_of_z c | Raise c -> "r" ^ string_of_z c
  | Shove c -> "s" ^ string_of_z c | Blind c -> "b" ^ string_of_z c | Draw h -> "d" ^ string_of_n h
let hist_of_string s = if s = "-" then [] else Stdlib.List.map action_of_tok (split ',' s)

let st_ix = function Showdown.Betting -> "0" | Showdown.Shoving -> "1" | Showdown.Folding -> "2"
let state_str (g : game) : string =
  let seats = String.concat ";" (Stdlib.List.map (fun s ->
    Printf.sprintf "%s,%s,%s,%s,%s" (st_ix s.st) (string_of_z s.stack) (string_of_z s.stake) (string_of_z s.spent) (string_of_n s.cards)) g.seats) in
  Printf.sprintf "%s/%s/%s/%s/%s" seats (string_of_z g.pot) (string_of_n g.board) (string_of_z g.dealer) (string_of_z g.ticker)

(* parsed implementation state *)
type iseat = { ist : int; istack : int; istake : int; ispent : int; icards : coq_N_ }
and coq_N_ = BinNums.coq_N
type istate = { iseats : iseat list; ipot : int; iboard : BinNums.coq_N; idealer : int; iticker : int }
let parse_state (s : string) : istate =
  match split '/' s with
  | [seats; pot; board; dealer; ticker] ->
    let ps = Stdlib.List.map (fun x -> match split ',' x with
      | [a; b; c; d; e] -> { ist = int_of_string a; istack = int_of_string b; istake = int_of_string c; ispent = int_of_string d; icards = n_of_string e }
      | _ -> failwith "seat") (split ';' seats) in
    { iseats = ps; ipot = int_of_string pot; iboard = n_of_string board; idealer = int_of_string dealer; iticker = int_of_string ticker }
  | _ -> failwith ("state " ^ s)

(* replay a history in the model and in the rule-book machine; memoised on the previous line's prefix *)
let replay d (holes : BinNums.coq_N list) (h : action list) : game option * SpecNLHE.nlhe option =
  let g0 = root d holes in
  let s0 = Some (SpecNLHE.sroot holes) in
  Stdlib.List.fold_left (fun (g, s) a ->
    ((match g with Some g -> apply d g a | None -> None),
     (match s with Some s -> if SpecNLHE.slegal d s a then Some (SpecNLHE.sstep s a) else None | None -> None)))
    (g0, s0) h

let ranges (f : int -> bool) (lo : int) (hi : int) : string =
  let out = ref [] and start = ref None in
  for x = lo to hi + 1 do
    let ok = x <= hi && f x in
    (match ok, !start with
     | true, None -> start := Some x
     | false, Some s -> out := Printf.sprintf "%d:%d" s (x - 1) :: !out; start := None
     | _ -> ())
  done;
  if !out = [] then "-" else String.concat "+" (Stdlib.List.rev !out)

let allowed d g a = match is_allowed d g a with Some b -> b | None -> false
let turn_str = function Terminal -> "T" | Chance -> "C" | Choice i -> "P" ^ string_of_z i
let sturn_str (s : SpecNLHE.nlhe) =
  let (k, i) = SpecNLHE.sturn s in
  match int_of_z k with 0 -> "T" | 1 -> "C" | _ -> "P" ^ string_of_z i

let stack_total = int_of_z GenLib.coq_STACK
let max_history = 2 * stack_total + 16

let popcount n = int_of_n (Bits.popcount64 n)

let () =
  register "stuck" (fun i o ->
    [Specfail ("c03_hand_terminates", "random line of play " ^ i.(1) ^ " is still going after " ^ o.(0) ^ " actions (the bound is 2 * STACK + 16)")]);
  register "st" (fun i o ->
    let d = deck () in
    let hist = hist_of_string i.(1) in
    let ist = parse_state o.(0) in
    let holes = Stdlib.List.map (fun s -> s.icards) ist.iseats in
    let (mg, ms) = replay d holes hist in
    let fails = ref [] in
    let mism name m impl = if m <> impl then fails := Mismatch (name ^ "=" ^ m) :: !fails in
    let spec rule cond detail = if not cond then fails := Specfail (rule, detail) :: !fails in
    (match mg with
     | None -> fails := [Mismatch "model rejects this history (apply = None)"]
     | Some g ->
       mism "state" (state_str g) o.(0);
       mism "turn" (turn_str (turn_of g)) o.(1);
       let maxstack = Stdlib.List.fold_left (fun a s -> max a (int_of_z s.stack)) 0 g.seats in
       let hi = maxstack + 1 in
       let b2s b = if b then "1" else "0" in
       mism "fold" (b2s (allowed d g Fold)) o.(2);
       mism "check" (b2s (allowed d g Check)) o.(3);
       mism "calls" (ranges (fun x -> allowed d g (Call (z_of_int x))) (-1) hi) o.(4);
       mism "raises" (ranges (fun x -> allowed d g (Raise (z_of_int x))) (-1) hi) o.(5);
       mism "shoves" (ranges (fun x -> allowed d g (Shove (z_of_int x))) (-1) hi) o.(6);
       mism "blinds" (ranges (fun x -> allowed d g (Blind (z_of_int x))) (-1) hi) o.(7);
       (* draws: probe=verdict list *)
       let draws = split ',' o.(8) in
       Stdlib.List.iter (fun pv ->
         match split '=' pv with
         | [m; v] ->
           let mv = match is_allowed d g (Draw (n_of_string m)) with Some true -> "1" | Some false -> "0" | None -> "-1" in
           mism ("draw " ^ m) mv v
         | _ -> ()) draws;
       mism "deck" (match deck_of d g with Some x -> string_of_n x | None -> "P") o.(9);
       (* successors *)
       Stdlib.List.iter (fun av ->
         match String.index_opt av '>' with
         | Some k ->
           let a = action_of_tok (String.sub av 0 k) in
           let v = String.sub av (k + 1) (String.length av - k - 1) in
           let m = match apply d g a with Some g' -> state_str g' | None -> "X" in
           mism ("succ " ^ tok_of_action a) m v
         | None -> ()) (split '~' o.(10));
       (* settlements under the three deals *)
       if o.(11) <> "-" then
         Stdlib.List.iter (fun hv ->
           match split '=' hv with
           | [hs; v] ->
             (match split '&' hs with
              | [h0; h1] ->
                let hl = [n_of_string h0; n_of_string h1] in
                let g2 = { g with seats = Stdlib.List.map2 (fun s c -> { s with cards = c }) g.seats hl } in
                let m = match settlements d g2 with Some r -> String.concat "," (Stdlib.List.map string_of_z r) | None -> "P" in
                mism ("settle " ^ hs) m v;
                (* C02 oracle on the implementation's rewards *)
                if v <> "P" then begin
                  let rw = Stdlib.List.map int_of_string (split ',' v) in
                  let total = Stdlib.List.fold_left (+) 0 rw in
                  spec "c02_rewards_sum_to_pot" (total = ist.ipot) (Printf.sprintf "rewards %s, pot %d" v ist.ipot);
                  Stdlib.List.iter2 (fun s r -> spec "c02_folded_gets_nothing" (not (s.ist = 2 && r <> 0)) v) ist.iseats rw;
                  let live = Stdlib.List.filter (fun s -> s.ist <> 2) ist.iseats in
                  (match ist.iseats, rw with
                   | [s0; s1], [r0; r1] ->
                     if Stdlib.List.length live = 1 then
                       spec "c02_last_player_takes_pot" ((if s0.ist <> 2 then r0 else r1) = ist.ipot) v
                     else begin
                       let c0 = hand_cards (BinNat.N.coq_lor (n_of_string h0) ist.iboard)
                       and c1 = hand_cards (BinNat.N.coq_lor (n_of_string h1) ist.iboard) in
                       spec "c02_equal_commitments_at_showdown" (s0.ispent = s1.ispent) o.(0);
                       (match SpecPoker.cmp_spec d c0 c1 with
                        | Datatypes.Gt -> spec "c02_strongest_takes_pot" (r0 = ist.ipot && r1 = 0) v
                        | Datatypes.Lt -> spec "c02_strongest_takes_pot" (r1 = ist.ipot && r0 = 0) v
                        | Datatypes.Eq -> spec "c02_tie_splits_pot" (r0 = s0.ispent && r1 = s1.ispent) v)
                     end
                   | _ -> ())
                end else spec "c02_settlement_aborts" false hv
              | _ -> ())
           | _ -> ()) (split ';' o.(11)));
    (* ---- oracles on the implementation's own state ---- *)
    Stdlib.List.iter (fun s ->
      spec "c02_stack_nonnegative" (s.istack >= 0) o.(0);
      spec "c02_stack_plus_spent_is_starting_stack" (s.istack + s.ispent = stack_total) o.(0);
      spec "c02_stake_within_spent" (0 <= s.istake && s.istake <= s.ispent) o.(0)) ist.iseats;
    spec "c02_pot_is_sum_of_contributions" (ist.ipot = Stdlib.List.fold_left (fun a s -> a + s.ispent) 0 ist.iseats) o.(0);
    (* ... and on every state the engine moves to from here (each accepted probe is a reachable state) *)
    let chips st = Stdlib.List.fold_left (fun a s -> a + s.istack) 0 st.iseats + st.ipot in
    Stdlib.List.iter (fun av ->
      match String.index_opt av '>' with
      | Some k ->
        let v = String.sub av (k + 1) (String.length av - k - 1) in
        if v <> "X" then begin
          let nst = parse_state v in
          let what = String.sub av 0 k ^ " leads to " ^ v in
          Stdlib.List.iter (fun s ->
            spec "c02_stack_nonnegative" (s.istack >= 0) what;
            spec "c02_stack_plus_spent_is_starting_stack" (s.istack + s.ispent = stack_total) what;
            spec "c02_stake_within_spent" (0 <= s.istake && s.istake <= s.ispent) what) nst.iseats;
          spec "c02_pot_is_sum_of_contributions" (nst.ipot = Stdlib.List.fold_left (fun a s -> a + s.ispent) 0 nst.iseats) what;
          spec "c02_step_conserves_chips" (chips nst = chips ist) what
        end
      | None -> ()) (split '~' o.(10));
    (* C14: hole cards and board pairwise disjoint; the deck offered is exactly the unseen cards *)
    let all = Stdlib.List.fold_left (fun a s -> BinNat.N.coq_lor a s.icards) ist.iboard ist.iseats in
    let cnt = Stdlib.List.fold_left (fun a s -> a + popcount s.icards) (popcount ist.iboard) ist.iseats in
    spec "c14_cards_pairwise_disjoint" (popcount all = cnt) o.(0);
    (* a deal containing a card already in play must be refused *)
    Stdlib.List.iter (fun pv ->
      match split '=' pv with
      | [m; v] ->
        let mm = n_of_string m in
        if not (BinNat.N.eqb (BinNat.N.coq_land mm all) BinNums.N0) then
          spec "c14_deal_of_card_in_play_refused" (v <> "1") ("the engine accepts the deal " ^ m ^ " although it holds a card in play")
      | _ -> ()) (split ',' o.(8));
    if o.(9) <> "P" then begin
      let dk = n_of_string o.(9) in
      spec "c14_deck_offers_no_card_in_play" (BinNat.N.eqb (BinNat.N.coq_land dk all) BinNums.N0) o.(9);
      spec "c14_deck_is_all_unseen_cards" (BinNat.N.eqb (BinNat.N.coq_lor dk all) (hand_mask d)) o.(9)
    end else spec "c14_deck_aborts" false o.(0);
    (* C03: rule-book machine along the same history *)
    (match ms with
     | None -> spec "c03_history_legal_by_rules" false "the engine accepted a history the rule book rejects"
     | Some s ->
       let maxstack = Stdlib.List.fold_left (fun a x -> max a x.istack) 0 ist.iseats in
       let hi = maxstack + 1 in
       let sl a = SpecNLHE.slegal d s a in
       let b2s b = if b then "1" else "0" in
       spec "c03_turn" (sturn_str s = o.(1)) ("rules say " ^ sturn_str s);
       spec "c03_fold" (b2s (sl Fold) = o.(2)) "";
       spec "c03_check" (b2s (sl Check) = o.(3)) "";
       let r k f idx = let e = ranges (fun x -> sl (f (z_of_int x))) (-1) hi in spec k (e = o.(idx)) ("rules accept " ^ e) in
       r "c03_call_amounts" (fun x -> Call x) 4;
       r "c03_raise_amounts" (fun x -> Raise x) 5;
       r "c03_shove_amounts" (fun x -> Shove x) 6;
       r "c03_blind_amounts" (fun x -> Blind x) 7;
       Stdlib.List.iter (fun pv ->
         match split '=' pv with
         | [m; v] -> spec "c03_deal" ((if sl (Draw (n_of_string m)) then "1" else "0") = v) ("draw " ^ m)
         | _ -> ()) (split ',' o.(8));
       (* rejected actions leave no successor; accepted ones do *)
       Stdlib.List.iter (fun av ->
         match String.index_opt av '>' with
         | Some k ->
           let a = action_of_tok (String.sub av 0 k) in
           let v = String.sub av (k + 1) (String.length av - k - 1) in
           spec "c03_apply_iff_legal" ((v <> "X") = sl a) (tok_of_action a)
         | None -> ()) (split '~' o.(10)));
    spec "c03_bounded_length" (Stdlib.List.length hist <= max_history) (string_of_int (Stdlib.List.length hist));
    !fails)

(* ---------- C11: menus ---------- *)
let edge_of_tok (t : string) : edge =
  match t.[0] with
  | 'D' -> EDraw | 'F' -> EFold | 'K' -> ECheck | 'C' -> ECall | 'S' -> EShove
  | 'R' -> (match split ':' (tail t) with [n; dd] -> ERaise (z_of_string n, z_of_string dd) | _ -> failwith "edge")
  | _ -> failwith ("edge token " ^ t)
let tok_of_edge = function
  | EDraw -> "D" | EFold -> "F" | ECheck -> "K" | ECall -> "C" | EShove -> "S"
  | ERaise (n, dd) -> "R" ^ string_of_z n ^ ":" ^ string_of_z dd

let () =
  register "menu" (fun i o ->
    let d = deck () in
    let hist = hist_of_string i.(1) in
    let n = z_of_string i.(2) in
    let holes = [n_of_string i.(3); n_of_string i.(4)] in
    let (mg, ms) = replay d holes hist in
    let fails = ref [] in
    let mism name m impl = if m <> impl then fails := Mismatch (name ^ "=" ^ m) :: !fails in
    let spec rule cond detail = if not cond then fails := Specfail (rule, detail) :: !fails in
    (match mg with
     | None -> fails := [Mismatch "model rejects this history"]
     | Some g ->
       (match choices g n with
        | None -> mism "edges" "P" o.(0)
        | Some es ->
          mism "edges" (String.concat "," (Stdlib.List.map tok_of_edge es)) o.(0);
          let acts = Stdlib.List.map (fun e -> actionize g e) es in
          mism "actions" (String.concat "," (Stdlib.List.map tok_of_action acts)) o.(1);
          mism "allowed" (String.concat "," (Stdlib.List.map (fun a -> if allowed d g a then "1" else "0") acts)) o.(2)));
    if o.(0) = "P" then spec "c11_menu_aborts" false "choices/actionize panicked at a decision"
    else begin
      let es = Stdlib.List.map edge_of_tok (split ',' o.(0)) in
      let acts = Stdlib.List.map action_of_tok (split ',' o.(1)) in
      let oks = split ',' o.(2) in
      spec "c11_menu_nonempty" (es <> []) "";
      let rec nodup = function [] -> true | x :: r -> not (Stdlib.List.mem x r) && nodup r in
      spec "c11_menu_no_duplicates" (nodup (split ',' o.(0))) o.(0);
      spec "c11_every_entry_accepted" (Stdlib.List.for_all (fun b -> b = "1") oks) o.(2);
      (* the abstraction's raise cap: once more than MAX_RAISE_REPEATS raises were made in the round the menu offers no raise *)
      if int_of_z n > int_of_z GenLib.coq_MAX_RAISE_REPEATS then
        spec "c11_menu_respects_the_raise_cap" (not (Stdlib.List.exists (function ERaise _ -> true | _ -> false) es))
          (Printf.sprintf "raise count %d, menu %s" (int_of_z n) o.(0));
      (match ms with
       | None -> ()
       | Some s ->
         let sl a = SpecNLHE.slegal d s a in
         (* kinds on the menu must be kinds the rules allow here *)
         let raise_ok = ref false in
         let b = SpecNLHE.nthZ s.SpecNLHE.behind s.SpecNLHE.to_act in
         for x = 0 to int_of_z b do if sl (Raise (z_of_int x)) then raise_ok := true done;
         Stdlib.List.iter (fun e ->
           match e with
           | EFold -> spec "c11_kind_allowed" (sl Fold) "fold on menu"
           | ECheck -> spec "c11_kind_allowed" (sl Check) "check on menu"
           | ECall -> spec "c11_kind_allowed" (sl (Call (SpecNLHE.outstanding s))) "call on menu"
           | EShove -> spec "c11_kind_allowed" (sl (Shove b)) "shove on menu"
           | ERaise _ -> spec "c11_kind_allowed" !raise_ok "raise on menu"
           | EDraw -> spec "c11_kind_allowed" false "draw on a player's menu") es;
         (* each translated action is legal by the rules *)
         Stdlib.List.iter (fun a -> spec "c11_action_legal_by_rules" (sl a) (tok_of_action a)) acts);
      (* snapping: floor(pot * odds) clamped to [minimum raise, all-in] as the rules define them *)
      (match ms with
       | None -> ()
       | Some s ->
         let b = int_of_z (SpecNLHE.nthZ s.SpecNLHE.behind s.SpecNLHE.to_act) in
         let o_ = int_of_z (SpecNLHE.outstanding s) in
         let mn = o_ + max (int_of_z s.SpecNLHE.last_raise) (int_of_z GenLib.coq_B_BLIND) in
         let potv = Stdlib.List.fold_left (fun a x -> a + int_of_z x) 0 s.SpecNLHE.total in
         Stdlib.List.iter2 (fun e a ->
           match e with
           | ERaise (nn, dd) ->
             let fl = potv * int_of_z nn / int_of_z dd in
             let want = if fl >= b then Shove (z_of_int b) else if fl <= mn then Raise (z_of_int mn) else Raise (z_of_int fl) in
             spec "c11_snap" (want = a) (tok_of_edge e ^ " -> " ^ tok_of_action a ^ ", expected " ^ tok_of_action want)
           | _ -> ()) es acts);
      (* raises: larger pot fractions never translate to smaller bets *)
      let amount = function Raise c | Shove c | Call c | Blind c -> int_of_z c | _ -> 0 in
      let rs = Stdlib.List.filter (fun (e, _) -> match e with ERaise _ -> true | _ -> false) (Stdlib.List.combine es acts) in
      let frac = function ERaise (a, b) -> (int_of_z a, int_of_z b) | _ -> (0, 1) in
      Stdlib.List.iter (fun (e1, a1) ->
        Stdlib.List.iter (fun (e2, a2) ->
          let (n1, d1) = frac e1 and (n2, d2) = frac e2 in
          if n1 * d2 <= n2 * d1 then spec "c11_monotone" (amount a1 <= amount a2) (tok_of_edge e1 ^ " vs " ^ tok_of_edge e2)) rs) rs
    end;
    !fails)
