(* conv.ml -- conversions between the line protocol (decimal strings) and the
   extracted Coq number types.  Trusted glue; cross-checked on every run by the
   in-Coq batch (cases.v). *)
open BinNums

let rec pos_of_int (n : int) : positive =
  if n = 1 then Coq_xH
  else if n land 1 = 0 then Coq_xO (pos_of_int (n lsr 1))
  else Coq_xI (pos_of_int (n lsr 1))

let n_of_int (n : int) : coq_N = if n = 0 then N0 else Npos (pos_of_int n)
let z_of_int (n : int) : coq_Z =
  if n = 0 then Z0 else if n > 0 then Zpos (pos_of_int n) else Zneg (pos_of_int (- n))

let ten = n_of_int 10

let n_of_string (s : string) : coq_N =
  if String.length s <= 18 then n_of_int (int_of_string s)
  else begin
    let acc = ref N0 in
    String.iter (fun ch ->
      let d = Char.code ch - 48 in
      if d < 0 || d > 9 then failwith ("n_of_string: " ^ s);
      acc := BinNat.N.add (BinNat.N.mul !acc ten) (n_of_int d)) s;
    !acc
  end

let z_of_string (s : string) : coq_Z =
  if String.length s > 0 && s.[0] = '-' then
    (match n_of_string (String.sub s 1 (String.length s - 1)) with
     | N0 -> Z0 | Npos p -> Zneg p)
  else (match n_of_string s with N0 -> Z0 | Npos p -> Zpos p)

(* fast path: values below 2^61 *)
let rec int_of_pos_opt (p : positive) (depth : int) : int option =
  if depth > 60 then None else
  match p with
  | Coq_xH -> Some 1
  | Coq_xO q -> (match int_of_pos_opt q (depth + 1) with Some v -> Some (2 * v) | None -> None)
  | Coq_xI q -> (match int_of_pos_opt q (depth + 1) with Some v -> Some (2 * v + 1) | None -> None)

let rec string_of_pos_slow (p : positive) : string =
  (* repeated division by ten *)
  let rec go (n : coq_N) (acc : string) =
    match n with
    | N0 -> if acc = "" then "0" else acc
    | _ ->
      let (q, r) = BinNat.N.div_eucl n ten in
      let d = match r with N0 -> 0 | Npos rp -> (match int_of_pos_opt rp 0 with Some v -> v | None -> assert false) in
      go q (String.make 1 (Char.chr (48 + d)) ^ acc)
  in go (Npos p) ""

let string_of_pos (p : positive) : string =
  match int_of_pos_opt p 0 with Some v -> string_of_int v | None -> string_of_pos_slow p

let string_of_n (n : coq_N) : string = match n with N0 -> "0" | Npos p -> string_of_pos p
let string_of_z (z : coq_Z) : string =
  match z with Z0 -> "0" | Zpos p -> string_of_pos p | Zneg p -> "-" ^ string_of_pos p

let int_of_n (n : coq_N) : int =
  match n with N0 -> 0 | Npos p -> (match int_of_pos_opt p 0 with Some v -> v | None -> failwith "int_of_n: too big")
let int_of_z (z : coq_Z) : int =
  match z with Z0 -> 0 | Zpos p -> int_of_n (Npos p) | Zneg p -> - (int_of_n (Npos p))

let rec nat_of_int (n : int) : Datatypes.nat = if n <= 0 then Datatypes.O else Datatypes.S (nat_of_int (n - 1))
let rec int_of_nat (n : Datatypes.nat) : int = match n with Datatypes.O -> 0 | Datatypes.S k -> 1 + int_of_nat k

let string_of_nlist (l : coq_N list) : string = String.concat "," (Stdlib.List.map string_of_n l)
let nlist_of_string (s : string) : coq_N list =
  if s = "" || s = "-" then [] else Stdlib.List.map n_of_string (String.split_on_char ',' s)
let zlist_of_string (s : string) : coq_Z list =
  if s = "" || s = "-" then [] else Stdlib.List.map z_of_string (String.split_on_char ',' s)
let string_of_zlist (l : coq_Z list) : string =
  if l = [] then "-" else String.concat "," (Stdlib.List.map string_of_z l)
