(* Spec/SpecCombs.v -- what "every hand of k cards avoiding a set, exactly once, in increasing
   order" means (property C06): the numerically increasing list of k-subsets of {0..n-1} as bit
   masks, filtered by disjointness; binomial coefficients; Burnside class counts. *)
From Coq Require Import NArith ZArith List Bool.
From RP Require Import Base.Bits Model.Codec.
Import ListNotations.
Open Scope N_scope.

(* k-subsets of {0..n-1}, numerically increasing (a subset containing n-1 is larger than all that do not) *)
Fixpoint combs (n k : nat) : list N :=
  match n with
  | O => match k with O => [0] | S _ => [] end
  | S m => combs m k ++ match k with O => [] | S j => map (fun x => x + N.shiftl 1 (N.of_nat m)) (combs m j) end
  end.
(* k-subsets of a set of cards given in DESCENDING order, numerically increasing *)
Fixpoint combs_of (cs : list N) (k : nat) : list N :=
  match cs with
  | [] => match k with O => [0] | S _ => [] end
  | c :: r => combs_of r k ++ match k with O => [] | S j => map (fun x => x + N.shiftl 1 c) (combs_of r j) end
  end.
(* the cards of the deck not in the blocking set *)
Definition free_cards (d : deck) (mask : N) : N := N.land (hand_mask d) (N.lxor (N.land mask (hand_mask d)) (hand_mask d)).
(* every hand of k free cards, each once, in increasing order *)
Definition spec_hands (d : deck) (k : nat) (mask : N) : list N := combs_of (rev (hand_cards (free_cards d mask))) k.
Fixpoint choose (n k : nat) : N :=
  match n, k with
  | _, O => 1
  | O, S _ => 0
  | S m, S j => choose m j + choose m k
  end.
Definition deck_size (d : deck) : nat := N.to_nat (popcount64 (hand_mask d)).
(* number of (pocket, board) observations with b board cards *)
Definition n_observations (d : deck) (b : nat) : N := choose (deck_size d) 2 * choose (deck_size d - 2) b.
Definition n_children (d : deck) (seen reveal : nat) : N := choose (deck_size d - seen) reveal.

(* ---------- Burnside's lemma for suit-equivalence classes ----------
   A suit permutation with cycle lengths L1..Lm acts on the cards of one rank with orbits of those
   sizes; a (pocket, board) pair is fixed as a pair of sets iff each is a union of orbits. Hence
   fix(pi) = [x^2 y^b]  prod over cycles (1 + x^L + y^L)^ranks,
   and the number of classes is (sum over the 24 permutations of fix) / 24.
   Polynomials are truncated at x^2, y^5: coefficient tables poly i j, i <= 2, j <= 5. *)
Definition poly := list (list N).
Definition pcoef (p : poly) (i j : nat) : N := nth j (nth i p []) 0.
Definition pmake (f : nat -> nat -> N) : poly := map (fun i => map (fun j => f i j) (seq 0 6)) (seq 0 3).
Definition pmul (p q : poly) : poly :=
  pmake (fun i j => fold_left N.add
                      (flat_map (fun a => map (fun b => pcoef p a b * pcoef q (i - a) (j - b)) (seq 0 (S j))) (seq 0 (S i))) 0).
Definition pone : poly := pmake (fun i j => match i, j with O, O => 1 | _, _ => 0 end).
Definition pcycle (L : nat) : poly :=   (* 1 + x^L + y^L *)
  pmake (fun i j => if (Nat.eqb i 0 && Nat.eqb j 0) || (Nat.eqb i L && Nat.eqb j 0) || (Nat.eqb i 0 && Nat.eqb j L) then 1 else 0).
Fixpoint ppow (p : poly) (n : nat) : poly := match n with O => pone | S k => pmul p (ppow p k) end.
Definition fix_count (ranks : nat) (cycles : list nat) (b : nat) : N :=
  pcoef (fold_left (fun acc L => pmul acc (ppow (pcycle L) ranks)) cycles pone) 2 b.
(* conjugacy classes of S4: (size, cycle lengths) *)
Definition s4_classes : list (N * list nat) :=
  [(1, [1; 1; 1; 1]%nat); (6, [2; 1; 1]%nat); (3, [2; 2]%nat); (8, [3; 1]%nat); (6, [4]%nat)].
Definition burnside (d : deck) (b : nat) : N :=
  fold_left N.add (map (fun c => fst c * fix_count (deck_size d / 4) (snd c) b) s4_classes) 0 / 24.
