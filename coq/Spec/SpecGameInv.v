(* Spec/SpecGameInv.v -- statements about the betting engine model (properties C02, C03, C11, C14):
   the chip/card invariants of reachable states, the relation to the rule-book machine, bounds. *)
From Coq Require Import ZArith NArith List Bool.
From RP Require Import Base.Bits Gen.GenLib Model.Codec Model.Evaluator Model.Showdown Model.Game Spec.SpecNLHE.
Import ListNotations.
Open Scope Z_scope.

(* two hole-card hands of two cards each, inside the deck, disjoint *)
Definition wf_holes (d : deck) (hs : list N) : Prop :=
  exists a b, hs = [a; b] /\ N.land a (hand_mask d) = a /\ N.land b (hand_mask d) = b
              /\ hand_size a = 2%N /\ hand_size b = 2%N /\ N.land a b = 0%N.

Definition reachable (d : deck) (hs : list N) (g : game) : Prop :=
  exists g0 acts, root d hs = Some g0 /\ run d g0 acts = Some g.

(* C02: chips *)
Definition seat_ok (s : seat) : Prop :=
  0 <= stack s /\ stack s + spent s = STACK /\ 0 <= stake s /\ stake s <= spent s
  /\ (st s = Shoving -> stack s = 0) /\ (stack s = 0 -> st s <> Betting).
Definition chips_inv (g : game) : Prop :=
  length (seats g) = 2%nat /\ Forall seat_ok (seats g) /\ pot g = sumZ (map spent (seats g)).

(* C14: cards *)
Definition cards_inv (d : deck) (g : game) : Prop :=
  board_ok g = true /\
  N.land (board g) (hand_mask d) = board g /\
  exists dk, deck_of d g = Some dk                       (* hole cards and board pairwise disjoint *)
             /\ N.land dk (fold_left N.lor (map cards (seats g)) (board g)) = 0%N
             /\ N.lor dk (fold_left N.lor (map cards (seats g)) (board g)) = hand_mask d.

(* C03: the engine state g and the rule-book state s agree on everything observable *)
Definition turn_code (t : turn) : Z * Z :=
  match t with Terminal => (0, 0) | Chance => (1, 0) | Choice i => (2, i) end.
Definition same_moves (d : deck) (g : game) (s : nlhe) : Prop :=
  turn_code (turn_of g) = sturn s /\
  forall a, is_allowed d g a = Some (slegal d s a).

(* closed-form bound on the length of a hand (number of applied actions after the blinds) *)
Definition max_history : Z := 2 * STACK + 16.
