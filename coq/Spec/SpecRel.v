(* Spec/SpecRel.v -- the relation between a state of the betting engine (Model/Game.v) and a state
   of the rule-book machine (Spec/SpecNLHE.v) used for property C03, and the potential function
   that bounds the length of a hand.
   R d g s says: g is a heads-up state [seat 0 (button, big blind); seat 1 (small blind)] with
   dealer 0 whose chips, fold flags, cards and street are those recorded by s, the chip and card
   invariants hold, the engine's inferred phase (must_stop / must_deal) is the phase remembered by
   s (over / awaiting), and -- while a player is to act -- the engine's counters encode the
   rule-book memory:
     k := ticker - (2 pre-flop, 0 afterwards)   counts the turns taken on this street (from 1),
     the player to act is seat (ticker mod 2) = to_act s, is Betting, has not acted since the
     last raise, owes eo - ea >= 0, the opponent has acted iff 2 <= k,
     last_raise = eo - ea once 2 <= k; at k = 1 no raise was made and the stakes differ by at
     most the big blind (the blinds themselves).
   Definitions only. *)
From Coq Require Import ZArith NArith List Bool.
From RP Require Import Base.Bits Gen.GenLib Model.Codec Model.Showdown Model.Game Spec.SpecNLHE.
Import ListNotations.
Open Scope Z_scope.

(* street of a board (Game.street only looks at the board) *)
Definition sob (bd : N) : Z :=
  match street_of_size (Z.of_N (hand_size bd)) with Some s => s | None => 0 end.
Definition ones64 : N := 18446744073709551615%N.

Definition G2 (s0 s1 : sstate) (k0 k1 e0 e1 p0 p1 : Z) (c0 c1 : N) (pt : Z) (bd : N) (t : Z) : game :=
  mkGame [mkSeat s0 k0 e0 p0 c0; mkSeat s1 k1 e1 p1 c1] pt bd 0 t.
Definition S2 (s0 s1 : sstate) (k0 k1 e0 e1 p0 p1 : Z) (c0 c1 : N) (bd : N)
              (ac0 ac1 : bool) (lr : Z) (ta : nat) (aw ov : bool) : nlhe :=
  mkNlhe [k0; k1] [e0; e1] [p0; p1] [is_fold s0; is_fold s1] [ac0; ac1] lr (sob bd) ta aw ov [c0; c1] bd.

(* chips of one seat: state s, k behind, e on this street, p in the hand *)
Definition seat_inv (s : sstate) (k e p : Z) : Prop :=
  0 <= k /\ k + p = STACK /\ 0 <= e /\ e <= p /\ (s = Shoving -> k = 0) /\ (k = 0 -> s <> Betting).

(* board and hole cards pairwise disjoint; their low 64 bits lie inside the deck *)
Definition cards_ok (d : deck) (bd c0 c1 : N) : Prop :=
  N.land bd c0 = 0%N /\ N.land (N.lor bd c0) c1 = 0%N /\
  N.ldiff (N.land (N.lor (N.lor bd c0) c1) ones64) (hand_mask d) = 0%N.

(* the memory of the rule book, seen from the player to act (a) and the opponent (o) *)
Definition choice_inv (sa so : sstate) (ea eo : Z) (aca aco : bool) (lr k : Z) : Prop :=
  sa = Betting /\ so <> Folding /\ aca = false /\ aco = (2 <=? k) /\ ea <= eo /\
  (k = 1 -> lr = 0 /\ eo - ea <= B_BLIND) /\ (2 <= k -> lr = eo - ea).

Definition street_off (bd : N) : Z := if sob bd =? 0 then 2 else 0.

Inductive R (d : deck) : game -> nlhe -> Prop :=
| R_intro : forall s0 s1 k0 k1 e0 e1 p0 p1 c0 c1 pt bd t ac0 ac1 lr ta aw ov,
    seat_inv s0 k0 e0 p0 -> seat_inv s1 k1 e1 p1 ->
    pt = p0 + p1 -> S_BLIND + B_BLIND <= pt -> p0 - e0 = p1 - e1 ->
    ~ (s0 = Folding /\ s1 = Folding) ->
    In (Z.of_N (hand_size bd)) [0; 3; 4; 5] ->
    cards_ok d bd c0 c1 ->
    must_stop (G2 s0 s1 k0 k1 e0 e1 p0 p1 c0 c1 pt bd t) = ov ->
    (ov = false -> must_deal (G2 s0 s1 k0 k1 e0 e1 p0 p1 c0 c1 pt bd t) = aw) ->
    ov = (Nat.eqb (length (slive (S2 s0 s1 k0 k1 e0 e1 p0 p1 c0 c1 bd ac0 ac1 lr ta aw ov))) 1
          || ((sob bd =? 3) && closed (S2 s0 s1 k0 k1 e0 e1 p0 p1 c0 c1 bd ac0 ac1 lr ta aw ov))) ->
    (ov = false -> aw = false ->
       1 <= t - street_off bd /\ t mod 2 = Z.of_nat ta /\
       ((ta = 0%nat /\ choice_inv s0 s1 e0 e1 ac0 ac1 lr (t - street_off bd)) \/
        (ta = 1%nat /\ choice_inv s1 s0 e1 e0 ac1 ac0 lr (t - street_off bd)))) ->
    R d (G2 s0 s1 k0 k1 e0 e1 p0 p1 c0 c1 pt bd t)
        (S2 s0 s1 k0 k1 e0 e1 p0 p1 c0 c1 bd ac0 ac1 lr ta aw ov).

(* potential: chips behind + 4 per street to come + turns before the street is `touched'
   + number of live seats.  Every accepted action lowers it by at least one. *)
Definition potential (g : game) : Z :=
  sumZ (map stack (seats g)) + 4 * (3 - street g)
  + Z.max 0 (3 - (ticker g - (if street g =? 0 then 2 else 0)))
  + Z.of_nat (length (live g)).

(* Game.is_allowed with the guard of the Raise arm as a parameter:
   is_allowed_with RAISE_ARM_CHECKS_TURN = is_allowed (by computation, Proofs/C03_Examples.v);
   is_allowed_with false is the engine without the turn check of the Raise arm (defect D3). *)
Definition is_allowed_with (guard : bool) (d : deck) (g : game) (a : action) : option bool :=
  if must_stop g then Some false else
  match a with
  | Raise r =>
      Some ((if guard then negb (must_deal g) && negb (must_post g) else true)
            && may_raise g && (to_raise g <=? r) && (r <=? to_shove g - 1))
  | _ => is_allowed d g a
  end.
