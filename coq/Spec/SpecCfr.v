(* Spec/SpecCfr.v -- definitions needed to STATE property C08 (external-sampling MCCFR regret estimator):
   shape predicates on sampled trees, the comparison relation on regret lists, payoff shifting, the
   traverser-probability mass, the clamp instance over Q, and flag-parameterised copies of the model's
   regret computation (used only to show that both generated flags are necessary).
   Definitions only; no proofs. *)
From Coq Require Import NArith QArith List Bool.
From RP Require Import Gen.GenLib Gen.GenFixes Model.Cfr.
Import ListNotations.
Open Scope Q_scope.

(* ---------- comparing lists of (bucket, edge, value): same keys in the same order, values Qeq ---------- *)
Definition triple_eq (x y : N * N * Q) : Prop := fst x = fst y /\ snd x == snd y.
Definition triples_eq (l1 l2 : list (N * N * Q)) : Prop := Forall2 triple_eq l1 l2.

(* ---------- external-sampling shape ---------- *)
(* the sigma allowed on an edge below a node of kind k: exactly 1 below chance, strictly positive otherwise *)
Definition sigma_ok (k : kind) (s : Q) : Prop :=
  match k with KChance => s == 1 | _ => 0 < s end.

(* hereditary: opponent and chance nodes have at most one child (they are sampled), every edge sigma is
   admissible for the kind of its parent *)
Inductive es_shape : qtree -> Prop :=
| ES_node : forall k b p ch,
    (k <> KWalker -> (length ch <= 1)%nat) ->
    Forall (fun est => sigma_ok k (snd (fst est))) ch ->
    Forall (fun est => es_shape (snd est)) ch ->
    es_shape (T k b p ch).

(* sum of the sigmas of a list of children *)
Definition sigma_sum (ch : list (N * Q * qtree)) : Q :=
  fold_right (fun est acc => snd (fst est) + acc) 0 ch.

(* hereditary: at every traverser node with children the sigmas of the children sum to 1 *)
Inductive sigma_normalised : qtree -> Prop :=
| SN_node : forall k b p ch,
    (k = KWalker -> ch <> [] -> sigma_sum ch == 1) ->
    Forall (fun est => sigma_normalised (snd est)) ch ->
    sigma_normalised (T k b p ch).

(* ---------- fuel-free reading of the textbook sampled counterfactual value ---------- *)
Definition utilde_Q (t : qtree) : Q := utilde Q 0 1 Qplus Qmult (depth t) t.

(* ---------- adding a constant to every leaf payoff ---------- *)
Fixpoint shift_payoffs (c : Q) (t : qtree) : qtree :=
  match t with
  | T k b p ch =>
      T k b (match ch with [] => p + c | _ => p end)
        (map (fun est => let '(e, s, x) := est in (e, s, shift_payoffs c x)) ch)
  end.

(* ---------- traverser-probability mass of the leaves below a node ----------
   = utilde with every leaf payoff replaced by 1: sum over the leaves below t of the product of the
   traverser's own action probabilities on the path *)
Fixpoint mass_fuel (fuel : nat) (t : qtree) : Q :=
  match fuel with
  | O => 0
  | S f =>
      match t with
      | T k b p ch =>
          match ch with
          | [] => 1
          | _ => fold_left (fun acc est => let '(e, s, c) := est in
                                           acc + (match k with KWalker => s | _ => 1 end) * mass_fuel f c) ch 0
          end
      end
  end.
Definition mass (t : qtree) : Q := mass_fuel (depth t) t.

(* ---------- the clamp of regret_vector over Q ---------- *)
Definition clamp_regret_Q (r : Q) : Q := clamp_regret Q Qle_bool regret_min_Q r.

(* ---------- flag-parameterised copies of the model's regret computation ----------
   Textual copies of leaves_below / expected_value / cfactual_value / gain / gains / immediate_regrets of
   Model/Cfr.v over Q, with the two generated flags turned into parameters:
     ext   plays the role of CFR_ESTIMATOR_EXTERNAL, stops the role of RELATIVE_REACH_STOPS_AT_NODE.
   Proofs/C08_flags.v proves  immediate_regrets_with CFR_ESTIMATOR_EXTERNAL RELATIVE_REACH_STOPS_AT_NODE
   = immediate_regrets_Q, and that C08_estimator fails for (false, true) and for (true, false). *)
Section Flags.
Variables (extf stops : bool).
Fixpoint leaves_below_with (hb : N) (t : qtree) (rel ext : Q) : list (Q * Q * Q) :=
  match t with
  | T k b p ch =>
      let rel' := if stops then rel else if N.eqb b hb then 1 else rel in
      match ch with
      | [] => [(p, rel', ext)]
      | _ => flat_map (fun est => let '(e, s, c) := est in
                                  leaves_below_with hb c (rel' * s)
                                    (match k with KWalker => ext | _ => ext * s end)) ch
      end
  end.
Definition leaf_sum_Q (ext_head : Q) (ls : list (Q * Q * Q)) : Q := leaf_sum Q 0 Qplus Qmult Qdiv ext_head ls.
Definition expected_value_with (ext_head prof_head : Q) (head : qtree) : Q :=
  (if extf then ext_head else prof_head)
  * leaf_sum_Q ext_head (leaves_below_with (bucket_of head) head 1 1).
Definition cfactual_value_with (ext_head : Q) (head : qtree) (s : Q) (tail : qtree) : Q :=
  if extf
  then ext_head * leaf_sum_Q ext_head (leaves_below_with (bucket_of tail) tail 1 1)
  else ext_head * leaf_sum_Q ext_head (leaves_below_with (bucket_of head) tail s 1).
Definition gain_with (ext_head prof_head : Q) (head : qtree) (s : Q) (tail : qtree) : Q :=
  cfactual_value_with ext_head head s tail - expected_value_with ext_head prof_head head.
Fixpoint gains_with (fuel : nat) (t : qtree) (ext prof : Q) : list (N * N * Q) :=
  match fuel with
  | O => []
  | S f =>
      match t with
      | T k b p ch =>
          (match k, ch with
           | KWalker, _ :: _ => map (fun est => let '(e, s, c) := est in (b, e, gain_with ext prof t s c)) ch
           | _, _ => [] end)
          ++ flat_map (fun est => let '(e, s, c) := est in
                                  gains_with f c (match k with KWalker => ext | _ => ext * s end) (prof * s)) ch
      end
  end.
Definition immediate_regrets_with (t : qtree) : list (N * N * Q) := gains_with (depth t) t 1 1.
End Flags.

(* ---------- concrete trees used by the Examples of Props/C08.v ---------- *)
(* traverser node with two actions worth 1 and 3 played with probabilities 1/4 and 3/4, below an opponent
   edge of probability 1/2 *)
Definition ex_tree : qtree :=
  T KOpponent 0%N 0 [(7%N, 1#2, T KWalker 1%N 0 [(2%N, 1#4, T KWalker 2%N 1 []); (3%N, 3#4, T KWalker 3%N 3 [])])].
(* chance, then opponent (1/2), then a traverser node whose second action leads to a second traverser node,
   one action of which leads through another opponent edge (1/5) *)
Definition ex_tree3 : qtree :=
  T KChance 0%N 0
    [(9%N, 1,
      T KOpponent 1%N 0
        [(7%N, 1#2,
          T KWalker 2%N 0
            [(2%N, 1#4, T KWalker 3%N 1 []);
             (3%N, 3#4,
              T KWalker 4%N 0
                [(2%N, 1#3, T KChance 5%N (-2) []);
                 (4%N, 2#3, T KOpponent 6%N 0 [(5%N, 1#5, T KWalker 7%N 6 [])])])])])].
(* a traverser node all of whose actions are worth 2 *)
Definition ex_indifferent : list (N * Q * qtree) :=
  [(2%N, 1#4, T KWalker 3%N 2 []);
   (3%N, 3#4, T KWalker 4%N 0 [(2%N, 1#3, T KChance 5%N 2 []); (4%N, 2#3, T KOpponent 6%N 2 [])])].
(* the smallest trees on which the regrets differ from the estimator when a flag is flipped *)
Definition ex_flag_tree : qtree :=
  T KWalker 1%N 0 [(2%N, 1#4, T KWalker 1%N 1 []); (3%N, 3#4, T KWalker 3%N 3 [])].
