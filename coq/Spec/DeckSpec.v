(* Spec/DeckSpec.v -- specification vocabulary for property C14 (Deck::draw).  Definitions only. *)
From Coq Require Import NArith List Bool.
From RP Require Import Base.Bits Model.Deck.
Import ListNotations.
Open Scope N_scope.

(* the indices 0, 1, ..., n-1 (the support of rng.gen_range(0..n)) *)
Definition nseq' (n : N) : list N := map N.of_nat (seq 0 (N.to_nat n)).

(* every index of a sequence of successive draws is below the size of the deck it is drawn from
   (what gen_range(0..size) guarantees at each call of Deck::draw) *)
Fixpoint draws_ok (d : N) (is : list N) : Prop :=
  match is with
  | [] => True
  | i :: r => i < popcount64 d /\ draws_ok (snd (draw d i)) r
  end.
