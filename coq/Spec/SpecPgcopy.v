(* Spec/SpecPgcopy.v -- the PostgreSQL binary COPY stream grammar (property C17), written from the
   PostgreSQL documentation, not from the code: 11-byte signature "PGCOPY\n\377\r\n\0", a 32-bit
   flags field, a 32-bit header-extension length (and that many bytes), then tuples
   [int16 field count; per field int32 byte length + data], then the trailer int16 -1. *)
From Coq Require Import NArith List Bool.
From RP Require Import Gen.GenTables Model.Pgcopy.
Import ListNotations.
Open Scope N_scope.

Definition pg_signature : list N := [80; 71; 67; 79; 80; 89; 10; 255; 13; 10; 0].
Definition bytes_eqb (a b : list N) : bool :=
  Nat.eqb (length a) (length b) && forallb (fun xy => fst xy =? snd xy) (combine a b).
(* one tuple: n fields of (length, data) *)
Fixpoint pg_fields (n : nat) (bs : list N) : option (list (N * list N) * list N) :=
  match n with
  | O => Some ([], bs)
  | S k => match take_exact 4 bs with
           | None => None
           | Some (lb, bs1) =>
               let len := be_value lb in
               if len =? 4294967295 then      (* -1 : NULL *)
                 match pg_fields k bs1 with Some (fs, r) => Some ((len, []) :: fs, r) | None => None end
               else match take_exact len bs1 with
                    | None => None
                    | Some (d, bs2) => match pg_fields k bs2 with Some (fs, r) => Some ((len, d) :: fs, r) | None => None end
                    end
           end
  end.
Fixpoint pg_tuples (fuel : nat) (bs : list N) (acc : list (list (N * list N))) : option (list (list (N * list N))) :=
  match fuel with
  | O => None
  | S f => match take_exact 2 bs with
           | None => None                                  (* a stream must end with the trailer *)
           | Some (cb, bs1) =>
               let c := be_value cb in
               if c =? 65535 then (match bs1 with [] => Some (rev acc) | _ => None end)
               else match pg_fields (N.to_nat c) bs1 with
                    | Some (fs, rest) => pg_tuples f rest (fs :: acc)
                    | None => None end
           end
  end.
Definition pg_parse (bytes : list N) : option (list (list (N * list N))) :=
  match take_exact 11 bytes with
  | None => None
  | Some (sig, r1) =>
      if negb (bytes_eqb sig pg_signature) then None else
      match take_exact 4 r1 with            (* flags *)
      | None => None
      | Some (_, r2) =>
          match take_exact 4 r2 with        (* header extension length *)
          | None => None
          | Some (eb, r3) =>
              match take_exact (be_value eb) r3 with
              | None => None
              | Some (_, r4) => pg_tuples (S (length r4)) r4 []
              end
          end
      end
  end.
Definition type_width (t : pgtype) : N := match t with INT8 => 8 | FLOAT4 => 4 | INT4 => 4 end.
(* a tuple matches the declared column types: one field per column, of the type's width *)
Definition typed_ok (cols : list pgtype) (row : list (N * list N)) : bool :=
  Nat.eqb (length cols) (length row)
  && forallb (fun cf => (fst (snd cf) =? type_width (fst cf)) && (N.of_nat (length (snd (snd cf))) =? type_width (fst cf)))
             (combine cols row).
Definition column_eqb (a b : column) : bool :=
  match a, b with
  | Col_past, Col_past | Col_present, Col_present | Col_future, Col_future | Col_edge, Col_edge
  | Col_regret, Col_regret | Col_policy, Col_policy | Col_xor, Col_xor | Col_dx, Col_dx
  | Col_obs, Col_obs | Col_abs, Col_abs | Col_prev, Col_prev | Col_next, Col_next | Col_position, Col_position => true
  | _, _ => false
  end.
Definition columns_eqb (a b : list column) : bool :=
  Nat.eqb (length a) (length b) && forallb (fun xy => column_eqb (fst xy) (snd xy)) (combine a b).
