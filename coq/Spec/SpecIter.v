(* Spec/SpecIter.v -- what "the sequence produced by an iterator" means (property C06), stated over
   the step functions of Model/Hands.v, independent of fuel:
   - [reaches step a n r]: a loop body says Go exactly n times and then ends with the result r;
   - [hands_all d it l]: calling Iterator::next repeatedly on the hand iterator [it] yields exactly the
     items of [l], then None, and never panics;
   - [obs_all d it l]: the same for the observation iterator. *)
From Coq Require Import NArith ZArith List Bool.
From RP Require Import Base.Bits Model.Codec Model.Hands Spec.SpecCombs.
Import ListNotations.
Open Scope N_scope.

Inductive reaches {A : Type} (step : A -> outcome A) : A -> nat -> outcome A -> Prop :=
| reaches_stop : forall a b, step a = Stop b -> reaches step a 0 (Stop b)
| reaches_crash : forall a, step a = Crash -> reaches step a 0 Crash
| reaches_go : forall a a' n r, step a = Go a' -> reaches step a' n r -> reaches step a (S n) r.

Inductive hands_all (d : deck) : hiter -> list N -> Prop :=
| hands_all_done : forall it, hand_next d it = Some None -> hands_all d it []
| hands_all_item : forall it h it' r,
    hand_next d it = Some (Some (h, it')) -> hands_all d it' r -> hands_all d it (h :: r).

Inductive obs_all (d : deck) : oiter -> list obs -> Prop :=
| obs_all_done : forall it, obs_next d it = Some None -> obs_all d it []
| obs_all_item : forall it o it' r,
    obs_next d it = Some (Some (o, it')) -> obs_all d it' r -> obs_all d it (o :: r).

(* number of cards of the deck that are not blocked *)
Definition n_free (d : deck) (mask : N) : nat := length (hand_cards (free_cards d mask)).

(* every (pocket, board) pair of a street: pockets in increasing order, and for each pocket the boards
   of n_observed(street) cards avoiding it, in increasing order *)
Definition spec_obs (d : deck) (s : Z) : list obs :=
  flat_map (fun p => map (mkObs p) (spec_hands d (N.to_nat (n_observed s)) p)) (spec_hands d 2 0).
