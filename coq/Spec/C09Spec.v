(* Spec/C09Spec.v -- vocabulary for the statements of property C09 (regret matching with a floor).
   Definitions only; every one is a transparent abbreviation of a term of Model/RegretMatching.v
   or a textbook notion. *)
From Coq Require Import ZArith QArith List Bool.
From RP Require Import Gen.GenLib Gen.GenFixes Model.RegretMatching.
Import ListNotations.

(* the model's max and sum at the rational instance *)
Definition qmax (a b : Q) : Q := fmax Q Qle_bool a b.          (* if a <= b then b else a *)
Definition qsum (l : list Q) : Q := fold_left Qplus l 0%Q.     (* = fsum Q 0 Qplus l *)

(* the divisor of the repaired code, epochs.max(1), and the cumulated regret R / max(t,1) *)
Definition divisor (t : Z) : Q := inject_Z (Z.max t 1).
Definition cum_regret (t : Z) (r : Q) : Q := (r / divisor t)%Q.
(* the floored cumulated regret max(R / max(t,1), eps) and the vector of them *)
Definition floored (eps : Q) (t : Z) (r : Q) : Q := qmax (cum_regret t r) eps.
Definition floored_vec (eps : Q) (t : Z) (rs : list Q) : list Q := map (floored eps t) rs.
(* the vector of positive parts of the cumulated regrets *)
Definition pos_vec (t : Z) (rs : list Q) : list Q := map (fun r => qpos (cum_regret t r)) rs.
(* the number of actions as a rational *)
Definition qlen (rs : list Q) : Q := inject_Z (Z.of_nat (length rs)).

(* policy_vector with the fix flag as a parameter: a verbatim copy of Model.policy_vector in which
   the generated constant REGRET_DIVISOR_AT_LEAST_ONE is replaced by the argument `flag`. *)
Section Arith.
Variable F : Type.
Variables (f0 : F) (fadd fdiv : F -> F -> F) (fle flt : F -> F -> bool) (of_Z : Z -> F).
Definition policy_vector_with (flag : bool) (eps : F) (t : Z) (regrets : list F) : option (list F) :=
  let divisor := if flag then Z.max t 1 else t in
  if (divisor =? 0)%Z then
    if existsb (fun r => flt f0 r) regrets then None
    else let fl := map (fun _ => eps) regrets in Some (map (fun r => fdiv r (fsum F f0 fadd fl)) fl)
  else
    let fl := map (fun r => fmax F fle (fdiv r (of_Z divisor)) eps) regrets in
    let s := fsum F f0 fadd fl in
    let p := map (fun r => fdiv r s) fl in
    if forallb (fun x => fle f0 x && fle x (of_Z 1)) p then Some p else None.
End Arith.

Definition policy_vector_with_Q (flag : bool) : Q -> Z -> list Q -> option (list Q) :=
  policy_vector_with Q 0%Q Qplus Qdiv Qle_bool
    (fun a b => Qle_bool a b && negb (Qeq_bool a b)) inject_Z flag.

(* Profile::regret_vector floors the recorded regrets: r.max(REGRET_MIN) *)
Definition clamp (lo r : Q) : Q := if Qle_bool r lo then lo else r.

(* exact rational value of a generated float constant (binary32 named constants) *)
Definition fconst_Q (c : fconst) : Q :=
  match c with
  | FQ q => q
  | F32_MAX => inject_Z (2 ^ 128 - 2 ^ 104)          (* f32::MAX = (2 - 2^-23) * 2^127 *)
  | F32_MIN_POSITIVE => 1 # (2 ^ 126)                (* f32::MIN_POSITIVE = 2^-126 *)
  end.
