(* Spec/SpecTables.v -- well-formedness predicates for the table files (properties C17, C18).
   A table is a key-sorted association list (Model/Pgcopy.v: kv, cmp_key). *)
From Coq Require Import NArith ZArith List Bool.
From RP Require Import Base.Bits Gen.GenTables Model.Codec Model.Pgcopy Spec.SpecCodec.
Import ListNotations.
Open Scope N_scope.

(* consecutive keys compare Lt under cmp_key (the iteration order of a BTreeMap) *)
Fixpoint sorted_strict (t : list kv) : Prop :=
  match t with
  | [] => True
  | e :: r => match r with [] => True | e' :: _ => cmp_key (fst e) (fst e') = Lt end /\ sorted_strict r
  end.

(* metric: Pair (u64) -> f32 bits *)
Definition wf_metric_entry (e : kv) : Prop :=
  exists p d, e = ([p], [d]) /\ p < 2 ^ 64 /\ d < 2 ^ 32.
Definition wf_metric_table (t : list kv) : Prop := Forall wf_metric_entry t.

(* lookup: Observation (pocket, public) -> Abstraction code *)
Definition wf_lookup_entry (e : kv) : Prop :=
  exists pk pb a, e = ([pk; pb], [a]) /\ wf_obs (mkObs pk pb) /\ a < 2 ^ 64 /\ abs_of_u64 a <> None.
Definition wf_lookup_table (t : list kv) : Prop := Forall wf_lookup_entry t.

(* an edge that survives its u64 code *)
Definition wf_edge (e : edge) : Prop := edge_of_u64 (edge_to_u64 e) = Some e.

(* blueprint: (past, rank of the variant of present, present, future, edge key) -> (regret, policy) bits *)
Definition wf_profile_entry (e : kv) : Prop :=
  exists past ar present future t n d r p ed,
    e = ([past; ar; present; future; t; n; d], [r; p]) /\
    past < 2 ^ 64 /\ present < 2 ^ 64 /\ future < 2 ^ 64 /\
    abs_rank present = Some ar /\
    [t; n; d] = edge_key ed /\ wf_edge ed /\
    r < 2 ^ 32 /\ p < 2 ^ 32.
Definition wf_profile_table (t : list kv) : Prop := Forall wf_profile_entry t.

(* transitions: rows (prev, next, dx bits) *)
Definition wf_transitions_row (r : list N) : Prop :=
  exists a b c, r = [a; b; c] /\ a < 2 ^ 64 /\ b < 2 ^ 64 /\ c < 2 ^ 32.

(* the ORIGINAL loaders: `while reader.read_exact(&mut count).is_ok()` -- a short read of the
   field count silently ends the loop.  Same layout with l_strict = false. *)
Definition lax (L : layout) : layout :=
  mkLayout (l_nfields L) (l_wlengths L) (l_wwidths L) (l_seek L) (l_rnfields L) (l_rwidths L)
           (l_rasserts L) false.

(* ---------- side conditions on a layout under which save/load are inverse and every strict
   prefix is rejected (checked by computation on the four generated layouts) ---------- *)
(* the lengths the loader asserts (if any) are the lengths the writer writes *)
Fixpoint asserts_okb (lens : list N) (asserts : list (option N)) : bool :=
  match lens with
  | [] => true
  | l :: lens' => match asserts with
                  | [] => true
                  | Some a :: as' => (l =? a) && asserts_okb lens' as'
                  | None :: as' => asserts_okb lens' as'
                  end
  end.
Record layout_ok (L : layout) : Prop := mkLayoutOk {
  lo_lens : length (l_wlengths L) = N.to_nat (l_nfields L);   (* one length per field *)
  lo_ws : length (l_wwidths L) = N.to_nat (l_nfields L);      (* one value per field *)
  lo_rw : l_rwidths L = l_wwidths L;                          (* read widths = written widths *)
  lo_rn : l_rnfields L = l_nfields L;                         (* expected = written field count *)
  lo_nf : l_nfields L < 65535;                                (* never confused with the trailer *)
  lo_as : asserts_okb (l_wlengths L) (l_rasserts L) = true;
  lo_l32 : Forall (fun l => l < 2 ^ 32) (l_wlengths L);
  lo_seek : length PG_HEADER = N.to_nat (l_seek L) }.         (* the loader skips exactly the header *)
