(* Spec/SpecTransport.v -- specification vocabulary for property C12 (earth mover's distances).
   Part Q: exact rationals (equity variation, 1-D Wasserstein distance by the CDF formula, couplings on
           the equity grid, the greedy transport heuristic).
   Part R: exact reals (the log-domain Sinkhorn iteration with the true exp / ln).
   Only definitions; no proofs in this file. *)
From Coq Require Import NArith ZArith QArith Qminmax List Bool Reals.
From RP Require Import Model.Emd.
Import ListNotations.

(* ------------------------------------------------------------------ *)
(* Part Q                                                             *)
(* ------------------------------------------------------------------ *)
Local Open Scope Q_scope.

(* the exact-rational instance of the arithmetic *)
Definition qabs (x : Q) : Q := if Qle_bool 0 x then x else - x.
Definition qltb (a b : Q) : bool := negb (Qle_bool b a).           (* a < b *)
Definition qnat (n : nat) : Q := inject_Z (Z.of_nat n).
Definition var := variation Q 0 Qplus Qminus Qdiv qabs (fun n => inject_Z (Z.of_nat n)).

(* finite sums *)
Definition qsum (l : list Q) : Q := fold_right Qplus 0 l.
(* sum_{k = a .. a+len-1} f k *)
Definition qsum_range (a len : nat) (f : nat -> Q) : Q := qsum (map f (seq a len)).

(* a density on an n-point grid: non-negative entries summing to 1 *)
Definition is_density (xs : list Q) : Prop := Forall (fun x => 0 <= x) xs /\ qsum xs == 1.

(* F(k) = x_1 + ... + x_k, the CDF after k grid points (k = 0 .. n) *)
Definition prefix_sum (xs : list Q) (k : nat) : Q := qsum (firstn k xs).
(* |F(k) - G(k)| *)
Definition cdf_gap (xs ys : list Q) (k : nat) : Q := qabs (prefix_sum xs k - prefix_sum ys k).

(* 1-D Wasserstein distance of two densities on the grid 0, 1/(n-1), ..., 1 by the CDF formula:
   grid spacing times the sum over the n-1 interior cuts of |F(k) - G(k)| *)
Definition W1cdf (xs ys : list Q) : Q :=
  qsum_range 1 (length xs - 1) (cdf_gap xs ys) / qnat (length xs - 1).

(* a coupling (transport plan) between xs and ys: an n x n matrix (0-based indices) of non-negative
   rationals with row sums xs and column sums ys *)
Definition is_coupling (n : nat) (P : nat -> nat -> Q) (xs ys : list Q) : Prop :=
  (forall i j, (i < n)%nat -> (j < n)%nat -> 0 <= P i j) /\
  (forall i, (i < n)%nat -> qsum_range 0 n (fun j => P i j) == nth i xs 0) /\
  (forall j, (j < n)%nat -> qsum_range 0 n (fun i => P i j) == nth j ys 0).
(* ground distance between grid points i and j: |i - j| / (n-1) *)
Definition grid_dist (n i j : nat) : Q := qabs (qnat i - qnat j) / qnat (n - 1).
Definition coupling_cost (n : nat) (P : nat -> nat -> Q) : Q :=
  qsum_range 0 n (fun i => qsum_range 0 n (fun j => P i j * grid_dist n i j)).

(* the monotone (north-west / quantile) coupling: the mass of the overlap of the CDF intervals
   [F(i), F(i+1)] and [G(j), G(j+1)] *)
Definition overlap (a1 a2 b1 b2 : Q) : Q := Qmax 0 (Qmin a2 b2 - Qmax a1 b1).
Definition monotone_coupling (xs ys : list Q) (i j : nat) : Q :=
  overlap (prefix_sum xs i) (prefix_sum xs (S i)) (prefix_sum ys j) (prefix_sum ys (S j)).

(* ---- greedy heuristic ---- *)
Definition move := (N * N * Q * Q)%type.                          (* source, target, mass, distance *)
Definition mv_src (m : move) : N := fst (fst (fst m)).
Definition mv_dst (m : move) : N := snd (fst (fst m)).
Definition mv_mass (m : move) : Q := snd (fst m).
Definition mv_dist (m : move) : Q := snd m.
Definition greedyQ (dist : N -> N -> Q) := greedy Q 0 Qminus qltb Qle_bool dist.
Definition greedy_costQ := greedy_cost Q 0 Qplus Qmult.
(* density of bucket k in a histogram (0 off the support) *)
Definition lookup (k : N) (l : list (N * Q)) : Q :=
  match find (fun kv => N.eqb (fst kv) k) l with Some kv => snd kv | None => 0 end.
Definition total (l : list (N * Q)) : Q := qsum (map snd l).
Definition shipped_out (x : N) (mv : list move) : Q :=
  qsum (map (fun m => if N.eqb (mv_src m) x then mv_mass m else 0) mv).
Definition shipped_in (y : N) (mv : list move) : Q :=
  qsum (map (fun m => if N.eqb (mv_dst m) y then mv_mass m else 0) mv).
Definition shipped_total (mv : list move) : Q := qsum (map mv_mass mv).
(* a feasible transport plan given as a list of moves: non-negative masses, the recorded distance is
   the metric's, every source ships exactly its density and every sink receives exactly its density *)
Definition feasible_plan (dist : N -> N -> Q) (piles sinks : list (N * Q)) (mv : list move) : Prop :=
  Forall (fun m => 0 <= mv_mass m /\ mv_dist m == dist (mv_src m) (mv_dst m)) mv /\
  (forall x, shipped_out x mv == lookup x piles) /\
  (forall y, shipped_in y mv == lookup y sinks).
Definition nonneg_hist (l : list (N * Q)) : Prop := Forall (fun kv => 0 <= snd kv) l.

Local Close Scope Q_scope.

(* ------------------------------------------------------------------ *)
(* Part R                                                             *)
(* ------------------------------------------------------------------ *)
Local Open Scope R_scope.

Definition rltb (a b : R) : bool := if Rlt_dec a b then true else false.
Definition rleb (a b : R) : bool := if Rle_dec a b then true else false.
Definition rsum : list R -> R := fsum R 0 Rplus.

Section SinkhornR.
Variables (temperature tolerance minpos : R) (dist : N -> N -> R).
Definition sinkhornR := sinkhorn R 0 Rplus Rminus Rdiv exp ln Rabs rltb rleb temperature tolerance minpos dist.
Definition minimizeR := minimize R 0 Rplus Rminus Rdiv exp ln Rabs rltb rleb temperature tolerance minpos INR dist.
Definition rhs_updateR := rhs_update R 0 Rplus Rminus Rdiv exp ln rleb temperature minpos dist.
Definition lhs_updateR := lhs_update R 0 Rplus Rminus Rdiv exp ln rleb temperature minpos dist.
Definition planR := plan R Rplus Rminus Rdiv exp temperature dist.
Definition couplingR := coupling R Rplus Rminus Rdiv exp temperature dist.
Definition costR := cost R 0 Rplus Rminus Rmult Rdiv exp temperature dist.
(* the MIN_POSITIVE clamp does not fire in the update of the potentials of the histogram `h`
   against the potentials `pot` *)
Definition clamp_inactive (h : hist R) (pot : potential R) : Prop :=
  forall xp yq, In xp pot -> In yq h -> minpos <= exp (snd xp - dist (fst yq) (fst xp) / temperature).
End SinkhornR.

Definition positive_hist (h : hist R) : Prop := Forall (fun kv => 0 < snd kv) h.
(* column j of a matrix given as a list of rows *)
Definition column (j : nat) (m : list (list R)) : list R := map (fun row => nth j row 0) m.
