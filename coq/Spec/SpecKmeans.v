(* Spec/SpecKmeans.v -- definitions used in the statements of property C13 (one k-means step:
   Model/Kmeans.v).  Only definitions, no proofs. *)
From Coq Require Import NArith ZArith List Bool QArith Sorted.
From RP Require Import Base.Bits Model.Codec Model.Kmeans.
Import ListNotations.
Close Scope Q_scope.

(* ---------- the order on the (non-NaN) distances ---------- *)

(* A strict weak order: the comparison of the non-NaN values of a floating point type is one
   (+0.0 and -0.0 are different values neither of which is below the other, so the comparison is
   NOT a strict total order with respect to Leibniz equality).  Incomparable = "equally near". *)
Record strict_weak_order {F : Type} (flt : F -> F -> bool) : Prop := mk_swo {
  swo_irrefl  : forall x, flt x x = false;
  swo_trans   : forall x y z, flt x y = true -> flt y z = true -> flt x z = true;
  swo_cotrans : forall x y z, flt x y = true -> flt x z = true \/ flt z y = true }.

(* A strict total order (w.r.t. Leibniz equality); every strict total order is a strict weak
   order (Proofs/C13_Neighborhood.v: strict_total_is_weak). *)
Record strict_total_order {F : Type} (flt : F -> F -> bool) : Prop := mk_sto {
  sto_irrefl : forall x, flt x x = false;
  sto_trans  : forall x y z, flt x y = true -> flt y z = true -> flt x z = true;
  sto_total  : forall x y, flt x y = true \/ x = y \/ flt y x = true }.

(* ---------- assignment of points to centroids ---------- *)

(* index of the nearest centroid of a column of distances (0 when the model aborts; the theorems
   only use it where [neighborhood] is [Some]) *)
Definition nearest {F : Type} (flt : F -> F -> bool) (column : list (option F)) : nat :=
  match neighborhood F flt column with Some (j, _) => j | None => O end.

(* a column of k distances none of which is a NaN *)
Definition good_column {F : Type} (k : nat) (column : list (option F)) : Prop :=
  length column = k /\ ~ In None column.

(* the indices i of the points assigned to centroid j, in increasing order *)
Definition members {F : Type} (flt : F -> F -> bool) (columns : list (list (option F))) (j : nat)
  : list nat :=
  filter (fun i => Nat.eqb (nearest flt (nth i columns [])) j) (seq 0 (length columns)).

(* ---------- histograms ---------- *)

(* merging a sequence of histograms into the empty one, in order *)
Definition absorb_all (hs : list hist) : hist := fold_left absorb hs [].

(* number of samples of abstraction [a] in a histogram (duplicate keys, if any, are summed) *)
Definition count (a : N) (h : hist) : N :=
  fold_right (fun kc s => if N.eqb (fst kc) a then N.add (snd kc) s else s) 0%N h.

Definition sumN (l : list N) : N := fold_right N.add 0%N l.

(* the representation invariant of a BTreeMap: strictly increasing keys *)
Definition sorted_keys (h : hist) : Prop := StronglySorted N.lt (map fst h).

(* ---------- the bucket metric ---------- *)

(* code of the i-th bucket of a street (0 when the street is invalid) *)
Definition bucket_code (street : N) (i : nat) : N :=
  match abs_make street (N.of_nat i) with Some a => abits a | None => 0%N end.

(* the pairs (i, j) with j < i < k in the order in which Layer::metric visits them *)
Definition tri (k : nat) : list (nat * nat) :=
  flat_map (fun i => map (fun j => (i, j)) (seq 0 i)) (seq 0 k).

(* position of the pair (i, j), j < i, in that enumeration *)
Definition tri_index (i j : nat) : nat := (i * (i - 1) / 2 + j)%nat.

Section Metric.
Variable F : Type.
Variables (fadd fdiv : F -> F -> F) (fle : F -> F -> bool) (two fminpos : F).
Variable dist : nat -> nat -> F.
(* symmetrised distance between the centroids i and j *)
Definition sym (i j : nat) : F := fdiv (fadd (dist i j) (dist j i)) two.
(* Metric::from: the fold of f32::max over all symmetrised distances, starting at MIN_POSITIVE *)
Definition metric_max (k : nat) : F :=
  fold_left (fun a ij => fmax F fle a (sym (fst ij) (snd ij))) (tri k) fminpos.
End Metric.

(* ---------- the instance over the rationals ---------- *)

Definition Qltb (x y : Q) : bool := negb (Qle_bool y x).
Definition Qtwo : Q := 2 # 1.
(* f32::MIN_POSITIVE = 2^-126 *)
Definition Q_MIN_POSITIVE : Q := 1 # (2 ^ 126).

Definition neighborhood_Q := neighborhood Q Qltb.
Definition next_step_Q := next_step Q Qltb.
Definition lookup_step_Q := lookup_step Q Qltb.
Definition metric_step_Q (fminpos : Q) := metric_step Q Qplus Qdiv Qle_bool Qtwo fminpos.
Definition sym_Q := sym Q Qplus Qdiv Qtwo.
Definition metric_max_Q (fminpos : Q) := metric_max Q Qplus Qdiv Qle_bool Qtwo fminpos.
