(* Spec/SpecIso.v -- what a suit relabeling of a card set IS (property C05), independent of the
   shift-and-mask implementation: card 4*rank + suit goes to 4*rank + pi(suit). *)
From Coq Require Import NArith List Bool.
From RP Require Import Base.Bits Gen.GenPerm Model.Codec.
Import ListNotations.
Open Scope N_scope.

Definition is_perm4 (p : list N) : bool :=
  Nat.eqb (length p) 4 && forallb (fun s => existsb (N.eqb s) p) [0; 1; 2; 3].
Definition relabel_card (p : list N) (c : N) : N := 4 * (c / 4) + nth (N.to_nat (c mod 4)) p 0.
Definition relabel_hand (p : list N) (h : N) : N := mask_of_bits (map (relabel_card p) (hand_cards h)).
Definition relabel_obs (p : list N) (o : obs) : obs := mkObs (relabel_hand p (pocket o)) (relabel_hand p (public o)).
Definition obs_eqb (a b : obs) : bool := N.eqb (pocket a) (pocket b) && N.eqb (public a) (public b).
(* two observations are strategically identical: one is a suit relabeling of the other *)
Definition isomorphic (a b : obs) : bool := existsb (fun p => obs_eqb (relabel_obs p a) b) EXHAUST.
