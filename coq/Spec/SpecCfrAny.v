(* Spec/SpecCfrAny.v -- a weaker shape predicate than es_shape (Spec/SpecCfr.v) for property C08:
   nothing at all is demanded of the traverser's own probabilities (sigma on the edges below a
   KWalker node may be 0 -- an action the current strategy never plays -- or anything else), and the
   "at most one child below opponent / chance nodes" clause is dropped.  What remains is what the
   regret computation really needs: the sampled opponent probabilities it divides by are > 0 and
   chance edges carry 1.  Definitions only. *)
From Coq Require Import NArith QArith List Bool.
From RP Require Import Model.Cfr Spec.SpecCfr.
Import ListNotations.
Open Scope Q_scope.

Definition sigma_ok_any (k : kind) (s : Q) : Prop :=
  match k with KChance => s == 1 | KOpponent => 0 < s | KWalker => True end.

Inductive es_shape_any : qtree -> Prop :=
| ESA_node : forall k b p ch,
    Forall (fun est => sigma_ok_any k (snd (fst est))) ch ->
    Forall (fun est => es_shape_any (snd est)) ch ->
    es_shape_any (T k b p ch).

(* ex_tree3 of Spec/SpecCfr.v with the probability of the first action of the top traverser node
   set to 0 (and the second to 1): not of es_shape, but of es_shape_any *)
Definition ex_tree3_zero : qtree :=
  T KChance 0%N 0
    [(9%N, 1,
      T KOpponent 1%N 0
        [(7%N, 1#2,
          T KWalker 2%N 0
            [(2%N, 0, T KWalker 3%N 1 []);
             (3%N, 1,
              T KWalker 4%N 0
                [(2%N, 1#3, T KChance 5%N (-2) []);
                 (4%N, 2#3, T KOpponent 6%N 0 [(5%N, 1#5, T KWalker 7%N 6 [])])])])])].
