(* Spec/SpecStrength.v -- the rule-book value denoted by an evaluator Strength:
   class (by name, not by enum position) and tie-break ranks (fields, then kickers from the top). *)
From Coq Require Import NArith List Bool.
From RP Require Import Base.Bits Gen.GenCards Model.Codec Model.Evaluator Spec.SpecPoker.
Import ListNotations.
Open Scope N_scope.

Definition class_of_category (c : category) : option hand_class :=
  match c with
  | HighCard => Some CHigh | OnePair => Some CPair | TwoPair => Some CTwoPair | ThreeOAK => Some CTrips
  | Straight => Some CStraight | Flush => Some CFlush | FullHouse => Some CFull | FourOAK => Some CQuads
  | StraightFlush => Some CStraightFlush | RMAX => None
  end.
Definition kicker_ranks (k : N) : list N := rev (bits_from 16 0 k).
Definition strength_value (d : deck) (s : strength) : N :=
  let v := svalue s in
  match class_of_category (rcat v) with
  | None => 0
  | Some cls =>
      let fields := match rcat v with TwoPair | FullHouse => [r1 v; r2 v] | _ => [r1 v] end in
      encode_value (class_value d cls) (fields ++ kicker_ranks (skicks s))
  end.
