(* Spec/SpecPots.v -- layered main/side pot specification, written from the property text (C04):
   levels = the distinct positive commitments of the contesting (non-folded) players;
   layer k holds what every player (folded ones included) paid between level k-1 and level k;
   it is won by the strongest contesting hands that paid into it (commitment >= level k),
   split equally; fair_share i = sum over layers of [i wins layer] * chips / #winners  (a rational). *)
From Coq Require Import ZArith NArith QArith List Bool.
From RP Require Import Model.Showdown.
Import ListNotations.
Open Scope Z_scope.

Definition contesting (l : list pay) : list pay := filter (fun p => negb (is_fold (status p))) l.
Fixpoint insert_sorted (x : Z) (l : list Z) : list Z :=
  match l with
  | [] => [x]
  | y :: r => if x <? y then x :: l else if x =? y then l else y :: insert_sorted x r
  end.
Definition levels (l : list pay) : list Z :=
  fold_right insert_sorted [] (filter (fun r => 0 <? r) (map risked (contesting l))).
Definition layer_chips (l : list pay) (lo hi : Z) : Z :=
  sumZ (map (fun p => Z.min (risked p) hi - Z.min (risked p) lo) l).
Definition eligible (hi : Z) (p : pay) : bool := negb (is_fold (status p)) && (hi <=? risked p).
Definition layer_winners (l : list pay) (hi : Z) : list bool :=
  match maxN (map skey (filter (eligible hi) l)) with
  | None => map (fun _ => false) l
  | Some b => map (fun p => eligible hi p && N.eqb (skey p) b) l
  end.
Definition count_true (w : list bool) : Z := Z.of_nat (length (filter (fun b => b) w)).

(* fair rational share per seat, and the list of (chips, winner flags) per layer *)
Fixpoint fair_from (l : list pay) (lo : Z) (lv : list Z) (acc : list Q) (won : list (Z * list bool))
  : list Q * list (Z * list bool) :=
  match lv with
  | [] => (acc, won)
  | hi :: r =>
      let w := layer_winners l hi in
      let n := count_true w in
      let c := layer_chips l lo hi in
      fair_from l hi r
        (map (fun ab => if (snd ab : bool) then (fst ab + (c # 1) / (n # 1))%Q else fst ab) (combine acc w))
        (won ++ [(c, w)])
  end.
Definition fair_layers (l : list pay) := fair_from l 0 (levels l) (map (fun _ => 0%Q) l) [].
Definition fair_share (l : list pay) : list Q := fst (fair_layers l).

(* number of merged pots seat i wins: maximal runs of consecutive layers with one winner set *)
Definition same_flags (a b : list bool) : bool := forallb (fun ab => Bool.eqb (fst ab) (snd ab)) (combine a b).
Fixpoint runs (i : nat) (prev : option (list bool)) (ws : list (list bool)) : Z :=
  match ws with
  | [] => 0
  | w :: r =>
      (if nth i w false && negb (match prev with Some p => same_flags p w | None => false end) then 1 else 0)
      + runs i (Some w) r
  end.
Definition pots_won (l : list pay) (i : nat) : Z := runs i None (map snd (snd (fair_layers l))).

(* ledgers the property quantifies over: every contesting player matched the largest commitment or is
   all-in for less; no folded player committed more than that; somebody contests *)
Definition wf_ledger (l : list pay) : bool :=
  match map risked (contesting l) with
  | [] => false
  | x :: r =>
      let m := fold_left Z.max r x in
      (0 <=? m) &&            (* commitments are chip counts: never negative *)
      forallb (fun p => match status p with
                        | Betting => risked p =? m
                        | Shoving => (0 <? risked p) && (risked p <=? m)
                        | Folding => (0 <=? risked p) && (risked p <=? m)
                        end) l
  end.

Definition Qlt_bool (a b : Q) : bool := Qle_bool a b && negb (Qeq_bool a b).
(* the payout meets the specification *)
Definition payout_ok (l : list pay) (rw : list Z) : bool :=
  let f := fair_share l in
  (Nat.eqb (length rw) (length l))
  && (sumZ rw =? sumZ (map risked l))
  && forallb (fun x =>
        let '(i, (p, (ri, fi))) := x in
        (if is_fold (status p) then ri =? 0 else true)
        && (0 <=? ri)
        && (if Qeq_bool fi 0 then ri =? 0
            else Qlt_bool (- (Z.max 1 (pots_won l i) # 1)) ((ri # 1) - fi) && Qlt_bool ((ri # 1) - fi) (Z.max 1 (pots_won l i) # 1))
        && (ri <=? sumZ (map (fun q => Z.min (risked q) (risked p)) l)))
      (combine (seq 0 (length l)) (combine l (combine rw f))).
