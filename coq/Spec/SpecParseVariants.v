(* Spec/SpecParseVariants.v -- definitions used in the statements of property C16.

   1. [parse_card_with], [parse_obs_with], [parse_action_with]: the three parsers of
      Model/Parse.v whose shape depends on a generated flag of Gen/GenFixes.v, copied verbatim
      with the flag turned into a parameter.  Proofs/C16_Total.v proves that instantiating
      the parameter with the generated flag gives back the model's parser
      ([parse_card_with_flag] etc., by [reflexivity]), and exhibits concrete strings on which
      the variants with the flag [false] abort / return an invalid observation.
   2. [wf_action']: the actions whose printed form parses back (any number of revealed cards).
   No proofs in this file. *)
From Coq Require Import NArith ZArith List Bool.
From RP Require Import Base.Bits Gen.GenLib Gen.GenFixes Model.Codec Model.Parse.
Import ListNotations.
Open Scope N_scope.

Definition parse_card_with (checks_boundary : bool) (s : str) : pres N :=
  let t := trim s in
  if byte_len t =? 2 then
    if checks_boundary && negb (is_boundary t 1) then PErr
    else if negb (is_boundary t 1) then PPanic
    else match t with
         | [a; b] => match parse_rank [a] with
                     | POk r => match parse_suit [b] with POk su => POk (card_of_rank_suit r su) | PErr => PErr | PPanic => PPanic end
                     | PErr => PErr | PPanic => PPanic end
         | _ => PPanic
         end
  else PErr.

Definition parse_obs_with (checks_disjoint : bool) (s : str) : pres obs :=
  let t := trim s in
  let '(a, b) := match split_once 126 t [] with Some p => p | None => (t, []) end in
  match parse_hand a, parse_hand b with
  | PPanic, _ | _, PPanic => PPanic
  | POk pk, POk pb =>
      let n := hand_size pb in
      if (hand_size pk =? 2) && ((n =? 0) || (n =? 3) || (n =? 4) || (n =? 5))
         && (if checks_disjoint then N.land pk pb =? 0 else true)
      then POk (mkObs pk pb) else PErr
  | _, _ => PErr
  end.

Definition parse_action_with (checks_empty : bool) (s : str) : pres action :=
  match split_ws s with
  | [] => if checks_empty then PErr else PPanic      (* parts[0] *)
  | w :: rest =>
      let u := to_upper w in
      let amount (mk : Z -> action) :=
        match rest with
        | a :: _ => match parse_i16 a with Some z => POk (mk z) | None => PErr end
        | [] => PErr end in
      if str_eqb u w_check then POk Check
      else if str_eqb u w_fold then POk Fold
      else if str_eqb u w_call then amount Call
      else if str_eqb u w_raise then amount Raise
      else if str_eqb u w_shove then amount Shove
      else if str_eqb u w_blind then amount Blind
      else if str_eqb u w_deal then
        match parse_hand (join_sp rest) with POk h => POk (Draw h) | PErr => PErr | PPanic => PPanic end
      else PErr
  end.

(* Actions that survive printing and re-parsing: chip amounts fit an i16; a Draw reveals any
   set of cards of the 52-card deck. *)
Definition wf_action' (a : action) : Prop :=
  match a with
  | Fold | Check => True
  | Call c | Raise c | Shove c | Blind c => (-32768 <= c <= 32767)%Z
  | Draw h => h < 2 ^ 52
  end.

(* Player turns that survive printing and re-parsing: the seat index fits a usize. *)
Definition wf_turn (t : pturn) : Prop :=
  match t with TChoice i => i < 2 ^ 64 | TTerminal | TChance => True end.
