(* Spec/SpecNLHE.v -- a rule-book No-Limit Hold'em machine for the configured two-seat game,
   written from the property text (C03), NOT from the engine: it REMEMBERS what the engine infers
   (who has acted since the last raise, the size of the last raise, whether a card is awaited).
   Rotation: ring rule as the anchors describe it (seat left of the button posts the small blind
   and acts first on every street).
   Legal moves of the player to act, with o = outstanding amount, b = chips behind:
     fold iff o > 0;  check iff o = 0;  call exactly o iff 0 < o < b;  all-in exactly b;
     raise x iff o + max(last raise, big blind) <= x <= b - 1;
   a street is dealt (exactly the right number of unseen cards) only once every live player who
   can still act has acted and matched; the hand is over on a fold, after river betting closes,
   or when the board is complete and all live players are all-in. *)
From Coq Require Import ZArith NArith List Bool.
From RP Require Import Base.Bits Gen.GenLib Model.Codec.
Import ListNotations.
Open Scope Z_scope.

Record nlhe := mkNlhe {
  behind : list Z;          (* chips not yet committed, per seat *)
  instreet : list Z;        (* chips committed on the current street, per seat *)
  total : list Z;           (* chips committed in the hand, per seat *)
  folded : list bool;
  acted : list bool;        (* has acted since the last raise / since the street began *)
  last_raise : Z;           (* size of the last raise on this street, 0 if none *)
  nstreet : Z;              (* 0 pre-flop .. 3 river *)
  to_act : nat;
  awaiting : bool;          (* waiting for the next street to be dealt *)
  over : bool;              (* hand finished *)
  holes : list N;           (* private cards per seat *)
  community : N             (* board *)
}.

Definition nthZ (l : list Z) (i : nat) : Z := nth i l 0.
Definition nthB (l : list bool) (i : nat) : bool := nth i l false.
Definition setZ (l : list Z) (i : nat) (v : Z) : list Z :=
  map (fun kx => if Nat.eqb (fst kx) i then v else snd kx) (combine (seq 0 (length l)) l).
Definition setB (l : list bool) (i : nat) (v : bool) : list bool :=
  map (fun kx => if Nat.eqb (fst kx) i then v else snd kx) (combine (seq 0 (length l)) l).
Definition seats2 : list nat := [0; 1]%nat.

Definition maxin (s : nlhe) : Z := fold_left Z.max (instreet s) 0.
Definition slive (s : nlhe) : list nat := filter (fun i => negb (nthB (folded s) i)) seats2.
(* live players who still have chips behind *)
Definition canact (s : nlhe) : list nat :=
  filter (fun i => negb (nthB (folded s) i) && negb (nthZ (behind s) i =? 0)) seats2.
(* betting is closed: everyone who can act has acted and matched the largest bet *)
Definition closed (s : nlhe) : bool :=
  forallb (fun i => nthB (acted s) i && (nthZ (instreet s) i =? maxin s)) (canact s).
Definition with_flags (s : nlhe) (aw ov : bool) : nlhe :=
  mkNlhe (behind s) (instreet s) (total s) (folded s) (acted s) (last_raise s) (nstreet s) (to_act s) aw ov (holes s) (community s).
(* after every move: is the hand over, is a card awaited? *)
Definition settle_round (s : nlhe) : nlhe :=
  if Nat.eqb (length (slive s)) 1 then with_flags s false true
  else if closed s then (if nstreet s =? 3 then with_flags s (awaiting s) true else with_flags s true (over s))
  else s.

Definition sturn (s : nlhe) : Z * Z :=   (* (0,_) terminal, (1,_) chance, (2,i) player i *)
  if over s then (0, 0) else if awaiting s then (1, 0) else (2, Z.of_nat (to_act s)).
Definition outstanding (s : nlhe) : Z := maxin s - nthZ (instreet s) (to_act s).
Definition unseen (d : deck) (s : nlhe) : N :=
  N.lxor (fold_left N.lor (holes s) (community s)) (hand_mask d).
Definition cards_due (st : Z) : Z := if st =? 0 then 3 else 1.

(* the rule book *)
Definition slegal (d : deck) (s : nlhe) (a : action) : bool :=
  if over s then false
  else if awaiting s then
    match a with
    | Draw h => (N.eqb (N.land h (N.lxor (unseen d s) 18446744073709551615%N)) 0)
                && (Z.of_N (hand_size h) =? cards_due (nstreet s))
    | _ => false
    end
  else
    let o := outstanding s in
    let b := nthZ (behind s) (to_act s) in
    match a with
    | Fold => 0 <? o
    | Check => o =? 0
    | Call c => (0 <? o) && (o <? b) && (c =? o)
    | Shove c => c =? b
    | Raise c => (o + Z.max (last_raise s) B_BLIND <=? c) && (c <=? b - 1)
    | Draw _ => false
    | Blind _ => false                (* blinds are posted before the first decision *)
    end.

Definition sput (s : nlhe) (p : nat) (x : Z) : nlhe :=
  mkNlhe (setZ (behind s) p (nthZ (behind s) p - x)) (setZ (instreet s) p (nthZ (instreet s) p + x))
         (setZ (total s) p (nthZ (total s) p + x))
         (folded s) (acted s) (last_raise s) (nstreet s) (to_act s) (awaiting s) (over s) (holes s) (community s).
Definition with_turn (s : nlhe) (fo ac : list bool) (lr : Z) (p : nat) : nlhe :=
  mkNlhe (behind s) (instreet s) (total s) fo ac lr (nstreet s) p false false (holes s) (community s).

(* a betting move by the player to act *)
Definition sact (s : nlhe) (a : action) : nlhe :=
  let p := to_act s in
  let o := outstanding s in
  let s1 :=
    match a with
    | Fold => with_turn s (setB (folded s) p true) (setB (acted s) p true) (last_raise s) p
    | Check => with_turn s (folded s) (setB (acted s) p true) (last_raise s) p
    | Call x => let s' := sput s p x in with_turn s' (folded s') (setB (acted s') p true) (last_raise s') p
    | Raise x | Shove x =>
        let s' := sput s p x in
        if o <? x   (* a bet above the outstanding amount re-opens the action *)
        then with_turn s' (folded s') (setB [false; false] p true) (x - o) p
        else with_turn s' (folded s') (setB (acted s') p true) (last_raise s') p
    | _ => s
    end in
  let q := (1 - p)%nat in
  let s2 := if negb (nthB (folded s1) q) && negb (nthZ (behind s1) q =? 0)
            then with_turn s1 (folded s1) (acted s1) (last_raise s1) q else s1 in
  settle_round s2.

(* dealing the next street: bets are collected, nobody has acted, first to act is the seat
   left of the button (seat 1) if it can act, else seat 0 *)
Definition sdeal (s : nlhe) (h : N) : nlhe :=
  let s1 := mkNlhe (behind s) [0; 0] (total s) (folded s) [false; false] 0 (nstreet s + 1) (to_act s) false false
                   (holes s) (N.lor (community s) h) in
  let c := canact s1 in
  let ta := if existsb (Nat.eqb 1) c then 1%nat else if existsb (Nat.eqb 0) c then 0%nat else to_act s1 in
  settle_round (mkNlhe (behind s1) (instreet s1) (total s1) (folded s1) (acted s1) (last_raise s1) (nstreet s1) ta false false
                       (holes s1) (community s1)).

(* a freshly dealt hand after the blinds: seat 0 (button) has posted the big blind, seat 1 the small blind *)
Definition sroot (hs : list N) : nlhe :=
  settle_round (mkNlhe [STACK - B_BLIND; STACK - S_BLIND] [B_BLIND; S_BLIND] [B_BLIND; S_BLIND]
                       [false; false] [false; false] 0 0 1%nat false false hs 0%N).
Definition sstep (s : nlhe) (a : action) : nlhe := match a with Draw h => sdeal s h | _ => sact s a end.
Fixpoint srun (d : deck) (s : nlhe) (acts : list action) : option nlhe :=
  match acts with
  | [] => Some s
  | a :: r => if slegal d s a then srun d (sstep s a) r else None
  end.
