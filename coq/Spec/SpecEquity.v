(* Spec/SpecEquity.v -- statement-level definitions for property C07 (river equity, turn histogram):
   the showdown of hero against one villain holding, the list of villain holdings, the river
   successors of a turn observation, the count list of a list of buckets.  Definitions only. *)
From Coq Require Import NArith List Bool.
From RP Require Import Base.Bits Model.Codec Model.Evaluator Model.Equity Spec.SpecCombs Spec.SpecPoker.
Import ListNotations.
Open Scope N_scope.

(* hero's cards: pocket and board together *)
Definition hero_hand (o : obs) : N := N.lor (pocket o) (public o).
(* villain's cards when he holds v: the board and v *)
Definition villain_hand (o : obs) (v : N) : N := N.lor (public o) v.
(* every two-card holding made of unseen cards, each once *)
Definition holdings (d : deck) (o : obs) : list N := spec_hands d 2 (hero_hand o).
(* result of the showdown hero against holding v, in the order cmp_strength (Gt: hero wins) *)
Definition showdown (d : deck) (o : obs) (v : N) : option comparison :=
  match strength_of d (hero_hand o), strength_of d (villain_hand o v) with
  | Some a, Some b => Some (cmp_strength d a b)
  | _, _ => None
  end.
Definition hero_wins (d : deck) (o : obs) (v : N) : bool :=
  match showdown d o v with Some Gt => true | _ => false end.
Definition hero_decided (d : deck) (o : obs) (v : N) : bool :=
  match showdown d o v with Some Gt | Some Lt => true | _ => false end.

(* the river successors of a turn observation: one more board card out of the unseen ones *)
Definition river_successors (d : deck) (o : obs) : list obs :=
  map (fun c => mkObs (pocket o) (N.lor (public o) c)) (spec_hands d 1 (hero_hand o)).
(* (wins, decided) of an observation, (0, 0) where equity_counts is undefined *)
Definition counts_or_zero (d : deck) (o : obs) : N * N :=
  match equity_counts d o with Some wn => wn | None => (0, 0) end.
(* the count list obtained by inserting the keys one by one *)
Definition hist_of (ks : list N) : list (N * N) := fold_left (fun h k => bump k h) ks [].
(* number of occurrences of k *)
Definition occurrences (k : N) (ks : list N) : N := N.of_nat (length (filter (N.eqb k) ks)).

(* the two counts of the property text, from the rule book alone (SpecPoker.best5: value of the best
   five-card sub-hand), hero's value computed once: (#holdings hero beats, #holdings not tied) *)
Definition spec_counts (d : deck) (o : obs) : N * N :=
  let hv := SpecPoker.best5 d (hand_cards (hero_hand o)) in
  let res := map (fun v => N.compare hv (SpecPoker.best5 d (hand_cards (villain_hand o v)))) (holdings d o) in
  (N.of_nat (length (filter (fun c => match c with Gt => true | _ => false end) res)),
   N.of_nat (length (filter (fun c => match c with Eq => false | _ => true end) res))).
