(* Spec/SpecSample.v -- the predicates of property C10 over the sampled tree of Model/Sample.v:
   external-sampling shape of a node, children are the parent after a permitted action, leaves
   are finished zero-sum hands, nodes of one information set agree on what the player sees, a
   newly met bucket starts uniform.  A node is given as the subtree hanging from it, so that its
   children are at hand.  Definitions only. *)
From Coq Require Import ZArith NArith List Bool QArith.
From RP Require Import Base.Bits Gen.GenLib Gen.GenFixes Model.Codec Model.Showdown Model.Game Model.Tree
                       Model.Sample Spec.SpecGameInv Spec.SpecTree.
Import ListNotations.
Open Scope Z_scope.

Definition s_game (s : stree) : game := n_game (root_node s).
Definition s_history (s : stree) : list edge := n_history (root_node s).
(* the menu Node::choices computes at the node *)
Definition menu_of (s : stree) : option (list edge) := node_menu (s_game s) (s_history s).

(* ---------- external-sampling shape ----------
   traverser: the edges of the children are the menu, in its order; the menu has no repetition, so
   every action on it has exactly one child;  opponent and chance: exactly one child, its edge on
   the menu;  nobody to act: no child (and nothing on the menu). *)
Definition es_node (walker : Z) (s : stree) : Prop :=
  exists m, menu_of s = Some m /\
    match who_acts (s_game s) walker with
    | WTraverser => map fst (kids s) = m /\ NoDup m /\ m <> []
    | WOpponent | WChance => exists e c, kids s = [(e, c)] /\ In e m
    | WNobody => kids s = [] /\ m = []
    end.

(* ---------- children ----------
   the action an edge stands for: Game::actionize, a Draw carrying the dealt cards *)
Definition edge_action (g : game) (e : edge) (dealt : N) : action :=
  match e with EDraw => Draw dealt | _ => actionize g e end.
(* every child hangs on a menu edge, carries the parent's history extended by that edge, and its
   state is the parent's after the edge's action, which Game::is_allowed accepts *)
Definition child_ok (d : deck) (s : stree) : Prop :=
  forall e c, In (e, c) (kids s) ->
    (exists m, menu_of s = Some m /\ In e m) /\
    s_history c = s_history s ++ [e] /\
    exists dealt,
      is_allowed d (s_game s) (edge_action (s_game s) e dealt) = Some true /\
      apply d (s_game s) (edge_action (s_game s) e dealt) = Some (s_game c).

(* ---------- leaves ----------
   a node without children is a finished hand; Node::payoff reads settlements: reward minus the
   chips put in, and these add up to zero over the seats (the form of Props/C10.v C10_leaf_zero_sum) *)
Definition zero_sum_leaf (d : deck) (g : game) : Prop :=
  turn_of g = Terminal /\
  exists rw, settlements d g = Some rw /\
             sumZ (map (fun '(r, s) => r - spent s) (combine rw (seats g))) = 0.
Definition leaf_ok (d : deck) (s : stree) : Prop := kids s = [] -> zero_sum_leaf d (s_game s).

(* the bucket stored at the node is Node::realize of its state and history *)
Definition bucket_ok (abs : game -> N) (s : stree) : Prop :=
  realize abs (s_game s) (s_history s) = Some (n_bucket (root_node s)).

(* the node lies on a path of the tree over game states in the sense of Spec/SpecTree.v *)
Definition on_tree_path (d : deck) (g0 : game) (s : stree) : Prop :=
  tree_path d g0 (s_history s) (s_game s).

(* ---------- information sets ---------- *)
Definition same_infoset_ok (abs : game -> N) (n1 n2 : node) : Prop :=
  recall (n_history n1) = recall (n_history n2) /\
  node_menu (n_game n1) (n_history n1) = node_menu (n_game n2) (n_history n2) /\
  abs (n_game n1) = abs (n_game n2).

(* what the player to act does not see: the other seats' cards.  public_part wipes all hole cards;
   two states look the same to the player to act when they agree on everything but hole cards and
   on the cards of the seat to act *)
Definition wipe_seat (s : seat) : seat := mkSeat (st s) (stack s) (stake s) (spent s) 0%N.
Definition public_part (g : game) : game := set_seats g (map wipe_seat (seats g)).
Definition same_view (g g' : game) : Prop :=
  public_part g = public_part g' /\ cards (actor g) = cards (actor g').
(* the abstraction looks at the acting player's own cards and the public state only *)
Definition abs_own_cards (abs : game -> N) : Prop := forall g g', same_view g g' -> abs g = abs g'.

(* ---------- the uniform initial strategy ----------
   the strategy stored for b lists the edges es in order, each with weight 1 / length es *)
Definition uniform_new (p' : profile) (b : bucket) (es : list edge) : Prop :=
  exists s, lookup b p' = Some s /\ map fst s = es /\
            map snd s = uniform_policy (length es) /\
            forall e, In e es -> weight_of e s = Some (1 # Pos.of_nat (length es))%Q.
Definition others_unchanged (p p' : profile) (b : bucket) : Prop :=
  forall b', b' <> b -> lookup b' p' = lookup b' p.

(* ---------- the dealer ----------
   Game::draw() takes the cards from Game::deck(), so Game::is_allowed accepts them; for the
   oracle `deal` this is a hypothesis (needed for the construction not to panic, not for its shape) *)
Definition deal_ok (d : deck) (hs : list N) (deal : game -> list edge -> N) : Prop :=
  forall g h, reachable d hs g -> turn_of g = Chance -> is_allowed d g (Draw (deal g h)) = Some true.
