(* Spec/SpecSettle.v -- additional statements for C02 / C14:
   the strengthened (inductive) chip invariant of the betting engine, the shape of a heads-up
   settlement, and reachability restricted to actions whose drawn card sets are u64 values
   (the Rust `Hand` is a u64; the model's `Draw (h : N)` is unbounded). *)
From Coq Require Import ZArith NArith List Bool.
From RP Require Import Base.Bits Gen.GenLib Model.Codec Model.Evaluator Model.Showdown Model.Game
                       Spec.SpecGameInv.
Import ListNotations.
Open Scope Z_scope.

(* ---------- the inductive chip invariant (implies chips_inv) ---------- *)
Definition game_inv (g : game) : Prop :=
  exists a b,
    seats g = [a; b] /\ dealer g = 0 /\
    seat_ok a /\ seat_ok b /\
    pot g = spent a + spent b /\
    0 < spent a /\ 0 < spent b /\
    S_BLIND + B_BLIND <= pot g /\                                   (* the blinds have been posted *)
    (* while nobody has folded both seats have committed the same amount on earlier streets *)
    (st a <> Folding -> st b <> Folding -> spent a - stake a = spent b - stake b) /\
    (* at most one seat folds, and it folds facing a bet: it has committed no more than the other *)
    (st a = Folding -> st b <> Folding /\ spent a <= spent b) /\
    (st b = Folding -> st a <> Folding /\ spent b <= spent a) /\
    (* whenever the betting round is still open the seat to act can act *)
    (is_everyone_alright g = false -> st (actor g) = Betting).

(* ---------- heads-up settlement ---------- *)
(* rewards [ra; rb] of the seats [a; b]:
   a fold gives the whole pot to the other seat; at a showdown both seats have committed the same
   amount, the greater strength key takes the whole pot, equal keys take back their own chips *)
Definition winner_takes_or_split (d : deck) (g : game) (rw : list Z) : Prop :=
  match seats g, rw with
  | [a; b], [ra; rb] =>
      (st a = Folding -> rb = pot g) /\
      (st b = Folding -> ra = pot g) /\
      (st a <> Folding -> st b <> Folding ->
         spent a = spent b /\
         match seat_strength d g a, seat_strength d g b with
         | Some ka, Some kb =>
             ((kb < ka)%N -> ra = pot g /\ rb = 0) /\
             ((ka < kb)%N -> ra = 0 /\ rb = pot g) /\
             (ka = kb -> ra = spent a /\ rb = spent b)
         | _, _ => False
         end)
  | _, _ => False
  end.

(* ---------- histories whose drawn card sets fit a u64 ---------- *)
Definition action_u64 (a : action) : Prop :=
  match a with Draw h => (h < 2 ^ 64)%N | _ => True end.
Definition reachable64 (d : deck) (hs : list N) (g : game) : Prop :=
  exists g0 acts, root d hs = Some g0 /\ Forall action_u64 acts /\ run d g0 acts = Some g.

(* card invariant that holds after ANY history, including `Draw h` with bits above 63 set (those
   bits are ignored by is_allowed and by hand_size, so the model accepts such an h): two hole
   hands of two cards inside the deck, hole hands and board pairwise disjoint, a legal board
   size, and the low 64 bits of the board inside the deck mask.  For histories of u64 draws
   (reachable64) the full cards_inv of Spec/SpecGameInv.v holds. *)
Definition cards_inv_any (d : deck) (g : game) : Prop :=
  exists A B, map cards (seats g) = [A; B] /\
    N.land A (hand_mask d) = A /\ N.land B (hand_mask d) = B /\
    hand_size A = 2%N /\ hand_size B = 2%N /\ N.land A B = 0%N /\
    N.land (board g) A = 0%N /\ N.land (board g) B = 0%N /\
    board_ok g = true /\
    N.land (N.land (board g) 18446744073709551615%N) (hand_mask d)
    = N.land (board g) 18446744073709551615%N.
