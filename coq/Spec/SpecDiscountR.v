(* Spec/SpecDiscountR.v -- the specification-side definitions of Spec/SpecDiscount.v (factor_at,
   regret_at, weight, sum_weighted) transcribed over R, for the statements about the concrete
   discount factors (Model/DiscountR.v).  Definitions only. *)
From Coq Require Import ZArith Reals List.
From RP Require Import Model.DiscountR.
Import ListNotations.
Local Open Scope R_scope.

Fixpoint sumR (l : list R) : R := match l with [] => 0 | x :: r => x + sumR r end.
Definition factor_atR (drs : list (R * R)) (u : nat) : R := fst (nth u drs (1, 0)).
Definition regret_atR (drs : list (R * R)) (u : nat) : R := snd (nth u drs (1, 0)).
(* weight of the s-th regret in the final accumulated regret: the product of the factors
   applied AFTER it *)
Definition weightR (drs : list (R * R)) (s : nat) : R := prodR (map fst (skipn (S s) drs)).
Definition sum_weightedR (drs : list (R * R)) : R :=
  sumR (map (fun s => regret_atR drs s * weightR drs s) (seq 0 (length drs))).
(* the epoch of the u-th update of a sequence of (epoch, regret) pairs *)
Definition epoch_at (trs : list (Z * R)) (u : nat) : Z := fst (nth u trs (0%Z, 0)).
(* epochs strictly increasing, the first one not negative *)
Fixpoint increasing_from (lo : Z) (trs : list (Z * R)) : Prop :=
  match trs with [] => True | (t, _) :: rest => (lo <= t)%Z /\ increasing_from (t + 1) rest end.
