(* Spec/SpecSampling.v -- definitions needed to STATE the unbiasedness of the external-sampling regret
   estimator of property C08: the FULL game tree with everybody's probabilities, its expected value, the
   finite distribution of external-sampling trees of a full tree, expectations over it, the counterfactual
   reach of a node, and the lookup of a full-tree node in a sampled tree.
   Definitions only; no proofs. *)
From Coq Require Import NArith QArith List Bool.
From RP Require Import Model.Cfr Spec.SpecCfr.
Import ListNotations.
Open Scope Q_scope.

(* ---------- the full game tree ----------
   A `qtree` (Model/Cfr.v) read as the FULL tree: the children of a node are ALL its actions, and the number
   on an edge is
     below a KWalker node    the traverser's current strategy probability of that action,
     below a KOpponent node  the opponent's strategy probability of that action,
     below a KChance node    the probability of that chance outcome. *)
Definition prob (est : N * Q * qtree) : Q := snd (fst est).
Definition code (est : N * Q * qtree) : N := fst (fst est).

(* well formed: at every internal node the edge numbers are >= 0 and sum to 1 *)
Inductive full_ok : qtree -> Prop :=
| FO_node : forall k b p ch,
    Forall (fun est => 0 <= prob est) ch ->
    (ch <> [] -> sigma_sum ch == 1) ->
    Forall (fun est => full_ok (snd est)) ch ->
    full_ok (T k b p ch).

(* strictly positive strategies: every edge below a traverser or opponent node has a number > 0
   (es_shape of Spec/SpecCfr.v wants sigma > 0 on those edges; chance edges carry 1 in a sampled tree) *)
Inductive full_pos : qtree -> Prop :=
| FP_node : forall k b p ch,
    (k <> KChance -> Forall (fun est => 0 < prob est) ch) ->
    Forall (fun est => full_pos (snd est)) ch ->
    full_pos (T k b p ch).

(* only the traverser's strategy strictly positive (the opponent may give probability 0 to an action: such a
   branch is then sampled with probability 0) *)
Inductive walker_pos : qtree -> Prop :=
| WP_node : forall k b p ch,
    (k = KWalker -> Forall (fun est => 0 < prob est) ch) ->
    Forall (fun est => walker_pos (snd est)) ch ->
    walker_pos (T k b p ch).

Definition sumQ (l : list Q) : Q := fold_right Qplus 0 l.

(* expected payoff of the traverser when everybody (traverser, opponent, chance) plays the edge numbers *)
Fixpoint value (t : qtree) : Q :=
  match t with
  | T k b p ch =>
      match ch with
      | [] => p
      | _ => sumQ (map (fun est => prob est * value (snd est)) ch)
      end
  end.

(* ---------- finite distributions ---------- *)
Definition dist (A : Type) : Type := list (Q * A).
(* expectation of f, total probability *)
Definition expect {A : Type} (f : A -> Q) (d : dist A) : Q := sumQ (map (fun pa => fst pa * f (snd pa)) d).
Definition total {A : Type} (d : dist A) : Q := sumQ (map fst d).
(* image distribution, scaling every probability by c *)
Definition dmap {A B : Type} (g : A -> B) (d : dist A) : dist B := map (fun pa => (fst pa, g (snd pa))) d.
Definition dscale {A : Type} (c : Q) (d : dist A) : dist A := map (fun pa => (c * fst pa, snd pa)) d.
(* independent product: one outcome from every component, probabilities multiply *)
Fixpoint dprod {A : Type} (ds : list (dist A)) : dist (list A) :=
  match ds with
  | [] => [(1, [])]
  | d :: ds' => flat_map (fun pa => map (fun ql => (fst pa * fst ql, snd pa :: snd ql)) (dprod ds')) d
  end.

(* ---------- sampled trees that remember where their edges come from ----------
   A sampled tree in which every kept edge is annotated with the index (position among the children, from 0)
   that the edge has in the full tree.  `forget` drops the annotation and gives the sampled tree as the
   model (Model/Cfr.v) sees it. *)
Inductive stree := ST (k : kind) (b : N) (payoff : Q) (ch : list (nat * N * Q * stree)).
Definition sedge : Type := (nat * N * Q * stree)%type.
Definition s_index (x : sedge) : nat := fst (fst (fst x)).
Definition s_child (x : sedge) : stree := snd x.
Fixpoint forget (s : stree) : qtree :=
  match s with
  | ST k b p ch => T k b p (map (fun x => let '(j, e, sg, c) := x in (e, sg, forget c)) ch)
  end.

(* the number carried by a kept edge of a sampled tree ("sigma" of Model/Cfr.v): the strategy probability of
   the edge below traverser and opponent nodes, 1 below chance nodes *)
Definition kept_sigma (k : kind) (p : Q) : Q := match k with KChance => 1 | _ => p end.

(* for the children ch (numbered from j) and the sample distributions of their subtrees: the probability of
   each child edge paired with the distribution of "that edge kept, with a sample of the subtree below it" *)
Fixpoint edge_dists (k : kind) (j : nat) (ch : list (N * Q * qtree)) (subs : list (dist stree))
  : list (Q * dist sedge) :=
  match ch, subs with
  | est :: ch', d :: subs' =>
      (prob est, dmap (fun s => (j, code est, kept_sigma k (prob est), s)) d) :: edge_dists k (S j) ch' subs'
  | _, _ => []
  end.

(* the distribution of external-sampling trees of a full tree:
     leaf               the leaf itself with probability 1;
     KWalker node       ALL children are kept, each subtree independently replaced by one of its samples
                        (probabilities multiply), edge numbers kept;
     KOpponent/KChance  exactly ONE child j is kept, with probability p_j times the probability of the sample
                        of the subtree below it; the kept edge carries p_j (opponent) resp. 1 (chance). *)
Fixpoint isamples (t : qtree) : dist stree :=
  match t with
  | T k b p ch =>
      let eds := edge_dists k 0 ch (map (fun est => isamples (snd est)) ch) in
      match ch with
      | [] => [(1, ST k b p [])]
      | _ =>
          match k with
          | KWalker => dmap (fun l => ST k b p l) (dprod (map snd eds))
          | _ => dmap (fun x => ST k b p [x]) (flat_map (fun pd => dscale (fst pd) (snd pd)) eds)
          end
      end
  end.
(* the same distribution on plain sampled trees *)
Definition samples (t : qtree) : dist qtree := dmap forget (isamples t).

(* ---------- nodes by path ---------- *)
(* a path is the list of child indices from the root.  Node of the full tree at a path: *)
Fixpoint fnode (t : qtree) (path : list nat) : option qtree :=
  match path with
  | [] => Some t
  | j :: rest => match nth_error (children_of t) j with Some est => fnode (snd est) rest | None => None end
  end.
(* the copy of that node in a sampled tree: follow, at each step, the kept edge annotated with that index;
   None when the sample did not keep it (the path leaves the sampled opponent/chance branch) *)
Fixpoint snode (s : stree) (path : list nat) : option stree :=
  match path with
  | [] => Some s
  | j :: rest =>
      match s with
      | ST _ _ _ ch =>
          match find (fun x => Nat.eqb (s_index x) j) ch with
          | Some x => snode (s_child x) rest
          | None => None
          end
      end
  end.
(* counterfactual reach of the node at a path: the product of the edge probabilities along the path at
   KOpponent / KChance nodes only (0 when the path leaves the tree) *)
Fixpoint reach_others (t : qtree) (path : list nat) : Q :=
  match path with
  | [] => 1
  | j :: rest =>
      match nth_error (children_of t) j with
      | Some est => (match kind_of t with KWalker => 1 | _ => prob est end) * reach_others (snd est) rest
      | None => 0
      end
  end.

(* ---------- the estimated regret of the root of a sampled tree ----------
   the value of the a-th entry of the model's regret list of s.  When the root of s is a traverser node with
   more than a children this is the root's estimated regret for its a-th action (the list starts with one
   entry per action of the root: C08_regrets_of_subtrees); and the entries the list has for an inner node n
   of s are those of regret_estimator_Q n (same theorem), so `root_regret n a` is also "the entry of node n,
   action a, in the regret list of the whole sampled tree". *)
Definition root_regret (s : qtree) (a : nat) : Q :=
  match nth_error (regret_estimator_Q s) a with Some x => snd x | None => 0 end.
(* the same read off the regrets computed by the implementation model *)
Definition root_regret_impl (s : qtree) (a : nat) : Q :=
  match nth_error (immediate_regrets_Q s) a with Some x => snd x | None => 0 end.
(* the estimated regret for action a at the full-tree node `path`, on the sampled tree s: 0 if not sampled *)
Definition node_regret (path : list nat) (a : nat) (s : stree) : Q :=
  match snode s path with Some n => root_regret (forget n) a | None => 0 end.

(* the counterfactual regret of action a at the traverser node at `path` of the full tree (right-hand side of
   C08_node_regret_unbiased as a function; used by the Examples): reach of the others times
   (value of the action's subtree - value of the node); 0 when there is no such node / action *)
Definition true_regret (t : qtree) (path : list nat) (a : nat) : Q :=
  match fnode t path with
  | Some h => match nth_error (children_of h) a with
              | Some ca => reach_others t path * (value (snd ca) - value h)
              | None => 0 end
  | None => 0 end.

(* ---------- a concrete full tree for the Examples ----------
   chance (1/3, 2/3) -> opponent (1/2, 1/2) -> traverser (1/4, 3/4) -> leaf / nested traverser (1/3, 2/3)
   whose second action leads through another opponent node (1/5, 4/5) *)
Definition ex_full_walker2 : qtree :=
  T KWalker 4%N 0
    [(2%N, 1#3, T KChance 5%N (-2) []);
     (4%N, 2#3, T KOpponent 6%N 0 [(5%N, 1#5, T KWalker 7%N 6 []); (6%N, 4#5, T KWalker 8%N 1 [])])].
Definition ex_full_walker : qtree :=
  T KWalker 2%N 0 [(2%N, 1#4, T KWalker 3%N 1 []); (3%N, 3#4, ex_full_walker2)].
Definition ex_full : qtree :=
  T KChance 0%N 0
    [(8%N, 1#3, T KWalker 10%N 5 []);
     (9%N, 2#3,
      T KOpponent 1%N 0
        [(7%N, 1#2, ex_full_walker);
         (6%N, 1#2, T KWalker 11%N 0 [(2%N, 1#2, T KWalker 12%N 4 []); (3%N, 1#2, T KWalker 13%N (-1) [])])])].
