(* Spec/SpecHand.v -- statement-level definitions for property C01 (hand evaluator):
   valid hands, well-formed strengths, suit relabelling. Definitions only. *)
From Coq Require Import NArith List Bool.
From RP Require Import Base.Bits Gen.GenCards Model.Codec Model.Evaluator Spec.SpecPoker.
Import ListNotations.
Open Scope N_scope.

(* a hand of the configured deck holding 5, 6 or 7 cards *)
Definition valid_hand (d : deck) (h : N) : Prop :=
  N.land h (hand_mask d) = h /\ 5 <= popcount64 h /\ popcount64 h <= 7.

(* number of kicker bits carried by a strength of the given category *)
Definition n_kickers_of (c : category) : N :=
  match c with
  | Flush => if FLUSH_HAS_KICKERS then 4 else N_KICKERS Flush
  | _ => N_KICKERS c
  end.

(* shape of the strengths produced by the evaluator on valid hands:
   a real category, rank fields in 0..12, second field 0 unless the category has two fields,
   kickers a 13-bit rank set with exactly the number of bits the category carries *)
Definition wf_strength (d : deck) (s : strength) : Prop :=
  let v := svalue s in
  rcat v <> RMAX /\ r1 v <= 12 /\ r2 v <= 12 /\
  match rcat v with TwoPair | FullHouse => True | _ => r2 v = 0 end /\
  skicks s < 8192 /\ popcount64 (skicks s) = n_kickers_of (rcat v).

(* suit relabelling *)
Definition suit_perm (p : N -> N) : Prop :=
  (forall s, s < 4 -> p s < 4) /\ (forall s t, s < 4 -> t < 4 -> p s = p t -> s = t).
Definition relabel (p : N -> N) (c : N) : N := 4 * (c / 4) + p (c mod 4).
Definition relabel_hand (p : N -> N) (h : N) : N := mask_of_bits (map (relabel p) (hand_cards h)).
