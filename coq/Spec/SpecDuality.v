(* Spec/SpecDuality.v -- specification vocabulary for the transport-duality part of property C12:
   the linear-programming dual of optimal transport between n source buckets and m target buckets,
   over exact rationals.  Only definitions; no proofs in this file.

   Why not `is_coupling` / `coupling_cost` of Spec/SpecTransport.v: those are tied to the square n x n
   equity grid (cost `grid_dist n i j`, marginals given as lists read with `nth`).  The Sinkhorn plan
   lives on two different supports (n source buckets, m target buckets) with an arbitrary bucket
   metric, so the versions below are rectangular and take the ground cost `d` as a parameter.
   Buckets are the indices 0..n-1 (sources) and 0..m-1 (targets); matrices and vectors are functions
   on indices, of which only the values in range matter.  A list histogram `xs` is the vector
   `vec xs`, a matrix given as a list of rows is `mat rows`.  The finite sums are `qsum_range` of
   Spec/SpecTransport.v; `is_coupling n P xs ys` there is `coupling_of n n P (vec xs) (vec ys)` here. *)
From Coq Require Import QArith List.
From RP Require Import Spec.SpecTransport.
Import ListNotations.
Local Open Scope Q_scope.

Definition vec (xs : list Q) (i : nat) : Q := nth i xs 0.
Definition mat (rows : list (list Q)) (i j : nat) : Q := nth j (nth i rows []) 0.

(* mass leaving source bucket i / arriving in target bucket j *)
Definition row_sum (m : nat) (P : nat -> nat -> Q) (i : nat) : Q := qsum_range 0 m (fun j => P i j).
Definition col_sum (n : nat) (P : nat -> nat -> Q) (j : nat) : Q := qsum_range 0 n (fun i => P i j).
(* sum_{i,j} P i j * d i j *)
Definition plan_cost (n m : nat) (d P : nat -> nat -> Q) : Q :=
  qsum_range 0 n (fun i => qsum_range 0 m (fun j => P i j * d i j)).

Definition nonneg_plan (n m : nat) (P : nat -> nat -> Q) : Prop :=
  forall i j, (i < n)%nat -> (j < m)%nat -> 0 <= P i j.
Definition has_row_sums (n m : nat) (P : nat -> nat -> Q) (mu : nat -> Q) : Prop :=
  forall i, (i < n)%nat -> row_sum m P i == mu i.
Definition has_col_sums (n m : nat) (P : nat -> nat -> Q) (nu : nat -> Q) : Prop :=
  forall j, (j < m)%nat -> col_sum n P j == nu j.
(* a coupling of (mu, nu): a feasible point of the optimal-transport linear programme *)
Definition coupling_of (n m : nat) (P : nat -> nat -> Q) (mu nu : nat -> Q) : Prop :=
  nonneg_plan n m P /\ has_row_sums n m P mu /\ has_col_sums n m P nu.

(* a feasible point of the dual programme: potentials f on the sources and g on the targets *)
Definition dual_feasible (n m : nat) (d : nat -> nat -> Q) (f g : nat -> Q) : Prop :=
  forall i j, (i < n)%nat -> (j < m)%nat -> f i + g j <= d i j.
(* sum_i f i * mu i + sum_j g j * nu j *)
Definition dual_value (n m : nat) (f g mu nu : nat -> Q) : Q :=
  qsum_range 0 n (fun i => f i * mu i) + qsum_range 0 m (fun j => g j * nu j).

(* sum_i |mu i - mu' i|: the mass a plan with row sums mu' misplaces on the source side *)
Definition misplaced (n : nat) (mu mu' : nat -> Q) : Q := qsum_range 0 n (fun i => qabs (mu i - mu' i)).
