(* Spec/SpecIsoWf.v -- well-formed observation of a given deck (property C05):
   wf_obs of Spec/SpecCodec.v plus "every card lies inside the deck mask". *)
From Coq Require Import NArith List Bool.
From RP Require Import Base.Bits Model.Codec Spec.SpecCodec.
Open Scope N_scope.

Definition wf_obs_d (d : deck) (o : obs) : Prop :=
  wf_obs o /\ N.land (pocket o) (hand_mask d) = pocket o /\ N.land (public o) (hand_mask d) = public o.
