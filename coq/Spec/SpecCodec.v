(* Spec/SpecCodec.v -- well-formedness predicates used in the statements of property C15. *)
From Coq Require Import NArith ZArith List Bool.
From RP Require Import Base.Bits Gen.GenAbstract Model.Codec.
Import ListNotations.
Open Scope N_scope.

(* A well-formed observation: two pocket cards and 0/3/4/5 board cards, all distinct,
   all cards in the 52-card deck. *)
Definition wf_obs (o : obs) : Prop :=
  pocket o < 2 ^ 52 /\ public o < 2 ^ 52 /\ N.land (pocket o) (public o) = 0 /\
  hand_size (pocket o) = 2 /\
  (hand_size (public o) = 0 \/ hand_size (public o) = 3 \/
   hand_size (public o) = 4 \/ hand_size (public o) = 5).

(* A well-formed action: chip amounts fit an i16 (Chips = i16); a Draw reveals at most
   three cards of the 52-card deck. *)
Definition wf_action (a : action) : Prop :=
  match a with
  | Fold | Check => True
  | Call c | Raise c | Shove c | Blind c => (-32768 <= c <= 32767)%Z
  | Draw h => h < 2 ^ 52 /\ hand_size h <= 3
  end.

(* All edges that the abstraction can produce: the five fixed ones and one raise per grid entry. *)
Definition all_edges : list edge :=
  [EDraw; EFold; ECheck; ECall; EShove] ++ map (fun p => ERaise (fst p) (snd p)) GRID.
