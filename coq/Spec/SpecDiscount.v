(* Spec/SpecDiscount.v -- specification-side definitions for property C19 (in addition to the
   closed forms `weight_policy`, `sum_policy`, `prodQ`, `sum_regret` of Model/Discount.v).
   Definitions only, no proofs. *)
From Coq Require Import ZArith QArith List.
From RP Require Import Gen.GenLib Gen.GenDiscount Model.Discount.
Import ListNotations.
Open Scope Q_scope.

(* plain sum of a list of rationals *)
Fixpoint sumQ (l : list Q) : Q := match l with [] => 0 | x :: r => x + sumQ r end.

(* the discount factor / the regret fed in at position u of an update sequence
   (for a sequence starting at epoch 0, position u is epoch u) *)
Definition factor_at (drs : list (Q * Q)) (u : nat) : Q := fst (nth u drs (1, 0)).
Definition regret_at (drs : list (Q * Q)) (u : nat) : Q := snd (nth u drs (1, 0)).

(* weight of the s-th regret in the final accumulated regret:
   the product of the factors applied AFTER it, d_(s+1) * ... * d_(n-1) *)
Definition weight (drs : list (Q * Q)) (s : nat) : Q := prodQ (map fst (skipn (S s) drs)).

(* sum_s r_s * weight s *)
Definition sum_weighted (drs : list (Q * Q)) : Q :=
  sumQ (map (fun s => regret_at drs s * weight drs s) (seq 0 (length drs))).

(* sum_i p_i * (s + i + 1)^gamma : the per-epoch values weighted by (epoch + 1)^gamma,
   for the epochs s, s+1, ... *)
Fixpoint pow_weighted_sum (s : Z) (ps : list Q) : Q :=
  match ps with
  | [] => 0
  | p :: r => p * Qpower (inject_Z (s + 1)) gamma_int + pow_weighted_sum (s + 1) r
  end.

(* pointwise sum of the per-action sequences: colsum n pss = [sum_b p_0(b); ...; sum_b p_(n-1)(b)] *)
Fixpoint addl (a b : list Q) : list Q :=
  match a, b with x :: a', y :: b' => (x + y) :: addl a' b' | _, _ => [] end.
Definition colsum (n : nat) (pss : list (list Q)) : list Q := fold_right addl (repeat 0 n) pss.
