(* Spec/SpecPoker.v -- the rule-book ranking of poker hands, written from the property text
   (NOT from the code): a hand of 5..7 cards is worth its best five-card sub-hand;
   five cards are ranked  straight flush > four of a kind > full house > flush > straight >
   three of a kind > two pair > pair > high card  (flush and full house exchanged in the
   36-card short deck), ties broken by the ranks of the five cards ordered by
   (multiplicity, rank); A-2-3-4-5 (short deck: A-6-7-8-9) is the lowest straight.
   A card is a number 0..51 = 4 * rank + suit, rank 0 = deuce ... 12 = ace. *)
From Coq Require Import NArith List Bool.
From RP Require Import Model.Codec.
Import ListNotations.
Open Scope N_scope.

Definition rank_of (c : N) : N := c / 4.
Definition suit_of (c : N) : N := c mod 4.

Inductive hand_class := CHigh | CPair | CTwoPair | CTrips | CStraight | CFlush | CFull | CQuads | CStraightFlush.

(* position in the order of the configured deck, written from the property statement *)
Definition class_value (d : deck) (c : hand_class) : N :=
  match d, c with
  | _, CHigh => 0 | _, CPair => 1 | _, CTwoPair => 2 | _, CTrips => 3 | _, CStraight => 4
  | Standard, CFlush => 5 | Standard, CFull => 6
  | Short, CFull => 5 | Short, CFlush => 6
  | _, CQuads => 7 | _, CStraightFlush => 8
  end.

Definition ranks_desc : list N := [12; 11; 10; 9; 8; 7; 6; 5; 4; 3; 2; 1; 0].
Definition count_rank (cs : list N) (r : N) : N := N.of_nat (length (filter (fun c => rank_of c =? r) cs)).
(* (multiplicity, rank) of the ranks present, sorted descending by multiplicity then rank *)
Definition groups (cs : list N) : list (N * N) :=
  flat_map (fun k => flat_map (fun r => if count_rank cs r =? k then [(k, r)] else []) ranks_desc) [4; 3; 2; 1].

Definition is_flush (cs : list N) : bool :=
  match cs with [] => false | c :: r => forallb (fun x => suit_of x =? suit_of c) r end.

Definition wheel_ranks (d : deck) : list N :=
  match d with Standard => [12; 3; 2; 1; 0] | Short => [12; 7; 6; 5; 4] end.
Definition list_eqb (a b : list N) : bool :=
  Nat.eqb (length a) (length b) && forallb (fun p => fst p =? snd p) (combine a b).
(* high card of the straight formed by five distinct ranks given in descending order *)
Definition straight_high (d : deck) (rs : list N) : option N :=
  match rs with
  | [a; b; c; e; f] =>
      if (a =? b + 1) && (b =? c + 1) && (c =? e + 1) && (e =? f + 1) then Some a
      else if list_eqb rs (wheel_ranks d) then Some b
      else None
  | _ => None
  end.

Definition encode_value (cls : N) (tiebreak : list N) : N :=
  fold_left (fun a x => a * 16 + x) (firstn 5 (tiebreak ++ [0; 0; 0; 0; 0])) cls.

(* value of exactly five cards *)
Definition value5 (d : deck) (cs : list N) : N :=
  let g := groups cs in
  let counts := map fst g in
  let rs := map snd g in
  if list_eqb counts [4; 1] then encode_value (class_value d CQuads) rs
  else if list_eqb counts [3; 2] then encode_value (class_value d CFull) rs
  else if list_eqb counts [3; 1; 1] then encode_value (class_value d CTrips) rs
  else if list_eqb counts [2; 2; 1] then encode_value (class_value d CTwoPair) rs
  else if list_eqb counts [2; 1; 1; 1] then encode_value (class_value d CPair) rs
  else
    match straight_high d rs, is_flush cs with
    | Some h, true => encode_value (class_value d CStraightFlush) [h]
    | Some h, false => encode_value (class_value d CStraight) [h]
    | None, true => encode_value (class_value d CFlush) rs
    | None, false => encode_value (class_value d CHigh) rs
    end.

Fixpoint sublists (k : nat) (l : list N) : list (list N) :=
  match k, l with
  | O, _ => [[]]
  | S _, [] => []
  | S k', x :: r => map (cons x) (sublists k' r) ++ sublists k r
  end.

(* best five-card value among the cards of the hand *)
Definition best5 (d : deck) (cs : list N) : N :=
  fold_left N.max (map (value5 d) (sublists 5 cs)) 0.

Definition cmp_spec (d : deck) (cs1 cs2 : list N) : comparison := N.compare (best5 d cs1) (best5 d cs2).
