(* Spec/SpecTree.v -- definitions for the statements of property C10 (sampled game trees):
   edge histories that the tree builder can produce, raise edges per betting round, tree paths
   over reachable game states, the inverse-CDF sampler and the uniform initial strategy.
   Definitions only. *)
From Coq Require Import ZArith NArith List Bool QArith.
From RP Require Import Base.Bits Gen.GenLib Gen.GenFixes Model.Codec Model.Showdown Model.Game Model.Tree
                       Spec.SpecMenu.
Import ListNotations.
Open Scope Z_scope.

(* ---------- Node::subgame with the direction of the walk as a parameter ----------
   subgame_with SUBGAME_FROM_NODE = Model.Tree.subgame (by computation on the generated constant);
   subgame_with false is the original code, which walked the history from the root. *)
Definition subgame_with (from_node : bool) (history : list edge) : list edge :=
  firstn depth_cap (take_while is_choice (if from_node then rev history else history)).
Definition n_raises_with (from_node : bool) (history : list edge) : Z :=
  Z.of_nat (length (filter is_aggro (subgame_with from_node history))).

(* ---------- histories the tree builder can produce ----------
   Only the menu discipline is recorded: an edge is appended when it is on the menu of SOME game
   state for the current history (any state at all), or it is a card deal. *)
Inductive sampled_history : list edge -> Prop :=
| sh_root : sampled_history []
| sh_choice : forall h g m e,
    sampled_history h -> node_menu g h = Some m -> In e m -> sampled_history (h ++ [e])
| sh_deal : forall h, sampled_history h -> sampled_history (h ++ [EDraw]).

(* ---------- per betting round statistics ----------
   A betting round is a maximal run of non-EDraw edges.  max_per_round_aux f counts the edges e
   with f e = true in every round and returns the largest count (same recursion as
   Model.Tree.max_raises_aux, which is the instance f = is_aggro). *)
Fixpoint max_per_round_aux (f : edge -> bool) (history : list edge) (cur best : Z) : Z :=
  match history with
  | [] => Z.max cur best
  | EDraw :: r => max_per_round_aux f r 0 (Z.max cur best)
  | e :: r => max_per_round_aux f r (if f e then cur + 1 else cur) best
  end.
(* the largest number of ERaise edges in one betting round *)
Definition max_raise_edges_per_round (history : list edge) : Z :=
  max_per_round_aux is_raise_edge history 0 0.
(* the largest number of edges in one betting round *)
Definition max_round_length (history : list edge) : Z :=
  max_per_round_aux is_choice history 0 0.

(* ---------- paths of the sampled tree over game states ----------
   tree_path d g0 h g: starting at the root state g0, following the edges of h -- each on the
   menu of the node it leaves, each child being child_game of its parent -- leads to g. *)
Inductive tree_path (d : deck) (g0 : game) : list edge -> game -> Prop :=
| tp_root : tree_path d g0 [] g0
| tp_child : forall h g m e dealt g',
    tree_path d g0 h g -> node_menu g h = Some m -> In e m ->
    child_game d g e dealt = Some g' -> tree_path d g0 (h ++ [e]) g'.

(* ---------- the sampler ---------- *)
Fixpoint sumQ (l : list Q) : Q := match l with [] => 0%Q | x :: r => (x + sumQ r)%Q end.
(* w_0 + ... + w_(i-1) (the total once i exceeds the length) *)
Definition prefix_sum (ws : list Q) (i : nat) : Q := sumQ (firstn i ws).
(* inverse CDF: the first index i with u < w_0 + ... + w_i, else the last index *)
Fixpoint pick (ws : list Q) (u : Q) : nat :=
  match ws with
  | [] => 0%nat
  | w :: r =>
      match r with
      | [] => 0%nat
      | _ => if Qle_bool w u then S (pick r (u - w)%Q) else 0%nat
      end
  end.

(* Profile::witness: every one of the n actions starts with policy 1 / n *)
Definition uniform_policy (n : nat) : list Q := repeat (1 # Pos.of_nat n)%Q n.
