(* Spec/SpecSettleRules.v -- the heads-up settlement stated with the rule-book hand order of
   Spec/SpecPoker.v (cmp_spec) instead of the engine's numeric strength key.  Definitions only. *)
From Coq Require Import ZArith NArith List Bool.
From RP Require Import Base.Bits Gen.GenLib Model.Codec Model.Evaluator Model.Showdown Model.Game
                       Spec.SpecPoker Spec.SpecHand.
Import ListNotations.
Open Scope Z_scope.

(* the cards a seat shows down: its two hole cards together with the board *)
Definition showdown_hand (g : game) (s : seat) : N := N.lor (cards s) (board g).

(* rewards [ra; rb] of the seats [a; b]:
   a fold gives the whole pot to the other seat; at a showdown the board has five cards, both
   seats hold a valid seven-card hand and have committed the same amount, the seat whose hand is
   the better one in the rule-book order (best five of seven, cmp_spec) takes the whole pot,
   equal hands take back their own chips *)
Definition rule_book_settlement (d : deck) (g : game) (rw : list Z) : Prop :=
  match seats g, rw with
  | [a; b], [ra; rb] =>
      (st a = Folding -> rb = pot g) /\
      (st b = Folding -> ra = pot g) /\
      (st a <> Folding -> st b <> Folding ->
         hand_size (board g) = 5%N /\
         valid_hand d (showdown_hand g a) /\ valid_hand d (showdown_hand g b) /\
         spent a = spent b /\
         match cmp_spec d (hand_cards (showdown_hand g a)) (hand_cards (showdown_hand g b)) with
         | Gt => ra = pot g /\ rb = 0
         | Lt => ra = 0 /\ rb = pot g
         | Eq => ra = spent a /\ rb = spent b
         end)
  | _, _ => False
  end.
