(* Spec/SpecMenu.v -- definitions for the statements of property C11 (abstract action menu) *)
From Coq Require Import ZArith NArith List Bool.
From RP Require Import Base.Bits Model.Codec Model.Game.
Import ListNotations.
Open Scope Z_scope.

(* chips put in by an action; an all-in counts as its amount (= the stack of the player) *)
Definition amount_of (a : action) : Z :=
  match a with Raise x | Shove x | Call x | Blind x => x | Draw _ | Fold | Check => 0 end.
Definition is_raise_edge (e : edge) : bool := match e with ERaise _ _ => true | _ => false end.
