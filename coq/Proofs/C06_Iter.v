(* Proofs/C06_Iter.v -- the hand iterator (constructor skip loop, advance loop, Iterator::next) yields
   exactly the words with k bits, below 2^52 and disjoint from the mask, in increasing order. *)
From Coq Require Import NArith ZArith List Bool Lia ZifyBool ZifyN ZifyNat Sorted.
From RP Require Import Base.Bits Gen.GenCards Model.Codec Model.Hands Spec.SpecCombs Spec.SpecIter.
From RP Require Import Proofs.BitsLemmas Proofs.C15_Hand Proofs.C06_Cat Proofs.C06_Gosper Proofs.C06_Fuel Proofs.C06_Combs.
Import ListNotations.
Open Scope N_scope.

Arguments N.add : simpl never.
Arguments N.mul : simpl never.
Arguments N.sub : simpl never.
Arguments N.shiftl : simpl never.
Arguments N.shiftr : simpl never.
Arguments N.land : simpl never.
Arguments N.lor : simpl never.
Arguments N.lxor : simpl never.
Arguments N.pow : simpl never.
Arguments N.testbit : simpl never.

Lemma exhausted_true : forall x, exhausted x = true <-> (x = 0 \/ 2 ^ 52 <= x).
Proof.
  intros x. unfold exhausted. rewrite orb_true_iff, N.eqb_eq, N.leb_le.
  change 4503599627370496 with (2 ^ 52). tauto.
Qed.

Lemma exhausted_false : forall x, exhausted x = false <-> (0 < x /\ x < 2 ^ 52).
Proof.
  intros x. pose proof (exhausted_true x) as H. destruct (exhausted x).
  - split; [discriminate|]. intros [H1 H2]. assert (x = 0 \/ 2 ^ 52 <= x) by (apply H; reflexivity). lia.
  - split; [|reflexivity]. intros _.
    destruct (N.eq_dec x 0) as [E | NE]; [assert (false = true) by (apply H; left; exact E); discriminate|].
    destruct (N.lt_ge_cases x (2 ^ 52)) as [Hlt | Hge]; [lia|].
    assert (false = true) by (apply H; right; exact Hge). discriminate.
Qed.

Lemma repeat_until_stop0 : forall {A} fuel (step : A -> outcome A) a b,
  step a = Stop b -> repeat_until fuel step a = Stop b.
Proof.
  intros A fuel step a b E. apply (repeat_until_reaches step fuel a 0 (Stop b)).
  - constructor. exact E.
  - cbn. lia.
Qed.

Section Iter.
Variable d : deck.
Variable k : N.
Variable m : N.                       (* the iterator's mask field *)
Hypothesis Hk1 : 1 <= k.
Hypothesis Hk8 : k <= 8.
Hypothesis Hm : m < 2 ^ 52.

Definition top : N := cat 52 0 (ones k).   (* the k lowest positions above the deck: always free *)

Lemma pc_top : pc top = k.
Proof. unfold top. rewrite pc_cat by apply pow2_pos. rewrite pc_ones, pc_0. lia. Qed.

Lemma top_disjoint : N.land top m = 0.
Proof.
  unfold top. rewrite <- (cat_0_r 52 m) at 1.
  rewrite land_cat by (try apply pow2_pos; exact Hm).
  rewrite N.land_0_l, N.land_0_r. reflexivity.
Qed.

Lemma top_lt : top < 1152921504606846976.
Proof.
  change 1152921504606846976 with (2 ^ (52 + 8)). unfold top.
  apply cat_lt; [apply pow2_pos|].
  eapply N.lt_le_trans; [apply ones_lt | apply pow2_le; exact Hk8].
Qed.

Lemma top_ge : 2 ^ 52 <= top.
Proof.
  unfold top, cat, ones. assert (2 ^ 1 <= 2 ^ k) by (apply pow2_le; exact Hk1).
  change (2 ^ 1) with 2 in *. nia.
Qed.

Lemma ones_le_top : ones k <= top.
Proof. unfold top, cat. pose proof (pow2_pos 52). nia. Qed.

Lemma kpat_pos : forall x, pc x = k -> 0 < x.
Proof.
  intros x H. destruct (N.eq_dec x 0) as [E | NE]; [|lia]. subst x. cbn in H. lia.
Qed.

Lemma lt_top_63 : forall x, x <= top -> x < 2 ^ 63.
Proof.
  intros x H. pose proof top_lt as Ht.
  assert (1152921504606846976 < 2 ^ 63) by reflexivity. lia.
Qed.

(* one Gosper step from a k-bit word below top *)
Lemma permute_kpat : forall x, pc x = k -> x < top ->
  exists y, permute_next x = Some y /\ x < y /\ y <= top /\ pc y = k /\
            (forall z, x < z -> z < y -> pc z <> k).
Proof.
  intros x Hpc Hx.
  destruct (permute_next_pc_succ x (kpat_pos x Hpc) (lt_top_63 x ltac:(lia))) as (y & Ey & Hsucc & _).
  exists y. split; [exact Ey|].
  pose proof (pc_succ_le x y top Hsucc Hx ltac:(rewrite pc_top; lia)) as Hle.
  destruct Hsucc as (Hxy & Hpy & Hbetween).
  split; [exact Hxy|]. split; [exact Hle|]. split; [lia|].
  intros z H1 H2. rewrite <- Hpc. apply Hbetween; assumption.
Qed.

(* advance(): the next k-bit word disjoint from the mask *)
Lemma advance_reaches : forall x, pc x = k -> x < top ->
  exists n y, reaches (advance_step m) x n (Stop y) /\ x < y /\ y <= top /\ pc y = k /\
    N.land y m = 0 /\ (forall z, x < z -> z < y -> pc z = k -> N.land z m <> 0) /\
    x + N.of_nat n < y.
Proof.
  intros x. induction x as [x IH] using (well_founded_induction (N.gt_wf top)).
  intros Hpc Hx.
  destruct (permute_kpat x Hpc Hx) as (x' & Ep & Hxx' & Hx't & Hpx' & Hgap).
  destruct (N.eq_dec (N.land x' m) 0) as [E0 | NE0].
  - exists 0%nat, x'. split.
    + constructor. unfold advance_step. rewrite Ep, E0. reflexivity.
    + repeat split; try assumption; try lia.
      intros z H1 H2 H3. exfalso. exact (Hgap z H1 H2 H3).
  - assert (Hx'lt : x' < top).
    { destruct (N.eq_dec x' top) as [E | NE]; [|lia]. subst x'. rewrite top_disjoint in NE0. congruence. }
    destruct (IH x' ltac:(lia) Hpx' Hx'lt) as (n & y & Hr & H1 & H2 & H3 & H4 & H5 & H6).
    exists (S n), y. split.
    + apply reaches_go with (a' := x'); [|exact Hr].
      unfold advance_step. rewrite Ep. destruct (N.eqb_spec (N.land x' m) 0) as [E | _]; [congruence | reflexivity].
    + repeat split; try assumption; try lia.
      intros z Hz1 Hz2 Hz3.
      destruct (N.lt_trichotomy z x') as [Hlt | [Heq | Hgt]].
      * exfalso. exact (Hgap z Hz1 Hlt Hz3).
      * subst z. exact NE0.
      * apply H5; assumption.
Qed.

Lemma advance_some : forall x, pc x = k -> x < top ->
  exists y, advance (mkHiter x m) = Some (mkHiter y m) /\ x < y /\ y <= top /\ pc y = k /\
    N.land y m = 0 /\ (forall z, x < z -> z < y -> pc z = k -> N.land z m <> 0).
Proof.
  intros x Hpc Hx.
  destruct (advance_reaches x Hpc Hx) as (n & y & Hr & H1 & H2 & H3 & H4 & H5 & H6).
  exists y. split; [|repeat split; assumption].
  unfold advance. cbn [hmask hnext].
  rewrite (repeat_until_reaches _ big_fuel x n (Stop y) Hr); [reflexivity|].
  pose proof top_lt. unfold big_fuel. lia.
Qed.

(* the constructor's loop: the first k-bit word that is disjoint from the mask or beyond the deck *)
Definition resting (x : N) : Prop := (x < 2 ^ 52 /\ N.land x m = 0) \/ 2 ^ 52 <= x.

Lemma skip_reaches : forall x, pc x = k -> x <= top ->
  exists n x0, reaches (skip_step m) x n (Stop x0) /\ x <= x0 /\ x0 <= top /\ pc x0 = k /\
    resting x0 /\ (forall z, x <= z -> z < x0 -> pc z = k -> N.land z m <> 0) /\
    x + N.of_nat n <= x0.
Proof.
  intros x. induction x as [x IH] using (well_founded_induction (N.gt_wf top)).
  intros Hpc Hx.
  pose proof (kpat_pos x Hpc) as Hpos.
  assert (Hstop : resting x -> exists n x0, reaches (skip_step m) x n (Stop x0) /\ x <= x0 /\ x0 <= top /\ pc x0 = k /\
    resting x0 /\ (forall z, x <= z -> z < x0 -> pc z = k -> N.land z m <> 0) /\ x + N.of_nat n <= x0).
  { intros Hrest. exists 0%nat, x. split.
    - constructor. unfold skip_step.
      destruct Hrest as [[H1 H2] | H1].
      + rewrite H2. reflexivity.
      + assert (He : exhausted x = true) by (apply exhausted_true; right; exact H1).
        rewrite He. rewrite andb_false_r. reflexivity.
    - repeat split; try assumption; try lia. }
  destruct (N.lt_ge_cases x (2 ^ 52)) as [Hlt | Hge]; [|apply Hstop; right; exact Hge].
  destruct (N.eq_dec (N.land x m) 0) as [E0 | NE0]; [apply Hstop; left; split; assumption|].
  pose proof top_ge as Htg.
  destruct (permute_kpat x Hpc ltac:(lia)) as (x' & Ep & Hxx' & Hx't & Hpx' & Hgap).
  destruct (IH x' ltac:(lia) Hpx' Hx't) as (n & x0 & Hr & H1 & H2 & H3 & H4 & H5 & H6).
  exists (S n), x0. split.
  - apply reaches_go with (a' := x'); [|exact Hr].
    unfold skip_step. assert (He : exhausted x = false) by (apply exhausted_false; lia).
    rewrite He, Ep. destruct (N.ltb_spec 0 (N.land x m)) as [_ | H]; [reflexivity | lia].
  - repeat split; try assumption; try lia.
    intros z Hz1 Hz2 Hz3.
    destruct (N.eq_dec z x) as [E | NE]; [subst z; exact NE0|].
    destruct (N.lt_ge_cases z x') as [Hlt' | Hge'].
    + exfalso. apply (Hgap z); [lia | exact Hlt' | exact Hz3].
    + apply H5; assumption.
Qed.

(* ---------- the run ---------- *)
Variable L : list N.
Hypothesis HLs : StronglySorted N.lt L.
Hypothesis HLin : forall z, In z L <-> (pc z = k /\ z < 2 ^ 52 /\ N.land z m = 0).
Hypothesis Hout : forall z, z < 2 ^ 52 -> N.land z m = 0 -> hand_of_u64 d z = z.

Lemma run_from : forall x, pc x = k -> x <= top -> resting x ->
  hands_all d (mkHiter x m) (from x L).
Proof.
  intros x. induction x as [x IH] using (well_founded_induction (N.gt_wf top)).
  intros Hpc Hx Hrest.
  destruct (N.lt_ge_cases x (2 ^ 52)) as [Hlt | Hge].
  - destruct Hrest as [[_ Hdis] | Hge]; [|lia].
    pose proof top_ge as Htg.
    destruct (advance_some x Hpc ltac:(lia)) as (y & Ea & Hxy & Hyt & Hpy & Hdy & Hgap).
    assert (HinL : In x L) by (apply HLin; repeat split; assumption).
    rewrite (from_step L x y HLs HinL Hxy).
    + apply hands_all_item with (it' := mkHiter y m).
      * unfold hand_next. cbn [hnext].
        assert (He : exhausted x = false) by (apply exhausted_false; split; [apply kpat_pos; exact Hpc | exact Hlt]).
        rewrite He, Ea. rewrite (Hout x Hlt Hdis). reflexivity.
      * apply IH; [lia | exact Hpy | exact Hyt |].
        destruct (N.lt_ge_cases y (2 ^ 52)) as [H | H]; [left; split; assumption | right; exact H].
    + intros z Hz Hxz. apply HLin in Hz. destruct Hz as (Hz1 & Hz2 & Hz3).
      destruct (N.le_gt_cases y z) as [H | H]; [exact H|].
      exfalso. exact (Hgap z Hxz H Hz1 Hz3).
  - rewrite from_none.
    + apply hands_all_done. unfold hand_next. cbn [hnext].
      assert (He : exhausted x = true) by (apply exhausted_true; right; exact Hge).
      rewrite He. reflexivity.
    + intros z Hz. apply HLin in Hz. lia.
Qed.

Lemma hands_from_start :
  exists x0, repeat_until big_fuel (skip_step m) (ones k) = Stop x0 /\
             hands_all d (mkHiter x0 m) L.
Proof.
  destruct (skip_reaches (ones k) (pc_ones k) ones_le_top) as (n & x0 & Hr & H1 & H2 & H3 & H4 & H5 & H6).
  exists x0. split.
  - apply (repeat_until_reaches _ big_fuel _ n (Stop x0) Hr).
    pose proof top_lt. unfold big_fuel. lia.
  - rewrite <- (from_all x0 L).
    + apply run_from; assumption.
    + intros z Hz. apply HLin in Hz. destruct Hz as (Hz1 & Hz2 & Hz3).
      destruct (N.le_gt_cases x0 z) as [H | H]; [exact H|].
      exfalso. apply (H5 z); try assumption.
      rewrite <- Hz1. apply pc_ge_ones.
Qed.

End Iter.
