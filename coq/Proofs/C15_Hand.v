(* Proofs/C15_Hand.v -- Hand <-> u64, Hand <-> Vec<Card>, Observation <-> i64 are lossless. *)
From Coq Require Import NArith ZArith List Bool Lia ZifyBool ZifyN ZifyNat Sorted.
From RP Require Import Base.Bits Gen.GenLib Gen.GenCards Gen.GenAbstract Gen.GenStreet Model.Codec.
From RP Require Import Spec.SpecCodec Proofs.BitsLemmas.
Import ListNotations.
Open Scope N_scope.

Ltac Zify.zify_post_hook ::= Z.div_mod_to_equations.

Arguments N.add : simpl never.
Arguments N.mul : simpl never.
Arguments N.sub : simpl never.
Arguments N.shiftl : simpl never.
Arguments N.shiftr : simpl never.
Arguments N.land : simpl never.
Arguments N.lor : simpl never.
Arguments N.pow : simpl never.
Arguments N.testbit : simpl never.
Arguments Z.shiftr : simpl never.
Arguments Z.mul : simpl never.
Arguments Z.add : simpl never.
Arguments Z.modulo : simpl never.

(* ---------- 2. Hand ---------- *)

Lemma hand_u64 : forall d h, N.land h (hand_mask d) = h -> hand_of_u64 d (hand_to_u64 h) = h.
Proof. intros d h H. unfold hand_of_u64, hand_to_u64. exact H. Qed.

Lemma card_to_u64_lt : forall c, c < 64 -> card_to_u64 c = Some (N.shiftl 1 c).
Proof.
  intros c Hc. unfold card_to_u64.
  destruct (N.ltb_spec c 64) as [_ | H]; [reflexivity | lia].
Qed.

Lemma hand_of_cards_fold : forall l a, Forall (fun c => c < 64) l ->
  fold_left (fun acc c => match acc, card_to_u64 c with
                          | Some a, Some b => Some (N.lor a b) | _, _ => None end) l (Some a)
  = Some (fold_left (fun a i => N.lor a (N.shiftl 1 i)) l a).
Proof.
  induction l as [|c l IH]; intros a H.
  - reflexivity.
  - inversion H as [|c' l' Hc Hl]; subst. cbn [fold_left].
    rewrite (card_to_u64_lt c Hc). apply IH. exact Hl.
Qed.

Lemma hand_of_cards_mask : forall l, Forall (fun c => c < 64) l ->
  hand_of_cards l = Some (mask_of_bits l).
Proof. intros l H. unfold hand_of_cards, mask_of_bits. apply hand_of_cards_fold. exact H. Qed.

Lemma hand_cards_lt64 : forall h, Forall (fun c => c < 64) (hand_cards h).
Proof. intros h. apply Forall_forall. intros c Hc. apply (set_bits64_lt64 h c Hc). Qed.

Lemma hand_cards_roundtrip : forall h, h < 2 ^ 64 -> hand_of_cards (hand_cards h) = Some h.
Proof.
  intros h Hh. rewrite hand_of_cards_mask by apply hand_cards_lt64.
  unfold hand_cards. rewrite mask_of_set_bits64 by exact Hh. reflexivity.
Qed.

Lemma hand_cards_spec : forall h i, h < 2 ^ 64 -> (In i (hand_cards h) <-> N.testbit h i = true).
Proof. intros h i Hh. apply set_bits64_spec. exact Hh. Qed.

Lemma hand_cards_sorted : forall h, StronglySorted N.lt (hand_cards h).
Proof. intros h. apply set_bits64_sorted. Qed.

Lemma hand_cards_NoDup : forall h, NoDup (hand_cards h).
Proof. intros h. apply set_bits64_NoDup. Qed.

Lemma hand_cards_bound : forall h n, h < 2 ^ n -> Forall (fun c => c < n) (hand_cards h).
Proof. intros h n Hh. apply Forall_forall. intros c Hc. apply (set_bits64_lt h n c Hh Hc). Qed.

Lemma hand_size_length : forall h, hand_size h = N.of_nat (length (hand_cards h)).
Proof. intros h. apply popcount64_length. Qed.

Lemma hand_cards_mask : forall h, h < 2 ^ 64 -> mask_of_bits (hand_cards h) = h.
Proof. intros h Hh. apply mask_of_set_bits64. exact Hh. Qed.

Lemma pow2_52_64 : forall h, h < 2 ^ 52 -> h < 2 ^ 64.
Proof.
  intros h Hh. eapply N.lt_le_trans; [exact Hh|]. apply N.pow_le_mono_r; [discriminate|]. lia.
Qed.

(* ---------- 3. Observation ---------- *)

(* (a) the encoder is the big-endian base-256 number with digits 1 + card *)
Lemma obs_enc_fold : forall l k a,
  Forall (fun c => c < 255) l -> a < 2 ^ (8 * N.of_nat k) -> (k + length l <= 8)%nat ->
  fold_left (fun acc c => u64 (N.lor (N.shiftl acc 8) (1 + c))) l a
  = fold_left (fun acc d => acc * 2 ^ 8 + d) (map (fun c => 1 + c) l) a.
Proof.
  induction l as [|c l IH]; intros k a Hl Ha Hk.
  - reflexivity.
  - inversion Hl as [|c' l' Hc Hl']; subst. cbn [fold_left map length] in *.
    assert (Hd : 1 + c < 2 ^ 8) by (change (2 ^ 8) with 256; lia).
    rewrite shiftl_lor_add by exact Hd.
    assert (Hb : a * 2 ^ 8 + (1 + c) < 2 ^ (8 * N.of_nat (S k))).
    { rewrite Nat2N.inj_succ, N.mul_succ_r, N.pow_add_r. nia. }
    assert (Hw : a * 2 ^ 8 + (1 + c) < two64).
    { eapply N.lt_le_trans; [exact Hb|]. change two64 with (2 ^ 64).
      apply N.pow_le_mono_r; [discriminate|]. lia. }
    assert (Hu : u64 (a * 2 ^ 8 + (1 + c)) = a * 2 ^ 8 + (1 + c)) by (apply N.mod_small; exact Hw).
    rewrite Hu.
    apply (IH (S k)); [exact Hl' | exact Hb | lia].
Qed.

Definition obs_digits (o : obs) : list N :=
  map (fun c => 1 + c) (hand_cards (public o) ++ hand_cards (pocket o)).

Lemma obs_code_val : forall o,
  Forall (fun c => c < 255) (hand_cards (public o) ++ hand_cards (pocket o)) ->
  (length (hand_cards (public o) ++ hand_cards (pocket o)) <= 7)%nat ->
  obs_to_i64 o = Z.of_N (le_val 8 (rev (obs_digits o))).
Proof.
  intros o Hf Hlen. unfold obs_to_i64.
  rewrite (obs_enc_fold _ 0 0 Hf); [| change (2 ^ (8 * N.of_nat 0)) with 1; lia | lia].
  rewrite be_fold_le_val. fold (obs_digits o). rewrite N.mul_0_r, N.add_0_r.
  set (r := rev (obs_digits o)).
  assert (Hr : le_val 8 r < 2 ^ (8 * N.of_nat (length r))).
  { apply le_val_lt. apply Forall_forall. intros b Hb. unfold r in Hb.
    apply in_rev in Hb. unfold obs_digits in Hb. apply in_map_iff in Hb.
    destruct Hb as (c & E & Hc). rewrite Forall_forall in Hf. specialize (Hf _ Hc).
    change (2 ^ 8) with 256. lia. }
  assert (Hlr : (length r <= 7)%nat).
  { unfold r, obs_digits. rewrite rev_length, map_length. exact Hlen. }
  assert (H56 : le_val 8 r < 2 ^ 56).
  { eapply N.lt_le_trans; [exact Hr|]. apply N.pow_le_mono_r; [discriminate|]. lia. }
  unfold i64_of_u64.
  destruct (N.ltb_spec (le_val 8 r) 9223372036854775808) as [_ | Hge]; [reflexivity|].
  exfalso. change (2 ^ 56) with 72057594037927936 in H56. lia.
Qed.

(* (b) the byte splitter returns the little-endian digits *)
Lemma obs_bytes_le_val : forall n r i bits,
  (0 <= i)%Z -> Forall (fun b => 0 < b < 256) r -> (length r <= n)%nat ->
  Z.shiftr bits (i * 8) = Z.of_N (le_val 8 r) ->
  obs_bytes n i bits = r.
Proof.
  induction n as [|n IH]; intros r i bits Hi Hr Hlen Hs.
  - destruct r as [|b t]; [reflexivity | cbn [length] in Hlen; lia].
  - cbn [obs_bytes]. rewrite Hs.
    destruct r as [|b t].
    + cbn [le_val]. reflexivity.
    + inversion Hr as [|b' t' Hb Ht]; subst. cbn [le_val]. change (2 ^ 8) with 256.
      destruct (Z.ltb_spec 0 (Z.of_N (b + 256 * le_val 8 t))) as [_ | Hle]; [|lia].
      f_equal.
      * lia.
      * apply IH; [lia | exact Ht | cbn [length] in Hlen; lia |].
        replace ((i + 1) * 8)%Z with (i * 8 + 8)%Z by lia.
        rewrite <- Z.shiftr_shiftr by lia. rewrite Hs.
        rewrite Z.shiftr_div_pow2 by lia. cbn [le_val]. change (2 ^ 8) with 256.
        change (2 ^ 8)%Z with 256%Z.
        lia.
Qed.

(* (c) the decoder's fold *)
Lemma land_bit_zero : forall a c, N.testbit a c = false -> N.land a (N.shiftl 1 c) = 0.
Proof.
  intros a c H. apply N.bits_inj. intros k.
  rewrite N.land_spec, N.bits_0, N.shiftl_1_l, N.pow2_bits_eqb.
  destruct (N.eqb_spec c k) as [E | NE]; [subst k; rewrite H; reflexivity | apply andb_false_r].
Qed.

Lemma hand_add_bit : forall a c, N.testbit a c = false ->
  hand_add a (N.shiftl 1 c) = Some (N.lor a (N.shiftl 1 c)).
Proof.
  intros a c H. unfold hand_add. rewrite (land_bit_zero a c H). reflexivity.
Qed.

Lemma testbit_lor_bit : forall a c k, N.testbit (N.lor a (N.shiftl 1 c)) k = N.testbit a k || (c =? k).
Proof. intros a c k. rewrite N.lor_spec, N.shiftl_1_l, N.pow2_bits_eqb. reflexivity. Qed.

Lemma obs_fold_step_pk : forall c rest i pk pb,
  (i < 2)%nat -> c < 64 -> N.testbit pk c = false ->
  obs_fold ((1 + c) :: rest) i pk pb = obs_fold rest (S i) (N.lor pk (N.shiftl 1 c)) pb.
Proof.
  intros c rest i pk pb Hi Hc Hb. cbn [obs_fold].
  destruct (N.eqb_spec (1 + c) 0) as [E | _]; [lia|].
  replace (1 + c - 1) with c by lia. rewrite (card_to_u64_lt c Hc).
  destruct (Nat.ltb_spec i 2) as [_ | H]; [|lia].
  rewrite (hand_add_bit pk c Hb). reflexivity.
Qed.

Lemma obs_fold_step_pb : forall c rest i pk pb,
  (2 <= i)%nat -> c < 64 -> N.testbit pb c = false ->
  obs_fold ((1 + c) :: rest) i pk pb = obs_fold rest (S i) pk (N.lor pb (N.shiftl 1 c)).
Proof.
  intros c rest i pk pb Hi Hc Hb. cbn [obs_fold].
  destruct (N.eqb_spec (1 + c) 0) as [E | _]; [lia|].
  replace (1 + c - 1) with c by lia. rewrite (card_to_u64_lt c Hc).
  destruct (Nat.ltb_spec i 2) as [H | _]; [lia|].
  rewrite (hand_add_bit pb c Hb). reflexivity.
Qed.

Lemma obs_fold_public : forall cs i pk pb,
  (2 <= i)%nat -> Forall (fun c => c < 64) cs -> NoDup cs ->
  (forall c, In c cs -> N.testbit pb c = false) ->
  obs_fold (map (fun c => 1 + c) cs) i pk pb = obs_from_parts pk (N.lor pb (mask_of_bits cs)).
Proof.
  induction cs as [|c cs IH]; intros i pk pb Hi Hf Hnd Hdis.
  - cbn [map obs_fold]. rewrite mask_of_bits_nil, N.lor_0_r. reflexivity.
  - inversion Hf as [|c' cs' Hc Hcs]; subst. inversion Hnd as [|c' cs' Hnotin Hnd']; subst.
    cbn [map]. rewrite obs_fold_step_pb; [| exact Hi | exact Hc | apply Hdis; left; reflexivity].
    rewrite IH; [| lia | exact Hcs | exact Hnd' |].
    + rewrite mask_of_bits_cons, N.lor_assoc. reflexivity.
    + intros c' Hc'. rewrite testbit_lor_bit, (Hdis c' (or_intror Hc')).
      destruct (N.eqb_spec c c') as [E | _]; [subst c'; contradiction | reflexivity].
Qed.

(* wf_obs consequences *)
Lemma wf_obs_pocket_cards : forall o, wf_obs o ->
  exists a b, hand_cards (pocket o) = [a; b] /\ a < 52 /\ b < 52 /\ a < b.
Proof.
  intros o (Hpk & _ & _ & Hsz & _).
  rewrite hand_size_length in Hsz.
  pose proof (hand_cards_bound _ _ Hpk) as Hb. pose proof (hand_cards_sorted (pocket o)) as Hs.
  destruct (hand_cards (pocket o)) as [|a [|b [|c t]]]; cbn [length] in Hsz; try lia.
  exists a, b. split; [reflexivity|].
  inversion Hb as [|? ? Ha Hb']; subst. inversion Hb' as [|? ? Hb2 _]; subst.
  inversion Hs as [|? ? _ Hf]; subst. inversion Hf; subst. auto.
Qed.

Lemma wf_obs_public_len : forall o, wf_obs o -> (length (hand_cards (public o)) <= 5)%nat.
Proof.
  intros o (_ & _ & _ & _ & Hsz). rewrite hand_size_length in Hsz. lia.
Qed.

Lemma obs_bytes_code : forall o, wf_obs o ->
  exists a b, hand_cards (pocket o) = [a; b] /\ a < 52 /\ b < 52 /\ a < b /\
    obs_bytes 8 0 (obs_to_i64 o)
    = (1 + b) :: (1 + a) :: map (fun c => 1 + c) (rev (hand_cards (public o))).
Proof.
  intros o Hwf.
  destruct (wf_obs_pocket_cards o Hwf) as (a & b & Epk & Ha & Hb & Hab).
  pose proof (wf_obs_public_len o Hwf) as Hlen.
  destruct Hwf as (Hpk & Hpb & _).
  exists a, b. repeat (split; [assumption|]).
  assert (Hall : Forall (fun c => c < 52) (hand_cards (public o) ++ hand_cards (pocket o))).
  { apply Forall_app. split; apply hand_cards_bound; assumption. }
  assert (Hrev : rev (obs_digits o)
                 = (1 + b) :: (1 + a) :: map (fun c => 1 + c) (rev (hand_cards (public o)))).
  { unfold obs_digits. rewrite <- map_rev, rev_app_distr, Epk. reflexivity. }
  rewrite obs_code_val.
  - rewrite <- Hrev. apply obs_bytes_le_val.
    + lia.
    + apply Forall_forall. intros d Hd. apply in_rev in Hd. unfold obs_digits in Hd.
      apply in_map_iff in Hd. destruct Hd as (c & E & Hc).
      rewrite Forall_forall in Hall. specialize (Hall _ Hc). lia.
    + unfold obs_digits. rewrite rev_length, map_length, app_length, Epk. cbn [length]. lia.
    + reflexivity.
  - eapply Forall_impl; [|exact Hall]. intros c Hc. cbv beta in Hc. lia.
  - rewrite app_length, Epk. cbn [length]. lia.
Qed.

Lemma obs_i64 : forall o, wf_obs o -> obs_of_i64 (obs_to_i64 o) = Some o.
Proof.
  intros o Hwf.
  destruct (obs_bytes_code o Hwf) as (a & b & Epk & Ha & Hb & Hab & Ebytes).
  destruct Hwf as (Hpk & Hpb & _ & Hsz2 & Hszp).
  unfold obs_of_i64. rewrite Ebytes.
  rewrite obs_fold_step_pk; [| lia | lia | apply N.bits_0].
  rewrite obs_fold_step_pk; [| lia | lia |].
  2:{ rewrite testbit_lor_bit, N.bits_0. destruct (N.eqb_spec b a) as [E | _]; [lia | reflexivity]. }
  rewrite obs_fold_public.
  - rewrite (N.lor_0_l (mask_of_bits _)), mask_of_bits_rev.
    assert (Em : N.lor (N.lor 0 (N.shiftl 1 b)) (N.shiftl 1 a) = mask_of_bits (rev [a; b]))
      by reflexivity.
    rewrite Em, mask_of_bits_rev, <- Epk.
    rewrite !hand_cards_mask by (apply pow2_52_64; assumption).
    unfold obs_from_parts. rewrite Hsz2.
    replace (hand_size (public o) <=? 5) with true by (symmetry; apply N.leb_le; lia).
    destruct o as [pk pb]. reflexivity.
  - lia.
  - apply Forall_forall. intros c Hc. apply in_rev in Hc. apply (set_bits64_lt64 _ _ Hc).
  - apply NoDup_rev. apply hand_cards_NoDup.
  - intros c _. apply N.bits_0.
Qed.

Lemma obs_street_code : forall o, wf_obs o ->
  street_of_obs_code (obs_to_i64 o) = obs_street o /\ obs_street o <> None.
Proof.
  intros o Hwf.
  destruct (obs_bytes_code o Hwf) as (a & b & _ & _ & _ & _ & Ebytes).
  destruct Hwf as (_ & _ & _ & _ & Hszp).
  split.
  - unfold street_of_obs_code, obs_street. rewrite Ebytes. cbn [skipn].
    rewrite map_length, rev_length, hand_size_length, nat_N_Z. reflexivity.
  - unfold obs_street.
    destruct Hszp as [E | [E | [E | E]]]; rewrite E; vm_compute; discriminate.
Qed.

Lemma obs_inj : forall o1 o2, wf_obs o1 -> wf_obs o2 -> obs_to_i64 o1 = obs_to_i64 o2 -> o1 = o2.
Proof.
  intros o1 o2 H1 H2 E.
  pose proof (obs_i64 o1 H1) as A1. pose proof (obs_i64 o2 H2) as A2.
  rewrite E, A2 in A1. injection A1 as A1. symmetry. exact A1.
Qed.
