(* Proofs/C10_Infosets.v -- property C10: Partition::from(Tree) and Profile::witness over the
   sampled tree of Model/Sample.v:
     - infosets lists exactly the traverser's nodes that have children, each once, one group per
       bucket, every group non-empty and holding the nodes of its bucket (infosets_partition);
       two listed nodes are in one group iff their buckets are equal (infosets_iff);
     - on a tree built by grow the nodes of one group agree on the recalled history, the menu and
       the abstraction (infosets_same);
     - witness: a new bucket gets 1 / n on each of its n menu edges, all other buckets are
       untouched, a known bucket leaves the profile as it is (witness_spec); replayed over the
       whole tree (witness_tree_spec). *)
From Coq Require Import ZArith NArith List Bool Lia QArith Permutation.
From RP Require Import Base.Bits Gen.GenLib Gen.GenFixes Model.Codec Model.Showdown Model.Game
                       Model.Tree Model.Sample
                       Spec.SpecGameInv Spec.SpecTree Spec.SpecSample
                       Proofs.C10_Grow.
Import ListNotations.
Open Scope Z_scope.

(* ---------- equality tests ---------- *)
Lemma bucket_eqb_eq : forall a b, bucket_eqb a b = true <-> a = b.
Proof.
  intros [[a1 a2] a3] [[b1 b2] b3]. unfold bucket_eqb, b_past, b_abs, b_menu. cbn [fst snd]. split.
  - intros H. apply andb_prop in H. destruct H as [H H3]. apply andb_prop in H. destruct H as [H1 H2].
    apply N.eqb_eq in H1, H2, H3. subst. reflexivity.
  - intros H. injection H as -> -> ->. rewrite !N.eqb_refl. reflexivity.
Qed.
Lemma bucket_eqb_refl : forall a, bucket_eqb a a = true.
Proof. intros a. apply bucket_eqb_eq. reflexivity. Qed.
Lemma bucket_eqb_neq : forall a b, a <> b -> bucket_eqb a b = false.
Proof.
  intros a b H. destruct (bucket_eqb a b) eqn:E; [|reflexivity]. apply bucket_eqb_eq in E. contradiction.
Qed.

Lemma sedge_eqb_eq : forall a b, sedge_eqb a b = true <-> a = b.
Proof.
  intros a b. split.
  - destruct a, b; cbn; intros H; try reflexivity; try discriminate H.
    apply andb_prop in H. destruct H as [H1 H2]. apply Z.eqb_eq in H1, H2. subst. reflexivity.
  - intros <-. destruct a; cbn; try reflexivity. rewrite !Z.eqb_refl. reflexivity.
Qed.
Lemma sedges_eqb_refl : forall l, sedges_eqb l l = true.
Proof.
  induction l as [|a l IH]; [reflexivity|]. cbn [sedges_eqb]. rewrite IH.
  rewrite (proj2 (sedge_eqb_eq a a) eq_refl). reflexivity.
Qed.

(* ---------- Partition::from ---------- *)
Definition group_inv (m : list (bucket * list node)) (seen : list node) : Prop :=
  Permutation (concat (map snd m)) seen /\
  NoDup (map fst m) /\
  forall b ns, In (b, ns) m -> ns <> [] /\ forall n, In n ns -> n_bucket n = b.

Lemma add_info_keys : forall b n m,
  (In b (map fst m) /\ map fst (add_info b n m) = map fst m) \/
  (~ In b (map fst m) /\ map fst (add_info b n m) = map fst m ++ [b]).
Proof.
  intros b n m. induction m as [|[b' ns] r IH].
  - right. split; [intros []|reflexivity].
  - cbn [add_info]. destruct (bucket_eqb b b') eqn:E.
    + apply bucket_eqb_eq in E. subst b'. left. split; [left; reflexivity|reflexivity].
    + assert (Hne : b' <> b).
      { intros ->. rewrite bucket_eqb_refl in E. discriminate E. }
      cbn [map fst]. destruct IH as [[Hin Heq]|[Hnin Heq]].
      * left. split; [right; exact Hin|]. rewrite Heq. reflexivity.
      * right. split; [|rewrite Heq; reflexivity]. intros [H|H]; [exact (Hne H)|exact (Hnin H)].
Qed.

Lemma add_info_perm : forall b n m,
  Permutation (concat (map snd (add_info b n m))) (concat (map snd m) ++ [n]).
Proof.
  intros b n m. induction m as [|[b' ns] r IH].
  - reflexivity.
  - cbn [add_info]. destruct (bucket_eqb b b').
    + cbn [map snd concat]. rewrite <- !app_assoc. apply Permutation_app_head. apply Permutation_app_comm.
    + cbn [map snd concat]. rewrite <- app_assoc. apply Permutation_app_head. exact IH.
Qed.

Lemma add_info_in : forall b n m b' ns', In (b', ns') (add_info b n m) ->
  In (b', ns') m \/ (b' = b /\ (ns' = [n] \/ exists ns0, In (b, ns0) m /\ ns' = ns0 ++ [n])).
Proof.
  intros b n m b' ns'. induction m as [|[b1 ns1] r IH]; intros H.
  - destruct H as [H|[]]. injection H as <- <-. right. split; [reflexivity|left; reflexivity].
  - cbn [add_info] in H. destruct (bucket_eqb b b1) eqn:E.
    + apply bucket_eqb_eq in E. subst b1. destruct H as [H|H].
      * injection H as <- <-. right. split; [reflexivity|]. right. exists ns1.
        split; [left; reflexivity|reflexivity].
      * left. right. exact H.
    + destruct H as [H|H]; [left; left; exact H|].
      destruct (IH H) as [Hin|(-> & [->|(ns0 & Hin & ->)])].
      * left. right. exact Hin.
      * right. split; [reflexivity|left; reflexivity].
      * right. split; [reflexivity|]. right. exists ns0. split; [right; exact Hin|reflexivity].
Qed.

Lemma group_inv_add : forall m seen n, group_inv m seen ->
  group_inv (add_info (n_bucket n) n m) (seen ++ [n]).
Proof.
  intros m seen n (Hperm & Hnd & Hgrp). split; [|split].
  - rewrite add_info_perm. apply Permutation_app_tail. exact Hperm.
  - destruct (add_info_keys (n_bucket n) n m) as [[_ ->]|[Hnin ->]]; [exact Hnd|].
    exact (Permutation_NoDup (Permutation_cons_append (map fst m) (n_bucket n)) (NoDup_cons _ Hnin Hnd)).
  - intros b ns Hin. destruct (add_info_in _ _ _ _ _ Hin) as [H|(-> & [->|(ns0 & H0 & ->)])].
    + exact (Hgrp b ns H).
    + split; [discriminate|]. intros n' [<-|[]]. reflexivity.
    + destruct (Hgrp _ _ H0) as [_ Hb]. split.
      * intros H. apply app_eq_nil in H. destruct H as [_ H]. discriminate H.
      * intros n' Hn'. apply in_app_or in Hn'. destruct Hn' as [Hn'|[<-|[]]]; [exact (Hb n' Hn')|reflexivity].
Qed.

Lemma fold_group_inv : forall ns m seen, group_inv m seen ->
  group_inv (fold_left (fun m n => add_info (n_bucket n) n m) ns m) (seen ++ ns).
Proof.
  induction ns as [|n ns IH]; intros m seen H.
  - rewrite app_nil_r. exact H.
  - cbn [fold_left]. replace (seen ++ n :: ns) with ((seen ++ [n]) ++ ns) by (rewrite <- app_assoc; reflexivity).
    apply IH. apply group_inv_add. exact H.
Qed.

Lemma fold_left_map_nodes : forall (ss : list stree) m,
  fold_left (fun m s => add_info (n_bucket (root_node s)) (root_node s) m) ss m
  = fold_left (fun m n => add_info (n_bucket n) n m) (map root_node ss) m.
Proof. induction ss as [|s ss IH]; intros m; [reflexivity|]. cbn [fold_left map]. apply IH. Qed.

(* the nodes Partition::from looks at *)
Definition infoset_nodes (walker : Z) (t : stree) : list node :=
  map root_node (filter (is_infoset_node walker) (subtrees t)).

Theorem infosets_partition : forall walker t,
  Permutation (concat (map snd (infosets walker t))) (infoset_nodes walker t) /\
  NoDup (map fst (infosets walker t)) /\
  forall b ns, In (b, ns) (infosets walker t) -> ns <> [] /\ forall n, In n ns -> n_bucket n = b.
Proof.
  intros walker t. unfold infosets. rewrite fold_left_map_nodes.
  apply (fold_group_inv (map root_node (filter (is_infoset_node walker) (subtrees t))) [] []).
  split; [reflexivity|]. split; [constructor|]. intros b ns [].
Qed.

Lemma nodup_keys_fun : forall (A B : Type) (l : list (A * B)) k v1 v2,
  NoDup (map fst l) -> In (k, v1) l -> In (k, v2) l -> v1 = v2.
Proof.
  intros A B l k v1 v2. induction l as [|[k' v'] r IH]; intros Hnd H1 H2; [contradiction H1|].
  cbn [map fst] in Hnd. inversion Hnd as [|x l' Hnin Hnd']; subst.
  destruct H1 as [H1|H1], H2 as [H2|H2].
  - injection H1 as <- <-. injection H2 as <-. reflexivity.
  - injection H1 as <- <-. contradiction Hnin. apply in_map_iff. exists (k', v2). split; [reflexivity|exact H2].
  - injection H2 as <- <-. contradiction Hnin. apply in_map_iff. exists (k', v1). split; [reflexivity|exact H1].
  - exact (IH Hnd' H1 H2).
Qed.

(* two listed nodes are in one group exactly when their buckets are equal *)
Theorem infosets_iff : forall walker t b1 ns1 b2 ns2 n1 n2,
  In (b1, ns1) (infosets walker t) -> In (b2, ns2) (infosets walker t) -> In n1 ns1 -> In n2 ns2 ->
  (n_bucket n1 = n_bucket n2 <-> (b1, ns1) = (b2, ns2)).
Proof.
  intros walker t b1 ns1 b2 ns2 n1 n2 H1 H2 Hn1 Hn2.
  destruct (infosets_partition walker t) as (_ & Hnd & Hgrp).
  destruct (Hgrp b1 ns1 H1) as [_ Hb1]. destruct (Hgrp b2 ns2 H2) as [_ Hb2].
  rewrite (Hb1 n1 Hn1), (Hb2 n2 Hn2). split.
  - intros <-. f_equal. exact (nodup_keys_fun _ _ _ b1 ns1 ns2 Hnd H1 H2).
  - intros H. injection H as -> _. reflexivity.
Qed.

(* every listed node is a traverser node of the tree with at least one child *)
Lemma infosets_member : forall walker t b ns n, In (b, ns) (infosets walker t) -> In n ns ->
  exists s, In s (subtrees t) /\ root_node s = n /\ kids s <> [] /\
            who_acts (s_game s) walker = WTraverser /\ n_bucket n = b.
Proof.
  intros walker t b ns n Hin Hn. destruct (infosets_partition walker t) as (Hperm & _ & Hgrp).
  assert (Hc : In n (concat (map snd (infosets walker t)))).
  { apply in_concat. exists ns. split; [|exact Hn]. apply in_map_iff. exists (b, ns). split; [reflexivity|exact Hin]. }
  apply (Permutation_in _ Hperm) in Hc. unfold infoset_nodes in Hc. apply in_map_iff in Hc.
  destruct Hc as (s & Hroot & Hs). apply filter_In in Hs. destruct Hs as [Hs Hf].
  exists s. split; [exact Hs|]. split; [exact Hroot|].
  unfold is_infoset_node in Hf. unfold s_game.
  destruct (kids s) as [|k r]; [discriminate Hf|]. split; [discriminate|].
  destruct (who_acts (n_game (root_node s)) walker); try discriminate Hf.
  split; [reflexivity|]. exact (proj2 (Hgrp b ns Hin) n Hn).
Qed.

(* and conversely *)
Lemma infosets_complete : forall walker t s, In s (subtrees t) -> kids s <> [] ->
  who_acts (s_game s) walker = WTraverser ->
  exists ns, In (n_bucket (root_node s), ns) (infosets walker t) /\ In (root_node s) ns.
Proof.
  intros walker t s Hs Hk Hw. destruct (infosets_partition walker t) as (Hperm & _ & Hgrp).
  assert (Hn : In (root_node s) (infoset_nodes walker t)).
  { unfold infoset_nodes. apply in_map. apply filter_In. split; [exact Hs|].
    unfold is_infoset_node. unfold s_game in Hw. rewrite Hw. destruct (kids s); [contradiction Hk; reflexivity|reflexivity]. }
  apply (Permutation_in _ (Permutation_sym Hperm)) in Hn. apply in_concat in Hn.
  destruct Hn as (ns & Hns & Hn). apply in_map_iff in Hns. destruct Hns as ([b ns'] & Heq & Hin).
  cbn [snd] in Heq. subst ns'. exists ns. split; [|exact Hn].
  rewrite (proj2 (Hgrp b ns Hin) _ Hn). exact Hin.
Qed.

(* ---------- the nodes of one information set see the same thing ---------- *)
Theorem infosets_same : forall d hs g0 abs pick deal walker fuel h g t,
  wf_holes d hs -> root d hs = Some g0 -> tree_path d g0 h g ->
  grow d abs pick deal fuel walker g h = Some t ->
  forall b ns n1 n2, In (b, ns) (infosets walker t) -> In n1 ns -> In n2 ns -> same_infoset_ok abs n1 n2.
Proof.
  intros d hs g0 abs pick deal walker fuel h g t Hwf Hroot Hp Hg b ns n1 n2 Hin H1 H2.
  destruct (infosets_member walker t b ns n1 Hin H1) as (s1 & Hs1 & Hr1 & _ & _ & Hb1).
  destruct (infosets_member walker t b ns n2 Hin H2) as (s2 & Hs2 & Hr2 & _ & _ & Hb2).
  destruct (grow_sound d hs g0 abs pick deal walker fuel h g t Hwf Hroot Hp Hg s1 Hs1) as (_ & _ & _ & Hbk1 & Hp1).
  destruct (grow_sound d hs g0 abs pick deal walker fuel h g t Hwf Hroot Hp Hg s2 Hs2) as (_ & _ & _ & Hbk2 & Hp2).
  unfold bucket_ok, on_tree_path, s_game, s_history in *. rewrite Hr1 in *. rewrite Hr2 in *.
  destruct (realize_path d hs g0 abs _ _ Hwf Hroot Hp1) as (p1 & f1 & m1 & Hre1 & Hm1 & _ & _ & _ & Hu1 & Hup1).
  destruct (realize_path d hs g0 abs _ _ Hwf Hroot Hp2) as (p2 & f2 & m2 & Hre2 & Hm2 & _ & _ & _ & Hu2 & Hup2).
  rewrite Hbk1 in Hre1. rewrite Hbk2 in Hre2. rewrite Hb1 in Hre1. rewrite Hb2 in Hre2.
  rewrite Hre1 in Hre2. injection Hre2 as Ep Ea Ef. subst p2 f2.
  rewrite Hup1 in Hup2. injection Hup2 as Hrec. rewrite Hu1 in Hu2. injection Hu2 as Hmm.
  unfold same_infoset_ok. split; [exact Hrec|]. split; [|exact Ea]. rewrite Hm1, Hm2, Hmm. reflexivity.
Qed.

(* ---------- Profile::witness ---------- *)
Lemma weight_of_const : forall (w : Q) es e, In e es -> weight_of e (map (fun e0 => (e0, w)) es) = Some w.
Proof.
  intros w es e. induction es as [|a r IH]; intros H; [contradiction H|].
  cbn [map weight_of]. destruct (sedge_eqb e a) eqn:E; [reflexivity|].
  destruct H as [->|H]; [|exact (IH H)].
  rewrite (proj2 (sedge_eqb_eq e e) eq_refl) in E. discriminate E.
Qed.
Lemma map_snd_const : forall (w : Q) (es : list edge), map snd (map (fun e0 => (e0, w)) es) = repeat w (length es).
Proof. intros w es. induction es as [|a r IH]; [reflexivity|]. cbn [map snd length repeat]. rewrite IH. reflexivity. Qed.
Lemma map_fst_const : forall (w : Q) (es : list edge), map fst (map (fun e0 => (e0, w)) es) = es.
Proof. intros w es. induction es as [|a r IH]; [reflexivity|]. cbn [map fst]. rewrite IH. reflexivity. Qed.

Lemma uniform_strategy_new : forall p b es, uniform_new ((b, uniform_strategy es) :: p) b es.
Proof.
  intros p b es. exists (uniform_strategy es). cbn [lookup]. rewrite bucket_eqb_refl.
  split; [reflexivity|]. unfold uniform_strategy, uniform_policy.
  split; [apply map_fst_const|]. split; [apply map_snd_const|]. intros e He. apply weight_of_const. exact He.
Qed.

Theorem witness_spec : forall p b es, path_unpack (b_menu b) = Some es ->
  (lookup b p = None -> es <> [] ->
     exists p', witness p b es = Some p' /\ uniform_new p' b es /\ others_unchanged p p' b) /\
  (lookup b p <> None -> witness p b es = Some p) /\
  (es = [] -> witness p b es = Some p).
Proof.
  intros p b es Hu. unfold witness. rewrite Hu, sedges_eqb_refl. split; [|split].
  - intros Hnone Hne. rewrite Hnone. destruct es as [|e r]; [contradiction Hne; reflexivity|].
    eexists. split; [reflexivity|]. split; [apply uniform_strategy_new|].
    intros b' Hb'. cbn [lookup]. rewrite (bucket_eqb_neq b' b Hb'). reflexivity.
  - intros Hsome. destruct (lookup b p); [reflexivity|contradiction Hsome; reflexivity].
  - intros ->. destruct (lookup b p); reflexivity.
Qed.

(* the assertion of witness: other edges than the bucket's menu are refused *)
Lemma witness_assert : forall p b es m, path_unpack (b_menu b) = Some m -> m <> es -> witness p b es = None.
Proof.
  intros p b es m Hu Hne. unfold witness. rewrite Hu.
  destruct (sedges_eqb m es) eqn:E; [|reflexivity]. contradiction Hne.
  clear -E. revert es E. induction m as [|a m IH]; intros [|c es] E; try discriminate E; [reflexivity|].
  cbn [sedges_eqb] in E. apply andb_prop in E. destruct E as [E1 E2].
  apply sedge_eqb_eq in E1. subst c. f_equal. exact (IH es E2).
Qed.

(* ---------- witness replayed over the tree ---------- *)
Definition wstep (op : option profile) (b : bucket) : option profile :=
  match op with
  | None => None
  | Some p => match path_unpack (b_menu b) with Some m => witness p b m | None => None end
  end.
Definition menu_strategy (b : bucket) : option strategy :=
  match path_unpack (b_menu b) with Some m => Some (uniform_strategy m) | None => None end.

Lemma wfold_spec : forall bs p,
  Forall (fun b => exists m, path_unpack (b_menu b) = Some m /\ m <> []) bs ->
  exists p', fold_left wstep bs (Some p) = Some p' /\
    forall b, lookup b p' = match lookup b p with
                            | Some s => Some s
                            | None => if existsb (bucket_eqb b) bs then menu_strategy b else None
                            end.
Proof.
  induction bs as [|b0 bs IH]; intros p Hall.
  - exists p. split; [reflexivity|]. intros b. cbn [existsb]. destruct (lookup b p); reflexivity.
  - inversion Hall as [|x l (m0 & Hu0 & Hne0) Hrest]; subst.
    destruct (witness_spec p b0 m0 Hu0) as (Hnew & Hknown & _).
    cbn [fold_left wstep]. rewrite Hu0.
    destruct (lookup b0 p) as [s0|] eqn:Hl0.
    + rewrite Hknown by discriminate. destruct (IH p Hrest) as (p' & Hp' & Hlk).
      exists p'. split; [exact Hp'|]. intros b. rewrite Hlk. destruct (lookup b p) as [s|] eqn:Hlb; [reflexivity|].
      cbn [existsb]. destruct (bucket_eqb b b0) eqn:E; [|reflexivity].
      apply bucket_eqb_eq in E. subst b. rewrite Hl0 in Hlb. discriminate Hlb.
    + destruct (Hnew eq_refl Hne0) as (p1 & Hw & (s1 & Hs1 & Hfst & _) & Hoth). rewrite Hw.
      destruct (IH p1 Hrest) as (p' & Hp' & Hlk).
      exists p'. split; [exact Hp'|]. intros b. rewrite Hlk. cbn [existsb].
      destruct (bucket_eqb b b0) eqn:E.
      * apply bucket_eqb_eq in E. subst b. rewrite Hs1, Hl0. unfold menu_strategy. rewrite Hu0.
        cbn [orb]. f_equal.
        (* the strategy stored by witness is the uniform one *)
        unfold witness in Hw. rewrite Hu0, sedges_eqb_refl, Hl0 in Hw.
        destruct m0 as [|e0 r0]; [contradiction Hne0; reflexivity|]. injection Hw as <-.
        cbn [lookup] in Hs1. rewrite bucket_eqb_refl in Hs1. injection Hs1 as <-. reflexivity.
      * assert (Hne : b <> b0).
        { intros ->. rewrite bucket_eqb_refl in E. discriminate E. }
        rewrite (Hoth b Hne). cbn [orb]. reflexivity.
Qed.

Lemma witness_tree_fold : forall walker p t,
  witness_tree walker p t
  = fold_left wstep (map (fun s => n_bucket (root_node s)) (filter (is_witnessed walker) (subtrees t))) (Some p).
Proof.
  intros walker p t. unfold witness_tree. generalize (Some p) as op.
  induction (filter (is_witnessed walker) (subtrees t)) as [|s ss IH]; intros op; [reflexivity|].
  cbn [fold_left map]. rewrite IH. reflexivity.
Qed.

(* on a tree built by grow: witness never trips its assertion; buckets known before keep their
   strategy; a bucket first met at a node of the tree (a decision of either player) ends up with
   1 / n on each of the n edges of that node's menu; no other bucket appears *)
Theorem witness_tree_spec : forall d hs g0 abs pick deal walker fuel h g t p,
  wf_holes d hs -> root d hs = Some g0 -> tree_path d g0 h g ->
  grow d abs pick deal fuel walker g h = Some t ->
  exists p', witness_tree walker p t = Some p' /\
    (forall b s, lookup b p = Some s -> lookup b p' = Some s) /\
    (forall s m, In s (subtrees t) -> is_witnessed walker s = true -> menu_of s = Some m ->
       lookup (n_bucket (root_node s)) p = None -> uniform_new p' (n_bucket (root_node s)) m) /\
    (forall b, lookup b p = None ->
       (forall s, In s (subtrees t) -> is_witnessed walker s = true -> n_bucket (root_node s) <> b) ->
       lookup b p' = None).
Proof.
  intros d hs g0 abs pick deal walker fuel h g t p Hwf Hroot Hp Hg.
  (* the bucket of a node carries its menu *)
  assert (Hmenu : forall s, In s (subtrees t) ->
            exists m, menu_of s = Some m /\ path_unpack (b_menu (n_bucket (root_node s))) = Some m /\
                      (kids s <> [] -> m <> [])).
  { intros s Hs.
    destruct (grow_sound d hs g0 abs pick deal walker fuel h g t Hwf Hroot Hp Hg s Hs) as (_ & Hch & _ & Hbk & Hps).
    destruct (realize_path d hs g0 abs _ _ Hwf Hroot Hps) as (p1 & f1 & m1 & Hre & Hm & _ & _ & _ & Hu & _).
    unfold bucket_ok in Hbk. rewrite Hbk in Hre. injection Hre as Hb. exists m1.
    split; [exact Hm|]. split; [rewrite Hb; exact Hu|].
    intros Hk Hnil. subst m1. destruct (kids s) as [|[e c] r] eqn:Ek; [contradiction Hk; reflexivity|].
    destruct (Hch e c) as ((m' & Hm' & Hin) & _); [rewrite Ek; left; reflexivity|].
    unfold menu_of in Hm'. rewrite Hm in Hm'. injection Hm' as <-. contradiction Hin. }
  set (W := filter (is_witnessed walker) (subtrees t)).
  assert (Hall : Forall (fun b => exists m, path_unpack (b_menu b) = Some m /\ m <> [])
                        (map (fun s => n_bucket (root_node s)) W)).
  { apply Forall_forall. intros b Hb. apply in_map_iff in Hb. destruct Hb as (s & <- & Hs).
    apply filter_In in Hs. destruct Hs as [Hs Hw]. destruct (Hmenu s Hs) as (m & _ & Hu & Hne).
    exists m. split; [exact Hu|]. apply Hne. unfold is_witnessed in Hw. destruct (kids s); [discriminate Hw|discriminate]. }
  destruct (wfold_spec _ p Hall) as (p' & Hp' & Hlk).
  exists p'. split; [rewrite witness_tree_fold; exact Hp'|]. split; [|split].
  - intros b s Hs. rewrite Hlk, Hs. reflexivity.
  - intros s m Hs Hw Hm Hnone. destruct (Hmenu s Hs) as (m' & Hm' & Hu & _).
    rewrite Hm in Hm'. injection Hm' as <-.
    assert (Hex : existsb (bucket_eqb (n_bucket (root_node s))) (map (fun s0 => n_bucket (root_node s0)) W) = true).
    { apply existsb_exists. exists (n_bucket (root_node s)). split; [|apply bucket_eqb_refl].
      apply in_map_iff. exists s. split; [reflexivity|]. apply filter_In. split; assumption. }
    exists (uniform_strategy m). split.
    + rewrite Hlk, Hnone, Hex. unfold menu_strategy. rewrite Hu. reflexivity.
    + unfold uniform_strategy, uniform_policy.
      split; [apply map_fst_const|]. split; [apply map_snd_const|]. intros e He. apply weight_of_const. exact He.
  - intros b Hnone Hnot. rewrite Hlk, Hnone.
    destruct (existsb (bucket_eqb b) (map (fun s => n_bucket (root_node s)) W)) eqn:Hex; [|reflexivity].
    apply existsb_exists in Hex. destruct Hex as (b' & Hb' & E). apply bucket_eqb_eq in E. subst b'.
    apply in_map_iff in Hb'. destruct Hb' as (s & Hbs & Hs). apply filter_In in Hs. destruct Hs as [Hs Hw].
    contradiction (Hnot s Hs Hw Hbs).
Qed.

(* ---------- on a sampled tree every node is listed once ---------- *)
Lemma NoDup_map_filter : forall (A B : Type) (f : A -> B) (p : A -> bool) l,
  NoDup (map f l) -> NoDup (map f (filter p l)).
Proof.
  intros A B f p l. induction l as [|a l IH]; intros H; [constructor|].
  cbn [map] in H. inversion H as [|x l' Hnin Hnd]; subst. cbn [filter].
  destruct (p a); [|exact (IH Hnd)]. cbn [map]. constructor; [|exact (IH Hnd)].
  intros Hin. apply Hnin. apply in_map_iff in Hin. destruct Hin as (y & Hy & Hin).
  apply filter_In in Hin. apply in_map_iff. exists y. split; [exact Hy|exact (proj1 Hin)].
Qed.

Theorem infosets_once : forall d hs g0 abs pick deal walker fuel h g t,
  wf_holes d hs -> root d hs = Some g0 -> tree_path d g0 h g ->
  grow d abs pick deal fuel walker g h = Some t ->
  NoDup (map s_history (subtrees t)) /\
  NoDup (concat (map snd (infosets walker t))).
Proof.
  intros d hs g0 abs pick deal walker fuel h g t Hwf Hroot Hp Hg.
  destruct (grow_distinct d hs g0 abs pick deal walker fuel h g t Hwf Hroot Hp Hg) as [Hnd _].
  split; [exact Hnd|].
  destruct (infosets_partition walker t) as (Hperm & _ & _).
  apply (Permutation_NoDup (Permutation_sym Hperm)). unfold infoset_nodes.
  apply (NoDup_map_inv n_history). rewrite map_map.
  exact (NoDup_map_filter _ _ s_history (is_infoset_node walker) (subtrees t) Hnd).
Qed.
