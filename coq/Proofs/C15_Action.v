(* Proofs/C15_Action.v -- Action <-> u32 is lossless on well-formed actions.
   Chip-carrying kinds: reflection over the 65536 i16 amounts (enumeration proved complete).
   Draw: reflection over all card lists of length <= 3 over 52 cards (enumeration proved
   complete), connected to hands through hand_cards / mask_of_bits. *)
From Coq Require Import NArith ZArith List Bool Lia ZifyBool ZifyN ZifyNat Sorted.
From RP Require Import Base.Bits Gen.GenAbstract Model.Codec.
From RP Require Import Spec.SpecCodec Proofs.BitsLemmas Proofs.C15_Finite Proofs.C15_Hand.
Import ListNotations.
Open Scope N_scope.

Definition action_eqb (a b : action) : bool :=
  match a, b with
  | Draw h, Draw h' => h =? h'
  | Fold, Fold => true
  | Check, Check => true
  | Call c, Call c' => Z.eqb c c'
  | Raise c, Raise c' => Z.eqb c c'
  | Shove c, Shove c' => Z.eqb c c'
  | Blind c, Blind c' => Z.eqb c c'
  | _, _ => false
  end.

Lemma action_eqb_eq : forall a b, action_eqb a b = true -> a = b.
Proof.
  intros a b H.
  destruct a as [h| |c| |c|c|c], b as [h'| |c'| |c'|c'|c']; cbn [action_eqb] in H;
    try discriminate; try reflexivity;
    try (apply Z.eqb_eq in H; subst; reflexivity).
  apply N.eqb_eq in H. subst. reflexivity.
Qed.

(* ---------- chip-carrying kinds ---------- *)

Definition chip_check (k : Z -> action) (c : Z) : bool :=
  match action_of_u32 (action_to_u32 (k c)) with
  | Some a => action_eqb a (k c)
  | None => false
  end.

Definition chips_check (n : N) : bool :=
  let c := (Z.of_N n - 32768)%Z in
  chip_check Call c && chip_check Raise c && chip_check Shove c && chip_check Blind c.

Lemma chips_all : forallb chips_check (nseq (N.to_nat 65536) 0) = true.
Proof. vm_cast_no_check (eq_refl true). Qed.

Lemma chips_roundtrip : forall c, (-32768 <= c <= 32767)%Z ->
  chip_check Call c = true /\ chip_check Raise c = true /\
  chip_check Shove c = true /\ chip_check Blind c = true.
Proof.
  intros c Hc.
  assert (Hin : In (Z.to_N (c + 32768)) (nseq (N.to_nat 65536) 0)) by (apply nseq_In_N; lia).
  pose proof (proj1 (forallb_forall _ _) chips_all _ Hin) as H.
  unfold chips_check in H.
  replace (Z.of_N (Z.to_N (c + 32768)) - 32768)%Z with c in H by lia.
  apply andb_true_iff in H. destruct H as [H H4].
  apply andb_true_iff in H. destruct H as [H H3].
  apply andb_true_iff in H. destruct H as [H1 H2].
  auto.
Qed.

Lemma chip_check_sound : forall k c, chip_check k c = true ->
  action_of_u32 (action_to_u32 (k c)) = Some (k c).
Proof.
  intros k c H. unfold chip_check in H.
  destruct (action_of_u32 (action_to_u32 (k c))) as [a|]; [|discriminate].
  apply action_eqb_eq in H. subst a. reflexivity.
Qed.

(* ---------- Draw ---------- *)

Definition draw_enc (cs : list N) : N :=
  let packed := fold_left (fun acc ic => N.lor acc (u32 (N.shiftl (snd ic + 1) (fst ic * 8))))
                          (combine [0; 1; 2] cs) 0 in
  N.lor (ACTION_U32_ENC ADraw) (u32 (N.shiftl packed 8)).

Lemma action_to_u32_draw : forall h, action_to_u32 (Draw h) = draw_enc (firstn 3 (hand_cards h)).
Proof. reflexivity. Qed.

(* all lists of length <= k over the alphabet 0..m-1 *)
Fixpoint lists_upto (k m : nat) : list (list N) :=
  match k with
  | O => [[]]
  | S k' => [] :: flat_map (fun x => map (cons x) (lists_upto k' m)) (nseq m 0)
  end.

Lemma lists_upto_complete : forall k m l,
  (length l <= k)%nat -> Forall (fun c => c < N.of_nat m) l -> In l (lists_upto k m).
Proof.
  induction k as [|k IH]; intros m l Hlen Hf.
  - destruct l as [|c l]; [left; reflexivity | cbn [length] in Hlen; lia].
  - cbn [lists_upto]. destruct l as [|c l]; [left; reflexivity|].
    right. inversion Hf as [|c' l' Hc Hl]; subst. cbn [length] in Hlen.
    apply in_flat_map. exists c. split.
    + apply nseq_In. lia.
    + apply in_map. apply IH; [lia | exact Hl].
Qed.

Definition draw_check (cs : list N) : bool :=
  if strict_incb cs then
    match action_of_u32 (draw_enc cs) with
    | Some (Draw h) => h =? mask_of_bits cs
    | _ => false
    end
  else true.

Lemma draw_all : forallb draw_check (lists_upto 3 (N.to_nat 52)) = true.
Proof. vm_cast_no_check (eq_refl true). Qed.

Lemma draw_roundtrip : forall h, h < 2 ^ 52 -> hand_size h <= 3 ->
  action_of_u32 (action_to_u32 (Draw h)) = Some (Draw h).
Proof.
  intros h Hh Hsz.
  rewrite action_to_u32_draw.
  rewrite hand_size_length in Hsz.
  assert (Hlen : (length (hand_cards h) <= 3)%nat) by lia.
  rewrite firstn_all2 by exact Hlen.
  assert (Hin : In (hand_cards h) (lists_upto 3 (N.to_nat 52))).
  { apply lists_upto_complete; [exact Hlen|]. rewrite N2Nat.id. apply hand_cards_bound. exact Hh. }
  pose proof (proj1 (forallb_forall _ _) draw_all _ Hin) as H.
  unfold draw_check in H.
  rewrite (proj2 (strict_incb_sorted _) (hand_cards_sorted h)) in H.
  destruct (action_of_u32 (draw_enc (hand_cards h))) as [[h'| |c| |c|c|c]|]; try discriminate.
  apply N.eqb_eq in H. rewrite hand_cards_mask in H by (apply pow2_52_64; exact Hh).
  subst h'. reflexivity.
Qed.

(* ---------- the theorem ---------- *)

Lemma action_u32 : forall a, wf_action a -> action_of_u32 (action_to_u32 a) = Some a.
Proof.
  intros a Hwf. destruct a as [h| |c| |c|c|c]; cbn [wf_action] in Hwf.
  - destruct Hwf as (Hh & Hsz). apply draw_roundtrip; assumption.
  - reflexivity.
  - apply (chip_check_sound Call). apply chips_roundtrip. exact Hwf.
  - reflexivity.
  - apply (chip_check_sound Raise). apply chips_roundtrip. exact Hwf.
  - apply (chip_check_sound Shove). apply chips_roundtrip. exact Hwf.
  - apply (chip_check_sound Blind). apply chips_roundtrip. exact Hwf.
Qed.

Lemma action_inj : forall a1 a2, wf_action a1 -> wf_action a2 ->
  action_to_u32 a1 = action_to_u32 a2 -> a1 = a2.
Proof.
  intros a1 a2 H1 H2 E.
  pose proof (action_u32 a1 H1) as A1. pose proof (action_u32 a2 H2) as A2.
  rewrite E, A2 in A1. injection A1 as A1. symmetry. exact A1.
Qed.
