(* Proofs/C07_Relabel.v -- property C07, part 2: suit relabeling as a bijection on card sets:
   bridge between the two formulations (Spec/SpecHand.v with a function, Spec/SpecIso.v with a list),
   relabeling distributes over unions, keeps strengths, and maps the list of free k-card hands of a
   blocking set onto (a permutation of) the list of free k-card hands of the relabeled blocking set. *)
From Coq Require Import NArith ZArith List Bool Lia ZifyBool ZifyN ZifyNat Sorted Permutation.
From RP Require Import Base.Bits Gen.GenCards Gen.GenPerm Model.Codec Model.Evaluator Model.Iso.
From RP Require Import Spec.SpecCodec Spec.SpecHand Spec.SpecIso Spec.SpecIsoWf Spec.SpecCombs Spec.SpecIter.
From RP Require Import Proofs.BitsLemmas Proofs.C15_Hand Proofs.C06_Cat Proofs.C06_Main Proofs.C05_Bits
  Proofs.C07_Counts.
From RP Require Proofs.C01_Suits.
Import ListNotations.
Open Scope N_scope.

Arguments N.add : simpl never.
Arguments N.mul : simpl never.
Arguments N.sub : simpl never.
Arguments N.shiftl : simpl never.
Arguments N.shiftr : simpl never.
Arguments N.land : simpl never.
Arguments N.lor : simpl never.
Arguments N.lxor : simpl never.
Arguments N.pow : simpl never.
Arguments N.testbit : simpl never.

(* ---------- the two formulations agree ---------- *)
Lemma relabel_bridge : forall p h, SpecIso.relabel_hand p h = SpecHand.relabel_hand (perm_map p) h.
Proof. intros p h. reflexivity. Qed.

Lemma exhaust_suit_perm : forall p, In p EXHAUST -> suit_perm (perm_map p).
Proof.
  intros p Hp. split.
  - intros s Hs. apply exhaust_map_lt; assumption.
  - intros s t Hs Ht E. apply (exhaust_inj p s t Hp Hs Ht E).
Qed.

Lemma relabel_strength : forall d p h, In p EXHAUST -> valid_hand d h ->
  strength_of d (SpecIso.relabel_hand p h) = strength_of d h.
Proof.
  intros d p h Hp Hv. rewrite relabel_bridge.
  apply C01_Suits.relabel_strength; [apply exhaust_suit_perm; exact Hp | exact Hv].
Qed.

Lemma relabel_valid : forall d p h, In p EXHAUST -> valid_hand d h -> valid_hand d (SpecIso.relabel_hand p h).
Proof.
  intros d p h Hp Hv. rewrite relabel_bridge.
  apply C01_Suits.relabel_valid; [apply exhaust_suit_perm; exact Hp | exact Hv].
Qed.

(* ---------- relabeling and unions ---------- *)
Lemma relabel_hand_lor : forall p a b, a < 2 ^ 64 -> b < 2 ^ 64 ->
  SpecIso.relabel_hand p (N.lor a b) = N.lor (SpecIso.relabel_hand p a) (SpecIso.relabel_hand p b).
Proof.
  intros p a b Ha Hb. pose proof (lor_lt_pow2 64 a b Ha Hb) as Hab.
  apply N.bits_inj. intros k. apply eq_true_iff_eq.
  rewrite N.lor_spec, orb_true_iff, !relabel_hand_bit by assumption. split.
  - intros (c & Hc & E). rewrite N.lor_spec in Hc. apply orb_true_iff in Hc.
    destruct Hc as [Hc | Hc]; [left | right]; exists c; split; assumption.
  - intros [(c & Hc & E) | (c & Hc & E)]; exists c; (split; [|exact E]);
      rewrite N.lor_spec, Hc; [reflexivity | apply orb_true_r].
Qed.

(* ---------- the inverse on the other side ---------- *)
Lemma pcomp_pinv_r : forall p, In p EXHAUST -> pcomp p (pinv p) = identity.
Proof.
  intros p Hp. apply perm_ext.
  - unfold pcomp. rewrite map_length. apply exhaust_length. apply exhaust_pinv. exact Hp.
  - reflexivity.
  - intros s Hs. rewrite (pcomp_map p (pinv p) s (exhaust_pinv p Hp) Hs), (identity_map s Hs).
    apply (exhaust_pointwise p s Hp Hs).
Qed.

Lemma relabel_hand_inv_r : forall p h, In p EXHAUST -> h < 2 ^ 52 ->
  SpecIso.relabel_hand p (SpecIso.relabel_hand (pinv p) h) = h.
Proof.
  intros p h Hp Hh. rewrite (relabel_hand_comp (pinv p) p h (exhaust_pinv p Hp) Hp Hh).
  rewrite (pcomp_pinv_r p Hp). apply relabel_hand_identity. apply pow2_52_64. exact Hh.
Qed.

Lemma relabel_hand_inj : forall p a b, In p EXHAUST -> a < 2 ^ 52 -> b < 2 ^ 52 ->
  SpecIso.relabel_hand p a = SpecIso.relabel_hand p b -> a = b.
Proof.
  intros p a b Hp Ha Hb E.
  rewrite <- (relabel_hand_inv p a Hp Ha), <- (relabel_hand_inv p b Hp Hb), E. reflexivity.
Qed.

(* ---------- lists ---------- *)
Lemma NoDup_map_in : forall (f : N -> N) l, NoDup l ->
  (forall x y, In x l -> In y l -> f x = f y -> x = y) -> NoDup (map f l).
Proof.
  intros f l Hnd. induction Hnd as [|x l Hx Hnd IH]; intros Hinj; [constructor|].
  cbn [map]. constructor.
  - intros Hin. apply in_map_iff in Hin. destruct Hin as (y & E & Hy).
    assert (y = x) by (apply Hinj; [right; exact Hy | left; reflexivity | exact E]). subst y. contradiction.
  - apply IH. intros a b Ha Hb E. apply Hinj; [right; exact Ha | right; exact Hb | exact E].
Qed.

(* ---------- free hands of a relabeled blocking set ---------- *)
Lemma spec_hands_relabel_in : forall d p m k z, In p EXHAUST -> N.land m (hand_mask d) = m ->
  (In z (spec_hands d k (SpecIso.relabel_hand p m)) <-> In z (map (SpecIso.relabel_hand p) (spec_hands d k m))).
Proof.
  intros d p m k z Hp Hm. pose proof (in_mask_lt52 d m Hm) as Hm52.
  pose proof (exhaust_pinv p Hp) as Hq.
  rewrite C06_spec_hands_in, free_sub_iff, in_map_iff. split.
  - intros (Hc & Hz & Hd). pose proof (in_mask_lt52 d z Hz) as Hz52.
    exists (SpecIso.relabel_hand (pinv p) z). split; [apply relabel_hand_inv_r; assumption|].
    rewrite C06_spec_hands_in, free_sub_iff. split; [|split].
    + rewrite <- Hc. apply (relabel_hand_size (pinv p) z Hq Hz52).
    + apply relabel_hand_in_mask; assumption.
    + pose proof (relabel_hand_disjoint (pinv p) z (SpecIso.relabel_hand p m) Hq Hz52
                    (relabel_hand_lt p m Hp Hm52) Hd) as H.
      rewrite (relabel_hand_inv p m Hp Hm52) in H. exact H.
  - intros (v & E & Hv). apply C06_spec_hands_in in Hv. destruct Hv as [Hc Hf].
    apply free_sub_iff in Hf. destruct Hf as [Hv Hd]. pose proof (in_mask_lt52 d v Hv) as Hv52.
    subst z. split; [|split].
    + rewrite <- Hc. apply (relabel_hand_size p v Hp Hv52).
    + apply relabel_hand_in_mask; assumption.
    + apply relabel_hand_disjoint; assumption.
Qed.

Lemma spec_hands_lt52 : forall d k m z, In z (spec_hands d k m) -> z < 2 ^ 52.
Proof.
  intros d k m z Hz. apply C06_spec_hands_in in Hz. destruct Hz as [_ Hf].
  apply free_sub_iff in Hf. destruct Hf as [Hz _]. apply (in_mask_lt52 d z Hz).
Qed.

Theorem spec_hands_relabel : forall d p m k, In p EXHAUST -> N.land m (hand_mask d) = m ->
  Permutation (spec_hands d k (SpecIso.relabel_hand p m)) (map (SpecIso.relabel_hand p) (spec_hands d k m)).
Proof.
  intros d p m k Hp Hm. apply NoDup_Permutation.
  - apply C06_hands_nodup.
  - apply NoDup_map_in; [apply C06_hands_nodup|].
    intros x y Hx Hy E.
    apply (relabel_hand_inj p x y Hp (spec_hands_lt52 d k m x Hx) (spec_hands_lt52 d k m y Hy) E).
  - intros z. apply spec_hands_relabel_in; assumption.
Qed.
