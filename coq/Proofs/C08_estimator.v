(* Proofs/C08_estimator.v -- the regrets computed by the model of profile.rs coincide with the textbook
   external-sampling estimator on trees of external-sampling shape. *)
From Coq Require Import NArith QArith List Bool Lia Lqa Field Qfield Setoid Morphisms.
From RP Require Import Gen.GenLib Gen.GenFixes Model.Cfr Spec.SpecCfr Proofs.C08_base.
Import ListNotations.
Open Scope Q_scope.

(* the two generated flags, as reflexivity facts: if the Rust source changes shape these fail *)
Lemma flag_external : CFR_ESTIMATOR_EXTERNAL = true.
Proof. reflexivity. Qed.
Lemma flag_stops_at_node : RELATIVE_REACH_STOPS_AT_NODE = true.
Proof. reflexivity. Qed.

(* ---------- leaf sums ---------- *)
Definition leaf_term (e : Q) (x : Q * Q * Q) : Q := let '(p, rel, extb) := x in p * rel / (e * extb).

Lemma lsQ_qsum : forall e ls, lsQ e ls == qsum (map (leaf_term e) ls).
Proof.
  intros e ls. unfold lsQ, leaf_sum.
  rewrite (fold_left_qsum _ _ (leaf_term e)).
  - ring.
  - intros a [[p rel] extb]. reflexivity.
Qed.

Lemma lsQ_flat_map : forall (A : Type) e (g : A -> list (Q * Q * Q)) (l : list A),
  lsQ e (flat_map g l) == qsum (map (fun x => lsQ e (g x)) l).
Proof.
  intros A e g l. induction l as [|x l IH]; cbn [flat_map map qsum].
  - rewrite lsQ_qsum. reflexivity.
  - rewrite <- IH. rewrite !lsQ_qsum. rewrite map_app. apply qsum_app.
Qed.

(* leaves_below, one step, at the generated value of RELATIVE_REACH_STOPS_AT_NODE *)
Lemma lbQ_eq : forall hb k b p ch rel ext,
  lbQ hb (T k b p ch) rel ext =
  match ch with
  | [] => [(p, rel, ext)]
  | _ => flat_map (fun est => lbQ hb (snd est) (rel * sg est)
                                (match k with KWalker => ext | _ => ext * sg est end)) ch
  end.
Proof.
  intros hb k b p ch rel ext. unfold lbQ. cbn [leaves_below]. rewrite flag_stops_at_node.
  destruct ch as [|x l]; [reflexivity|].
  apply flat_map_ext. intros [[e s] c]. reflexivity.
Qed.

(* the telescoping identity: seen from a head with external reach e, the leaves below t (reached with
   relative reach rel and external reach ext below the head) sum to rel / (e * ext) times utilde t *)
Lemma leaf_sum_utilde : forall f t hb e rel ext,
  (depth t <= f)%nat -> es_shape t ->
  lsQ e (lbQ hb t rel ext) == (rel / (e * ext)) * utQ f t.
Proof.
  induction f as [|f IH]; intros t hb e rel ext Hd Hes.
  - pose proof (depth_pos t). lia.
  - destruct t as [k b p ch].
    destruct (es_shape_inv _ _ _ _ Hes) as [_ [Hsig Hsub]].
    rewrite lbQ_eq. destruct ch as [|x l].
    + rewrite utQ_leaf. rewrite lsQ_qsum. cbn [map qsum leaf_term]. unfold Qdiv. ring.
    + remember (x :: l) as ch eqn:Ech.
      assert (Hne : ch <> []) by (subst ch; discriminate).
      rewrite (utQ_node f k b p ch Hne).
      rewrite lsQ_flat_map.
      rewrite <- qsum_scale.
      apply qsum_ext_in. intros est Hin.
      rewrite (IH (snd est) hb e _ _ (depth_child_le _ _ _ _ _ _ Hd Hin) (Hsub est Hin)).
      specialize (Hsig est Hin).
      destruct k; cbn [wk].
      * unfold Qdiv. ring.
      * pose proof (sigma_ok_nonzero _ _ Hsig) as Hnz.
        assert (Hinv : sg est * / sg est == 1) by (apply Qmult_inv_r; exact Hnz).
        unfold Qdiv. rewrite !Qinv_mult_distr.
        setoid_replace (rel * sg est * (/ e * (/ ext * / sg est)) * utQ f (snd est))
          with (rel * (/ e * / ext) * utQ f (snd est) * (sg est * / sg est)) by ring.
        rewrite Hinv. ring.
      * pose proof (sigma_ok_nonzero _ _ Hsig) as Hnz.
        assert (Hinv : sg est * / sg est == 1) by (apply Qmult_inv_r; exact Hnz).
        unfold Qdiv. rewrite !Qinv_mult_distr.
        setoid_replace (rel * sg est * (/ e * (/ ext * / sg est)) * utQ f (snd est))
          with (rel * (/ e * / ext) * utQ f (snd est) * (sg est * / sg est)) by ring.
        rewrite Hinv. ring.
Qed.

(* head reach times the head's leaf sum is utilde *)
Lemma head_value : forall f t hb e,
  (depth t <= f)%nat -> es_shape t -> 0 < e ->
  e * lsQ e (lbQ hb t 1 1) == utQ f t.
Proof.
  intros f t hb e Hd Hes He. rewrite (leaf_sum_utilde f t hb e 1 1 Hd Hes). field. lra.
Qed.

(* the gain of the model at a traverser node = textbook regret of the action *)
Lemma gain_value : forall f k b p ch e prof est,
  (depth (T k b p ch) <= S f)%nat -> es_shape (T k b p ch) -> 0 < e -> In est ch ->
  gain Q 0 1 Qplus Qminus Qmult Qdiv e prof (T k b p ch) (sg est) (snd est)
  == utQ f (snd est) - utQ (S f) (T k b p ch).
Proof.
  intros f k b p ch e prof est Hd Hes He Hin.
  unfold gain, cfactual_value, expected_value. rewrite flag_external.
  fold lbQ. fold lsQ.
  destruct (es_shape_inv _ _ _ _ Hes) as [_ [_ Hsub]].
  rewrite (head_value f (snd est) _ e (depth_child_le _ _ _ _ _ _ Hd Hin) (Hsub est Hin) He).
  rewrite (head_value (S f) (T k b p ch) _ e Hd Hes He).
  reflexivity.
Qed.

(* gains, one step *)
Lemma gainsQ_eq : forall f k b p ch ext prof,
  gainsQ (S f) (T k b p ch) ext prof =
  (match k, ch with
   | KWalker, _ :: _ =>
       map (fun est => let '(e, s, c) := est in
                       (b, e, gain Q 0 1 Qplus Qminus Qmult Qdiv ext prof (T k b p ch) s c)) ch
   | _, _ => [] end)
  ++ flat_map (fun est => let '(e, s, c) := est in
                          gainsQ f c (match k with KWalker => ext | _ => ext * s end) (prof * s)) ch.
Proof. reflexivity. Qed.

Lemma gains_spec : forall f t ext prof,
  (depth t <= f)%nat -> es_shape t -> 0 < ext ->
  triples_eq (gainsQ f t ext prof) (specQ f t).
Proof.
  induction f as [|f IH]; intros t ext prof Hd Hes Hext.
  - constructor.
  - destruct t as [k b p ch]. rewrite gainsQ_eq, specQ_eq.
    destruct (es_shape_inv _ _ _ _ Hes) as [_ [Hsig Hsub]].
    apply triples_eq_app.
    + destruct k; try constructor. destruct ch as [|x l]; [constructor|].
      remember (x :: l) as ch eqn:Ech.
      assert (Hne : ch <> []) by (subst ch; discriminate).
      cbv zeta. apply triples_eq_map. intros [[e s] c] Hin. split; [reflexivity|].
      cbn [snd].
      rewrite (gain_value f KWalker b p ch ext prof (e, s, c) Hd Hes Hext Hin).
      cbn [snd]. rewrite (utQ_node f KWalker b p ch Hne). rewrite spec_value_qsum.
      reflexivity.
    + apply triples_eq_flat_map. intros [[e s] c] Hin. cbn [snd].
      apply IH.
      * exact (depth_child_le _ _ _ _ _ _ Hd Hin).
      * exact (Hsub _ Hin).
      * pose proof (sigma_ok_pos _ _ (Hsig _ Hin)) as Hs. unfold sg in Hs. cbn [fst snd] in Hs.
        destruct k; [exact Hext | |]; apply Qmult_lt_0_compat; assumption.
Qed.

Theorem estimator : forall t, es_shape t -> triples_eq (immediate_regrets_Q t) (regret_estimator_Q t).
Proof.
  intros t Hes. unfold immediate_regrets_Q, immediate_regrets, regret_estimator_Q, regret_estimator.
  apply (gains_spec (depth t) t 1 1); [lia | exact Hes | lra].
Qed.

(* summed per information set (bucket, edge), as immediate_regret does over the roots of an infoset *)
Lemma sum_gains_compat : forall l1 l2 b e, triples_eq l1 l2 ->
  sum_gains Q 0 Qplus l1 b e == sum_gains Q 0 Qplus l2 b e.
Proof.
  intros l1 l2 b e H. unfold sum_gains.
  assert (Hgen : forall a1 a2, a1 == a2 ->
    fold_left (fun acc x => let '(b', e', g) := x in if N.eqb b b' && N.eqb e e' then acc + g else acc) l1 a1
    == fold_left (fun acc x => let '(b', e', g) := x in if N.eqb b b' && N.eqb e e' then acc + g else acc) l2 a2).
  { induction H as [|x y l1 l2 Hxy _ IH]; intros a1 a2 Ha; cbn [fold_left].
    - exact Ha.
    - destruct x as [[b1 e1] g1]. destruct y as [[b2 e2] g2]. destruct Hxy as [Hk Hv].
      cbn [fst snd] in Hk, Hv. inversion Hk; subst. apply IH.
      destruct (N.eqb b b2 && N.eqb e e2); [rewrite Ha, Hv; reflexivity | exact Ha]. }
  apply Hgen. reflexivity.
Qed.

Theorem estimator_infoset : forall t b e, es_shape t ->
  sum_gains Q 0 Qplus (immediate_regrets_Q t) b e == sum_gains Q 0 Qplus (regret_estimator_Q t) b e.
Proof. intros t b e Hes. apply sum_gains_compat. apply estimator. exact Hes. Qed.
