(* Proofs/C05_Sort.v -- property C05: comparison functions that are total preorders, the order of
   Permutation::order, insertion sort (sort_by on four lanes), uniqueness of sorted arrangements. *)
From Coq Require Import NArith ZArith List Bool Lia ZifyBool ZifyN ZifyNat Sorted Permutation.
From RP Require Import Base.Bits Gen.GenCards Gen.GenPerm Model.Codec Model.Evaluator Model.Iso.
From RP Require Import Spec.SpecIso Proofs.BitsLemmas Proofs.C05_Bits.
Import ListNotations.
Open Scope N_scope.

(* ---------- comparison functions that are total preorders ---------- *)

Record cmp_ok {A : Type} (c : A -> A -> comparison) : Prop := mk_cmp_ok {
  c_anti : forall x y, c y x = CompOpp (c x y);
  c_cong : forall x y z, c x y = Eq -> c x z = c y z;
  c_trans : forall x y z, c x y = Lt -> c y z = Lt -> c x z = Lt
}.

Lemma cmp_ok_refl : forall A (c : A -> A -> comparison), cmp_ok c -> forall x, c x x = Eq.
Proof.
  intros A c H x. pose proof (c_anti c H x x) as E. destruct (c x x); cbn in E; congruence.
Qed.

Lemma cmp_ok_cong_r : forall A (c : A -> A -> comparison), cmp_ok c ->
  forall x y z, c x y = Eq -> c z x = c z y.
Proof.
  intros A c H x y z E. rewrite (c_anti c H x z), (c_anti c H y z), (c_cong c H x y z E). reflexivity.
Qed.

(* "not greater" is transitive *)
Lemma cmp_ok_le_trans : forall A (c : A -> A -> comparison), cmp_ok c ->
  forall x y z, c x y <> Gt -> c y z <> Gt -> c x z <> Gt.
Proof.
  intros A c H x y z H1 H2.
  destruct (c x y) eqn:E1; [| |congruence].
  - rewrite (c_cong c H x y z E1). exact H2.
  - destruct (c y z) eqn:E2; [| |congruence].
    + rewrite (cmp_ok_cong_r A c H y z x E2) in E1. rewrite E1. discriminate.
    + rewrite (c_trans c H x y z E1 E2). discriminate.
Qed.

Lemma cmp_ok_N : cmp_ok N.compare.
Proof.
  constructor.
  - intros x y. apply N.compare_antisym.
  - intros x y z E. apply N.compare_eq_iff in E. subst y. reflexivity.
  - intros x y z H1 H2. rewrite N.compare_lt_iff in *. lia.
Qed.

Lemma cmp_ok_opt : cmp_ok cmp_opt.
Proof.
  constructor.
  - intros [x|] [y|]; cbn [cmp_opt CompOpp]; try reflexivity. apply N.compare_antisym.
  - intros [x|] [y|] [z|] E; cbn [cmp_opt] in *; try discriminate; try reflexivity.
    apply N.compare_eq_iff in E. subst y. reflexivity.
  - intros [x|] [y|] [z|] H1 H2; cbn [cmp_opt] in *; try discriminate; try reflexivity.
    rewrite N.compare_lt_iff in *. lia.
Qed.

Lemma cmp_ok_pull : forall A B (f : A -> B) (c : B -> B -> comparison),
  cmp_ok c -> cmp_ok (fun a b => c (f a) (f b)).
Proof.
  intros A B f c H. constructor.
  - intros x y. apply (c_anti c H).
  - intros x y z. apply (c_cong c H).
  - intros x y z. apply (c_trans c H).
Qed.

Lemma cmp_ok_const : forall A, cmp_ok (fun _ _ : A => Eq).
Proof. intros A. constructor; intros; reflexivity || discriminate. Qed.

Lemma lex_Eq : forall a b, lex a b = Eq <-> a = Eq /\ b = Eq.
Proof. intros [| |] b; cbn [lex]; split; intros H; try tauto; try discriminate; destruct H; discriminate. Qed.

Lemma lex_not_Gt_l : forall a b, lex a b <> Gt -> a <> Gt.
Proof. intros [| |] b; cbn [lex]; congruence. Qed.

Lemma cmp_ok_lex : forall A (c1 c2 : A -> A -> comparison),
  cmp_ok c1 -> cmp_ok c2 -> cmp_ok (fun a b => lex (c1 a b) (c2 a b)).
Proof.
  intros A c1 c2 H1 H2. constructor.
  - intros x y. rewrite (c_anti c1 H1 x y), (c_anti c2 H2 x y).
    destruct (c1 x y), (c2 x y); reflexivity.
  - intros x y z E. apply lex_Eq in E. destruct E as (E1 & E2).
    rewrite (c_cong c1 H1 x y z E1), (c_cong c2 H2 x y z E2). reflexivity.
  - intros x y z Exy Eyz.
    destruct (c1 x y) eqn:A1; cbn [lex] in Exy; [| |discriminate].
    + rewrite (c_cong c1 H1 x y z A1).
      destruct (c1 y z) eqn:A2; cbn [lex] in Eyz |- *; [| reflexivity | discriminate].
      apply (c_trans c2 H2 x y z Exy Eyz).
    + destruct (c1 y z) eqn:A2; cbn [lex] in Eyz; [| |discriminate].
      * rewrite (cmp_ok_cong_r A c1 H1 y z x A2) in A1. rewrite A1. reflexivity.
      * rewrite (c_trans c1 H1 x y z A1 A2). reflexivity.
Qed.

(* a then_with chain *)
Lemma lex_assoc : forall a b c, lex (lex a b) c = lex a (lex b c).
Proof. intros [| |] b c; reflexivity. Qed.

Lemma chain_acc : forall K (g : K -> comparison) ks acc,
  fold_left (fun a k => lex a (g k)) ks acc = lex acc (fold_left (fun a k => lex a (g k)) ks Eq).
Proof.
  intros K g. induction ks as [|k ks IH]; intros acc.
  - cbn [fold_left]. destruct acc; reflexivity.
  - cbn [fold_left]. rewrite IH, (IH (lex Eq (g k))). cbn [lex]. apply lex_assoc.
Qed.

Lemma chain_cons : forall K (g : K -> comparison) k ks,
  fold_left (fun a k => lex a (g k)) (k :: ks) Eq = lex (g k) (fold_left (fun a k => lex a (g k)) ks Eq).
Proof. intros K g k ks. cbn [fold_left]. rewrite chain_acc. reflexivity. Qed.

Lemma chain_app : forall K (g : K -> comparison) ks1 ks2,
  fold_left (fun a k => lex a (g k)) (ks1 ++ ks2) Eq
  = lex (fold_left (fun a k => lex a (g k)) ks1 Eq) (fold_left (fun a k => lex a (g k)) ks2 Eq).
Proof. intros K g ks1 ks2. rewrite fold_left_app. apply chain_acc. Qed.

Lemma chain_Eq : forall K (g : K -> comparison) ks,
  fold_left (fun a k => lex a (g k)) ks Eq = Eq <-> (forall k, In k ks -> g k = Eq).
Proof.
  intros K g. induction ks as [|k ks IH].
  - cbn [fold_left In]. split; [intros _ k [] | reflexivity].
  - rewrite chain_cons, lex_Eq, IH. cbn [In]. split.
    + intros (H1 & H2) k' [E | Hin]; [subst k'; exact H1 | apply H2; exact Hin].
    + intros H. split; [apply H; left; reflexivity | intros k' Hin; apply H; right; exact Hin].
Qed.

Lemma chain_ext : forall K (g g' : K -> comparison) ks, (forall k, In k ks -> g k = g' k) ->
  fold_left (fun a k => lex a (g k)) ks Eq = fold_left (fun a k => lex a (g' k)) ks Eq.
Proof.
  intros K g g'. induction ks as [|k ks IH]; intros H.
  - reflexivity.
  - rewrite !chain_cons. rewrite (H k) by (left; reflexivity).
    rewrite IH; [reflexivity|]. intros k' Hk'. apply H. right. exact Hk'.
Qed.

Lemma cmp_ok_chain : forall A K (g : K -> A -> A -> comparison) ks,
  (forall k, cmp_ok (g k)) -> cmp_ok (fun a b => fold_left (fun acc k => lex acc (g k a b)) ks Eq).
Proof.
  intros A K g ks Hg. induction ks as [|k ks IH].
  - cbn [fold_left]. apply cmp_ok_const.
  - pose proof (cmp_ok_lex A (g k) _ (Hg k) IH) as H.
    destruct H as [Ha Hc Ht]. constructor.
    + intros x y. rewrite !(chain_cons K (fun k => g k _ _)). apply Ha.
    + intros x y z. rewrite !(chain_cons K (fun k => g k _ _)). apply Hc.
    + intros x y z. rewrite !(chain_cons K (fun k => g k _ _)). apply Ht.
Qed.

(* ---------- Permutation::order ---------- *)

Lemma cmp_ok_cmp_key : forall k, cmp_ok (cmp_key k).
Proof.
  intros [| | | | | |]; unfold cmp_key.
  - apply (cmp_ok_pull lane N (fun a => hand_size (lpocket a)) N.compare cmp_ok_N).
  - apply (cmp_ok_pull lane N (fun a => hand_size (lpublic a)) N.compare cmp_ok_N).
  - apply (cmp_ok_pull lane (option N) (fun a => min_rank (lpocket a)) cmp_opt cmp_ok_opt).
  - apply (cmp_ok_pull lane (option N) (fun a => min_rank (lpublic a)) cmp_opt cmp_ok_opt).
  - apply (cmp_ok_pull lane (option N) (fun a => max_rank (lpocket a)) cmp_opt cmp_ok_opt).
  - apply (cmp_ok_pull lane (option N) (fun a => max_rank (lpublic a)) cmp_opt cmp_ok_opt).
  - apply (cmp_ok_pull lane N lsuit N.compare cmp_ok_N).
Qed.

Lemma cmp_ok_order : cmp_ok order.
Proof. unfold order. apply (cmp_ok_chain lane order_key cmp_key ORDER_KEYS cmp_ok_cmp_key). Qed.

Definition ole (a b : lane) : Prop := order a b <> Gt.

Lemma ole_trans : forall a b c, ole a b -> ole b c -> ole a c.
Proof. intros a b c. apply (cmp_ok_le_trans lane order cmp_ok_order). Qed.

(* ---------- insertion sort ---------- *)

Lemma insert_perm : forall x l, Permutation (insert x l) (x :: l).
Proof.
  intros x. induction l as [|y l IH].
  - apply Permutation_refl.
  - cbn [insert]. destruct (order x y); try apply Permutation_refl.
    eapply Permutation_trans; [apply perm_skip; exact IH | apply perm_swap].
Qed.

Lemma sort_perm : forall l, Permutation (sort_lanes l) l.
Proof.
  induction l as [|x l IH].
  - apply Permutation_refl.
  - unfold sort_lanes in *. cbn [fold_right].
    eapply Permutation_trans; [apply insert_perm | apply perm_skip; exact IH].
Qed.

Lemma insert_sorted : forall x l, StronglySorted ole l -> StronglySorted ole (insert x l).
Proof.
  intros x. induction l as [|y l IH]; intros Hs.
  - cbn [insert]. constructor; [constructor | constructor].
  - inversion Hs as [|y' l' Hs' Hf]; subst. cbn [insert].
    assert (Hle : order x y <> Gt -> StronglySorted ole (x :: y :: l)).
    { intros Hxy. constructor; [exact Hs|]. constructor; [exact Hxy|].
      eapply Forall_impl; [|exact Hf]. intros z Hz. apply (ole_trans x y z Hxy Hz). }
    destruct (order x y) eqn:E.
    + apply Hle. discriminate.
    + apply Hle. discriminate.
    + constructor; [apply IH; exact Hs'|].
      assert (Hyx : ole y x).
      { unfold ole. rewrite (c_anti order cmp_ok_order x y), E. discriminate. }
      apply Forall_forall. intros z Hz.
      apply (Permutation_in _ (insert_perm x l)) in Hz. destruct Hz as [Ez | Hz].
      * subst z. exact Hyx.
      * rewrite Forall_forall in Hf. apply Hf. exact Hz.
Qed.

Lemma sort_sorted : forall l, StronglySorted ole (sort_lanes l).
Proof.
  induction l as [|x l IH].
  - constructor.
  - unfold sort_lanes in *. cbn [fold_right]. apply insert_sorted. exact IH.
Qed.

(* sort_by leaves a sorted slice alone *)
Lemma sort_of_sorted : forall l, StronglySorted ole l -> sort_lanes l = l.
Proof.
  induction l as [|x l IH]; intros Hs.
  - reflexivity.
  - inversion Hs as [|x' l' Hs' Hf]; subst. unfold sort_lanes in *. cbn [fold_right].
    rewrite (IH Hs'). destruct l as [|y l]; [reflexivity|].
    cbn [insert]. inversion Hf as [|y' l' Hxy _]; subst. unfold ole in Hxy.
    destruct (order x y); [reflexivity | reflexivity | congruence].
Qed.

(* ---------- uniqueness of the sorted arrangement ---------- *)

Lemma sorted_perm_unique : forall A (c : A -> A -> comparison) (l1 l2 : list A),
  cmp_ok c ->
  (forall x y, In x l1 -> In y l1 -> c x y = Eq -> x = y) ->
  Permutation l1 l2 ->
  StronglySorted (fun a b => c a b <> Gt) l1 -> StronglySorted (fun a b => c a b <> Gt) l2 -> l1 = l2.
Proof.
  intros A c l1. induction l1 as [|a l1 IH]; intros l2 Hc Hanti Hp H1 H2.
  - apply Permutation_nil in Hp. subst. reflexivity.
  - destruct l2 as [|b l2]; [apply Permutation_sym, Permutation_nil in Hp; discriminate|].
    inversion H1 as [|a' l1' Hs1 Hf1]; subst. inversion H2 as [|b' l2' Hs2 Hf2]; subst.
    rewrite Forall_forall in Hf1, Hf2.
    assert (Hb1 : In b (a :: l1)) by (apply (Permutation_in _ (Permutation_sym Hp)); left; reflexivity).
    assert (Ha2 : In a (b :: l2)) by (apply (Permutation_in _ Hp); left; reflexivity).
    assert (Eab : a = b).
    { destruct Hb1 as [E | Hb1]; [exact E|]. destruct Ha2 as [E | Ha2]; [symmetry; exact E|].
      pose proof (Hf1 b Hb1) as L1. pose proof (Hf2 a Ha2) as L2.
      apply Hanti; [left; reflexivity | right; exact Hb1|].
      rewrite (c_anti c Hc a b) in L2. destruct (c a b); cbn [CompOpp] in L2; congruence. }
    subst b. f_equal. apply IH; [exact Hc | | apply (Permutation_cons_inv Hp) | exact Hs1 | exact Hs2].
    intros x y Hx Hy. apply Hanti; right; assumption.
Qed.
