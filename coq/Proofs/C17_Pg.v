(* Proofs/C17_Pg.v -- the saved file is a well-formed PostgreSQL binary COPY stream
   (Spec/SpecPgcopy.v) whose tuples are the written rows, field by field. *)
From Coq Require Import NArith ZArith List Bool Lia ZifyBool ZifyN ZifyNat.
From RP Require Import Base.Bits Gen.GenTables Model.Codec Model.Pgcopy Spec.SpecPgcopy Spec.SpecTables.
From RP Require Import Proofs.C17_Bytes Proofs.C17_Layout.
Import ListNotations.
Open Scope N_scope.

Arguments N.add : simpl never.
Arguments N.mul : simpl never.
Arguments N.sub : simpl never.
Arguments N.pow : simpl never.
Arguments N.modulo : simpl never.
Arguments N.div : simpl never.
Arguments N.to_nat : simpl never.
Arguments N.of_nat : simpl never.

(* the tuple a row is parsed to: (length, data) per field *)
Definition row_tuple (ws vals : list N) : list (N * list N) :=
  map (fun wv => (fst wv, be (fst wv) (snd wv))) (combine ws vals).

Lemma pg_fields_full : forall ws vals rest,
  length vals = length ws -> Forall (fun w => w < 4294967295) ws ->
  pg_fields (length ws) (fields_bytes ws ws vals ++ rest) = Some (row_tuple ws vals, rest).
Proof.
  induction ws as [|w ws IH]; intros vals rest Hv Hw.
  - reflexivity.
  - destruct vals as [|v vals]; [discriminate|].
    inversion Hw as [|w' ws' Hw1 Hw2]; subst.
    rewrite fields_bytes_cons, <- !app_assoc. cbn [length pg_fields].
    rewrite take_exact_be.
    assert (Hbl : be_value (be 4 w) = w).
    { apply be_value_be. change (256 ^ 4) with 4294967296. lia. }
    rewrite Hbl.
    destruct (N.eqb_spec w 4294967295) as [E|_]; [lia|].
    rewrite take_exact_be. cbn [length] in Hv.
    rewrite (IH vals rest) by (lia || assumption).
    reflexivity.
Qed.

(* extra side conditions for the COPY grammar: written length = written width *)
Record layout_pg_ok (L : layout) : Prop := mkLayoutPgOk {
  lp_ok : layout_ok L;
  lp_lw : l_wlengths L = l_wwidths L;
  lp_w32 : Forall (fun w => w < 4294967295) (l_wwidths L) }.

Lemma pg_tuples_full : forall L, layout_pg_ok L -> forall rows, Forall (row_len L) rows ->
  forall fuel acc, (length rows < fuel)%nat ->
  pg_tuples fuel (payload L rows) acc = Some (rev acc ++ map (row_tuple (l_wwidths L)) rows).
Proof.
  intros L HP rows H. pose proof (lp_ok L HP) as HL.
  induction H as [|r rows Hr _ IH]; intros fuel acc Hf.
  - destruct fuel as [|f]; [cbn [length] in Hf; lia|].
    rewrite payload_nil. cbn [pg_tuples].
    rewrite <- (app_nil_r (be 2 PG_FOOTER)), take_exact_be, footer_value.
    cbn [map]. rewrite app_nil_r. reflexivity.
  - destruct fuel as [|f]; [cbn [length] in Hf; lia|].
    rewrite payload_cons. cbn [pg_tuples].
    rewrite take_exact_be, (nfields_value L HL).
    pose proof (lo_nf L HL) as Hnf.
    destruct (N.eqb_spec (l_nfields L) 65535) as [E|_]; [lia|].
    rewrite (lp_lw L HP), <- (lo_ws L HL).
    rewrite pg_fields_full.
    + rewrite IH by (cbn [length] in Hf; lia).
      cbn [rev map]. rewrite <- app_assoc. reflexivity.
    + rewrite (lo_ws L HL). exact Hr.
    + exact (lp_w32 L HP).
Qed.

(* the generated header is a COPY header: signature, flags, empty extension *)
Lemma pg_parse_header : forall P, pg_parse (PG_HEADER ++ P) = pg_tuples (S (length P)) P [].
Proof. intros P. reflexivity. Qed.

Theorem pg_parse_save : forall L rows, layout_pg_ok L -> Forall (row_len L) rows ->
  pg_parse (save_bytes L rows) = Some (map (row_tuple (l_wwidths L)) rows).
Proof.
  intros L rows HP H. rewrite save_bytes_eq, pg_parse_header.
  rewrite (pg_tuples_full L HP rows H); [reflexivity|].
  rewrite (payload_length L rows (lp_ok L HP) H). lia.
Qed.

(* column types *)
Lemma typed_ok_tuple : forall cols ws vals,
  map type_width cols = ws -> length vals = length ws ->
  typed_ok cols (row_tuple ws vals) = true.
Proof.
  intros cols ws vals Hc Hv. unfold typed_ok. apply andb_true_intro. split.
  - apply Nat.eqb_eq. unfold row_tuple. rewrite map_length, combine_length, Hv, Nat.min_id, <- Hc, map_length.
    reflexivity.
  - subst ws. revert vals Hv. induction cols as [|c cols IH]; intros vals Hv.
    + reflexivity.
    + destruct vals as [|v vals]; [discriminate|].
      unfold row_tuple in *. cbn [map combine forallb fst snd].
      rewrite N.eqb_refl, be_length, N2Nat.id, N.eqb_refl. cbn [andb].
      apply IH. cbn [map length] in Hv. lia.
Qed.

(* the i-th field of a tuple *)
Lemma row_tuple_nth : forall ws vals i w v,
  nth_error ws i = Some w -> nth_error vals i = Some v ->
  nth_error (row_tuple ws vals) i = Some (w, be w v).
Proof.
  induction ws as [|w0 ws IH]; intros vals i w v Hw Hv.
  - destruct i; discriminate.
  - destruct vals as [|v0 vals]; [destruct i; discriminate|].
    destruct i as [|i].
    + cbn [nth_error] in *. inversion Hw; inversion Hv; subst. reflexivity.
    + cbn [nth_error] in Hw, Hv. unfold row_tuple in *. cbn [combine map nth_error].
      apply IH; assumption.
Qed.

Lemma Forall2_nth : forall (A B : Type) (R : A -> B -> Prop) l1 l2 i a b,
  Forall2 R l1 l2 -> nth_error l1 i = Some a -> nth_error l2 i = Some b -> R a b.
Proof.
  intros A B R l1 l2 i a b H. revert i. induction H as [|x y l1 l2 Hxy _ IH]; intros i Ha Hb.
  - destruct i; discriminate.
  - destruct i as [|i]; cbn [nth_error] in *.
    + inversion Ha; inversion Hb; subst. exact Hxy.
    + apply (IH i); assumption.
Qed.

Lemma nth_error_lt_some : forall (A : Type) (l : list A) i, (i < length l)%nat -> exists x, nth_error l i = Some x.
Proof.
  intros A l i H. destruct (nth_error l i) as [x|] eqn:E.
  - exists x. reflexivity.
  - apply nth_error_None in E. lia.
Qed.

(* generic statement: field i of tuple k is the big-endian encoding of component i of row k *)
Theorem field_values_generic : forall L rows tuples, layout_pg_ok L -> Forall (row_ok L) rows ->
  pg_parse (save_bytes L rows) = Some tuples ->
  forall k i r row, nth_error rows k = Some r -> nth_error tuples k = Some row ->
    (i < N.to_nat (l_nfields L))%nat ->
    exists w v, nth_error (l_wwidths L) i = Some w /\ nth_error r i = Some v /\
                nth_error row i = Some (w, be w v) /\ be_value (be w v) = v.
Proof.
  intros L rows tuples HP Hrows Hparse k i r row Hr Hrow Hi.
  pose proof (lp_ok L HP) as HL.
  assert (Hlen : Forall (row_len L) rows).
  { eapply Forall_impl; [|exact Hrows]. intros r0 Hr0. apply (row_ok_len L r0 HL Hr0). }
  rewrite (pg_parse_save L rows HP Hlen) in Hparse. inversion Hparse; subst tuples.
  rewrite nth_error_map, Hr in Hrow. cbn [option_map] in Hrow. inversion Hrow; subst row.
  assert (Hrok : row_ok L r).
  { rewrite Forall_forall in Hrows. apply Hrows. eapply nth_error_In. exact Hr. }
  pose proof (row_ok_len L r HL Hrok) as Hrl. unfold row_len in Hrl.
  destruct (nth_error_lt_some _ (l_wwidths L) i) as [w Hw]; [rewrite (lo_ws L HL); exact Hi|].
  destruct (nth_error_lt_some _ r i) as [v Hv]; [rewrite Hrl; exact Hi|].
  exists w, v. repeat split; try assumption.
  - apply row_tuple_nth; assumption.
  - apply be_value_be. exact (Forall2_nth _ _ _ _ _ i w v Hrok Hw Hv).
Qed.

(* ---------- the generated layouts ---------- *)
Ltac layout_pg_ok_tac H :=
  constructor; [ exact H | reflexivity | repeat (constructor; try reflexivity) ].

Lemma metric_layout_pg_ok : layout_pg_ok metric_layout.
Proof. layout_pg_ok_tac metric_layout_ok. Qed.
Lemma lookup_layout_pg_ok : layout_pg_ok lookup_layout.
Proof. layout_pg_ok_tac lookup_layout_ok. Qed.
Lemma profile_layout_pg_ok : layout_pg_ok profile_layout.
Proof. layout_pg_ok_tac profile_layout_ok. Qed.
Lemma transitions_layout_pg_ok : layout_pg_ok transitions_layout.
Proof. layout_pg_ok_tac transitions_layout_ok. Qed.

Lemma metric_types : map type_width METRIC_COLUMN_TYPES = l_wwidths metric_layout.
Proof. reflexivity. Qed.
Lemma lookup_types : map type_width LOOKUP_COLUMN_TYPES = l_wwidths lookup_layout.
Proof. reflexivity. Qed.
Lemma profile_types : map type_width PROFILE_COLUMN_TYPES = l_wwidths profile_layout.
Proof. reflexivity. Qed.
Lemma transitions_types : map type_width TRANSITIONS_COLUMN_TYPES = l_wwidths transitions_layout.
Proof. reflexivity. Qed.

Theorem wellformed_generic : forall L cols rows, layout_pg_ok L ->
  map type_width cols = l_wwidths L -> Forall (row_len L) rows ->
  exists tuples, pg_parse (save_bytes L rows) = Some tuples /\ length tuples = length rows /\
                 Forall (fun row => typed_ok cols row = true) tuples.
Proof.
  intros L cols rows HP Hc H. exists (map (row_tuple (l_wwidths L)) rows).
  split; [apply pg_parse_save; assumption|]. split; [apply map_length|].
  apply Forall_forall. intros row Hin. apply in_map_iff in Hin. destruct Hin as (r & E & Hr). subst row.
  rewrite Forall_forall in H. specialize (H r Hr). unfold row_len in H.
  apply typed_ok_tuple; [exact Hc|]. rewrite (lo_ws L (lp_ok L HP)). exact H.
Qed.

(* column order: the writer emits the fields in the order of the COPY column list *)
Lemma columns_all :
  columns_eqb PROFILE_WRITER_FIELDS PROFILE_COPY_COLUMNS = true /\
  columns_eqb METRIC_WRITER_FIELDS METRIC_COPY_COLUMNS = true /\
  columns_eqb LOOKUP_WRITER_FIELDS LOOKUP_COPY_COLUMNS = true /\
  columns_eqb TRANSITIONS_WRITER_FIELDS TRANSITIONS_COPY_COLUMNS = true.
Proof. repeat split; vm_compute; reflexivity. Qed.

(* columns_eqb is a faithful equality test *)
Lemma column_eqb_eq : forall a b, column_eqb a b = true <-> a = b.
Proof. intros a b. split; [destruct a, b; (reflexivity || discriminate) | intros E; subst b; destruct a; reflexivity]. Qed.

Lemma columns_eqb_eq : forall a b, columns_eqb a b = true -> a = b.
Proof.
  induction a as [|x a IH]; intros b H; destruct b as [|y b]; try reflexivity; try discriminate.
  unfold columns_eqb in H. cbn [length Nat.eqb combine forallb fst snd] in H.
  apply andb_prop in H. destruct H as [Hlen H]. apply andb_prop in H. destruct H as [Hxy H].
  apply column_eqb_eq in Hxy. subst y. f_equal. apply IH. unfold columns_eqb. rewrite Hlen, H. reflexivity.
Qed.
