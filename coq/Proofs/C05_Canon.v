(* Proofs/C05_Canon.v -- property C05: the canonicalisation (perm_of_obs, canon, is_canonical). *)
From Coq Require Import NArith ZArith List Bool Lia ZifyBool ZifyN ZifyNat Sorted Permutation.
From RP Require Import Base.Bits Gen.GenCards Gen.GenPerm Model.Codec Model.Evaluator Model.Iso.
From RP Require Import Spec.SpecCodec Spec.SpecIso Spec.SpecIsoWf.
From RP Require Import Proofs.BitsLemmas Proofs.C15_Hand Proofs.C05_Bits Proofs.C05_Sort Proofs.C05_View.
Import ListNotations.
Open Scope N_scope.

Arguments N.add : simpl never.
Arguments N.mul : simpl never.
Arguments N.sub : simpl never.
Arguments N.land : simpl never.
Arguments N.lor : simpl never.
Arguments N.pow : simpl never.
Arguments N.testbit : simpl never.

(* ---------- arrangements of the four suits ---------- *)

Definition distinct4 (a b c e : N) : bool :=
  negb (a =? b) && negb (a =? c) && negb (a =? e) && negb (b =? c) && negb (b =? e) && negb (c =? e).
Definition arr_chk : bool :=
  forallb (fun a => forallb (fun b => forallb (fun c => forallb (fun e =>
    implb (distinct4 a b c e) (existsb (perm_eqb [a; b; c; e]) EXHAUST))
    [0; 1; 2; 3]) [0; 1; 2; 3]) [0; 1; 2; 3]) [0; 1; 2; 3].
Lemma arr_chk_ok : arr_chk = true.
Proof. vm_compute. reflexivity. Qed.

Lemma suits_NoDup : NoDup [0; 1; 2; 3].
Proof. repeat constructor; cbn [In]; lia. Qed.

Lemma perm4_exhaust : forall q, Permutation [0; 1; 2; 3] q -> In q EXHAUST.
Proof.
  intros q Hp.
  pose proof (Permutation_length Hp) as Hl. pose proof (Permutation_NoDup Hp suits_NoDup) as Hn.
  assert (Hin : forall x, In x q -> x < 4).
  { intros x Hx. apply In_lt4. apply (Permutation_in _ (Permutation_sym Hp)). exact Hx. }
  destruct q as [|a [|b [|c [|e [|x q]]]]]; cbn [length] in Hl; try discriminate.
  pose proof (Hin a ltac:(cbn [In]; auto)) as Ha. pose proof (Hin b ltac:(cbn [In]; auto)) as Hb.
  pose proof (Hin c ltac:(cbn [In]; auto)) as Hc. pose proof (Hin e ltac:(cbn [In]; auto)) as He.
  inversion Hn as [|? ? N1 Hn1]; subst. inversion Hn1 as [|? ? N2 Hn2]; subst.
  inversion Hn2 as [|? ? N3 _]; subst. cbn [In] in N1, N2, N3.
  pose proof arr_chk_ok as H. unfold arr_chk in H.
  rewrite forallb_forall in H. specialize (H a (lt4_In a Ha)).
  rewrite forallb_forall in H. specialize (H b (lt4_In b Hb)).
  rewrite forallb_forall in H. specialize (H c (lt4_In c Hc)).
  rewrite forallb_forall in H. specialize (H e (lt4_In e He)).
  assert (D : distinct4 a b c e = true).
  { unfold distinct4. rewrite !andb_true_iff, !negb_true_iff, !N.eqb_neq. intuition. }
  rewrite D in H. cbn [implb] in H. apply existsb_exists in H. destruct H as (p & Hp' & E).
  apply perm_eqb_eq in E. rewrite E. exact Hp'.
Qed.

Lemma perm_as_map : forall q, length q = 4%nat -> q = map (perm_map q) [0; 1; 2; 3].
Proof.
  intros q Hl. destruct q as [|a [|b [|c [|e [|x q]]]]]; try discriminate. reflexivity.
Qed.

Lemma exhaust_perm4 : forall q, In q EXHAUST -> Permutation [0; 1; 2; 3] q.
Proof.
  intros q Hq. apply NoDup_Permutation_bis.
  - exact suits_NoDup.
  - rewrite (exhaust_length q Hq). cbn [length]. lia.
  - intros t Ht. apply In_lt4 in Ht. destruct (exhaust_surj q t Hq Ht) as (s & Hs & E).
    rewrite <- E. unfold perm_map. apply nth_In. rewrite (exhaust_length q Hq). lia.
Qed.

(* ---------- perm_of_obs: position of each suit in the sorted slice ---------- *)

Definition build (ss : list N) : perm :=
  fold_left (fun p il => set_nth (N.to_nat (snd il)) (fst il) p) (combine [0; 1; 2; 3] ss) identity.

Lemma build_chk_ok : forallb (fun q => perm_eqb (build q) (pinv q)) EXHAUST = true.
Proof. vm_compute. reflexivity. Qed.

Lemma build_pinv : forall q, In q EXHAUST -> build q = pinv q.
Proof.
  intros q Hq. pose proof build_chk_ok as H. rewrite forallb_forall in H.
  apply perm_eqb_eq. apply H. exact Hq.
Qed.

Lemma build_fold : forall (f : N -> lane) idx ss acc, (forall s, lsuit (f s) = s) ->
  fold_left (fun p il => set_nth (N.to_nat (lsuit (snd il))) (fst il) p) (combine idx (map f ss)) acc
  = fold_left (fun p il => set_nth (N.to_nat (snd il)) (fst il) p) (combine idx ss) acc.
Proof.
  intros f. induction idx as [|i idx IH]; intros ss acc Hf.
  - reflexivity.
  - destruct ss as [|s ss]; [reflexivity|].
    cbn [map combine fold_left fst snd]. rewrite Hf. apply IH. exact Hf.
Qed.

(* the structure of Permutation::from(&Observation) *)
Lemma perm_of_obs_struct : forall d o, exists sg,
  In sg EXHAUST /\ perm_of_obs d o = pinv sg /\ StronglySorted ole (map (colex d o) sg).
Proof.
  intros d o.
  pose proof (sort_perm (map (colex d o) [0; 1; 2; 3])) as Hp.
  destruct (Permutation_map_inv _ _ Hp) as (sg & E & Hsg).
  pose proof (perm4_exhaust sg Hsg) as Hin.
  exists sg. split; [exact Hin|]. split.
  - unfold perm_of_obs. cbv zeta. rewrite E.
    rewrite (build_fold (colex d o)) by reflexivity.
    apply (build_pinv sg Hin).
  - rewrite <- E. apply sort_sorted.
Qed.

Lemma C05_perm_in_exhaust_all : forall d o, In (perm_of_obs d o) EXHAUST.
Proof.
  intros d o. destruct (perm_of_obs_struct d o) as (sg & Hin & E & _).
  rewrite E. apply exhaust_pinv. exact Hin.
Qed.

Lemma C05_perm_in_exhaust : forall d o, wf_obs_d d o -> In (perm_of_obs d o) EXHAUST.
Proof. intros d o _. apply C05_perm_in_exhaust_all. Qed.

Lemma canon_relabel : forall d o, wf_obs_d d o -> canon d o = Some (relabel_obs (perm_of_obs d o) o).
Proof.
  intros d o Hwf. unfold canon.
  apply (C05_permute_is_relabel d _ o (C05_perm_in_exhaust_all d o) Hwf).
Qed.

Lemma C05_faithful : forall d o, wf_obs_d d o ->
  exists p c, In p EXHAUST /\ canon d o = Some c /\ c = relabel_obs p o.
Proof.
  intros d o Hwf. exists (perm_of_obs d o), (relabel_obs (perm_of_obs d o) o).
  split; [apply C05_perm_in_exhaust_all|]. split; [apply canon_relabel; exact Hwf | reflexivity].
Qed.

Lemma C05_same_canon_isomorphic : forall d o1 o2, wf_obs_d d o1 -> wf_obs_d d o2 ->
  canon d o1 = canon d o2 -> isomorphic o1 o2 = true.
Proof.
  intros d o1 o2 W1 W2 E. rewrite (canon_relabel d o1 W1), (canon_relabel d o2 W2) in E.
  assert (E' : relabel_obs (perm_of_obs d o1) o1 = relabel_obs (perm_of_obs d o2) o2) by congruence.
  apply (isomorphic_of_relabels d (perm_of_obs d o1) (perm_of_obs d o2) o1 o2);
    try apply C05_perm_in_exhaust_all; assumption.
Qed.

(* ---------- sortedness, through the view ---------- *)

Definition vle (a b : vw) : Prop := vorder a b <> Gt.

Lemma SS_map_rel : forall (B C : Type) (f : N -> B) (g : N -> C)
    (R : B -> B -> Prop) (R' : C -> C -> Prop) (Q : N -> N -> Prop) l,
  (forall x y, In x l -> In y l -> Q x y -> R (f x) (f y) -> R' (g x) (g y)) ->
  StronglySorted Q l -> StronglySorted R (map f l) -> StronglySorted R' (map g l).
Proof.
  intros B C f g R R' Q. induction l as [|a l IH]; intros H HQ HR.
  - constructor.
  - cbn [map] in *. inversion HQ as [|? ? HQ' FQ]; subst. inversion HR as [|? ? HR' FR]; subst.
    constructor.
    + apply IH; [|exact HQ' | exact HR']. intros x y Hx Hy. apply H; right; assumption.
    + rewrite Forall_forall in *. intros z Hz. apply in_map_iff in Hz. destruct Hz as (y & E & Hy). subst z.
      apply H; [left; reflexivity | right; exact Hy | apply FQ; exact Hy |].
      apply FR. apply in_map. exact Hy.
Qed.

Lemma SS_True : forall (l : list N), StronglySorted (fun _ _ => True) l.
Proof. induction l as [|a l IH]; constructor; [exact IH | apply Forall_forall; auto]. Qed.

Lemma exhaust_elems_lt : forall q s, In q EXHAUST -> In s q -> s < 4.
Proof.
  intros q s Hq Hs. apply In_lt4. apply (Permutation_in _ (Permutation_sym (exhaust_perm4 q Hq))). exact Hs.
Qed.

Lemma sorted_views : forall d o sg, wf_obs_d d o -> In sg EXHAUST ->
  StronglySorted ole (map (colex d o) sg) -> StronglySorted vle (map (view o) sg).
Proof.
  intros d o sg Hwf Hsg Hs.
  apply (SS_map_rel lane vw (colex d o) (view o) ole vle (fun _ _ => True) sg); [| apply SS_True | exact Hs].
  intros x y Hx Hy _ Hle. unfold ole in Hle.
  rewrite (colex_order d o x y Hwf (exhaust_elems_lt sg x Hsg Hx) (exhaust_elems_lt sg y Hsg Hy)) in Hle.
  apply lex_not_Gt_l in Hle. exact Hle.
Qed.

Lemma suits_sorted : StronglySorted N.lt [0; 1; 2; 3].
Proof. apply strict_incb_sorted. reflexivity. Qed.

(* ---------- idempotence ---------- *)

(* lanes whose views are already sorted, in suit order, are left alone: the permutation is the identity *)
Lemma perm_identity_of_sorted : forall d c, wf_obs_d d c ->
  StronglySorted vle (map (view c) [0; 1; 2; 3]) -> perm_of_obs d c = identity.
Proof.
  intros d c Hwf Hs.
  assert (Hl : StronglySorted ole (map (colex d c) [0; 1; 2; 3])).
  { apply (SS_map_rel vw lane (view c) (colex d c) vle ole N.lt [0; 1; 2; 3]); [| apply suits_sorted | exact Hs].
    intros x y Hx Hy Hxy Hle. apply In_lt4 in Hx. apply In_lt4 in Hy.
    unfold ole. rewrite (colex_order d c x y Hwf Hx Hy). unfold vle in Hle.
    destruct (vorder (view c x) (view c y)); cbn [lex]; [| discriminate | congruence].
    rewrite (proj2 (N.compare_lt_iff x y) Hxy). discriminate. }
  unfold perm_of_obs. cbv zeta. rewrite (sort_of_sorted _ Hl). reflexivity.
Qed.

Lemma views_of_canon : forall d o sg, wf_obs_d d o -> In sg EXHAUST ->
  map (view (relabel_obs (pinv sg) o)) [0; 1; 2; 3] = map (view o) sg.
Proof.
  intros d o sg Hwf Hsg.
  rewrite (perm_as_map sg (exhaust_length sg Hsg)) at 2. rewrite map_map.
  apply map_ext_in. intros i Hi. apply In_lt4 in Hi.
  destruct (exhaust_pointwise sg i Hsg Hi) as (Hlt & _ & Einv).
  rewrite <- Einv at 1.
  apply (view_relabel d (pinv sg) o (perm_map sg i) (exhaust_pinv sg Hsg) Hwf Hlt).
Qed.

Lemma perm_of_canon : forall d o, wf_obs_d d o ->
  perm_of_obs d (relabel_obs (perm_of_obs d o) o) = identity.
Proof.
  intros d o Hwf. destruct (perm_of_obs_struct d o) as (sg & Hsg & E & Hs). rewrite E.
  apply perm_identity_of_sorted.
  - apply wf_obs_d_relabel; [apply exhaust_pinv; exact Hsg | exact Hwf].
  - rewrite (views_of_canon d o sg Hwf Hsg). apply (sorted_views d o sg Hwf Hsg Hs).
Qed.

Lemma canon_of_identity : forall d o, wf_obs_d d o -> perm_of_obs d o = identity -> canon d o = Some o.
Proof.
  intros d o Hwf E. rewrite (canon_relabel d o Hwf), E, (relabel_obs_identity d o Hwf). reflexivity.
Qed.

Lemma C05_idem : forall d o c, wf_obs_d d o -> canon d o = Some c ->
  canon d c = Some c /\ is_canonical d c = true.
Proof.
  intros d o c Hwf E. rewrite (canon_relabel d o Hwf) in E.
  assert (E' : c = relabel_obs (perm_of_obs d o) o) by congruence. clear E. subst c.
  pose proof (perm_of_canon d o Hwf) as Hid.
  pose proof (wf_obs_d_relabel d _ o (C05_perm_in_exhaust_all d o) Hwf) as Hwc.
  split.
  - apply canon_of_identity; assumption.
  - unfold is_canonical. rewrite Hid. reflexivity.
Qed.

Lemma C05_is_canonical_iff : forall d o, wf_obs_d d o -> (is_canonical d o = true <-> canon d o = Some o).
Proof.
  intros d o Hwf. split.
  - intros H. unfold is_canonical in H. apply perm_eqb_eq in H. apply canon_of_identity; assumption.
  - intros H. apply (C05_idem d o o Hwf H).
Qed.

(* ---------- key completeness (the counting argument), on the model's lanes ---------- *)

Lemma keys_Eq_view : forall d o s t, wf_obs_d d o -> s < 4 -> t < 4 ->
  (forall k, k <> KSuit -> cmp_key k (colex d o s) (colex d o t) = Eq) -> view o s = view o t.
Proof.
  intros d o s t Hwf Hs Ht H. apply (view_key_complete d o s t Hwf Hs Ht).
  intros k Hk. specialize (H k Hk). rewrite (colex_key d o s t k Hwf Hs Ht) in H.
  destruct k; try exact H. congruence.
Qed.

Lemma high_bits_52 : forall h r s, h < 2 ^ 52 -> 13 <= r -> N.testbit h (4 * r + s) = false.
Proof. intros h r s Hh Hr. apply (testbit_high_lt h 52); [exact Hh | lia]. Qed.

Lemma rset_eq_all_bits : forall h s t, h < 2 ^ 52 -> rset h s = rset h t ->
  forall r, N.testbit h (4 * r + s) = N.testbit h (4 * r + t).
Proof.
  intros h s t Hh E r. destruct (N.lt_ge_cases r 13) as [Hr | Hr].
  - apply (rset_eq_bits h s t E r Hr).
  - rewrite !high_bits_52 by assumption. reflexivity.
Qed.

Lemma C05_key_complete : forall d o s t, wf_obs_d d o -> s < 4 -> t < 4 ->
  (forall k, k <> KSuit -> cmp_key k (colex d o s) (colex d o t) = Eq) ->
  (forall r, N.testbit (pocket o) (4 * r + s) = N.testbit (pocket o) (4 * r + t)) /\
  (forall r, N.testbit (public o) (4 * r + s) = N.testbit (public o) (4 * r + t)).
Proof.
  intros d o s t Hwf Hs Ht H. pose proof (keys_Eq_view d o s t Hwf Hs Ht H) as E.
  destruct Hwf as ((Hpk & Hpb & _) & _). unfold view in E.
  assert (E1 : rset (pocket o) s = rset (pocket o) t) by congruence.
  assert (E2 : rset (public o) s = rset (public o) t) by congruence.
  split; apply rset_eq_all_bits; assumption.
Qed.

(* ---------- invariance under relabeling ---------- *)

Lemma pinv_pinv_map : forall q u, In q EXHAUST -> u < 4 -> perm_map (pinv (pinv q)) u = perm_map q u.
Proof.
  intros q u Hq Hu.
  destruct (exhaust_pointwise q u Hq Hu) as (Hlt & _ & E1).
  destruct (exhaust_pointwise (pinv q) (perm_map q u) (exhaust_pinv q Hq) Hlt) as (_ & _ & E2).
  rewrite E1 in E2. exact E2.
Qed.

Lemma map4_pointwise : forall (A : Type) (f g : N -> A),
  map f [0; 1; 2; 3] = map g [0; 1; 2; 3] -> forall u, u < 4 -> f u = g u.
Proof.
  intros A f g E u Hu. cbn [map] in E. injection E as E0 E1 E2 E3.
  assert (H : u = 0 \/ u = 1 \/ u = 2 \/ u = 3) by lia.
  destruct H as [H | [H | [H | H]]]; subst u; assumption.
Qed.

(* the sorted sequence of lane views is the same for o and for any relabeling of o *)
Lemma sorted_views_invariant : forall d p o sg sg', In p EXHAUST -> wf_obs_d d o ->
  In sg EXHAUST -> In sg' EXHAUST ->
  StronglySorted ole (map (colex d o) sg) ->
  StronglySorted ole (map (colex d (relabel_obs p o)) sg') ->
  forall u, u < 4 -> view o (perm_map sg u) = view o (perm_map (pinv p) (perm_map sg' u)).
Proof.
  intros d p o sg sg' Hp Hwf Hsg Hsg' Hs Hs'.
  pose proof (wf_obs_d_relabel d p o Hp Hwf) as Hwf'.
  assert (Hv : forall t, t < 4 -> view (relabel_obs p o) t = view o (perm_map (pinv p) t)).
  { intros t Ht. destruct (exhaust_pointwise p t Hp Ht) as (_ & E & _).
    rewrite <- E at 1. apply (view_relabel d p o _ Hp Hwf).
    apply exhaust_map_lt; [apply exhaust_pinv; exact Hp | exact Ht]. }
  set (rho := map (perm_map (pinv p)) sg').
  assert (EL' : map (view (relabel_obs p o)) sg' = map (view o) rho).
  { unfold rho. rewrite map_map. apply map_ext_in. intros t Ht.
    apply Hv. apply (exhaust_elems_lt sg' t Hsg' Ht). }
  assert (EQ : map (view o) sg = map (view o) rho).
  { apply (sorted_perm_unique vw vorder _ _ cmp_ok_vorder).
    - intros x y Hx Hy E. apply in_map_iff in Hx, Hy.
      destruct Hx as (s & Es & Hs1). destruct Hy as (t & Et & Ht1). subst x y.
      apply (view_key_complete d o s t Hwf (exhaust_elems_lt sg s Hsg Hs1) (exhaust_elems_lt sg t Hsg Ht1)).
      apply vorder_Eq. exact E.
    - apply Permutation_map.
      eapply Permutation_trans; [apply Permutation_sym, exhaust_perm4; exact Hsg|].
      unfold rho.
      eapply Permutation_trans; [apply (exhaust_perm4 (pinv p) (exhaust_pinv p Hp))|].
      rewrite (perm_as_map (pinv p)) at 1 by (apply exhaust_length, exhaust_pinv; exact Hp).
      apply Permutation_map. apply exhaust_perm4. exact Hsg'.
    - apply (sorted_views d o sg Hwf Hsg Hs).
    - rewrite <- EL'. apply (sorted_views d _ sg' Hwf' Hsg' Hs'). }
  unfold rho in EQ.
  rewrite (perm_as_map sg (exhaust_length sg Hsg)) in EQ at 1.
  rewrite (perm_as_map sg' (exhaust_length sg' Hsg')) in EQ at 1.
  rewrite !map_map in EQ.
  intros u Hu. apply (map4_pointwise vw _ _ EQ u Hu).
Qed.

Lemma C05_invariant : forall d p o, In p EXHAUST -> wf_obs_d d o ->
  canon d (relabel_obs p o) = canon d o.
Proof.
  intros d p o Hp Hwf.
  pose proof (wf_obs_d_relabel d p o Hp Hwf) as Hwf'.
  rewrite (canon_relabel d o Hwf), (canon_relabel d _ Hwf').
  destruct (perm_of_obs_struct d o) as (sg & Hsg & E & Hs).
  destruct (perm_of_obs_struct d (relabel_obs p o)) as (sg' & Hsg' & E' & Hs').
  rewrite E, E'. f_equal.
  pose proof (sorted_views_invariant d p o sg sg' Hp Hwf Hsg Hsg' Hs Hs') as Hv.
  pose proof (exhaust_pinv sg Hsg) as Hi. pose proof (exhaust_pinv sg' Hsg') as Hi'.
  destruct Hwf as ((Hpk & Hpb & _) & _).
  assert (Hh : forall h, h < 2 ^ 52 ->
            (forall u, u < 4 -> rset h (perm_map sg u) = rset h (perm_map (pinv p) (perm_map sg' u))) ->
            relabel_hand (pinv sg') (relabel_hand p h) = relabel_hand (pinv sg) h).
  { intros h Hh Hr. apply N.bits_inj. intros k.
    destruct (card_decomp k) as (r & u & Hu & Ek). subst k.
    pose proof (exhaust_map_lt sg' u Hsg' Hu) as Hlt'.
    rewrite (relabel_testbit_inv (pinv sg') _ r u Hi')
      by (try apply pow2_52_64, relabel_hand_lt; assumption).
    rewrite (pinv_pinv_map sg' u Hsg' Hu).
    rewrite (relabel_testbit_inv p h r _ Hp (pow2_52_64 h Hh) Hlt').
    rewrite (relabel_testbit_inv (pinv sg) h r u Hi (pow2_52_64 h Hh) Hu).
    rewrite (pinv_pinv_map sg u Hsg Hu).
    symmetry. apply (rset_eq_all_bits h _ _ Hh (Hr u Hu)). }
  apply obs_ext; cbn [relabel_obs pocket public].
  - apply (Hh _ Hpk). intros u Hu. pose proof (Hv u Hu) as V. unfold view in V. congruence.
  - apply (Hh _ Hpb). intros u Hu. pose proof (Hv u Hu) as V. unfold view in V. congruence.
Qed.

(* canon (permute p o) = canon o, as the Rust test `false_positives` states it *)
Lemma C05_invariant_permute : forall d p o o', In p EXHAUST -> wf_obs_d d o ->
  permute d p o = Some o' -> canon d o' = canon d o.
Proof.
  intros d p o o' Hp Hwf E.
  destruct (C05_permute_is_relabel d p o Hp Hwf) as (E' & _). rewrite E' in E.
  assert (Eo : o' = relabel_obs p o) by congruence. subst o'. apply C05_invariant; assumption.
Qed.

(* canon decides isomorphism *)
Lemma C05_isomorphic_iff_same_canon : forall d o1 o2, wf_obs_d d o1 -> wf_obs_d d o2 ->
  (isomorphic o1 o2 = true <-> canon d o1 = canon d o2).
Proof.
  intros d o1 o2 W1 W2. split.
  - intros H. unfold isomorphic in H. apply existsb_exists in H. destruct H as (p & Hp & E).
    apply obs_eqb_eq in E. rewrite <- E. symmetry. apply C05_invariant; assumption.
  - apply C05_same_canon_isomorphic; assumption.
Qed.

(* key completeness, stated on the lanes themselves: equal up to the suit shift *)
Ltac Zify.zify_post_hook ::= Z.div_mod_to_equations.
Arguments N.div : simpl never.
Arguments N.modulo : simpl never.
Arguments N.shiftl : simpl never.

Lemma lane_shift_eq : forall d h s t, N.land h (hand_mask d) = h -> s < 4 -> t < 4 ->
  (forall r, N.testbit h (4 * r + s) = N.testbit h (4 * r + t)) ->
  N.shiftl (hand_of_suit d h s) t = N.shiftl (hand_of_suit d h t) s.
Proof.
  intros d h s t Hh Hs Ht Hb. apply N.bits_inj. intros k.
  destruct (N.lt_ge_cases k (s + t)) as [Hlow | Hhigh].
  - (* below s + t no bit of either side is set *)
    assert (L : forall a b, a < 4 -> b < 4 -> k < a + b -> N.testbit (N.shiftl (hand_of_suit d h a) b) k = false).
    { intros a b Ha Hb' Hk. destruct (N.lt_ge_cases k b) as [H1 | H1].
      - apply N.shiftl_spec_low. exact H1.
      - rewrite N.shiftl_spec_high by lia. rewrite (lane_testbit d h a _ Hh Ha).
        destruct (N.eqb_spec ((k - b) mod 4) a) as [E | NE]; [exfalso; lia|].
        rewrite !andb_false_r. reflexivity. }
    rewrite (L s t Hs Ht Hlow), (L t s Ht Hs) by lia. reflexivity.
  - rewrite !N.shiftl_spec_high by lia.
    rewrite (lane_testbit d h s _ Hh Hs), (lane_testbit d h t _ Hh Ht).
    destruct (N.eqb_spec ((k - t) mod 4) s) as [E1 | NE1];
      destruct (N.eqb_spec ((k - s) mod 4) t) as [E2 | NE2]; try (exfalso; lia).
    + assert (R : exists r, k - t = 4 * r + s /\ k - s = 4 * r + t).
      { exists ((k - s - t) / 4). lia. }
      destruct R as (r & R1 & R2). rewrite R1, R2, (Hb r).
      destruct (N.ltb_spec (4 * r + s) 52) as [A | A];
        destruct (N.ltb_spec (4 * r + t) 52) as [B | B]; try reflexivity; exfalso; lia.
    + rewrite !andb_false_r. reflexivity.
Qed.

Lemma C05_key_complete_lanes : forall d o s t, wf_obs_d d o -> s < 4 -> t < 4 ->
  (forall k, k <> KSuit -> cmp_key k (colex d o s) (colex d o t) = Eq) ->
  N.shiftl (lpocket (colex d o s)) t = N.shiftl (lpocket (colex d o t)) s /\
  N.shiftl (lpublic (colex d o s)) t = N.shiftl (lpublic (colex d o t)) s.
Proof.
  intros d o s t Hwf Hs Ht H.
  destruct (C05_key_complete d o s t Hwf Hs Ht H) as (B1 & B2).
  destruct Hwf as (_ & Mpk & Mpb). unfold colex. cbn [lpocket lpublic].
  split; apply lane_shift_eq; assumption.
Qed.
