(* Proofs/C07_Invariant.v -- property C07, part 3: equity_counts and the turn histogram do not change
   when the four suits are relabeled. *)
From Coq Require Import NArith ZArith List Bool Lia ZifyBool ZifyN ZifyNat Sorted Permutation.
From RP Require Import Base.Bits Gen.GenCards Gen.GenPerm Model.Codec Model.Evaluator Model.Iso Model.Equity.
From RP Require Import Spec.SpecCodec Spec.SpecHand Spec.SpecIso Spec.SpecIsoWf Spec.SpecCombs Spec.SpecIter
  Spec.SpecEquity.
From RP Require Import Proofs.BitsLemmas Proofs.C15_Hand Proofs.C06_Cat Proofs.C06_Main Proofs.C06_Count
  Proofs.C05_Bits Proofs.C07_Counts Proofs.C07_Relabel.
Import ListNotations.
Open Scope N_scope.

Arguments N.add : simpl never.
Arguments N.mul : simpl never.
Arguments N.sub : simpl never.
Arguments N.shiftl : simpl never.
Arguments N.shiftr : simpl never.
Arguments N.land : simpl never.
Arguments N.lor : simpl never.
Arguments N.lxor : simpl never.
Arguments N.pow : simpl never.
Arguments N.testbit : simpl never.

(* ---------- river observations ---------- *)
Lemma river_ok_relabel : forall d p o, In p EXHAUST -> river_ok d o -> river_ok d (relabel_obs p o).
Proof.
  intros d p o Hp [Mpk Mpb Hdis Hs2 Hs5].
  pose proof (in_mask_lt52 d _ Mpk) as Hpk. pose proof (in_mask_lt52 d _ Mpb) as Hpb.
  constructor; unfold relabel_obs; cbn [pocket public].
  - apply relabel_hand_in_mask; assumption.
  - apply relabel_hand_in_mask; assumption.
  - apply relabel_hand_disjoint; assumption.
  - rewrite (relabel_hand_size p _ Hp Hpk). exact Hs2.
  - rewrite (relabel_hand_size p _ Hp Hpb). exact Hs5.
Qed.

Lemma hero_hand_relabel : forall d p o, N.land (pocket o) (hand_mask d) = pocket o ->
  N.land (public o) (hand_mask d) = public o ->
  hero_hand (relabel_obs p o) = SpecIso.relabel_hand p (hero_hand o).
Proof.
  intros d p o Mpk Mpb. unfold hero_hand, relabel_obs. cbn [pocket public].
  symmetry. apply relabel_hand_lor; apply pow2_52_64; apply (in_mask_lt52 d); assumption.
Qed.

Lemma villain_hand_relabel : forall d p o v, N.land (public o) (hand_mask d) = public o ->
  N.land v (hand_mask d) = v ->
  villain_hand (relabel_obs p o) (SpecIso.relabel_hand p v) = SpecIso.relabel_hand p (villain_hand o v).
Proof.
  intros d p o v Mpb Mv. unfold villain_hand, relabel_obs. cbn [pocket public].
  symmetry. apply relabel_hand_lor; apply pow2_52_64; apply (in_mask_lt52 d); assumption.
Qed.

Lemma showdown_relabel : forall d p o v, In p EXHAUST -> river_ok d o -> In v (holdings d o) ->
  showdown d (relabel_obs p o) (SpecIso.relabel_hand p v) = showdown d o v.
Proof.
  intros d p o v Hp Hok Hv.
  destruct (hero_facts d o Hok) as (_ & _ & _ & Hvh).
  destruct (villain_facts d o v Hok Hv) as (Mv & _ & _ & _ & Hvv).
  unfold showdown.
  rewrite (hero_hand_relabel d p o (ro_pk_mask d o Hok) (ro_pb_mask d o Hok)).
  rewrite (villain_hand_relabel d p o v (ro_pb_mask d o Hok) Mv).
  rewrite (relabel_strength d p _ Hp Hvh), (relabel_strength d p _ Hp Hvv). reflexivity.
Qed.

Lemma holdings_relabel : forall d p o, In p EXHAUST -> river_ok d o ->
  Permutation (holdings d (relabel_obs p o)) (map (SpecIso.relabel_hand p) (holdings d o)).
Proof.
  intros d p o Hp Hok. unfold holdings.
  rewrite (hero_hand_relabel d p o (ro_pk_mask d o Hok) (ro_pb_mask d o Hok)).
  apply spec_hands_relabel; [exact Hp|]. apply (hero_facts d o Hok).
Qed.

Theorem suit_invariant_ok : forall d p o, In p EXHAUST -> river_ok d o ->
  equity_counts d (relabel_obs p o) = equity_counts d o.
Proof.
  intros d p o Hp Hok. pose proof (river_ok_relabel d p o Hp Hok) as Hok'.
  rewrite (equity_counts_eq d o Hok), (equity_counts_eq d _ Hok').
  rewrite !(cnt_perm _ _ _ (holdings_relabel d p o Hp Hok)), !cnt_map.
  f_equal. f_equal.
  - apply cnt_ext_in. intros v Hv. unfold hero_wins. rewrite (showdown_relabel d p o v Hp Hok Hv). reflexivity.
  - apply cnt_ext_in. intros v Hv. unfold hero_decided. rewrite (showdown_relabel d p o v Hp Hok Hv). reflexivity.
Qed.

Theorem suit_invariant : forall d p o, wf_obs_d d o -> hand_size (public o) = 5 -> In p EXHAUST ->
  equity_counts d (relabel_obs p o) = equity_counts d o.
Proof.
  intros d p o Hwf H5 Hp. apply suit_invariant_ok; [exact Hp | apply river_ok_of_wf; assumption].
Qed.

Theorem bucket_invariant : forall (bucket_of : N * N -> N) d p o,
  wf_obs_d d o -> hand_size (public o) = 5 -> In p EXHAUST ->
  option_map bucket_of (equity_counts d (relabel_obs p o)) = option_map bucket_of (equity_counts d o) /\
  bucket_of (counts_or_zero d (relabel_obs p o)) = bucket_of (counts_or_zero d o).
Proof.
  intros bucket_of d p o Hwf H5 Hp. unfold counts_or_zero.
  rewrite (suit_invariant d p o Hwf H5 Hp). split; reflexivity.
Qed.

(* ---------- bump: the count list depends on the multiset of keys only ---------- *)
Lemma bump_comm : forall a b h, bump a (bump b h) = bump b (bump a h).
Proof.
  intros a b h. destruct (N.eq_dec a b) as [E | Hab]; [subst b; reflexivity|].
  induction h as [|[k c] r IH].
  - cbn [bump].
    repeat (match goal with
            | |- context [N.ltb ?x ?y] => destruct (N.ltb_spec x y)
            | |- context [N.eqb ?x ?y] => destruct (N.eqb_spec x y)
            end; cbn [bump]); try lia; reflexivity.
  - cbn [bump].
    repeat (match goal with
            | |- context [N.ltb ?x ?y] => destruct (N.ltb_spec x y)
            | |- context [N.eqb ?x ?y] => destruct (N.eqb_spec x y)
            end; cbn [bump]); try lia; try reflexivity; try (f_equal; exact IH); subst; reflexivity.
Qed.

Lemma hist_fold_perm : forall l l', Permutation l l' ->
  forall h, fold_left (fun h k => bump k h) l h = fold_left (fun h k => bump k h) l' h.
Proof.
  intros l l' H. induction H as [|x l l' _ IH|x y l|l l' l'' _ IH1 _ IH2]; intros h.
  - reflexivity.
  - cbn [fold_left]. apply IH.
  - cbn [fold_left]. rewrite (bump_comm x y h). reflexivity.
  - rewrite IH1. apply IH2.
Qed.

Lemma hist_of_perm : forall l l', Permutation l l' -> hist_of l = hist_of l'.
Proof. intros l l' H. apply hist_fold_perm. exact H. Qed.

Lemma fold_hist_gen : forall (g : option (list (N * N)) -> N -> option (list (N * N))) (bk : N -> N) l,
  (forall c h, In c l -> g (Some h) c = Some (bump (bk c) h)) ->
  forall h, fold_left g l (Some h) = Some (fold_left (fun h k => bump k h) (map bk l) h).
Proof.
  intros g bk l. induction l as [|x l IH]; intros H h; [reflexivity|].
  cbn [fold_left map]. rewrite (H x h (or_introl eq_refl)).
  apply IH. intros c h' Hc. apply H. right. exact Hc.
Qed.

(* ---------- turn observations ---------- *)
Record turn_ok (d : deck) (o : obs) : Prop := mkTurnOk {
  to_pk_mask : N.land (pocket o) (hand_mask d) = pocket o;
  to_pb_mask : N.land (public o) (hand_mask d) = public o;
  to_disj : N.land (pocket o) (public o) = 0;
  to_pk_size : hand_size (pocket o) = 2;
  to_pb_size : hand_size (public o) = 4 }.

Lemma turn_ok_of_wf : forall d o, wf_obs_d d o -> hand_size (public o) = 4 -> turn_ok d o.
Proof.
  intros d o ((_ & _ & Hdis & Hs2 & _) & Mpk & Mpb) H4. constructor; assumption.
Qed.

Lemma turn_ok_relabel : forall d p o, In p EXHAUST -> turn_ok d o -> turn_ok d (relabel_obs p o).
Proof.
  intros d p o Hp [Mpk Mpb Hdis Hs2 Hs4].
  pose proof (in_mask_lt52 d _ Mpk) as Hpk. pose proof (in_mask_lt52 d _ Mpb) as Hpb.
  constructor; unfold relabel_obs; cbn [pocket public].
  - apply relabel_hand_in_mask; assumption.
  - apply relabel_hand_in_mask; assumption.
  - apply relabel_hand_disjoint; assumption.
  - rewrite (relabel_hand_size p _ Hp Hpk). exact Hs2.
  - rewrite (relabel_hand_size p _ Hp Hpb). exact Hs4.
Qed.

Definition child (o : obs) (c : N) : obs := mkObs (pocket o) (N.lor (public o) c).

Lemma turn_hero : forall d o, turn_ok d o ->
  hand_add (pocket o) (public o) = Some (hero_hand o) /\ N.land (hero_hand o) (hand_mask d) = hero_hand o.
Proof.
  intros d o [Mpk Mpb Hdis Hs2 Hs4]. split.
  - unfold hand_add, hero_hand. rewrite Hdis. reflexivity.
  - apply in_mask_lor; assumption.
Qed.

Lemma child_facts : forall d o c, turn_ok d o -> In c (spec_hands d 1 (hero_hand o)) ->
  N.land c (hand_mask d) = c /\ hand_add (public o) c = Some (N.lor (public o) c) /\ river_ok d (child o c).
Proof.
  intros d o c [Mpk Mpb Hdis Hs2 Hs4] Hc.
  apply C06_spec_hands_in in Hc. destruct Hc as [Hp Hf].
  apply free_sub_iff in Hf. destruct Hf as [Mc Hd].
  unfold hero_hand in Hd. apply land_lor_zero in Hd. destruct Hd as [Hdk Hdb].
  apply land_comm_zero in Hdb. apply land_comm_zero in Hdk.
  pose proof (in_mask_lt52 d _ Mpk) as Hpk. pose proof (in_mask_lt52 d _ Mpb) as Hpb.
  pose proof (in_mask_lt52 d _ Mc) as Hc52.
  split; [exact Mc|]. split; [unfold hand_add; rewrite Hdb; reflexivity|].
  constructor; unfold child; cbn [pocket public].
  - exact Mpk.
  - apply in_mask_lor; assumption.
  - apply land_lor_zero_inv; assumption.
  - exact Hs2.
  - rewrite (hand_size_lor_disjoint _ _ Hpb Hc52 Hdb). unfold hand_size at 2. rewrite Hp, Hs4. reflexivity.
Qed.

Lemma river_successors_ok : forall d o o', turn_ok d o -> In o' (river_successors d o) -> river_ok d o'.
Proof.
  intros d o o' Hok Hin. unfold river_successors in Hin. apply in_map_iff in Hin.
  destruct Hin as (c & E & Hc). subst o'. apply (child_facts d o c Hok Hc).
Qed.

Lemma turn_histogram_eq : forall bucket_of d o, turn_ok d o ->
  turn_histogram bucket_of d o
  = Some (hist_of (map (fun o' => bucket_of (counts_or_zero d o')) (river_successors d o))).
Proof.
  intros bucket_of d o Hok. destruct (turn_hero d o Hok) as [Ea _].
  unfold turn_histogram. rewrite Ea.
  rewrite (fold_hist_gen _ (fun c => bucket_of (counts_or_zero d (child o c)))).
  - unfold hist_of, river_successors. rewrite map_map. reflexivity.
  - intros c h Hc. destruct (child_facts d o c Hok Hc) as (_ & Eadd & Hrok).
    rewrite Eadd. fold (child o c). unfold counts_or_zero.
    rewrite (equity_counts_eq d _ Hrok). reflexivity.
Qed.

Lemma child_relabel : forall d p o c, turn_ok d o -> N.land c (hand_mask d) = c ->
  child (relabel_obs p o) (SpecIso.relabel_hand p c) = relabel_obs p (child o c).
Proof.
  intros d p o c Hok Mc. unfold child, relabel_obs. cbn [pocket public]. f_equal.
  symmetry. apply relabel_hand_lor; apply pow2_52_64; apply (in_mask_lt52 d);
    [apply (to_pb_mask d o Hok) | exact Mc].
Qed.

Theorem histogram_invariant_ok : forall bucket_of d p o, In p EXHAUST -> turn_ok d o ->
  turn_histogram bucket_of d (relabel_obs p o) = turn_histogram bucket_of d o.
Proof.
  intros bucket_of d p o Hp Hok. pose proof (turn_ok_relabel d p o Hp Hok) as Hok'.
  rewrite (turn_histogram_eq bucket_of d o Hok), (turn_histogram_eq bucket_of d _ Hok').
  f_equal. unfold river_successors. rewrite !map_map.
  rewrite (hero_hand_relabel d p o (to_pk_mask d o Hok) (to_pb_mask d o Hok)).
  destruct (turn_hero d o Hok) as [_ Hm].
  rewrite (hist_of_perm _ _ (Permutation_map _ (spec_hands_relabel d p (hero_hand o) 1 Hp Hm))).
  rewrite map_map. f_equal. apply map_ext_in. intros c Hc.
  destruct (child_facts d o c Hok Hc) as (Mc & _ & Hrok).
  fold (child (relabel_obs p o) (SpecIso.relabel_hand p c)). fold (child o c).
  rewrite (child_relabel d p o c Hok Mc). unfold counts_or_zero.
  rewrite (suit_invariant_ok d p _ Hp Hrok). reflexivity.
Qed.

Theorem histogram_invariant : forall bucket_of d p o, wf_obs_d d o -> hand_size (public o) = 4 ->
  In p EXHAUST -> turn_histogram bucket_of d (relabel_obs p o) = turn_histogram bucket_of d o.
Proof.
  intros bucket_of d p o Hwf H4 Hp. apply histogram_invariant_ok; [exact Hp | apply turn_ok_of_wf; assumption].
Qed.

(* the histogram is defined, and is the count list of the buckets of the river successors *)
Theorem histogram_meaning : forall bucket_of d o, wf_obs_d d o -> hand_size (public o) = 4 ->
  turn_histogram bucket_of d o
  = Some (hist_of (map (fun o' => bucket_of (counts_or_zero d o')) (river_successors d o))) /\
  (forall o', In o' (river_successors d o) ->
     wf_obs_d d o' /\ hand_size (public o') = 5 /\ equity_counts d o' = Some (counts_or_zero d o')) /\
  N.of_nat (length (river_successors d o)) = choose (deck_size d - 6) 1.
Proof.
  intros bucket_of d o Hwf H4. pose proof (turn_ok_of_wf d o Hwf H4) as Hok.
  split; [apply turn_histogram_eq; exact Hok|]. split.
  - intros o' Hin. pose proof (river_successors_ok d o o' Hok Hin) as [Mpk Mpb Hdis Hs2 Hs5].
    split; [|split].
    + unfold wf_obs_d, wf_obs. rewrite Hs5, Hs2.
      repeat split; try assumption; try (apply (in_mask_lt52 d); assumption). right. right. right. reflexivity.
    + exact Hs5.
    + unfold counts_or_zero. rewrite (equity_counts_eq d o' (mkRiverOk d o' Mpk Mpb Hdis Hs2 Hs5)). reflexivity.
  - unfold river_successors. rewrite map_length, C06_hands_count.
    destruct (turn_hero d o Hok) as [_ Hm]. rewrite (n_free_eq d _ Hm).
    destruct Hok as [Mpk Mpb Hdis Hs2 Hs4]. unfold hero_hand.
    rewrite (hand_size_lor_disjoint _ _ (in_mask_lt52 d _ Mpk) (in_mask_lt52 d _ Mpb) Hdis), Hs2, Hs4.
    reflexivity.
Qed.

Theorem holdings_relabel_wf : forall d p o, wf_obs_d d o -> hand_size (public o) = 5 -> In p EXHAUST ->
  Permutation (holdings d (relabel_obs p o)) (map (SpecIso.relabel_hand p) (holdings d o)).
Proof.
  intros d p o Hwf H5 Hp. apply holdings_relabel; [exact Hp | apply river_ok_of_wf; assumption].
Qed.
