(* Proofs/C06_Obs.v -- the observation iterator yields [spec_obs d s] (theorem 6). *)
From Coq Require Import NArith ZArith List Bool Lia ZifyBool ZifyN ZifyNat Sorted.
From RP Require Import Base.Bits Gen.GenCards Gen.GenStreet Model.Codec Model.Hands.
From RP Require Import Spec.SpecCodec Spec.SpecIsoWf Spec.SpecCombs Spec.SpecIter.
From RP Require Import Proofs.BitsLemmas Proofs.C15_Hand Proofs.C06_Cat Proofs.C06_Gosper Proofs.C06_Fuel
  Proofs.C06_Combs Proofs.C06_Iter Proofs.C06_Hands Proofs.C06_Main Proofs.C06_Count.
Import ListNotations.
Open Scope N_scope.

Arguments N.add : simpl never.
Arguments N.mul : simpl never.
Arguments N.sub : simpl never.
Arguments N.shiftl : simpl never.
Arguments N.shiftr : simpl never.
Arguments N.land : simpl never.
Arguments N.lor : simpl never.
Arguments N.lxor : simpl never.
Arguments N.pow : simpl never.
Arguments N.testbit : simpl never.

(* ---------- pockets ---------- *)
Lemma wf_mask_0 : forall d, wf_mask d 0.
Proof. intros d. unfold wf_mask. apply N.land_0_l. Qed.

Lemma free_cards_0 : forall d, free_cards d 0 = hand_mask d.
Proof. intros [|]; reflexivity. Qed.

Lemma pocket_facts : forall d p, In p (spec_hands d 2 0) ->
  hand_size p = 2 /\ p < 2 ^ 52 /\ wf_mask d p.
Proof.
  intros d p H. pose proof H as H'. apply C06_spec_hands_in in H. destruct H as [Hp Hsub].
  apply spec_hands_in in H'. destruct H' as (_ & Hlt & _).
  rewrite free_cards_0 in Hsub. repeat split; assumption.
Qed.

Lemma n_observed_cases : forall s, (0 <= s <= 3)%Z ->
  (s = 0%Z /\ n_observed s = 0) \/ (s = 1%Z /\ n_observed s = 3) \/
  (s = 2%Z /\ n_observed s = 4) \/ (s = 3%Z /\ n_observed s = 5).
Proof.
  intros s Hs. assert (s = 0 \/ s = 1 \/ s = 2 \/ s = 3)%Z as [E | [E | [E | E]]] by lia; subst s.
  - left. split; reflexivity.
  - right; left. split; reflexivity.
  - right; right; left. split; reflexivity.
  - right; right; right. split; reflexivity.
Qed.

Lemma obs_from_parts_ok : forall pk pb, hand_size pk = 2 -> hand_size pb <= 5 ->
  obs_from_parts pk pb = Some (mkObs pk pb).
Proof.
  intros pk pb H1 H2. unfold obs_from_parts. rewrite H1.
  destruct (N.leb_spec (hand_size pb) 5) as [_ | H]; [reflexivity | lia].
Qed.

Lemma board_size : forall d n p b, In b (spec_hands d n p) -> hand_size b = N.of_nat n.
Proof. intros d n p b H. apply C06_spec_hands_in in H. tauto. Qed.

Lemma boards_nonempty : forall d n p, In p (spec_hands d 2 0) -> (n <= 5)%nat -> spec_hands d n p <> [].
Proof.
  intros d n p Hp Hn E. destruct (pocket_facts d p Hp) as (Hs & _ & Hwf).
  pose proof (spec_hands_length d p n) as Hl. rewrite E in Hl. cbn [length] in Hl.
  rewrite (n_free_eq d p Hwf), Hs, deck_size_val in Hl.
  assert (0 < choose (match d with Standard => 52 | Short => 36 end - N.to_nat 2) n).
  { apply choose_pos. destruct d; change (N.to_nat 2) with 2%nat; lia. }
  lia.
Qed.

Section Run.
Variable d : deck.
Variable s : Z.

Definition boards (p : N) : list obs := map (mkObs p) (spec_hands d (N.to_nat (n_observed s)) p).

(* the inner iterator runs dry, then the continuation takes over *)
Lemma inner_run : forall inner bs, hands_all d inner bs ->
  forall pk outer rest, hand_size pk = 2 -> (forall b, In b bs -> hand_size b <= 5) ->
  (forall inner', hand_next d inner' = Some None -> obs_all d (mkOiter s pk outer inner') rest) ->
  obs_all d (mkOiter s pk outer inner) (map (mkObs pk) bs ++ rest).
Proof.
  intros inner bs H. induction H as [it E | it h it' r E H IH]; intros pk outer rest Hpk Hbs Hk.
  - cbn [map app]. apply Hk. exact E.
  - cbn [map app]. apply obs_all_item with (it' := mkOiter s pk outer it').
    + unfold obs_next. cbn [oinner opocket ostreet oouter]. rewrite E.
      rewrite obs_from_parts_ok; [reflexivity | exact Hpk | apply Hbs; left; reflexivity].
    + apply IH; [exact Hpk | | exact Hk]. intros b Hb. apply Hbs. right. exact Hb.
Qed.

(* streets with a board *)
Hypothesis Hs : (1 <= s <= 3)%Z.

Lemma n_obs_range : (3 <= N.to_nat (n_observed s) <= 5)%nat.
Proof.
  destruct (n_observed_cases s ltac:(lia)) as [[E1 E2] | [[E1 E2] | [[E1 E2] | [E1 E2]]]]; rewrite E2; cbn; lia.
Qed.

Lemma outer_run : forall outer ps, hands_all d outer ps -> (forall p, In p ps -> In p (spec_hands d 2 0)) ->
  forall pk inner', hand_next d inner' = Some None ->
  obs_all d (mkOiter s pk outer inner') (flat_map boards ps).
Proof.
  intros outer ps H. induction H as [it E | it p it' r E H IH]; intros Hps pk inner' Ein.
  - cbn [flat_map]. apply obs_all_done. unfold obs_next. cbn [oinner oouter]. rewrite Ein, E. reflexivity.
  - pose proof n_obs_range as Hn.
    assert (Hp : In p (spec_hands d 2 0)) by (apply Hps; left; reflexivity).
    destruct (pocket_facts d p Hp) as (Hsz & Hlt & Hwf).
    destruct (hands_enum d p (N.to_nat (n_observed s)) Hwf ltac:(lia)) as (inner2 & Ei & Hall2).
    rewrite N2Nat.id in Ei.
    pose proof (boards_nonempty d (N.to_nat (n_observed s)) p Hp ltac:(lia)) as Hne.
    cbn [flat_map]. unfold boards at 1.
    assert (Hbsz : forall b, In b (spec_hands d (N.to_nat (n_observed s)) p) -> hand_size b <= 5).
    { intros b Hb. rewrite (board_size d _ p b Hb). lia. }
    destruct (spec_hands d (N.to_nat (n_observed s)) p) as [|b1 bs2] eqn:Ebs; [congruence|].
    inversion Hall2 as [| it0 h0 inner2' r0 En2 Hall2' ]; subst.
    cbn [map app].
    apply obs_all_item with (it' := mkOiter s p it' inner2').
    + unfold obs_next. cbn [oinner oouter ostreet opocket]. rewrite Ein, E.
      destruct (Z.eqb_spec s 0) as [E0 | _]; [lia|].
      rewrite Ei, En2. rewrite obs_from_parts_ok; [reflexivity | exact Hsz | apply Hbsz; left; reflexivity].
    + apply inner_run; [exact Hall2' | exact Hsz | intros b Hb; apply Hbsz; right; exact Hb |].
      intros inner3 E3. apply IH; [|exact E3]. intros q Hq. apply Hps. right. exact Hq.
Qed.

End Run.

(* pre-flop *)
Lemma outer_run0 : forall d outer ps, hands_all d outer ps -> (forall p, In p ps -> hand_size p = 2) ->
  forall pk inner, hand_next d inner = Some None ->
  obs_all d (mkOiter 0 pk outer inner) (map (fun p => mkObs p 0) ps).
Proof.
  intros d outer ps H. induction H as [it E | it p it' r E H IH]; intros Hps pk inner Ein.
  - cbn [map]. apply obs_all_done. unfold obs_next. cbn [oinner oouter]. rewrite Ein, E. reflexivity.
  - cbn [map]. apply obs_all_item with (it' := mkOiter 0 p it' inner).
    + unfold obs_next. cbn [oinner oouter ostreet opocket]. rewrite Ein, E. cbn [Z.eqb].
      rewrite obs_from_parts_ok; [reflexivity | apply Hps; left; reflexivity | cbn; lia].
    + apply IH; [|exact Ein]. intros q Hq. apply Hps. right. exact Hq.
Qed.

Lemma spec_obs_pref : forall d, spec_obs d 0 = map (fun p => mkObs p 0) (spec_hands d 2 0).
Proof.
  intros d. unfold spec_obs. change (N.to_nat (n_observed 0)) with 0%nat.
  induction (spec_hands d 2 0) as [|p r IH]; [reflexivity|].
  cbn [flat_map map]. rewrite spec_hands_k0, IH. reflexivity.
Qed.

Lemma start_pocket_first : forall d, hd_error (spec_hands d 2 0) = Some (start_pocket d).
Proof. intros [|]; vm_compute; reflexivity. Qed.

Lemma start_pocket_wf : forall d, wf_mask d (start_pocket d).
Proof. intros [|]; vm_compute; reflexivity. Qed.

(* ---------- theorem 6 ---------- *)
Lemma obs_enum : forall d s, (0 <= s <= 3)%Z ->
  exists it, obs_iter d s = Some it /\ obs_all d it (spec_obs d s).
Proof.
  intros d s Hs.
  destruct (hands_enum d 0 2 (wf_mask_0 d) ltac:(lia)) as (outer & Eo & Hout).
  change (N.of_nat 2) with 2 in Eo.
  destruct (Z.eq_dec s 0) as [E0 | NE0].
  - subst s. destruct (hands_k0 d (start_pocket d)) as (inner & Ei & Hin).
    exists (mkOiter 0 (start_pocket d) outer inner). split.
    + unfold obs_iter. change (n_observed 0) with 0. rewrite Ei, Eo. reflexivity.
    + rewrite spec_obs_pref. apply outer_run0; [exact Hout | | exact Hin].
      intros p Hp. apply (pocket_facts d p Hp).
  - assert (Hs1 : (1 <= s <= 3)%Z) by lia.
    pose proof (n_obs_range s Hs1) as Hn.
    destruct (hands_enum d (start_pocket d) (N.to_nat (n_observed s)) (start_pocket_wf d) ltac:(lia))
      as (inner & Ei & Hin).
    rewrite N2Nat.id in Ei.
    pose proof (start_pocket_first d) as Hhd.
    unfold spec_obs.
    assert (Hall_in : forall p, In p (spec_hands d 2 0) -> In p (spec_hands d 2 0)) by (intros p Hp; exact Hp).
    destruct (spec_hands d 2 0) as [|p1 ps] eqn:Eps; [discriminate|].
    cbn [hd_error] in Hhd. inversion Hhd; subst p1.
    inversion Hout as [| it0 h0 outer' r0 En Hout']; subst.
    exists (mkOiter s (start_pocket d) outer' inner). split.
    + unfold obs_iter. rewrite Ei, Eo. destruct (Z.eqb_spec s 0) as [E | _]; [lia|]. rewrite En. reflexivity.
    + cbn [flat_map].
      assert (Hp1 : In (start_pocket d) (start_pocket d :: ps)) by (left; reflexivity).
      rewrite <- Eps in Hp1.
      destruct (pocket_facts d _ Hp1) as (Hsz & _ & _).
      apply inner_run; [exact Hin | exact Hsz | |].
      * intros b Hb. rewrite (board_size d _ _ b Hb). lia.
      * intros inner3 E3. apply (outer_run d s Hs1 outer' ps Hout'); [|exact E3].
        intros q Hq. rewrite Eps. right. exact Hq.
Qed.
