(* Proofs/C14_Draw.v -- property C14 (draw part): Deck::draw with index i returns the (i+1)-th lowest
   set bit of the deck mask, so i |-> card is a bijection from [0, size) onto the deck; the card is
   removed; successive draws never repeat a card.  Depends on Gen.GenFixes.DECK_DRAW_INCLUSIVE. *)
From Coq Require Import NArith List Bool Lia ZifyBool ZifyN ZifyNat Sorted Permutation.
From RP Require Import Base.Bits Gen.GenFixes Gen.GenCards Model.Deck Spec.DeckSpec Proofs.BitsLemmas.
Import ListNotations.
Open Scope N_scope.

(* ---------- x & (x - 1) clears the lowest set bit ---------- *)

Lemma testbit_true_ge : forall x a, N.testbit x a = true -> 2 ^ a <= x.
Proof.
  intros x a H. destruct (N.lt_ge_cases x (2 ^ a)) as [Hlt | Hge]; [|exact Hge].
  rewrite (testbit_high_lt x a a Hlt) in H by lia. discriminate.
Qed.

Lemma clear_lowest_eq : forall x a,
  N.testbit x a = true -> (forall j, j < a -> N.testbit x j = false) ->
  N.land x (x - 1) = N.clearbit x a.
Proof.
  intros x a Ha Hlow.
  assert (Hge : 2 ^ a <= x) by (apply testbit_true_ge; exact Ha).
  assert (Hnz : 2 ^ a <> 0) by (apply N.pow_nonzero; discriminate).
  assert (E1 : x - 2 ^ a = N.ldiff x (2 ^ a)).
  { apply N.sub_nocarry_ldiff. apply N.bits_inj. intros k.
    rewrite N.ldiff_spec, N.pow2_bits_eqb, N.bits_0.
    destruct (N.eqb_spec a k) as [E | NE]; [subst k; rewrite Ha; reflexivity | reflexivity]. }
  assert (E2 : x - 1 = N.lor (N.ldiff x (2 ^ a)) (N.ones a)).
  { rewrite lor_add_disjoint.
    - rewrite <- E1, N.ones_equiv. lia.
    - apply N.bits_inj. intros k. rewrite N.land_spec, N.ldiff_spec, N.bits_0.
      destruct (N.lt_ge_cases k a) as [Hlt | Hge'].
      + rewrite (Hlow k Hlt). reflexivity.
      + rewrite N.ones_spec_high by exact Hge'. apply andb_false_r. }
  apply N.bits_inj. intros k.
  rewrite N.land_spec, E2, N.lor_spec, N.ldiff_spec, N.pow2_bits_eqb, N.clearbit_eqb.
  destruct (N.lt_ge_cases k a) as [Hlt | Hge'].
  - rewrite (Hlow k Hlt). reflexivity.
  - rewrite N.ones_spec_high by exact Hge'. rewrite orb_false_r.
    destruct (N.testbit x k); destruct (a =? k); reflexivity.
Qed.

Lemma clearbit_lt : forall x a n, x < 2 ^ n -> N.clearbit x a < 2 ^ n.
Proof.
  intros x a n Hx. apply lt_pow2_of_bits. intros k Hk.
  rewrite N.clearbit_eqb, (testbit_high_lt x n k Hx Hk). reflexivity.
Qed.

Lemma set_bits64_hd_low : forall x a t, x < 2 ^ 64 -> set_bits64 x = a :: t ->
  N.testbit x a = true /\ (forall j, j < a -> N.testbit x j = false).
Proof.
  intros x a t Hx E.
  assert (Hnz : x <> 0).
  { intros E0. subst x. vm_compute in E. discriminate. }
  assert (Etz : tz64 x = a) by (unfold tz64; rewrite E; reflexivity).
  destruct (tz64_spec x Hx Hnz) as (_ & H1 & H2). rewrite Etz in H1, H2.
  split; [exact H1 | exact H2].
Qed.

Lemma set_bits64_clearbit_hd : forall x a t, x < 2 ^ 64 -> set_bits64 x = a :: t ->
  set_bits64 (N.clearbit x a) = t.
Proof.
  intros x a t Hx E.
  pose proof (set_bits64_sorted x) as Hs. rewrite E in Hs.
  inversion Hs as [|a' t' Hst Hf]; subst a' t'. rewrite Forall_forall in Hf.
  apply sorted_lt_ext_eq; [apply set_bits64_sorted | exact Hst |].
  intros k. rewrite set_bits64_spec by (apply clearbit_lt; exact Hx).
  rewrite N.clearbit_iff, <- (set_bits64_spec x k Hx), E. split.
  - intros ([Hk | Hk] & Hne); [congruence | exact Hk].
  - intros Hk. split; [right; exact Hk|]. specialize (Hf _ Hk). lia.
Qed.

(* ---------- the walk ---------- *)

Lemma walk_spec : forall fuel deck ones card i,
  deck < 2 ^ 64 -> ones <= i -> i - ones < N.of_nat (length (set_bits64 deck)) ->
  (length (set_bits64 deck) < fuel)%nat ->
  walk true fuel deck ones card i = nth (N.to_nat (i - ones)) (set_bits64 deck) 0.
Proof.
  induction fuel as [|fuel IH]; intros deck ones card i Hd Hle Hlt Hf; [lia|].
  cbn [walk].
  replace (ones <=? i) with true by (symmetry; apply N.leb_le; exact Hle).
  assert (Etz : tz64 deck = hd 64 (set_bits64 deck)).
  { unfold tz64. destruct (set_bits64 deck); reflexivity. }
  destruct (set_bits64 deck) as [|a t] eqn:E; [cbn [length] in Hlt; lia|].
  cbn [hd] in Etz. cbn [length] in Hlt, Hf.
  destruct (set_bits64_hd_low deck a t Hd E) as (Ha & Hlow).
  rewrite (clear_lowest_eq deck a Ha Hlow), Etz.
  pose proof (set_bits64_clearbit_hd deck a t Hd E) as Et.
  pose proof (clearbit_lt deck a 64 Hd) as Hd'.
  destruct (N.eq_dec ones i) as [Eq | Hne].
  - subst ones. rewrite N.sub_diag. cbn [N.to_nat nth].
    destruct fuel as [|fuel']; [reflexivity|]. cbn [walk].
    replace (i + 1 <=? i) with false by (symmetry; apply N.leb_gt; lia). reflexivity.
  - rewrite IH; [| exact Hd' | lia | rewrite Et; lia | rewrite Et; lia].
    rewrite Et. replace (N.to_nat (i - ones)) with (S (N.to_nat (i - (ones + 1)))) by lia.
    reflexivity.
Qed.

Theorem C14_draw_is_nth : forall d i, d < 2 ^ 64 -> i < popcount64 d ->
  draw_at_with true d i = nth (N.to_nat i) (set_bits64 d) 0.
Proof.
  intros d i Hd Hi. unfold draw_at_with. rewrite popcount64_length in Hi.
  pose proof (set_bits64_length_le d) as Hl.
  rewrite walk_spec; [rewrite N.sub_0_r; reflexivity | exact Hd | lia | lia | lia].
Qed.

(* the generated flag selects the repaired loop *)
Lemma deck_draw_inclusive : DECK_DRAW_INCLUSIVE = true.
Proof. reflexivity. Qed.

Lemma draw_at_inclusive : forall d i, draw_at d i = draw_at_with true d i.
Proof. intros d i. unfold draw_at. rewrite deck_draw_inclusive. reflexivity. Qed.

(* ---------- nseq' ---------- *)

Lemma nseq'_length : forall n, length (nseq' n) = N.to_nat n.
Proof. intros n. unfold nseq'. rewrite map_length, seq_length. reflexivity. Qed.

Lemma nseq'_nth : forall n k dflt, (k < N.to_nat n)%nat -> nth k (nseq' n) dflt = N.of_nat k.
Proof.
  intros n k dflt Hk. unfold nseq'.
  rewrite (nth_indep _ dflt (N.of_nat 0)) by (rewrite map_length, seq_length; exact Hk).
  rewrite map_nth, seq_nth by exact Hk. reflexivity.
Qed.

Lemma In_nseq' : forall n i, In i (nseq' n) <-> i < n.
Proof.
  intros n i. unfold nseq'. rewrite in_map_iff. split.
  - intros (k & Ek & Hk). apply in_seq in Hk. lia.
  - intros Hi. exists (N.to_nat i). split; [lia|]. apply in_seq. lia.
Qed.

(* ---------- bijection ---------- *)

Theorem C14_draw_bijective : forall d, d < 2 ^ 64 ->
  map (draw_at d) (nseq' (popcount64 d)) = set_bits64 d.
Proof.
  intros d Hd. apply nth_ext with (d := draw_at d 0) (d' := 0).
  - rewrite map_length, nseq'_length, popcount64_length, Nat2N.id. reflexivity.
  - intros k Hk. rewrite map_length, nseq'_length in Hk.
    rewrite map_nth, nseq'_nth by exact Hk.
    rewrite draw_at_inclusive, C14_draw_is_nth; [rewrite Nat2N.id; reflexivity | exact Hd | lia].
Qed.

Theorem C14_draw_each_card_once : forall d c, d < 2 ^ 64 -> In c (set_bits64 d) ->
  exists! i, i < popcount64 d /\ draw_at d i = c.
Proof.
  intros d c Hd Hc.
  destruct (In_nth _ _ 0 Hc) as (n & Hn & En).
  assert (Hn' : N.of_nat n < popcount64 d) by (rewrite popcount64_length; lia).
  exists (N.of_nat n). split.
  - split; [exact Hn'|].
    rewrite draw_at_inclusive, C14_draw_is_nth, Nat2N.id by assumption. exact En.
  - intros j (Hj & Ej). rewrite draw_at_inclusive, C14_draw_is_nth in Ej by assumption.
    assert (Ejn : N.to_nat j = n).
    { apply (proj1 (NoDup_nth (set_bits64 d) 0) (set_bits64_NoDup d));
        [rewrite popcount64_length in Hj; lia | exact Hn | rewrite Ej, En; reflexivity]. }
    lia.
Qed.

Theorem C14_draw_in_deck : forall d i, d < 2 ^ 64 -> i < popcount64 d ->
  N.testbit d (draw_at d i) = true.
Proof.
  intros d i Hd Hi. rewrite draw_at_inclusive, C14_draw_is_nth by assumption.
  apply set_bits64_testbit. apply nth_In. rewrite popcount64_length in Hi. lia.
Qed.

Theorem C14_draw_lt64 : forall d i, d < 2 ^ 64 -> i < popcount64 d -> draw_at d i < 64.
Proof.
  intros d i Hd Hi. apply (set_bits64_lt64 d). apply set_bits64_spec; [exact Hd|].
  apply C14_draw_in_deck; assumption.
Qed.

(* a uniformly distributed index gives a uniformly distributed card: every card of the deck is the
   image of exactly one of the popcount64 d indices, every other value of none *)
Theorem C14_draw_uniform : forall d c, d < 2 ^ 64 ->
  count_occ N.eq_dec (map (draw_at d) (nseq' (popcount64 d))) c
  = if N.testbit d c then 1%nat else 0%nat.
Proof.
  intros d c Hd. rewrite C14_draw_bijective by exact Hd.
  destruct (N.testbit d c) eqn:Hc.
  - apply (proj1 (NoDup_count_occ' N.eq_dec (set_bits64 d)) (set_bits64_NoDup d)).
    apply set_bits64_spec; assumption.
  - apply count_occ_not_In. intros Hin. apply set_bits64_spec in Hin; [|exact Hd]. congruence.
Qed.

Theorem C14_every_card_drawable : forall d c, d < 2 ^ 64 -> N.testbit d c = true ->
  exists i, i < popcount64 d /\ draw_at d i = c.
Proof.
  intros d c Hd Hc.
  destruct (C14_draw_each_card_once d c Hd) as (i & Hi & _); [apply set_bits64_spec; assumption|].
  exists i. exact Hi.
Qed.

(* the full 52-card deck: every card can be the first card dealt *)
Theorem C14_full_deck_first_card : forall c, c < 52 ->
  exists i, i < 52 /\ draw_at HAND_MASK_STD i = c.
Proof.
  intros c Hc.
  assert (Hm : HAND_MASK_STD < 2 ^ 64) by (vm_compute; reflexivity).
  assert (Hp : popcount64 HAND_MASK_STD = 52) by (vm_compute; reflexivity).
  rewrite <- Hp. apply C14_every_card_drawable; [exact Hm|].
  change HAND_MASK_STD with (N.ones 52). apply N.ones_spec_low. exact Hc.
Qed.

(* ---------- removal ---------- *)

Lemma remove_card_clearbit : forall d c, d < 2 ^ 64 -> remove_card d c = N.clearbit d c.
Proof.
  intros d c Hd. apply N.bits_inj. intros k. unfold remove_card.
  rewrite N.land_spec, N.lxor_spec, N.shiftl_1_l, N.pow2_bits_eqb, N.clearbit_eqb.
  change 18446744073709551615 with (N.ones 64).
  destruct (N.lt_ge_cases k 64) as [Hlt | Hge].
  - rewrite N.ones_spec_low by exact Hlt. rewrite xorb_true_r. reflexivity.
  - rewrite (testbit_high_lt d 64 k Hd Hge). reflexivity.
Qed.

Lemma popcount64_clearbit : forall d c, d < 2 ^ 64 -> N.testbit d c = true ->
  popcount64 (N.clearbit d c) + 1 = popcount64 d.
Proof.
  intros d c Hd Hc.
  pose proof (clearbit_lt d c 64 Hd) as Hd'.
  assert (HP : Permutation (c :: set_bits64 (N.clearbit d c)) (set_bits64 d)).
  { apply NoDup_Permutation.
    - constructor; [|apply set_bits64_NoDup].
      intros Hin. apply set_bits64_testbit in Hin. rewrite N.clearbit_eq in Hin. discriminate.
    - apply set_bits64_NoDup.
    - intros k. rewrite (set_bits64_spec d k Hd). cbn [In].
      rewrite (set_bits64_spec _ k Hd'), N.clearbit_iff. split.
      + intros [E | (H & _)]; [subst k; exact Hc | exact H].
      + intros Hk. destruct (N.eq_dec c k) as [E | NE]; [left; exact E | right; split; assumption]. }
  apply Permutation_length in HP. cbn [length] in HP.
  rewrite !popcount64_length. lia.
Qed.

Theorem C14_draw_removes : forall d i, d < 2 ^ 64 -> i < popcount64 d ->
  let (c, d') := draw d i in
  N.testbit d' c = false /\
  (forall k, k <> c -> N.testbit d' k = N.testbit d k) /\
  popcount64 d' = popcount64 d - 1.
Proof.
  intros d i Hd Hi. unfold draw. cbv zeta.
  pose proof (C14_draw_in_deck d i Hd Hi) as Hc.
  rewrite remove_card_clearbit by exact Hd.
  split; [apply N.clearbit_eq|]. split.
  - intros k Hk. apply N.clearbit_neq. congruence.
  - pose proof (popcount64_clearbit d _ Hd Hc) as Hp. lia.
Qed.

(* ---------- successive draws ---------- *)

Lemma draws_spec : forall is d cs d', d < 2 ^ 64 -> draws_ok d is -> draws d is = (cs, d') ->
  d' < 2 ^ 64 /\ NoDup cs /\ Forall (fun c => N.testbit d c = true) cs /\
  length cs = length is /\
  (forall k, N.testbit d' k = N.testbit d k && negb (existsb (N.eqb k) cs)) /\
  popcount64 d' + N.of_nat (length is) = popcount64 d.
Proof.
  induction is as [|i r IH]; intros d cs d' Hd Hok E.
  - cbn [draws] in E. injection E as Ecs Ed. subst cs d'.
    split; [exact Hd|]. split; [constructor|]. split; [constructor|]. split; [reflexivity|].
    split; [intros k; cbn [existsb negb]; rewrite andb_true_r; reflexivity|].
    cbn [length N.of_nat]. lia.
  - cbn [draws_ok] in Hok. destruct Hok as (Hi & Hok).
    cbn [draws] in E. unfold draw in E, Hok. cbv zeta in E. cbn [snd] in Hok.
    pose proof (C14_draw_in_deck d i Hd Hi) as Hc.
    rewrite remove_card_clearbit in E, Hok by exact Hd.
    set (c := draw_at d i) in *.
    pose proof (clearbit_lt d c 64 Hd) as Hd1.
    destruct (draws (N.clearbit d c) r) as [cs1 d2] eqn:E1.
    injection E as Ecs Ed. subst cs d'.
    destruct (IH _ _ _ Hd1 Hok E1) as (Hd2 & Hnd & Hfa & Hlen & Hbits & Hpc).
    rewrite Forall_forall in Hfa.
    split; [exact Hd2|]. split; [|split; [|split; [|split]]].
    + constructor; [|exact Hnd]. intros Hin. specialize (Hfa _ Hin).
      rewrite N.clearbit_eq in Hfa. discriminate.
    + constructor; [exact Hc|]. apply Forall_forall. intros k Hk. specialize (Hfa _ Hk).
      apply N.clearbit_iff in Hfa. tauto.
    + cbn [length]. rewrite Hlen. reflexivity.
    + intros k. rewrite Hbits, N.clearbit_eqb. cbn [existsb].
      rewrite negb_orb, (N.eqb_sym k c), andb_assoc. reflexivity.
    + pose proof (popcount64_clearbit d c Hd Hc) as Hp. cbn [length]. lia.
Qed.

Theorem C14_draws_distinct : forall d is, d < 2 ^ 64 -> draws_ok d is ->
  NoDup (fst (draws d is)) /\
  Forall (fun c => N.testbit d c = true) (fst (draws d is)) /\
  length (fst (draws d is)) = length is.
Proof.
  intros d is Hd Hok. destruct (draws d is) as [cs d'] eqn:E. cbn [fst].
  destruct (draws_spec is d cs d' Hd Hok E) as (_ & H1 & H2 & H3 & _).
  split; [exact H1|]. split; [exact H2 | exact H3].
Qed.

(* the deck left after the draws is the original deck minus exactly the drawn cards *)
Theorem C14_draws_remaining : forall d is, d < 2 ^ 64 -> draws_ok d is ->
  (forall k, N.testbit (snd (draws d is)) k
             = N.testbit d k && negb (existsb (N.eqb k) (fst (draws d is)))) /\
  popcount64 (snd (draws d is)) = popcount64 d - N.of_nat (length is).
Proof.
  intros d is Hd Hok. destruct (draws d is) as [cs d'] eqn:E. cbn [fst snd].
  destruct (draws_spec is d cs d' Hd Hok E) as (_ & _ & _ & _ & H4 & H5).
  split; [exact H4 | lia].
Qed.

(* a simple sufficient condition for draws_ok: the j-th index is below size - j *)
Lemma draws_ok_of_bounds : forall is d, d < 2 ^ 64 ->
  (forall j, (j < length is)%nat -> nth j is 0 + N.of_nat j < popcount64 d) -> draws_ok d is.
Proof.
  induction is as [|i r IH]; intros d Hd Hb.
  - exact I.
  - cbn [draws_ok].
    assert (Hi : i < popcount64 d).
    { specialize (Hb 0%nat). cbn [length nth N.of_nat] in Hb. lia. }
    split; [exact Hi|].
    unfold draw. cbv zeta. cbn [snd]. rewrite remove_card_clearbit by exact Hd.
    apply IH; [apply clearbit_lt; exact Hd|].
    intros j Hj.
    pose proof (popcount64_clearbit d _ Hd (C14_draw_in_deck d i Hd Hi)) as Hp.
    specialize (Hb (S j)). cbn [length nth] in Hb. lia.
Qed.

(* Deck::hole: two successive draws give two different cards of the deck *)
Theorem C14_hole_distinct : forall d i j, d < 2 ^ 64 -> i < popcount64 d -> j + 1 < popcount64 d ->
  exists a b, fst (draws d [i; j]) = [a; b] /\ a <> b /\
              N.testbit d a = true /\ N.testbit d b = true.
Proof.
  intros d i j Hd Hi Hj.
  assert (Hok : draws_ok d [i; j]).
  { apply draws_ok_of_bounds; [exact Hd|]. intros k Hk. cbn [length] in Hk.
    destruct k as [|[|k]]; cbn [nth N.of_nat]; lia. }
  destruct (C14_draws_distinct d [i; j] Hd Hok) as (Hnd & Hfa & Hlen).
  destruct (fst (draws d [i; j])) as [|a [|b [|x l]]]; cbn [length] in Hlen; try discriminate.
  exists a, b. split; [reflexivity|].
  inversion Hnd as [|a' l' Hnin _]; subst.
  inversion Hfa as [|a' l' Ha Hfb]; subst. inversion Hfb as [|b' l'' Hb _]; subst.
  split; [|split; assumption].
  intros E. apply Hnin. left. symmetry. exact E.
Qed.

(* ---------- the original loop (`ones < i`) is not a bijection ---------- *)

Example C14_needs_inclusive :
  popcount64 11 = 3 /\ set_bits64 11 = [0; 1; 3] /\
  draw_at_with false 11 0 = 0 /\ draw_at_with false 11 1 = 0 /\ draw_at_with false 11 2 = 1 /\
  ~ In 3 (map (draw_at_with false 11) (nseq' (popcount64 11))) /\
  map (draw_at_with true 11) (nseq' (popcount64 11)) = [0; 1; 3].
Proof.
  vm_compute. repeat split; try reflexivity. intros [H | [H | [H | []]]]; discriminate.
Qed.

(* hypotheses satisfiable: a 3-card deck (cards 0, 1, 3) *)
Example C14_draw_hyps_sat :
  11 < 2 ^ 64 /\ 2 < popcount64 11 /\ draw_at 11 2 = 3 /\ In 3 (set_bits64 11) /\
  draw 11 2 = (3, 3) /\ draws_ok 11 [2; 0; 0] /\ draws 11 [2; 0; 0] = ([3; 0; 1], 0).
Proof. vm_compute. repeat split; try reflexivity. right. right. left. reflexivity. Qed.
