(* Proofs/C17_Examples.v -- concrete tables showing that the hypotheses of C17/C18 are satisfiable,
   with their bytes; and the witness that the prefix theorem needs the strict EOF rule. *)
From Coq Require Import NArith ZArith List Bool.
From RP Require Import Base.Bits Gen.GenTables Model.Codec Model.Pgcopy.
From RP Require Import Spec.SpecCodec Spec.SpecPgcopy Spec.SpecTables.
From RP Require Proofs.C15_Examples.
Import ListNotations.
Open Scope N_scope.

(* ---------- metric ---------- *)
Definition ex_metric : list kv := [([5], [1065353216]); ([2 ^ 63 + 7], [3212836864])].

Lemma ex_metric_wf : wf_metric_table ex_metric.
Proof.
  repeat constructor.
  - exists 5, 1065353216. repeat split; reflexivity.
  - exists (2 ^ 63 + 7), 3212836864. repeat split; reflexivity.
Qed.
Lemma ex_metric_sorted : sorted_strict ex_metric.
Proof. vm_compute. repeat split. Qed.
Lemma ex_metric_bytes : save_metric ex_metric =
  [80; 71; 67; 79; 80; 89; 10; 255; 13; 10; 0; 0; 0; 0; 0; 0; 0; 0; 0;
   0; 2; 0; 0; 0; 8; 0; 0; 0; 0; 0; 0; 0; 5; 0; 0; 0; 4; 63; 128; 0; 0;
   0; 2; 0; 0; 0; 8; 128; 0; 0; 0; 0; 0; 0; 7; 0; 0; 0; 4; 191; 128; 0; 0;
   255; 255].
Proof. vm_compute. reflexivity. Qed.

(* ---------- lookup ---------- *)
Definition ex_lookup : list kv :=
  [([2 ^ 51 + 1; 2 ^ 50 + 2 ^ 49 + 14], [208930551408939025]); ([2 ^ 51 + 2 ^ 50; 0], [0])].

Lemma ex_lookup_wf : wf_lookup_table ex_lookup.
Proof.
  repeat constructor.
  - exists (2 ^ 51 + 1), (2 ^ 50 + 2 ^ 49 + 14), 208930551408939025.
    split; [reflexivity|]. split; [exact C15_Examples.ex_obs_wf|]. split; [reflexivity|].
    vm_compute. discriminate.
  - exists (2 ^ 51 + 2 ^ 50), 0, 0.
    split; [reflexivity|]. split; [exact C15_Examples.ex_obs0_wf|]. split; [reflexivity|].
    vm_compute. discriminate.
Qed.
Lemma ex_lookup_sorted : sorted_strict ex_lookup.
Proof. vm_compute. repeat split. Qed.
Lemma ex_lookup_bytes : save_lookup ex_lookup =
  [80; 71; 67; 79; 80; 89; 10; 255; 13; 10; 0; 0; 0; 0; 0; 0; 0; 0; 0;
   0; 2; 0; 0; 0; 8; 0; 2; 3; 4; 50; 51; 1; 52; 0; 0; 0; 8; 2; 230; 69; 58; 195; 116; 208; 17;
   0; 2; 0; 0; 0; 8; 0; 0; 0; 0; 0; 0; 51; 52; 0; 0; 0; 8; 0; 0; 0; 0; 0; 0; 0; 0;
   255; 255].
Proof. vm_compute. reflexivity. Qed.

(* ---------- profile ---------- *)
Definition ex_profile : list kv :=
  [([33; 1; 121870505085349893; 1602; 3; 0; 0], [1065353216; 1056964608]);
   ([33; 1; 121870505085349893; 1602; 4; 32769; 32770], [3212836864; 1048576000])].

Lemma ex_profile_wf : wf_profile_table ex_profile.
Proof.
  repeat constructor.
  - exists 33, 1, 121870505085349893, 1602, 3, 0, 0, 1065353216, 1056964608, ECall.
    repeat split; vm_compute; reflexivity.
  - exists 33, 1, 121870505085349893, 1602, 4, 32769, 32770, 3212836864, 1048576000, (ERaise 1 2).
    repeat split; vm_compute; reflexivity.
Qed.
Lemma ex_profile_sorted : sorted_strict ex_profile.
Proof. vm_compute. repeat split. Qed.
Lemma ex_profile_bytes : save_profile ex_profile =
  [80; 71; 67; 79; 80; 89; 10; 255; 13; 10; 0; 0; 0; 0; 0; 0; 0; 0; 0;
   0; 6; 0; 0; 0; 8; 0; 0; 0; 0; 0; 0; 0; 33; 0; 0; 0; 8; 1; 176; 248; 148; 36; 53; 176; 5;
         0; 0; 0; 8; 0; 0; 0; 0; 0; 0; 6; 66; 0; 0; 0; 8; 0; 0; 0; 0; 0; 0; 0; 3;
         0; 0; 0; 4; 63; 128; 0; 0; 0; 0; 0; 4; 63; 0; 0; 0;
   0; 6; 0; 0; 0; 8; 0; 0; 0; 0; 0; 0; 0; 33; 0; 0; 0; 8; 1; 176; 248; 148; 36; 53; 176; 5;
         0; 0; 0; 8; 0; 0; 0; 0; 0; 0; 6; 66; 0; 0; 0; 8; 0; 0; 0; 0; 0; 0; 16; 12;
         0; 0; 0; 4; 191; 128; 0; 0; 0; 0; 0; 4; 62; 128; 0; 0;
   255; 255].
Proof. vm_compute. reflexivity. Qed.

(* ---------- transitions ---------- *)
Definition ex_transitions : list (list N) :=
  [[121870505085349893; 208930551408939025; 1065353216]; [2 ^ 64 - 1; 0; 2 ^ 32 - 1]].
Lemma ex_transitions_wf : Forall wf_transitions_row ex_transitions.
Proof.
  repeat constructor.
  - exists 121870505085349893, 208930551408939025, 1065353216. repeat split; reflexivity.
  - exists (2 ^ 64 - 1), 0, (2 ^ 32 - 1). repeat split; reflexivity.
Qed.

(* ---------- the prefix theorem needs the strict EOF rule ---------- *)
Definition ex_metric5 : list kv := [([1], [10]); ([2], [20]); ([3], [30]); ([4], [40]); ([5], [50])].

Lemma needs_strict_eof :
  exists t n, wf_metric_table t /\ sorted_strict t /\ (n < length (save_metric t))%nat /\
    load_with (lax metric_layout) metric_decode (firstn n (save_metric t)) = LOk (firstn 3 t) /\
    (length (firstn 3 t) < length t)%nat /\
    load_metric (firstn n (save_metric t)) = LError.
Proof.
  exists ex_metric5, 85%nat. split.
  { repeat constructor.
    - exists 1, 10. repeat split; reflexivity.
    - exists 2, 20. repeat split; reflexivity.
    - exists 3, 30. repeat split; reflexivity.
    - exists 4, 40. repeat split; reflexivity.
    - exists 5, 50. repeat split; reflexivity. }
  split; [vm_compute; repeat split|].
  split; [vm_compute; repeat constructor|].
  split; [vm_compute; reflexivity|].
  split; [vm_compute; repeat constructor|].
  vm_compute. reflexivity.
Qed.
