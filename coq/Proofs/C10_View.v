(* Proofs/C10_View.v -- property C10: the bucket of a node does not depend on the hole cards of the
   seats that are not to act.  The menu (Game::choices) does not look at hole cards at all
   (legal_public, choices_public); so when the abstraction depends on the acting seat's cards and
   the public state only (abs_own_cards), so does Node::realize (realize_same_view), at every node
   of the sampled tree (bucket_own_cards). *)
From Coq Require Import ZArith NArith List Bool Lia.
From RP Require Import Base.Bits Gen.GenLib Gen.GenFixes Model.Codec Model.Showdown Model.Game
                       Model.Tree Model.Sample
                       Spec.SpecGameInv Spec.SpecTree Spec.SpecSample
                       Proofs.C10_Grow.
Import ListNotations.
Open Scope Z_scope.

(* ---------- wiping the hole cards changes nothing the betting rules look at ---------- *)
Lemma map_wipe : forall (A : Type) (f : seat -> A), (forall s, f (wipe_seat s) = f s) ->
  forall l, map f (map wipe_seat l) = map f l.
Proof. intros A f Hf l. rewrite map_map. apply map_ext. exact Hf. Qed.

Lemma filter_wipe : forall (f : seat -> bool), (forall s, f (wipe_seat s) = f s) ->
  forall l, filter f (map wipe_seat l) = map wipe_seat (filter f l).
Proof.
  intros f Hf l. induction l as [|s l IH]; [reflexivity|].
  cbn [map filter]. rewrite Hf. destruct (f s); cbn [map]; rewrite IH; reflexivity.
Qed.

Lemma forallb_wipe : forall (f : seat -> bool), (forall s, f (wipe_seat s) = f s) ->
  forall l, forallb f (map wipe_seat l) = forallb f l.
Proof.
  intros f Hf l. induction l as [|s l IH]; [reflexivity|]. cbn [map forallb]. rewrite Hf, IH. reflexivity.
Qed.

Lemma pp_seats : forall g, seats (public_part g) = map wipe_seat (seats g).
Proof. reflexivity. Qed.
Lemma pp_street : forall g, street (public_part g) = street g.
Proof. reflexivity. Qed.
Lemma pp_actor_idx : forall g, actor_idx (public_part g) = actor_idx g.
Proof. reflexivity. Qed.
Lemma pp_actor : forall g, actor (public_part g) = wipe_seat (actor g).
Proof.
  intros g. unfold actor. rewrite pp_actor_idx, pp_seats.
  change dseat with (wipe_seat dseat) at 1. apply map_nth.
Qed.
Lemma pp_live : forall g, live (public_part g) = map wipe_seat (live g).
Proof. intros g. unfold live. rewrite pp_seats. apply filter_wipe. reflexivity. Qed.
Lemma pp_effective_stake : forall g, effective_stake (public_part g) = effective_stake g.
Proof. intros g. unfold effective_stake. rewrite pp_seats, map_wipe by reflexivity. reflexivity. Qed.
Lemma pp_to_call : forall g, to_call (public_part g) = to_call g.
Proof. intros g. unfold to_call. rewrite pp_effective_stake, pp_actor. reflexivity. Qed.
Lemma pp_to_shove : forall g, to_shove (public_part g) = to_shove g.
Proof. intros g. unfold to_shove. rewrite pp_actor. reflexivity. Qed.
Lemma pp_to_raise : forall g, to_raise (public_part g) = to_raise g.
Proof. intros g. unfold to_raise. rewrite pp_live, map_wipe by reflexivity. rewrite pp_actor. reflexivity. Qed.
Lemma pp_folding : forall g, is_everyone_folding (public_part g) = is_everyone_folding g.
Proof. intros g. unfold is_everyone_folding. rewrite pp_live, map_length. reflexivity. Qed.
Lemma pp_shoving : forall g, is_everyone_shoving (public_part g) = is_everyone_shoving g.
Proof. intros g. unfold is_everyone_shoving. rewrite pp_live. apply forallb_wipe. reflexivity. Qed.
Lemma pp_matched : forall g, is_everyone_matched (public_part g) = is_everyone_matched g.
Proof.
  intros g. unfold is_everyone_matched. rewrite pp_effective_stake, pp_seats.
  rewrite filter_wipe by reflexivity. apply forallb_wipe. reflexivity.
Qed.
Lemma pp_alright : forall g, is_everyone_alright (public_part g) = is_everyone_alright g.
Proof.
  intros g. unfold is_everyone_alright, is_everyone_calling. rewrite pp_matched, pp_folding, pp_shoving. reflexivity.
Qed.
Lemma pp_must_stop : forall g, must_stop (public_part g) = must_stop g.
Proof. intros g. unfold must_stop. rewrite pp_street, pp_alright, pp_folding. reflexivity. Qed.
Lemma pp_must_deal : forall g, must_deal (public_part g) = must_deal g.
Proof. intros g. unfold must_deal. rewrite pp_street, pp_alright. reflexivity. Qed.
Lemma pp_must_post : forall g, must_post (public_part g) = must_post g.
Proof. reflexivity. Qed.

Lemma legal_public : forall g, legal (public_part g) = legal g.
Proof.
  intros g. unfold legal, may_raise, may_shove, may_call, may_fold, may_check.
  rewrite pp_must_stop, pp_must_deal, pp_must_post, pp_to_raise, pp_to_shove, pp_to_call, pp_effective_stake, pp_actor.
  reflexivity.
Qed.

Lemma turn_public : forall g, turn_of (public_part g) = turn_of g.
Proof. intros g. unfold turn_of. rewrite pp_must_stop, pp_must_deal, pp_actor_idx. reflexivity. Qed.

Lemma choices_public : forall g n, choices (public_part g) n = choices g n.
Proof. intros g n. unfold choices. rewrite legal_public. reflexivity. Qed.

(* ---------- two states that look the same to the player to act ---------- *)
Lemma same_view_menu : forall g g' h, same_view g g' -> node_menu g h = node_menu g' h.
Proof.
  intros g g' h [Hpub _]. unfold node_menu.
  rewrite <- (choices_public g), <- (choices_public g'), Hpub. reflexivity.
Qed.
Lemma same_view_turn : forall g g', same_view g g' -> turn_of g = turn_of g'.
Proof. intros g g' [Hpub _]. rewrite <- (turn_public g), <- (turn_public g'), Hpub. reflexivity. Qed.

Theorem realize_same_view : forall abs g g' h, abs_own_cards abs -> same_view g g' ->
  realize abs g h = realize abs g' h.
Proof.
  intros abs g g' h Habs Hv. unfold realize, bucket_paths.
  rewrite (same_view_menu g g' h Hv), (Habs g g' Hv). reflexivity.
Qed.

(* at every node of the sampled tree: a state that differs from the node's only in the hole cards
   of the seats not to act gets the very same bucket *)
Theorem bucket_own_cards : forall d hs g0 abs pick deal walker fuel h g t,
  abs_own_cards abs ->
  wf_holes d hs -> root d hs = Some g0 -> tree_path d g0 h g ->
  grow d abs pick deal fuel walker g h = Some t ->
  forall s g', In s (subtrees t) -> same_view (s_game s) g' ->
    realize abs g' (s_history s) = Some (n_bucket (root_node s)).
Proof.
  intros d hs g0 abs pick deal walker fuel h g t Habs Hwf Hroot Hp Hg s g' Hs Hv.
  destruct (grow_sound d hs g0 abs pick deal walker fuel h g t Hwf Hroot Hp Hg s Hs) as (_ & _ & _ & Hbk & _).
  rewrite <- (realize_same_view abs (s_game s) g' (s_history s) Habs Hv). exact Hbk.
Qed.

(* an abstraction that reads the acting seat's cards and the board is of this kind *)
Lemma abs_of_own_cards : forall (f : N -> N -> N),
  abs_own_cards (fun g => f (cards (actor g)) (board g)).
Proof.
  intros f g g' [Hpub Hc]. cbv beta. rewrite Hc. f_equal.
  change (board g) with (board (public_part g)). rewrite Hpub. reflexivity.
Qed.
