(* Proofs/C02_Inv.v -- the strengthened chip invariant game_inv (Spec/SpecSettle.v) holds at the
   root and is preserved by every accepted action; consequences: chips_inv, bounds, equal
   commitments at a showdown. *)
From Coq Require Import ZArith NArith List Bool Lia ZifyBool.
From RP Require Import Base.Bits Gen.GenLib Gen.GenStreet Gen.GenFixes
                       Model.Codec Model.Evaluator Model.Showdown Model.Game
                       Spec.SpecGameInv Spec.SpecSettle Proofs.C02_Basics.
Import ListNotations.
Open Scope Z_scope.

(* the part of game_inv that only depends on the two seats and the pot *)
Definition sinv2 (a b : seat) (p : Z) : Prop :=
  seat_ok a /\ seat_ok b /\
  p = spent a + spent b /\
  0 < spent a /\ 0 < spent b /\
  S_BLIND + B_BLIND <= p /\
  (st a <> Folding -> st b <> Folding -> spent a - stake a = spent b - stake b) /\
  (st a = Folding -> st b <> Folding /\ spent a <= spent b) /\
  (st b = Folding -> st a <> Folding /\ spent b <= spent a).

Lemma game_inv_iff : forall g,
  game_inv g <->
  exists a b, seats g = [a; b] /\ dealer g = 0 /\ sinv2 a b (pot g)
              /\ (is_everyone_alright g = false -> st (actor g) = Betting).
Proof.
  intros g. unfold game_inv, sinv2. split.
  - intros (a & b & H). exists a, b. tauto.
  - intros (a & b & H). exists a, b. tauto.
Qed.

Lemma sinv2_sym : forall a b p, sinv2 a b p -> sinv2 b a p.
Proof.
  intros a b p (H1 & H2 & H3 & H4 & H5 & H6 & H7 & H8 & H9).
  unfold sinv2.
  split; [exact H2|]. split; [exact H1|]. split; [lia|]. split; [exact H5|]. split; [exact H4|].
  split; [exact H6|]. split; [|split; assumption].
  intros Hb Ha. symmetry. apply H7; assumption.
Qed.

(* the first seat bets c > 0 *)
Lemma sinv2_bet : forall a b p c a',
  sinv2 a b p -> st a = Betting -> st b <> Folding -> 0 < c -> c <= stack a ->
  stack a' = stack a - c -> stake a' = stake a + c -> spent a' = spent a + c ->
  (stack a' = 0 /\ st a' = Shoving) \/ (stack a' <> 0 /\ st a' = st a) ->
  sinv2 a' b (p + c).
Proof.
  intros a b p c a' (Ha & Hb & Hp & Hsa & Hsb & Hbl & Heq & Hfa & Hfb) Hst Hlb Hc Hle Hk He Hp' Hcase.
  unfold seat_ok in Ha. destruct Ha as (A1 & A2 & A3 & A4 & A5 & A6).
  assert (Hlive' : st a' <> Folding).
  { destruct Hcase as [(_ & E) | (_ & E)]; rewrite E; [|rewrite Hst]; discriminate. }
  unfold sinv2.
  split; [|split; [exact Hb|split; [lia|split; [lia|split; [lia|split; [lia|split; [|split]]]]]]].
  - unfold seat_ok. split; [lia|]. split; [lia|]. split; [lia|]. split; [lia|]. split.
    + destruct Hcase as [(E0 & _) | (E0 & E)]; [intros _; exact E0|].
      intros E'. rewrite E, Hst in E'. discriminate E'.
    + destruct Hcase as [(_ & E) | (E0 & _)]; [intros _; rewrite E; discriminate|].
      intros E'. contradiction.
  - intros _ Hb'. assert (Hla : st a <> Folding) by (rewrite Hst; discriminate).
    specialize (Heq Hla Hb'). lia.
  - intros E. contradiction.
  - intros E. contradiction.
Qed.

(* the first seat folds facing a bet *)
Lemma sinv2_fold : forall a b p a',
  sinv2 a b p -> st a <> Folding -> st b <> Folding -> stake a < stake b ->
  st a' = Folding -> stack a' = stack a -> stake a' = stake a -> spent a' = spent a ->
  sinv2 a' b p.
Proof.
  intros a b p a' (Ha & Hb & Hp & Hsa & Hsb & Hbl & Heq & Hfa & Hfb) Hla Hlb Hlt Hst Hk He Hp'.
  unfold seat_ok in Ha. destruct Ha as (A1 & A2 & A3 & A4 & A5 & A6).
  specialize (Heq Hla Hlb).
  unfold sinv2.
  split; [|split; [exact Hb|split; [lia|split; [lia|split; [lia|split; [lia|split; [|split]]]]]]].
  - unfold seat_ok. rewrite Hst, Hk, He, Hp'.
    split; [lia|]. split; [lia|]. split; [lia|]. split; [lia|]. split; intros; discriminate.
  - intros E. contradiction.
  - intros _. split; [exact Hlb | lia].
  - intros E. contradiction.
Qed.

(* a closed betting round between two live seats: both have committed the same amount *)
Lemma alright_spent_eq : forall g a b,
  seats g = [a; b] -> sinv2 a b (pot g) -> is_everyone_alright g = true ->
  st a <> Folding -> st b <> Folding -> spent a = spent b.
Proof.
  intros g a b Hs (Ha & Hb & Hp & Hsa & Hsb & Hbl & Heq & Hfa & Hfb) Hal Hla Hlb.
  specialize (Heq Hla Hlb).
  destruct Ha as (A1 & A2 & A3 & A4 & A5 & A6). destruct Hb as (B1 & B2 & B3 & B4 & B5 & B6).
  unfold is_everyone_alright, is_everyone_calling, is_everyone_folding, is_everyone_shoving,
         is_everyone_matched in Hal.
  rewrite (live_two g a b Hs), (effective_stake_two g a b Hs), Hs in Hal.
  destruct (st a) eqn:Ea; [| |contradiction]; (destruct (st b) eqn:Eb; [| |contradiction]);
    cbn [negb sstate_eqb app length filter forallb Nat.eqb] in Hal; rewrite ?Ea, ?Eb in Hal;
    cbn [negb sstate_eqb app length filter forallb Nat.eqb] in Hal;
    try specialize (A5 eq_refl); try specialize (B5 eq_refl);
    destruct (is_everyone_touched g); cbn [andb orb] in Hal; lia.
Qed.

(* both seats live unless the hand stopped on a fold *)
Lemma not_folding_live : forall g a b,
  seats g = [a; b] -> sinv2 a b (pot g) -> is_everyone_folding g = false ->
  st a <> Folding /\ st b <> Folding.
Proof.
  intros g a b Hs (_ & _ & _ & _ & _ & _ & _ & Hfa & Hfb) Hf.
  unfold is_everyone_folding in Hf. rewrite (live_two g a b Hs) in Hf.
  destruct (st a) eqn:Ea, (st b) eqn:Eb; cbn in Hf; try discriminate Hf;
    try (split; discriminate).
  destruct (Hfa eq_refl) as (C & _). contradiction.
Qed.

(* ---------- bet ---------- *)
Lemma bet_shape_0 : forall g a b c g1,
  seats g = [a; b] -> actor_idx g = 0 -> bet g c = Some g1 ->
  c <= stack a /\
  exists a', seats g1 = [a'; b] /\ pot g1 = pot g + c /\ board g1 = board g /\ dealer g1 = dealer g
    /\ ticker g1 = ticker g
    /\ stack a' = stack a - c /\ stake a' = stake a + c /\ spent a' = spent a + c /\ cards a' = cards a
    /\ ((stack a' = 0 /\ st a' = Shoving) \/ (stack a' <> 0 /\ st a' = st a)).
Proof.
  intros g a b c g1 Hs Hi H. unfold bet in H.
  rewrite (actor_at_0 g a b Hs Hi) in H.
  destruct (stack a <? c) eqn:E; [discriminate H|]. split; [lia|].
  rewrite (upd_actor_at_0 g a b _ Hs Hi) in H.
  match type of H with context [stack (actor ?g1)] =>
    rewrite (actor_at_0 g1 _ _ eq_refl Hi) in H;
    rewrite (upd_actor_at_0 g1 _ _ _ eq_refl Hi) in H
  end.
  cbn [st stack stake spent cards] in H.
  destruct (stack a - c =? 0) eqn:E0; injection H as H; subst g1;
    eexists; cbn [seats pot board dealer ticker set_seats];
    (split; [reflexivity|]); cbn [st stack stake spent cards];
    repeat split; try reflexivity; [left | right]; split; try reflexivity; lia.
Qed.

Lemma bet_shape_1 : forall g a b c g1,
  seats g = [a; b] -> actor_idx g = 1 -> bet g c = Some g1 ->
  c <= stack b /\
  exists b', seats g1 = [a; b'] /\ pot g1 = pot g + c /\ board g1 = board g /\ dealer g1 = dealer g
    /\ ticker g1 = ticker g
    /\ stack b' = stack b - c /\ stake b' = stake b + c /\ spent b' = spent b + c /\ cards b' = cards b
    /\ ((stack b' = 0 /\ st b' = Shoving) \/ (stack b' <> 0 /\ st b' = st b)).
Proof.
  intros g a b c g1 Hs Hi H. unfold bet in H.
  rewrite (actor_at_1 g a b Hs Hi) in H.
  destruct (stack b <? c) eqn:E; [discriminate H|]. split; [lia|].
  rewrite (upd_actor_at_1 g a b _ Hs Hi) in H.
  match type of H with context [stack (actor ?g1)] =>
    rewrite (actor_at_1 g1 _ _ eq_refl Hi) in H;
    rewrite (upd_actor_at_1 g1 _ _ _ eq_refl Hi) in H
  end.
  cbn [st stack stake spent cards] in H.
  destruct (stack b - c =? 0) eqn:E0; injection H as H; subst g1;
    eexists; cbn [seats pot board dealer ticker set_seats];
    (split; [reflexivity|]); cbn [st stack stake spent cards];
    repeat split; try reflexivity; [left | right]; split; try reflexivity; lia.
Qed.

(* a positive bet by the actor of an open round, followed by next_player *)
Lemma bet_step : forall g c g1 g',
  game_inv g -> is_everyone_alright g = false -> 0 < c ->
  bet g c = Some g1 -> next_player g1 = Some g' -> game_inv g'.
Proof.
  intros g c g1 g' Hg Hal Hc Hbet Hnp.
  apply game_inv_iff in Hg. destruct Hg as (a & b & Hs & Hd & Hinv & Hact).
  specialize (Hact Hal).
  destruct (not_alright_two g a b Hs Hal) as (Hla & Hlb & _).
  destruct (next_player_spec _ _ Hnp) as (Ns & Np & _ & Nd & Nact).
  apply game_inv_iff.
  destruct (actor_idx_01 g) as [Hi | Hi].
  - rewrite (actor_at_0 g a b Hs Hi) in Hact.
    destruct (bet_shape_0 g a b c g1 Hs Hi Hbet) as (Hle & a' & Bs & Bp & _ & Bd & _ & Bk & Be & Bsp & _ & Bcase).
    exists a', b. rewrite Ns, Np, Nd, Bs, Bp, Bd.
    split; [reflexivity|]. split; [exact Hd|]. split; [|exact Nact].
    exact (sinv2_bet a b (pot g) c a' Hinv Hact Hlb Hc Hle Bk Be Bsp Bcase).
  - rewrite (actor_at_1 g a b Hs Hi) in Hact.
    destruct (bet_shape_1 g a b c g1 Hs Hi Hbet) as (Hle & b' & Bs & Bp & _ & Bd & _ & Bk & Be & Bsp & _ & Bcase).
    exists a, b'. rewrite Ns, Np, Nd, Bs, Bp, Bd.
    split; [reflexivity|]. split; [exact Hd|]. split; [|exact Nact].
    apply sinv2_sym. exact (sinv2_bet b a (pot g) c b' (sinv2_sym _ _ _ Hinv) Hact Hla Hc Hle Bk Be Bsp Bcase).
Qed.

(* the minimum raise of an open round is positive *)
Lemma to_raise_pos : forall g, game_inv g -> is_everyone_alright g = false -> 0 < to_raise g.
Proof.
  intros g Hg Hal.
  apply game_inv_iff in Hg. destruct Hg as (a & b & Hs & Hd & Hinv & Hact).
  destruct (not_alright_two g a b Hs Hal) as (Hla & Hlb & _).
  destruct Hinv as (Ha & Hb & _).
  destruct Ha as (_ & _ & A3 & _). destruct Hb as (_ & _ & B3 & _).
  unfold to_raise. rewrite (live_two g a b Hs).
  destruct (st a) eqn:Ea; [| |contradiction]; (destruct (st b) eqn:Eb; [| |contradiction]);
    cbn [negb sstate_eqb app map]; rewrite (two_largest_two _ _ A3 B3);
    pose proof blinds_pos as HB;
    (destruct (actor_idx_01 g) as [Hi | Hi];
      [rewrite (actor_at_0 g a b Hs Hi) | rewrite (actor_at_1 g a b Hs Hi)]); lia.
Qed.

(* ---------- fold ---------- *)
Lemma fold_step : forall g g',
  game_inv g -> is_everyone_alright g = false -> 0 < to_call g ->
  next_player (fold_actor g) = Some g' -> game_inv g'.
Proof.
  intros g g' Hg Hal Hc Hnp.
  apply game_inv_iff in Hg. destruct Hg as (a & b & Hs & Hd & Hinv & Hact).
  destruct (not_alright_two g a b Hs Hal) as (Hla & Hlb & _).
  destruct (next_player_spec _ _ Hnp) as (Ns & Np & _ & Nd & Nact).
  unfold to_call in Hc. rewrite (effective_stake_two g a b Hs) in Hc.
  apply game_inv_iff. unfold fold_actor in Ns, Np, Nd. cbn [set_seats seats pot dealer] in Ns, Np, Nd.
  destruct (actor_idx_01 g) as [Hi | Hi].
  - rewrite (actor_at_0 g a b Hs Hi) in Hc. rewrite (upd_actor_at_0 g a b _ Hs Hi) in Ns.
    eexists _, b. rewrite Ns, Np, Nd.
    split; [reflexivity|]. split; [exact Hd|]. split; [|exact Nact].
    eapply (sinv2_fold a b); try eassumption; try reflexivity. lia.
  - rewrite (actor_at_1 g a b Hs Hi) in Hc. rewrite (upd_actor_at_1 g a b _ Hs Hi) in Ns.
    eexists a, _. rewrite Ns, Np, Nd.
    split; [reflexivity|]. split; [exact Hd|]. split; [|exact Nact].
    apply sinv2_sym. eapply (sinv2_fold b a); try eassumption; try reflexivity.
    + apply sinv2_sym. exact Hinv.
    + lia.
Qed.

(* ---------- check ---------- *)
Lemma check_step : forall g g', game_inv g -> next_player g = Some g' -> game_inv g'.
Proof.
  intros g g' Hg Hnp.
  apply game_inv_iff in Hg. destruct Hg as (a & b & Hs & Hd & Hinv & Hact).
  destruct (next_player_spec _ _ Hnp) as (Ns & Np & _ & Nd & Nact).
  apply game_inv_iff. exists a, b. rewrite Ns, Np, Nd.
  split; [exact Hs|]. split; [exact Hd|]. split; [exact Hinv|exact Nact].
Qed.

(* ---------- draw ---------- *)
Lemma sinv2_reset : forall a b p,
  sinv2 a b p -> (st a <> Folding -> st b <> Folding -> spent a = spent b) ->
  sinv2 (mkSeat (st a) (stack a) 0 (spent a) (cards a)) (mkSeat (st b) (stack b) 0 (spent b) (cards b)) p.
Proof.
  intros a b p (Ha & Hb & Hp & Hsa & Hsb & Hbl & Heq & Hfa & Hfb) Hsp.
  destruct Ha as (A1 & A2 & A3 & A4 & A5 & A6). destruct Hb as (B1 & B2 & B3 & B4 & B5 & B6).
  unfold sinv2, seat_ok. cbn [st stack stake spent cards].
  repeat split; try assumption; try lia; try tauto.
  intros X Y. specialize (Hsp X Y). lia.
Qed.

Lemma alright_reset_shoving : forall g,
  is_everyone_shoving g = true -> is_everyone_alright (reset_stakes g) = true.
Proof.
  intros g H. unfold is_everyone_alright.
  replace (is_everyone_shoving (reset_stakes g)) with true; [apply orb_true_r|].
  symmetry. unfold is_everyone_shoving, live in *. unfold reset_stakes. cbn [set_seats seats].
  revert H. induction (seats g) as [|s l IH]; intros H.
  - reflexivity.
  - cbn [map filter st] in *. destruct (negb (sstate_eqb (st s) Folding)).
    + cbn [forallb st] in *. apply andb_true_iff in H. destruct H as (H1 & H2).
      rewrite H1. cbn [andb]. apply IH. exact H2.
    + apply IH. exact H.
Qed.

Lemma actor_reset_st : forall g, st (actor (reset_stakes g)) = st (actor g).
Proof.
  intros g. unfold actor, reset_stakes. cbn [set_seats seats].
  change (actor_idx (mkGame (map (fun s => mkSeat (st s) (stack s) 0 (spent s) (cards s)) (seats g))
                            (pot g) (board g) (dealer g) (ticker g))) with (actor_idx g).
  change dseat with ((fun s => mkSeat (st s) (stack s) 0 (spent s) (cards s)) dseat) at 1.
  rewrite map_nth. reflexivity.
Qed.

Lemma draw_step : forall g b' g2,
  game_inv g -> must_stop g = false -> must_deal g = true ->
  next_player (mkGame (seats g) (pot g) b' (dealer g) (dealer g)) = Some g2 ->
  game_inv (reset_stakes g2).
Proof.
  intros g bd g2 Hg Hst Hdl Hnp.
  apply game_inv_iff in Hg. destruct Hg as (a & b & Hs & Hd & Hinv & Hact).
  unfold must_stop in Hst. unfold must_deal in Hdl.
  destruct (street g =? 3); [discriminate Hdl|].
  destruct (not_folding_live g a b Hs Hinv Hst) as (Hla & Hlb).
  pose proof (alright_spent_eq g a b Hs Hinv Hdl Hla Hlb) as Hsp.
  destruct (next_player_spec _ _ Hnp) as (Ns & Np & _ & Nd & _).
  cbn [seats pot dealer] in Ns, Np, Nd.
  apply game_inv_iff.
  exists (mkSeat (st a) (stack a) 0 (spent a) (cards a)), (mkSeat (st b) (stack b) 0 (spent b) (cards b)).
  split; [|split; [|split]].
  - unfold reset_stakes. cbn [set_seats seats]. rewrite Ns, Hs. reflexivity.
  - unfold reset_stakes. cbn [set_seats dealer]. rewrite Nd. exact Hd.
  - unfold reset_stakes. cbn [set_seats pot]. rewrite Np. apply sinv2_reset; [exact Hinv|]. intros _ _. exact Hsp.
  - intros Hal'. rewrite actor_reset_st.
    destruct (next_player_cases _ _ Hnp) as [(Hal1 & E) | (_ & E)]; [|exact E].
    exfalso. subst g2.
    (* the freshly dealt state is closed only when both seats are all-in *)
    assert (Hsh : is_everyone_shoving (mkGame (seats g) (pot g) bd (dealer g) (dealer g)) = true).
    { unfold is_everyone_alright in Hal1.
      assert (Hc : is_everyone_calling (mkGame (seats g) (pot g) bd (dealer g) (dealer g)) = false).
      { unfold is_everyone_calling, is_everyone_touched, nplayers. cbn [ticker]. rewrite Hd, N_PLAYERS_two.
        destruct (street (mkGame (seats g) (pot g) bd 0 0) =? 0); reflexivity. }
      assert (Hf : is_everyone_folding (mkGame (seats g) (pot g) bd (dealer g) (dealer g)) = false) by exact Hst.
      rewrite Hc, Hf in Hal1. exact Hal1. }
    rewrite (alright_reset_shoving _ Hsh) in Hal'. discriminate Hal'.
Qed.

(* ---------- the one-step invariant ---------- *)
Lemma game_inv_not_post : forall g, game_inv g -> must_post g = false.
Proof.
  intros g (a & b & _ & _ & _ & _ & _ & _ & _ & Hbl & _).
  unfold must_post. destruct (street g =? 0); [apply Z.ltb_ge; exact Hbl | reflexivity].
Qed.

Theorem game_inv_step : forall d g a g', game_inv g -> apply d g a = Some g' -> game_inv g'.
Proof.
  intros d g a g' Hg H. unfold apply in H.
  destruct (is_allowed d g a) as [[|]|] eqn:Hal; try discriminate H.
  destruct a as [h | | c | | c | c | c]; cbn [act_unchecked] in H.
  - destruct (allowed_draw _ _ _ Hal) as (Hst & Hdl & _).
    destruct (hand_add (board g) h) as [bd|]; [|discriminate H].
    destruct (next_player (mkGame (seats g) (pot g) bd (dealer g) (dealer g))) as [g2|] eqn:Hnp; [|discriminate H].
    injection H as H. subst g'. eapply draw_step; eassumption.
  - destruct (allowed_fold _ _ Hal) as (Hst & Hdl & _ & Hc).
    eapply fold_step; try eassumption. apply must_flags_alright; assumption.
  - destruct (allowed_call _ _ _ Hal) as (Hst & Hdl & _ & _ & Hc).
    destruct (bet g c) as [g1|] eqn:Hb; [|discriminate H].
    exact (bet_step g c g1 g' Hg (must_flags_alright g Hst Hdl) Hc Hb H).
  - eapply check_step; eassumption.
  - destruct (allowed_raise _ _ _ Hal) as (Hst & Hdl & _ & Hr & _).
    destruct (bet g c) as [g1|] eqn:Hb; [|discriminate H].
    pose proof (must_flags_alright g Hst Hdl) as Hna.
    pose proof (to_raise_pos g Hg Hna) as Hp.
    assert (Hc : 0 < c) by lia.
    exact (bet_step g c g1 g' Hg Hna Hc Hb H).
  - destruct (allowed_shove _ _ _ Hal) as (Hst & Hdl & _ & _ & Hc).
    destruct (bet g c) as [g1|] eqn:Hb; [|discriminate H].
    exact (bet_step g c g1 g' Hg (must_flags_alright g Hst Hdl) Hc Hb H).
  - destruct (allowed_blind _ _ _ Hal) as (_ & Hp).
    rewrite (game_inv_not_post g Hg) in Hp. discriminate Hp.
Qed.

(* ---------- the root ---------- *)
Lemma root_shape : forall d a b,
  root d [a; b] = Some (mkGame [mkSeat Betting (STACK - B_BLIND) B_BLIND B_BLIND a;
                                mkSeat Betting (STACK - S_BLIND) S_BLIND S_BLIND b]
                               (S_BLIND + B_BLIND) 0%N 0 3).
Proof. intros d a b. vm_compute. reflexivity. Qed.

Lemma game_inv_root : forall d hs, wf_holes d hs -> exists g0, root d hs = Some g0 /\ game_inv g0.
Proof.
  intros d hs (a & b & E & _). subst hs.
  eexists. split; [apply root_shape|].
  apply game_inv_iff. eexists _, _. cbn [seats dealer pot].
  split; [reflexivity|]. split; [reflexivity|]. split.
  - unfold sinv2, seat_ok. cbn [st stack stake spent]. pose proof blinds_pos as HB.
    repeat split; try lia; try discriminate.
  - intros _. vm_compute. reflexivity.
Qed.

Lemma game_inv_run : forall d acts g g', game_inv g -> run d g acts = Some g' -> game_inv g'.
Proof.
  intros d acts. induction acts as [|a r IH]; intros g g' Hg H.
  - cbn [run] in H. injection H as H. subst g'. exact Hg.
  - cbn [run] in H. destruct (apply d g a) as [g1|] eqn:E; [|discriminate H].
    eapply IH; [|exact H]. eapply game_inv_step; eassumption.
Qed.

Theorem game_inv_reachable : forall d hs g, wf_holes d hs -> reachable d hs g -> game_inv g.
Proof.
  intros d hs g Hw (g0 & acts & Hr & Hrun).
  destruct (game_inv_root d hs Hw) as (g0' & Hr' & Hg0).
  rewrite Hr in Hr'. injection Hr' as Hr'. subst g0'.
  eapply game_inv_run; eassumption.
Qed.

(* ---------- consequences ---------- *)
Lemma game_inv_chips : forall g, game_inv g -> chips_inv g.
Proof.
  intros g (a & b & Hs & _ & Ha & Hb & Hp & _).
  unfold chips_inv. rewrite Hs. split; [reflexivity|]. split.
  - constructor; [exact Ha|]. constructor; [exact Hb|]. constructor.
  - rewrite Hp. unfold sumZ. cbn [map fold_left]. lia.
Qed.

Lemma game_inv_pot_bounds : forall g, game_inv g -> 0 <= pot g <= N_PLAYERS * STACK.
Proof.
  intros g (a & b & _ & _ & Ha & Hb & Hp & Hsa & Hsb & _).
  destruct Ha as (A1 & A2 & _). destruct Hb as (B1 & B2 & _).
  rewrite N_PLAYERS_two. lia.
Qed.

Lemma chips_fit_i16 : N_PLAYERS * STACK < 2 ^ (CHIPS_BITS - 1).
Proof. reflexivity. Qed.

Theorem no_overflow_reachable : forall d hs g, wf_holes d hs -> reachable d hs g ->
  0 <= pot g <= N_PLAYERS * STACK /\ N_PLAYERS * STACK < 2 ^ (CHIPS_BITS - 1).
Proof.
  intros d hs g Hw Hr. split; [|exact chips_fit_i16].
  apply game_inv_pot_bounds. eapply game_inv_reachable; eassumption.
Qed.

Theorem rejected_unchanged : forall d g a, is_allowed d g a <> Some true -> apply d g a = None.
Proof.
  intros d g a H. unfold apply. destruct (is_allowed d g a) as [[|]|]; [contradiction | reflexivity | reflexivity].
Qed.

(* chips_inv alone is not inductive: a state that has not posted its blinds accepts any `Blind c` *)
Theorem chips_step_plain_false :
  ~ (forall d g a g', chips_inv g -> apply d g a = Some g' -> chips_inv g').
Proof.
  intros H.
  set (g := mkGame [mkSeat Betting STACK 0 0 3%N; mkSeat Betting STACK 0 0 12%N] 0 0%N 0 1).
  assert (Hg : chips_inv g).
  { unfold chips_inv, g. cbn [seats pot]. split; [reflexivity|]. split.
    - constructor; [|constructor; [|constructor]]; unfold seat_ok; cbn [st stack stake spent];
        (repeat split; try discriminate; try (vm_compute; discriminate); try reflexivity).
    - reflexivity. }
  destruct (apply Standard g (Blind (-5))) as [g'|] eqn:E; [|vm_compute in E; discriminate E].
  specialize (H Standard g (Blind (-5)) g' Hg E).
  revert E. vm_compute. intros E. injection E as E. subst g'.
  destruct H as (_ & Hf & _). inversion Hf as [|x l Hx Hl]; subst.
  inversion Hl as [|y l' Hy Hl']; subst.
  destruct Hy as (_ & _ & Hy & _). vm_compute in Hy. apply Hy. reflexivity.
Qed.

Theorem chips_root : forall d hs, wf_holes d hs -> exists g0, root d hs = Some g0 /\ chips_inv g0.
Proof.
  intros d hs Hw. destruct (game_inv_root d hs Hw) as (g0 & Hr & Hg).
  exists g0. split; [exact Hr | apply game_inv_chips; exact Hg].
Qed.

Theorem chips_reachable : forall d hs g, wf_holes d hs -> reachable d hs g -> chips_inv g.
Proof. intros d hs g Hw Hr. apply game_inv_chips. eapply game_inv_reachable; eassumption. Qed.

(* after the root nobody posts again: every `Blind c` is rejected *)
Theorem no_post_reachable : forall d hs g c, wf_holes d hs -> reachable d hs g ->
  must_post g = false /\ apply d g (Blind c) = None.
Proof.
  intros d hs g c Hw Hr. pose proof (game_inv_reachable d hs g Hw Hr) as Hg.
  pose proof (game_inv_not_post g Hg) as Hp. split; [exact Hp|].
  apply rejected_unchanged. intros Hal. destruct (allowed_blind _ _ _ Hal) as (_ & Hp').
  rewrite Hp in Hp'. discriminate Hp'.
Qed.
