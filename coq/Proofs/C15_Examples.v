(* Proofs/C15_Examples.v -- concrete witnesses showing that the hypotheses of the C15 theorems
   are satisfiable by non-trivial values. *)
From Coq Require Import NArith ZArith List Bool Lia.
From RP Require Import Base.Bits Gen.GenAbstract Gen.GenCards Model.Codec Spec.SpecCodec.
Import ListNotations.
Open Scope N_scope.

Ltac in_edges := repeat (first [left; reflexivity | right]).
Ltac all_in_edges := repeat (first [apply Forall_nil | apply Forall_cons; [in_edges|]]).

(* a river observation: pocket {2c, As}, board {2d, 2h, 2s, Ah, Kc}-like bit pattern *)
Definition ex_obs : obs := mkObs (2 ^ 51 + 1) (2 ^ 50 + 2 ^ 49 + 14).
(* a preflop observation *)
Definition ex_obs0 : obs := mkObs (2 ^ 51 + 2 ^ 50) 0.

Lemma ex_obs_wf : wf_obs ex_obs.
Proof.
  unfold wf_obs, ex_obs. cbn [pocket public].
  split; [vm_compute; reflexivity|]. split; [vm_compute; reflexivity|].
  split; [vm_compute; reflexivity|]. split; [vm_compute; reflexivity|].
  right; right; right. vm_compute; reflexivity.
Qed.

Lemma ex_obs0_wf : wf_obs ex_obs0.
Proof.
  unfold wf_obs, ex_obs0. cbn [pocket public].
  split; [vm_compute; reflexivity|]. split; [vm_compute; reflexivity|].
  split; [vm_compute; reflexivity|]. split; [vm_compute; reflexivity|].
  left. vm_compute; reflexivity.
Qed.

Lemma ex_card : 51 < 52.
Proof. reflexivity. Qed.

Definition ex_hand_short : N := 2 ^ 51 + 2 ^ 16.
Lemma ex_hand_short_ok : N.land ex_hand_short (hand_mask Short) = ex_hand_short.
Proof. vm_compute; reflexivity. Qed.

Lemma ex_hand64 : 2 ^ 63 + 5 < 2 ^ 64.
Proof. vm_compute; reflexivity. Qed.

Lemma ex_action_raise_wf : wf_action (Raise (-32768)).
Proof. cbn [wf_action]. lia. Qed.

Lemma ex_action_blind_wf : wf_action (Blind 32767).
Proof. cbn [wf_action]. lia. Qed.

Lemma ex_action_draw_wf : wf_action (Draw (2 ^ 51 + 2 ^ 50 + 1)).
Proof. cbn [wf_action]. split; [vm_compute; reflexivity | vm_compute; discriminate]. Qed.

Lemma ex_edge_in : In (ERaise 4 1) all_edges.
Proof. cbv [all_edges GRID PREF_RAISES map app fst snd In]. in_edges. Qed.

Definition ex_path : list edge :=
  [ERaise 1 4; EFold; EShove; ECall; ERaise 4 1; EDraw; ECheck; ERaise 3 2;
   ERaise 1 1; EDraw; ECheck; ECheck; ERaise 2 3; ECall; EDraw; EShove].

Lemma ex_path_len : (length ex_path <= 16)%nat.
Proof. cbn [ex_path length]. lia. Qed.

Lemma ex_path_in : Forall (fun e => In e all_edges) ex_path.
Proof.
  unfold ex_path. cbv [all_edges GRID PREF_RAISES map app fst snd In]. all_in_edges.
Qed.

Lemma ex_abs : 2 <= 3 /\ 4095 < 4096.
Proof. split; [discriminate | reflexivity]. Qed.
