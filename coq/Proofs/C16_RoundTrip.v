(* Proofs/C16_RoundTrip.v -- property C16, part 2: every value's printed form parses back to
   an equal value. *)
From Coq Require Import NArith ZArith List Bool Lia ZifyBool.
From RP Require Import Base.Bits Gen.GenLib Gen.GenFixes Model.Codec Model.Parse
                       Spec.SpecCodec Spec.SpecParseVariants.
From RP Require Import Proofs.BitsLemmas Proofs.C15_Finite Proofs.C15_Hand
                       Proofs.C16_Total Proofs.C16_Strings.
Import ListNotations.
Open Scope N_scope.

Arguments N.add : simpl never. Arguments N.mul : simpl never. Arguments N.sub : simpl never.
Arguments N.div : simpl never. Arguments N.modulo : simpl never. Arguments N.pow : simpl never.
Arguments N.shiftl : simpl never. Arguments N.shiftr : simpl never.
Arguments N.land : simpl never. Arguments N.lor : simpl never.

(* ---------- card (finite check over the 52 cards) ---------- *)
(* a printed card parses back, and its two characters are neither whitespace nor '~' *)
Definition okc (c : N) : bool := negb (is_ws c) && negb (c =? 126).
Definition card_check (c : N) : bool :=
  match parse_card (print_card c) with POk c' => c' =? c | _ => false end
  && forallb okc (print_card c).

Lemma card_all : forallb card_check (nseq (N.to_nat 52) 0) = true.
Proof. vm_compute. reflexivity. Qed.

Lemma card_check_lt : forall c, c < 52 -> card_check c = true.
Proof. intros c Hc. exact (proj1 (forallb_forall _ _) card_all c (nseq_In_N 52 c Hc)). Qed.

Lemma rt_card : forall c, c < 52 -> parse_card (print_card c) = POk c.
Proof.
  intros c Hc. pose proof (card_check_lt c Hc) as H. unfold card_check in H.
  apply andb_true_iff in H. destruct H as [H _].
  destruct (parse_card (print_card c)) as [c'| |]; try discriminate.
  apply N.eqb_eq in H. subst c'. reflexivity.
Qed.

Lemma okc_spec : forall c, okc c = true -> nonws c /\ c <> 126.
Proof.
  intros c H. unfold okc in H. apply andb_true_iff in H. destruct H as [H1 H2].
  apply negb_true_iff in H1. apply negb_true_iff in H2. apply N.eqb_neq in H2.
  split; assumption.
Qed.

Lemma print_card_okc : forall c, c < 52 -> Forall (fun x => okc x = true) (print_card c).
Proof.
  intros c Hc. pose proof (card_check_lt c Hc) as H. unfold card_check in H.
  apply andb_true_iff in H. destruct H as [_ H]. apply Forall_forall. apply forallb_forall. exact H.
Qed.

(* ---------- street, turn ---------- *)
Lemma rt_street : forall z, (0 <= z <= 3)%Z -> parse_street (print_street z) = POk z.
Proof.
  intros z Hz. assert (Hc : (z = 0 \/ z = 1 \/ z = 2 \/ z = 3)%Z) by lia.
  destruct Hc as [Hc|[Hc|[Hc|Hc]]]; subst z; reflexivity.
Qed.

Lemma rt_turn : forall t, wf_turn t ->
  parse_turn (print_turn t) = POk t.
Proof.
  intros t Ht. destruct t as [| |i]; [reflexivity|reflexivity|].
  cbn [wf_turn] in Ht. cbn [print_turn]. rewrite parse_turn_eq.
  rewrite str_eqb_head_neq by lia. rewrite str_eqb_head_neq by lia.
  change (80 =? 80) with true. cbv iota.
  rewrite parse_unsigned_print_nat by exact Ht. reflexivity.
Qed.

(* ---------- hand ---------- *)
Lemma print_hand_cards_okc : forall cs, Forall (fun c => c < 52) cs ->
  Forall (fun x => okc x = true) (flat_map print_card cs).
Proof.
  induction cs as [|c cs IH]; intros Hcs; cbn [flat_map]; [constructor|].
  inversion Hcs as [|c' cs' Hc Hcs']; subst c' cs'. apply Forall_app. split.
  - apply print_card_okc. exact Hc.
  - apply IH. exact Hcs'.
Qed.

Lemma print_hand_okc : forall h, h < 2 ^ 52 -> Forall (fun x => okc x = true) (print_hand h).
Proof. intros h Hh. unfold print_hand. apply print_hand_cards_okc. apply hand_cards_bound. exact Hh. Qed.

Lemma print_hand_nonws : forall h, h < 2 ^ 52 -> Forall nonws (print_hand h).
Proof.
  intros h Hh. eapply Forall_impl; [|apply print_hand_okc; exact Hh].
  intros c Hc. apply okc_spec. exact Hc.
Qed.

Lemma print_hand_no_tilde : forall h, h < 2 ^ 52 -> Forall (fun c => c <> 126) (print_hand h).
Proof.
  intros h Hh. eapply Forall_impl; [|apply print_hand_okc; exact Hh].
  intros c Hc. apply okc_spec. exact Hc.
Qed.

Lemma chunks2_print : forall cs, chunks2 (flat_map print_card cs) = map print_card cs.
Proof.
  induction cs as [|c cs IH]; cbn [flat_map map]; [reflexivity|].
  unfold print_card at 1. cbn [app chunks2]. rewrite IH. reflexivity.
Qed.

Lemma parse_token_print : forall cs, Forall (fun c => c < 52) cs ->
  parse_token (flat_map print_card cs) = POk cs.
Proof.
  intros cs Hcs. unfold parse_token. rewrite chunks2_print.
  induction cs as [|c cs IH]; cbn [map fold_right]; [reflexivity|].
  inversion Hcs as [|c' cs' Hc Hcs']; subst c' cs'.
  rewrite rt_card by exact Hc. rewrite IH by exact Hcs'. reflexivity.
Qed.

Lemma parse_hand_split : forall s1 s2, split_ws s1 = split_ws s2 -> parse_hand s1 = parse_hand s2.
Proof. intros s1 s2 H. unfold parse_hand. rewrite H. reflexivity. Qed.

Lemma rt_hand : forall h, h < 2 ^ 52 -> parse_hand (print_hand h) = POk h.
Proof.
  intros h Hh. pose proof (print_hand_nonws h Hh) as Hnw.
  assert (Hh64 : h < 2 ^ 64) by (apply pow2_52_64; exact Hh).
  pose proof (hand_cards_mask h Hh64) as Hmask.
  pose proof (hand_cards_bound h 52 Hh) as Hb.
  unfold parse_hand. rewrite (split_ws_word_opt _ Hnw).
  destruct (print_hand h) as [|x r] eqn:Hp.
  - cbn [fold_left]. unfold print_hand in Hp.
    destruct (hand_cards h) as [|c cs].
    + unfold mask_of_bits in Hmask. cbn [fold_left] in Hmask. rewrite Hmask. reflexivity.
    + cbn [flat_map] in Hp. unfold print_card at 1 in Hp. cbn [app] in Hp. discriminate Hp.
  - rewrite <- Hp. cbn [fold_left]. unfold print_hand. rewrite parse_token_print by exact Hb.
    unfold mask_of_bits in Hmask. rewrite Hmask. reflexivity.
Qed.

Lemma rt_hole : forall h, h < 2 ^ 52 -> hand_size h = 2 -> parse_hole (print_hand h) = POk h.
Proof.
  intros h Hh Hs. unfold parse_hole. rewrite rt_hand by exact Hh. rewrite Hs. reflexivity.
Qed.

(* ---------- observation ---------- *)
Lemma print_hand_nonnil : forall h, hand_size h <> 0 -> print_hand h <> [].
Proof.
  intros h Hs. rewrite hand_size_length in Hs. unfold print_hand.
  destruct (hand_cards h) as [|c cs]; [cbn [length] in Hs; lia|].
  cbn [flat_map]. unfold print_card at 1. cbn [app]. discriminate.
Qed.

Lemma rt_obs : forall o, wf_obs o -> parse_obs (print_obs o) = POk o.
Proof.
  intros [pk pb] (Hpk & Hpb & Hdisj & Hs2 & Hsn). cbn [pocket public] in *.
  set (P := print_hand pk). set (Q := print_hand pb).
  assert (HPnw : Forall nonws P) by (apply print_hand_nonws; exact Hpk).
  assert (HQnw : Forall nonws Q) by (apply print_hand_nonws; exact Hpb).
  assert (HPnt : Forall (fun c => c <> 126) P) by (apply print_hand_no_tilde; exact Hpk).
  assert (HPne : P <> []) by (apply print_hand_nonnil; lia).
  assert (HpP : parse_hand (P ++ [32]) = POk pk).
  { rewrite <- (rt_hand pk Hpk). apply parse_hand_split.
    rewrite split_ws_word_sep by (try assumption; reflexivity).
    rewrite split_ws_nil. symmetry. apply split_ws_word_end; assumption. }
  assert (HpQ : parse_hand (32 :: Q) = POk pb).
  { rewrite <- (rt_hand pb Hpb). apply parse_hand_split. apply split_ws_ws. reflexivity. }
  assert (HPnt' : Forall (fun c => c <> 126) (P ++ [32])).
  { apply Forall_app. split; [exact HPnt|]. constructor; [lia|constructor]. }
  (* the two pieces around '~' *)
  assert (Hsplit : exists b, match split_once 126 (trim (print_obs (mkObs pk pb))) [] with
                             | Some p => p | None => (trim (print_obs (mkObs pk pb)), []) end
                             = (P ++ [32], b) /\ parse_hand b = POk pb).
  { unfold print_obs. cbn [pocket public]. fold P. fold Q.
    destruct Q as [|q Q'] eqn:HQ.
    - exists []. split; [|rewrite <- (rt_hand pb Hpb); fold Q; rewrite HQ; reflexivity].
      change (P ++ [32; 126; 32] ++ []) with (P ++ [32] ++ [126; 32]).
      rewrite trim_trailing by (try assumption; reflexivity).
      change (P ++ [32] ++ [126]) with (P ++ [32] ++ 126 :: []). rewrite app_assoc.
      rewrite split_once_app by exact HPnt'. reflexivity.
    - exists (32 :: q :: Q'). split; [|exact HpQ].
      rewrite trim_between by (try assumption; discriminate).
      change (P ++ [32; 126; 32] ++ q :: Q') with (P ++ [32] ++ 126 :: 32 :: q :: Q'). rewrite app_assoc.
      rewrite split_once_app by exact HPnt'. reflexivity. }
  destruct Hsplit as [b [Hsp Hb]].
  unfold parse_obs. cbv zeta. rewrite Hsp. rewrite HpP, Hb. rewrite flag_obs.
  rewrite Hs2. change (2 =? 2) with true.
  assert (Hn : (hand_size pb =? 0) || (hand_size pb =? 3) || (hand_size pb =? 4) || (hand_size pb =? 5) = true) by lia.
  rewrite Hn. rewrite Hdisj. reflexivity.
Qed.

(* ---------- action ---------- *)
Lemma w_nonws : Forall nonws w_call /\ Forall nonws w_raise /\ Forall nonws w_shove /\
                Forall nonws w_blind /\ Forall nonws w_deal.
Proof. repeat split; repeat constructor. Qed.

Lemma split_word_int : forall w z, Forall nonws w -> w <> [] ->
  split_ws (w ++ [32] ++ print_int z) = [w; print_int z] /\
  split_ws (w ++ [32; 32] ++ print_int z) = [w; print_int z].
Proof.
  intros w z Hw Hne. pose proof (print_int_nonws z) as Hz. pose proof (print_int_nonnil z) as Hzn.
  split.
  - cbn [app]. rewrite split_ws_word_sep by (try assumption; reflexivity).
    rewrite split_ws_word_end by assumption. reflexivity.
  - cbn [app]. rewrite split_ws_word_sep by (try assumption; reflexivity).
    rewrite split_ws_ws by reflexivity. rewrite split_ws_word_end by assumption. reflexivity.
Qed.

Definition parse_action_tail_deal (rest : list str) : pres action :=
  match parse_hand (join_sp rest) with POk h => POk (Draw h) | PErr => PErr | PPanic => PPanic end.

Lemma rt_action : forall a, wf_action' a -> parse_action (print_action a) = POk a.
Proof.
  intros a Hwf. destruct w_nonws as (Hcall & Hraise & Hshove & Hblind & Hdeal).
  destruct a as [h| |c| |c|c|c]; cbn [wf_action' print_action] in *.
  - (* Draw *)
    pose proof (print_hand_nonws h Hwf) as Hnw.
    assert (Hsp : exists rest, split_ws (w_deal ++ [32; 32] ++ print_hand h) = w_deal :: rest /\
                               join_sp rest = print_hand h).
    { cbn [app]. rewrite split_ws_word_sep by (try assumption; try reflexivity; discriminate).
      rewrite split_ws_ws by reflexivity. rewrite (split_ws_word_opt _ Hnw).
      destruct (print_hand h) as [|x r]; eexists; split; reflexivity. }
    destruct Hsp as [rest [Hsp Hj]].
    unfold parse_action. rewrite Hsp.
    change (parse_action_tail_deal rest = POk (Draw h)).
    unfold parse_action_tail_deal. rewrite Hj. rewrite rt_hand by exact Hwf. reflexivity.
  - reflexivity.
  - destruct (split_word_int w_call c Hcall) as [_ Hsp]; [discriminate|].
    unfold parse_action. rewrite Hsp.
    change (match parse_i16 (print_int c) with Some z => POk (Call z) | None => PErr end = POk (Call c)).
    rewrite parse_i16_print_int by exact Hwf. reflexivity.
  - reflexivity.
  - destruct (split_word_int w_raise c Hraise) as [Hsp _]; [discriminate|].
    unfold parse_action. rewrite Hsp.
    change (match parse_i16 (print_int c) with Some z => POk (Raise z) | None => PErr end = POk (Raise c)).
    rewrite parse_i16_print_int by exact Hwf. reflexivity.
  - destruct (split_word_int w_shove c Hshove) as [Hsp _]; [discriminate|].
    unfold parse_action. rewrite Hsp.
    change (match parse_i16 (print_int c) with Some z => POk (Shove z) | None => PErr end = POk (Shove c)).
    rewrite parse_i16_print_int by exact Hwf. reflexivity.
  - destruct (split_word_int w_blind c Hblind) as [Hsp _]; [discriminate|].
    unfold parse_action. rewrite Hsp.
    change (match parse_i16 (print_int c) with Some z => POk (Blind z) | None => PErr end = POk (Blind c)).
    rewrite parse_i16_print_int by exact Hwf. reflexivity.
Qed.

(* ---------- abstraction (finite check over the 4 x 4096 buckets) ---------- *)
Definition abs_parse_check (s i : N) : bool :=
  match abs_make s i with
  | Some a => match parse_abs (print_abs a) with POk a' => abs_eqb a' a | _ => false end
  | None => false
  end.

Lemma abs_parse_all :
  forallb (fun s => forallb (abs_parse_check s) (nseq (N.to_nat 4096) 0)) (nseq (N.to_nat 4) 0) = true.
Proof. vm_cast_no_check (eq_refl true). Qed.

Lemma rt_abs : forall s i, s <= 3 -> i < 4096 ->
  forall a, abs_make s i = Some a -> parse_abs (print_abs a) = POk a.
Proof.
  intros s i Hs Hi a Ha.
  assert (Hs' : s < 4) by lia.
  pose proof (proj1 (forallb_forall _ _) abs_parse_all s (nseq_In_N 4 s Hs')) as H1.
  cbv beta in H1.
  pose proof (proj1 (forallb_forall _ _) H1 i (nseq_In_N 4096 i Hi)) as H.
  unfold abs_parse_check in H. rewrite Ha in H.
  destruct (parse_abs (print_abs a)) as [a'| |]; try discriminate.
  apply abs_eqb_eq in H. subst a'. reflexivity.
Qed.
