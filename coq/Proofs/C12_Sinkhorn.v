(* Proofs/C12_Sinkhorn.v -- log-domain Sinkhorn over exact reals: after a round the plan is positive and
   its column sums are the target densities (the rhs update solves exactly that equation). *)
From Coq Require Import NArith ZArith List Bool Reals Lra Lia.
From RP Require Import Gen.GenLib Model.Emd Spec.SpecTransport.
Import ListNotations.
Local Open Scope R_scope.

(* ---------- sums of reals (fsum is a left fold) ---------- *)
Lemma fold_left_Rplus : forall l a, fold_left Rplus l a = a + fold_left Rplus l 0.
Proof.
  induction l as [|b l IH]; intros a.
  - cbn. ring.
  - cbn [fold_left]. rewrite (IH (a + b)), (IH (0 + b)). ring.
Qed.

Lemma rsum_nil : rsum [] = 0.
Proof. reflexivity. Qed.

Lemma rsum_cons : forall a l, rsum (a :: l) = a + rsum l.
Proof. intros a l. unfold rsum, fsum. cbn [fold_left]. rewrite fold_left_Rplus. ring. Qed.

Lemma rsum_map_ext : forall (A : Type) (f g : A -> R) l,
  (forall x, In x l -> f x = g x) -> rsum (map f l) = rsum (map g l).
Proof.
  intros A f g l. induction l as [|a l IH]; intros H.
  - reflexivity.
  - cbn [map]. rewrite !rsum_cons, (H a (or_introl eq_refl)), IH; [reflexivity|].
    intros x Hx. apply H. now right.
Qed.

Lemma rsum_map_scal : forall (A : Type) (f : A -> R) c l,
  rsum (map (fun x => c * f x) l) = c * rsum (map f l).
Proof.
  intros A f c l. induction l as [|a l IH].
  - cbn [map]. rewrite !rsum_nil. ring.
  - cbn [map]. rewrite !rsum_cons, IH. ring.
Qed.

Lemma rsum_map_plus : forall (A : Type) (f g : A -> R) l,
  rsum (map (fun x => f x + g x) l) = rsum (map f l) + rsum (map g l).
Proof.
  intros A f g l. induction l as [|a l IH].
  - cbn [map]. rewrite !rsum_nil. ring.
  - cbn [map]. rewrite !rsum_cons, IH. ring.
Qed.

Lemma rsum_map_zero : forall (A : Type) (l : list A), rsum (map (fun _ => 0) l) = 0.
Proof.
  intros A l. induction l as [|a l IH].
  - reflexivity.
  - cbn [map]. rewrite rsum_cons, IH. ring.
Qed.

Lemma rsum_map_pos : forall (A : Type) (f : A -> R) l,
  l <> [] -> (forall x, In x l -> 0 < f x) -> 0 < rsum (map f l).
Proof.
  intros A f l. induction l as [|a l IH]; intros Hne H.
  - congruence.
  - cbn [map]. rewrite rsum_cons. pose proof (H a (or_introl eq_refl)) as Ha.
    destruct l as [|b l].
    + cbn [map]. rewrite rsum_nil. lra.
    + assert (0 < rsum (map f (b :: l))).
      { apply IH; [discriminate|]. intros x Hx. apply H. now right. }
      lra.
Qed.

Lemma rsum_map_le : forall (A : Type) (f g : A -> R) l,
  (forall x, In x l -> f x <= g x) -> rsum (map f l) <= rsum (map g l).
Proof.
  intros A f g l. induction l as [|a l IH]; intros H.
  - cbn [map]. rewrite !rsum_nil. lra.
  - cbn [map]. rewrite !rsum_cons. pose proof (H a (or_introl eq_refl)).
    assert (rsum (map f l) <= rsum (map g l)) by (apply IH; intros x Hx; apply H; now right).
    lra.
Qed.

Lemma rsum_swap : forall (A B : Type) (f : A -> B -> R) l1 l2,
  rsum (map (fun x => rsum (map (fun y => f x y) l2)) l1) =
  rsum (map (fun y => rsum (map (fun x => f x y) l1)) l2).
Proof.
  intros A B f l1 l2. induction l1 as [|a l1 IH].
  - cbn [map]. rewrite rsum_nil. symmetry. apply rsum_map_zero.
  - cbn [map]. rewrite rsum_cons, IH, <- rsum_map_plus. apply rsum_map_ext.
    intros y _. rewrite rsum_cons. reflexivity.
Qed.

(* ---------- the clamp ---------- *)
Lemma fmax_inactive : forall a m, m <= a -> fmax R rleb a m = a.
Proof.
  intros a m H. unfold fmax, rleb. destruct (Rle_dec a m) as [H'|H']; [lra|reflexivity].
Qed.

Section Sinkhorn.
Variables (temperature tolerance minpos : R) (dist : N -> N -> R).
Hypothesis dist_sym : forall a b, dist a b = dist b a.

Notation regR := (reg R Rdiv temperature dist).
Notation divR := (divergence R 0 Rplus Rminus Rdiv exp ln rleb temperature minpos dist).
Notation sinkR := (sinkhornR temperature tolerance minpos dist).
Notation rhsU := (rhs_updateR temperature minpos dist).
Notation lhsU := (lhs_updateR temperature minpos dist).
Notation cpl := (couplingR temperature dist).
Notation planr := (planR temperature dist).

Lemma reg_sym : forall a b, regR a b = regR b a.
Proof. intros a b. unfold reg. now rewrite dist_sym. Qed.

(* the loop returns the potentials of its last round: the rhs potentials are the update of the
   returned lhs potentials *)
Lemma sinkhorn_shape : forall t mu nu lhs rhs, (1 <= t)%nat ->
  exists rhs0, sinkR t mu nu lhs rhs = (lhsU mu rhs0, rhsU nu (lhsU mu rhs0)).
Proof.
  induction t as [|t IH]; intros mu nu lhs rhs Ht.
  - lia.
  - unfold sinkhornR. cbn [sinkhorn]. fold (sinkhornR temperature tolerance minpos dist).
    fold (lhsU mu rhs). fold (rhsU nu (lhsU mu rhs)).
    match goal with |- context [if ?c then _ else _] => destruct c end.
    + exists rhs. reflexivity.
    + destruct t as [|t'].
      * exists rhs. reflexivity.
      * apply IH. lia.
Qed.

Lemma lhsU_length : forall mu rhs, length (lhsU mu rhs) = length mu.
Proof. intros mu rhs. unfold lhs_updateR, lhs_update. apply map_length. Qed.

Lemma rhsU_length : forall nu lhs, length (rhsU nu lhs) = length nu.
Proof. intros nu lhs. unfold rhs_updateR, rhs_update. apply map_length. Qed.

Lemma coupling_pos : forall lr x y, 0 < cpl lr x y.
Proof. intros lr x y. unfold couplingR, coupling. apply exp_pos. Qed.

(* A plan entry for the updated potential of bucket yq: exp(rhs) * exp(lhs - reg) *)
Lemma column_sum_elem : forall lr (lhs : potential R) (yq : N * R),
  lhs <> [] -> 0 < snd yq ->
  (forall xp, In xp lhs -> minpos <= exp (snd xp - dist (fst yq) (fst xp) / temperature)) ->
  rsum (map (fun x => cpl lr x (fst yq, divR (fst yq) (snd yq) lhs)) lhs) = snd yq.
Proof.
  intros lr lhs [ky dy] Hne Hpos Hclamp. cbn [fst snd] in *.
  set (S := rsum (map (fun xp : N * R => exp (snd xp - regR ky (fst xp))) lhs)).
  assert (HS : 0 < S).
  { apply rsum_map_pos; [exact Hne|]. intros x _. apply exp_pos. }
  assert (Hdiv : divR ky dy lhs = ln dy - ln S).
  { unfold divergence. f_equal. f_equal. unfold S. fold rsum. apply rsum_map_ext.
    intros xp Hxp. apply fmax_inactive. unfold reg. apply Hclamp. exact Hxp. }
  rewrite Hdiv.
  rewrite (rsum_map_ext _ _ (fun x : N * R => (dy / S) * exp (snd x - regR ky (fst x)))).
  - rewrite rsum_map_scal. fold S. field. lra.
  - intros x _. unfold couplingR, coupling. cbn [fst snd].
    replace (snd x + (ln dy - ln S) - regR (fst x) ky)
      with ((ln dy + - ln S) + (snd x - regR ky (fst x))) by (rewrite (reg_sym (fst x) ky); ring).
    rewrite !exp_plus, exp_Ropp, !exp_ln by lra. reflexivity.
Qed.

Lemma clamp_inactive_elem : forall nu lhs yq, clamp_inactive temperature minpos dist nu lhs -> In yq nu ->
  forall xp, In xp lhs -> minpos <= exp (snd xp - dist (fst yq) (fst xp) / temperature).
Proof. intros nu lhs yq H Hy xp Hx. now apply H. Qed.

(* column j of the plan for potentials (lhs, rhs_update nu lhs) *)
Lemma column_of_plan : forall lhs rhs j, (j < length rhs)%nat ->
  column j (planr (lhs, rhs)) = map (fun x => cpl (lhs, rhs) x (nth j rhs (0%N, 0))) lhs.
Proof.
  intros lhs rhs j Hj. unfold column, planR, plan. cbn [fst snd]. rewrite map_map.
  apply map_ext. intros x. fold (couplingR temperature dist).
  rewrite (nth_indep _ 0 (cpl (lhs, rhs) x (0%N, 0))) by (rewrite map_length; exact Hj).
  apply (map_nth (fun y => cpl (lhs, rhs) x y)).
Qed.

Lemma plan_columns_update : forall nu lhs j, lhs <> [] -> positive_hist nu ->
  clamp_inactive temperature minpos dist nu lhs -> (j < length nu)%nat ->
  rsum (column j (planr (lhs, rhsU nu lhs))) = snd (nth j nu (0%N, 0)).
Proof.
  intros nu lhs j Hne Hnu Hcl Hj.
  rewrite column_of_plan by (rewrite rhsU_length; exact Hj).
  set (yq := nth j nu (0%N, 0)).
  assert (Hyq : In yq nu) by (apply nth_In; exact Hj).
  assert (Hn : nth j (rhsU nu lhs) (0%N, 0) = (fst yq, divR (fst yq) (snd yq) lhs)).
  { unfold rhs_updateR, rhs_update.
    rewrite (nth_indep _ (0%N, 0) ((fun yp : N * R => (fst yp, divR (fst yp) (snd yp) lhs)) (0%N, 0)))
      by (rewrite map_length; exact Hj).
    rewrite (map_nth (fun yp : N * R => (fst yp, divR (fst yp) (snd yp) lhs))). reflexivity. }
  rewrite Hn. apply column_sum_elem.
  - exact Hne.
  - unfold positive_hist in Hnu. rewrite Forall_forall in Hnu. now apply Hnu.
  - now apply (clamp_inactive_elem nu lhs yq Hcl Hyq).
Qed.

Lemma plan_total_update : forall nu lhs, lhs <> [] -> positive_hist nu ->
  clamp_inactive temperature minpos dist nu lhs ->
  rsum (map rsum (planr (lhs, rhsU nu lhs))) = rsum (map snd nu).
Proof.
  intros nu lhs Hne Hnu Hcl. unfold planR, plan. cbn [fst snd]. rewrite map_map.
  fold (couplingR temperature dist).
  rewrite (rsum_swap _ _ (fun x y => cpl (lhs, rhsU nu lhs) x y)).
  unfold rhs_updateR at 2, rhs_update. rewrite map_map.
  apply rsum_map_ext. intros yq Hyq. apply column_sum_elem.
  - exact Hne.
  - unfold positive_hist in Hnu. rewrite Forall_forall in Hnu. now apply Hnu.
  - now apply (clamp_inactive_elem nu lhs yq Hcl Hyq).
Qed.

Lemma lhsU_nonempty : forall mu rhs, mu <> [] -> lhsU mu rhs <> [].
Proof.
  intros mu rhs Hne E. apply Hne. apply length_zero_iff_nil.
  rewrite <- (lhsU_length mu rhs), E. reflexivity.
Qed.

(* C: the theorems about the potentials returned by the loop *)
Theorem plan_pos : forall lr, Forall (Forall (fun e => 0 < e)) (planr lr).
Proof.
  intros lr. unfold planR, plan. rewrite Forall_map. apply Forall_forall. intros x _.
  rewrite Forall_map. apply Forall_forall. intros y _. apply exp_pos.
Qed.

Theorem plan_shape : forall lr, length (planr lr) = length (fst lr) /\
  Forall (fun row => length row = length (snd lr)) (planr lr).
Proof.
  intros lr. unfold planR, plan. split; [apply map_length|].
  rewrite Forall_map. apply Forall_forall. intros x _. apply map_length.
Qed.

Theorem plan_columns : forall t mu nu lhs0 rhs0, (1 <= t)%nat -> mu <> [] -> positive_hist nu ->
  clamp_inactive temperature minpos dist nu (fst (sinkR t mu nu lhs0 rhs0)) ->
  forall j, (j < length nu)%nat ->
  rsum (column j (planr (sinkR t mu nu lhs0 rhs0))) = snd (nth j nu (0%N, 0)).
Proof.
  intros t mu nu lhs0 rhs0 Ht Hmu Hnu Hcl j Hj.
  destruct (sinkhorn_shape t mu nu lhs0 rhs0 Ht) as [r0 E]. rewrite E in *. cbn [fst] in Hcl.
  apply plan_columns_update; try assumption. now apply lhsU_nonempty.
Qed.

Theorem plan_total_mass : forall t mu nu lhs0 rhs0, (1 <= t)%nat -> mu <> [] -> positive_hist nu ->
  clamp_inactive temperature minpos dist nu (fst (sinkR t mu nu lhs0 rhs0)) ->
  rsum (map rsum (planr (sinkR t mu nu lhs0 rhs0))) = rsum (map snd nu).
Proof.
  intros t mu nu lhs0 rhs0 Ht Hmu Hnu Hcl.
  destruct (sinkhorn_shape t mu nu lhs0 rhs0 Ht) as [r0 E]. rewrite E in *. cbn [fst] in Hcl.
  apply plan_total_update; try assumption. now apply lhsU_nonempty.
Qed.

Theorem plan_dims : forall t mu nu lhs0 rhs0, (1 <= t)%nat ->
  length (planr (sinkR t mu nu lhs0 rhs0)) = length mu /\
  Forall (fun row => length row = length nu) (planr (sinkR t mu nu lhs0 rhs0)).
Proof.
  intros t mu nu lhs0 rhs0 Ht.
  destruct (sinkhorn_shape t mu nu lhs0 rhs0 Ht) as [r0 E]. rewrite E.
  destruct (plan_shape (lhsU mu r0, rhsU nu (lhsU mu r0))) as [H1 H2]. cbn [fst snd] in *.
  rewrite lhsU_length in H1. rewrite rhsU_length in H2. split; assumption.
Qed.
End Sinkhorn.

(* with a non-positive clamp constant the clamp never fires *)
Lemma clamp_inactive_nonpos : forall temperature minpos dist nu pot, minpos <= 0 ->
  clamp_inactive temperature minpos dist nu pot.
Proof.
  intros temperature minpos dist nu pot H xp yq _ _.
  pose proof (exp_pos (snd xp - dist (fst yq) (fst xp) / temperature)). lra.
Qed.

Theorem plan_columns_noclamp : forall temperature tolerance dist t mu nu lhs0 rhs0,
  (forall a b, dist a b = dist b a) -> (1 <= t)%nat -> mu <> [] -> positive_hist nu ->
  forall j, (j < length nu)%nat ->
  rsum (column j (planR temperature dist (sinkhornR temperature tolerance 0 dist t mu nu lhs0 rhs0))) =
  snd (nth j nu (0%N, 0)).
Proof.
  intros temperature tolerance dist t mu nu lhs0 rhs0 Hsym Ht Hmu Hnu j Hj.
  apply plan_columns; try assumption. apply clamp_inactive_nonpos. lra.
Qed.

Theorem plan_total_mass_noclamp : forall temperature tolerance dist t mu nu lhs0 rhs0,
  (forall a b, dist a b = dist b a) -> (1 <= t)%nat -> mu <> [] -> positive_hist nu ->
  rsum (map rsum (planR temperature dist (sinkhornR temperature tolerance 0 dist t mu nu lhs0 rhs0))) =
  rsum (map snd nu).
Proof.
  intros temperature tolerance dist t mu nu lhs0 rhs0 Hsym Ht Hmu Hnu.
  apply plan_total_mass; try assumption. apply clamp_inactive_nonpos. lra.
Qed.

(* the production entry point: SINKHORN_ITERATIONS rounds from the uniform potentials *)
Theorem minimize_columns : forall temperature tolerance minpos dist mu nu,
  (forall a b, dist a b = dist b a) -> mu <> [] -> positive_hist nu ->
  clamp_inactive temperature minpos dist nu (fst (minimizeR temperature tolerance minpos dist mu nu)) ->
  forall j, (j < length nu)%nat ->
  rsum (column j (planR temperature dist (minimizeR temperature tolerance minpos dist mu nu))) =
  snd (nth j nu (0%N, 0)).
Proof.
  intros temperature tolerance minpos dist mu nu Hsym Hmu Hnu Hcl j Hj.
  unfold minimizeR, minimize in *. fold (sinkhornR temperature tolerance minpos dist) in *.
  apply plan_columns; try assumption.
  change (1 <= Z.to_nat 128)%nat. lia.
Qed.

(* ---------- Gibbs' inequality ---------- *)
Lemma ln_le_minus_1 : forall x, 0 < x -> ln x <= x - 1.
Proof.
  intros x Hx. pose proof (exp_ineq1_le (x - 1)) as H.
  replace (1 + (x - 1)) with x in H by ring.
  destruct H as [H|H].
  - left. rewrite <- (ln_exp (x - 1)). now apply ln_increasing.
  - right. rewrite H at 1. apply ln_exp.
Qed.

Lemma gibbs_term : forall p q, 0 < p -> 0 < q -> q - p <= q * ln (q / p).
Proof.
  intros p q Hp Hq.
  assert (Hpq : 0 < p / q) by (apply Rdiv_lt_0_compat; assumption).
  pose proof (ln_le_minus_1 (p / q) Hpq) as H.
  assert (E : ln (q / p) = - ln (p / q)).
  { rewrite <- ln_Rinv by exact Hpq. f_equal. field. split; lra. }
  rewrite E.
  assert (H2 : q * (1 - p / q) <= q * - ln (p / q)) by (apply Rmult_le_compat_l; lra).
  replace (q * (1 - p / q)) with (q - p) in H2 by (field; lra). exact H2.
Qed.

(* sum q ln(q/p) >= sum q - sum p, over the pairs (q, p) *)
Theorem gibbs_general : forall (qp : list (R * R)),
  Forall (fun e => 0 < fst e /\ 0 < snd e) qp ->
  rsum (map fst qp) - rsum (map snd qp) <= rsum (map (fun e => fst e * ln (fst e / snd e)) qp).
Proof.
  intros qp H. induction H as [|[q p] l [Hq Hp] Hl IH].
  - cbn [map]. rewrite !rsum_nil. lra.
  - cbn [map fst snd] in *. rewrite !rsum_cons. pose proof (gibbs_term p q Hp Hq). lra.
Qed.

Theorem gibbs : forall (qp : list (R * R)),
  Forall (fun e => 0 < fst e /\ 0 < snd e) qp -> rsum (map fst qp) = rsum (map snd qp) ->
  0 <= rsum (map (fun e => fst e * ln (fst e / snd e)) qp).
Proof. intros qp H E. pose proof (gibbs_general qp H). lra. Qed.
