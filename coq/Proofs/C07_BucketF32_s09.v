(* Proofs/C07_BucketF32_s09.v -- shard: rows 858 <= sum < 905, every 0 <= won <= sum, by evaluation (check_pair). *)
From Coq Require Import ZArith.
From RP Require Import Model.BucketF32 Proofs.C07_BucketF32_chk.
Open Scope Z_scope.
Lemma block : check_block 858 905 = true.
Proof. vm_compute. reflexivity. Qed.
Lemma rows : forall sum won, 858 <= sum < 905 -> 0 <= won <= sum -> pair_ok won sum.
Proof. exact (check_block_ok 858 905 ltac:(discriminate) block). Qed.
