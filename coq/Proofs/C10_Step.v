(* Proofs/C10_Step.v -- property C10: one step of the betting engine from a reachable state, in
   explicit form.  (1) progress: an action that passes Game::is_allowed is carried out (act does
   not panic), at decision and at chance nodes; (2) the facts about one decision step that bound
   the length of a betting round: all-in seats only accumulate, a step that leaves the round open
   moves the turn counter to at least 2, a passive action (fold / check / call) after both seats
   have had a turn closes the round. *)
From Coq Require Import ZArith NArith List Bool Lia.
From RP Require Import Base.Bits Gen.GenLib Gen.GenFixes Model.Codec Model.Showdown Model.Game
                       Spec.SpecNLHE Spec.SpecGameInv Spec.SpecRel
                       Proofs.C03_Flat Proofs.C03_Settle Proofs.C03_Sym Proofs.C03_Moves Proofs.C03_Cards
                       Proofs.C03_Step Proofs.C03_Draw Proofs.C03_Bisim Proofs.C11_Menu.
Import ListNotations.
Open Scope Z_scope.
Ltac Zify.zify_post_hook ::= Z.div_mod_to_equations.

(* number of seats with no chips behind *)
Definition zeros (g : game) : Z := Z.of_nat (length (filter (fun s => stack s =? 0) (seats g))).
(* turns taken on this street, counted from 1 (the k of Spec/SpecRel.v) *)
Definition kturn (g : game) : Z := ticker g - street_off (board g).
Definition is_passive_action (a : action) : bool :=
  match a with Fold | Check | Call _ => true | _ => false end.
Definition is_shove_action (a : action) : bool := match a with Shove _ => true | _ => false end.

Definition step_facts (g : game) (a : action) (g' : game) : Prop :=
  zeros g + (if is_shove_action a then 1 else 0) <= zeros g' /\
  (is_everyone_alright g' = false -> 2 <= kturn g') /\
  (is_passive_action a = true -> 2 <= kturn g -> is_everyone_alright g' = true).

Lemma zeros_A : forall i sa so ka ko ea eo pa po ca co pt bd t,
  zeros (GA i sa so ka ko ea eo pa po ca co pt bd t)
  = (if ka =? 0 then 1 else 0) + (if ko =? 0 then 1 else 0).
Proof.
  intros i sa so ka ko ea eo pa po ca co pt bd t. unfold zeros.
  destruct i; cbn [GA G2 seats filter stack]; destruct (ka =? 0), (ko =? 0); reflexivity.
Qed.
Lemma kturn_A : forall i sa so ka ko ea eo pa po ca co pt bd t,
  kturn (GA i sa so ka ko ea eo pa po ca co pt bd t) = t - street_off bd.
Proof. intros i sa so ka ko ea eo pa po ca co pt bd t. destruct i; reflexivity. Qed.

Lemma zeros_bounds : forall g, 0 <= zeros g <= Z.of_nat (length (seats g)).
Proof.
  intros g. unfold zeros.
  assert (H : forall l : list seat, Nat.le (length (filter (fun s => stack s =? 0) l)) (length l)).
  { induction l as [|x r IH]; [cbn; lia|]. cbn [filter length]. destruct (stack x =? 0); cbn [length]; lia. }
  specialize (H (seats g)). lia.
Qed.

(* ---------- the rule book's legality test seen from the actor ---------- *)
Lemma slegal_A : forall d i so ka ko ea eo pa po ca co bd aco lr a,
  (i < 2)%nat -> 0 <= ea -> ea <= eo ->
  slegal d (SA i Betting so ka ko ea eo pa po ca co bd false aco lr i false false) a =
  match a with
  | Fold => 0 <? eo - ea
  | Check => eo - ea =? 0
  | Call c => (0 <? eo - ea) && (eo - ea <? ka) && (c =? eo - ea)
  | Shove c => c =? ka
  | Raise c => (eo - ea + Z.max lr B_BLIND <=? c) && (c <=? ka - 1)
  | Draw _ => false
  | Blind _ => false
  end.
Proof.
  intros d i so ka ko ea eo pa po ca co bd aco lr a Hi H0 Hle.
  two i Hi; unfold slegal, outstanding, maxin;
    cbn [SA S2 over awaiting to_act instreet behind last_raise nthZ nth fold_left].
  - replace (Z.max (Z.max 0 ea) eo - ea) with (eo - ea) by lia. destruct a; reflexivity.
  - replace (Z.max (Z.max 0 eo) ea - ea) with (eo - ea) by lia. destruct a; reflexivity.
Qed.

(* ---------- what R says at a decision node, from the actor's side ---------- *)
Lemma R_choice_view : forall d g s j, R d g s -> turn_of g = Choice j ->
  exists i so ka ko ea eo pa po ca co pt bd t aco lr,
    g = GA i Betting so ka ko ea eo pa po ca co pt bd t /\
    s = SA i Betting so ka ko ea eo pa po ca co bd false aco lr i false false /\
    CH d i so ka ko ea eo pa po ca co pt bd t aco lr.
Proof.
  intros d g s j HR Ht. destruct (choice_phase g j Ht) as [Hs Hd].
  destruct HR as [s0 s1 k0 k1 e0 e1 p0 p1 c0 c1 pt bd t ac0 ac1 lr ta aw ov
                  Hi0 Hi1 Hpt Hbl Hbase Hnf Hbd Hcards Hstop Hdeal Hover Hch].
  rewrite Hs in Hstop. subst ov. specialize (Hdeal eq_refl). rewrite Hd in Hdeal. subst aw.
  destruct (Hch eq_refl eq_refl) as (Hk & Hmod & Hta).
  pose proof (alright_of_choice _ Hs Hd) as Halr.
  destruct Hta as [[-> Hci]|[-> Hci]]; destruct Hci as (-> & Hso & -> & Haco & Hle & Hk1' & Hk2').
  - exists 0%nat, s1, k0, k1, e0, e1, p0, p1, c0, c1, pt, bd, t, ac1, lr.
    split; [reflexivity|]. split; [reflexivity|].
    unfold CH. cbn [GA cards_okA].
    refine (conj _ (conj Hmod (conj Hi0 (conj Hi1 (conj Hpt (conj Hbl (conj Hbase (conj Hso (conj Hbd
            (conj Hcards (conj Hk (conj Haco (conj Hle (conj Hk1' (conj Hk2' Halr))))))))))))))). lia.
  - exists 1%nat, s0, k1, k0, e1, e0, p1, p0, c1, c0, pt, bd, t, ac0, lr.
    split; [reflexivity|]. split; [reflexivity|].
    unfold CH. cbn [GA cards_okA].
    refine (conj _ (conj Hmod (conj Hi1 (conj Hi0 (conj _ (conj Hbl (conj _ (conj Hso (conj Hbd
            (conj Hcards (conj Hk (conj Haco (conj Hle (conj Hk1' (conj Hk2' Halr))))))))))))))); lia.
Qed.

(* ---------- one decision step, explicitly ---------- *)
Section Facts.
Variables (d : deck) (i : nat) (so : sstate) (ka ko ea eo pa po : Z) (ca co : N) (pt : Z) (bd : N)
          (t : Z) (aco : bool) (lr : Z).
Hypothesis HCH : CH d i so ka ko ea eo pa po ca co pt bd t aco lr.
Notation g := (GA i Betting so ka ko ea eo pa po ca co pt bd t).

Lemma fact_fold : exists g', act_unchecked g Fold = Some g' /\ step_facts g Fold g'.
Proof.
  destructCH HCH.
  cbn [act_unchecked]. rewrite fold_A by assumption.
  assert (Hal : is_everyone_alright (GA i Folding so ka ko ea eo pa po ca co pt bd t) = true).
  { rewrite alright_A. destruct so; try congruence; cbn; rewrite orb_true_r; reflexivity. }
  rewrite next_player_A by (try assumption; rewrite Hal; discriminate).
  rewrite Hal. eexists. split; [reflexivity|].
  unfold step_facts. rewrite !zeros_A, Hal. cbn [is_shove_action is_passive_action].
  split; [lia|]. split; [discriminate|]. intros _ _. reflexivity.
Qed.

Lemma fact_check : eo = ea -> exists g', act_unchecked g Check = Some g' /\ step_facts g Check g'.
Proof.
  intros Ho. destructCH HCH.
  destruct (opp_cases _ _ _ _ _ _ _ Hia Hio Hbase Hso) as [[-> Hkopos]|[-> [-> Hsh]]]; [|lia].
  cbn [act_unchecked].
  rewrite next_player_A by (try assumption; reflexivity).
  rewrite Halr. eexists. split; [reflexivity|].
  unfold step_facts. rewrite !zeros_A, !kturn_A. cbn [is_shove_action is_passive_action].
  split; [lia|]. split; [intros _; lia|]. intros _ Hk2k.
  rewrite alright_A. unfold matchedA. cbn [isB sstate_eqb].
  subst eo. replace (Z.max ea ea) with ea by lia. rewrite Z.eqb_refl.
  destruct (Z.ltb_spec (2 + street_off bd) (t + 1)); [reflexivity|lia].
Qed.

Lemma fact_call : forall x, 0 < eo - ea -> eo - ea < ka -> x = eo - ea ->
  exists g', act_unchecked g (Call x) = Some g' /\ step_facts g (Call x) g'.
Proof.
  intros x Ho Hob Hx. destructCH HCH.
  destruct (opp_cases _ _ _ _ _ _ _ Hia Hio Hbase Hso) as [[-> Hkopos]|[-> [-> Hsh]]]; [|lia].
  cbn [act_unchecked]. rewrite bet_A by (try assumption; lia).
  destruct (Z.eqb_spec (ka - x) 0) as [Hz|Hnz]; [lia|].
  rewrite next_player_A by (try assumption; reflexivity).
  assert (Hal : is_everyone_alright (GA i Betting Betting (ka - x) ko (ea + x) eo (pa + x) po ca co (pt + x) bd t)
                = (2 + street_off bd <? t)).
  { rewrite alright_A. unfold matchedA, shovingA. cbn.
    replace (ea + x) with eo by lia. replace (Z.max eo eo) with eo by lia. rewrite Z.eqb_refl.
    cbn. rewrite !orb_false_r, andb_true_r. reflexivity. }
  rewrite Hal. eexists. split; [reflexivity|].
  unfold step_facts. rewrite !zeros_A, !kturn_A. cbn [is_shove_action is_passive_action].
  destruct (Z.eqb_spec ka 0) as [|_]; [lia|]. destruct (Z.eqb_spec (ka - x) 0) as [|_]; [lia|].
  split; [lia|].
  split.
  - intros _. destruct (Z.ltb_spec (2 + street_off bd) t); lia.
  - intros _ Hk2k. rewrite alright_A. unfold matchedA. cbn [isB sstate_eqb].
    replace (ea + x) with eo by lia. replace (Z.max eo eo) with eo by lia. rewrite Z.eqb_refl.
    cbn [andb].
    destruct (Z.ltb_spec (2 + street_off bd) t) as [Hlt|Hge].
    + destruct (Z.ltb_spec (2 + street_off bd) t); [reflexivity|lia].
    + destruct (Z.ltb_spec (2 + street_off bd) (t + 1)); [reflexivity|lia].
Qed.

Lemma fact_raise : forall x, (eo - ea) + Z.max lr B_BLIND <= x -> x <= ka - 1 ->
  exists g', act_unchecked g (Raise x) = Some g' /\ step_facts g (Raise x) g'.
Proof.
  intros x Hlo Hhi. destructCH HCH.
  destruct (opp_cases _ _ _ _ _ _ _ Hia Hio Hbase Hso) as [[-> Hkopos]|[-> [-> Hsh]]]; [|lia].
  cbn [act_unchecked]. rewrite bet_A by (try assumption; lia).
  destruct (Z.eqb_spec (ka - x) 0) as [Hz|Hnz]; [lia|].
  rewrite next_player_A by (try assumption; reflexivity).
  assert (Hal : is_everyone_alright (GA i Betting Betting (ka - x) ko (ea + x) eo (pa + x) po ca co (pt + x) bd t)
                = false).
  { rewrite alright_A. unfold matchedA, shovingA. cbn.
    destruct (Z.eqb_spec eo (Z.max (ea + x) eo)); [lia|]. rewrite !andb_false_r. reflexivity. }
  rewrite Hal. eexists. split; [reflexivity|].
  unfold step_facts. rewrite !zeros_A, !kturn_A. cbn [is_shove_action is_passive_action].
  destruct (Z.eqb_spec ka 0) as [|_]; [lia|]. destruct (Z.eqb_spec (ka - x) 0) as [|_]; [lia|].
  split; [lia|]. split; [intros _; lia|]. intros Hf. discriminate Hf.
Qed.

Lemma fact_shove : forall x, x = ka ->
  exists g', act_unchecked g (Shove x) = Some g' /\ step_facts g (Shove x) g'.
Proof.
  intros x Hx. destructCH HCH. subst x.
  cbn [act_unchecked]. rewrite bet_A by (try assumption; lia).
  replace (ka - ka) with 0 in * by lia. cbn [Z.eqb].
  destruct (opp_cases _ _ _ _ _ _ _ Hia Hio Hbase Hso) as [[-> Hkopos]|[-> [-> Hsh]]].
  - assert (Hal : is_everyone_alright (GA i Shoving Betting 0 ko (ea + ka) eo (pa + ka) po ca co (pt + ka) bd t)
                  = false).
    { rewrite alright_A. unfold matchedA, shovingA. cbn.
      destruct (Z.eqb_spec eo (Z.max (ea + ka) eo)); [lia|]. rewrite !andb_false_r. reflexivity. }
    rewrite next_player_A by (try assumption; reflexivity).
    rewrite Hal. eexists. split; [reflexivity|].
    unfold step_facts. rewrite !zeros_A, !kturn_A. cbn [is_shove_action is_passive_action].
    destruct (Z.eqb_spec ka 0) as [|_]; [lia|]. cbn [Z.eqb].
    split; [lia|]. split; [intros _; lia|]. intros Hf. discriminate Hf.
  - assert (Hal : is_everyone_alright (GA i Shoving Shoving 0 0 (ea + ka) eo (pa + ka) po ca co (pt + ka) bd t)
                  = true).
    { rewrite alright_A. unfold shovingA. cbn. apply orb_true_r. }
    rewrite next_player_A by (try assumption; rewrite Hal; discriminate).
    rewrite Hal. eexists. split; [reflexivity|].
    unfold step_facts. rewrite !zeros_A, Hal. cbn [is_shove_action is_passive_action].
    destruct (Z.eqb_spec ka 0) as [|_]; [lia|]. cbn [Z.eqb].
    split; [lia|]. split; [discriminate|]. intros Hf. discriminate Hf.
Qed.
End Facts.

(* every action the engine allows at a decision node of a related state is carried out *)
Theorem choice_step : forall d g s j a, R d g s -> turn_of g = Choice j ->
  is_allowed d g a = Some true ->
  exists g', act_unchecked g a = Some g' /\ step_facts g a g'.
Proof.
  intros d g s j a HR Ht Hall.
  assert (Hfix : RAISE_ARM_CHECKS_TURN = true) by reflexivity.
  destruct (R_same_moves Hfix d g s HR) as [_ Hmoves].
  rewrite (Hmoves a) in Hall. injection Hall as Hleg.
  destruct (R_choice_view d g s j HR Ht)
    as (i & so & ka & ko & ea & eo & pa & po & ca & co & pt & bd & t & aco & lr & -> & -> & HCH).
  pose proof HCH as HCH'. destructCH HCH'.
  rewrite slegal_A in Hleg by assumption.
  destruct a as [h| |c| |c|c|c]; try discriminate Hleg.
  - apply (fact_fold _ _ _ _ _ _ _ _ _ _ _ _ _ _ _ _ HCH).
  - apply andb_prop in Hleg. destruct Hleg as [Hleg Hc]. apply andb_prop in Hleg. destruct Hleg as [Ho Hb].
    apply Z.ltb_lt in Ho, Hb. apply Z.eqb_eq in Hc.
    apply (fact_call _ _ _ _ _ _ _ _ _ _ _ _ _ _ _ _ HCH); assumption.
  - apply Z.eqb_eq in Hleg. apply (fact_check _ _ _ _ _ _ _ _ _ _ _ _ _ _ _ _ HCH). lia.
  - apply andb_prop in Hleg. destruct Hleg as [Hlo Hhi]. apply Z.leb_le in Hlo, Hhi.
    apply (fact_raise _ _ _ _ _ _ _ _ _ _ _ _ _ _ _ _ HCH); assumption.
  - apply Z.eqb_eq in Hleg. apply (fact_shove _ _ _ _ _ _ _ _ _ _ _ _ _ _ _ _ HCH); assumption.
Qed.

(* ---------- a chance step ---------- *)
Lemma prog_draw : forall d s0 s1 k0 k1 e0 e1 p0 p1 c0 c1 pt bd t h,
  seat_inv s0 k0 e0 p0 -> seat_inv s1 k1 e1 p1 ->
  p0 - e0 = p1 - e1 ->
  ~ (s0 = Folding /\ s1 = Folding) ->
  In (Z.of_N (hand_size bd)) [0; 3; 4; 5] ->
  cards_ok d bd c0 c1 ->
  must_stop (G2 s0 s1 k0 k1 e0 e1 p0 p1 c0 c1 pt bd t) = false ->
  must_deal (G2 s0 s1 k0 k1 e0 e1 p0 p1 c0 c1 pt bd t) = true ->
  N.land h (N.lxor (N.lxor (N.lor (N.lor bd c0) c1) (hand_mask d)) 18446744073709551615) = 0%N ->
  Z.of_N (hand_size h) = cards_due (sob bd) ->
  exists g', act_unchecked (G2 s0 s1 k0 k1 e0 e1 p0 p1 c0 c1 pt bd t) (Draw h) = Some g'.
Proof.
  intros d s0 s1 k0 k1 e0 e1 p0 p1 c0 c1 pt bd t h Hi0 Hi1 Hbase Hnf Hbd Hcards Hstop Hdeal Hh Hsz.
  destruct (cards_ok_draw d bd c0 c1 h Hcards Hh) as [Hbh Hcards'].
  unfold must_deal in Hdeal. unfold must_stop in Hstop. rewrite street_flat in Hdeal, Hstop.
  assert (Hst : sob (N.lor bd h) = sob bd + 1 /\ sob bd <> 3).
  { pose proof (hand_size_lor bd h Hbh) as Hsum. unfold sob at 1. rewrite Hsum, N2Z.inj_add, Hsz.
    destruct (sob_cases bd Hbd) as [[Hs ->]|[[Hs ->]|[[Hs ->]|[Hs Hs3]]]]; rewrite ?Hs; cbn;
      [intuition lia | intuition lia | intuition lia |].
    rewrite Hs3 in Hdeal. discriminate Hdeal. }
  destruct Hst as (Hst & Hn3).
  destruct (Z.eqb_spec (sob bd) 3) as [|_]; [contradiction|].
  rewrite folding_flat in Hstop. rewrite alright_flat, Hstop, orb_false_r in Hdeal.
  assert (Hoff' : street_off (N.lor bd h) = 0).
  { unfold street_off. rewrite Hst. destruct (Z.eqb_spec (sob bd + 1) 0) as [Hz|]; [|reflexivity].
    destruct (sob_cases bd Hbd) as [[_ Hs]|[[_ Hs]|[[_ Hs]|[_ Hs]]]]; lia. }
  cbn [act_unchecked G2 board seats pot dealer].
  unfold hand_add. rewrite Hbh. cbn [N.eqb].
  change (mkGame [mkSeat s0 k0 e0 p0 c0; mkSeat s1 k1 e1 p1 c1] pt (N.lor bd h) 0 0)
    with (G2 s0 s1 k0 k1 e0 e1 p0 p1 c0 c1 pt (N.lor bd h) 0).
  destruct Hi0 as (Hk0 & Hs0 & He0 & Hep0 & Hsh0 & Hbt0).
  destruct Hi1 as (Hk1 & Hs1 & He1 & Hep1 & Hsh1 & Hbt1).
  destruct s0, s1; cbn in Hstop; try discriminate Hstop; try (exfalso; apply Hnf; split; reflexivity);
    unfold matchedA, shovingA in Hdeal; cbn [isB isS is_fold sstate_eqb orb andb] in Hdeal.
  - assert (Hal : is_everyone_alright (G2 Betting Betting k0 k1 e0 e1 p0 p1 c0 c1 pt (N.lor bd h) 0) = false).
    { rewrite alright_flat, Hoff'. reflexivity. }
    rewrite next_player_flat0 by (try reflexivity).
    eexists. reflexivity.
  - exfalso. assert (k0 <> 0) by (intros Hz; apply (Hbt0 Hz); reflexivity). specialize (Hsh1 eq_refl).
    rewrite orb_false_r, andb_true_r in Hdeal. apply andb_prop in Hdeal. destruct Hdeal as [_ Hm].
    apply Z.eqb_eq in Hm. lia.
  - exfalso. assert (k1 <> 0) by (intros Hz; apply (Hbt1 Hz); reflexivity). specialize (Hsh0 eq_refl).
    rewrite orb_false_r in Hdeal. apply andb_prop in Hdeal. destruct Hdeal as [_ Hm].
    apply Z.eqb_eq in Hm. lia.
  - assert (Hal : is_everyone_alright (G2 Shoving Shoving k0 k1 e0 e1 p0 p1 c0 c1 pt (N.lor bd h) 0) = true).
    { rewrite alright_flat. unfold shovingA. cbn. apply orb_true_r. }
    rewrite next_player_flat0 by (try reflexivity; rewrite Hal; discriminate).
    eexists. reflexivity.
Qed.

(* ---------- progress: Game::act never panics after its assertion, on related states ---------- *)
Theorem R_progress : forall d g s a, R d g s -> is_allowed d g a = Some true ->
  exists g', apply d g a = Some g'.
Proof.
  intros d g s a HR Hall. unfold apply. rewrite Hall.
  destruct (turn_of g) as [| |j] eqn:Ht.
  - (* the hand is over: nothing is allowed *)
    exfalso. unfold turn_of in Ht. unfold is_allowed in Hall.
    destruct (must_stop g); [discriminate Hall|]. destruct (must_deal g); discriminate Ht.
  - (* a card is due *)
    assert (Hfix : RAISE_ARM_CHECKS_TURN = true) by reflexivity.
    destruct (R_same_moves Hfix d g s HR) as [_ Hmoves].
    rewrite (Hmoves a) in Hall. injection Hall as Hleg.
    assert (Hs : must_stop g = false /\ must_deal g = true).
    { unfold turn_of in Ht. destruct (must_stop g); [discriminate Ht|].
      destruct (must_deal g); [split; reflexivity|discriminate Ht]. }
    destruct Hs as [Hs Hd].
    destruct HR as [s0 s1 k0 k1 e0 e1 p0 p1 c0 c1 pt bd t ac0 ac1 lr ta aw ov
                    Hi0 Hi1 Hpt Hbl Hbase Hnf Hbd Hcards Hstop Hdeal Hover Hch].
    rewrite Hs in Hstop. subst ov. specialize (Hdeal eq_refl). rewrite Hd in Hdeal. subst aw.
    destruct a as [h| |c| |c|c|c]; try discriminate Hleg.
    unfold slegal, unseen in Hleg. cbn [over awaiting holes community S2 fold_left nstreet] in Hleg.
    apply andb_prop in Hleg. destruct Hleg as [Hh Hsz]. apply N.eqb_eq in Hh. apply Z.eqb_eq in Hsz.
    eapply prog_draw; eassumption.
  - destruct (choice_step d g s j a HR Ht Hall) as (g' & Hg' & _). exists g'. exact Hg'.
Qed.

Theorem reachable_progress : forall d hs g a, wf_holes d hs -> reachable d hs g ->
  is_allowed d g a = Some true -> exists g', apply d g a = Some g' /\ reachable d hs g'.
Proof.
  intros d hs g a Hwf (g0 & acts & Hroot & Hrun) Hall.
  assert (Hfix : RAISE_ARM_CHECKS_TURN = true) by reflexivity.
  destruct (bisim Hfix d hs acts g0 g Hwf Hroot Hrun) as (s & _ & HR).
  destruct (R_progress d g s a HR Hall) as (g' & Hg'). exists g'. split; [exact Hg'|].
  exists g0, (acts ++ [a]). split; [exact Hroot|].
  clear -Hrun Hg'. revert g0 Hrun. induction acts as [|x r IH]; intros g0 Hrun.
  - cbn in Hrun. injection Hrun as ->. cbn. rewrite Hg'. reflexivity.
  - cbn [run app] in *. destruct (apply d g0 x) as [g1|]; [|discriminate Hrun]. apply IH. exact Hrun.
Qed.
