(* Proofs/C03_Sym.v -- heads-up states seen from the player to act (a) and the opponent (o):
   GA i / SA i put the actor at seat i.  The flat lemmas of C03_Flat / C03_Settle in that form. *)
From Coq Require Import ZArith NArith List Bool Lia.
From RP Require Import Base.Bits Gen.GenLib Gen.GenFixes Model.Codec Model.Showdown Model.Game
                       Spec.SpecNLHE Spec.SpecGameInv Spec.SpecRel Proofs.C03_Flat Proofs.C03_Settle.
Import ListNotations.
Open Scope Z_scope.
Ltac Zify.zify_post_hook ::= Z.div_mod_to_equations.

Definition GA (i : nat) (sa so : sstate) (ka ko ea eo pa po : Z) (ca co : N) (pt : Z) (bd : N) (t : Z) : game :=
  match i with
  | O => G2 sa so ka ko ea eo pa po ca co pt bd t
  | _ => G2 so sa ko ka eo ea po pa co ca pt bd t
  end.
Definition SA (i : nat) (sa so : sstate) (ka ko ea eo pa po : Z) (ca co : N) (bd : N)
              (aca aco : bool) (lr : Z) (ta : nat) (aw ov : bool) : nlhe :=
  match i with
  | O => S2 sa so ka ko ea eo pa po ca co bd aca aco lr ta aw ov
  | _ => S2 so sa ko ka eo ea po pa co ca bd aco aca lr ta aw ov
  end.
Definition cards_okA (i : nat) (d : deck) (bd ca co : N) : Prop :=
  match i with O => cards_ok d bd ca co | _ => cards_ok d bd co ca end.
Definition nlive (sa so : sstate) : Z := (if is_fold sa then 0 else 1) + (if is_fold so then 0 else 1).
(* the seat the rule book passes the turn to: the opponent q if it can act, else p stays *)
Definition nxt (so : sstate) (ko : Z) (p q : nat) : nat :=
  if negb (is_fold so) && negb (ko =? 0) then q else p.
Definition matchedA (sa so : sstate) (ea eo : Z) : bool :=
  (if isB sa then ea =? Z.max ea eo else true) && (if isB so then eo =? Z.max ea eo else true).
Definition shovingA (sa so : sstate) : bool := (is_fold sa || isS sa) && (is_fold so || isS so).

Ltac two i Hi := destruct i as [|[|?]]; [ | | exfalso; lia].

Notation gA := (GA _ _ _ _ _ _ _ _ _ _ _ _ _) (only parsing).

Lemma street_A : forall i sa so ka ko ea eo pa po ca co pt bd t, street (GA i sa so ka ko ea eo pa po ca co pt bd t) = sob bd.
Proof. intros i sa so ka ko ea eo pa po ca co pt bd t. destruct i; reflexivity. Qed.

Lemma alright_A : forall i sa so ka ko ea eo pa po ca co pt bd t, is_everyone_alright (GA i sa so ka ko ea eo pa po ca co pt bd t) =
  ((2 + street_off bd <? t) && matchedA sa so ea eo) || xorb (is_fold sa) (is_fold so) || shovingA sa so.
Proof.
  intros i sa so ka ko ea eo pa po ca co pt bd t. unfold is_everyone_alright, is_everyone_calling, matchedA, shovingA. destruct i.
  - cbn [GA]. rewrite touched_flat, matched_flat, folding_flat, shoving_flat. reflexivity.
  - cbn [GA]. rewrite touched_flat, matched_flat, folding_flat, shoving_flat.
    rewrite (Z.max_comm eo ea), (xorb_comm (is_fold so)).
    rewrite (andb_comm (if isB so then _ else _)), (andb_comm (is_fold so || isS so)). reflexivity.
Qed.

Lemma potential_A : forall i sa so ka ko ea eo pa po ca co pt bd t, potential (GA i sa so ka ko ea eo pa po ca co pt bd t) =
  ka + ko + 4 * (3 - sob bd) + Z.max 0 (3 - (t - street_off bd)) + nlive sa so.
Proof.
  intros i sa so ka ko ea eo pa po ca co pt bd t. unfold potential. rewrite street_A. unfold street_off, nlive.
  destruct i; cbn [GA]; destruct sa, so; cbn; lia.
Qed.


Lemma fold_A : forall i sa so ka ko ea eo pa po ca co pt bd t, (i < 2)%nat -> t mod 2 = Z.of_nat i -> fold_actor (GA i sa so ka ko ea eo pa po ca co pt bd t) = GA i Folding so ka ko ea eo pa po ca co pt bd t.
Proof.
  intros i sa so ka ko ea eo pa po ca co pt bd t Hi Hmod. two i Hi; cbn [GA Z.of_nat] in *.
  - apply fold_flat0; assumption.
  - apply fold_flat1; assumption.
Qed.

Lemma bet_A : forall i sa so ka ko ea eo pa po ca co pt bd t, (i < 2)%nat -> t mod 2 = Z.of_nat i -> forall c, c <= ka ->
  bet (GA i sa so ka ko ea eo pa po ca co pt bd t) c = Some (GA i (if ka - c =? 0 then Shoving else sa) so (ka - c) ko (ea + c) eo (pa + c) po ca co (pt + c) bd t).
Proof.
  intros i sa so ka ko ea eo pa po ca co pt bd t Hi Hmod c Hc. two i Hi; cbn [GA Z.of_nat] in *.
  - apply bet_flat0; assumption.
  - apply bet_flat1; assumption.
Qed.

Lemma next_player_A : forall i sa so ka ko ea eo pa po ca co pt bd t, (i < 2)%nat -> t mod 2 = Z.of_nat i -> 
  (is_everyone_alright (GA i sa so ka ko ea eo pa po ca co pt bd t) = false -> so = Betting) ->
  next_player (GA i sa so ka ko ea eo pa po ca co pt bd t) = Some (GA i sa so ka ko ea eo pa po ca co pt bd (if is_everyone_alright (GA i sa so ka ko ea eo pa po ca co pt bd t) then t else t + 1)).
Proof.
  intros i sa so ka ko ea eo pa po ca co pt bd t Hi Hmod Hb. two i Hi; cbn [GA Z.of_nat] in *.
  - apply next_player_flat0; assumption.
  - apply next_player_flat1; assumption.
Qed.

Lemma to_raise_A : forall i sa so ka ko ea eo pa po ca co pt bd t, (i < 2)%nat -> t mod 2 = Z.of_nat i -> sa <> Folding -> so <> Folding -> 0 <= ea -> ea <= eo ->
  to_raise (GA i sa so ka ko ea eo pa po ca co pt bd t) = (eo - ea) + Z.max (eo - ea) B_BLIND.
Proof.
  intros i sa so ka ko ea eo pa po ca co pt bd t Hi Hmod Ha Ho H0 Hle. two i Hi; cbn [GA Z.of_nat] in *.
  - apply to_raise_flat0; assumption.
  - apply to_raise_flat1; assumption.
Qed.

(* ---------- rule-book side ---------- *)

Lemma closed_A : forall i sa so ka ko ea eo pa po ca co bd aca aco lr aw ov, forall ta, 0 <= ea -> 0 <= eo ->
  closed (SA i sa so ka ko ea eo pa po ca co bd aca aco lr ta aw ov)
  = seat_closed sa ka ea (Z.max ea eo) aca && seat_closed so ko eo (Z.max ea eo) aco.
Proof.
  intros i sa so ka ko ea eo pa po ca co bd aca aco lr aw ov ta Ha Ho. destruct i; cbn [SA]; rewrite closed_S2.
  - replace (Z.max (Z.max 0 ea) eo) with (Z.max ea eo) by lia. reflexivity.
  - replace (Z.max (Z.max 0 eo) ea) with (Z.max ea eo) by lia. apply andb_comm.
Qed.

Lemma sact_fold_A : forall i sa so ka ko ea eo pa po ca co bd aca aco lr aw ov, (i < 2)%nat ->
  sact (SA i sa so ka ko ea eo pa po ca co bd aca aco lr i aw ov) Fold = settle_round (SA i Folding so ka ko ea eo pa po ca co bd true aco lr (nxt so ko i (1 - i)) false false).
Proof.
  intros i sa so ka ko ea eo pa po ca co bd aca aco lr aw ov Hi.
  two i Hi; cbn [SA]; unfold sact, nxt; cbn; destruct (negb (is_fold so) && negb (ko =? 0)); reflexivity.
Qed.
Lemma sact_check_A : forall i sa so ka ko ea eo pa po ca co bd aca aco lr aw ov, (i < 2)%nat ->
  sact (SA i sa so ka ko ea eo pa po ca co bd aca aco lr i aw ov) Check = settle_round (SA i sa so ka ko ea eo pa po ca co bd true aco lr (nxt so ko i (1 - i)) false false).
Proof.
  intros i sa so ka ko ea eo pa po ca co bd aca aco lr aw ov Hi.
  two i Hi; cbn [SA]; unfold sact, nxt; cbn; destruct (negb (is_fold so) && negb (ko =? 0)); reflexivity.
Qed.
Lemma sact_call_A : forall i sa so ka ko ea eo pa po ca co bd aca aco lr aw ov, (i < 2)%nat -> forall x,
  sact (SA i sa so ka ko ea eo pa po ca co bd aca aco lr i aw ov) (Call x) = settle_round (SA i sa so (ka - x) ko (ea + x) eo (pa + x) po ca co bd true aco lr
                                     (nxt so ko i (1 - i)) false false).
Proof.
  intros i sa so ka ko ea eo pa po ca co bd aca aco lr aw ov Hi x.
  two i Hi; cbn [SA]; unfold sact, nxt; cbn; destruct (negb (is_fold so) && negb (ko =? 0)); reflexivity.
Qed.
Lemma sact_raise_A : forall i sa so ka ko ea eo pa po ca co bd aca aco lr aw ov, (i < 2)%nat -> forall x, 0 <= ea -> ea <= eo ->
  sact (SA i sa so ka ko ea eo pa po ca co bd aca aco lr i aw ov) (Raise x) = settle_round (SA i sa so (ka - x) ko (ea + x) eo (pa + x) po ca co bd true
                                      (if eo - ea <? x then false else aco)
                                      (if eo - ea <? x then x - (eo - ea) else lr)
                                      (nxt so ko i (1 - i)) false false).
Proof.
  intros i sa so ka ko ea eo pa po ca co bd aca aco lr aw ov Hi x H0 Hle.
  two i Hi; cbn [SA]; unfold sact, nxt, outstanding, maxin; cbn [S2 instreet to_act nthZ nth fold_left].
  - replace (Z.max (Z.max 0 ea) eo - ea) with (eo - ea) by lia.
    destruct (eo - ea <? x); cbn; destruct (negb (is_fold so) && negb (ko =? 0)); reflexivity.
  - replace (Z.max (Z.max 0 eo) ea - ea) with (eo - ea) by lia.
    destruct (eo - ea <? x); cbn; destruct (negb (is_fold so) && negb (ko =? 0)); reflexivity.
Qed.
Lemma sact_shove_A : forall i sa so ka ko ea eo pa po ca co bd aca aco lr aw ov, (i < 2)%nat -> forall x, 0 <= ea -> ea <= eo ->
  sact (SA i sa so ka ko ea eo pa po ca co bd aca aco lr i aw ov) (Shove x) = settle_round (SA i sa so (ka - x) ko (ea + x) eo (pa + x) po ca co bd true
                                      (if eo - ea <? x then false else aco)
                                      (if eo - ea <? x then x - (eo - ea) else lr)
                                      (nxt so ko i (1 - i)) false false).
Proof.
  intros i sa so ka ko ea eo pa po ca co bd aca aco lr aw ov Hi x H0 Hle.
  two i Hi; cbn [SA]; unfold sact, nxt, outstanding, maxin; cbn [S2 instreet to_act nthZ nth fold_left].
  - replace (Z.max (Z.max 0 ea) eo - ea) with (eo - ea) by lia.
    destruct (eo - ea <? x); cbn; destruct (negb (is_fold so) && negb (ko =? 0)); reflexivity.
  - replace (Z.max (Z.max 0 eo) ea - ea) with (eo - ea) by lia.
    destruct (eo - ea <? x); cbn; destruct (negb (is_fold so) && negb (ko =? 0)); reflexivity.
Qed.

(* R_settle seen from the actor *)
Lemma R_settle_A : forall d i sa so ka ko ea eo pa po ca co pt bd t aca aco lr ta,
  (i < 2)%nat ->
  seat_inv sa ka ea pa -> seat_inv so ko eo po ->
  pt = pa + po -> S_BLIND + B_BLIND <= pt -> pa - ea = po - eo ->
  ~ (sa = Folding /\ so = Folding) ->
  In (Z.of_N (hand_size bd)) [0; 3; 4; 5] ->
  cards_okA i d bd ca co ->
  (sa = Betting -> so = Betting -> ea = eo -> (2 + street_off bd <? t) = aca && aco) ->
  (sa <> Folding -> so <> Folding ->
   seat_closed sa ka ea (Z.max ea eo) aca && seat_closed so ko eo (Z.max ea eo) aco = false ->
   1 <= t - street_off bd /\ t mod 2 = Z.of_nat ta /\
   ((ta = i /\ choice_inv sa so ea eo aca aco lr (t - street_off bd)) \/
    (ta = (1 - i)%nat /\ choice_inv so sa eo ea aco aca lr (t - street_off bd)))) ->
  R d (GA i sa so ka ko ea eo pa po ca co pt bd t)
      (settle_round (SA i sa so ka ko ea eo pa po ca co bd aca aco lr ta false false)).
Proof.
  intros d i sa so ka ko ea eo pa po ca co pt bd t aca aco lr ta Hi Hia Hio Hpt Hbl Hbase Hnf Hbd Hc HJ HP.
  assert (H0a : 0 <= ea) by (destruct Hia as (_ & _ & H & _); exact H).
  assert (H0o : 0 <= eo) by (destruct Hio as (_ & _ & H & _); exact H).
  two i Hi; cbn [GA SA cards_okA] in *.
  - apply R_settle; try assumption.
    intros Ha Ho Hcl. apply HP; try assumption.
    rewrite <- Hcl. symmetry. apply (closed_A 0%nat); assumption.
  - apply R_settle; try assumption; try lia.
    + intros [H1 H2]. apply Hnf. split; assumption.
    + intros H1 H2 H3. rewrite andb_comm. apply HJ; auto.
    + intros Ho Ha Hcl.
      destruct HP as (H1 & H2 & H3); try assumption.
      * rewrite <- Hcl. symmetry. apply (closed_A 1%nat); assumption.
      * split; [exact H1|]. split; [exact H2|]. cbn [Nat.sub] in H3. tauto.
Qed.
