(* Proofs/C07_BucketF32_s00.v -- shard: rows 0 <= sum < 286, every 0 <= won <= sum, by evaluation (check_pair). *)
From Coq Require Import ZArith.
From RP Require Import Model.BucketF32 Proofs.C07_BucketF32_chk.
Open Scope Z_scope.
Lemma block : check_block 0 286 = true.
Proof. vm_compute. reflexivity. Qed.
Lemma rows : forall sum won, 0 <= sum < 286 -> 0 <= won <= sum -> pair_ok won sum.
Proof. exact (check_block_ok 0 286 ltac:(discriminate) block). Qed.
