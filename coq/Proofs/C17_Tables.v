(* Proofs/C17_Tables.v -- the three BTreeMap tables (metric, lookup, profile) and the transitions
   rows: save/load round trip, COPY well-formedness, field values, strict prefixes are rejected. *)
From Coq Require Import NArith ZArith List Bool Lia ZifyBool ZifyN ZifyNat Sorted.
From RP Require Import Base.Bits Gen.GenAbstract Gen.GenTables Model.Codec Model.Pgcopy.
From RP Require Import Spec.SpecCodec Spec.SpecPgcopy Spec.SpecTables.
From RP Require Proofs.C15_Finite.
From RP Require Import Proofs.BitsLemmas Proofs.C15_Hand Proofs.C17_Bytes Proofs.C17_Layout Proofs.C17_Pg.
Import ListNotations.
Open Scope N_scope.

Ltac Zify.zify_post_hook ::= Z.div_mod_to_equations.

Arguments N.add : simpl never.
Arguments N.mul : simpl never.
Arguments N.sub : simpl never.
Arguments N.pow : simpl never.
Arguments N.modulo : simpl never.
Arguments N.div : simpl never.
Arguments N.to_nat : simpl never.
Arguments N.of_nat : simpl never.
Arguments N.shiftl : simpl never.
Arguments N.shiftr : simpl never.
Arguments N.land : simpl never.
Arguments N.lor : simpl never.

(* ---------- cmp_key is a strict order ---------- *)

Lemma cmp_key_lt_gt : forall a b, cmp_key a b = Lt -> cmp_key b a = Gt.
Proof.
  induction a as [|x a IH]; intros b H; destruct b as [|y b]; cbn [cmp_key] in *; try discriminate.
  - reflexivity.
  - rewrite (N.compare_antisym x y).
    destruct (x ?= y) eqn:E; cbn [CompOpp]; [apply IH; exact H | reflexivity | discriminate].
Qed.

Lemma cmp_key_trans : forall a b c, cmp_key a b = Lt -> cmp_key b c = Lt -> cmp_key a c = Lt.
Proof.
  induction a as [|x a IH]; intros b c H1 H2; destruct b as [|y b]; destruct c as [|z c];
    cbn [cmp_key] in *; try discriminate; try reflexivity.
  destruct (x ?= y) eqn:E1; try discriminate; destruct (y ?= z) eqn:E2; try discriminate.
  - apply N.compare_eq_iff in E1. apply N.compare_eq_iff in E2. subst.
    rewrite N.compare_refl. eapply IH; eassumption.
  - apply N.compare_eq_iff in E1. subst. rewrite E2. reflexivity.
  - apply N.compare_eq_iff in E2. subst. rewrite E1. reflexivity.
  - assert (L1 : x < y) by exact E1. assert (L2 : y < z) by exact E2.
    assert (L3 : x < z) by lia. unfold N.lt in L3. rewrite L3. reflexivity.
Qed.

Definition key_lt (a b : kv) : Prop := cmp_key (fst a) (fst b) = Lt.

Lemma sorted_strict_strongly : forall t, sorted_strict t -> StronglySorted key_lt t.
Proof.
  induction t as [|e r IH]; intros H.
  - constructor.
  - cbn [sorted_strict] in H. destruct H as [Hh Hr]. specialize (IH Hr).
    constructor; [exact IH|].
    destruct r as [|e' r']; [constructor|].
    inversion IH as [|? ? _ Hf]; subst.
    constructor; [exact Hh|].
    eapply Forall_impl; [|exact Hf]. intros a Ha. unfold key_lt in *.
    eapply cmp_key_trans; eassumption.
Qed.

Lemma strongly_app_head : forall (R : kv -> kv -> Prop) t0 e t1,
  StronglySorted R (t0 ++ e :: t1) -> Forall (fun a => R a e) t0.
Proof.
  intros R. induction t0 as [|a t0 IH]; intros e t1 H.
  - constructor.
  - cbn [app] in H. inversion H as [|? ? Hs Hf]; subst. constructor.
    + rewrite Forall_forall in Hf. apply Hf. apply in_or_app. right. left. reflexivity.
    + eapply IH. exact Hs.
Qed.

(* BTreeMap::insert of a key above all present keys appends *)
Lemma insert_kv_last : forall k v t0, Forall (fun a => key_lt a (k, v)) t0 ->
  insert_kv k v t0 = t0 ++ [(k, v)].
Proof.
  intros k v. induction t0 as [|[k' v'] t0 IH]; intros H.
  - reflexivity.
  - inversion H as [|? ? Hk Ht]; subst. unfold key_lt in Hk. cbn [fst] in Hk.
    cbn [insert_kv app]. rewrite (cmp_key_lt_gt _ _ Hk). rewrite (IH Ht). reflexivity.
Qed.

Lemma build_fold : forall (decode : list N -> option kv) (encode : kv -> list N) t1 t0,
  (forall e, In e t1 -> decode (encode e) = Some e) -> sorted_strict (t0 ++ t1) ->
  fold_left (fun acc row => match acc, decode row with
                            | LOk t, Some (k, v) => LOk (insert_kv k v t)
                            | _, _ => LError end) (map encode t1) (LOk t0) = LOk (t0 ++ t1).
Proof.
  intros decode encode. induction t1 as [|e t1 IH]; intros t0 Hd Hs.
  - cbn [map fold_left]. rewrite app_nil_r. reflexivity.
  - cbn [map fold_left]. rewrite (Hd e (or_introl eq_refl)). destruct e as [k v].
    rewrite insert_kv_last.
    + rewrite (IH (t0 ++ [(k, v)])).
      * rewrite <- app_assoc. reflexivity.
      * intros e He. apply Hd. right. exact He.
      * rewrite <- app_assoc. exact Hs.
    + apply (strongly_app_head key_lt t0 (k, v) t1). apply sorted_strict_strongly. exact Hs.
Qed.

Lemma build_encode : forall decode encode t,
  (forall e, In e t -> decode (encode e) = Some e) -> sorted_strict t ->
  build decode (map encode t) = LOk t.
Proof. intros decode encode t Hd Hs. unfold build. apply (build_fold decode encode t [] Hd Hs). Qed.

(* ---------- generic table theorems ---------- *)

Theorem roundtrip_generic : forall L decode (encode : kv -> list N) t, layout_ok L ->
  Forall (fun e => row_ok L (encode e)) t ->
  (forall e, In e t -> decode (encode e) = Some e) -> sorted_strict t ->
  load_with L decode (save_bytes L (map encode t)) = LOk t.
Proof.
  intros L decode encode t HL Hrows Hd Hs. unfold load_with.
  rewrite load_rows_save; [apply build_encode; assumption | exact HL |].
  apply Forall_forall. intros r Hr. apply in_map_iff in Hr. destruct Hr as (e & E & He). subst r.
  rewrite Forall_forall in Hrows. apply Hrows. exact He.
Qed.

Theorem prefix_generic : forall L decode (encode : kv -> list N) t, layout_ok L -> l_strict L = true ->
  Forall (fun e => row_ok L (encode e)) t ->
  forall n, (n < length (save_bytes L (map encode t)))%nat ->
  load_with L decode (firstn n (save_bytes L (map encode t))) = LError.
Proof.
  intros L decode encode t HL Hstrict Hrows n Hn. unfold load_with.
  rewrite load_rows_prefix; [reflexivity | exact HL | exact Hstrict | | exact Hn].
  apply Forall_forall. intros r Hr. apply in_map_iff in Hr. destruct Hr as (e & E & He). subst r.
  rewrite Forall_forall in Hrows. apply (row_ok_len L _ HL). apply Hrows. exact He.
Qed.

Lemma rows_ok_map : forall L (encode : kv -> list N) (P : kv -> Prop) t,
  (forall e, P e -> row_ok L (encode e)) -> Forall P t -> Forall (row_ok L) (map encode t).
Proof.
  intros L encode P t H Ht. apply Forall_forall. intros r Hr. apply in_map_iff in Hr.
  destruct Hr as (e & E & He). subst r. apply H. rewrite Forall_forall in Ht. apply Ht. exact He.
Qed.

Lemma rows_len_of_ok : forall L rows, layout_ok L -> Forall (row_ok L) rows -> Forall (row_len L) rows.
Proof.
  intros L rows HL H. eapply Forall_impl; [|exact H]. intros r Hr. apply (row_ok_len L r HL Hr).
Qed.

Lemma Forall_map_in : forall (A B : Type) (f : A -> B) (P : A -> Prop) (Q : B -> Prop) l,
  (forall a, P a -> Q (f a)) -> Forall P l -> Forall (fun a => Q (f a)) l.
Proof. intros A B f P Q l H Hl. eapply Forall_impl; [|exact Hl]. intros a Ha. apply H. exact Ha. Qed.

Lemma pow256_8 : 256 ^ 8 = 2 ^ 64.
Proof. reflexivity. Qed.
Lemma pow256_4 : 256 ^ 4 = 2 ^ 32.
Proof. reflexivity. Qed.

(* ---------- metric ---------- *)

Lemma metric_row_ok : forall e, wf_metric_entry e -> row_ok metric_layout (metric_encode e).
Proof.
  intros e (p & d & E & Hp & Hd). subst e. unfold row_ok, metric_encode.
  cbn [fst snd app l_wwidths metric_layout]. unfold METRIC_WRITER_WIDTHS.
  repeat constructor; [rewrite pow256_8 | rewrite pow256_4]; assumption.
Qed.

Lemma metric_decode_encode : forall e, wf_metric_entry e -> metric_decode (metric_encode e) = Some e.
Proof. intros e (p & d & E & _ & _). subst e. reflexivity. Qed.

Theorem roundtrip_metric : forall t, wf_metric_table t -> sorted_strict t ->
  load_metric (save_metric t) = LOk t.
Proof.
  intros t Hwf Hs. unfold load_metric, save_metric.
  apply roundtrip_generic; [exact metric_layout_ok | | | exact Hs].
  - eapply Forall_impl; [|exact Hwf]. exact metric_row_ok.
  - intros e He. apply metric_decode_encode. unfold wf_metric_table in Hwf.
    rewrite Forall_forall in Hwf. apply Hwf. exact He.
Qed.

Theorem prefix_metric : forall t, wf_metric_table t ->
  forall n, (n < length (save_metric t))%nat -> load_metric (firstn n (save_metric t)) = LError.
Proof.
  intros t Hwf n Hn. unfold load_metric, save_metric in *.
  apply prefix_generic; [exact metric_layout_ok | exact metric_strict | | exact Hn].
  eapply Forall_impl; [|exact Hwf]. exact metric_row_ok.
Qed.

(* ---------- lookup ---------- *)

Lemma obs_code_fold_lt : forall l a, a < 2 ^ 64 ->
  fold_left (fun acc c => u64 (N.lor (N.shiftl acc 8) (1 + c))) l a < 2 ^ 64.
Proof.
  induction l as [|c l IH]; intros a Ha.
  - exact Ha.
  - cbn [fold_left]. apply IH. unfold u64. change two64 with (2 ^ 64).
    apply N.mod_upper_bound. discriminate.
Qed.

Lemma i64_u64_i64 : forall x, x < 2 ^ 64 -> i64_of_u64 (u64_of_i64 (i64_of_u64 x)) = i64_of_u64 x.
Proof.
  intros x Hx. change (2 ^ 64) with 18446744073709551616 in Hx.
  unfold i64_of_u64 at 2 3.
  destruct (N.ltb_spec x 9223372036854775808) as [Hlt|Hge].
  - replace (u64_of_i64 (Z.of_N x)) with x by (unfold u64_of_i64; lia).
    unfold i64_of_u64. destruct (N.ltb_spec x 9223372036854775808); [reflexivity|lia].
  - replace (u64_of_i64 (Z.of_N x - 18446744073709551616)) with x by (unfold u64_of_i64; lia).
    unfold i64_of_u64. destruct (N.ltb_spec x 9223372036854775808); [lia|reflexivity].
Qed.

Lemma u64_of_i64_lt : forall z, u64_of_i64 z < 2 ^ 64.
Proof. intros z. change (2 ^ 64) with 18446744073709551616. unfold u64_of_i64. lia. Qed.

Lemma lookup_row_ok : forall e, wf_lookup_entry e -> row_ok lookup_layout (lookup_encode e).
Proof.
  intros e (pk & pb & a & E & _ & Ha & _). subst e. unfold row_ok, lookup_encode.
  cbn [l_wwidths lookup_layout]. unfold LOOKUP_WRITER_WIDTHS.
  repeat constructor; rewrite pow256_8; [apply u64_of_i64_lt | exact Ha].
Qed.

Lemma lookup_decode_encode : forall e, wf_lookup_entry e -> lookup_decode (lookup_encode e) = Some e.
Proof.
  intros e (pk & pb & a & E & Hobs & Ha & Habs). subst e. unfold lookup_encode, lookup_decode.
  assert (Hi : i64_of_u64 (u64_of_i64 (obs_to_i64 (mkObs pk pb))) = obs_to_i64 (mkObs pk pb)).
  { unfold obs_to_i64. apply i64_u64_i64. apply obs_code_fold_lt. reflexivity. }
  rewrite Hi, (obs_i64 _ Hobs).
  destruct (abs_of_u64 a) as [x|]; [reflexivity | exfalso; apply Habs; reflexivity].
Qed.

Theorem roundtrip_lookup : forall t, wf_lookup_table t -> sorted_strict t ->
  load_lookup (save_lookup t) = LOk t.
Proof.
  intros t Hwf Hs. unfold load_lookup, save_lookup.
  apply roundtrip_generic; [exact lookup_layout_ok | | | exact Hs].
  - eapply Forall_impl; [|exact Hwf]. exact lookup_row_ok.
  - intros e He. apply lookup_decode_encode. unfold wf_lookup_table in Hwf.
    rewrite Forall_forall in Hwf. apply Hwf. exact He.
Qed.

Theorem prefix_lookup : forall t, wf_lookup_table t ->
  forall n, (n < length (save_lookup t))%nat -> load_lookup (firstn n (save_lookup t)) = LError.
Proof.
  intros t Hwf n Hn. unfold load_lookup, save_lookup in *.
  apply prefix_generic; [exact lookup_layout_ok | exact lookup_strict | | exact Hn].
  eapply Forall_impl; [|exact Hwf]. exact lookup_row_ok.
Qed.

(* ---------- profile ---------- *)

Lemma i16_of_bits_range : forall x, (-32768 <= i16_of_bits x <= 32767)%Z.
Proof.
  intros x. unfold i16_of_bits. cbv zeta.
  assert (H : x mod two16 < 65536) by (apply N.mod_upper_bound; discriminate).
  destruct (N.ltb_spec (x mod two16) 32768); lia.
Qed.

Lemma wf_edge_raise_range : forall n d, wf_edge (ERaise n d) ->
  (-32768 <= n <= 32767)%Z /\ (-32768 <= d <= 32767)%Z.
Proof.
  intros n d H. unfold wf_edge, edge_of_u64 in H.
  set (v := edge_to_u64 (ERaise n d)) in *.
  unfold EDGE_U64_RAISE_DEC in H. cbv beta iota zeta in H.
  repeat match type of H with
         | (if ?c then _ else _) = _ => destruct c; [try discriminate|]
         end; try discriminate.
  injection H as Hn Hd. rewrite <- Hn, <- Hd.
  split; apply i16_of_bits_range.
Qed.

Lemma edge_of_key_key : forall ed, wf_edge ed -> edge_of_key (edge_key ed) = Some ed.
Proof.
  intros ed H. destruct ed as [| | | |n d|]; try reflexivity.
  destruct (wf_edge_raise_range n d H) as [Hn Hd].
  cbn [edge_key edge_of_key]. unfold i16_key. f_equal. f_equal; lia.
Qed.

Lemma lor_lt_pow2 : forall a b n, a < 2 ^ n -> b < 2 ^ n -> N.lor a b < 2 ^ n.
Proof.
  intros a b n Ha Hb. apply lt_pow2_of_bits. intros k Hk.
  rewrite N.lor_spec, (testbit_high_lt a n k Ha Hk), (testbit_high_lt b n k Hb Hk). reflexivity.
Qed.

Lemma edge_to_u64_lt : forall ed, edge_to_u64 ed < 2 ^ 64.
Proof.
  intros ed. destruct ed as [| | | |n d|];
    [reflexivity | reflexivity | reflexivity | reflexivity | | reflexivity].
  unfold edge_to_u64, EDGE_U64_RAISE_ENC. cbv beta iota zeta.
  apply lor_lt_pow2; [apply lor_lt_pow2; [reflexivity|]|];
    unfold u64; change two64 with (2 ^ 64); apply N.mod_upper_bound; discriminate.
Qed.

Lemma profile_encode_eq : forall past ar present future t n d r p ed,
  [t; n; d] = edge_key ed -> wf_edge ed ->
  profile_encode ([past; ar; present; future; t; n; d], [r; p])
  = [past; present; future; edge_to_u64 ed; r; p].
Proof.
  intros past ar present future t n d r p ed Hk Hed. unfold profile_encode.
  rewrite Hk, (edge_of_key_key ed Hed). reflexivity.
Qed.

Lemma profile_row_ok : forall e, wf_profile_entry e -> row_ok profile_layout (profile_encode e).
Proof.
  intros e (past & ar & present & future & t & n & d & r & p & ed & E & H1 & H2 & H3 & _ & Hk & Hed & Hr & Hp).
  subst e. rewrite (profile_encode_eq _ _ _ _ _ _ _ _ _ ed Hk Hed). unfold row_ok.
  cbn [l_wwidths profile_layout]. unfold PROFILE_WRITER_WIDTHS.
  repeat constructor; rewrite ?pow256_8, ?pow256_4; try assumption. apply edge_to_u64_lt.
Qed.

Lemma profile_decode_encode : forall e, wf_profile_entry e -> profile_decode (profile_encode e) = Some e.
Proof.
  intros e (past & ar & present & future & t & n & d & r & p & ed & E & _ & _ & _ & Har & Hk & Hed & _ & _).
  subst e. rewrite (profile_encode_eq _ _ _ _ _ _ _ _ _ ed Hk Hed). unfold profile_decode.
  rewrite Har. unfold wf_edge in Hed. rewrite Hed, <- Hk. reflexivity.
Qed.

Theorem roundtrip_profile : forall t, wf_profile_table t -> sorted_strict t ->
  load_profile (save_profile t) = LOk t.
Proof.
  intros t Hwf Hs. unfold load_profile, save_profile.
  apply roundtrip_generic; [exact profile_layout_ok | | | exact Hs].
  - eapply Forall_impl; [|exact Hwf]. exact profile_row_ok.
  - intros e He. apply profile_decode_encode. unfold wf_profile_table in Hwf.
    rewrite Forall_forall in Hwf. apply Hwf. exact He.
Qed.

Theorem prefix_profile : forall t, wf_profile_table t ->
  forall n, (n < length (save_profile t))%nat -> load_profile (firstn n (save_profile t)) = LError.
Proof.
  intros t Hwf n Hn. unfold load_profile, save_profile in *.
  apply prefix_generic; [exact profile_layout_ok | exact profile_strict | | exact Hn].
  eapply Forall_impl; [|exact Hwf]. exact profile_row_ok.
Qed.

(* which edges are well formed: the five plain ones and every raise with 0 <= n, d <= 255 *)
Lemma wf_edge_plain : wf_edge EDraw /\ wf_edge EFold /\ wf_edge ECheck /\ wf_edge ECall /\ wf_edge EShove.
Proof. repeat split; vm_compute; reflexivity. Qed.

Definition edge_eqb (a b : edge) : bool :=
  match a, b with
  | EDraw, EDraw | EFold, EFold | ECheck, ECheck | ECall, ECall | EShove, EShove => true
  | ERaise n d, ERaise n' d' => Z.eqb n n' && Z.eqb d d'
  | _, _ => false end.

Lemma edge_eqb_eq : forall a b, edge_eqb a b = true -> a = b.
Proof.
  intros a b H. destruct a, b; try reflexivity; try discriminate.
  cbn [edge_eqb] in H. apply andb_prop in H. destruct H as [H1 H2].
  apply Z.eqb_eq in H1. apply Z.eqb_eq in H2. subst. reflexivity.
Qed.

Definition raise_check (n d : N) : bool :=
  match edge_of_u64 (edge_to_u64 (ERaise (Z.of_N n) (Z.of_N d))) with
  | Some e => edge_eqb e (ERaise (Z.of_N n) (Z.of_N d)) | None => false end.

Lemma raise_check_all :
  forallb (fun n => forallb (raise_check n) (nseq 256 0)) (nseq 256 0) = true.
Proof. vm_compute. reflexivity. Qed.

Lemma wf_edge_raise : forall n d, (0 <= n <= 255)%Z -> (0 <= d <= 255)%Z -> wf_edge (ERaise n d).
Proof.
  intros n d Hn Hd. pose proof raise_check_all as H. rewrite forallb_forall in H.
  specialize (H (Z.to_N n)). rewrite forallb_forall in H.
  assert (Hin : forall z, (0 <= z <= 255)%Z -> In (Z.to_N z) (nseq 256 0)).
  { intros z Hz. apply C15_Finite.nseq_In. lia. }
  specialize (H (Hin n Hn) (Z.to_N d) (Hin d Hd)). unfold raise_check in H.
  rewrite !Z2N.id in H by lia. unfold wf_edge.
  destruct (edge_of_u64 (edge_to_u64 (ERaise n d))) as [e|]; [|discriminate].
  apply edge_eqb_eq in H. subst e. reflexivity.
Qed.

Lemma wf_edge_all_edges : forall e, In e all_edges -> wf_edge e.
Proof. intros e H. apply C15_Finite.edge_u64. exact H. Qed.

(* ---------- transitions ---------- *)

Lemma transitions_row_ok : forall r, wf_transitions_row r -> row_ok transitions_layout r.
Proof.
  intros r (a & b & c & E & Ha & Hb & Hc). subst r. unfold row_ok.
  cbn [l_wwidths transitions_layout]. unfold TRANSITIONS_WRITER_WIDTHS.
  repeat constructor; rewrite ?pow256_8, ?pow256_4; assumption.
Qed.

Theorem prefix_transitions : forall rows, Forall wf_transitions_row rows ->
  (forall n, (n < length (save_bytes transitions_layout rows))%nat ->
     load_transitions_rows (firstn n (save_bytes transitions_layout rows)) = LError) /\
  load_transitions_rows (save_bytes transitions_layout rows) = LOk rows.
Proof.
  intros rows H.
  assert (Hok : Forall (row_ok transitions_layout) rows)
    by (eapply Forall_impl; [|exact H]; exact transitions_row_ok).
  split.
  - intros n Hn. unfold load_transitions_rows.
    apply load_rows_prefix; [exact transitions_layout_ok | exact transitions_strict | | exact Hn].
    apply rows_len_of_ok; [exact transitions_layout_ok | exact Hok].
  - unfold load_transitions_rows. apply load_rows_save; [exact transitions_layout_ok | exact Hok].
Qed.

(* ---------- C17_wellformed ---------- *)

Theorem wellformed_metric : forall t, wf_metric_table t ->
  exists tuples, pg_parse (save_metric t) = Some tuples /\ length tuples = length t /\
                 Forall (fun row => typed_ok METRIC_COLUMN_TYPES row = true) tuples.
Proof.
  intros t Hwf. unfold save_metric.
  destruct (wellformed_generic metric_layout METRIC_COLUMN_TYPES (map metric_encode t)
              metric_layout_pg_ok metric_types) as (tuples & Hp & Hl & Ht).
  - apply rows_len_of_ok; [exact metric_layout_ok|].
    apply (rows_ok_map _ _ wf_metric_entry); [exact metric_row_ok | exact Hwf].
  - exists tuples. rewrite map_length in Hl. repeat split; assumption.
Qed.

Theorem wellformed_lookup : forall t, wf_lookup_table t ->
  exists tuples, pg_parse (save_lookup t) = Some tuples /\ length tuples = length t /\
                 Forall (fun row => typed_ok LOOKUP_COLUMN_TYPES row = true) tuples.
Proof.
  intros t Hwf. unfold save_lookup.
  destruct (wellformed_generic lookup_layout LOOKUP_COLUMN_TYPES (map lookup_encode t)
              lookup_layout_pg_ok lookup_types) as (tuples & Hp & Hl & Ht).
  - apply rows_len_of_ok; [exact lookup_layout_ok|].
    apply (rows_ok_map _ _ wf_lookup_entry); [exact lookup_row_ok | exact Hwf].
  - exists tuples. rewrite map_length in Hl. repeat split; assumption.
Qed.

Theorem wellformed_profile : forall t, wf_profile_table t ->
  exists tuples, pg_parse (save_profile t) = Some tuples /\ length tuples = length t /\
                 Forall (fun row => typed_ok PROFILE_COLUMN_TYPES row = true) tuples.
Proof.
  intros t Hwf. unfold save_profile.
  destruct (wellformed_generic profile_layout PROFILE_COLUMN_TYPES (map profile_encode t)
              profile_layout_pg_ok profile_types) as (tuples & Hp & Hl & Ht).
  - apply rows_len_of_ok; [exact profile_layout_ok|].
    apply (rows_ok_map _ _ wf_profile_entry); [exact profile_row_ok | exact Hwf].
  - exists tuples. rewrite map_length in Hl. repeat split; assumption.
Qed.

Theorem wellformed_transitions : forall rows, Forall wf_transitions_row rows ->
  exists tuples, pg_parse (save_bytes transitions_layout rows) = Some tuples /\
                 length tuples = length rows /\
                 Forall (fun row => typed_ok TRANSITIONS_COLUMN_TYPES row = true) tuples.
Proof.
  intros rows H.
  apply (wellformed_generic transitions_layout TRANSITIONS_COLUMN_TYPES rows
           transitions_layout_pg_ok transitions_types).
  apply rows_len_of_ok; [exact transitions_layout_ok|].
  eapply Forall_impl; [|exact H]. exact transitions_row_ok.
Qed.

(* ---------- C17_field_values ---------- *)

Lemma field_values_table : forall L (encode : kv -> list N) (P : kv -> Prop) t tuples,
  layout_pg_ok L -> (forall e, P e -> row_ok L (encode e)) -> Forall P t ->
  pg_parse (save_bytes L (map encode t)) = Some tuples ->
  forall k i e row, nth_error t k = Some e -> nth_error tuples k = Some row ->
    (i < N.to_nat (l_nfields L))%nat ->
    exists w v, nth_error (l_wwidths L) i = Some w /\ nth_error (encode e) i = Some v /\
                nth_error row i = Some (w, be w v) /\ be_value (be w v) = v.
Proof.
  intros L encode P t tuples HP Hrow Hwf Hparse k i e row He Hr Hi.
  apply (field_values_generic L (map encode t) tuples HP
           (rows_ok_map L encode P t Hrow Hwf) Hparse k i (encode e) row); try assumption.
  rewrite nth_error_map, He. reflexivity.
Qed.

Theorem field_values_metric : forall t tuples, wf_metric_table t ->
  pg_parse (save_metric t) = Some tuples ->
  forall k i e row, nth_error t k = Some e -> nth_error tuples k = Some row ->
    (i < length METRIC_COPY_COLUMNS)%nat ->
    exists w v, nth_error METRIC_WRITER_WIDTHS i = Some w /\ nth_error (metric_encode e) i = Some v /\
                nth_error row i = Some (w, be w v) /\ be_value (be w v) = v.
Proof.
  intros t tuples Hwf Hp k i e row He Hr Hi.
  exact (field_values_table metric_layout metric_encode wf_metric_entry t tuples
           metric_layout_pg_ok metric_row_ok Hwf Hp k i e row He Hr Hi).
Qed.

Theorem field_values_lookup : forall t tuples, wf_lookup_table t ->
  pg_parse (save_lookup t) = Some tuples ->
  forall k i e row, nth_error t k = Some e -> nth_error tuples k = Some row ->
    (i < length LOOKUP_COPY_COLUMNS)%nat ->
    exists w v, nth_error LOOKUP_WRITER_WIDTHS i = Some w /\ nth_error (lookup_encode e) i = Some v /\
                nth_error row i = Some (w, be w v) /\ be_value (be w v) = v.
Proof.
  intros t tuples Hwf Hp k i e row He Hr Hi.
  exact (field_values_table lookup_layout lookup_encode wf_lookup_entry t tuples
           lookup_layout_pg_ok lookup_row_ok Hwf Hp k i e row He Hr Hi).
Qed.

Theorem field_values_profile : forall t tuples, wf_profile_table t ->
  pg_parse (save_profile t) = Some tuples ->
  forall k i e row, nth_error t k = Some e -> nth_error tuples k = Some row ->
    (i < length PROFILE_COPY_COLUMNS)%nat ->
    exists w v, nth_error PROFILE_WRITER_WIDTHS i = Some w /\ nth_error (profile_encode e) i = Some v /\
                nth_error row i = Some (w, be w v) /\ be_value (be w v) = v.
Proof.
  intros t tuples Hwf Hp k i e row He Hr Hi.
  exact (field_values_table profile_layout profile_encode wf_profile_entry t tuples
           profile_layout_pg_ok profile_row_ok Hwf Hp k i e row He Hr Hi).
Qed.

(* what the encoded profile row is, column by column *)
Lemma profile_encode_wf : forall e, wf_profile_entry e ->
  exists past ar present future ed r p,
    e = ([past; ar; present; future] ++ edge_key ed, [r; p]) /\
    profile_encode e = [past; present; future; edge_to_u64 ed; r; p].
Proof.
  intros e (past & ar & present & future & t & n & d & r & p & ed & E & _ & _ & _ & _ & Hk & Hed & _ & _).
  exists past, ar, present, future, ed, r, p. subst e. split.
  - rewrite <- Hk. reflexivity.
  - apply profile_encode_eq; assumption.
Qed.
