(* Proofs/C19_Walker.v -- the traversing player alternates every epoch, starting with player 0. *)
From Coq Require Import ZArith Lia.
From RP Require Import Model.Discount.
Open Scope Z_scope.

Lemma walker_spec :
  walker 0 = 0 /\
  forall k, 0 <= k -> walker (k + 1) = 1 - walker k /\ (walker k = 0 \/ walker k = 1).
Proof.
  split; [ reflexivity | ].
  intros k Hk. unfold walker.
  pose proof (Z.mod_pos_bound k 2 ltac:(lia)) as Hb.
  split; [ | lia ].
  rewrite Zplus_mod. 
  assert (Hcase : k mod 2 = 0 \/ k mod 2 = 1) by lia.
  destruct Hcase as [ H0 | H1 ].
  - rewrite H0. reflexivity.
  - rewrite H1. reflexivity.
Qed.

(* closed form: player 0 on even epochs, player 1 on odd epochs *)
Lemma walker_even_odd : forall k, 0 <= k -> walker (2 * k) = 0 /\ walker (2 * k + 1) = 1.
Proof.
  intros k Hk. unfold walker. split.
  - rewrite Z.mul_comm. apply Z_mod_mult.
  - rewrite Z.mul_comm, Z.add_comm, Z_mod_plus_full. reflexivity.
Qed.
