(* Proofs/C03_Examples.v -- concrete instances for property C03: the D3 witness, the need for the
   turn check in the Raise arm, and satisfiability of the hypotheses of the C03 theorems *)
From Coq Require Import ZArith NArith List Bool Lia.
From RP Require Import Base.Bits Gen.GenLib Gen.GenFixes Model.Codec Model.Showdown Model.Game
                       Spec.SpecNLHE Spec.SpecGameInv Spec.SpecRel.
Import ListNotations.
Open Scope Z_scope.

Definition ex_holes : list N := [mask_of_bits [51; 50]%N; mask_of_bits [41; 40]%N].
Definition ex_flop : N := mask_of_bits [0; 1; 2]%N.
Definition ex_turn : N := mask_of_bits [3]%N.
Definition ex_river : N := mask_of_bits [4]%N.
(* limp, check; bet, raise, call; check, check; all-in, call *)
Definition ex_line : list action :=
  [Call 1; Check; Draw ex_flop; Raise 2; Raise 6; Call 4; Draw ex_turn; Check; Check; Draw ex_river;
   Shove 92; Shove 92].

Lemma ex_holes_wf : wf_holes Standard ex_holes.
Proof.
  exists (mask_of_bits [51; 50]%N), (mask_of_bits [41; 40]%N). split; [reflexivity|].
  vm_compute. repeat split; reflexivity.
Qed.

Lemma ex_line_runs :
  exists g0 g, root Standard ex_holes = Some g0 /\ run Standard g0 ex_line = Some g /\ turn_of g = Terminal.
Proof.
  assert (H : match root Standard ex_holes with
              | Some g0 => match run Standard g0 ex_line with Some g => turn_of g = Terminal | None => False end
              | None => False end) by (vm_compute; reflexivity).
  destruct (root Standard ex_holes) as [g0|]; [|contradiction].
  destruct (run Standard g0 ex_line) as [g|] eqn:Hr; [|contradiction].
  exists g0, g. repeat split; assumption.
Qed.

Lemma ex_reachable : exists g, reachable Standard ex_holes g /\ turn_of g = Terminal.
Proof.
  destruct ex_line_runs as (g0 & g & H0 & H1 & H2). exists g. split; [|exact H2].
  exists g0, ex_line. split; assumption.
Qed.

Lemma is_allowed_with_guard : forall d g a, is_allowed_with RAISE_ARM_CHECKS_TURN d g a = is_allowed d g a.
Proof. intros d g a. unfold is_allowed_with, is_allowed. destruct (must_stop g), a; reflexivity. Qed.

(* D3 witness: after [Call 1; Check] pre-flop the engine awaits the flop and rejects Raise 2 *)
Lemma d3_witness :
  exists g0 g, root Standard ex_holes = Some g0 /\ run Standard g0 [Call 1; Check] = Some g /\
    turn_of g = Chance /\ is_allowed Standard g (Raise 2) = Some false /\ apply Standard g (Raise 2) = None.
Proof.
  assert (H : match root Standard ex_holes with
              | Some g0 => match run Standard g0 [Call 1; Check] with
                           | Some g => turn_of g = Chance /\ is_allowed Standard g (Raise 2) = Some false
                                       /\ apply Standard g (Raise 2) = None
                           | None => False end
              | None => False end) by (vm_compute; repeat split; reflexivity).
  destruct (root Standard ex_holes) as [g0|]; [|contradiction].
  destruct (run Standard g0 [Call 1; Check]) as [g|] eqn:Hr; [|contradiction].
  exists g0, g. destruct H as (H1 & H2 & H3). repeat split; assumption.
Qed.

(* without the turn check of the Raise arm, same_moves fails at that state: the engine would accept
   Raise 2 while the rule book (a card is awaited) refuses it *)
Lemma needs_turn_check :
  exists g0 g s, root Standard ex_holes = Some g0 /\ run Standard g0 [Call 1; Check] = Some g /\
    srun Standard (sroot ex_holes) [Call 1; Check] = Some s /\
    sturn s = (1, 0) /\
    is_allowed_with false Standard g (Raise 2) = Some true /\ slegal Standard s (Raise 2) = false /\
    ~ (forall a, is_allowed_with false Standard g a = Some (slegal Standard s a)).
Proof.
  assert (H : match root Standard ex_holes with
              | Some g0 => match run Standard g0 [Call 1; Check], srun Standard (sroot ex_holes) [Call 1; Check] with
                           | Some g, Some s => sturn s = (1, 0) /\
                               is_allowed_with false Standard g (Raise 2) = Some true /\
                               slegal Standard s (Raise 2) = false
                           | _, _ => False end
              | None => False end) by (vm_compute; repeat split; reflexivity).
  destruct (root Standard ex_holes) as [g0|]; [|contradiction].
  destruct (run Standard g0 [Call 1; Check]) as [g|] eqn:Hr; [|contradiction].
  destruct (srun Standard (sroot ex_holes) [Call 1; Check]) as [s|] eqn:Hs; [|contradiction].
  exists g0, g, s. destruct H as (H1 & H2 & H3). repeat split; try assumption.
  intros Hall. specialize (Hall (Raise 2)). rewrite H2, H3 in Hall. discriminate Hall.
Qed.

(* an action the engine refuses (hypothesis of C03_reject) *)
Lemma ex_reject : exists g0, root Standard ex_holes = Some g0 /\ is_allowed Standard g0 (Raise 1) <> Some true
                             /\ is_allowed Standard g0 (Call (-1)) <> Some true.
Proof.
  assert (H : match root Standard ex_holes with
              | Some g0 => is_allowed Standard g0 (Raise 1) = Some false /\ is_allowed Standard g0 (Call (-1)) = Some false
              | None => False end) by (vm_compute; split; reflexivity).
  destruct (root Standard ex_holes) as [g0|]; [|contradiction].
  exists g0. destruct H as [H1 H2]. rewrite H1, H2. repeat split; discriminate.
Qed.
