(* Proofs/C01_Examples.v -- concrete hands (by vm_compute): every class is hit in both decks;
   flush vs full house flips between the decks; flush kickers count.
   Card = 4 * rank + suit, rank 0 = deuce .. 12 = ace, suit 0 = c, 1 = d, 2 = h, 3 = s. *)
From Coq Require Import NArith List Bool.
From RP Require Import Base.Bits Gen.GenCards Model.Codec Model.Evaluator Spec.SpecPoker Spec.SpecStrength Spec.SpecHand.
Import ListNotations.
Open Scope N_scope.

Definition card (r s : N) : N := 4 * r + s.
Definition hand_of (l : list (N * N)) : N := mask_of_bits (map (fun rs => card (fst rs) (snd rs)) l).

Definition h_high  := hand_of [(12,3); (11,1); (10,2); (9,0); (7,3)].   (* As Kd Qh Jc 9s *)
Definition h_pair  := hand_of [(12,3); (12,1); (11,2); (10,0); (9,3)].  (* As Ad Kh Qc Js *)
Definition h_two   := hand_of [(12,3); (12,1); (11,2); (11,0); (10,3)]. (* As Ad Kh Kc Qs *)
Definition h_trips := hand_of [(12,3); (12,1); (12,2); (11,0); (10,3)]. (* As Ad Ah Kc Qs *)
Definition h_str   := hand_of [(12,3); (11,1); (10,2); (9,0); (8,3)].   (* As Kd Qh Jc Ts *)
Definition h_flush := hand_of [(12,3); (11,3); (10,3); (9,3); (7,3)].   (* As Ks Qs Js 9s *)
Definition h_flush8 := hand_of [(12,3); (11,3); (10,3); (9,3); (6,3)].  (* As Ks Qs Js 8s *)
Definition h_full  := hand_of [(12,2); (12,1); (12,0); (11,2); (11,1)]. (* Ah Ad Ac Kh Kd *)
Definition h_quads := hand_of [(12,3); (12,1); (12,2); (12,0); (11,3)]. (* As Ad Ah Ac Ks *)
Definition h_sf    := hand_of [(12,3); (11,3); (10,3); (9,3); (8,3)].   (* As Ks Qs Js Ts *)
Definition h_wheel_std   := hand_of [(12,3); (0,1); (1,2); (2,0); (3,3)]. (* As 2d 3h 4c 5s *)
Definition h_wheel_short := hand_of [(12,3); (4,1); (5,2); (6,0); (7,3)]. (* As 6d 7h 8c 9s *)
(* seven cards: pair of aces on a board holding a flush *)
Definition h_seven := hand_of [(12,0); (12,1); (11,3); (9,3); (7,3); (6,3); (4,3)].

Definition nine_hands : list N := [h_high; h_pair; h_two; h_trips; h_str; h_flush; h_full; h_quads; h_sf].
Definition nine_cats : list category :=
  [HighCard; OnePair; TwoPair; ThreeOAK; Straight; Flush; FullHouse; FourOAK; StraightFlush].
Definition cat_of (d : deck) (h : N) : option category := option_map (fun s => rcat (svalue s)) (strength_of d h).

Ltac prove_valid := unfold valid_hand; repeat split; vm_compute; congruence.

Lemma ex_valid : forall d, Forall (valid_hand d) (h_flush8 :: h_seven :: nine_hands).
Proof. intros d. destruct d; repeat constructor; vm_compute; congruence. Qed.
Lemma ex_valid_wheels : valid_hand Standard h_wheel_std /\ valid_hand Short h_wheel_short.
Proof. repeat split; vm_compute; congruence. Qed.

Lemma ex_nine_classes : forall d, map (cat_of d) nine_hands = map Some nine_cats.
Proof. intros d. destruct d; vm_compute; reflexivity. Qed.

Lemma ex_wheels :
  option_map svalue (strength_of Standard h_wheel_std) = Some (mkRanking Straight 3 0) /\
  option_map svalue (strength_of Short h_wheel_short) = Some (mkRanking Straight 7 0).
Proof. split; vm_compute; reflexivity. Qed.

Definition cmp_hands (d : deck) (h1 h2 : N) : option comparison :=
  match strength_of d h1, strength_of d h2 with
  | Some a, Some b => Some (cmp_strength d a b) | _, _ => None end.

Lemma ex_flush_vs_full :
  cmp_hands Standard h_flush h_full = Some Lt /\ cmp_hands Short h_flush h_full = Some Gt /\
  cmp_spec Standard (hand_cards h_flush) (hand_cards h_full) = Lt /\
  cmp_spec Short (hand_cards h_flush) (hand_cards h_full) = Gt.
Proof. repeat split; vm_compute; reflexivity. Qed.

Lemma ex_flush_kickers : forall d,
  cmp_hands d h_flush h_flush8 = Some Gt /\ cmp_spec d (hand_cards h_flush) (hand_cards h_flush8) = Gt.
Proof. intros d. destruct d; split; vm_compute; reflexivity. Qed.

Lemma ex_seven : forall d, cat_of d h_seven = Some Flush /\
  option_map (strength_value d) (strength_of d h_seven) = Some (best5 d (hand_cards h_seven)).
Proof. intros d. destruct d; split; vm_compute; reflexivity. Qed.

(* a well-formed strength that is not the image of h_high, to show wf_strength is inhabited twice *)
Lemma ex_wf : forall d, wf_strength d (mkStrength (mkRanking TwoPair 12 11) 1024)
                     /\ wf_strength d (mkStrength (mkRanking Flush 12 0) 2696).
Proof. intros d. split; unfold wf_strength; cbn [svalue rcat r1 r2 skicks]; repeat split; vm_compute; congruence. Qed.
