(* Proofs/C05_View.v -- property C05, layer L1: an observation seen as suit -> (pocket ranks, public ranks).
   The model's lanes, their keys (size, min rank, max rank) and the order are functions of this view;
   relabeling permutes the four entries; the counting argument (key completeness). *)
From Coq Require Import NArith ZArith List Bool Lia ZifyBool ZifyN ZifyNat Sorted Permutation.
From RP Require Import Base.Bits Gen.GenCards Gen.GenPerm Model.Codec Model.Evaluator Model.Iso.
From RP Require Import Spec.SpecCodec Spec.SpecIso Spec.SpecIsoWf.
From RP Require Import Proofs.BitsLemmas Proofs.C15_Hand Proofs.C05_Bits Proofs.C05_Sort.
Import ListNotations.
Open Scope N_scope.

Ltac Zify.zify_post_hook ::= Z.div_mod_to_equations.

Arguments N.add : simpl never.
Arguments N.mul : simpl never.
Arguments N.sub : simpl never.
Arguments N.shiftl : simpl never.
Arguments N.shiftr : simpl never.
Arguments N.land : simpl never.
Arguments N.lor : simpl never.
Arguments N.pow : simpl never.
Arguments N.testbit : simpl never.
Arguments N.div : simpl never.
Arguments N.modulo : simpl never.

(* ---------- rank sets ---------- *)

Definition ranks13 : list N := nseq 13 0.
(* ranks of the cards of suit s in hand h, ascending *)
Definition rset (h s : N) : list N := filter (fun r => N.testbit h (4 * r + s)) ranks13.
Definition vw : Type := (list N * list N)%type.
Definition view (o : obs) (s : N) : vw := (rset (pocket o) s, rset (public o) s).

Lemma ranks13_In : forall r, In r ranks13 <-> r < 13.
Proof.
  intros r. split.
  - intros H. vm_compute in H. intuition; subst; lia.
  - intros H. apply nseq_In. change (N.of_nat 13) with 13. lia.
Qed.

Lemma ranks13_sorted : StronglySorted N.lt ranks13.
Proof. apply strict_incb_sorted. vm_compute. reflexivity. Qed.

Lemma filter_sorted : forall (f : N -> bool) l, StronglySorted N.lt l -> StronglySorted N.lt (filter f l).
Proof.
  intros f. induction l as [|a l IH]; intros Hs.
  - constructor.
  - inversion Hs as [|a' l' Hs' Hf]; subst. cbn [filter]. destruct (f a); [|apply IH; exact Hs'].
    constructor; [apply IH; exact Hs'|]. apply Forall_forall. intros x Hx.
    apply filter_In in Hx. rewrite Forall_forall in Hf. apply Hf. tauto.
Qed.

Lemma rset_In : forall h s r, In r (rset h s) <-> r < 13 /\ N.testbit h (4 * r + s) = true.
Proof. intros h s r. unfold rset. rewrite filter_In, ranks13_In. tauto. Qed.

Lemma rset_sorted : forall h s, StronglySorted N.lt (rset h s).
Proof. intros h s. apply filter_sorted, ranks13_sorted. Qed.

Lemma filter_eq_pointwise : forall (f g : N -> bool) l, filter f l = filter g l ->
  forall x, In x l -> f x = g x.
Proof.
  intros f g. induction l as [|a l IH]; intros E x Hx; [destruct Hx|].
  cbn [filter] in E. destruct (f a) eqn:Fa, (g a) eqn:Ga.
  - injection E as E. destruct Hx as [Hx | Hx]; [subst x; congruence | apply IH; assumption].
  - exfalso. assert (H : In a (filter g l)) by (rewrite <- E; left; reflexivity).
    apply filter_In in H. destruct H as (_ & H). congruence.
  - exfalso. assert (H : In a (filter f l)) by (rewrite E; left; reflexivity).
    apply filter_In in H. destruct H as (_ & H). congruence.
  - destruct Hx as [Hx | Hx]; [subst x; congruence | apply IH; assumption].
Qed.

Lemma rset_eq_bits : forall h s t, rset h s = rset h t ->
  forall r, r < 13 -> N.testbit h (4 * r + s) = N.testbit h (4 * r + t).
Proof.
  intros h s t E r Hr. unfold rset in E.
  apply (filter_eq_pointwise _ _ _ E r). apply ranks13_In. exact Hr.
Qed.

Lemma rset_ext : forall h1 h2 s t,
  (forall r, r < 13 -> N.testbit h1 (4 * r + s) = N.testbit h2 (4 * r + t)) -> rset h1 s = rset h2 t.
Proof.
  intros h1 h2 s t H. unfold rset. apply filter_ext_in. intros r Hr. apply H. apply ranks13_In. exact Hr.
Qed.

(* relabeling permutes the entries of the view *)
Lemma rset_relabel : forall p h s, In p EXHAUST -> h < 2 ^ 64 -> s < 4 ->
  rset (relabel_hand p h) (perm_map p s) = rset h s.
Proof.
  intros p h s Hp Hh Hs. apply rset_ext. intros r _. apply relabel_testbit; assumption.
Qed.

Lemma view_relabel : forall d p o s, In p EXHAUST -> wf_obs_d d o -> s < 4 ->
  view (relabel_obs p o) (perm_map p s) = view o s.
Proof.
  intros d p o s Hp ((Hpk & Hpb & _) & _) Hs. unfold view, relabel_obs. cbn [pocket public].
  rewrite !rset_relabel by (try apply pow2_52_64; assumption). reflexivity.
Qed.

(* ---------- the cards of a lane ---------- *)

Lemma lane_testbit : forall d h s k, N.land h (hand_mask d) = h -> s < 4 ->
  N.testbit (hand_of_suit d h s) k = N.testbit h k && ((k <? 52) && (k mod 4 =? s)).
Proof.
  intros d h s k Hh Hs. unfold hand_of_suit, hand_of_u64.
  rewrite !N.land_spec, suit_mask_testbit by exact Hs.
  destruct (N.testbit h k) eqn:E; [|reflexivity].
  rewrite (in_mask_bit d h k Hh E). cbn [andb]. apply andb_true_r.
Qed.

Lemma lane_lt : forall d h s, hand_of_suit d h s < 2 ^ 52.
Proof.
  intros d h s. unfold hand_of_suit, hand_of_u64. apply lt_pow2_of_bits. intros k Hk.
  rewrite N.land_spec, (testbit_high_lt (hand_mask d) 52 k (hand_mask_lt d) Hk). apply andb_false_r.
Qed.

Lemma map_sorted : forall (f : N -> N) l, (forall x y, x < y -> f x < f y) ->
  StronglySorted N.lt l -> StronglySorted N.lt (map f l).
Proof.
  intros f l Hf. induction l as [|a l IH]; intros Hs.
  - constructor.
  - inversion Hs as [|a' l' Hs' Hfa]; subst. cbn [map]. constructor; [apply IH; exact Hs'|].
    apply Forall_forall. intros y Hy. apply in_map_iff in Hy. destruct Hy as (x & E & Hx). subst y.
    apply Hf. rewrite Forall_forall in Hfa. apply Hfa. exact Hx.
Qed.

Lemma lane_cards : forall d h s, N.land h (hand_mask d) = h -> s < 4 ->
  hand_cards (hand_of_suit d h s) = map (fun r => 4 * r + s) (rset h s).
Proof.
  intros d h s Hh Hs. apply sorted_lt_ext_eq.
  - apply hand_cards_sorted.
  - apply map_sorted; [intros x y Hxy; lia | apply rset_sorted].
  - intros k. rewrite (hand_cards_spec _ k (pow2_52_64 _ (lane_lt d h s))).
    rewrite (lane_testbit d h s k Hh Hs), in_map_iff. split.
    + intros H. rewrite !andb_true_iff in H. destruct H as (Hb & Hk & Hm).
      apply N.ltb_lt in Hk. apply N.eqb_eq in Hm.
      exists (k / 4). split; [lia|]. apply rset_In. split; [lia|].
      replace (4 * (k / 4) + s) with k by lia. exact Hb.
    + intros (r & E & Hr). apply rset_In in Hr. destruct Hr as (Hr & Hb). subst k.
      rewrite Hb. cbn [andb]. apply andb_true_iff. split; [apply N.ltb_lt | apply N.eqb_eq]; lia.
Qed.

(* ---------- keys of a lane as functions of its rank set ---------- *)

Definition rs_size (R : list N) : N := N.of_nat (length R).
Definition rs_min (R : list N) : option N := match R with [] => None | r :: _ => Some r end.
Definition rs_max (R : list N) : option N := match R with [] => None | _ :: _ => Some (last R 0) end.

Lemma last_In : forall (l : list N) d, l <> [] -> In (last l d) l.
Proof.
  induction l as [|a l IH]; intros d H; [congruence|].
  destruct l as [|b l]; [left; reflexivity|]. right. apply IH. discriminate.
Qed.

Lemma sorted_last_max : forall l d x, StronglySorted N.lt l -> In x l -> x <= last l d.
Proof.
  induction l as [|a l IH]; intros d x Hs Hx; [destruct Hx|].
  inversion Hs as [|a' l' Hs' Hf]; subst.
  destruct l as [|b l].
  - destruct Hx as [E | []]. subst x. cbn [last]. lia.
  - change (last (a :: b :: l) d) with (last (b :: l) d).
    destruct Hx as [E | Hx].
    + subst x. rewrite Forall_forall in Hf.
      pose proof (Hf _ (last_In (b :: l) d ltac:(discriminate))) as H. lia.
    + apply IH; assumption.
Qed.

Lemma log2_last_bits : forall x, x < 2 ^ 64 -> x <> 0 -> N.log2 x = last (set_bits64 x) 0.
Proof.
  intros x Hx Hnz.
  assert (Hin : In (N.log2 x) (set_bits64 x)) by (apply (set_bits64_spec x _ Hx), N.bit_log2; exact Hnz).
  assert (Hne : set_bits64 x <> []) by (intros E; rewrite E in Hin; destruct Hin).
  pose proof (sorted_last_max _ 0 _ (set_bits64_sorted x) Hin) as H1.
  pose proof (last_In (set_bits64 x) 0 Hne) as H2. apply set_bits64_testbit in H2.
  destruct (N.lt_ge_cases (N.log2 x) (last (set_bits64 x) 0)) as [Hlt | Hge]; [|lia].
  rewrite (N.bits_above_log2 x _ Hlt) in H2. discriminate.
Qed.

Lemma last_map : forall (f : N -> N) l d d', l <> [] -> last (map f l) d = f (last l d').
Proof.
  intros f. induction l as [|a l IH]; intros d d' H; [congruence|].
  destruct l as [|b l]; [reflexivity|].
  change (last (map f (a :: b :: l)) d) with (last (map f (b :: l)) d).
  change (last (a :: b :: l) d') with (last (b :: l) d'). apply IH. discriminate.
Qed.

Lemma lane_size : forall d h s, N.land h (hand_mask d) = h -> s < 4 ->
  hand_size (hand_of_suit d h s) = rs_size (rset h s).
Proof.
  intros d h s Hh Hs. rewrite hand_size_length, (lane_cards d h s Hh Hs), map_length. reflexivity.
Qed.

Lemma lane_min : forall d h s, N.land h (hand_mask d) = h -> s < 4 ->
  min_rank (hand_of_suit d h s) = rs_min (rset h s).
Proof.
  intros d h s Hh Hs. unfold min_rank. rewrite (lane_size d h s Hh Hs).
  unfold tz64. change (set_bits64 (hand_of_suit d h s)) with (hand_cards (hand_of_suit d h s)).
  rewrite (lane_cards d h s Hh Hs). unfold rs_size, rs_min.
  destruct (rset h s) as [|r R]; [reflexivity|].
  cbn [length map]. destruct (N.eqb_spec (N.of_nat (S (length R))) 0) as [E | _]; [lia|].
  f_equal. lia.
Qed.

Lemma lane_max : forall d h s, N.land h (hand_mask d) = h -> s < 4 ->
  max_rank (hand_of_suit d h s) = rs_max (rset h s).
Proof.
  intros d h s Hh Hs. unfold max_rank. rewrite (lane_size d h s Hh Hs).
  pose proof (lane_cards d h s Hh Hs) as Ec. unfold rs_size, rs_max.
  destruct (rset h s) as [|r R] eqn:ER; [reflexivity|].
  cbn [length]. destruct (N.eqb_spec (N.of_nat (S (length R))) 0) as [E | _]; [lia|].
  f_equal.
  assert (Hnz : hand_of_suit d h s <> 0).
  { intros E. rewrite E in Ec. vm_compute in Ec. discriminate. }
  rewrite (log2_last_bits _ (pow2_52_64 _ (lane_lt d h s)) Hnz).
  change (set_bits64 (hand_of_suit d h s)) with (hand_cards (hand_of_suit d h s)).
  rewrite Ec, (last_map _ (r :: R) 0 0) by discriminate. lia.
Qed.

(* ---------- the order on lanes, through the view ---------- *)

Definition vkey (k : order_key) (a b : vw) : comparison :=
  match k with
  | KPocketSize => N.compare (rs_size (fst a)) (rs_size (fst b))
  | KPublicSize => N.compare (rs_size (snd a)) (rs_size (snd b))
  | KPocketMin => cmp_opt (rs_min (fst a)) (rs_min (fst b))
  | KPublicMin => cmp_opt (rs_min (snd a)) (rs_min (snd b))
  | KPocketMax => cmp_opt (rs_max (fst a)) (rs_max (fst b))
  | KPublicMax => cmp_opt (rs_max (snd a)) (rs_max (snd b))
  | KSuit => Eq
  end.

Lemma colex_key : forall d o s t k, wf_obs_d d o -> s < 4 -> t < 4 ->
  cmp_key k (colex d o s) (colex d o t)
  = match k with KSuit => N.compare s t | _ => vkey k (view o s) (view o t) end.
Proof.
  intros d o s t k (_ & Mpk & Mpb) Hs Ht.
  destruct k; unfold cmp_key, colex, vkey, view; cbn [lsuit lpocket lpublic fst snd];
    rewrite ?(lane_size d), ?(lane_min d), ?(lane_max d) by assumption; reflexivity.
Qed.

(* the six keys before the suit tie-break *)
Definition K6 : list order_key := removelast ORDER_KEYS.
Lemma order_keys_split : ORDER_KEYS = K6 ++ [KSuit].
Proof. reflexivity. Qed.
Lemma K6_no_suit : forall k, In k K6 -> k <> KSuit.
Proof. intros k H. vm_compute in H. intuition; subst; discriminate. Qed.
Lemma K6_all : forall k, k <> KSuit -> In k K6.
Proof. intros k H. destruct k; vm_compute; tauto. Qed.

Definition vorder (a b : vw) : comparison := fold_left (fun acc k => lex acc (vkey k a b)) K6 Eq.

Lemma cmp_ok_vkey : forall k, cmp_ok (vkey k).
Proof.
  intros [| | | | | |]; unfold vkey.
  - apply (cmp_ok_pull vw N (fun a => rs_size (fst a)) N.compare cmp_ok_N).
  - apply (cmp_ok_pull vw N (fun a => rs_size (snd a)) N.compare cmp_ok_N).
  - apply (cmp_ok_pull vw (option N) (fun a => rs_min (fst a)) cmp_opt cmp_ok_opt).
  - apply (cmp_ok_pull vw (option N) (fun a => rs_min (snd a)) cmp_opt cmp_ok_opt).
  - apply (cmp_ok_pull vw (option N) (fun a => rs_max (fst a)) cmp_opt cmp_ok_opt).
  - apply (cmp_ok_pull vw (option N) (fun a => rs_max (snd a)) cmp_opt cmp_ok_opt).
  - apply cmp_ok_const.
Qed.

Lemma cmp_ok_vorder : cmp_ok vorder.
Proof. unfold vorder. apply (cmp_ok_chain vw order_key vkey K6 cmp_ok_vkey). Qed.

Lemma colex_order : forall d o s t, wf_obs_d d o -> s < 4 -> t < 4 ->
  order (colex d o s) (colex d o t) = lex (vorder (view o s) (view o t)) (N.compare s t).
Proof.
  intros d o s t Hwf Hs Ht. unfold order. rewrite order_keys_split.
  rewrite (chain_app order_key (fun k => cmp_key k _ _)). apply (f_equal2 lex).
  - unfold vorder. apply chain_ext. intros k Hk. rewrite (colex_key d o s t k Hwf Hs Ht).
    pose proof (K6_no_suit k Hk) as Hn. destruct k; try reflexivity. congruence.
  - cbn [fold_left lex]. apply (colex_key d o s t KSuit Hwf Hs Ht).
Qed.

Lemma vorder_Eq : forall a b, vorder a b = Eq <-> (forall k, k <> KSuit -> vkey k a b = Eq).
Proof.
  intros a b. unfold vorder. rewrite (chain_Eq order_key (fun k => vkey k a b)). split.
  - intros H k Hk. apply H, K6_all, Hk.
  - intros H k Hk. apply H, K6_no_suit, Hk.
Qed.

(* ---------- counting ---------- *)

Lemma NoDup_app_disj : forall (l1 l2 : list N), NoDup l1 -> NoDup l2 ->
  (forall x, In x l1 -> ~ In x l2) -> NoDup (l1 ++ l2).
Proof.
  induction l1 as [|a l1 IH]; intros l2 H1 H2 Hd.
  - exact H2.
  - inversion H1 as [|a' l1' Hna Hn1]; subst. cbn [app]. constructor.
    + rewrite in_app_iff. intros [H | H]; [exact (Hna H) | exact (Hd a (or_introl eq_refl) H)].
    + apply IH; [exact Hn1 | exact H2 | intros x Hx; apply Hd; right; exact Hx].
Qed.

Definition lane_list (h s : N) : list N := map (fun r => 4 * r + s) (rset h s).

Lemma lane_list_NoDup : forall h s, NoDup (lane_list h s).
Proof.
  intros h s. apply FinFun.Injective_map_NoDup.
  - intros x y E. lia.
  - apply StronglySorted_lt_NoDup, rset_sorted.
Qed.

Lemma lane_list_incl : forall h s, h < 2 ^ 64 -> incl (lane_list h s) (hand_cards h).
Proof.
  intros h s Hh k Hk. unfold lane_list in Hk. apply in_map_iff in Hk. destruct Hk as (r & E & Hr).
  apply rset_In in Hr. destruct Hr as (_ & Hb). subst k. apply (hand_cards_spec h _ Hh). exact Hb.
Qed.

Lemma rset_count1 : forall h s, h < 2 ^ 64 -> rs_size (rset h s) <= hand_size h.
Proof.
  intros h s Hh. rewrite hand_size_length. unfold rs_size.
  pose proof (NoDup_incl_length (lane_list_NoDup h s) (lane_list_incl h s Hh)) as H.
  unfold lane_list in H. rewrite map_length in H. lia.
Qed.

Lemma rset_count2 : forall h s t, h < 2 ^ 64 -> s < 4 -> t < 4 -> s <> t ->
  rs_size (rset h s) + rs_size (rset h t) <= hand_size h.
Proof.
  intros h s t Hh Hs Ht Hne. rewrite hand_size_length. unfold rs_size.
  assert (Hn : NoDup (lane_list h s ++ lane_list h t)).
  { apply NoDup_app_disj; [apply lane_list_NoDup | apply lane_list_NoDup |].
    intros x H1 H2. unfold lane_list in H1, H2. apply in_map_iff in H1, H2.
    destruct H1 as (r1 & E1 & _). destruct H2 as (r2 & E2 & _). lia. }
  assert (Hi : incl (lane_list h s ++ lane_list h t) (hand_cards h)).
  { apply incl_app; apply lane_list_incl; exact Hh. }
  pose proof (NoDup_incl_length Hn Hi) as H.
  rewrite app_length in H. unfold lane_list in H. rewrite !map_length in H. lia.
Qed.

(* a rank set of at most two ranks is determined by (size, min, max) *)
Lemma short_rset_eq : forall A B : list N, rs_size A <= 2 ->
  rs_size A = rs_size B -> rs_min A = rs_min B -> rs_max A = rs_max B -> A = B.
Proof.
  intros A B Hle Hs Hmin Hmax. unfold rs_size in *.
  destruct A as [|a [|a2 [|a3 A]]]; destruct B as [|b [|b2 [|b3 B]]]; cbn [length] in *; try lia.
  - reflexivity.
  - cbn [rs_min] in Hmin. congruence.
  - cbn [rs_min] in Hmin. cbn [rs_max last] in Hmax. congruence.
Qed.

Lemma cmp_opt_Eq : forall a b, cmp_opt a b = Eq -> a = b.
Proof.
  intros [a|] [b|] H; cbn [cmp_opt] in H; try discriminate; [|reflexivity].
  apply N.compare_eq_iff in H. congruence.
Qed.

(* key completeness on the view: equal keys, equal lanes *)
Lemma view_key_complete : forall d o s t, wf_obs_d d o -> s < 4 -> t < 4 ->
  (forall k, k <> KSuit -> vkey k (view o s) (view o t) = Eq) -> view o s = view o t.
Proof.
  intros d o s t ((Hpk & Hpb & _ & Hs2 & Hsp) & _) Hs Ht Hk.
  destruct (N.eq_dec s t) as [E | Hne]; [subst t; reflexivity|].
  pose proof (Hk KPocketSize ltac:(discriminate)) as K1. pose proof (Hk KPublicSize ltac:(discriminate)) as K2.
  pose proof (Hk KPocketMin ltac:(discriminate)) as K3. pose proof (Hk KPublicMin ltac:(discriminate)) as K4.
  pose proof (Hk KPocketMax ltac:(discriminate)) as K5. pose proof (Hk KPublicMax ltac:(discriminate)) as K6'.
  unfold vkey, view in K1, K2, K3, K4, K5, K6'. cbn [fst snd] in K1, K2, K3, K4, K5, K6'.
  apply N.compare_eq_iff in K1. apply N.compare_eq_iff in K2.
  apply cmp_opt_Eq in K3. apply cmp_opt_Eq in K4. apply cmp_opt_Eq in K5. apply cmp_opt_Eq in K6'.
  unfold view. f_equal.
  - apply short_rset_eq; try assumption.
    pose proof (rset_count1 (pocket o) s (pow2_52_64 _ Hpk)) as H. lia.
  - apply short_rset_eq; try assumption.
    pose proof (rset_count2 (public o) s t (pow2_52_64 _ Hpb) Hs Ht Hne) as H. lia.
Qed.
