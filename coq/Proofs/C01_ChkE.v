(* Proofs/C01_ChkE.v -- exhaustive check by vm_compute: all 13-bit flush rank sets (both decks). *)
From Coq Require Import NArith List Bool.
From RP Require Import Model.Codec Proofs.C01_Enum.
Import ListNotations.
Open Scope N_scope.

Lemma chk_fl : forallb (fun d => forallb (check_fl d) (nseq (N.to_nat 8192) 0)) [Standard; Short] = true.
Proof. vm_cast_no_check (@eq_refl bool true). Qed.
