(* Proofs/C01_Order.v -- (T3) the derived order on strengths (variant position from the generated
   RANKING_ORDER_*, then fields, then kicker mask) is the numeric order of the rule-book value. *)
From Coq Require Import NArith List Bool Lia.
From RP Require Import Base.Bits Gen.GenCards Model.Codec Model.Evaluator Spec.SpecPoker Spec.SpecStrength
  Spec.SpecHand Proofs.C01_Lists Proofs.C01_Abs Proofs.C01_Bits.
Import ListNotations.
Open Scope N_scope.

(* ---------- kicker masks: numeric order = order of the descending rank lists ---------- *)
Definition kenc (l : list N) : N := fold_left (fun a x => a * 16 + x) l 0.
Definition kphi (k : N) : N := kenc (kicker_ranks k).

Fixpoint incrb (l : list N) : bool :=
  match l with
  | a :: t => match t with b :: _ => (a <? b) && incrb t | [] => true end
  | [] => true
  end.

Lemma incrb_head : forall l a, incrb (a :: l) = true -> forall y, In y l -> a < y.
Proof.
  induction l as [|b l IH]; intros a H y Hy; [destruct Hy|].
  cbn [incrb] in H. apply andb_prop in H. destruct H as [Hab Ht]. apply N.ltb_lt in Hab.
  destruct Hy as [<-|Hy]; [exact Hab|].
  apply N.lt_trans with (1 := Hab). apply IH; [exact Ht|exact Hy].
Qed.

Lemma incrb_tail : forall l a, incrb (a :: l) = true -> incrb l = true.
Proof.
  intros l a H. destruct l as [|b l]; [reflexivity|].
  cbn [incrb] in H. apply andb_prop in H. apply H.
Qed.

Lemma incrb_mono : forall (f : N -> N) l, incrb l = true -> incrb (map f l) = true ->
  forall x y, In x l -> In y l -> x < y -> f x < f y.
Proof.
  intros f l. induction l as [|a l IH]; intros Hl Hfl x y Hx Hy Hxy; [destruct Hx|].
  cbn [map] in Hfl.
  destruct Hx as [<-|Hx]; destruct Hy as [<-|Hy].
  - lia.
  - apply (incrb_head _ _ Hfl). apply in_map. exact Hy.
  - pose proof (incrb_head _ _ Hl x Hx). lia.
  - apply IH; try assumption; [apply (incrb_tail _ _ Hl)|apply (incrb_tail _ _ Hfl)].
Qed.

Definition pop_class (n : N) : list N := filter (fun k => popcount64 k =? n) (nseq (N.to_nat 8192) 0).

Lemma kphi_classes_sorted :
  forallb (fun n => incrb (pop_class n) && incrb (map kphi (pop_class n))) (nseq 14 0) = true.
Proof. vm_cast_no_check (@eq_refl bool true). Qed.

Lemma kphi_lt : forall n k1 k2, n < 14 -> k1 < 8192 -> k2 < 8192 ->
  popcount64 k1 = n -> popcount64 k2 = n -> k1 < k2 -> kphi k1 < kphi k2.
Proof.
  intros n k1 k2 Hn H1 H2 Hp1 Hp2 Hlt.
  pose proof (forallb_nseq _ _ kphi_classes_sorted n Hn) as Hc. cbv beta in Hc.
  apply andb_prop in Hc. destruct Hc as [Hs Hm].
  apply (incrb_mono kphi (pop_class n) Hs Hm); [| |exact Hlt].
  - apply filter_In. split; [apply nseq_in; lia|apply N.eqb_eq; exact Hp1].
  - apply filter_In. split; [apply nseq_in; lia|apply N.eqb_eq; exact Hp2].
Qed.

Lemma kphi_compare : forall n k1 k2, n < 14 -> k1 < 8192 -> k2 < 8192 ->
  popcount64 k1 = n -> popcount64 k2 = n -> N.compare k1 k2 = N.compare (kphi k1) (kphi k2).
Proof.
  intros n k1 k2 Hn H1 H2 Hp1 Hp2.
  destruct (N.compare_spec k1 k2) as [Heq|Hlt|Hgt].
  - subst k2. symmetry. apply N.compare_refl.
  - symmetry. apply N.compare_lt_iff. apply (kphi_lt n); assumption.
  - symmetry. apply N.compare_gt_iff. apply (kphi_lt n); assumption.
Qed.

(* ---------- kicker rank lists ---------- *)
Lemma lt8192_high_bits : forall k j, k < 8192 -> 13 <= j -> N.testbit k j = false.
Proof.
  intros k j Hk Hj. destruct (N.eq_dec k 0) as [->|Hne]; [apply N.bits_0|].
  apply N.bits_above_log2. apply N.lt_le_trans with (2 := Hj).
  apply N.log2_lt_pow2; [lia|exact Hk].
Qed.

Lemma set_bits64_small : forall k, k < 8192 -> set_bits64 k = rbits k.
Proof.
  intros k Hk. rewrite set_bits64_filter, rbits_filter.
  change (nseq 64 0) with (nseq 16 0 ++ nseq 48 16). rewrite filter_app.
  rewrite <- (app_nil_r (filter _ (nseq 16 0))) at 2. f_equal.
  assert (forall l, (forall j, In j l -> 13 <= j) -> filter (N.testbit k) l = []) as H.
  { induction l as [|x l IH]; intros Hl; [reflexivity|]. cbn [filter].
    rewrite (lt8192_high_bits k x Hk) by (apply Hl; left; reflexivity).
    apply IH. intros j Hj. apply Hl. right; exact Hj. }
  apply H. intros j Hj. apply in_nseq in Hj. lia.
Qed.

Lemma kicker_ranks_length : forall k, k < 8192 -> N.of_nat (length (kicker_ranks k)) = popcount64 k.
Proof.
  intros k Hk. unfold kicker_ranks. rewrite rev_length, popcount64_length, set_bits64_small by exact Hk.
  reflexivity.
Qed.

Lemma kicker_ranks_lt16 : forall k x, In x (kicker_ranks k) -> x < 16.
Proof.
  intros k x H. unfold kicker_ranks in H. apply in_rev in H. fold (rbits k) in H.
  rewrite rbits_filter in H. apply filter_In in H. destruct H as [H _]. apply in_nseq in H. cbn in H. lia.
Qed.

(* ---------- categories: generated enum position vs rule-book class position ---------- *)
Definition cval (d : deck) (c : category) : N :=
  match class_of_category c with Some cls => class_value d cls | None => 0 end.

Lemma cat_iso : forall d c1 c2, c1 <> RMAX -> c2 <> RMAX ->
  N.compare (category_index d c1) (category_index d c2) = N.compare (cval d c1) (cval d c2).
Proof.
  intros d c1 c2 H1 H2. destruct d; destruct c1; destruct c2; try congruence; vm_compute; reflexivity.
Qed.

Lemma cval_inj : forall d c1 c2, c1 <> RMAX -> c2 <> RMAX -> cval d c1 = cval d c2 -> c1 = c2.
Proof.
  intros d c1 c2 H1 H2 H. destruct d; destruct c1; destruct c2; try congruence; vm_compute in H; discriminate.
Qed.

(* ---------- value = class digit, then five tie-break digits ---------- *)
Lemma fold_enc_bound : forall l a, Forall (fun x => x < 16) l ->
  fold_left (fun a x => a * 16 + x) l a < (a + 1) * 16 ^ N.of_nat (length l).
Proof.
  induction l as [|x l IH]; intros a Hall.
  - cbn [fold_left length]. change (16 ^ N.of_nat 0) with 1. lia.
  - inversion Hall as [|x' l' Hx Hl]; subst x' l'. cbn [fold_left length].
    specialize (IH (a * 16 + x) Hl). rewrite Nat2N.inj_succ, N.pow_succ_r'.
    apply N.lt_le_trans with (1 := IH).
    replace ((a + 1) * (16 * 16 ^ N.of_nat (length l))) with ((a + 1) * 16 * 16 ^ N.of_nat (length l)) by lia.
    apply N.mul_le_mono_r. lia.
Qed.

Lemma in_firstn : forall (n : nat) (l : list N) x, In x (firstn n l) -> In x l.
Proof.
  induction n as [|n IH]; intros l x H; [destruct H|].
  destruct l as [|y l]; [destruct H|]. cbn [firstn] in H.
  destruct H as [<-|H]; [left; reflexivity|right; apply IH; exact H].
Qed.

Lemma encode_value0_bound : forall t, Forall (fun x => x < 16) t -> encode_value 0 t < 1048576.
Proof.
  intros t Ht. unfold encode_value.
  assert (Forall (fun x => x < 16) (firstn 5 (t ++ [0; 0; 0; 0; 0]))) as Hf.
  { apply Forall_forall. intros x Hx. apply in_firstn in Hx. apply in_app_or in Hx.
    destruct Hx as [Hx|Hx]; [rewrite Forall_forall in Ht; apply Ht; exact Hx|].
    cbn [In] in Hx. repeat (destruct Hx as [<-|Hx]; [lia|]). destruct Hx. }
  pose proof (fold_enc_bound _ 0 Hf) as Hb. rewrite firstn5_length in Hb. exact Hb.
Qed.

Definition fields_of (v : ranking) : list N :=
  match rcat v with TwoPair | FullHouse => [r1 v; r2 v] | _ => [r1 v] end.
Definition tie_value (s : strength) : N :=
  encode_value 0 (fields_of (svalue s) ++ kicker_ranks (skicks s)).

Lemma strength_value_form : forall d s, wf_strength d s ->
  strength_value d s = cval d (rcat (svalue s)) * 1048576 + tie_value s /\ tie_value s < 1048576.
Proof.
  intros d s Hwf. destruct Hwf as (Hc & H1 & H2 & _ & _ & _). split.
  - unfold strength_value, cval, tie_value, fields_of. cbv zeta.
    destruct (class_of_category (rcat (svalue s))) as [cls|] eqn:Hcls.
    + rewrite encode_value_cls. reflexivity.
    + destruct (rcat (svalue s)); try discriminate. congruence.
  - unfold tie_value. apply encode_value0_bound. apply Forall_forall. intros x Hx.
    apply in_app_or in Hx. destruct Hx as [Hx|Hx]; [|apply (kicker_ranks_lt16 _ _ Hx)].
    unfold fields_of in Hx. destruct (rcat (svalue s)); cbn [In] in Hx;
      repeat (destruct Hx as [<-|Hx]; [lia|]); destruct Hx.
Qed.

(* ---------- same category: fields then kickers ---------- *)
Ltac list_of_length H :=
  match type of H with length ?l = ?r => let v := eval vm_compute in r in change r with v in H end;
  repeat match type of H with
  | length ?l = S _ => destruct l as [|? l]; [discriminate H|cbn [length] in H; apply eq_add_S in H]
  end;
  match type of H with length ?l = O => destruct l; [clear H|discriminate H] end.

Ltac solve_cmp :=
  match goal with
  | |- lex (lex (?a ?= ?b) (?c ?= ?e)) (?f ?= ?g) = _ =>
      destruct (N.compare_spec a b); destruct (N.compare_spec c e); destruct (N.compare_spec f g);
      cbn [lex]; symmetry;
      first [apply N.compare_eq_iff; lia | apply N.compare_lt_iff; lia | apply N.compare_gt_iff; lia]
  end.

Lemma same_cat_compare : forall d c a1 b1 k1 a2 b2 k2,
  wf_strength d (mkStrength (mkRanking c a1 b1) k1) ->
  wf_strength d (mkStrength (mkRanking c a2 b2) k2) ->
  lex (lex (N.compare a1 a2) (N.compare b1 b2)) (N.compare k1 k2)
  = N.compare (tie_value (mkStrength (mkRanking c a1 b1) k1)) (tie_value (mkStrength (mkRanking c a2 b2) k2)).
Proof.
  intros d c a1 b1 k1 a2 b2 k2 Hw1 Hw2.
  destruct Hw1 as (Hc1 & Ha1 & Hb1 & Hf1 & Hk1 & Hp1).
  destruct Hw2 as (_ & Ha2 & Hb2 & Hf2 & Hk2 & Hp2).
  cbn [svalue rcat r1 r2 skicks] in *.
  pose proof (kicker_ranks_length k1 Hk1) as HL1. pose proof (kicker_ranks_length k2 Hk2) as HL2.
  pose proof (kicker_ranks_lt16 k1) as HB1. pose proof (kicker_ranks_lt16 k2) as HB2.
  assert (n_kickers_of c < 14) as Hn by (destruct c; vm_compute; reflexivity).
  rewrite (kphi_compare (n_kickers_of c) k1 k2 Hn Hk1 Hk2 Hp1 Hp2).
  unfold tie_value, fields_of, kphi. cbn [svalue rcat r1 r2 skicks].
  rewrite Hp1 in HL1. rewrite Hp2 in HL2.
  apply (f_equal N.to_nat) in HL1. apply (f_equal N.to_nat) in HL2. rewrite Nat2N.id in HL1, HL2.
  set (l1 := kicker_ranks k1) in *. set (l2 := kicker_ranks k2) in *.
  clearbody l1 l2. clear Hp1 Hp2 Hk1 Hk2 Hn.
  destruct c; try congruence;
    try subst b1; try subst b2;
    list_of_length HL1; list_of_length HL2;
    unfold encode_value, kenc; cbn [app firstn fold_left];
    repeat match goal with
    | H : forall x, In x (?y :: ?l) -> x < 16 |- _ =>
        pose proof (H y (or_introl eq_refl));
        assert (forall x, In x l -> x < 16) by (intros ? ?; apply H; right; assumption); clear H
    end;
    solve_cmp.
Qed.

Theorem cmp_strength_value : forall d s1 s2, wf_strength d s1 -> wf_strength d s2 ->
  cmp_strength d s1 s2 = N.compare (strength_value d s1) (strength_value d s2).
Proof.
  intros d s1 s2 Hw1 Hw2.
  destruct (strength_value_form d s1 Hw1) as [Hv1 Ht1].
  destruct (strength_value_form d s2 Hw2) as [Hv2 Ht2].
  rewrite Hv1, Hv2. unfold cmp_strength, cmp_ranking.
  pose proof Hw1 as (Hc1 & _). pose proof Hw2 as (Hc2 & _).
  rewrite (cat_iso d _ _ Hc1 Hc2).
  destruct (N.compare_spec (cval d (rcat (svalue s1))) (cval d (rcat (svalue s2)))) as [Heq|Hlt|Hgt]; cbn [lex].
  - apply (cval_inj d _ _ Hc1 Hc2) in Heq.
    destruct s1 as [[c1 a1 b1] k1]. destruct s2 as [[c2 a2 b2] k2]. cbn [svalue rcat r1 r2 skicks] in *.
    subst c2. rewrite (same_cat_compare d c1 a1 b1 k1 a2 b2 k2 Hw1 Hw2).
    match goal with |- (?t1 ?= ?t2) = _ => destruct (N.compare_spec t1 t2) end; symmetry;
      [apply N.compare_eq_iff|apply N.compare_lt_iff|apply N.compare_gt_iff]; lia.
  - symmetry. apply N.compare_lt_iff. lia.
  - symmetry. apply N.compare_gt_iff. lia.
Qed.
