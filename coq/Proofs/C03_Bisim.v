(* Proofs/C03_Bisim.v -- R at the root, R preserved by every accepted action (any kind, any
   amount), hence on all reachable states; bound on the length of a hand; end of the hand *)
From Coq Require Import ZArith NArith List Bool Lia.
From RP Require Import Base.Bits Gen.GenLib Gen.GenFixes Model.Codec Model.Showdown Model.Game
                       Spec.SpecNLHE Spec.SpecGameInv Spec.SpecRel
                       Proofs.C03_Flat Proofs.C03_Settle Proofs.C03_Sym Proofs.C03_Moves Proofs.C03_Cards
                       Proofs.C03_Step Proofs.C03_Draw.
Import ListNotations.
Open Scope Z_scope.
Ltac Zify.zify_post_hook ::= Z.div_mod_to_equations.

(* ---------- root ---------- *)
Lemma R_root : forall d hs g0, wf_holes d hs -> root d hs = Some g0 -> R d g0 (sroot hs).
Proof.
  intros d hs g0 (a & b & -> & Ha & Hb & _ & _ & Hab) Hroot.
  rewrite root_flat in Hroot. injection Hroot as <-.
  pose proof blinds_facts as (Hsb0 & Hsbb & Hbst).
  change (sroot [a; b]) with
    (settle_round (S2 Betting Betting (STACK - B_BLIND) (STACK - S_BLIND) B_BLIND S_BLIND B_BLIND S_BLIND
                      a b 0%N false false 0 1%nat false false)).
  apply R_settle.
  - repeat split; try lia; intros; try congruence; lia.
  - repeat split; try lia; intros; try congruence; lia.
  - first [lia | reflexivity].
  - first [lia | (vm_compute; congruence)].
  - lia.
  - intros [Hbb _]. discriminate Hbb.
  - cbn. auto.
  - apply cards_ok_root; assumption.
  - intros _ _ _. reflexivity.
  - intros _ _ _. change (street_off 0%N) with 2.
    split; [lia|]. split; [reflexivity|]. right. split; [reflexivity|].
    repeat split; try congruence; try lia.
Qed.

(* ---------- one step ---------- *)
Lemma alright_of_choice : forall g, must_stop g = false -> must_deal g = false -> is_everyone_alright g = false.
Proof.
  intros g Hs Hd. unfold must_stop in Hs. unfold must_deal in Hd.
  destruct (street g =? 3); assumption.
Qed.

Theorem R_step : RAISE_ARM_CHECKS_TURN = true ->
  forall d g s a g', R d g s -> apply d g a = Some g' ->
  slegal d s a = true /\ R d g' (sstep s a) /\ potential g' + 1 <= potential g.
Proof.
  intros Hfix d g s a g' HR Happ.
  destruct (R_same_moves Hfix d g s HR) as [_ Hmoves].
  unfold apply in Happ. rewrite (Hmoves a) in Happ.
  destruct (slegal d s a) eqn:Hleg; [|discriminate Happ].
  split; [reflexivity|].
  destruct HR as [s0 s1 k0 k1 e0 e1 p0 p1 c0 c1 pt bd t ac0 ac1 lr ta aw ov
                  Hi0 Hi1 Hpt Hbl Hbase Hnf Hbd Hcards Hstop Hdeal Hover Hch].
  destruct ov; [discriminate Hleg|]. specialize (Hdeal eq_refl).
  destruct aw.
  - (* a card is due: only a well-formed Draw is legal *)
    destruct a as [h| |c| |c|c|c]; try discriminate Hleg.
    unfold slegal, unseen in Hleg. cbn [over awaiting holes community S2 fold_left nstreet] in Hleg.
    apply andb_prop in Hleg. destruct Hleg as [Hh Hsz]. apply N.eqb_eq in Hh. apply Z.eqb_eq in Hsz.
    cbn [sstep]. eapply step_draw; eassumption.
  - (* a player is to act *)
    destruct (Hch eq_refl eq_refl) as (Hk & Hmod & Hta).
    pose proof (alright_of_choice _ Hstop Hdeal) as Halr.
    pose proof Hi0 as (Hk0 & Hs0 & He0 & Hep0 & Hsh0 & Hbt0).
    pose proof Hi1 as (Hk1 & Hs1 & He1 & Hep1 & Hsh1 & Hbt1).
    destruct Hta as [[-> Hci]|[-> Hci]]; destruct Hci as (-> & Hso & -> & Haco & Hle & Hk1' & Hk2').
    + (* seat 0 *)
      assert (HCH : CH d 0 s1 k0 k1 e0 e1 p0 p1 c0 c1 pt bd t ac1 lr).
      { unfold CH. cbn [GA cards_okA].
        refine (conj _ (conj Hmod (conj Hi0 (conj Hi1 (conj Hpt (conj Hbl (conj Hbase (conj Hso (conj Hbd
                (conj Hcards (conj Hk (conj Haco (conj Hle (conj Hk1' (conj Hk2' Halr))))))))))))))). lia. }
      change (G2 Betting s1 k0 k1 e0 e1 p0 p1 c0 c1 pt bd t)
        with (GA 0 Betting s1 k0 k1 e0 e1 p0 p1 c0 c1 pt bd t) in *.
      change (S2 Betting s1 k0 k1 e0 e1 p0 p1 c0 c1 bd false ac1 lr 0 false false)
        with (SA 0 Betting s1 k0 k1 e0 e1 p0 p1 c0 c1 bd false ac1 lr 0 false false) in *.
      unfold slegal, outstanding, maxin in Hleg.
      cbn [SA over awaiting to_act S2 instreet behind last_raise nthZ nth fold_left] in Hleg.
      destruct a as [h| |c| |c|c|c]; try discriminate Hleg; cbn [sstep].
      * apply (step_fold _ _ _ _ _ _ _ _ _ _ _ _ _ _ _ _ HCH); [|assumption]. apply Z.ltb_lt in Hleg. lia.
      * apply andb_prop in Hleg. destruct Hleg as [Hleg Hc]. apply andb_prop in Hleg. destruct Hleg as [Ho Hb].
        apply Z.ltb_lt in Ho, Hb. apply Z.eqb_eq in Hc.
        apply (step_call _ _ _ _ _ _ _ _ _ _ _ _ _ _ _ _ HCH); try assumption; lia.
      * apply (step_check _ _ _ _ _ _ _ _ _ _ _ _ _ _ _ _ HCH); [|assumption]. apply Z.eqb_eq in Hleg. lia.
      * apply andb_prop in Hleg. destruct Hleg as [Hlo Hhi]. apply Z.leb_le in Hlo, Hhi.
        apply (step_raise _ _ _ _ _ _ _ _ _ _ _ _ _ _ _ _ HCH); try assumption; lia.
      * apply Z.eqb_eq in Hleg.
        apply (step_shove _ _ _ _ _ _ _ _ _ _ _ _ _ _ _ _ HCH); try assumption.
    + (* seat 1 *)
      assert (HCH : CH d 1 s0 k1 k0 e1 e0 p1 p0 c1 c0 pt bd t ac0 lr).
      { unfold CH. cbn [GA cards_okA].
        refine (conj _ (conj Hmod (conj Hi1 (conj Hi0 (conj _ (conj Hbl (conj _ (conj Hso (conj Hbd
                (conj Hcards (conj Hk (conj Haco (conj Hle (conj Hk1' (conj Hk2' Halr))))))))))))))); lia. }
      change (G2 s0 Betting k0 k1 e0 e1 p0 p1 c0 c1 pt bd t)
        with (GA 1 Betting s0 k1 k0 e1 e0 p1 p0 c1 c0 pt bd t) in *.
      change (S2 s0 Betting k0 k1 e0 e1 p0 p1 c0 c1 bd ac0 false lr 1 false false)
        with (SA 1 Betting s0 k1 k0 e1 e0 p1 p0 c1 c0 bd false ac0 lr 1 false false) in *.
      unfold slegal, outstanding, maxin in Hleg.
      cbn [SA over awaiting to_act S2 instreet behind last_raise nthZ nth fold_left] in Hleg.
      destruct a as [h| |c| |c|c|c]; try discriminate Hleg; cbn [sstep].
      * apply (step_fold _ _ _ _ _ _ _ _ _ _ _ _ _ _ _ _ HCH); [|assumption]. apply Z.ltb_lt in Hleg. lia.
      * apply andb_prop in Hleg. destruct Hleg as [Hleg Hc]. apply andb_prop in Hleg. destruct Hleg as [Ho Hb].
        apply Z.ltb_lt in Ho, Hb. apply Z.eqb_eq in Hc.
        apply (step_call _ _ _ _ _ _ _ _ _ _ _ _ _ _ _ _ HCH); try assumption; lia.
      * apply (step_check _ _ _ _ _ _ _ _ _ _ _ _ _ _ _ _ HCH); [|assumption]. apply Z.eqb_eq in Hleg. lia.
      * apply andb_prop in Hleg. destruct Hleg as [Hlo Hhi]. apply Z.leb_le in Hlo, Hhi.
        apply (step_raise _ _ _ _ _ _ _ _ _ _ _ _ _ _ _ _ HCH); try assumption; lia.
      * apply Z.eqb_eq in Hleg.
        apply (step_shove _ _ _ _ _ _ _ _ _ _ _ _ _ _ _ _ HCH); try assumption.
Qed.

(* ---------- all reachable states ---------- *)
Lemma R_run : RAISE_ARM_CHECKS_TURN = true ->
  forall d acts g s g', R d g s -> run d g acts = Some g' ->
  exists s', srun d s acts = Some s' /\ R d g' s' /\ potential g' + Z.of_nat (length acts) <= potential g.
Proof.
  intros Hfix d acts. induction acts as [|a r IH]; intros g s g' HR Hrun.
  - cbn in Hrun. injection Hrun as <-. exists s. cbn. split; [reflexivity|]. split; [exact HR|lia].
  - cbn [run] in Hrun. destruct (apply d g a) as [g1|] eqn:Happ; [|discriminate Hrun].
    destruct (R_step Hfix d g s a g1 HR Happ) as (Hleg & HR1 & Hpot).
    destruct (IH g1 (sstep s a) g' HR1 Hrun) as (s' & Hs' & HR' & Hpot').
    exists s'. cbn [srun]. rewrite Hleg. split; [exact Hs'|]. split; [exact HR'|].
    cbn [length]. lia.
Qed.

Lemma potential_nonneg : forall d g s, R d g s -> 0 <= potential g.
Proof.
  intros d g s HR.
  destruct HR as [s0 s1 k0 k1 e0 e1 p0 p1 c0 c1 pt bd t ac0 ac1 lr ta aw ov
                  Hi0 Hi1 Hpt Hbl Hbase Hnf Hbd Hcards Hstop Hdeal Hover Hch].
  rewrite potential_flat. destruct Hi0 as (Hk0 & _). destruct Hi1 as (Hk1 & _).
  assert (0 <= nlive s0 s1) by (unfold nlive; destruct (is_fold s0), (is_fold s1); lia).
  destruct (sob_cases bd Hbd) as [[_ Hs]|[[_ Hs]|[[_ Hs]|[_ Hs]]]]; lia.
Qed.

Lemma potential_root : forall d hs g0, wf_holes d hs -> root d hs = Some g0 -> potential g0 <= max_history.
Proof.
  intros d hs g0 (a & b & -> & _) Hroot. rewrite root_flat in Hroot. injection Hroot as <-.
  vm_compute. congruence.
Qed.

Theorem bisim : RAISE_ARM_CHECKS_TURN = true ->
  forall d hs acts g0 g, wf_holes d hs -> root d hs = Some g0 -> run d g0 acts = Some g ->
  exists s, srun d (sroot hs) acts = Some s /\ R d g s.
Proof.
  intros Hfix d hs acts g0 g Hwf Hroot Hrun.
  destruct (R_run Hfix d acts g0 (sroot hs) g (R_root d hs g0 Hwf Hroot) Hrun) as (s & Hs & HR & _).
  exists s. split; assumption.
Qed.

Theorem bisim_moves :
  forall d hs acts g0 g, wf_holes d hs -> root d hs = Some g0 -> run d g0 acts = Some g ->
  exists s, srun d (sroot hs) acts = Some s /\ same_moves d g s.
Proof.
  intros d hs acts g0 g Hwf Hroot Hrun.
  assert (Hfix : RAISE_ARM_CHECKS_TURN = true) by reflexivity.
  destruct (bisim Hfix d hs acts g0 g Hwf Hroot Hrun) as (s & Hs & HR).
  exists s. split; [exact Hs|]. apply R_same_moves; assumption.
Qed.

Theorem reject : forall d g a, is_allowed d g a <> Some true -> apply d g a = None.
Proof.
  intros d g a H. unfold apply. destruct (is_allowed d g a) as [[|]|]; [contradiction H| |]; reflexivity.
Qed.

Theorem terminates :
  forall d hs acts g0 g, wf_holes d hs -> root d hs = Some g0 -> run d g0 acts = Some g ->
  Z.of_nat (length acts) <= max_history.
Proof.
  intros d hs acts g0 g Hwf Hroot Hrun.
  assert (Hfix : RAISE_ARM_CHECKS_TURN = true) by reflexivity.
  destruct (R_run Hfix d acts g0 (sroot hs) g (R_root d hs g0 Hwf Hroot) Hrun) as (s & _ & HR & Hpot).
  pose proof (potential_nonneg d g s HR). pose proof (potential_root d hs g0 Hwf Hroot). lia.
Qed.

(* ---------- the end of the hand ---------- *)
Lemma R_end : forall d g s, R d g s ->
  (turn_of g = Terminal <-> over s = true) /\
  (over s = true <-> (length (slive s) = 1%nat \/ (nstreet s = 3 /\ closed s = true))) /\
  length (live g) = length (slive s) /\ street g = nstreet s.
Proof.
  intros d g s HR.
  destruct HR as [s0 s1 k0 k1 e0 e1 p0 p1 c0 c1 pt bd t ac0 ac1 lr ta aw ov
                  Hi0 Hi1 Hpt Hbl Hbase Hnf Hbd Hcards Hstop Hdeal Hover Hch].
  split; [|split; [|split]].
  - unfold turn_of. rewrite Hstop. cbn [over S2]. destruct ov.
    + split; reflexivity.
    + destruct (must_deal _); split; discriminate.
  - set (s := S2 s0 s1 k0 k1 e0 e1 p0 p1 c0 c1 bd ac0 ac1 lr ta aw ov) in *.
    change (over s) with ov. change (nstreet s) with (sob bd).
    assert (Hiff : (Nat.eqb (length (slive s)) 1 || (sob bd =? 3) && closed s) = true <->
                   (length (slive s) = 1%nat \/ (sob bd = 3 /\ closed s = true))).
    { rewrite orb_true_iff, andb_true_iff, Nat.eqb_eq, Z.eqb_eq. reflexivity. }
    rewrite <- Hiff, <- Hover. reflexivity.
  - destruct s0, s1; reflexivity.
  - reflexivity.
Qed.

Theorem hand_end : forall d hs g, wf_holes d hs -> reachable d hs g ->
  exists acts s, srun d (sroot hs) acts = Some s /\ R d g s /\
    (turn_of g = Terminal <-> over s = true) /\
    (over s = true <-> (length (slive s) = 1%nat \/ (nstreet s = 3 /\ closed s = true))) /\
    (turn_of g = Terminal <-> (length (live g) = 1%nat \/ (street g = 3 /\ closed s = true))).
Proof.
  intros d hs g Hwf (g0 & acts & Hroot & Hrun).
  assert (Hfix : RAISE_ARM_CHECKS_TURN = true) by reflexivity.
  destruct (bisim Hfix d hs acts g0 g Hwf Hroot Hrun) as (s & Hs & HR).
  destruct (R_end d g s HR) as (H1 & H2 & H3 & H4).
  exists acts, s. repeat split; try assumption; try (apply H1); try (apply H2).
  - intros Ht. rewrite H3, H4. apply H2, H1, Ht.
  - intros Hx. apply H1, H2. rewrite <- H3, <- H4. exact Hx.
Qed.
