(* Proofs/C01_ChkD.v -- exhaustive check by vm_compute: 7-card count vectors starting c>0 (Standard). *)
From Coq Require Import NArith List Bool.
From RP Require Import Model.Codec Proofs.C01_Enum.
Import ListNotations.
Open Scope N_scope.

Lemma chk_std7_x : forallb (fun p => forallb (check_nf Standard) (chunk p 7)) [[1]; [2]; [3]; [4]] = true.
Proof. vm_cast_no_check (@eq_refl bool true). Qed.
