(* Proofs/C17_Layout.v -- generic theorems about load_rows / save_bytes for any layout that
   satisfies the side conditions [layout_ok] (checked by computation on the generated layouts):
   the complete file loads to the rows written; every strict prefix is rejected. *)
From Coq Require Import NArith ZArith List Bool Lia ZifyBool ZifyN ZifyNat.
From RP Require Import Base.Bits Gen.GenTables Model.Codec Model.Pgcopy Spec.SpecTables Proofs.C17_Bytes.
Import ListNotations.
Open Scope N_scope.

Arguments N.add : simpl never.
Arguments N.mul : simpl never.
Arguments N.sub : simpl never.
Arguments N.pow : simpl never.
Arguments N.modulo : simpl never.
Arguments N.div : simpl never.
Arguments N.to_nat : simpl never.
Arguments N.of_nat : simpl never.

(* facts about the generated header / footer *)
Lemma footer_value : be_value (be 2 PG_FOOTER) = 65535.
Proof. vm_compute. reflexivity. Qed.

Definition payload (L : layout) (rows : list (list N)) : list N :=
  concat (map (row_bytes L) rows) ++ be 2 PG_FOOTER.

Lemma save_bytes_eq : forall L rows, save_bytes L rows = PG_HEADER ++ payload L rows.
Proof. reflexivity. Qed.

Lemma payload_cons : forall L r rows,
  payload L (r :: rows)
  = be 2 (l_nfields L) ++ fields_bytes (l_wlengths L) (l_wwidths L) r ++ payload L rows.
Proof.
  intros L r rows. unfold payload. cbn [map concat]. rewrite row_bytes_eq, <- !app_assoc. reflexivity.
Qed.

Lemma payload_nil : forall L, payload L [] = be 2 PG_FOOTER.
Proof. reflexivity. Qed.

Definition row_len (L : layout) (r : list N) : Prop := length r = N.to_nat (l_nfields L).
Definition row_ok (L : layout) (r : list N) : Prop := Forall2 (fun w v => v < 256 ^ w) (l_wwidths L) r.

Lemma Forall2_len : forall (A B : Type) (R : A -> B -> Prop) l1 l2,
  Forall2 R l1 l2 -> length l1 = length l2.
Proof.
  intros A B R l1 l2 H. induction H as [|a b l1 l2 _ _ IH]; [reflexivity|].
  cbn [length]. rewrite IH. reflexivity.
Qed.

Lemma row_ok_len : forall L r, layout_ok L -> row_ok L r -> row_len L r.
Proof.
  intros L r HL H. unfold row_len. rewrite <- (lo_ws L HL).
  symmetry. eapply Forall2_len. exact H.
Qed.

Lemma nfields_value : forall L, layout_ok L -> be_value (be 2 (l_nfields L)) = l_nfields L.
Proof.
  intros L HL. apply be_value_be. pose proof (lo_nf L HL) as H.
  change (256 ^ 2) with 65536. lia.
Qed.

Lemma row_bytes_length : forall L r, layout_ok L -> row_len L r ->
  length (row_bytes L r) = (2 + fields_len (l_wwidths L))%nat.
Proof.
  intros L r HL Hr. rewrite row_bytes_eq, app_length, be_length.
  rewrite fields_bytes_length.
  - reflexivity.
  - rewrite (lo_lens L HL), (lo_ws L HL). reflexivity.
  - rewrite (lo_ws L HL). exact Hr.
Qed.

Lemma payload_length : forall L rows, layout_ok L -> Forall (row_len L) rows ->
  length (payload L rows) = (length rows * (2 + fields_len (l_wwidths L)) + 2)%nat.
Proof.
  intros L rows HL H. induction H as [|r rows Hr _ IH].
  - rewrite payload_nil, be_length. reflexivity.
  - unfold payload in *. cbn [map concat length]. rewrite <- app_assoc, app_length, IH.
    rewrite (row_bytes_length L r HL Hr). lia.
Qed.

(* ---------- the complete file ---------- *)

Lemma load_loop_full : forall L, layout_ok L -> forall rows, Forall (row_len L) rows ->
  forall fuel acc, (length rows < fuel)%nat ->
  load_loop fuel L (payload L rows) acc = LOk (rev acc ++ map (norm_row (l_wwidths L)) rows).
Proof.
  intros L HL rows H. induction H as [|r rows Hr _ IH]; intros fuel acc Hf.
  - destruct fuel as [|f]; [cbn [length] in Hf; lia|].
    rewrite payload_nil. cbn [load_loop].
    rewrite <- (app_nil_r (be 2 PG_FOOTER)), take_exact_be, footer_value.
    rewrite (lo_rn L HL).
    pose proof (lo_nf L HL) as Hnf.
    destruct (N.eqb_spec 65535 (l_nfields L)) as [E|_]; [lia|].
    cbn [map]. rewrite app_nil_r. reflexivity.
  - destruct fuel as [|f]; [cbn [length] in Hf; lia|].
    rewrite payload_cons. cbn [load_loop].
    rewrite take_exact_be, (nfields_value L HL), (lo_rn L HL), N.eqb_refl.
    rewrite (lo_rw L HL).
    rewrite read_fields_full.
    + rewrite IH by (cbn [length] in Hf; lia).
      cbn [rev map]. rewrite <- app_assoc. reflexivity.
    + rewrite (lo_lens L HL), (lo_ws L HL). reflexivity.
    + rewrite (lo_ws L HL). exact Hr.
    + exact (lo_as L HL).
    + exact (lo_l32 L HL).
Qed.

Lemma skipn_header : forall L P, layout_ok L ->
  skipn (N.to_nat (l_seek L)) (PG_HEADER ++ P) = P.
Proof.
  intros L P HL. rewrite <- (lo_seek L HL). rewrite skipn_app, skipn_all, Nat.sub_diag.
  reflexivity.
Qed.

Theorem load_rows_save_norm : forall L rows, layout_ok L -> Forall (row_len L) rows ->
  load_rows L (save_bytes L rows) = LOk (map (norm_row (l_wwidths L)) rows).
Proof.
  intros L rows HL H. unfold load_rows. rewrite save_bytes_eq, (skipn_header L _ HL).
  rewrite (load_loop_full L HL rows H); [reflexivity|].
  rewrite app_length, (payload_length L rows HL H). lia.
Qed.

Theorem load_rows_save : forall L rows, layout_ok L -> Forall (row_ok L) rows ->
  load_rows L (save_bytes L rows) = LOk rows.
Proof.
  intros L rows HL H. rewrite load_rows_save_norm.
  - f_equal. induction H as [|r rows Hr _ IH]; [reflexivity|].
    cbn [map]. rewrite IH, (norm_row_id _ _ Hr). reflexivity.
  - exact HL.
  - eapply Forall_impl; [|exact H]. intros r Hr. apply (row_ok_len L r HL Hr).
Qed.

(* ---------- strict prefixes ---------- *)

Lemma load_loop_prefix : forall L, layout_ok L -> l_strict L = true ->
  forall rows, Forall (row_len L) rows ->
  forall n fuel acc, (n < length (payload L rows))%nat ->
  load_loop fuel L (firstn n (payload L rows)) acc = LError.
Proof.
  intros L HL Hstrict rows H. induction H as [|r rows Hr Hrows IH]; intros n fuel acc Hn.
  - (* only the trailer is left: fewer than 2 bytes remain *)
    destruct fuel as [|f]; [reflexivity|].
    rewrite payload_nil in *. rewrite be_length in Hn. cbn [load_loop].
    rewrite take_exact_short; [rewrite Hstrict; reflexivity|].
    rewrite firstn_length, be_length. lia.
  - destruct fuel as [|f]; [reflexivity|].
    rewrite payload_cons in *. cbn [load_loop].
    set (fb := fields_bytes (l_wlengths L) (l_wwidths L) r) in *.
    assert (Hfb : length fb = fields_len (l_wwidths L)).
    { unfold fb. apply fields_bytes_length.
      - rewrite (lo_lens L HL), (lo_ws L HL). reflexivity.
      - rewrite (lo_ws L HL). exact Hr. }
    rewrite !app_length, be_length in Hn. change (N.to_nat 2) with 2%nat in Hn.
    destruct (Nat.lt_ge_cases n 2) as [Hlt|Hge].
    + (* cut inside the field count *)
      rewrite take_exact_short; [rewrite Hstrict; reflexivity|].
      rewrite firstn_length. change (N.to_nat 2) with 2%nat. lia.
    + replace n with (length (be 2 (l_nfields L)) + (n - 2))%nat
        by (rewrite be_length; change (N.to_nat 2) with 2%nat; lia).
      rewrite firstn_app_2, take_exact_be, (nfields_value L HL), (lo_rn L HL), N.eqb_refl.
      rewrite (lo_rw L HL).
      destruct (Nat.lt_ge_cases (n - 2) (length fb)) as [Hlt2|Hge2].
      * (* cut inside the fields of the row *)
        rewrite read_fields_short; [reflexivity|].
        rewrite firstn_length, <- Hfb. lia.
      * replace (n - 2)%nat with (length fb + (n - 2 - length fb))%nat by lia.
        rewrite firstn_app_2. unfold fb at 1.
        rewrite read_fields_full.
        -- apply IH. lia.
        -- rewrite (lo_lens L HL), (lo_ws L HL). reflexivity.
        -- rewrite (lo_ws L HL). exact Hr.
        -- exact (lo_as L HL).
        -- exact (lo_l32 L HL).
Qed.

Lemma skipn_firstn_header : forall L P n, layout_ok L ->
  skipn (N.to_nat (l_seek L)) (firstn n (PG_HEADER ++ P)) = firstn (n - N.to_nat (l_seek L)) P.
Proof.
  intros L P n HL. rewrite skipn_firstn_comm, (skipn_header L P HL). reflexivity.
Qed.

Theorem load_rows_prefix : forall L rows, layout_ok L -> l_strict L = true ->
  Forall (row_len L) rows ->
  forall n, (n < length (save_bytes L rows))%nat ->
  load_rows L (firstn n (save_bytes L rows)) = LError.
Proof.
  intros L rows HL Hstrict H n Hn. unfold load_rows.
  rewrite save_bytes_eq in *. rewrite (skipn_firstn_header L _ n HL).
  apply (load_loop_prefix L HL Hstrict rows H).
  rewrite app_length, (lo_seek L HL) in Hn.
  pose proof (payload_length L rows HL H) as Hp. lia.
Qed.

(* ---------- the four generated layouts satisfy the side conditions ---------- *)

Ltac layout_ok_tac :=
  constructor;
  [ reflexivity | reflexivity | reflexivity | reflexivity | reflexivity | reflexivity
  | repeat (constructor; try reflexivity) | reflexivity ].

Lemma metric_layout_ok : layout_ok metric_layout.
Proof. layout_ok_tac. Qed.
Lemma lookup_layout_ok : layout_ok lookup_layout.
Proof. layout_ok_tac. Qed.
Lemma profile_layout_ok : layout_ok profile_layout.
Proof. layout_ok_tac. Qed.
Lemma transitions_layout_ok : layout_ok transitions_layout.
Proof. layout_ok_tac. Qed.

Lemma metric_strict : l_strict metric_layout = true.
Proof. reflexivity. Qed.
Lemma lookup_strict : l_strict lookup_layout = true.
Proof. reflexivity. Qed.
Lemma profile_strict : l_strict profile_layout = true.
Proof. reflexivity. Qed.
Lemma transitions_strict : l_strict transitions_layout = true.
Proof. reflexivity. Qed.
