(* Proofs/C11_Pack.v -- every menu the engine produces (Game::choices, at ANY state and raise
   count for which it does not panic) has at most 16 edges, all of them edges of the abstraction
   (Spec/SpecCodec.v all_edges), so it satisfies the hypotheses of the Path codec theorem C15_path
   and round-trips through its 64-bit form. *)
From Coq Require Import ZArith NArith List Bool Lia.
From RP Require Import Base.Bits Gen.GenLib Gen.GenAbstract Model.Codec Model.Showdown Model.Game
                       Spec.SpecCodec Spec.SpecGameInv Spec.SpecMenu Proofs.C11_Menu Proofs.C15_Path.
Import ListNotations.
Open Scope Z_scope.

Definition packb (es : list edge) : bool :=
  Nat.leb (length es) 16 && forallb (fun e => existsb (edge_eqb e) all_edges) es.

Lemma packb_sound : forall es, packb es = true ->
  (length es <= 16)%nat /\ Forall (fun e => In e all_edges) es.
Proof.
  intros es H. unfold packb in H. apply andb_prop in H. destruct H as [Hl Hf].
  split; [apply Nat.leb_le; exact Hl|].
  apply Forall_forall. intros e He.
  pose proof (proj1 (forallb_forall _ _) Hf e He) as Hx.
  apply existsb_exists in Hx. destruct Hx as (x & Hin & Hx). apply edge_eqb_eq in Hx. subst x. exact Hin.
Qed.

Lemma menu_packb : forall g n, packb (menu g n) = true.
Proof.
  intros g n. unfold menu.
  destruct (raises_cases g n) as [-> | [-> | [-> | [-> | ->]]]];
    destruct (may_raise g), (may_shove g), (may_call g), (may_fold g), (may_check g); vm_compute; reflexivity.
Qed.

(* the three shapes of a defined menu: terminal state, chance node, decision node *)
Lemma choices_shapes : forall g n es, choices g n = Some es ->
  es = [] \/ es = [EDraw] \/ es = menu g n.
Proof.
  intros g n es H.
  destruct (must_stop g) eqn:Hs.
  - left. unfold choices, legal in H. rewrite Hs in H. cbn [opt_map_all fold_right concat] in H.
    injection H as H. symmetry. exact H.
  - destruct (must_deal g) eqn:Hd.
    + right. left. unfold choices, legal in H. rewrite Hs, Hd in H.
      cbn [opt_map_all fold_right expand concat app] in H. injection H as H. symmetry. exact H.
    + destruct (must_post g) eqn:Hp.
      * unfold choices, legal in H. rewrite Hs, Hd, Hp in H.
        cbn [opt_map_all fold_right expand] in H. discriminate H.
      * right. right. rewrite (choices_menu g n Hs Hd Hp) in H. injection H as H. symmetry. exact H.
Qed.

Theorem choices_pack : forall g n es, choices g n = Some es ->
  (length es <= 16)%nat /\ Forall (fun e => In e all_edges) es.
Proof.
  intros g n es H. apply packb_sound.
  destruct (choices_shapes g n es H) as [-> | [-> | ->]]; [reflexivity | reflexivity | apply menu_packb].
Qed.

Theorem menu_packs : forall d hs g n i es,
  wf_holes d hs -> reachable d hs g -> turn_of g = Choice i -> 0 <= n -> choices g n = Some es ->
  (length es <= 16)%nat /\ Forall (fun e => In e all_edges) es.
Proof. intros d hs g n i es _ _ _ _ H. exact (choices_pack g n es H). Qed.

Theorem menu_path_roundtrip : forall d hs g n i es,
  wf_holes d hs -> reachable d hs g -> turn_of g = Choice i -> 0 <= n -> choices g n = Some es ->
  exists p, path_pack es = Some p /\ (p < 2 ^ 64)%N /\ path_unpack p = Some es.
Proof.
  intros d hs g n i es _ _ _ _ H. destruct (choices_pack g n es H) as [Hl Hf].
  exact (path_roundtrip es Hl Hf).
Qed.
