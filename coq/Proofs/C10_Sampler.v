(* Proofs/C10_Sampler.v -- property C10: the inverse-CDF sampler selects index i exactly on the
   interval [w_0 + ... + w_(i-1), w_0 + ... + w_i) of length w_i; the uniform initial strategy. *)
From Coq Require Import ZArith List Bool QArith Lia Lqa.
From RP Require Import Spec.SpecTree.
Import ListNotations.
Open Scope Q_scope.

Lemma sumQ_nonneg : forall ws, (forall w, In w ws -> 0 <= w) -> 0 <= sumQ ws.
Proof.
  induction ws as [|w r IH]; intros H; cbn [sumQ]; [lra|].
  assert (0 <= w) by (apply H; left; reflexivity).
  assert (0 <= sumQ r) by (apply IH; intros x Hx; apply H; right; exact Hx). lra.
Qed.

Lemma in_firstn : forall (A : Type) n (l : list A) x, In x (firstn n l) -> In x l.
Proof.
  intros A n. induction n as [|n IH]; intros l x H; [contradiction H|].
  destruct l as [|y r]; [contradiction H|]. cbn [firstn] in H. destruct H as [H|H]; [left; exact H|right; apply IH; exact H].
Qed.

Lemma prefix_sum_nonneg : forall ws i, (forall w, In w ws -> 0 <= w) -> 0 <= prefix_sum ws i.
Proof.
  intros ws i H. unfold prefix_sum. apply sumQ_nonneg. intros w Hw. apply H.
  exact (in_firstn _ _ _ _ Hw).
Qed.

Lemma prefix_sum_0 : forall ws, prefix_sum ws 0 = 0.
Proof. intros ws. reflexivity. Qed.
Lemma prefix_sum_S : forall w r i, prefix_sum (w :: r) (S i) = w + prefix_sum r i.
Proof. intros w r i. reflexivity. Qed.
Lemma prefix_sum_nil : forall i, prefix_sum [] i = 0.
Proof. intros i. destruct i; reflexivity. Qed.

Lemma pick_cons : forall w x r u,
  pick (w :: x :: r) u = if Qle_bool w u then S (pick (x :: r) (u - w)) else 0%nat.
Proof. intros w x r u. reflexivity. Qed.

Theorem pick_interval : forall ws u i,
  (forall w, In w ws -> 0 <= w) -> 0 <= u -> u < sumQ ws ->
  (pick ws u = i <-> prefix_sum ws i <= u /\ u < prefix_sum ws (S i)).
Proof.
  induction ws as [|w r IH]; intros u i Hnn Hu0 Hu.
  - cbn [sumQ] in Hu. lra.
  - assert (Hw : 0 <= w) by (apply Hnn; left; reflexivity).
    assert (Hr : forall x, In x r -> 0 <= x) by (intros x Hx; apply Hnn; right; exact Hx).
    cbn [sumQ] in Hu.
    destruct r as [|x r'].
    + (* a single weight: index 0 *)
      cbn [pick sumQ] in *. destruct i as [|i].
      * rewrite prefix_sum_0, prefix_sum_S, prefix_sum_nil. split; [intros _; split; lra|reflexivity].
      * rewrite !prefix_sum_S, !prefix_sum_nil. split; [discriminate|intros [H1 H2]; lra].
    + rewrite pick_cons. destruct (Qle_bool w u) eqn:Hle.
      * apply Qle_bool_iff in Hle.
        destruct i as [|i].
        -- rewrite prefix_sum_0, prefix_sum_S, prefix_sum_0. split; [discriminate|intros [H1 H2]; lra].
        -- rewrite (prefix_sum_S w (x :: r') i), (prefix_sum_S w (x :: r') (S i)).
           assert (IHi := IH (u - w) i Hr).
           assert (H0 : 0 <= u - w) by lra. assert (H1 : u - w < sumQ (x :: r')) by lra.
           specialize (IHi H0 H1).
           split.
           ++ intros Hp. injection Hp as Hp. apply IHi in Hp. destruct Hp as [Ha Hb]. split; lra.
           ++ intros [Ha Hb]. f_equal. apply IHi. split; lra.
      * assert (Hlt : u < w).
        { apply Qnot_le_lt. intros Hc. apply Qle_bool_iff in Hc. congruence. }
        destruct i as [|i].
        -- rewrite prefix_sum_0, prefix_sum_S, prefix_sum_0. split; [intros _; split; lra|reflexivity].
        -- rewrite (prefix_sum_S w (x :: r') i). pose proof (prefix_sum_nonneg (x :: r') i Hr).
           split; [discriminate|intros [Ha Hb]; lra].
Qed.

Lemma pick_lt_length : forall ws u, ws <> [] -> (pick ws u < length ws)%nat.
Proof.
  induction ws as [|w r IH]; intros u Hne; [contradiction Hne; reflexivity|].
  destruct r as [|x r']; [cbn; lia|].
  rewrite pick_cons. destruct (Qle_bool w u); [|cbn; lia].
  assert (Hne' : x :: r' <> []) by discriminate.
  specialize (IH (u - w) Hne'). cbn [length] in *. lia.
Qed.

(* the interval selecting i has length w_i *)
Lemma prefix_sum_step : forall ws i, (i < length ws)%nat ->
  prefix_sum ws (S i) == prefix_sum ws i + nth i ws 0.
Proof.
  induction ws as [|w r IH]; intros i Hi; [cbn in Hi; lia|].
  destruct i as [|i].
  - rewrite prefix_sum_S, !prefix_sum_0. cbn [nth]. lra.
  - rewrite (prefix_sum_S w r (S i)), (prefix_sum_S w r i). cbn [nth]. cbn [length] in Hi.
    rewrite IH by lia. lra.
Qed.

Lemma prefix_sum_all : forall ws i, (length ws <= i)%nat -> prefix_sum ws i = sumQ ws.
Proof. intros ws i H. unfold prefix_sum. rewrite firstn_all2 by exact H. reflexivity. Qed.

Theorem sampler_measure : forall ws u,
  (forall w, In w ws -> 0 <= w) -> 0 <= u -> u < sumQ ws ->
  (forall i, pick ws u = i <-> prefix_sum ws i <= u /\ u < prefix_sum ws (S i)) /\
  (forall i, (i < length ws)%nat -> prefix_sum ws (S i) - prefix_sum ws i == nth i ws 0) /\
  prefix_sum ws 0 == 0 /\ prefix_sum ws (length ws) == sumQ ws /\
  (pick ws u < length ws)%nat.
Proof.
  intros ws u Hnn Hu0 Hu.
  split; [intros i; apply pick_interval; assumption|].
  split; [intros i Hi; rewrite (prefix_sum_step ws i Hi); lra|].
  split; [rewrite prefix_sum_0; lra|].
  split; [rewrite prefix_sum_all by lia; lra|].
  apply pick_lt_length. intros ->. cbn [sumQ] in Hu. lra.
Qed.

(* ---------- uniform initial strategy ---------- *)
Lemma sumQ_repeat : forall q n, sumQ (repeat q n) == inject_Z (Z.of_nat n) * q.
Proof.
  intros q n. induction n as [|n IH].
  - cbn [repeat sumQ Z.of_nat]. change (inject_Z 0) with 0. lra.
  - cbn [repeat sumQ]. rewrite IH, Nat2Z.inj_succ. unfold Z.succ. rewrite inject_Z_plus.
    change (inject_Z 1) with 1. lra.
Qed.

Theorem uniform_init : forall n, (1 <= n)%nat ->
  length (uniform_policy n) = n /\
  sumQ (uniform_policy n) == 1 /\
  (forall p, In p (uniform_policy n) -> 0 < p /\ p == 1 / inject_Z (Z.of_nat n)).
Proof.
  intros n Hn. unfold uniform_policy. split; [apply repeat_length|].
  assert (Hpos : Z.pos (Pos.of_nat n) = Z.of_nat n).
  { rewrite <- positive_nat_Z, Nat2Pos.id by lia. reflexivity. }
  split.
  - rewrite sumQ_repeat. unfold Qeq, Qmult, inject_Z. cbn [Qnum Qden]. lia.
  - intros p Hp. apply repeat_spec in Hp. subst p. split.
    + unfold Qlt. cbn. lia.
    + unfold Qeq, Qdiv, Qmult, Qinv, inject_Z. cbn [Qnum Qden].
      destruct (Z.of_nat n) eqn:Hz; try lia. cbn [Qnum Qden]. lia.
Qed.
