(* Proofs/C08_base.v -- list sums over Q, depth/fuel lemmas, tree induction, unfolding equations for the
   model functions of Model/Cfr.v used by the C08 proofs. *)
From Coq Require Import NArith QArith List Bool Lia Lqa Field Qfield Setoid Morphisms.
From RP Require Import Gen.GenLib Gen.GenFixes Model.Cfr Spec.SpecCfr.
Import ListNotations.
Open Scope Q_scope.

(* ---------- sums of lists of rationals ---------- *)
Fixpoint qsum (l : list Q) : Q := match l with [] => 0 | x :: l' => x + qsum l' end.

Lemma qsum_app : forall l1 l2, qsum (l1 ++ l2) == qsum l1 + qsum l2.
Proof.
  induction l1 as [|x l1 IH]; intros l2; cbn [qsum app].
  - ring.
  - rewrite IH. ring.
Qed.

Lemma qsum_ext_in : forall (A : Type) (g h : A -> Q) (l : list A),
  (forall x, In x l -> g x == h x) -> qsum (map g l) == qsum (map h l).
Proof.
  intros A g h l. induction l as [|x l IH]; intros Hgh; cbn [qsum map].
  - reflexivity.
  - rewrite (Hgh x (or_introl eq_refl)). rewrite IH.
    + reflexivity.
    + intros y Hy. apply Hgh. right. exact Hy.
Qed.

Lemma qsum_scale : forall (A : Type) (c : Q) (g : A -> Q) (l : list A),
  qsum (map (fun x => c * g x) l) == c * qsum (map g l).
Proof.
  intros A c g l. induction l as [|x l IH]; cbn [qsum map].
  - ring.
  - rewrite IH. ring.
Qed.

Lemma qsum_plus : forall (A : Type) (g h : A -> Q) (l : list A),
  qsum (map (fun x => g x + h x) l) == qsum (map g l) + qsum (map h l).
Proof.
  intros A g h l. induction l as [|x l IH]; cbn [qsum map].
  - ring.
  - rewrite IH. ring.
Qed.

(* a left fold that adds one term per element is the list sum (the step may destructure its element) *)
Lemma fold_left_qsum : forall (A : Type) (step : Q -> A -> Q) (g : A -> Q),
  (forall a x, step a x = a + g x) ->
  forall l a, fold_left step l a == a + qsum (map g l).
Proof.
  intros A step g Hstep l. induction l as [|x l IH]; intros a; cbn [fold_left qsum map].
  - ring.
  - rewrite IH. rewrite Hstep. ring.
Qed.

Lemma fold_left_ext_in : forall (A B : Type) (g h : B -> A -> B) (l : list A),
  (forall x, In x l -> forall a, g a x = h a x) -> forall a, fold_left g l a = fold_left h l a.
Proof.
  intros A B g h l. induction l as [|x l IH]; intros Hgh a; cbn [fold_left].
  - reflexivity.
  - rewrite (Hgh x (or_introl eq_refl)). apply IH. intros y Hy. apply Hgh. right. exact Hy.
Qed.

Lemma flat_map_ext_in : forall (A B : Type) (g h : A -> list B) (l : list A),
  (forall x, In x l -> g x = h x) -> flat_map g l = flat_map h l.
Proof.
  intros A B g h l. induction l as [|x l IH]; intros Hgh; cbn [flat_map].
  - reflexivity.
  - rewrite (Hgh x (or_introl eq_refl)). f_equal. apply IH. intros y Hy. apply Hgh. right. exact Hy.
Qed.

Lemma flat_map_map : forall (A B C : Type) (h : A -> B) (g : B -> list C) (l : list A),
  flat_map g (map h l) = flat_map (fun x => g (h x)) l.
Proof.
  intros A B C h g l. induction l as [|x l IH]; cbn [flat_map map].
  - reflexivity.
  - rewrite IH. reflexivity.
Qed.

(* ---------- the comparison relation ---------- *)
Lemma triples_eq_app : forall l1 l2 l1' l2',
  triples_eq l1 l1' -> triples_eq l2 l2' -> triples_eq (l1 ++ l2) (l1' ++ l2').
Proof. intros l1 l2 l1' l2' H1 H2. unfold triples_eq in *. apply Forall2_app; assumption. Qed.

Lemma triples_eq_map : forall (A : Type) (g h : A -> N * N * Q) (l : list A),
  (forall x, In x l -> triple_eq (g x) (h x)) -> triples_eq (map g l) (map h l).
Proof.
  intros A g h l. induction l as [|x l IH]; intros Hgh; cbn [map].
  - constructor.
  - constructor.
    + apply Hgh. left. reflexivity.
    + apply IH. intros y Hy. apply Hgh. right. exact Hy.
Qed.

Lemma triples_eq_flat_map : forall (A : Type) (g h : A -> list (N * N * Q)) (l : list A),
  (forall x, In x l -> triples_eq (g x) (h x)) -> triples_eq (flat_map g l) (flat_map h l).
Proof.
  intros A g h l. induction l as [|x l IH]; intros Hgh; cbn [flat_map].
  - constructor.
  - apply triples_eq_app.
    + apply Hgh. left. reflexivity.
    + apply IH. intros y Hy. apply Hgh. right. exact Hy.
Qed.

Lemma triple_eq_refl : forall x, triple_eq x x.
Proof. intros x. split; reflexivity. Qed.

Lemma triples_eq_refl : forall l, triples_eq l l.
Proof. induction l as [|x l IH]; constructor; [apply triple_eq_refl | exact IH]. Qed.

Lemma triples_eq_sym : forall l1 l2, triples_eq l1 l2 -> triples_eq l2 l1.
Proof.
  intros l1 l2 H. induction H as [|x y l1 l2 Hxy _ IH]; constructor.
  - destruct Hxy as [Hk Hv]. split; symmetry; assumption.
  - exact IH.
Qed.

Lemma triples_eq_trans : forall l1 l2 l3, triples_eq l1 l2 -> triples_eq l2 l3 -> triples_eq l1 l3.
Proof.
  intros l1 l2 l3 H12. revert l3. induction H12 as [|x y l1 l2 Hxy _ IH]; intros l3 H23.
  - inversion H23. constructor.
  - inversion H23 as [|y' z l2' l3' Hyz H23' E1 E2]; subst. constructor.
    + destruct Hxy as [Hk Hv]. destruct Hyz as [Hk' Hv']. split.
      * congruence.
      * rewrite Hv. exact Hv'.
    + apply IH. exact H23'.
Qed.

(* ---------- induction on rose trees ---------- *)
Section QtreeInd.
  Variable P : qtree -> Prop.
  Hypothesis HT : forall k b p ch, Forall (fun est => P (snd est)) ch -> P (T k b p ch).
  Fixpoint qtree_ind' (t : qtree) : P t :=
    match t with
    | T k b p ch =>
        HT k b p ch
          ((fix go (l : list (N * Q * qtree)) : Forall (fun est => P (snd est)) l :=
              match l with
              | [] => Forall_nil _
              | est :: l' => Forall_cons est (qtree_ind' (snd est)) (go l')
              end) ch)
    end.
End QtreeInd.

(* ---------- depth ---------- *)
Definition depth_step (a : nat) (est : N * Q * qtree) : nat := Nat.max a (depth (snd est)).

Lemma depth_eq : forall k b (p : Q) ch, depth (T k b p ch) = S (fold_left depth_step ch O).
Proof. reflexivity. Qed.

Lemma fold_depth_ge : forall (l : list (N * Q * qtree)) a,
  (a <= fold_left depth_step l a)%nat /\
  forall est, In est l -> (depth (snd est) <= fold_left depth_step l a)%nat.
Proof.
  induction l as [|x l IH]; intros a; cbn [fold_left].
  - split; [lia | intros est []].
  - destruct (IH (depth_step a x)) as [H1 H2].
    assert (Ha : (a <= depth_step a x)%nat) by (unfold depth_step; lia).
    assert (Hx : (depth (snd x) <= depth_step a x)%nat) by (unfold depth_step; lia).
    split.
    + lia.
    + intros est [E | Hin].
      * subst est. lia.
      * apply H2. exact Hin.
Qed.

Lemma depth_child : forall k b (p : Q) ch est,
  In est ch -> (depth (snd est) < depth (T k b p ch))%nat.
Proof.
  intros k b p ch est Hin. rewrite depth_eq.
  destruct (fold_depth_ge ch O) as [_ H]. specialize (H est Hin).
  apply Nat.lt_succ_r. exact H.
Qed.

Lemma depth_child_le : forall k b (p : Q) ch est f,
  (depth (T k b p ch) <= S f)%nat -> In est ch -> (depth (snd est) <= f)%nat.
Proof. intros k b p ch est f Hd Hin. pose proof (depth_child k b p ch est Hin). lia. Qed.

Lemma depth_pos : forall t : qtree, (1 <= depth t)%nat.
Proof. intros [k b p ch]. rewrite depth_eq. lia. Qed.

(* ---------- shorthand for the Q instances ---------- *)
Definition utQ : nat -> qtree -> Q := utilde Q 0 1 Qplus Qmult.
Definition specQ : nat -> qtree -> list (N * N * Q) := regrets_spec Q 0 1 Qplus Qminus Qmult.
Definition gainsQ : nat -> qtree -> Q -> Q -> list (N * N * Q) := gains Q 0 1 Qplus Qminus Qmult Qdiv.
Definition lbQ : N -> qtree -> Q -> Q -> list (Q * Q * Q) := leaves_below Q 1 Qmult.
Definition lsQ : Q -> list (Q * Q * Q) -> Q := leaf_sum Q 0 Qplus Qmult Qdiv.
Definition wk (k : kind) (s : Q) : Q := match k with KWalker => s | _ => 1 end.
Definition sg (est : N * Q * qtree) : Q := snd (fst est).

Lemma sigma_sum_qsum : forall ch, sigma_sum ch = qsum (map sg ch).
Proof. induction ch as [|x ch IH]; cbn [sigma_sum fold_right qsum map]; [reflexivity|]. fold (sigma_sum ch). rewrite IH. reflexivity. Qed.

(* utilde, one step *)
Lemma utQ_leaf : forall f k b p, utQ (S f) (T k b p []) = p.
Proof. reflexivity. Qed.

Lemma utQ_node : forall f k b p ch, ch <> [] ->
  utQ (S f) (T k b p ch) == qsum (map (fun est => wk k (sg est) * utQ f (snd est)) ch).
Proof.
  intros f k b p ch Hne. destruct ch as [|x l]; [congruence|].
  unfold utQ at 1. cbn [utilde]. fold utQ.
  rewrite (fold_left_qsum _ _ (fun est => wk k (sg est) * utQ f (snd est))).
  - ring.
  - intros a [[e s] c]. reflexivity.
Qed.

(* utilde does not depend on the fuel once it covers the depth *)
Lemma utQ_fuel : forall f f' t, (depth t <= f)%nat -> (depth t <= f')%nat -> utQ f t = utQ f' t.
Proof.
  induction f as [|f IH]; intros f' t Hf Hf'.
  - pose proof (depth_pos t). lia.
  - destruct f' as [|f']; [pose proof (depth_pos t); lia|].
    destruct t as [k b p ch]. destruct ch as [|x l]; [reflexivity|].
    unfold utQ. cbn [utilde]. fold utQ.
    apply fold_left_ext_in. intros [[e s] c] Hin a.
    rewrite (IH f' c).
    + reflexivity.
    + exact (depth_child_le _ _ _ _ _ _ Hf Hin).
    + exact (depth_child_le _ _ _ _ _ _ Hf' Hin).
Qed.

Lemma utilde_Q_fuel : forall f t, (depth t <= f)%nat -> utQ f t = utilde_Q t.
Proof. intros f t Hf. unfold utilde_Q. fold utQ. apply utQ_fuel; [exact Hf | lia]. Qed.

(* the walker's profile value, as written in regrets_spec *)
Lemma spec_value_qsum : forall f (ch : list (N * Q * qtree)),
  fold_left (fun acc est => let '(e, s, c) := est in acc + s * utQ f c) ch 0
  == qsum (map (fun est => sg est * utQ f (snd est)) ch).
Proof.
  intros f ch. rewrite (fold_left_qsum _ _ (fun est => sg est * utQ f (snd est))).
  - ring.
  - intros a [[e s] c]. reflexivity.
Qed.

(* regrets_spec, one step *)
Lemma specQ_eq : forall f k b p ch,
  specQ (S f) (T k b p ch) =
  (match k, ch with
   | KWalker, _ :: _ =>
       let v := fold_left (fun acc est => let '(e, s, c) := est in acc + s * utQ f c) ch 0 in
       map (fun est => let '(e, s, c) := est in (b, e, utQ f c - v)) ch
   | _, _ => [] end)
  ++ flat_map (fun est => specQ f (snd est)) ch.
Proof. reflexivity. Qed.

(* the same with the head part as a plain map (also right for a traverser node without children) *)
Definition spec_value (f : nat) (ch : list (N * Q * qtree)) : Q :=
  fold_left (fun acc est => let '(e, s, c) := est in acc + s * utQ f c) ch 0.
Definition spec_head (f : nat) (k : kind) (b : N) (ch : list (N * Q * qtree)) : list (N * N * Q) :=
  match k with
  | KWalker => map (fun est => (b, fst (fst est), utQ f (snd est) - spec_value f ch)) ch
  | _ => []
  end.
Lemma specQ_eq' : forall f k b p ch,
  specQ (S f) (T k b p ch) = spec_head f k b ch ++ flat_map (fun est => specQ f (snd est)) ch.
Proof.
  intros f k b p ch. rewrite specQ_eq. f_equal.
  destruct k; try reflexivity. destruct ch as [|x l]; [reflexivity|].
  cbv zeta. unfold spec_head, spec_value. apply map_ext. intros [[e s] c]. reflexivity.
Qed.

(* regrets_spec does not depend on the fuel once it covers the depth *)
Lemma specQ_fuel : forall f f' t, (depth t <= f)%nat -> (depth t <= f')%nat -> specQ f t = specQ f' t.
Proof.
  induction f as [|f IH]; intros f' t Hf Hf'.
  - pose proof (depth_pos t). lia.
  - destruct f' as [|f']; [pose proof (depth_pos t); lia|].
    destruct t as [k b p ch]. rewrite !specQ_eq. f_equal.
    + destruct k; try reflexivity. destruct ch as [|x l]; [reflexivity|].
      cbv zeta.
      replace (fold_left (fun acc est => let '(e, s, c) := est in acc + s * utQ f c) (x :: l) 0)
        with (fold_left (fun acc est => let '(e, s, c) := est in acc + s * utQ f' c) (x :: l) 0).
      * apply map_ext_in. intros [[e s] c] Hin.
        rewrite (utQ_fuel f f' c); [reflexivity | |].
        -- exact (depth_child_le _ _ _ _ _ _ Hf Hin).
        -- exact (depth_child_le _ _ _ _ _ _ Hf' Hin).
      * apply fold_left_ext_in. intros [[e s] c] Hin a.
        rewrite (utQ_fuel f f' c); [reflexivity | |].
        -- exact (depth_child_le _ _ _ _ _ _ Hf Hin).
        -- exact (depth_child_le _ _ _ _ _ _ Hf' Hin).
    + apply flat_map_ext_in. intros est Hin. apply IH.
      * exact (depth_child_le _ _ _ _ _ _ Hf Hin).
      * exact (depth_child_le _ _ _ _ _ _ Hf' Hin).
Qed.

(* ---------- es_shape / sigma_normalised, inversion helpers ---------- *)
Lemma es_shape_inv : forall k b p ch, es_shape (T k b p ch) ->
  (k <> KWalker -> (length ch <= 1)%nat) /\
  (forall est, In est ch -> sigma_ok k (sg est)) /\
  (forall est, In est ch -> es_shape (snd est)).
Proof.
  intros k b p ch H. inversion H as [k' b' p' ch' H1 H2 H3]; subst.
  split; [exact H1|]. split.
  - rewrite Forall_forall in H2. exact H2.
  - rewrite Forall_forall in H3. exact H3.
Qed.

Lemma sigma_normalised_inv : forall k b p ch, sigma_normalised (T k b p ch) ->
  (k = KWalker -> ch <> [] -> sigma_sum ch == 1) /\
  (forall est, In est ch -> sigma_normalised (snd est)).
Proof.
  intros k b p ch H. inversion H as [k' b' p' ch' H1 H2]; subst.
  split; [exact H1|]. rewrite Forall_forall in H2. exact H2.
Qed.

Lemma sigma_ok_nonzero : forall k s, sigma_ok k s -> ~ s == 0.
Proof. intros k s H. destruct k; cbn [sigma_ok] in H; lra. Qed.

Lemma sigma_ok_pos : forall k s, sigma_ok k s -> 0 < s.
Proof. intros k s H. destruct k; cbn [sigma_ok] in H; lra. Qed.
