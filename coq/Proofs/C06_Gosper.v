(* Proofs/C06_Gosper.v -- HandIterator::permute (Gosper's next bit permutation, u64, debug-build
   semantics) computes the next larger word with the same popcount, without any overflow, for every
   non-zero word whose top 1-block does not reach bit 63. *)
From Coq Require Import NArith ZArith List Bool Lia ZifyBool ZifyN ZifyNat Sorted.
From RP Require Import Base.Bits Model.Codec Model.Hands Proofs.BitsLemmas Proofs.C06_Cat.
Import ListNotations.
Open Scope N_scope.

Arguments N.add : simpl never.
Arguments N.mul : simpl never.
Arguments N.sub : simpl never.
Arguments N.shiftl : simpl never.
Arguments N.shiftr : simpl never.
Arguments N.land : simpl never.
Arguments N.lor : simpl never.
Arguments N.lxor : simpl never.
Arguments N.pow : simpl never.
Arguments N.testbit : simpl never.

(* the successor pattern: 1^b 0^(a+1) 1 r *)
Definition gosper_next (a b r : N) : N := cat (a + b + 1) (ones b) (cat 1 1 r).

Lemma gosper_next_arith : forall a b r,
  gosper_next a b r = (2 ^ b - 1) + 2 ^ (a + b + 1) + 2 ^ (a + b + 2) * r.
Proof.
  intros a b r. unfold gosper_next, cat, ones.
  replace (a + b + 2) with ((a + b + 1) + 1) by lia.
  rewrite (N.pow_add_r 2 (a + b + 1) 1). change (2 ^ 1) with 2. lia.
Qed.

Section Step.
Variables a b r : N.
Hypothesis Hwidth : a + b + 2 <= 64.
Hypothesis Hx : gosper_shape a b r < 2 ^ 64.

Let w := 64 - (a + b + 2).
Let x := gosper_shape a b r.

Lemma step_r_lt : r < 2 ^ w.
Proof.
  unfold x, gosper_shape in Hx.
  replace 64 with (a + ((b + 1) + (1 + w))) in Hx by (unfold w; lia).
  apply cat_hi_lt in Hx. apply cat_hi_lt in Hx. apply cat_hi_lt in Hx. exact Hx.
Qed.

Lemma step_x_pos : 0 < x.
Proof.
  unfold x, gosper_shape. unfold cat at 1. rewrite N.add_0_l.
  apply N.mul_pos_pos; [apply pow2_pos|].
  unfold cat at 1. unfold ones. pose proof (pow2_pos b). rewrite pow2_succ. lia.
Qed.

Lemma step_dec : x - 1 = cat a (ones a) (cat (b + 1) (ones (b + 1) - 1) (cat 1 0 r)).
Proof.
  unfold x, gosper_shape.
  rewrite dec_cat_zero.
  - rewrite dec_cat_pos; [reflexivity|]. unfold ones. rewrite pow2_succ. pose proof (pow2_pos b). lia.
  - unfold cat at 1. unfold ones. rewrite pow2_succ. pose proof (pow2_pos b). lia.
Qed.

Definition stepA : N := cat a (ones a) (cat (b + 1) (ones (b + 1)) (cat 1 0 r)).

Lemma step_lor : N.lor x (x - 1) = stepA.
Proof.
  rewrite step_dec. unfold x, gosper_shape, stepA.
  rewrite lor_cat by (try apply pow2_pos; apply ones_lt).
  rewrite lor_cat; [| apply ones_lt | pose proof (ones_lt (b + 1)); lia].
  rewrite N.lor_0_l, N.lor_diag.
  rewrite lor_ones_low by (pose proof (ones_lt (b + 1)); lia).
  reflexivity.
Qed.

Lemma ones64_cat : ones64 = cat a (ones a) (cat (b + 1) (ones (b + 1)) (cat 1 1 (ones w))).
Proof.
  change ones64 with (ones 64).
  replace 64 with (a + ((b + 1) + (1 + w))) by (unfold w; lia).
  rewrite !ones_cat. reflexivity.
Qed.

Lemma step_A_ne : stepA <> ones64.
Proof.
  intros E. assert (Hb : N.testbit stepA (a + b + 1) = N.testbit ones64 (a + b + 1)) by (rewrite E; reflexivity).
  change ones64 with (ones 64) in Hb. rewrite testbit_ones in Hb.
  unfold stepA in Hb.
  rewrite testbit_cat in Hb by apply ones_lt.
  destruct (N.ltb_spec (a + b + 1) a) as [H1 | H1]; [lia|].
  rewrite testbit_cat in Hb by apply ones_lt.
  destruct (N.ltb_spec (a + b + 1 - a) (b + 1)) as [H2 | H2]; [lia|].
  rewrite testbit_cat in Hb by reflexivity.
  replace (a + b + 1 - a - (b + 1)) with 0 in Hb by lia.
  change (0 <? 1) with true in Hb. cbv iota in Hb. rewrite N.bits_0 in Hb.
  destruct (N.ltb_spec (a + b + 1) 64) as [H3 | H3]; [discriminate | lia].
Qed.

Definition stepB : N := cat a 0 (cat (b + 1) 0 (cat 1 1 r)).

Lemma step_inc : stepA + 1 = stepB.
Proof.
  unfold stepA, stepB. rewrite inc_cat_ones, inc_cat_ones, inc_cat_lo. reflexivity.
Qed.

Lemma step_land : N.land (N.lxor stepA ones64) stepB = cat a 0 (cat (b + 1) 0 (cat 1 1 0)).
Proof.
  rewrite ones64_cat. unfold stepA, stepB.
  rewrite lxor_cat by apply ones_lt.
  rewrite lxor_cat by apply ones_lt.
  rewrite lxor_cat by reflexivity.
  rewrite !N.lxor_nilpotent. change (N.lxor 0 1) with 1.
  rewrite land_cat by apply pow2_pos.
  rewrite land_cat by apply pow2_pos.
  rewrite land_cat by reflexivity.
  rewrite N.land_0_l, N.land_diag. rewrite land_lxor_ones by apply step_r_lt. reflexivity.
Qed.

Lemma step_dec2 : cat a 0 (cat (b + 1) 0 (cat 1 1 0)) - 1 = ones (a + (b + 1)).
Proof.
  rewrite dec_cat_zero.
  - rewrite dec_cat_zero by (unfold cat; lia).
    rewrite dec_cat_pos by lia. change (1 - 1) with 0. rewrite cat_0_r.
    symmetry. apply ones_cat.
  - unfold cat. pose proof (pow2_pos (b + 1)). lia.
Qed.

Lemma step_tz : tz64 x = a.
Proof.
  pose proof step_x_pos as Hpos.
  destruct (tz64_spec x Hx ltac:(lia)) as (Ht & Hbit & Hlow).
  assert (Hxa : N.testbit x a = true).
  { unfold x, gosper_shape. rewrite testbit_cat by apply pow2_pos.
    rewrite N.ltb_irrefl. rewrite N.sub_diag.
    rewrite testbit_cat by apply ones_lt.
    destruct (N.ltb_spec 0 (b + 1)) as [H | H]; [|lia].
    rewrite testbit_ones. apply N.ltb_lt. exact H. }
  assert (Hxlow : forall j, j < a -> N.testbit x j = false).
  { intros j Hj. unfold x, gosper_shape. rewrite testbit_cat by apply pow2_pos.
    destruct (N.ltb_spec j a) as [H | H]; [apply N.bits_0 | lia]. }
  destruct (N.lt_trichotomy (tz64 x) a) as [H | [H | H]]; [| exact H |].
  - rewrite (Hxlow _ H) in Hbit. discriminate.
  - rewrite (Hlow _ H) in Hxa. discriminate.
Qed.

Lemma step_shiftr : N.shiftr (ones (a + (b + 1))) (1 + a) = ones b.
Proof.
  replace (a + (b + 1)) with ((1 + a) + b) by lia.
  rewrite ones_cat. apply shiftr_cat. apply ones_lt.
Qed.

Lemma step_final : N.lor stepB (ones b) = gosper_next a b r.
Proof.
  unfold stepB, gosper_next. rewrite cat_zero_zero.
  replace (a + (b + 1)) with (a + b + 1) by lia.
  assert (Hb : ones b < 2 ^ (a + b + 1)).
  { eapply N.lt_le_trans; [apply ones_lt | apply pow2_le; lia]. }
  rewrite <- (cat_0_r (a + b + 1) (ones b)) at 1.
  rewrite lor_cat by (try apply pow2_pos; exact Hb).
  rewrite N.lor_0_l, N.lor_0_r. reflexivity.
Qed.

Lemma permute_next_shape : permute_next x = Some (gosper_next a b r).
Proof.
  unfold permute_next.
  pose proof step_x_pos as Hpos.
  destruct (N.eqb_spec x 0) as [E | _]; [lia|].
  cbv zeta. rewrite step_lor.
  destruct (N.eqb_spec stepA ones64) as [E | _]; [exfalso; exact (step_A_ne E)|].
  rewrite step_inc, step_land.
  destruct (N.eqb_spec (cat a 0 (cat (b + 1) 0 (cat 1 1 0))) 0) as [E | _].
  { exfalso. unfold cat in E. pose proof (pow2_pos a). pose proof (pow2_pos (b + 1)). nia. }
  rewrite step_dec2, step_tz.
  destruct (N.leb_spec 64 (1 + a)) as [H | _]; [lia|].
  rewrite step_shiftr, step_final. reflexivity.
Qed.

(* order and popcount *)
Definition lowx : N := cat a 0 (ones (b + 1)).          (* 0^a 1^(b+1) *)
Definition lowy : N := cat (a + b + 1) (ones b) 1.      (* 1^b 0^(a+1) 1 *)
Let m := a + b + 2.

Lemma lowx_lt : lowx < 2 ^ (a + b + 1).
Proof.
  unfold lowx. replace (a + b + 1) with (a + (b + 1)) by lia.
  apply cat_lt; [apply pow2_pos | apply ones_lt].
Qed.

Lemma lowy_lt : lowy < 2 ^ m.
Proof.
  unfold lowy, m. replace (a + b + 2) with ((a + b + 1) + 1) by lia.
  apply cat_lt; [| reflexivity].
  eapply N.lt_le_trans; [apply ones_lt | apply pow2_le; lia].
Qed.

Lemma x_split : x = cat m lowx r.
Proof.
  unfold x, gosper_shape, lowx, m.
  replace (a + b + 2) with (a + ((b + 1) + 1)) by lia.
  unfold cat. rewrite !N.pow_add_r. lia.
Qed.

Lemma y_split : gosper_next a b r = cat m lowy r.
Proof.
  unfold gosper_next, lowy, m.
  replace (a + b + 2) with ((a + b + 1) + 1) by lia.
  rewrite cat_assoc. reflexivity.
Qed.

Lemma lowx_lowy : lowx < lowy.
Proof.
  pose proof lowx_lt as H. unfold lowy, cat. lia.
Qed.

Lemma x_lt_y : x < gosper_next a b r.
Proof. rewrite x_split, y_split. apply cat_lt_lo. exact lowx_lowy. Qed.

Lemma pc_x : pc x = b + 1 + pc r.
Proof.
  unfold x, gosper_shape. rewrite pc_cat by apply pow2_pos.
  rewrite pc_cat by apply ones_lt. rewrite pc_cat by reflexivity.
  rewrite pc_ones, pc_0. lia.
Qed.

Lemma pc_y : pc (gosper_next a b r) = b + 1 + pc r.
Proof.
  unfold gosper_next.
  rewrite pc_cat by (eapply N.lt_le_trans; [apply ones_lt | apply pow2_le; lia]).
  rewrite pc_cat by reflexivity. rewrite pc_ones, pc_1. lia.
Qed.

Lemma y_lt_64 : gosper_next a b r < 2 ^ 64.
Proof.
  rewrite y_split. replace 64 with (m + w) by (unfold m, w; lia).
  apply cat_lt; [apply lowy_lt | apply step_r_lt].
Qed.

(* nothing with the same popcount strictly in between *)
Lemma between_pc : forall z, x < z -> z < gosper_next a b r -> pc z <> pc x.
Proof.
  intros z Hxz Hzy.
  rewrite x_split in Hxz. rewrite y_split in Hzy. rewrite pc_x.
  pose proof lowx_lt as Hlx. pose proof lowy_lt as Hly.
  assert (Hlx' : lowx < 2 ^ m).
  { eapply N.lt_le_trans; [exact Hlx | apply pow2_le; unfold m; lia]. }
  pose proof (pow2_pos m) as Hpm.
  assert (Hzh : z / 2 ^ m = r).
  { apply N.le_antisymm.
    - rewrite <- (cat_div m lowy r Hly). apply N.div_le_mono; lia.
    - rewrite <- (cat_div m lowx r Hlx') at 1. apply N.div_le_mono; lia. }
  pose proof (mod_pow2_lt m z) as Hzl.
  rewrite (cat_div_mod m z) in Hxz, Hzy |- *. rewrite Hzh in *.
  set (zl := z mod 2 ^ m) in *.
  assert (H1 : lowx < zl) by (unfold cat in Hxz; lia).
  assert (H2 : zl < lowy) by (unfold cat in Hzy; lia).
  rewrite pc_cat by exact Hzl.
  enough (pc zl <> b + 1) by lia.
  destruct (N.lt_ge_cases zl (2 ^ (a + b + 1))) as [Hc | Hc].
  - (* zl = lowx + t with 0 < t < 2^a *)
    assert (Hxa : lowx + 2 ^ a = 2 ^ (a + b + 1)).
    { unfold lowx, cat, ones. replace (a + b + 1) with (a + (b + 1)) by lia.
      rewrite (N.pow_add_r 2 a (b + 1)). pose proof (pow2_pos (b + 1)). rewrite N.mul_sub_distr_l.
      pose proof (pow2_pos a). nia. }
    set (t := zl - lowx).
    assert (Ht : 0 < t < 2 ^ a) by (unfold t; lia).
    assert (Ez : zl = cat a t (ones (b + 1))) by (unfold cat, t; unfold lowx, cat in H1 |- *; lia).
    rewrite Ez, pc_cat by lia. rewrite pc_ones.
    assert (0 < pc t) by (apply pc_pos; lia). lia.
  - (* zl = 2^(a+b+1) + t with t < ones b *)
    set (t := zl - 2 ^ (a + b + 1)).
    assert (Ht : t < ones b) by (unfold t; unfold lowy, cat in H2; lia).
    assert (Htl : t < 2 ^ (a + b + 1)).
    { eapply N.lt_le_trans; [exact Ht|]. pose proof (ones_lt b).
      assert (2 ^ b <= 2 ^ (a + b + 1)) by (apply pow2_le; lia). lia. }
    assert (Ez : zl = cat (a + b + 1) t 1) by (unfold cat, t; lia).
    rewrite Ez, pc_cat by exact Htl. rewrite pc_1.
    apply pc_lt_ones in Ht. lia.
Qed.

End Step.

(* ---------- the statements in terms of arbitrary x ---------- *)

(* any non-zero x below 2^63 *)
Lemma shape_width : forall a b r, gosper_shape a b r < 2 ^ 63 -> a + b + 2 <= 64.
Proof.
  intros a b r H.
  assert (Hlow : 2 ^ (a + b) <= gosper_shape a b r).
  { unfold gosper_shape. unfold cat at 1. rewrite N.add_0_l. rewrite N.pow_add_r.
    apply N.mul_le_mono_l. unfold cat at 1. unfold ones. rewrite pow2_succ.
    pose proof (pow2_pos b). lia. }
  assert (a + b < 63) by (apply pow2_lt_inv; lia). lia.
Qed.

Lemma lt63_lt64 : forall x, x < 2 ^ 63 -> x < 2 ^ 64.
Proof. intros x H. eapply N.lt_trans; [exact H | reflexivity]. Qed.

Lemma permute_next_succ_shape : forall a b r,
  gosper_shape a b r < 2 ^ 63 ->
  permute_next (gosper_shape a b r) = Some (gosper_next a b r).
Proof.
  intros a b r H. apply permute_next_shape; [apply (shape_width a b r H) | apply lt63_lt64, H].
Qed.

(* the next larger word with the same popcount *)
Definition is_pc_succ (x y : N) : Prop :=
  x < y /\ pc y = pc x /\ forall z, x < z -> z < y -> pc z <> pc x.

Lemma permute_next_pc_succ : forall x, 0 < x -> x < 2 ^ 63 ->
  exists y, permute_next x = Some y /\ is_pc_succ x y /\ y < 2 ^ 64.
Proof.
  intros x Hpos Hx.
  destruct (gosper_shape_exists x Hpos) as (a & b & r & E). subst x.
  pose proof (shape_width a b r Hx) as Hw. pose proof (lt63_lt64 _ Hx) as Hx64.
  exists (gosper_next a b r). split; [apply permute_next_shape; assumption|].
  split; [|apply y_lt_64; assumption].
  unfold is_pc_succ. split; [apply x_lt_y; assumption|]. split.
  - rewrite pc_x, pc_y by assumption. reflexivity.
  - intros z H1 H2. apply between_pc; assumption.
Qed.

(* a successor is unique, and bounded by any larger word of the same popcount *)
Lemma pc_succ_le : forall x y t, is_pc_succ x y -> x < t -> pc t = pc x -> y <= t.
Proof.
  intros x y t (Hxy & Hpc & Hbetween) Hxt Ht.
  destruct (N.le_gt_cases y t) as [H | H]; [exact H|].
  exfalso. exact (Hbetween t Hxt H Ht).
Qed.
