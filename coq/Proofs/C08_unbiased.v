(* Proofs/C08_unbiased.v -- the external-sampling estimator of Model/Cfr.v is unbiased: over the
   distribution of external-sampling trees of a full game tree (Spec/SpecSampling.v) the expectation of the
   sampled counterfactual value utilde is the value of the tree, and the expectation of the estimated regret
   of a traverser node is its counterfactual regret (counterfactual reach times value difference). *)
From Coq Require Import NArith QArith List Bool Lia Lqa Field Qfield Setoid Morphisms.
From RP Require Import Model.Cfr Spec.SpecCfr Spec.SpecSampling.
From RP Require Import Proofs.C08_base Proofs.C08_estimator Proofs.C08_shift Proofs.C08_dist Proofs.C08_samples.
Import ListNotations.
Open Scope Q_scope.

(* ---------- utilde_Q and value, one step ---------- *)
Lemma utilde_Q_leaf : forall k b p, utilde_Q (T k b p []) = p.
Proof. reflexivity. Qed.

Lemma utilde_Q_node : forall k b p ch, ch <> [] ->
  utilde_Q (T k b p ch) == qsum (map (fun est => wk k (sg est) * utilde_Q (snd est)) ch).
Proof.
  intros k b p ch Hne. unfold utilde_Q at 1. fold utQ. rewrite depth_eq.
  set (d := fold_left depth_step ch O).
  rewrite (utQ_node d k b p ch Hne). apply qsum_ext_in. intros est Hin.
  rewrite (utilde_Q_fuel d (snd est)); [reflexivity|].
  apply (depth_child_le k b p ch est d); [rewrite depth_eq; fold d; lia | exact Hin].
Qed.

Lemma utilde_Q_single : forall k b p x, k <> KWalker -> utilde_Q (T k b p [x]) == utilde_Q (snd x).
Proof.
  intros k b p x Hk. rewrite utilde_Q_node by discriminate. cbn [map qsum].
  destruct k; [congruence | cbn [wk] | cbn [wk]]; rewrite Qmult_1_l, Qplus_0_r; reflexivity.
Qed.

Lemma value_leaf : forall k b p, value (T k b p []) = p.
Proof. reflexivity. Qed.

Lemma value_node : forall k b p ch, ch <> [] ->
  value (T k b p ch) = sumQ (map (fun est => prob est * value (snd est)) ch).
Proof. intros k b p ch Hne. destruct ch as [|x l]; [congruence | reflexivity]. Qed.

(* ---------- utilde is unbiased ---------- *)
Definition iut (s : stree) : Q := utilde_Q (forget s).

Lemma walker_value_sum : forall ch j,
  (forall est, In est ch -> expect iut (isamples (snd est)) == value (snd est)) ->
  qsum (map (expect (fun x => sg (fedge x) * utilde_Q (snd (fedge x)))) (map snd (eds KWalker j ch)))
  == sumQ (map (fun est => prob est * value (snd est)) ch).
Proof.
  intros ch. induction ch as [|est ch IH]; intros j H.
  - reflexivity.
  - rewrite eds_cons. cbn [map snd qsum]. rewrite sumQ_cons, expect_dmap.
    rewrite (expect_ext _ (fun s => prob est * iut s)).
    + rewrite expect_scale, (H est (or_introl eq_refl)), IH.
      * reflexivity.
      * intros est' Hin. apply H. right. exact Hin.
    + intros s. rewrite fedge_mk. reflexivity.
Qed.

Lemma pick_value_sum : forall k ch j,
  (forall est, In est ch -> expect iut (isamples (snd est)) == value (snd est)) ->
  expect (fun x => utilde_Q (snd (fedge x))) (pick_one (eds k j ch))
  == sumQ (map (fun est => prob est * value (snd est)) ch).
Proof.
  intros k ch. induction ch as [|est ch IH]; intros j H.
  - reflexivity.
  - rewrite expect_pick_cons. cbn [map]. rewrite sumQ_cons.
    rewrite (expect_ext _ iut).
    + rewrite (H est (or_introl eq_refl)), IH.
      * reflexivity.
      * intros est' Hin. apply H. right. exact Hin.
    + intros s. rewrite fedge_mk. reflexivity.
Qed.

Lemma iutilde_unbiased : forall t, full_ok t -> expect iut (isamples t) == value t.
Proof.
  intros t. induction t as [k b p ch IH] using qtree_ind'. intros Hok.
  destruct (full_ok_inv _ _ _ _ Hok) as [_ [_ Hsub]]. rewrite Forall_forall in IH.
  assert (Hch : forall est, In est ch -> expect iut (isamples (snd est)) == value (snd est)).
  { intros est Hin. apply IH; [exact Hin | apply Hsub; exact Hin]. }
  assert (Htot : forall est, In est ch -> total (isamples (snd est)) == 1).
  { intros est Hin. apply isamples_total. apply Hsub. exact Hin. }
  destruct ch as [|x0 l0].
  - rewrite isamples_leaf, expect_cons, expect_nil. cbn [fst snd]. unfold iut.
    rewrite forget_eq. cbn [map]. rewrite utilde_Q_leaf, value_leaf. ring.
  - assert (Hne : x0 :: l0 <> []) by discriminate.
    rewrite (value_node k b p _ Hne).
    destruct (kind_eq_walker k) as [Ek | Ek].
    + subst k. rewrite (isamples_walker b p _ Hne), expect_dmap.
      rewrite (expect_ext_in _ (fun l => qsum (map (fun x => sg (fedge x) * utilde_Q (snd (fedge x))) l))).
      * rewrite (expect_dprod_qsum _ _ _ (eds_totals KWalker _ 0%nat Htot)).
        apply walker_value_sum. exact Hch.
      * intros q l Hl. unfold iut. rewrite forget_eq.
        destruct (walker_support _ _ _ _ Hl) as [_ Hlen].
        assert (Hne' : map fedge l <> []).
        { destruct l; [cbn [length] in Hlen; discriminate | discriminate]. }
        rewrite (utilde_Q_node KWalker b p _ Hne'), map_map. reflexivity.
    + rewrite (isamples_other k b p _ Hne Ek), expect_dmap.
      rewrite (expect_ext _ (fun x => utilde_Q (snd (fedge x)))).
      * apply pick_value_sum. exact Hch.
      * intros x. unfold iut. rewrite forget_eq. cbn [map]. apply utilde_Q_single. exact Ek.
Qed.

Theorem utilde_unbiased : forall t, full_ok t -> expect utilde_Q (samples t) == value t.
Proof. intros t Hok. unfold samples. rewrite expect_dmap. apply iutilde_unbiased. exact Hok. Qed.

(* ---------- the estimated regret of a traverser root ---------- *)
Lemma nth_error_map_app : forall (A B : Type) (g : A -> B) l r a x,
  nth_error l a = Some x -> nth_error (map g l ++ r) a = Some (g x).
Proof.
  intros A B g l r a x H. rewrite nth_error_app1.
  - rewrite nth_error_map, H. reflexivity.
  - rewrite map_length. apply nth_error_Some. congruence.
Qed.

(* what root_regret is at a traverser node: sampled value of the action minus sampled value of the node *)
Lemma root_regret_walker : forall b p ch a x,
  nth_error ch a = Some x ->
  root_regret (T KWalker b p ch) a == utilde_Q (snd x) - utilde_Q (T KWalker b p ch).
Proof.
  intros b p ch a x Hx. unfold root_regret. rewrite regret_estimator_unfold.
  assert (Hne : ch <> []) by (intros E; subst ch; destruct a; discriminate).
  destruct ch as [|x0 l0]; [congruence|].
  remember (x0 :: l0) as ch eqn:Ech. rewrite Ech at 1. rewrite <- Ech. cbv zeta.
  rewrite (nth_error_map_app _ _ _ ch _ a x Hx).
  destruct x as [[e s] c]. cbn [snd].
  rewrite (fold_left_qsum _ _ (fun est => sg est * utilde_Q (snd est))).
  - rewrite (utilde_Q_node KWalker b p ch Hne). cbn [wk]. ring.
  - intros acc [[e0 s0] c0]. reflexivity.
Qed.

Lemma eds_nth : forall k ch j a est,
  nth_error ch a = Some est ->
  nth_error (map snd (eds k j ch)) a = Some (dmap (mk_edge k (j + a) est) (isamples (snd est))).
Proof.
  intros k ch. induction ch as [|est0 ch IH]; intros j a est H.
  - destruct a; discriminate.
  - rewrite eds_cons. cbn [map snd]. destruct a as [|a]; cbn [nth_error] in *.
    + inversion H; subst. rewrite Nat.add_0_r. reflexivity.
    + rewrite (IH (S j) a est H). rewrite Nat.add_succ_r. reflexivity.
Qed.

Definition iroot (a : nat) (s : stree) : Q := root_regret (forget s) a.

Lemma iroot_regret_unbiased : forall b p ch a ca,
  full_ok (T KWalker b p ch) -> nth_error ch a = Some ca ->
  expect (iroot a) (isamples (T KWalker b p ch)) == value (snd ca) - value (T KWalker b p ch).
Proof.
  intros b p ch a ca Hok Ha.
  destruct (full_ok_inv _ _ _ _ Hok) as [_ [_ Hsub]].
  assert (Hne : ch <> []) by (intros E; subst ch; destruct a; discriminate).
  assert (Htot : forall est, In est ch -> total (isamples (snd est)) == 1).
  { intros est Hin. apply isamples_total. apply Hsub. exact Hin. }
  pose proof (iutilde_unbiased _ Hok) as Hval.
  rewrite (isamples_walker b p ch Hne), expect_dmap in Hval.
  rewrite (isamples_walker b p ch Hne), expect_dmap.
  set (G := fun o : option sedge => match o with Some x => utilde_Q (snd (fedge x)) | None => 0 end).
  rewrite (expect_ext_in _ (fun l => G (nth_error l a) - iut (ST KWalker b p l))).
  - rewrite expect_minus, Hval.
    rewrite (expect_dprod_nth _ G _ a (eds_totals KWalker ch 0%nat Htot)).
    rewrite (eds_nth KWalker ch 0%nat a ca Ha), expect_dmap.
    rewrite (expect_ext _ iut).
    + rewrite (iutilde_unbiased (snd ca)); [reflexivity|].
      apply Hsub. exact (nth_error_In _ _ Ha).
    + intros s. unfold G. rewrite fedge_mk. reflexivity.
  - intros q l Hl. unfold iroot, iut. rewrite forget_eq.
    destruct (walker_support _ _ _ _ Hl) as [_ Hlen].
    destruct (nth_error l a) as [x|] eqn:Ex.
    + assert (Hx : nth_error (map fedge l) a = Some (fedge x)) by (rewrite nth_error_map, Ex; reflexivity).
      rewrite (root_regret_walker b p _ a _ Hx). reflexivity.
    + exfalso. apply nth_error_None in Ex. assert (a < length ch)%nat by (apply nth_error_Some; congruence). unfold sedge, qtree in *. lia.
Qed.

Theorem root_regret_unbiased : forall b p ch a ca,
  full_ok (T KWalker b p ch) -> nth_error ch a = Some ca ->
  expect (fun s => root_regret s a) (samples (T KWalker b p ch))
  == value (snd ca) - value (T KWalker b p ch).
Proof.
  intros b p ch a ca Hok Ha. unfold samples. rewrite expect_dmap.
  exact (iroot_regret_unbiased b p ch a ca Hok Ha).
Qed.

(* the same for the regrets computed by the implementation model (C08_estimator on every sample) *)
Lemma triples_eq_nth : forall l1 l2 a, triples_eq l1 l2 ->
  match nth_error l1 a with Some x => snd x | None => 0 end
  == match nth_error l2 a with Some x => snd x | None => 0 end.
Proof.
  intros l1 l2 a H. revert a. induction H as [|x y l1 l2 Hxy _ IH]; intros a.
  - reflexivity.
  - destruct a as [|a]; cbn [nth_error].
    + exact (proj2 Hxy).
    + apply IH.
Qed.

Theorem root_regret_impl_unbiased : forall b p ch a ca,
  full_ok (T KWalker b p ch) -> full_pos (T KWalker b p ch) -> nth_error ch a = Some ca ->
  expect (fun s => root_regret_impl s a) (samples (T KWalker b p ch))
  == value (snd ca) - value (T KWalker b p ch).
Proof.
  intros b p ch a ca Hok Hpos Ha.
  rewrite <- (root_regret_unbiased b p ch a ca Hok Ha).
  apply expect_ext_in. intros q s Hin. unfold root_regret_impl, root_regret.
  apply triples_eq_nth. apply estimator. exact (samples_es_shape _ Hpos q s Hin).
Qed.

(* ---------- any traverser node ---------- *)
Definition opt_node_regret (rest : list nat) (a : nat) (o : option sedge) : Q :=
  match o with Some x => node_regret rest a (s_child x) | None => 0 end.

Lemma node_regret_nil : forall a s, node_regret [] a s = iroot a s.
Proof. reflexivity. Qed.

Lemma node_regret_cons : forall j rest a k b p l,
  node_regret (j :: rest) a (ST k b p l)
  = opt_node_regret rest a (find (fun x => Nat.eqb (s_index x) j) l).
Proof.
  intros j rest a k b p l. unfold node_regret, opt_node_regret. cbn [snode].
  destruct (find (fun x => Nat.eqb (s_index x) j) l); reflexivity.
Qed.

Lemma s_index_mk : forall k j est s, s_index (mk_edge k j est s) = j.
Proof. reflexivity. Qed.

(* the entry at position m of a list whose positions are numbered from j0 *)
Definition nth_from {A : Type} (j0 m : nat) (l : list A) : option A :=
  if Nat.leb j0 m then nth_error l (m - j0) else None.

Lemma nth_from_nil : forall (A : Type) j0 m, @nth_from A j0 m [] = None.
Proof. intros A j0 m. unfold nth_from. destruct (Nat.leb j0 m); [destruct (m - j0)%nat|]; reflexivity. Qed.

Lemma nth_from_here : forall (A : Type) m (x : A) l, nth_from m m (x :: l) = Some x.
Proof. intros A m x l. unfold nth_from. rewrite Nat.leb_refl, Nat.sub_diag. reflexivity. Qed.

Lemma nth_from_later : forall (A : Type) j0 m (x : A) l, j0 <> m -> nth_from j0 m (x :: l) = nth_from (S j0) m l.
Proof.
  intros A j0 m x l Hne. unfold nth_from.
  destruct (Nat.leb_spec j0 m) as [H1 | H1]; destruct (Nat.leb_spec (S j0) m) as [H2 | H2]; try lia; try reflexivity.
  replace (m - j0)%nat with (S (m - S j0)) by lia. reflexivity.
Qed.

Lemma nth_from_0 : forall (A : Type) m (l : list A), nth_from 0 m l = nth_error l m.
Proof. intros A m l. unfold nth_from. cbn [Nat.leb]. rewrite Nat.sub_0_r. reflexivity. Qed.

(* traverser node: all children kept; following index m finds the sample of child m *)
Lemma walker_find : forall (G : option sedge -> Q) k ch j0 m,
  (forall est, In est ch -> total (isamples (snd est)) == 1) ->
  expect (fun l => G (find (fun x => Nat.eqb (s_index x) m) l)) (dprod (map snd (eds k j0 ch)))
  == match nth_from j0 m ch with
     | Some est => expect (fun s => G (Some (mk_edge k m est s))) (isamples (snd est))
     | None => G None
     end.
Proof.
  intros G k ch. induction ch as [|est ch IH]; intros j0 m Htot.
  - rewrite nth_from_nil, eds_nil. cbn [map]. rewrite dprod_nil, expect_cons, expect_nil.
    cbn [fst snd find]. ring.
  - assert (Htot' : forall est', In est' ch -> total (isamples (snd est')) == 1).
    { intros est' Hin. apply Htot. right. exact Hin. }
    rewrite eds_cons. cbn [map snd]. rewrite expect_dprod_cons, expect_dmap.
    destruct (Nat.eq_dec j0 m) as [E | E].
    + subst j0. rewrite nth_from_here. apply expect_ext. intros s.
      rewrite (expect_ext _ (fun _ => G (Some (mk_edge k m est s)))).
      * rewrite expect_const, (total_dprod_one _ _ (eds_totals k ch (S m) Htot')). ring.
      * intros l. cbn [find]. rewrite s_index_mk, Nat.eqb_refl. reflexivity.
    + rewrite (nth_from_later _ j0 m est ch E).
      rewrite (expect_ext _ (fun _ => match nth_from (S j0) m ch with
                                      | Some est' => expect (fun s => G (Some (mk_edge k m est' s))) (isamples (snd est'))
                                      | None => G None end)).
      * rewrite expect_const, (Htot est (or_introl eq_refl)). ring.
      * intros s. rewrite <- (IH (S j0) m Htot'). apply expect_ext. intros l.
        cbn [find]. rewrite s_index_mk. destruct (Nat.eqb_spec j0 m) as [E' | _]; [congruence | reflexivity].
Qed.

(* opponent / chance node: one child kept; index m is found only when child m was the sampled one *)
Lemma pick_find : forall (H : sedge -> Q) k ch j0 m,
  expect (fun x => if Nat.eqb (s_index x) m then H x else 0) (pick_one (eds k j0 ch))
  == match nth_from j0 m ch with
     | Some est => prob est * expect (fun s => H (mk_edge k m est s)) (isamples (snd est))
     | None => 0
     end.
Proof.
  intros H k ch. induction ch as [|est ch IH]; intros j0 m.
  - rewrite nth_from_nil. reflexivity.
  - rewrite expect_pick_cons. destruct (Nat.eq_dec j0 m) as [E | E].
    + subst j0. rewrite nth_from_here, IH.
      assert (Hn : nth_from (S m) m ch = None).
      { unfold nth_from. destruct (Nat.leb_spec (S m) m); [lia | reflexivity]. }
      rewrite Hn.
      rewrite (expect_ext _ (fun s => H (mk_edge k m est s))).
      * ring.
      * intros s. rewrite s_index_mk, Nat.eqb_refl. reflexivity.
    + rewrite (nth_from_later _ j0 m est ch E), IH.
      rewrite (expect_ext _ (fun _ => 0)).
      * rewrite expect_zero. ring.
      * intros s. rewrite s_index_mk. destruct (Nat.eqb_spec j0 m) as [E' | _]; [congruence | reflexivity].
Qed.

Theorem node_regret_unbiased : forall t path h a ca,
  full_ok t ->
  fnode t path = Some h -> kind_of h = KWalker -> nth_error (children_of h) a = Some ca ->
  expect (node_regret path a) (isamples t) == reach_others t path * (value (snd ca) - value h).
Proof.
  intros t path. revert t. induction path as [|j rest IH]; intros t h a ca Hok Hnode Hk Ha.
  - cbn [fnode] in Hnode. inversion Hnode; subst h. destruct t as [k b p ch].
    cbn [kind_of] in Hk. cbn [children_of] in Ha. subst k.
    rewrite (expect_ext _ (iroot a)) by (intros s; rewrite node_regret_nil; reflexivity).
    rewrite (iroot_regret_unbiased b p ch a ca Hok Ha). cbn [reach_others]. ring.
  - destruct t as [k b p ch]. cbn [fnode children_of] in Hnode. cbn [reach_others children_of kind_of].
    destruct (nth_error ch j) as [est|] eqn:Ej; [|discriminate].
    destruct (full_ok_inv _ _ _ _ Hok) as [_ [_ Hsub]].
    assert (Hne : ch <> []) by (intros E; subst ch; destruct j; discriminate).
    assert (Hest : In est ch) by exact (nth_error_In _ _ Ej).
    assert (Htot : forall est', In est' ch -> total (isamples (snd est')) == 1).
    { intros est' Hin. apply isamples_total. apply Hsub. exact Hin. }
    pose proof (IH (snd est) h a ca (Hsub est Hest) Hnode Hk Ha) as IHc.
    destruct (kind_eq_walker k) as [Ek | Ek].
    + subst k. rewrite (isamples_walker b p ch Hne), expect_dmap.
      rewrite (expect_ext _ (fun l => opt_node_regret rest a (find (fun x => Nat.eqb (s_index x) j) l)))
        by (intros l; rewrite node_regret_cons; reflexivity).
      rewrite (walker_find (opt_node_regret rest a) KWalker ch 0%nat j Htot).
      rewrite nth_from_0. unfold qtree in *. rewrite Ej.
      rewrite (expect_ext _ (node_regret rest a)) by (intros s; reflexivity).
      rewrite IHc. ring.
    + rewrite (isamples_other k b p ch Hne Ek), expect_dmap.
      rewrite (expect_ext _ (fun x => if Nat.eqb (s_index x) j then node_regret rest a (s_child x) else 0)).
      * rewrite (pick_find (fun x => node_regret rest a (s_child x)) k ch 0%nat j).
        rewrite nth_from_0. unfold qtree in *. rewrite Ej.
        rewrite (expect_ext _ (node_regret rest a)) by (intros s; reflexivity).
        rewrite IHc. destruct k; [congruence | ring | ring].
      * intros x. rewrite node_regret_cons. cbn [find].
        destruct (Nat.eqb (s_index x) j); reflexivity.
Qed.

(* ---------- a concrete full tree ---------- *)
Ltac full_tac :=
  repeat first [ split
               | constructor
               | (intros Hnil; exfalso; exact (Hnil eq_refl))
               | (intros _; vm_compute; reflexivity)
               | (vm_compute; discriminate)
               | (vm_compute; reflexivity)
               | intros _ ].

Lemma ex_full_ok : full_ok ex_full /\ full_pos ex_full /\ walker_pos ex_full.
Proof. unfold ex_full, ex_full_walker, ex_full_walker2. full_tac. Qed.

(* the four external-sampling trees of ex_full with their probabilities *)
Lemma ex_full_samples :
  map (fun ps => (Qred (fst ps), snd ps)) (samples ex_full)
  = [(1#3, T KChance 0%N 0 [(8%N, 1, T KWalker 10%N 5 [])]);
     (1#15,
      T KChance 0%N 0
        [(9%N, 1,
          T KOpponent 1%N 0
            [(7%N, 1#2,
              T KWalker 2%N 0
                [(2%N, 1#4, T KWalker 3%N 1 []);
                 (3%N, 3#4,
                  T KWalker 4%N 0
                    [(2%N, 1#3, T KChance 5%N (-2) []);
                     (4%N, 2#3, T KOpponent 6%N 0 [(5%N, 1#5, T KWalker 7%N 6 [])])])])])]);
     (4#15,
      T KChance 0%N 0
        [(9%N, 1,
          T KOpponent 1%N 0
            [(7%N, 1#2,
              T KWalker 2%N 0
                [(2%N, 1#4, T KWalker 3%N 1 []);
                 (3%N, 3#4,
                  T KWalker 4%N 0
                    [(2%N, 1#3, T KChance 5%N (-2) []);
                     (4%N, 2#3, T KOpponent 6%N 0 [(6%N, 4#5, T KWalker 8%N 1 [])])])])])]);
     (1#3,
      T KChance 0%N 0
        [(9%N, 1,
          T KOpponent 1%N 0
            [(6%N, 1#2,
              T KWalker 11%N 0 [(2%N, 1#2, T KWalker 12%N 4 []); (3%N, 1#2, T KWalker 13%N (-1) [])])])])].
Proof. vm_compute. reflexivity. Qed.

(* both sides of utilde_unbiased and of node_regret_unbiased on ex_full: the traverser node below
   chance 1 / opponent 0 (path [1;0]), the nested traverser node (path [1;0;1]), and the traverser node
   below chance 1 / opponent 1 (path [1;1]) *)
Lemma ex_full_values :
  Qred (total (samples ex_full)) = 1
  /\ Qred (expect utilde_Q (samples ex_full)) = 29#12 /\ Qred (value ex_full) = 29#12
  /\ fnode ex_full [1; 0; 1]%nat = Some ex_full_walker2 /\ Qred (reach_others ex_full [1; 0; 1]%nat) = 1#3
  /\ map (fun pa => Qred (expect (node_regret (fst pa) (snd pa)) (isamples ex_full)))
       [([1; 0], 0); ([1; 0], 1); ([1; 0; 1], 0); ([1; 0; 1], 1); ([1; 1], 0); ([1; 1], 1)]%nat
     = [1#12; -(1#36); -(8#9); 4#9; 5#6; -(5#6)]
  /\ map (fun pa => Qred (true_regret ex_full (fst pa) (snd pa)))
       [([1; 0], 0); ([1; 0], 1); ([1; 0; 1], 0); ([1; 0; 1], 1); ([1; 1], 0); ([1; 1], 1)]%nat
     = [1#12; -(1#36); -(8#9); 4#9; 5#6; -(5#6)].
Proof. vm_compute. repeat split; reflexivity. Qed.

(* hypotheses of root_regret_unbiased / node_regret_unbiased are satisfiable *)
Lemma ex_root_hyps :
  full_ok ex_full_walker /\ full_pos ex_full_walker /\
  ex_full_walker = T KWalker 2%N 0 [(2%N, 1#4, T KWalker 3%N 1 []); (3%N, 3#4, ex_full_walker2)] /\
  Qred (expect (fun s => root_regret s 1) (samples ex_full_walker)) = - (1#12) /\
  Qred (expect (fun s => root_regret_impl s 1) (samples ex_full_walker)) = - (1#12) /\
  Qred (value ex_full_walker2 - value ex_full_walker) = - (1#12).
Proof.
  split; [unfold ex_full_walker, ex_full_walker2; full_tac|].
  split; [unfold ex_full_walker, ex_full_walker2; full_tac|].
  vm_compute. repeat split; reflexivity.
Qed.

Lemma ex_node_hyps :
  full_ok ex_full /\ fnode ex_full [1; 0; 1]%nat = Some ex_full_walker2 /\
  kind_of ex_full_walker2 = KWalker /\
  nth_error (children_of ex_full_walker2) 1 =
    Some (4%N, 2#3, T KOpponent 6%N 0 [(5%N, 1#5, T KWalker 7%N 6 []); (6%N, 4#5, T KWalker 8%N 1 [])]).
Proof. split; [exact (proj1 ex_full_ok)|]. repeat split; reflexivity. Qed.
