(* Proofs/C12_Monotone.v -- the monotone coupling attains the CDF formula: W1cdf is the optimal
   transport cost on the equity grid *)
From Coq Require Import NArith ZArith QArith Qabs Qminmax List Bool Lia Lqa.
From RP Require Import Model.Emd Spec.SpecTransport Proofs.C12_QSum Proofs.C12_Variation Proofs.C12_W1.
Import ListNotations.
Local Open Scope Q_scope.

(* ---------- interval overlaps ---------- *)
Lemma overlap_nonneg : forall a1 a2 b1 b2, 0 <= overlap a1 a2 b1 b2.
Proof. intros a1 a2 b1 b2. unfold overlap. apply Q.le_max_l. Qed.

Lemma overlap_sym : forall a1 a2 b1 b2, overlap a1 a2 b1 b2 == overlap b1 b2 a1 a2.
Proof.
  intros a1 a2 b1 b2. unfold overlap.
  pose proof (Q.min_spec a2 b2). pose proof (Q.min_spec b2 a2).
  pose proof (Q.max_spec a1 b1). pose proof (Q.max_spec b1 a1).
  pose proof (Q.max_spec 0 (Qmin a2 b2 - Qmax a1 b1)).
  pose proof (Q.max_spec 0 (Qmin b2 a2 - Qmax b1 a1)).
  lra.
Qed.

Lemma overlap_empty : forall a1 a2 b, overlap a1 a2 b b == 0.
Proof.
  intros a1 a2 b. unfold overlap.
  pose proof (Q.min_spec a2 b). pose proof (Q.max_spec a1 b).
  pose proof (Q.max_spec 0 (Qmin a2 b - Qmax a1 b)). lra.
Qed.

Lemma overlap_add : forall a1 a2 b c d, a1 <= a2 -> b <= c -> c <= d ->
  overlap a1 a2 b c + overlap a1 a2 c d == overlap a1 a2 b d.
Proof.
  intros a1 a2 b c d H1 H2 H3. unfold overlap.
  pose proof (Q.min_spec a2 c). pose proof (Q.min_spec a2 d).
  pose proof (Q.max_spec a1 b). pose proof (Q.max_spec a1 c).
  pose proof (Q.max_spec 0 (Qmin a2 c - Qmax a1 b)).
  pose proof (Q.max_spec 0 (Qmin a2 d - Qmax a1 c)).
  pose proof (Q.max_spec 0 (Qmin a2 d - Qmax a1 b)).
  lra.
Qed.

(* [a1,a2] inside [b1,b2] *)
Lemma overlap_inside : forall a1 a2 b1 b2, b1 <= a1 -> a1 <= a2 -> a2 <= b2 ->
  overlap a1 a2 b1 b2 == a2 - a1.
Proof.
  intros a1 a2 b1 b2 H1 H2 H3. unfold overlap.
  pose proof (Q.min_spec a2 b2). pose proof (Q.max_spec a1 b1).
  pose proof (Q.max_spec 0 (Qmin a2 b2 - Qmax a1 b1)). lra.
Qed.

(* [lo, a] against [b, hi] with lo <= b and a <= hi: the positive part of a - b *)
Lemma overlap_cross : forall lo a b hi, lo <= b -> a <= hi ->
  overlap lo a b hi == Qmax 0 (a - b).
Proof.
  intros lo a b hi H1 H2. unfold overlap.
  pose proof (Q.min_spec a hi). pose proof (Q.max_spec lo b).
  pose proof (Q.max_spec 0 (Qmin a hi - Qmax lo b)).
  pose proof (Q.max_spec 0 (a - b)). lra.
Qed.

Lemma pos_parts : forall a b, Qmax 0 (a - b) + Qmax 0 (b - a) == qabs (a - b).
Proof.
  intros a b. pose proof (Q.max_spec 0 (a - b)). pose proof (Q.max_spec 0 (b - a)).
  destruct (Qlt_le_dec (a - b) 0) as [Hn|Hp].
  - rewrite qabs_neg_eq by lra. lra.
  - rewrite qabs_pos_eq by lra. lra.
Qed.

Section Mono.
Variable H : nat -> Q.
Hypothesis Hmono : forall j, H j <= H (S j).

Lemma mono_le : forall a len, H a <= H (a + len)%nat.
Proof.
  intros a len. induction len as [|len IH].
  - rewrite Nat.add_0_r. lra.
  - rewrite Nat.add_succ_r. pose proof (Hmono (a + len)%nat). lra.
Qed.

Lemma overlap_sum_r : forall a1 a2, a1 <= a2 -> forall len a,
  qsum_range a len (fun j => overlap a1 a2 (H j) (H (S j))) == overlap a1 a2 (H a) (H (a + len)%nat).
Proof.
  intros a1 a2 Ha. induction len as [|len IH]; intros a.
  - rewrite qsum_range_0, Nat.add_0_r, overlap_empty. reflexivity.
  - rewrite qsum_range_snoc, IH, Nat.add_succ_r. apply overlap_add.
    + exact Ha.
    + apply mono_le.
    + apply Hmono.
Qed.

Lemma overlap_sum_l : forall b1 b2, b1 <= b2 -> forall len a,
  qsum_range a len (fun i => overlap (H i) (H (S i)) b1 b2) == overlap (H a) (H (a + len)%nat) b1 b2.
Proof.
  intros b1 b2 Hb len a.
  rewrite (qsum_range_ext len a _ (fun i => overlap b1 b2 (H i) (H (S i)))) by (intros i _; apply overlap_sym).
  rewrite overlap_sum_r by exact Hb. apply overlap_sym.
Qed.
End Mono.

(* ---------- splitting a sum along a cut ---------- *)
Lemma below_lt : forall i k, (i < k)%nat -> below i k = 1.
Proof. intros i k Hlt. unfold below. destruct (Nat.ltb_spec i k); [reflexivity|lia]. Qed.

Lemma below_ge : forall i k, (k <= i)%nat -> below i k = 0.
Proof. intros i k Hge. unfold below. destruct (Nat.ltb_spec i k); [lia|reflexivity]. Qed.

Lemma cross_split_inner : forall n k i (f : nat -> Q), (k <= n)%nat ->
  qsum_range 0 n (fun j => f j * crosses i j k) ==
  if Nat.ltb i k then qsum_range k (n - k) f else qsum_range 0 k f.
Proof.
  intros n k i f Hk. replace n with (k + (n - k))%nat at 1 by lia.
  rewrite qsum_range_split. cbn [Nat.add]. unfold crosses.
  destruct (Nat.ltb_spec i k) as [Hi|Hi].
  - rewrite (below_lt i k Hi).
    rewrite (qsum_range_ext k 0 _ (fun _ => 0)).
    + rewrite qsum_range_zero, Qplus_0_l. apply qsum_range_ext. intros j Hj.
      rewrite (below_ge j k) by lia. rewrite qabs_pos_eq by lra. ring.
    + intros j Hj. rewrite (below_lt j k) by lia.
      assert (E : 1 - 1 == 0) by ring. rewrite E, qabs_0. ring.
  - rewrite (below_ge i k Hi).
    rewrite (qsum_range_ext (n - k) k _ (fun _ => 0)).
    + rewrite qsum_range_zero, Qplus_0_r. apply qsum_range_ext. intros j Hj.
      rewrite (below_lt j k) by lia. rewrite qabs_neg_eq by lra. ring.
    + intros j Hj. rewrite (below_ge j k) by lia.
      assert (E : 0 - 0 == 0) by ring. rewrite E, qabs_0. ring.
Qed.

Lemma cutflow_split : forall n P k, (k <= n)%nat ->
  cutflow n P k ==
  qsum_range 0 k (fun i => qsum_range k (n - k) (fun j => P i j)) +
  qsum_range k (n - k) (fun i => qsum_range 0 k (fun j => P i j)).
Proof.
  intros n P k Hk. unfold cutflow.
  rewrite (qsum_range_ext n 0 _
            (fun i => if Nat.ltb i k then qsum_range k (n - k) (fun j => P i j)
                      else qsum_range 0 k (fun j => P i j)))
    by (intros i _; apply cross_split_inner; exact Hk).
  replace n with (k + (n - k))%nat at 1 by lia.
  rewrite qsum_range_split. cbn [Nat.add]. apply Qplus_comp.
  - apply qsum_range_ext. intros i Hi. destruct (Nat.ltb_spec i k); [reflexivity|lia].
  - apply qsum_range_ext. intros i Hi. destruct (Nat.ltb_spec i k); [lia|reflexivity].
Qed.

(* ---------- the monotone coupling ---------- *)
Section Monotone.
Variables xs ys : list Q.
Hypothesis Hlen : length xs = length ys.
Hypothesis Hxs : Forall (fun x => 0 <= x) xs.
Hypothesis Hys : Forall (fun y => 0 <= y) ys.
Hypothesis Hsum : qsum xs == qsum ys.

Let n := length xs.
Let F := prefix_sum xs.
Let G := prefix_sum ys.
Let P := monotone_coupling xs ys.

Lemma F_mono : forall j, F j <= F (S j).
Proof. intros j. apply prefix_sum_mono; [exact Hxs|lia]. Qed.
Lemma G_mono : forall j, G j <= G (S j).
Proof. intros j. apply prefix_sum_mono; [exact Hys|lia]. Qed.
Lemma F_le : forall j k, (j <= k)%nat -> F j <= F k.
Proof. intros j k Hjk. now apply prefix_sum_mono. Qed.
Lemma G_le : forall j k, (j <= k)%nat -> G j <= G k.
Proof. intros j k Hjk. now apply prefix_sum_mono. Qed.
Lemma F_0 : F 0%nat == 0. Proof. reflexivity. Qed.
Lemma G_0 : G 0%nat == 0. Proof. reflexivity. Qed.
Lemma F_n : F n = qsum xs. Proof. apply prefix_sum_all. unfold n. lia. Qed.
Lemma G_n : G n = qsum ys. Proof. apply prefix_sum_all. unfold n. lia. Qed.
Lemma F_top : forall k, (k <= n)%nat -> F k <= G n.
Proof. intros k Hk. rewrite G_n, <- Hsum, <- F_n. now apply F_le. Qed.
Lemma G_top : forall k, (k <= n)%nat -> G k <= F n.
Proof. intros k Hk. rewrite F_n, Hsum, <- G_n. now apply G_le. Qed.
Lemma F_nonneg : forall k, 0 <= F k.
Proof. intros k. rewrite <- F_0. apply F_le. lia. Qed.
Lemma G_nonneg : forall k, 0 <= G k.
Proof. intros k. rewrite <- G_0. apply G_le. lia. Qed.

Lemma P_unfold : forall i j, P i j = overlap (F i) (F (S i)) (G j) (G (S j)).
Proof. reflexivity. Qed.

(* mass sent from source i into the block of targets [a, a+len) *)
Lemma row_block : forall i a len,
  qsum_range a len (fun j => P i j) == overlap (F i) (F (S i)) (G a) (G (a + len)%nat).
Proof. intros i a len. apply (overlap_sum_r G G_mono). apply F_mono. Qed.

Lemma col_block : forall j a len,
  qsum_range a len (fun i => P i j) == overlap (F a) (F (a + len)%nat) (G j) (G (S j)).
Proof. intros j a len. apply (overlap_sum_l F F_mono). apply G_mono. Qed.

Lemma monotone_is_coupling : is_coupling n P xs ys.
Proof.
  split; [|split].
  - intros i j _ _. apply overlap_nonneg.
  - intros i Hi. rewrite row_block. cbn [Nat.add].
    rewrite overlap_inside.
    + unfold F. rewrite prefix_sum_S. ring.
    + rewrite G_0. apply F_nonneg.
    + apply F_mono.
    + apply F_top. lia.
  - intros j Hj. rewrite col_block. cbn [Nat.add]. rewrite overlap_sym.
    rewrite overlap_inside.
    + unfold G. rewrite prefix_sum_S. ring.
    + rewrite F_0. apply G_nonneg.
    + apply G_mono.
    + apply G_top. lia.
Qed.

Lemma monotone_cutflow : forall k, (k <= n)%nat -> cutflow n P k == cdf_gap xs ys k.
Proof.
  intros k Hk. rewrite (cutflow_split n P k Hk).
  (* forward flow *)
  rewrite (qsum_range_ext k 0 _ (fun i => overlap (F i) (F (S i)) (G k) (G n))).
  2:{ intros i _. rewrite row_block. replace (k + (n - k))%nat with n by lia. reflexivity. }
  rewrite (overlap_sum_l F F_mono) by (apply G_le; exact Hk). cbn [Nat.add].
  (* backward flow *)
  rewrite (qsum_range_ext (n - k) k _ (fun i => overlap (F i) (F (S i)) (G 0%nat) (G k))).
  2:{ intros i _. rewrite row_block. cbn [Nat.add]. reflexivity. }
  rewrite (overlap_sum_l F F_mono) by (apply G_le; lia).
  replace (k + (n - k))%nat with n by lia.
  rewrite (overlap_cross (F 0%nat) (F k) (G k) (G n)).
  - rewrite (overlap_sym (F k) (F n) (G 0%nat) (G k)).
    rewrite (overlap_cross (G 0%nat) (G k) (F k) (F n)).
    + unfold cdf_gap. fold (F k). fold (G k). apply pos_parts.
    + rewrite G_0. apply F_nonneg.
    + apply G_top. exact Hk.
  - rewrite F_0. apply G_nonneg.
  - apply F_top. exact Hk.
Qed.

Theorem monotone_cost : coupling_cost n P == W1cdf xs ys.
Proof.
  rewrite cost_cut_decomp. unfold W1cdf. fold n. apply Qmult_comp; [|reflexivity].
  apply qsum_range_ext. intros k Hk. apply monotone_cutflow. lia.
Qed.
End Monotone.

Theorem W1_monotone_coupling : forall xs ys, length xs = length ys ->
  Forall (fun x => 0 <= x) xs -> Forall (fun y => 0 <= y) ys -> qsum xs == qsum ys ->
  is_coupling (length xs) (monotone_coupling xs ys) xs ys /\
  coupling_cost (length xs) (monotone_coupling xs ys) == W1cdf xs ys.
Proof.
  intros xs ys Hlen Hxs Hys Hsum. split.
  - now apply monotone_is_coupling.
  - now apply monotone_cost.
Qed.

(* W1cdf is the optimal transport cost: attained by a coupling and a lower bound of all couplings *)
Theorem W1cdf_is_optimal : forall xs ys, length xs = length ys ->
  Forall (fun x => 0 <= x) xs -> Forall (fun y => 0 <= y) ys -> qsum xs == qsum ys ->
  (exists P, is_coupling (length xs) P xs ys /\ coupling_cost (length xs) P == W1cdf xs ys) /\
  (forall P, is_coupling (length xs) P xs ys -> W1cdf xs ys <= coupling_cost (length xs) P).
Proof.
  intros xs ys Hlen Hxs Hys Hsum. split.
  - exists (monotone_coupling xs ys). now apply W1_monotone_coupling.
  - intros P HP. now apply W1_cut_lower_bound.
Qed.

(* Equity::variation of two densities is the optimal transport cost on the grid with spacing 1/(n-1),
   scaled by (n-1)/n *)
Theorem variation_is_W1 : forall xs ys, length xs = length ys -> is_density xs -> is_density ys ->
  let n := length xs in
  let scale := qnat (n - 1) / qnat n in
  (exists P, is_coupling n P xs ys /\ var xs ys == coupling_cost n P * scale) /\
  (forall P, is_coupling n P xs ys -> var xs ys <= coupling_cost n P * scale).
Proof.
  intros xs ys Hlen [Hxs Hx1] [Hys Hy1]. cbv zeta.
  assert (Hsum : qsum xs == qsum ys) by (rewrite Hx1, Hy1; reflexivity).
  destruct (variation_last_term_zero xs ys Hlen Hsum) as (_ & _ & Hv).
  destruct (W1cdf_is_optimal xs ys Hlen Hxs Hys Hsum) as [(P & HP & Hc) Hlow].
  split.
  - exists P. split; [exact HP|]. rewrite Hv, Hc. reflexivity.
  - intros P' HP'. rewrite Hv. apply Qmult_le_compat_r; [now apply Hlow|].
    apply div_qnat_nonneg. apply qnat_nonneg.
Qed.
