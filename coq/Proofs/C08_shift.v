(* Proofs/C08_shift.v -- traverser-probability mass, invariance of the estimator under adding a constant
   to all payoffs, zero regret at indifferent nodes, decomposition of the regret list, the clamp. *)
From Coq Require Import NArith QArith List Bool Lia Lqa Field Qfield Setoid Morphisms.
From RP Require Import Gen.GenLib Gen.GenFixes Model.Cfr Spec.SpecCfr Proofs.C08_base Proofs.C08_estimator.
Import ListNotations.
Open Scope Q_scope.

(* ---------- mass ---------- *)
Lemma mass_leaf : forall f k b p, mass_fuel (S f) (T k b p []) = 1.
Proof. reflexivity. Qed.

Lemma mass_node : forall f k b p ch, ch <> [] ->
  mass_fuel (S f) (T k b p ch) == qsum (map (fun est => wk k (sg est) * mass_fuel f (snd est)) ch).
Proof.
  intros f k b p ch Hne. destruct ch as [|x l]; [congruence|].
  cbn [mass_fuel].
  rewrite (fold_left_qsum _ _ (fun est => wk k (sg est) * mass_fuel f (snd est))).
  - ring.
  - intros a [[e s] c]. reflexivity.
Qed.

(* total weight of the children of an internal node of an ES-shaped, normalised tree *)
Lemma weights_sum_one : forall k b p ch,
  es_shape (T k b p ch) -> sigma_normalised (T k b p ch) -> ch <> [] ->
  qsum (map (fun est => wk k (sg est)) ch) == 1.
Proof.
  intros k b p ch Hes Hsn Hne.
  destruct (es_shape_inv _ _ _ _ Hes) as [Hlen _].
  destruct (sigma_normalised_inv _ _ _ _ Hsn) as [Hsum _].
  destruct k.
  - cbn [wk]. rewrite <- (Hsum eq_refl Hne). rewrite sigma_sum_qsum. reflexivity.
  - assert (Hl : (length ch <= 1)%nat) by (apply Hlen; discriminate).
    destruct ch as [|x [|y l]]; [congruence | | cbn [length] in Hl; lia].
    cbn [map qsum wk]. ring.
  - assert (Hl : (length ch <= 1)%nat) by (apply Hlen; discriminate).
    destruct ch as [|x [|y l]]; [congruence | | cbn [length] in Hl; lia].
    cbn [map qsum wk]. ring.
Qed.

Lemma mass_fuel_one : forall f t,
  (depth t <= f)%nat -> es_shape t -> sigma_normalised t -> mass_fuel f t == 1.
Proof.
  induction f as [|f IH]; intros t Hd Hes Hsn.
  - pose proof (depth_pos t). lia.
  - destruct t as [k b p ch]. destruct ch as [|x l]; [rewrite mass_leaf; reflexivity|].
    remember (x :: l) as ch eqn:Ech.
    assert (Hne : ch <> []) by (subst ch; discriminate).
    destruct (es_shape_inv _ _ _ _ Hes) as [_ [_ Hsub]].
    destruct (sigma_normalised_inv _ _ _ _ Hsn) as [_ Hsn'].
    rewrite (mass_node f k b p ch Hne).
    rewrite <- (weights_sum_one k b p ch Hes Hsn Hne).
    apply qsum_ext_in. intros est Hin.
    rewrite (IH (snd est) (depth_child_le _ _ _ _ _ _ Hd Hin) (Hsub _ Hin) (Hsn' _ Hin)). ring.
Qed.

Theorem mass_one : forall t, es_shape t -> sigma_normalised t -> mass t == 1.
Proof. intros t Hes Hsn. unfold mass. apply mass_fuel_one; [lia | exact Hes | exact Hsn]. Qed.

(* ---------- shifting the payoffs ---------- *)
Definition shift_child (c : Q) (est : N * Q * qtree) : N * Q * qtree :=
  let '(e, s, x) := est in (e, s, shift_payoffs c x).

Lemma shift_eq : forall c k b p ch,
  shift_payoffs c (T k b p ch) =
  T k b (match ch with [] => p + c | _ => p end) (map (shift_child c) ch).
Proof. reflexivity. Qed.

Lemma shift_child_sg : forall c est, sg (shift_child c est) = sg est.
Proof. intros c [[e s] x]. reflexivity. Qed.
Lemma shift_child_snd : forall c est, snd (shift_child c est) = shift_payoffs c (snd est).
Proof. intros c [[e s] x]. reflexivity. Qed.

Lemma fold_depth_map : forall c (l : list (N * Q * qtree)) a,
  Forall (fun est => depth (shift_payoffs c (snd est)) = depth (snd est)) l ->
  fold_left depth_step (map (shift_child c) l) a = fold_left depth_step l a.
Proof.
  intros c l. induction l as [|x l IH]; intros a HF; cbn [map fold_left].
  - reflexivity.
  - inversion HF as [|x' l' Hx Hl]; subst.
    unfold depth_step at 2 4. rewrite shift_child_snd, Hx. apply IH. exact Hl.
Qed.

Lemma depth_shift : forall c t, depth (shift_payoffs c t) = depth t.
Proof.
  intros c t. induction t as [k b p ch IH] using qtree_ind'.
  rewrite shift_eq, !depth_eq. f_equal. apply fold_depth_map. exact IH.
Qed.

Lemma es_shape_shift : forall c t, es_shape t -> es_shape (shift_payoffs c t).
Proof.
  intros c t. induction t as [k b p ch IH] using qtree_ind'. intros Hes.
  destruct (es_shape_inv _ _ _ _ Hes) as [Hlen [Hsig Hsub]].
  rewrite shift_eq. constructor.
  - intros Hk. rewrite map_length. apply Hlen. exact Hk.
  - apply Forall_forall. intros est' Hin'. apply in_map_iff in Hin'.
    destruct Hin' as [est [E Hin]]. subst est'.
    pose proof (shift_child_sg c est) as Hs. unfold sg in Hs. rewrite Hs. apply Hsig. exact Hin.
  - apply Forall_forall. intros est' Hin'. apply in_map_iff in Hin'.
    destruct Hin' as [est [E Hin]]. subst est'.
    rewrite shift_child_snd. rewrite Forall_forall in IH. apply IH; [exact Hin | apply Hsub; exact Hin].
Qed.

(* utilde of the shifted tree: the constant is picked up once per unit of mass *)
Lemma utQ_shift_mass : forall c f t,
  (depth t <= f)%nat ->
  utQ f (shift_payoffs c t) == utQ f t + c * mass_fuel f t.
Proof.
  intros c. induction f as [|f IH]; intros t Hd.
  - pose proof (depth_pos t). lia.
  - destruct t as [k b p ch]. rewrite shift_eq. destruct ch as [|x l].
    + cbn [map]. rewrite !utQ_leaf, mass_leaf. ring.
    + remember (x :: l) as ch eqn:Ech.
      assert (Hne : ch <> []) by (subst ch; discriminate).
      assert (Hne' : map (shift_child c) ch <> []) by (subst ch; discriminate).
      replace (match ch with [] => p + c | _ :: _ => p end) with p by (subst ch; reflexivity).
      rewrite (utQ_node f k b p _ Hne'), (utQ_node f k b p ch Hne), (mass_node f k b p ch Hne).
      rewrite map_map. rewrite <- qsum_scale. rewrite <- qsum_plus.
      apply qsum_ext_in. intros est Hin.
      rewrite shift_child_sg, shift_child_snd.
      rewrite (IH (snd est) (depth_child_le _ _ _ _ _ _ Hd Hin)). ring.
Qed.

Lemma utQ_shift : forall c f t,
  (depth t <= f)%nat -> es_shape t -> sigma_normalised t ->
  utQ f (shift_payoffs c t) == utQ f t + c.
Proof.
  intros c f t Hd Hes Hsn. rewrite (utQ_shift_mass c f t Hd).
  rewrite (mass_fuel_one f t Hd Hes Hsn). ring.
Qed.

Lemma spec_shift : forall c f t,
  (depth t <= f)%nat -> es_shape t -> sigma_normalised t ->
  triples_eq (specQ f (shift_payoffs c t)) (specQ f t).
Proof.
  intros c. induction f as [|f IH]; intros t Hd Hes Hsn.
  - constructor.
  - destruct t as [k b p ch]. rewrite shift_eq, !specQ_eq'.
    destruct (es_shape_inv _ _ _ _ Hes) as [_ [_ Hsub]].
    destruct (sigma_normalised_inv _ _ _ _ Hsn) as [Hsum Hsn'].
    apply triples_eq_app.
    + destruct k; try constructor. unfold spec_head. rewrite map_map.
      apply triples_eq_map. intros est Hin.
      assert (Hne : ch <> []) by (intros E; rewrite E in Hin; exact Hin).
      assert (Hv : spec_value f (map (shift_child c) ch) == spec_value f ch + c).
      { unfold spec_value. rewrite !spec_value_qsum. rewrite map_map.
        rewrite (qsum_ext_in _ _ (fun est0 => sg est0 * utQ f (snd est0) + c * sg est0)).
        - rewrite qsum_plus, qsum_scale. rewrite <- sigma_sum_qsum. rewrite (Hsum eq_refl Hne). ring.
        - intros est0 Hin0. rewrite shift_child_sg, shift_child_snd.
          rewrite (utQ_shift c f (snd est0) (depth_child_le _ _ _ _ _ _ Hd Hin0) (Hsub _ Hin0) (Hsn' _ Hin0)).
          ring. }
      split.
      * destruct est as [[e s] x0]. reflexivity.
      * cbn [snd]. rewrite Hv. rewrite shift_child_snd.
        rewrite (utQ_shift c f (snd est) (depth_child_le _ _ _ _ _ _ Hd Hin) (Hsub _ Hin) (Hsn' _ Hin)).
        ring.
    + rewrite flat_map_map. apply triples_eq_flat_map. intros est Hin.
      rewrite shift_child_snd. apply IH.
      * exact (depth_child_le _ _ _ _ _ _ Hd Hin).
      * exact (Hsub _ Hin).
      * exact (Hsn' _ Hin).
Qed.

Theorem shift_invariant : forall t c, es_shape t -> sigma_normalised t ->
  triples_eq (regret_estimator_Q (shift_payoffs c t)) (regret_estimator_Q t).
Proof.
  intros t c Hes Hsn. unfold regret_estimator_Q, regret_estimator. fold specQ.
  rewrite depth_shift. apply spec_shift; [lia | exact Hes | exact Hsn].
Qed.

(* hence the regrets recorded by the code are unchanged as well *)
Theorem shift_invariant_immediate : forall t c, es_shape t -> sigma_normalised t ->
  triples_eq (immediate_regrets_Q (shift_payoffs c t)) (immediate_regrets_Q t).
Proof.
  intros t c Hes Hsn.
  apply (triples_eq_trans _ (regret_estimator_Q (shift_payoffs c t))).
  - apply estimator. apply es_shape_shift. exact Hes.
  - apply (triples_eq_trans _ (regret_estimator_Q t)).
    + apply shift_invariant; assumption.
    + apply triples_eq_sym. apply estimator. exact Hes.
Qed.

(* ---------- decomposition of the regret list: own regrets first, then the subtrees ---------- *)
Lemma firstn_map_app : forall (A B : Type) (g : A -> B) (l : list A) (r : list B),
  firstn (length l) (map g l ++ r) = map g l.
Proof.
  intros A B g l r. induction l as [|x l IH]; cbn [length map app firstn].
  - destruct r; reflexivity.
  - rewrite IH. reflexivity.
Qed.

Definition own_count (k : kind) (ch : list (N * Q * qtree)) : nat :=
  match k with KWalker => length ch | _ => O end.

Lemma regret_estimator_unfold : forall k b p ch,
  regret_estimator_Q (T k b p ch) =
  (match k, ch with
   | KWalker, _ :: _ =>
       let v := fold_left (fun acc est => let '(e, s, c) := est in acc + s * utilde_Q c) ch 0 in
       map (fun est => let '(e, s, c) := est in (b, e, utilde_Q c - v)) ch
   | _, _ => [] end)
  ++ flat_map (fun est => regret_estimator_Q (snd est)) ch.
Proof.
  intros k b p ch. unfold regret_estimator_Q, regret_estimator. fold specQ.
  rewrite depth_eq. set (d := fold_left depth_step ch O).
  assert (Hd : forall est, In est ch -> (depth (snd est) <= d)%nat).
  { intros est Hin. apply (depth_child_le k b p ch est d); [rewrite depth_eq; fold d; lia | exact Hin]. }
  rewrite specQ_eq. f_equal.
  - destruct k; try reflexivity. destruct ch as [|x l]; [reflexivity|].
    cbv zeta.
    replace (fold_left (fun acc est => let '(_, s, c) := est in acc + s * utQ d c) (x :: l) 0)
      with (fold_left (fun acc est => let '(_, s, c) := est in acc + s * utilde_Q c) (x :: l) 0).
    + apply map_ext_in. intros [[e s] c] Hin. rewrite (utilde_Q_fuel d c (Hd _ Hin)). reflexivity.
    + apply fold_left_ext_in. intros [[e s] c] Hin a. rewrite (utilde_Q_fuel d c (Hd _ Hin)). reflexivity.
  - apply flat_map_ext_in. intros est Hin. apply specQ_fuel; [exact (Hd _ Hin) | lia].
Qed.

Theorem regrets_of_subtrees : forall k b p ch,
  regret_estimator_Q (T k b p ch) =
  firstn (own_count k ch) (regret_estimator_Q (T k b p ch))
  ++ flat_map (fun est => regret_estimator_Q (snd est)) ch.
Proof.
  intros k b p ch. rewrite regret_estimator_unfold at 2. rewrite regret_estimator_unfold at 1.
  f_equal.
  destruct k; cbn [own_count]; try reflexivity.
  destruct ch as [|x l]; [reflexivity|].
  cbv zeta. rewrite firstn_map_app. reflexivity.
Qed.

(* ---------- zero regret when all actions are worth the same ---------- *)
Theorem zero_when_indifferent : forall b p ch v,
  ch <> [] -> sigma_sum ch == 1 ->
  Forall (fun est => utilde_Q (snd est) == v) ch ->
  Forall (fun x => snd x == 0) (firstn (length ch) (regret_estimator_Q (T KWalker b p ch))).
Proof.
  intros b p ch v Hne Hsum Hv.
  rewrite regret_estimator_unfold. destruct ch as [|x l]; [congruence|].
  remember (x :: l) as ch eqn:Ech. rewrite Ech at 1. rewrite <- Ech.
  cbv zeta. rewrite firstn_map_app.
  apply Forall_forall. intros y Hy. apply in_map_iff in Hy. destruct Hy as [[[e s] c] [Ey Hin]].
  subst y. cbn [snd].
  rewrite Forall_forall in Hv.
  assert (Hval : fold_left (fun acc est0 => let '(_, s0, c0) := est0 in acc + s0 * utilde_Q c0) ch 0 == v).
  { rewrite (fold_left_qsum _ _ (fun est0 => sg est0 * utilde_Q (snd est0))).
    - rewrite (qsum_ext_in _ _ (fun est0 => v * sg est0)).
      + rewrite qsum_scale. rewrite <- sigma_sum_qsum. rewrite Hsum. ring.
      + intros est0 Hin0. rewrite (Hv _ Hin0). ring.
    - intros a [[e0 s0] c0]. reflexivity. }
  rewrite Hval. rewrite (Hv _ Hin). cbn [snd]. ring.
Qed.

(* ---------- the clamp ---------- *)
Theorem clamp : forall r,
  regret_min_Q <= clamp_regret_Q r /\ (regret_min_Q <= r -> clamp_regret_Q r == r).
Proof.
  intros r. unfold clamp_regret_Q, clamp_regret.
  destruct (Qle_bool r regret_min_Q) eqn:E.
  - apply Qle_bool_iff in E. split.
    + apply Qle_refl.
    + intros H. apply Qle_antisym; assumption.
  - assert (Hlt : ~ r <= regret_min_Q).
    { intros H. apply Qle_bool_iff in H. congruence. }
    split.
    + apply Qnot_le_lt in Hlt. apply Qlt_le_weak. exact Hlt.
    + intros _. reflexivity.
Qed.
