(* Proofs/C15_Card.v -- Card <-> (Rank, Suit).  In Rust `Card` is a newtype over u8 and
   From<Card> for u8 / From<u8> for Card are the identity on that byte; the model represents a
   card BY that byte (an N), so there is no separate u8 codec to round-trip.  What can be stated is
   that the byte decomposes into (rank, suit) and back without loss, without a panic on a card of
   the deck, and that cards are determined by their (rank, suit). *)
From Coq Require Import NArith ZArith List Bool Lia ZifyBool ZifyN.
From RP Require Import Model.Codec.
Open Scope N_scope.
Ltac Zify.zify_post_hook ::= Z.div_mod_to_equations.

Lemma card_split : forall c, c < 52 ->
  rank_of_u8 (card_rank c) = Some (card_rank c) /\ card_rank c <= 12 /\ card_suit c < 4 /\
  card_of_rank_suit (card_rank c) (card_suit c) = c.
Proof.
  intros c Hc. unfold rank_of_u8, card_rank, card_suit, card_of_rank_suit.
  assert (H12 : c / 4 <= 12) by lia.
  destruct (N.leb_spec (c / 4) 12) as [_|Hgt]; [|lia].
  split; [reflexivity|]. split; [exact H12|]. split; lia.
Qed.

Lemma card_join : forall r s, r <= 12 -> s < 4 ->
  card_of_rank_suit r s < 52 /\ card_of_rank_suit r s < 256 /\
  card_rank (card_of_rank_suit r s) = r /\ card_suit (card_of_rank_suit r s) = s.
Proof.
  intros r s Hr Hs. unfold card_rank, card_suit, card_of_rank_suit. repeat split; lia.
Qed.

Lemma card_rank_suit_inj : forall c c', card_rank c = card_rank c' -> card_suit c = card_suit c' -> c = c'.
Proof. intros c c'. unfold card_rank, card_suit. lia. Qed.
