(* Proofs/C16_Strings.v -- property C16, general lemmas about the string functions of
   Model/Parse.v: whitespace splitting, trimming, splitting at a separator, decimal and
   hexadecimal printing/parsing. *)
From Coq Require Import NArith ZArith List Bool Lia ZifyBool.
From RP Require Import Base.Bits Gen.GenLib Model.Codec Model.Parse.
From RP Require Import Proofs.C15_Finite Proofs.C16_Total.
Import ListNotations.
Open Scope N_scope.

Arguments N.add : simpl never. Arguments N.mul : simpl never. Arguments N.sub : simpl never.
Arguments N.div : simpl never. Arguments N.modulo : simpl never. Arguments N.pow : simpl never.
Arguments N.shiftl : simpl never. Arguments N.shiftr : simpl never.
Arguments N.land : simpl never. Arguments N.lor : simpl never.

Definition nonws (c : N) : Prop := is_ws c = false.

(* ---------- split_ws ---------- *)
Lemma split_ws_aux_acc : forall s cur acc,
  split_ws_aux s cur acc = rev acc ++ split_ws_aux s cur [].
Proof.
  induction s as [|c r IH]; intros cur acc; cbn [split_ws_aux].
  - destruct cur as [|x cur']; cbn [rev app].
    + rewrite app_nil_r. reflexivity.
    + reflexivity.
  - destruct (is_ws c).
    + destruct cur as [|x cur'].
      * apply IH.
      * rewrite IH.
        match goal with |- _ = _ ++ split_ws_aux r ?c0 ?a0 => rewrite (IH c0 a0) end. cbn [rev app].
        rewrite <- app_assoc. reflexivity.
    + apply IH.
Qed.

Lemma split_ws_aux_word : forall w s cur acc, Forall nonws w ->
  split_ws_aux (w ++ s) cur acc = split_ws_aux s (rev w ++ cur) acc.
Proof.
  induction w as [|a w IH]; intros s cur acc Hw; cbn [app rev split_ws_aux].
  - reflexivity.
  - inversion Hw as [|a' w' Ha Hw']; subst a' w'. unfold nonws in Ha. rewrite Ha.
    rewrite IH by exact Hw'. rewrite <- app_assoc. reflexivity.
Qed.

Lemma split_ws_nil : split_ws [] = [].
Proof. reflexivity. Qed.

Lemma split_ws_ws : forall c s, is_ws c = true -> split_ws (c :: s) = split_ws s.
Proof. intros c s Hc. unfold split_ws. cbn [split_ws_aux]. rewrite Hc. reflexivity. Qed.

Lemma rev_nonnil : forall (A : Type) (l : list A), l <> [] -> exists x r, rev l = x :: r.
Proof.
  intros A l Hl. destruct (rev l) as [|x r] eqn:Hr.
  - exfalso. apply Hl. rewrite <- (rev_involutive l), Hr. reflexivity.
  - exists x, r. reflexivity.
Qed.

Lemma split_ws_word_sep : forall w c s, Forall nonws w -> w <> [] -> is_ws c = true ->
  split_ws (w ++ c :: s) = w :: split_ws s.
Proof.
  intros w c s Hw Hne Hc. unfold split_ws. rewrite split_ws_aux_word by exact Hw.
  cbn [split_ws_aux]. rewrite Hc. rewrite app_nil_r.
  destruct (rev_nonnil _ w Hne) as [x [r Hr]]. rewrite Hr. rewrite <- Hr. rewrite rev_involutive.
  rewrite split_ws_aux_acc. reflexivity.
Qed.

Lemma split_ws_word_end : forall w, Forall nonws w -> w <> [] -> split_ws w = [w].
Proof.
  intros w Hw Hne. unfold split_ws. rewrite <- (app_nil_r w) at 1.
  rewrite split_ws_aux_word by exact Hw. cbn [split_ws_aux]. rewrite app_nil_r.
  destruct (rev_nonnil _ w Hne) as [x [r Hr]]. rewrite Hr. rewrite <- Hr. rewrite rev_involutive.
  reflexivity.
Qed.

(* a word that may be empty *)
Lemma split_ws_word_opt : forall w, Forall nonws w -> split_ws w = match w with [] => [] | _ => [w] end.
Proof.
  intros w Hw. destruct w as [|a w']; [reflexivity|]. apply split_ws_word_end; [exact Hw|discriminate].
Qed.

(* ---------- trim ---------- *)
Definition hd_ok (s : str) : Prop := match s with [] => True | c :: _ => is_ws c = false end.

Lemma drop_ws_id : forall s, hd_ok s -> drop_ws s = s.
Proof. intros s Hs. destruct s as [|c r]; [reflexivity|]. cbn [drop_ws]. cbn [hd_ok] in Hs. rewrite Hs. reflexivity. Qed.

Lemma trim_id : forall s, hd_ok s -> hd_ok (rev s) -> trim s = s.
Proof.
  intros s H1 H2. unfold trim. rewrite (drop_ws_id s H1). rewrite (drop_ws_id _ H2).
  apply rev_involutive.
Qed.

Lemma hd_ok_app : forall s1 s2, s1 <> [] -> hd_ok s1 -> hd_ok (s1 ++ s2).
Proof. intros s1 s2 Hne H1. destruct s1 as [|c r]; [congruence|]. exact H1. Qed.

Lemma hd_ok_nonws : forall s, Forall nonws s -> hd_ok s.
Proof. intros s Hs. destruct s as [|c r]; [exact I|]. inversion Hs as [|c' r' Hc Hr]; subst. exact Hc. Qed.

Lemma Forall_rev_nonws : forall (P : N -> Prop) s, Forall P s -> Forall P (rev s).
Proof.
  intros P s Hs. apply Forall_forall. intros x Hx. apply in_rev in Hx.
  rewrite Forall_forall in Hs. apply Hs. exact Hx.
Qed.

Lemma rev_nil_inv : forall (A : Type) (l : list A), l <> [] -> rev l <> [].
Proof. intros A l Hl Hr. apply Hl. rewrite <- (rev_involutive l), Hr. reflexivity. Qed.

(* a string delimited by non-whitespace words is not changed by trimming *)
Lemma trim_between : forall w1 m w2, Forall nonws w1 -> w1 <> [] -> Forall nonws w2 -> w2 <> [] ->
  trim (w1 ++ m ++ w2) = w1 ++ m ++ w2.
Proof.
  intros w1 m w2 H1 Hn1 H2 Hn2. apply trim_id.
  - apply hd_ok_app; [exact Hn1|]. apply hd_ok_nonws. exact H1.
  - rewrite app_assoc. rewrite rev_app_distr. apply hd_ok_app.
    + apply rev_nil_inv. exact Hn2.
    + apply hd_ok_nonws. apply Forall_rev_nonws. exact H2.
Qed.

Lemma trim_word : forall w, Forall nonws w -> trim w = w.
Proof.
  intros w Hw. apply trim_id; apply hd_ok_nonws; [exact Hw|]. apply Forall_rev_nonws. exact Hw.
Qed.

(* one trailing whitespace character after a non-whitespace one *)
Lemma trim_trailing : forall w m z c, Forall nonws w -> w <> [] -> is_ws z = false -> is_ws c = true ->
  trim (w ++ m ++ [z; c]) = w ++ m ++ [z].
Proof.
  intros w m z c Hw Hne Hz Hc. unfold trim.
  rewrite (drop_ws_id (w ++ m ++ [z; c])) by (apply hd_ok_app; [exact Hne|apply hd_ok_nonws; exact Hw]).
  rewrite app_assoc. rewrite rev_app_distr. cbn [rev app drop_ws]. rewrite Hc, Hz.
  change (z :: rev (w ++ m)) with (rev [z] ++ rev (w ++ m)). rewrite <- rev_app_distr.
  rewrite rev_involutive. rewrite <- app_assoc. reflexivity.
Qed.

(* ---------- split_once ---------- *)
Lemma split_once_app : forall sep p r acc, Forall (fun c => c <> sep) p ->
  split_once sep (p ++ sep :: r) acc = Some (rev acc ++ p, r).
Proof.
  intros sep p. induction p as [|c p IH]; intros r acc Hp; cbn [app split_once].
  - rewrite N.eqb_refl. rewrite app_nil_r. reflexivity.
  - inversion Hp as [|c' p' Hc Hp']; subst c' p'.
    destruct (N.eqb_spec c sep) as [He|_]; [congruence|].
    rewrite IH by exact Hp'. cbn [rev]. rewrite <- app_assoc. reflexivity.
Qed.

(* ---------- str_eqb ---------- *)
Lemma str_eqb_head_neq : forall a b r t, a <> b -> str_eqb (a :: r) (b :: t) = false.
Proof.
  intros a b r t Hab. unfold str_eqb. cbn [combine forallb fst snd].
  destruct (N.eqb_spec a b) as [He|_]; [congruence|]. cbn [andb]. apply andb_false_r.
Qed.

(* ---------- digits ---------- *)
Definition isdig (c : N) : Prop := 48 <= c <= 57.

Lemma isdig_nonws : forall c, isdig c -> nonws c.
Proof. intros c Hc. unfold isdig in Hc. unfold nonws, is_ws. lia. Qed.

Lemma digit_val_dec : forall d, d < 10 -> digit_val 10 (48 + d) = Some d.
Proof.
  intros d Hd. unfold digit_val.
  assert (H1 : (48 <=? 48 + d) && (48 + d <=? 57) = true) by lia. rewrite H1.
  replace (48 + d - 48) with d by lia.
  assert (H2 : (d <? 10) = true) by lia. rewrite H2. reflexivity.
Qed.

Lemma pow_succ_nat : forall b f, b ^ N.of_nat (S f) = b * b ^ N.of_nat f.
Proof. intros b f. rewrite Nat2N.inj_succ. apply N.pow_succ_r'. Qed.

Lemma dec_digits_val : forall fuel n acc, n < 10 ^ N.of_nat fuel ->
  digits_val 10 (dec_digits fuel n acc) 0 = digits_val 10 acc n.
Proof.
  induction fuel as [|f IH]; intros n acc Hn.
  - cbn [dec_digits]. change (10 ^ N.of_nat 0) with 1 in Hn. replace n with 0 by lia. reflexivity.
  - rewrite pow_succ_nat in Hn. cbn [dec_digits]. cbv zeta.
    assert (Hq : n / 10 < 10 ^ N.of_nat f) by (apply N.div_lt_upper_bound; lia).
    assert (Hstep : digits_val 10 ((48 + n mod 10) :: acc) (n / 10) = digits_val 10 acc n).
    { cbn [digits_val]. rewrite digit_val_dec by (apply N.mod_lt; lia).
      f_equal. pose proof (N.div_mod n 10) as Hdm. lia. }
    destruct (n / 10 =? 0) eqn:Hz.
    + apply N.eqb_eq in Hz. rewrite Hz in Hstep. exact Hstep.
    + rewrite IH by exact Hq. exact Hstep.
Qed.

Lemma dec_digits_isdig : forall fuel n acc, Forall isdig acc -> Forall isdig (dec_digits fuel n acc).
Proof.
  induction fuel as [|f IH]; intros n acc Hacc; cbn [dec_digits]; [exact Hacc|]. cbv zeta.
  assert (Hacc' : Forall isdig ((48 + n mod 10) :: acc)).
  { constructor; [|exact Hacc]. unfold isdig. pose proof (N.mod_lt n 10). lia. }
  destruct (n / 10 =? 0); [exact Hacc'|]. apply IH. exact Hacc'.
Qed.

Lemma dec_digits_length : forall fuel n acc, (length acc <= length (dec_digits fuel n acc))%nat.
Proof.
  induction fuel as [|f IH]; intros n acc; cbn [dec_digits]; [lia|]. cbv zeta.
  destruct (n / 10 =? 0); [cbn [length]; lia|].
  specialize (IH (n / 10) ((48 + n mod 10) :: acc)). cbn [length] in IH. lia.
Qed.

Lemma print_nat_isdig : forall n, Forall isdig (print_nat n).
Proof. intros n. unfold print_nat. apply dec_digits_isdig. constructor. Qed.

Lemma dec_digits_length_S : forall f n acc, (length acc < length (dec_digits (S f) n acc))%nat.
Proof.
  intros f n acc. cbn [dec_digits]. cbv zeta. destruct (n / 10 =? 0); [cbn [length]; lia|].
  pose proof (dec_digits_length f (n / 10) ((48 + n mod 10) :: acc)) as Hl. cbn [length] in Hl. lia.
Qed.

Lemma print_nat_cons : forall n, exists c r, print_nat n = c :: r /\ isdig c.
Proof.
  intros n. pose proof (print_nat_isdig n) as Hd.
  pose proof (dec_digits_length_S 19 n [] : (0 < length (print_nat n))%nat) as Hl.
  destruct (print_nat n) as [|c r]; [cbn [length] in Hl; lia|].
  exists c, r. split; [reflexivity|]. inversion Hd; assumption.
Qed.

Lemma print_nat_val : forall n, n < 2 ^ 64 -> digits_val 10 (print_nat n) 0 = Some n.
Proof.
  intros n Hn. unfold print_nat. rewrite dec_digits_val; [reflexivity|].
  change (N.of_nat 20) with 20. change (2 ^ 64) with 18446744073709551616 in Hn.
  change (10 ^ 20) with 100000000000000000000. lia.
Qed.

(* sign / plus prefixes *)
Lemma parse_unsigned_nosign : forall radix c r, c <> 43 ->
  parse_unsigned radix (c :: r) =
  match digits_val radix (c :: r) 0 with
  | Some v => if v <? two64 then Some v else None
  | None => None end.
Proof. intros radix c r Hc. unfold parse_unsigned. case_N c. Qed.

Lemma parse_i16_nosign : forall c r, c <> 43 -> c <> 45 ->
  parse_i16 (c :: r) =
  match digits_val 10 (c :: r) 0 with
  | Some v => if ((-32768 <=? Z.of_N v) && (Z.of_N v <=? 32767))%Z then Some (Z.of_N v) else None
  | None => None end.
Proof. intros c r H1 H2. unfold parse_i16. case_N c. Qed.

Lemma parse_unsigned_print_nat : forall n, n < 2 ^ 64 -> parse_unsigned 10 (print_nat n) = Some n.
Proof.
  intros n Hn. pose proof (print_nat_val n Hn) as Hv.
  destruct (print_nat_cons n) as [c [r [Hp Hc]]]. rewrite Hp in *.
  rewrite parse_unsigned_nosign by (unfold isdig in Hc; lia). rewrite Hv.
  assert (Hlt : (n <? two64) = true) by (apply N.ltb_lt; exact Hn). rewrite Hlt. reflexivity.
Qed.

Lemma print_int_nonws : forall z, Forall nonws (print_int z).
Proof.
  intros z. unfold print_int.
  assert (Hn : forall n, Forall nonws (print_nat n)).
  { intros n. eapply Forall_impl; [|apply print_nat_isdig]. intros c Hc. apply isdig_nonws. exact Hc. }
  destruct (z <? 0)%Z; [constructor; [reflexivity|]|]; apply Hn.
Qed.

Lemma print_int_nonnil : forall z, print_int z <> [].
Proof.
  intros z. unfold print_int. destruct (z <? 0)%Z; [discriminate|].
  destruct (print_nat_cons (Z.to_N z)) as [c [r [Hp _]]]. rewrite Hp. discriminate.
Qed.

Lemma parse_i16_print_int : forall z, (-32768 <= z <= 32767)%Z -> parse_i16 (print_int z) = Some z.
Proof.
  intros z Hz. unfold print_int. destruct (z <? 0)%Z eqn:Hneg.
  - apply Z.ltb_lt in Hneg. set (m := Z.to_N (- z)).
    assert (Hm : m < 2 ^ 64) by (change (2 ^ 64) with 18446744073709551616; lia).
    pose proof (print_nat_val m Hm) as Hv.
    destruct (print_nat_cons m) as [c [r [Hp _]]].
    unfold parse_i16. rewrite Hp in *. rewrite Hv.
    replace (- Z.of_N m)%Z with z by lia.
    assert (Hr : ((-32768 <=? z) && (z <=? 32767))%Z = true) by lia. rewrite Hr. reflexivity.
  - apply Z.ltb_ge in Hneg. set (m := Z.to_N z).
    assert (Hm : m < 2 ^ 64) by (change (2 ^ 64) with 18446744073709551616; lia).
    pose proof (print_nat_val m Hm) as Hv.
    destruct (print_nat_cons m) as [c [r [Hp Hc]]]. rewrite Hp in *. unfold isdig in Hc.
    rewrite parse_i16_nosign by lia. rewrite Hv.
    replace (Z.of_N m) with z by lia.
    assert (Hr : ((-32768 <=? z) && (z <=? 32767))%Z = true) by lia. rewrite Hr. reflexivity.
Qed.

(* ---------- hexadecimal ---------- *)
Definition ishex (c : N) : Prop := 48 <= c <= 57 \/ 97 <= c <= 102.

Lemma hex_digit_check :
  forallb (fun d => match digit_val 16 (hex_digit d) with Some d' => d' =? d | None => false end
                    && (((48 <=? hex_digit d) && (hex_digit d <=? 57)) || ((97 <=? hex_digit d) && (hex_digit d <=? 102))))
          (nseq 16 0) = true.
Proof. vm_compute. reflexivity. Qed.

Lemma hex_digit_spec : forall d, d < 16 -> digit_val 16 (hex_digit d) = Some d /\ ishex (hex_digit d).
Proof.
  intros d Hd. pose proof hex_digit_check as Hall. rewrite forallb_forall in Hall.
  specialize (Hall d (nseq_In_N 16 d Hd)). apply andb_true_iff in Hall. destruct Hall as [H1 H2].
  split.
  - destruct (digit_val 16 (hex_digit d)) as [d'|]; [|discriminate]. apply N.eqb_eq in H1. congruence.
  - unfold ishex. lia.
Qed.

Lemma hex_digits_val : forall fuel n acc, n < 16 ^ N.of_nat fuel ->
  digits_val 16 (hex_digits fuel n acc) 0 = digits_val 16 acc n.
Proof.
  induction fuel as [|f IH]; intros n acc Hn.
  - cbn [hex_digits]. change (16 ^ N.of_nat 0) with 1 in Hn. replace n with 0 by lia. reflexivity.
  - rewrite pow_succ_nat in Hn. cbn [hex_digits]. cbv zeta.
    assert (Hq : n / 16 < 16 ^ N.of_nat f) by (apply N.div_lt_upper_bound; lia).
    assert (Hstep : digits_val 16 (hex_digit (n mod 16) :: acc) (n / 16) = digits_val 16 acc n).
    { cbn [digits_val]. destruct (hex_digit_spec (n mod 16)) as [Hdv _]; [apply N.mod_lt; lia|].
      rewrite Hdv. f_equal. pose proof (N.div_mod n 16) as Hdm. lia. }
    destruct (n / 16 =? 0) eqn:Hz.
    + apply N.eqb_eq in Hz. rewrite Hz in Hstep. exact Hstep.
    + rewrite IH by exact Hq. exact Hstep.
Qed.

Lemma hex_digits_ishex : forall fuel n acc, Forall ishex acc -> Forall ishex (hex_digits fuel n acc).
Proof.
  induction fuel as [|f IH]; intros n acc Hacc; cbn [hex_digits]; [exact Hacc|]. cbv zeta.
  assert (Hacc' : Forall ishex (hex_digit (n mod 16) :: acc)).
  { constructor; [|exact Hacc]. apply hex_digit_spec. apply N.mod_lt. lia. }
  destruct (n / 16 =? 0); [exact Hacc'|]. apply IH. exact Hacc'.
Qed.

Lemma hex_digits_length : forall fuel n acc, (length acc <= length (hex_digits fuel n acc))%nat.
Proof.
  induction fuel as [|f IH]; intros n acc; cbn [hex_digits]; [lia|]. cbv zeta.
  destruct (n / 16 =? 0); [cbn [length]; lia|].
  specialize (IH (n / 16) (hex_digit (n mod 16) :: acc)). cbn [length] in IH. lia.
Qed.

Lemma hex_digits_length_S : forall f n acc, (length acc < length (hex_digits (S f) n acc))%nat.
Proof.
  intros f n acc. cbn [hex_digits]. cbv zeta. destruct (n / 16 =? 0); [cbn [length]; lia|].
  pose proof (hex_digits_length f (n / 16) (hex_digit (n mod 16) :: acc)) as Hl. cbn [length] in Hl. lia.
Qed.

Lemma hex_digits_cons : forall n, exists c r, hex_digits 16 n [] = c :: r /\ ishex c.
Proof.
  intros n. pose proof (hex_digits_ishex 16 n [] (Forall_nil _)) as Hd.
  pose proof (hex_digits_length_S 15 n [] : (0 < length (hex_digits 16 n []))%nat) as Hl.
  destruct (hex_digits 16 n []) as [|c r]; [cbn [length] in Hl; lia|].
  exists c, r. split; [reflexivity|]. inversion Hd; assumption.
Qed.

(* usize::from_str_radix(format!("{:x}", n), 16) == n, for every 64-bit n *)
Lemma parse_unsigned_hex : forall n, n < 2 ^ 64 -> parse_unsigned 16 (hex_digits 16 n []) = Some n.
Proof.
  intros n Hn.
  assert (Hv : digits_val 16 (hex_digits 16 n []) 0 = Some n).
  { rewrite hex_digits_val; [reflexivity|]. change (16 ^ N.of_nat 16) with (2 ^ 64). exact Hn. }
  destruct (hex_digits_cons n) as [c [r [Hp Hc]]]. rewrite Hp in *.
  rewrite parse_unsigned_nosign by (unfold ishex in Hc; lia). rewrite Hv.
  assert (Hlt : (n <? two64) = true) by (apply N.ltb_lt; exact Hn). rewrite Hlt. reflexivity.
Qed.

(* ... and with the {:02x} padding *)
Lemma parse_unsigned_hex_pad : forall n, n < 2 ^ 64 ->
  parse_unsigned 16 (match hex_digits 16 n [] with [d] => [48; d] | h => h end) = Some n.
Proof.
  intros n Hn. pose proof (parse_unsigned_hex n Hn) as Hh.
  destruct (hex_digits_cons n) as [c [r [Hp Hc]]]. rewrite Hp in *.
  destruct r as [|c2 r]; [|exact Hh].
  rewrite parse_unsigned_nosign in Hh by (unfold ishex in Hc; lia).
  rewrite parse_unsigned_nosign by lia.
  cbn [digits_val] in *. change (digit_val 16 48) with (Some 0). cbv iota. exact Hh.
Qed.
