(* Proofs/C06_Examples.v -- concrete runs (the unit tests of src/cards/hands.rs) and witnesses showing
   that the hypotheses of the C06 theorems are satisfiable. Small vm_compute evaluations only. *)
From Coq Require Import NArith ZArith List Bool Lia.
From RP Require Import Base.Bits Gen.GenStreet Model.Codec Model.Hands.
From RP Require Import Spec.SpecCodec Spec.SpecIsoWf Spec.SpecCombs Spec.SpecIter.
Import ListNotations.
Open Scope N_scope.

Ltac conj_vm := repeat (match goal with |- _ /\ _ => split end); vm_compute; reflexivity.

Definition take_from (d : deck) (k mask : N) (limit : nat) : option (list N) :=
  match hand_iter d k mask with Some it => hands_take limit d it | None => None end.
Definition obs_take_from (d : deck) (s : Z) (limit : nat) : option (list obs) :=
  match obs_iter d s with Some it => obs_take limit d it | None => None end.

(* hands.rs: choose_3 *)
Lemma test_choose_3 : take_from Standard 3 0 10 = Some [7; 11; 13; 14; 19; 21; 22; 25; 26; 28].
Proof. vm_compute. reflexivity. Qed.

(* hands.rs: choose_3_from_5, mask = complement of 0b1111001; the 11th call returns None *)
Definition mask_3_from_5 : N := N.lxor 121 (hand_mask Standard).
Lemma test_choose_3_from_5 :
  take_from Standard 3 mask_3_from_5 11 = Some [25; 41; 49; 56; 73; 81; 88; 97; 104; 112] /\
  spec_hands Standard 3 mask_3_from_5 = [25; 41; 49; 56; 73; 81; 88; 97; 104; 112] /\
  N.land mask_3_from_5 (hand_mask Standard) = mask_3_from_5.
Proof. conj_vm. Qed.

(* hands.rs: n_choose_0, n_choose_0_mask_4, n_choose_1, n_choose_2, n_choose_1_mask_4, n_choose_2_mask_4 *)
Lemma test_counts :
  take_from Standard 0 0 5 = Some [] /\ take_from Standard 0 15 5 = Some [] /\
  option_map (@length N) (take_from Standard 1 0 2000) = Some 52%nat /\
  option_map (@length N) (take_from Short 1 0 2000) = Some 36%nat /\
  option_map (@length N) (take_from Standard 2 0 2000) = Some 1326%nat /\
  option_map (@length N) (take_from Standard 1 15 2000) = Some 48%nat /\
  option_map (@length N) (take_from Standard 2 15 2000) = Some 1128%nat.
Proof. conj_vm. Qed.

(* hands.rs: choose_2_shortdeck *)
Lemma test_choose_2_shortdeck : take_from Short 2 0 1 = Some [196608].
Proof. vm_compute. reflexivity. Qed.

(* the Gosper step 0b10110 -> 0b11001 (a = 1, b = 1, r = 1), as in choose_3 *)
Lemma ex_permute : 2 ^ 1 * (2 ^ (1 + 1) - 1) + 2 ^ (1 + 1 + 2) * 1 = 22 /\ 22 < 2 ^ 63 /\ 0 < 22 /\
  permute_next 22 = Some 25 /\ (2 ^ 1 - 1) + 2 ^ (1 + 1 + 1) + 2 ^ (1 + 1 + 2) * 1 = 25.
Proof. repeat split. Qed.

(* a loop that says Go twice and then stops: 3-bit words skipping those that use card 2 *)
Lemma ex_reaches : reaches (advance_step 4) 11 2 (Stop 19) /\ N.of_nat 2 < Npos big_fuel.
Proof.
  split; [|reflexivity].
  apply reaches_go with (a' := 13); [reflexivity|].
  apply reaches_go with (a' := 14); [reflexivity|].
  apply reaches_stop. reflexivity.
Qed.

Lemma ex_advance_hyp : 1 <= 3 /\ 3 <= 8 /\ 4 < 2 ^ 52 /\ popcount64 11 = 3 /\ 11 < 2 ^ 52 * (2 ^ 3 - 1).
Proof. repeat split; try reflexivity; vm_compute; congruence. Qed.

Lemma ex_mask_hyp : (1 <= 2 <= 7)%nat /\ N.land 15 (hand_mask Standard) = 15 /\ N.land 983040 (hand_mask Short) = 983040.
Proof. repeat split; lia. Qed.

(* a flop observation: pocket 2c 2d, board 2h 2s 3c *)
Definition ex_flop : obs := mkObs 3 28.
Lemma ex_flop_hyp : wf_obs_d Standard ex_flop /\ obs_street ex_flop = Some 1%Z /\ n_revealed_of 1 = Some 1.
Proof.
  unfold wf_obs_d, wf_obs. repeat split; try reflexivity.
  right; left. reflexivity.
Qed.

(* first items of the observation iterator *)
Lemma ex_obs_flop : obs_take_from Standard 1 3 = Some [mkObs 3 28; mkObs 3 44; mkObs 3 52].
Proof. vm_compute. reflexivity. Qed.
Lemma ex_obs_turn_short : obs_take_from Short 2 2 = Some [mkObs 196608 3932160; mkObs 196608 6029312].
Proof. vm_compute. reflexivity. Qed.
(* the complete pre-flop runs *)
Lemma ex_obs_pref : obs_take_from Standard 0 2000 = Some (spec_obs Standard 0) /\
                    obs_take_from Short 0 2000 = Some (spec_obs Short 0) /\
                    length (spec_obs Standard 0) = 1326%nat /\ length (spec_obs Short 0) = 630%nat.
Proof. conj_vm. Qed.

Lemma ex_street_hyp : (0 <= 2 <= 3)%Z.
Proof. lia. Qed.

Lemma ex_pref_obs_hyp : wf_obs_d Standard (mkObs 3 0) /\ hand_size (public (mkObs 3 0)) = n_observed 0.
Proof. unfold wf_obs_d, wf_obs. repeat split; try reflexivity. left. reflexivity. Qed.
