(* Proofs/C19_Factor.v -- the regret discount factor of Model/DiscountR.v (Discount::regret with the
   phase switch of Profile::add_regret) over the reals: range, value one off the period / at zero
   regret / after the discount phase, value zero at epoch 0, monotonicity; and the weight claims of
   C19 for the run whose factors ARE these values (no hypothesis about the factors). *)
From Coq Require Import ZArith QArith Qreals Reals Lra Lia List.
From RP Require Import Gen.GenLib Gen.GenDiscount Model.Discount Model.DiscountR Spec.SpecDiscountR.
Import ListNotations.
Local Open Scope R_scope.

(* ---------- the generated constants ---------- *)
Lemma period_pos : (0 < DISCOUNT_PERIOD)%Z.
Proof. reflexivity. Qed.
Lemma phase_pos : (0 < CFR_DISCOUNT_PHASE)%Z.
Proof. reflexivity. Qed.
Lemma alpha_pos : 0 < alphaR.
Proof. unfold alphaR. rewrite <- RMicromega.Q2R_0. apply Qlt_Rlt. reflexivity. Qed.
Lemma omega_pos : 0 < omegaR.
Proof. unfold omegaR. rewrite <- RMicromega.Q2R_0. apply Qlt_Rlt. reflexivity. Qed.
Lemma omega_le_alpha : omegaR <= alphaR.
Proof. unfold omegaR, alphaR. apply Qle_Rle. discriminate. Qed.

(* ---------- x / (x + 1) ---------- *)
Lemma squash_alt : forall x, 0 <= x -> squash x = 1 - / (x + 1).
Proof. intros x Hx. unfold squash. field. lra. Qed.
Lemma squash_0 : squash 0 = 0.
Proof. unfold squash. field. Qed.
Lemma squash_range : forall x, 0 < x -> 0 < squash x < 1.
Proof.
  intros x Hx. rewrite squash_alt by lra.
  assert (H1 : 0 < / (x + 1)) by (apply Rinv_0_lt_compat; lra).
  assert (H2 : / (x + 1) < 1).
  { rewrite <- Rinv_1. apply Rinv_lt_contravar; lra. }
  lra.
Qed.
Lemma squash_le : forall x y, 0 <= x -> x <= y -> squash x <= squash y.
Proof.
  intros x y Hx Hxy. rewrite !squash_alt by lra.
  assert (H : / (y + 1) <= / (x + 1)) by (apply Rinv_le_contravar; lra). lra.
Qed.
Lemma squash_lt : forall x y, 0 <= x -> x < y -> squash x < squash y.
Proof.
  intros x y Hx Hxy. rewrite !squash_alt by lra.
  assert (H : / (y + 1) < / (x + 1)).
  { apply Rinv_lt_contravar; [ apply Rmult_lt_0_compat; lra | lra ]. }
  lra.
Qed.

(* ---------- powf ---------- *)
Lemma powfR_0 : forall y, powfR 0 y = 0.
Proof. intros y. unfold powfR. destruct (Req_EM_T 0 0) as [ _ | Hn ]; [ reflexivity | elim Hn; reflexivity ]. Qed.
Lemma powfR_pos : forall x y, 0 < x -> powfR x y = Rpower x y /\ 0 < powfR x y.
Proof.
  intros x y Hx. unfold powfR. destruct (Req_EM_T x 0) as [ H0 | _ ]; [ lra | ].
  split; [ reflexivity | unfold Rpower; apply exp_pos ].
Qed.
Lemma powfR_le : forall x x' y, 0 < y -> 0 < x -> x <= x' -> powfR x y <= powfR x' y.
Proof.
  intros x x' y Hy Hx Hxx.
  destruct (powfR_pos x y Hx) as [ -> _ ]. destruct (powfR_pos x' y ltac:(lra)) as [ -> _ ].
  apply Rle_Rpower_l; lra.
Qed.
Lemma powfR_lt : forall x x' y, 0 < y -> 0 < x -> x < x' -> powfR x y < powfR x' y.
Proof.
  intros x x' y Hy Hx Hxx.
  destruct (powfR_pos x y Hx) as [ -> _ ]. destruct (powfR_pos x' y ltac:(lra)) as [ -> _ ].
  apply Rlt_Rpower_l; lra.
Qed.
Lemma powfR_exp_le : forall x y y', 1 <= x -> y <= y' -> powfR x y <= powfR x y'.
Proof.
  intros x y y' Hx Hy.
  destruct (powfR_pos x y ltac:(lra)) as [ -> _ ]. destruct (powfR_pos x y' ltac:(lra)) as [ -> _ ].
  apply Rle_Rpower; assumption.
Qed.

(* ---------- t / period ---------- *)
Lemma IZR_period_pos : 0 < IZR DISCOUNT_PERIOD.
Proof. apply IZR_lt. exact period_pos. Qed.
Lemma periodsR_0 : periodsR 0 = 0.
Proof. unfold periodsR. pose proof IZR_period_pos. field. lra. Qed.
Lemma periodsR_pos : forall t, (1 <= t)%Z -> 0 < periodsR t.
Proof.
  intros t Ht. unfold periodsR. apply Rdiv_lt_0_compat; [ | exact IZR_period_pos ].
  apply IZR_lt. lia.
Qed.
Lemma periodsR_le : forall t t', (t <= t')%Z -> periodsR t <= periodsR t'.
Proof.
  intros t t' Htt. unfold periodsR, Rdiv. apply Rmult_le_compat_r.
  - apply Rlt_le, Rinv_0_lt_compat, IZR_period_pos.
  - apply IZR_le. exact Htt.
Qed.
Lemma periodsR_lt : forall t t', (t < t')%Z -> periodsR t < periodsR t'.
Proof.
  intros t t' Htt. unfold periodsR, Rdiv. apply Rmult_lt_compat_r.
  - apply Rinv_0_lt_compat, IZR_period_pos.
  - apply IZR_lt. exact Htt.
Qed.
(* a positive multiple of the period is at least one period *)
Lemma periodsR_ge_1 : forall t, (1 <= t)%Z -> (t mod DISCOUNT_PERIOD = 0)%Z -> 1 <= periodsR t.
Proof.
  intros t Ht Hm. pose proof period_pos as Hp. pose proof IZR_period_pos as HP.
  assert (Hle : (DISCOUNT_PERIOD <= t)%Z).
  { apply Z.mod_divide in Hm; [ | lia ]. destruct Hm as [ k Hk ]. generalize dependent DISCOUNT_PERIOD. intros P Hp Hk _.
    destruct (Z.le_gt_cases k 0) as [ Hk0 | Hk0 ].
    - pose proof (Z.mul_nonpos_nonneg k P Hk0 ltac:(lia)). lia.
    - pose proof (Z.mul_le_mono_nonneg_r 1 k P ltac:(lia) ltac:(lia)). lia. }
  unfold periodsR. apply Rmult_le_reg_r with (IZR DISCOUNT_PERIOD); [ exact HP | ].
  unfold Rdiv. rewrite Rmult_assoc, Rinv_l by lra. rewrite Rmult_1_l, Rmult_1_r.
  apply IZR_le. exact Hle.
Qed.

(* ---------- Discount::regret ---------- *)
Lemma on_period : forall t, (t mod DISCOUNT_PERIOD = 0)%Z -> negb (t mod DISCOUNT_PERIOD =? 0)%Z = false.
Proof. intros t Hm. rewrite Hm. reflexivity. Qed.
Lemma off_period : forall t, (t mod DISCOUNT_PERIOD <> 0)%Z -> negb (t mod DISCOUNT_PERIOD =? 0)%Z = true.
Proof. intros t Hm. apply Z.eqb_neq in Hm. rewrite Hm. reflexivity. Qed.

Lemma discount_pos : forall t r, (t mod DISCOUNT_PERIOD = 0)%Z -> 0 < r ->
  discount_regretR t r = squash (powfR (periodsR t) alphaR).
Proof.
  intros t r Hm Hr. unfold discount_regretR. rewrite (on_period t Hm).
  destruct (Rlt_dec 0 r) as [ _ | Hn ]; [ reflexivity | elim Hn; exact Hr ].
Qed.
Lemma discount_neg : forall t r, (t mod DISCOUNT_PERIOD = 0)%Z -> r < 0 ->
  discount_regretR t r = squash (powfR (periodsR t) omegaR).
Proof.
  intros t r Hm Hr. unfold discount_regretR. rewrite (on_period t Hm).
  destruct (Rlt_dec 0 r) as [ Hp | _ ]; [ lra | ].
  destruct (Rlt_dec r 0) as [ _ | Hn ]; [ reflexivity | elim Hn; exact Hr ].
Qed.
Lemma discount_zero : forall t, discount_regretR t 0 = 1.
Proof.
  intros t. unfold discount_regretR. destruct (negb (t mod DISCOUNT_PERIOD =? 0)%Z); [ reflexivity | ].
  destruct (Rlt_dec 0 0) as [ Hp | _ ]; [ lra | ]. destruct (Rlt_dec 0 0) as [ Hp | _ ]; [ lra | reflexivity ].
Qed.
Lemma discount_off_period : forall t r, (t mod DISCOUNT_PERIOD <> 0)%Z -> discount_regretR t r = 1.
Proof. intros t r Hm. unfold discount_regretR. rewrite (off_period t Hm). reflexivity. Qed.

Lemma discount_range : forall t r, (1 <= t)%Z -> 0 < discount_regretR t r <= 1.
Proof.
  intros t r Ht.
  destruct (Z.eq_dec (t mod DISCOUNT_PERIOD) 0) as [ Hm | Hm ].
  - pose proof (periodsR_pos t Ht) as Hx.
    destruct (Rtotal_order r 0) as [ Hr | [ Hr | Hr ] ].
    + rewrite (discount_neg t r Hm Hr).
      destruct (powfR_pos (periodsR t) omegaR Hx) as [ _ Hp ].
      pose proof (squash_range _ Hp). lra.
    + subst r. rewrite discount_zero. lra.
    + rewrite (discount_pos t r Hm Hr).
      destruct (powfR_pos (periodsR t) alphaR Hx) as [ _ Hp ].
      pose proof (squash_range _ Hp). lra.
  - rewrite (discount_off_period t r Hm). lra.
Qed.

(* ---------- regret_factor: the phase switch on top ---------- *)
Lemma factor_in_phase : forall t r, (t < CFR_DISCOUNT_PHASE)%Z -> regret_factor t r = discount_regretR t r.
Proof.
  intros t r Ht. unfold regret_factor, in_discount_phase.
  apply Z.ltb_lt in Ht. rewrite Ht. reflexivity.
Qed.
Lemma factor_after_phase : forall t r, (CFR_DISCOUNT_PHASE <= t)%Z -> regret_factor t r = 1.
Proof.
  intros t r Ht. unfold regret_factor, in_discount_phase.
  apply Z.ltb_ge in Ht. rewrite Ht. reflexivity.
Qed.
Lemma factor_after_phase' : forall t r, in_discount_phase t = false -> regret_factor t r = 1.
Proof. intros t r Ht. unfold regret_factor. rewrite Ht. reflexivity. Qed.

Lemma factor_range : forall t r, (1 <= t)%Z -> 0 < regret_factor t r <= 1.
Proof.
  intros t r Ht. unfold regret_factor. destruct (in_discount_phase t).
  - apply discount_range. exact Ht.
  - lra.
Qed.
Lemma factor_off_period : forall t r, (t mod DISCOUNT_PERIOD <> 0)%Z -> regret_factor t r = 1.
Proof.
  intros t r Hm. unfold regret_factor. destruct (in_discount_phase t); [ | reflexivity ].
  apply discount_off_period. exact Hm.
Qed.
Lemma factor_zero_regret : forall t, regret_factor t 0 = 1.
Proof.
  intros t. unfold regret_factor. destruct (in_discount_phase t); [ apply discount_zero | reflexivity ].
Qed.
(* epoch 0: (0 / period)^a = 0, the factor is 0 / (0 + 1) = 0.  It multiplies the accumulator of an
   information set that has not been updated before in this run (zero on a fresh profile). *)
Lemma factor_epoch_0 : forall r, r <> 0 -> regret_factor 0 r = 0.
Proof.
  intros r Hr. rewrite factor_in_phase by exact phase_pos.
  assert (Hm : (0 mod DISCOUNT_PERIOD = 0)%Z) by apply Zmod_0_l.
  destruct (Rtotal_order r 0) as [ Hlt | [ Heq | Hgt ] ]; [ | contradiction | ].
  - rewrite (discount_neg 0 r Hm Hlt), periodsR_0, powfR_0. apply squash_0.
  - rewrite (discount_pos 0 r Hm Hgt), periodsR_0, powfR_0. apply squash_0.
Qed.
Lemma factor_nonneg : forall t r, (0 <= t)%Z -> 0 <= regret_factor t r <= 1.
Proof.
  intros t r Ht. destruct (Z.eq_dec t 0) as [ -> | Hne ].
  - destruct (Req_dec r 0) as [ -> | Hr ].
    + rewrite factor_zero_regret. lra.
    + rewrite (factor_epoch_0 r Hr). lra.
  - pose proof (factor_range t r ltac:(lia)). lra.
Qed.

(* closed forms inside the phase, on the period *)
Lemma factor_pos_regret : forall t r, (t < CFR_DISCOUNT_PHASE)%Z -> (t mod DISCOUNT_PERIOD = 0)%Z -> 0 < r ->
  regret_factor t r = squash (powfR (periodsR t) alphaR).
Proof. intros t r Ht Hm Hr. rewrite factor_in_phase by exact Ht. apply discount_pos; assumption. Qed.
Lemma factor_neg_regret : forall t r, (t < CFR_DISCOUNT_PHASE)%Z -> (t mod DISCOUNT_PERIOD = 0)%Z -> r < 0 ->
  regret_factor t r = squash (powfR (periodsR t) omegaR).
Proof. intros t r Ht Hm Hr. rewrite factor_in_phase by exact Ht. apply discount_neg; assumption. Qed.

Definition same_sign (r r' : R) : Prop := (0 < r /\ 0 < r') \/ (r < 0 /\ r' < 0).

(* later multiples of the period discount less (fixed sign of the regret) *)
Lemma factor_monotone : forall t t' r r', (0 <= t <= t')%Z ->
  (t mod DISCOUNT_PERIOD = 0)%Z -> (t' mod DISCOUNT_PERIOD = 0)%Z -> same_sign r r' ->
  regret_factor t r <= regret_factor t' r'.
Proof.
  intros t t' r r' Htt Hm Hm' Hs.
  destruct (Z.lt_ge_cases t' CFR_DISCOUNT_PHASE) as [ Hin | Hout ].
  2:{ rewrite (factor_after_phase t' r' Hout). apply factor_nonneg. lia. }
  destruct (Z.eq_dec t 0) as [ -> | Hne ].
  { assert (Hr : r <> 0) by (destruct Hs as [ [ H1 _ ] | [ H1 _ ] ]; lra).
    rewrite (factor_epoch_0 r Hr). apply factor_nonneg. lia. }
  assert (Ht1 : (1 <= t)%Z) by lia.
  pose proof (periodsR_pos t Ht1) as Hx. pose proof (periodsR_le t t' ltac:(lia)) as Hxx.
  destruct Hs as [ [ H1 H2 ] | [ H1 H2 ] ].
  - rewrite (factor_pos_regret t r ltac:(lia) Hm H1), (factor_pos_regret t' r' Hin Hm' H2).
    apply squash_le.
    + apply Rlt_le. apply (powfR_pos _ _ Hx).
    + apply powfR_le; [ exact alpha_pos | exact Hx | exact Hxx ].
  - rewrite (factor_neg_regret t r ltac:(lia) Hm H1), (factor_neg_regret t' r' Hin Hm' H2).
    apply squash_le.
    + apply Rlt_le. apply (powfR_pos _ _ Hx).
    + apply powfR_le; [ exact omega_pos | exact Hx | exact Hxx ].
Qed.
(* strictly, inside the phase *)
Lemma factor_strictly_monotone : forall t t' r r', (0 <= t < t')%Z -> (t' < CFR_DISCOUNT_PHASE)%Z ->
  (t mod DISCOUNT_PERIOD = 0)%Z -> (t' mod DISCOUNT_PERIOD = 0)%Z -> same_sign r r' ->
  regret_factor t r < regret_factor t' r'.
Proof.
  intros t t' r r' Htt Hin Hm Hm' Hs.
  destruct (Z.eq_dec t 0) as [ -> | Hne ].
  { assert (Hr : r <> 0) by (destruct Hs as [ [ H1 _ ] | [ H1 _ ] ]; lra).
    rewrite (factor_epoch_0 r Hr). apply factor_range. lia. }
  assert (Ht1 : (1 <= t)%Z) by lia.
  pose proof (periodsR_pos t Ht1) as Hx. pose proof (periodsR_lt t t' ltac:(lia)) as Hxx.
  destruct Hs as [ [ H1 H2 ] | [ H1 H2 ] ].
  - rewrite (factor_pos_regret t r ltac:(lia) Hm H1), (factor_pos_regret t' r' Hin Hm' H2).
    apply squash_lt.
    + apply Rlt_le. apply (powfR_pos _ _ Hx).
    + apply powfR_lt; [ exact alpha_pos | exact Hx | exact Hxx ].
  - rewrite (factor_neg_regret t r ltac:(lia) Hm H1), (factor_neg_regret t' r' Hin Hm' H2).
    apply squash_lt.
    + apply Rlt_le. apply (powfR_pos _ _ Hx).
    + apply powfR_lt; [ exact omega_pos | exact Hx | exact Hxx ].
Qed.
(* at the same epoch a negative regret is discounted at least as much as a positive one *)
Lemma factor_neg_le_pos : forall t r r', (0 <= t)%Z -> r < 0 -> 0 < r' -> regret_factor t r <= regret_factor t r'.
Proof.
  intros t r r' Ht Hr Hr'.
  destruct (Z.lt_ge_cases t CFR_DISCOUNT_PHASE) as [ Hin | Hout ].
  2:{ rewrite !factor_after_phase by exact Hout. lra. }
  destruct (Z.eq_dec (t mod DISCOUNT_PERIOD) 0) as [ Hm | Hm ].
  2:{ rewrite !factor_off_period by exact Hm. lra. }
  destruct (Z.eq_dec t 0) as [ -> | Hne ].
  { rewrite !factor_epoch_0 by lra. lra. }
  assert (Ht1 : (1 <= t)%Z) by lia.
  rewrite (factor_neg_regret t r Hin Hm Hr), (factor_pos_regret t r' Hin Hm Hr').
  pose proof (periodsR_pos t Ht1) as Hx.
  apply squash_le.
  - apply Rlt_le. apply (powfR_pos _ _ Hx).
  - apply powfR_exp_le; [ apply periodsR_ge_1; assumption | exact omega_le_alpha ].
Qed.

(* ---------- the run over R: transcription of Proofs/C19_Regret.v ---------- *)
Lemma regret_generalR : forall drs acc,
  regret_runR acc drs = acc * prodR (map fst drs) + sum_regretR drs.
Proof.
  induction drs as [ | [ d r ] rest IH ]; intros acc.
  - cbn [regret_runR map prodR sum_regretR]. ring.
  - cbn [regret_runR map prodR sum_regretR fst]. rewrite IH. unfold accumulateR. ring.
Qed.

Lemma weightR_cons_0 : forall x rest, weightR (x :: rest) 0 = prodR (map fst rest).
Proof. reflexivity. Qed.
Lemma weightR_cons_S : forall x rest s, weightR (x :: rest) (S s) = weightR rest s.
Proof. reflexivity. Qed.

Lemma sumR_map_ext : forall (A : Type) (f h : A -> R) (l : list A),
  (forall x, In x l -> f x = h x) -> sumR (map f l) = sumR (map h l).
Proof.
  intros A f h l. induction l as [ | x r IH ]; intros Hfh.
  - reflexivity.
  - cbn [map sumR]. rewrite (Hfh x) by (left; reflexivity).
    rewrite IH by (intros y Hy; apply Hfh; right; exact Hy). reflexivity.
Qed.

Lemma sum_regret_weightedR : forall drs, sum_regretR drs = sum_weightedR drs.
Proof.
  induction drs as [ | [ d r ] rest IH ].
  - reflexivity.
  - unfold sum_weightedR. cbn [length seq map sumR sum_regretR].
    rewrite <- seq_shift, map_map.
    rewrite IH. unfold sum_weightedR.
    rewrite weightR_cons_0. unfold regret_atR at 1. cbn [nth snd].
    apply Rplus_eq_compat_l. apply sumR_map_ext. intros s Hs. rewrite weightR_cons_S. unfold regret_atR. cbn [nth].
    reflexivity.
Qed.

Lemma regret_weightedR : forall acc drs,
  regret_runR acc drs = acc * prodR (map fst drs) + sum_weightedR drs.
Proof. intros acc drs. rewrite regret_generalR, sum_regret_weightedR. reflexivity. Qed.

Lemma Forall_skipn_nth : forall (A : Type) (Pr : A -> Prop) (def : A) (l : list A) (k : nat),
  (forall u, (k <= u < length l)%nat -> Pr (nth u l def)) -> Forall Pr (skipn k l).
Proof.
  intros A Pr def. induction l as [ | a l IH ]; intros k Hk.
  - rewrite skipn_nil. constructor.
  - destruct k as [ | k ].
    + cbn [skipn]. constructor.
      * apply (Hk 0%nat). cbn [length]. lia.
      * change l with (skipn 0 l). apply IH. intros u Hu.
        apply (Hk (S u)). cbn [length]. lia.
    + cbn [skipn]. apply IH. intros u Hu. apply (Hk (S u)). cbn [length]. lia.
Qed.

Lemma prodR_range : forall l, Forall (fun d => 0 < d <= 1) l -> 0 < prodR l <= 1.
Proof.
  intros l Hl. induction Hl as [ | d r [ Hd0 Hd1 ] Hr [ IH0 IH1 ] ].
  - cbn [prodR]. lra.
  - cbn [prodR]. split.
    + apply Rmult_lt_0_compat; assumption.
    + apply Rle_trans with (1 * prodR r); [ | lra ].
      apply Rmult_le_compat_r; lra.
Qed.
Lemma prodR_ones : forall l, Forall (fun d => d = 1) l -> prodR l = 1.
Proof.
  intros l Hl. induction Hl as [ | d r Hd Hr IH ].
  - reflexivity.
  - cbn [prodR]. rewrite Hd, IH. ring.
Qed.

Lemma weightR_factors : forall (Pr : R -> Prop) (drs : list (R * R)) (s : nat),
  (forall u, (S s <= u < length drs)%nat -> Pr (factor_atR drs u)) ->
  Forall Pr (map fst (skipn (S s) drs)).
Proof.
  intros Pr drs s Hu. rewrite Forall_map.
  apply (Forall_skipn_nth (R * R) (fun x => Pr (fst x)) (1, 0)). exact Hu.
Qed.

Lemma weightR_step : forall drs s, (S s < length drs)%nat ->
  weightR drs s = factor_atR drs (S s) * weightR drs (S s).
Proof.
  induction drs as [ | x rest IH ]; intros s Hs.
  - cbn [length] in Hs. lia.
  - destruct s as [ | s ].
    + destruct rest as [ | y rest' ]; [ cbn [length] in Hs; lia | ].
      unfold weightR, factor_atR. cbn [skipn map prodR nth]. reflexivity.
    + rewrite !weightR_cons_S. unfold factor_atR. cbn [nth].
      apply IH. cbn [length] in Hs. lia.
Qed.
Lemma weightR_beyond : forall drs s, (length drs <= S s)%nat -> weightR drs s = 1.
Proof. intros drs s Hs. unfold weightR. rewrite skipn_all2 by exact Hs. reflexivity. Qed.

Lemma weightR_range : forall drs,
  (forall u, (1 <= u < length drs)%nat -> 0 < factor_atR drs u <= 1) ->
  forall s, 0 < weightR drs s <= 1.
Proof.
  intros drs Hd s. unfold weightR. apply prodR_range.
  apply (weightR_factors (fun d => 0 < d <= 1)). intros u Hu. apply Hd. lia.
Qed.
Lemma weightR_monotone : forall drs,
  (forall u, (1 <= u < length drs)%nat -> 0 < factor_atR drs u <= 1) ->
  forall s, weightR drs s <= weightR drs (S s).
Proof.
  intros drs Hd s. destruct (Nat.lt_ge_cases (S s) (length drs)) as [ Hlt | Hge ].
  - rewrite (weightR_step drs s Hlt).
    destruct (Hd (S s)) as [ Hf0 Hf1 ]; [ lia | ].
    destruct (weightR_range drs Hd (S s)) as [ Hw0 Hw1 ].
    apply Rle_trans with (1 * weightR drs (S s)); [ | lra ].
    apply Rmult_le_compat_r; lra.
  - rewrite (weightR_beyond drs s Hge), (weightR_beyond drs (S s)) by lia. lra.
Qed.
Lemma weightR_after : forall drs (P : nat),
  (forall u, (P <= u < length drs)%nat -> factor_atR drs u = 1) ->
  forall s, (P <= S s)%nat -> weightR drs s = 1.
Proof.
  intros drs P Hone s Hs. unfold weightR. apply prodR_ones.
  apply (weightR_factors (fun d => d = 1)). intros u Hu. apply Hone. lia.
Qed.

(* the Q model and its transcription agree (Q2R is a ring morphism) *)
Definition pairQ2R (dr : Q * Q) : R * R := (Q2R (fst dr), Q2R (snd dr)).
Lemma regret_runR_of_Q : forall (drs : list (Q * Q)) (acc : Q),
  Q2R (regret_run acc drs) = regret_runR (Q2R acc) (map pairQ2R drs).
Proof.
  induction drs as [ | [ d r ] rest IH ]; intros acc.
  - reflexivity.
  - cbn [regret_run map regret_runR pairQ2R fst snd]. rewrite IH.
    unfold accumulate, accumulateR. rewrite Q2R_plus, Q2R_mult. reflexivity.
Qed.

(* ---------- the concrete factor list ---------- *)
Lemma concrete_length : forall trs, length (concrete_pairs trs) = length trs.
Proof. intros trs. unfold concrete_pairs. apply map_length. Qed.

Lemma nth_map_lt : forall (A B : Type) (f : A -> B) (l : list A) (u : nat) (d : A) (d' : B),
  (u < length l)%nat -> nth u (map f l) d' = f (nth u l d).
Proof.
  intros A B f l u d d' Hu. rewrite (nth_indep _ d' (f d)) by (rewrite map_length; exact Hu).
  apply map_nth.
Qed.

Lemma concrete_factor_at : forall trs u, (u < length trs)%nat ->
  factor_atR (concrete_pairs trs) u = regret_factor (epoch_at trs u) (snd (nth u trs (0%Z, 0))).
Proof.
  intros trs u Hu. unfold factor_atR, epoch_at, concrete_pairs.
  rewrite (nth_map_lt _ _ _ trs u (0%Z, 0) (1, 0) Hu). reflexivity.
Qed.
Lemma concrete_regret_at : forall trs u, (u < length trs)%nat ->
  regret_atR (concrete_pairs trs) u = snd (nth u trs (0%Z, 0)).
Proof.
  intros trs u Hu. unfold regret_atR, concrete_pairs.
  rewrite (nth_map_lt _ _ _ trs u (0%Z, 0) (1, 0) Hu). reflexivity.
Qed.

Lemma increasing_epoch_at : forall trs lo, increasing_from lo trs ->
  forall u, (u < length trs)%nat -> (lo + Z.of_nat u <= epoch_at trs u)%Z.
Proof.
  induction trs as [ | [ t r ] rest IH ]; intros lo Hinc u Hu.
  - cbn [length] in Hu. lia.
  - cbn [increasing_from] in Hinc. destruct Hinc as [ Hlo Hrest ].
    destruct u as [ | u ].
    + unfold epoch_at. cbn [nth fst]. lia.
    + unfold epoch_at. cbn [nth]. fold (epoch_at rest u).
      cbn [length] in Hu. pose proof (IH (t + 1)%Z Hrest u ltac:(lia)). lia.
Qed.
Lemma increasing_epoch_mono : forall trs lo, increasing_from lo trs ->
  forall u v, (u <= v < length trs)%nat -> (epoch_at trs u <= epoch_at trs v)%Z.
Proof.
  induction trs as [ | [ t r ] rest IH ]; intros lo Hinc u v Huv.
  - cbn [length] in Huv. lia.
  - cbn [increasing_from] in Hinc. destruct Hinc as [ Hlo Hrest ]. cbn [length] in Huv.
    destruct v as [ | v ].
    + assert (u = 0%nat) by lia. subst u. lia.
    + destruct u as [ | u ].
      * unfold epoch_at at 1. cbn [nth fst].
        pose proof (increasing_epoch_at rest (t + 1)%Z Hrest v ltac:(lia)) as Hv.
        unfold epoch_at. cbn [nth]. fold (epoch_at rest v). lia.
      * unfold epoch_at. cbn [nth]. apply (IH (t + 1)%Z Hrest). lia.
Qed.

Lemma concrete_factor_range : forall trs, increasing_from 0 trs ->
  forall u, (1 <= u < length (concrete_pairs trs))%nat ->
  0 < factor_atR (concrete_pairs trs) u <= 1.
Proof.
  intros trs Hinc u Hu. rewrite concrete_length in Hu.
  rewrite concrete_factor_at by lia. apply factor_range.
  pose proof (increasing_epoch_at trs 0%Z Hinc u ltac:(lia)). lia.
Qed.

Lemma regret_weights_concrete : forall trs : list (Z * R), increasing_from 0 trs ->
  let drs := concrete_pairs trs in
  sum_regretR drs = sum_weightedR drs /\
  (forall s, 0 < weightR drs s <= 1) /\
  (forall s, weightR drs s <= weightR drs (S s)) /\
  (forall s, ((S s < length trs)%nat -> (CFR_DISCOUNT_PHASE <= epoch_at trs (S s))%Z) ->
             weightR drs s = 1).
Proof.
  intros trs Hinc drs. pose proof (concrete_factor_range trs Hinc) as Hd. fold drs in Hd.
  split; [ apply sum_regret_weightedR | ].
  split; [ apply weightR_range; exact Hd | ].
  split; [ apply weightR_monotone; exact Hd | ].
  intros s Hs. apply (weightR_after drs (S s)); [ | lia ].
  intros u Hu. unfold drs in Hu |- *. rewrite concrete_length in Hu.
  rewrite concrete_factor_at by lia. apply factor_after_phase.
  pose proof (Hs ltac:(lia)) as Hph.
  pose proof (increasing_epoch_mono trs 0%Z Hinc (S s) u ltac:(lia)). lia.
Qed.

Lemma regret_weighted_sum_concrete : forall (acc : R) (trs : list (Z * R)),
  concrete_run acc trs =
    acc * prodR (map fst (concrete_pairs trs)) + sum_weightedR (concrete_pairs trs).
Proof. intros acc trs. unfold concrete_run. apply regret_weightedR. Qed.

(* an update at epoch 0 with a non-zero regret erases whatever the accumulator held *)
Lemma regret_epoch0_erases : forall (acc r : R) (trs : list (Z * R)), r <> 0 ->
  concrete_run acc ((0%Z, r) :: trs) = sum_weightedR (concrete_pairs ((0%Z, r) :: trs)).
Proof.
  intros acc r trs Hr. rewrite regret_weighted_sum_concrete.
  unfold concrete_pairs at 1. cbn [map fst snd prodR]. rewrite (factor_epoch_0 r Hr). ring.
Qed.

Lemma regret_phase_concrete : forall (trs : list (Z * R)) (s : nat), increasing_from 0 trs ->
  ((S s < length trs)%nat -> in_discount_phase (epoch_at trs (S s)) = false) ->
  weightR (concrete_pairs trs) s = 1.
Proof.
  intros trs s Hinc Hs. destruct (regret_weights_concrete trs Hinc) as (_ & _ & _ & H).
  apply H. intros Hlt. pose proof (Hs Hlt) as Hph.
  unfold in_discount_phase in Hph. apply Z.ltb_ge in Hph. exact Hph.
Qed.

(* ---------- consecutive epochs t0, t0 + 1, ... ---------- *)
Lemma from_epoch_length : forall rs t0, length (from_epoch t0 rs) = length rs.
Proof. induction rs as [ | r rest IH ]; intros t0; [ reflexivity | cbn [from_epoch length]; rewrite IH; reflexivity ]. Qed.
Lemma from_epoch_increasing : forall rs t0, increasing_from t0 (from_epoch t0 rs).
Proof.
  induction rs as [ | r rest IH ]; intros t0; cbn [from_epoch increasing_from]; [ exact I | ].
  split; [ lia | apply IH ].
Qed.
Lemma increasing_weaken : forall trs lo lo', (lo <= lo')%Z -> increasing_from lo' trs -> increasing_from lo trs.
Proof.
  intros [ | [ t r ] rest ] lo lo' Hl Hinc; [ exact I | ].
  cbn [increasing_from] in *. destruct Hinc as [ H1 H2 ]. split; [ lia | exact H2 ].
Qed.
Lemma from_epoch_at : forall rs t0 u, (u < length rs)%nat ->
  epoch_at (from_epoch t0 rs) u = (t0 + Z.of_nat u)%Z /\ snd (nth u (from_epoch t0 rs) (0%Z, 0)) = nth u rs 0.
Proof.
  induction rs as [ | r rest IH ]; intros t0 u Hu.
  - cbn [length] in Hu. lia.
  - destruct u as [ | u ].
    + unfold epoch_at. cbn [from_epoch nth fst snd]. split; [ lia | reflexivity ].
    + cbn [length] in Hu. unfold epoch_at. cbn [from_epoch nth].
      destruct (IH (t0 + 1)%Z u ltac:(lia)) as [ H1 H2 ]. unfold epoch_at in H1.
      rewrite H1, H2. split; [ lia | reflexivity ].
Qed.

Lemma regret_weights_consecutive : forall (t0 : Z) (rs : list R), (0 <= t0)%Z ->
  let drs := concrete_pairs (from_epoch t0 rs) in
  (forall u, (u < length rs)%nat ->
     factor_atR drs u = regret_factor (t0 + Z.of_nat u) (nth u rs 0) /\ regret_atR drs u = nth u rs 0) /\
  sum_regretR drs = sum_weightedR drs /\
  (forall s, 0 < weightR drs s <= 1) /\
  (forall s, weightR drs s <= weightR drs (S s)) /\
  (forall s, (CFR_DISCOUNT_PHASE <= t0 + Z.of_nat (S s))%Z -> weightR drs s = 1).
Proof.
  intros t0 rs Ht0 drs.
  assert (Hinc : increasing_from 0 (from_epoch t0 rs)).
  { apply (increasing_weaken _ 0%Z t0 Ht0). apply from_epoch_increasing. }
  destruct (regret_weights_concrete _ Hinc) as (H1 & H2 & H3 & H4). fold drs in H1, H2, H3, H4.
  split.
  { intros u Hu. unfold drs.
    rewrite concrete_factor_at, concrete_regret_at by (rewrite from_epoch_length; exact Hu).
    destruct (from_epoch_at rs t0 u Hu) as [ -> -> ]. split; reflexivity. }
  split; [ exact H1 | ]. split; [ exact H2 | ]. split; [ exact H3 | ].
  intros s Hs. apply H4. rewrite from_epoch_length. intros Hlt.
  destruct (from_epoch_at rs t0 (S s) Hlt) as [ -> _ ]. exact Hs.
Qed.

Lemma regret_phase_consecutive : forall (rs : list R) (s : nat),
  (s < length rs)%nat -> in_discount_phase (Z.of_nat (S s)) = false ->
  weightR (concrete_pairs (from_epoch 0 rs)) s = 1.
Proof.
  intros rs s _ Hph.
  destruct (regret_weights_consecutive 0%Z rs ltac:(lia)) as (_ & _ & _ & _ & H).
  apply H. unfold in_discount_phase in Hph. apply Z.ltb_ge in Hph. lia.
Qed.

(* ---------- examples with concrete epochs ---------- *)
Lemma alphaR_value : alphaR = 1 + / 2.
Proof. unfold alphaR, DISCOUNT_ALPHA, Q2R. cbn [Qnum Qden]. lra. Qed.
Lemma omegaR_value : omegaR = / 2.
Proof. unfold omegaR, DISCOUNT_OMEGA, Q2R. cbn [Qnum Qden]. lra. Qed.
Lemma periodsR_value : forall t, periodsR t = IZR t.
Proof. intros t. unfold periodsR, DISCOUNT_PERIOD. field. Qed.
Lemma on_period_any : forall t, (t mod DISCOUNT_PERIOD = 0)%Z.
Proof. intros t. unfold DISCOUNT_PERIOD. apply Z.mod_1_r. Qed.

Lemma Rpower_1_base : forall y, Rpower 1 y = 1.
Proof. intros y. unfold Rpower. rewrite ln_1, Rmult_0_r. apply exp_0. Qed.
Lemma sqrt_4 : sqrt 4 = 2.
Proof. replace 4 with (2 * 2) by lra. apply sqrt_square. lra. Qed.
Lemma pow_4_omega : powfR 4 omegaR = 2.
Proof.
  destruct (powfR_pos 4 omegaR ltac:(lra)) as [ -> _ ].
  rewrite omegaR_value, Rpower_sqrt by lra. exact sqrt_4.
Qed.
Lemma pow_4_alpha : powfR 4 alphaR = 8.
Proof.
  destruct (powfR_pos 4 alphaR ltac:(lra)) as [ -> _ ].
  rewrite alphaR_value, Rpower_plus, Rpower_1, Rpower_sqrt by lra. rewrite sqrt_4. lra.
Qed.

(* epoch 1: x = 1^a = 1, factor 1/2 whatever the sign; epoch 4: 4^(3/2) = 8 -> 8/9, 4^(1/2) = 2 -> 2/3 *)
Lemma ex_factor_values :
  (forall r, r <> 0 -> regret_factor 0 r = 0) /\
  (forall r, r <> 0 -> regret_factor 1 r = / 2) /\
  regret_factor 4 5 = 8 / 9 /\ regret_factor 4 (-5) = 2 / 3 /\ regret_factor 4 0 = 1 /\
  regret_factor 389 7 < 1 /\ regret_factor 390 7 = 1 /\ regret_factor 1000 (-7) = 1.
Proof.
  split; [ exact factor_epoch_0 | ].
  split.
  { intros r Hr. destruct (Rtotal_order r 0) as [ Hlt | [ Heq | Hgt ] ]; [ | contradiction | ].
    - rewrite (factor_neg_regret 1 r eq_refl (on_period_any 1) Hlt), periodsR_value.
      destruct (powfR_pos 1 omegaR ltac:(lra)) as [ -> _ ]. rewrite Rpower_1_base. unfold squash. lra.
    - rewrite (factor_pos_regret 1 r eq_refl (on_period_any 1) Hgt), periodsR_value.
      destruct (powfR_pos 1 alphaR ltac:(lra)) as [ -> _ ]. rewrite Rpower_1_base. unfold squash. lra. }
  split.
  { rewrite (factor_pos_regret 4 5 eq_refl (on_period_any 4) ltac:(lra)), periodsR_value, pow_4_alpha.
    unfold squash. lra. }
  split.
  { rewrite (factor_neg_regret 4 (-5) eq_refl (on_period_any 4) ltac:(lra)), periodsR_value, pow_4_omega.
    unfold squash. lra. }
  split; [ apply factor_zero_regret | ].
  split.
  { rewrite (factor_pos_regret 389 7 eq_refl (on_period_any 389) ltac:(lra)).
    apply squash_range. apply powfR_pos. apply periodsR_pos. lia. }
  split; apply factor_after_phase; discriminate.
Qed.

(* an information set updated at epochs 0, 1, 4 and 390 with regrets 5, -3, -2, 1:
   factors 0, 1/2, 2/3, 1; weights 1/3, 2/3, 1, 1; the initial content is erased at epoch 0 *)
Definition ex_trs : list (Z * R) := [(0%Z, 5); (1%Z, -3); (4%Z, -2); (390%Z, 1)].
Lemma ex_trs_increasing : increasing_from 0 ex_trs.
Proof. cbn [ex_trs increasing_from]. repeat split; lia. Qed.
Lemma ex_trs_pairs : concrete_pairs ex_trs = [(0, 5); (/ 2, -3); (2 / 3, -2); (1, 1)].
Proof.
  destruct ex_factor_values as (H0 & H1 & _).
  unfold concrete_pairs, ex_trs. cbn [map fst snd].
  rewrite (H0 5) by lra. rewrite (H1 (-3)) by lra.
  rewrite (factor_neg_regret 4 (-2) eq_refl (on_period_any 4) ltac:(lra)), periodsR_value, pow_4_omega.
  rewrite (factor_after_phase 390 1) by discriminate.
  unfold squash. replace (2 / (2 + 1)) with (2 / 3) by lra. reflexivity.
Qed.
Lemma ex_trs_numbers :
  map (weightR (concrete_pairs ex_trs)) [0; 1; 2; 3]%nat = [/ 3; 2 / 3; 1; 1] /\
  forall acc, concrete_run acc ex_trs = 5 * / 3 + (-3) * (2 / 3) + (-2) * 1 + 1 * 1.
Proof.
  split.
  - rewrite ex_trs_pairs. unfold weightR. cbn [map skipn fst prodR].
    repeat (apply (f_equal2 (@cons R)); [ lra | ]). reflexivity.
  - intros acc. unfold concrete_run. rewrite ex_trs_pairs.
    cbn [regret_runR]. unfold accumulateR. lra.
Qed.
Lemma ex_consecutive_hyp : (0 <= 388)%Z /\ (CFR_DISCOUNT_PHASE <= 388 + Z.of_nat 2)%Z.
Proof. split; [ lia | discriminate ]. Qed.
(* epochs 388, 389, 390, 391: the regret of epoch 388 is still discounted by the factor of epoch 389,
   that of epoch 389 is kept whole *)
Lemma ex_consecutive_numbers :
  let drs := concrete_pairs (from_epoch 388 [1; 1; 1; 1]) in
  weightR drs 0 < 1 /\ weightR drs 1 = 1 /\ weightR drs 2 = 1.
Proof.
  intros drs.
  destruct (regret_weights_consecutive 388%Z [1; 1; 1; 1] ltac:(lia)) as (_ & _ & _ & _ & H).
  fold drs in H. split; [ | split; apply H; discriminate ].
  assert (Hp : drs = [(regret_factor 388 1, 1); (regret_factor 389 1, 1); (regret_factor 390 1, 1);
                      (regret_factor 391 1, 1)]) by reflexivity.
  rewrite Hp. unfold weightR. cbn [map skipn fst prodR].
  rewrite (factor_after_phase 390 1), (factor_after_phase 391 1) by discriminate.
  destruct ex_factor_values as (_ & _ & _ & _ & _ & H389 & _).
  assert (Heq : regret_factor 389 1 = regret_factor 389 7).
  { rewrite (factor_pos_regret 389 1 eq_refl (on_period_any 389) ltac:(lra)).
    rewrite (factor_pos_regret 389 7 eq_refl (on_period_any 389) ltac:(lra)). reflexivity. }
  rewrite Heq. lra.
Qed.
