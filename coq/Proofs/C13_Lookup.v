(* Proofs/C13_Lookup.v -- Layer::lookup: the i-th isomorphism class is paired with the bucket of the
   centroid nearest to the i-th point; zip truncates. *)
From Coq Require Import Arith NArith List Bool Lia.
From RP Require Import Base.Bits Model.Codec Model.Kmeans Spec.SpecKmeans.
From RP Require Import Proofs.C13_Neighborhood Proofs.C13_Next.
Import ListNotations.

(* ---------- opt_map_all ---------- *)

Lemma opt_map_all_cons : forall (A B : Type) (f : A -> option B) x l,
  opt_map_all f (x :: l) =
  match f x, opt_map_all f l with Some y, Some r => Some (y :: r) | _, _ => None end.
Proof. reflexivity. Qed.

Lemma opt_map_all_spec : forall (A B : Type) (f : A -> option B) l r,
  opt_map_all f l = Some r ->
  length r = length l /\
  (forall i x, nth_error l i = Some x -> exists y, f x = Some y /\ nth_error r i = Some y).
Proof.
  intros A B f. induction l as [|x l IH]; intros r H.
  - cbn in H. injection H as H. subst r. split; [reflexivity|].
    intros i x Hx. destruct i; discriminate Hx.
  - rewrite opt_map_all_cons in H.
    destruct (f x) as [y|] eqn:Ey; [|discriminate H].
    destruct (opt_map_all f l) as [r'|] eqn:Er; [|discriminate H].
    injection H as H. subst r. destruct (IH r' eq_refl) as [Hl Hn].
    split; [cbn [length]; rewrite Hl; reflexivity|].
    intros i z Hz. destruct i as [|i].
    + cbn [nth_error] in Hz. injection Hz as Hz. subst z. exists y. split; [exact Ey | reflexivity].
    + cbn [nth_error] in Hz. cbn [nth_error]. apply Hn. exact Hz.
Qed.

Lemma opt_map_all_total : forall (A B : Type) (f : A -> option B) l,
  (forall x, In x l -> exists y, f x = Some y) -> exists r, opt_map_all f l = Some r.
Proof.
  intros A B f. induction l as [|x l IH]; intros H.
  - exists []. reflexivity.
  - destruct (H x (or_introl eq_refl)) as [y Hy].
    destruct (IH (fun z Hz => H z (or_intror Hz))) as [r Hr].
    exists (y :: r). rewrite opt_map_all_cons, Hy, Hr. reflexivity.
Qed.

Lemma opt_map_all_none : forall (A B : Type) (f : A -> option B) l x,
  In x l -> f x = None -> opt_map_all f l = None.
Proof.
  intros A B f. induction l as [|z l IH]; intros x Hin Hx.
  - destruct Hin.
  - rewrite opt_map_all_cons. destruct Hin as [Hin | Hin].
    + subst z. rewrite Hx. reflexivity.
    + rewrite (IH x Hin Hx). destruct (f z); reflexivity.
Qed.

Lemma opt_map_all_map : forall (A B : Type) (e : A -> option B) (h : A -> B) l es,
  opt_map_all (fun x => x) (map e l) = Some es ->
  (forall x y, e x = Some y -> y = h x) -> es = map h l.
Proof.
  intros A B e h. induction l as [|x l IH]; intros es H He.
  - cbn in H. injection H as H. subst es. reflexivity.
  - cbn [map] in H. rewrite opt_map_all_cons in H.
    destruct (e x) as [y|] eqn:Ey; [|discriminate H].
    destruct (opt_map_all (fun x => x) (map e l)) as [r|] eqn:Er; [|discriminate H].
    injection H as H. subst es. cbn [map]. rewrite (He x y Ey), (IH r eq_refl He). reflexivity.
Qed.

Lemma nth_error_combine : forall (A B : Type) (l : list A) (l' : list B) i a b,
  nth_error l i = Some a -> nth_error l' i = Some b -> nth_error (combine l l') i = Some (a, b).
Proof.
  intros A B. induction l as [|x r IH]; intros l' i a b Ha Hb.
  - destruct i; discriminate Ha.
  - destruct l' as [|y r']; [destruct i; discriminate Hb|].
    destruct i as [|i].
    + cbn [nth_error] in Ha, Hb. injection Ha as Ha. injection Hb as Hb. subst. reflexivity.
    + cbn [combine nth_error]. apply IH; assumption.
Qed.

(* ---------- abs_make is total on the four streets ---------- *)

Lemma abs_make_some : forall street i, (street <= 3)%N -> exists a, abs_make street i = Some a.
Proof.
  intros street i Hs.
  assert (Hc : street = 0%N \/ street = 1%N \/ street = 2%N \/ street = 3%N) by lia.
  unfold abs_make.
  destruct Hc as [H | [H | [H | H]]]; subst street.
  - change (variant_of_street 0) with (Some Preflop). eexists. reflexivity.
  - change (variant_of_street 1) with (Some Learned). eexists. reflexivity.
  - change (variant_of_street 2) with (Some Learned). eexists. reflexivity.
  - change (variant_of_street 3) with (Some Percent). eexists. reflexivity.
Qed.

Lemma bucket_code_some : forall street i a,
  abs_make street (N.of_nat i) = Some a -> bucket_code street i = abits a.
Proof. intros street i a H. unfold bucket_code. rewrite H. reflexivity. Qed.

(* ---------- Layer::lookup ---------- *)

Section Lookup.
Variable F : Type.
Variable flt : F -> F -> bool.

Definition lookup_entry (street : N) (oc : obs * list (option F)) : option (obs * N) :=
  match neighborhood F flt (snd oc) with
  | Some (j, _) => match abs_make street (N.of_nat j) with
                   | Some a => Some (fst oc, abits a) | None => None end
  | None => None
  end.

Lemma lookup_step_eq : forall street classes columns,
  lookup_step F flt street classes columns = opt_map_all (lookup_entry street) (combine classes columns).
Proof. reflexivity. Qed.

Theorem lookup_spec : forall street classes columns l,
  lookup_step F flt street classes columns = Some l ->
  length l = Nat.min (length classes) (length columns) /\
  (forall i o c, nth_error classes i = Some o -> nth_error columns i = Some c ->
     exists x a, neighborhood F flt c = Some (nearest flt c, x) /\
                 abs_make street (N.of_nat (nearest flt c)) = Some a /\
                 nth_error l i = Some (o, abits a)).
Proof.
  intros street classes columns l H. rewrite lookup_step_eq in H.
  destruct (opt_map_all_spec _ _ _ _ _ H) as [Hl Hn].
  split; [rewrite Hl; apply combine_length|].
  intros i o c Ho Hc.
  destruct (Hn i (o, c) (nth_error_combine _ _ _ _ _ _ _ Ho Hc)) as (y & Hy & Hi).
  unfold lookup_entry in Hy. cbn [fst snd] in Hy.
  destruct (neighborhood F flt c) as [[j x]|] eqn:En; [|discriminate Hy].
  destruct (abs_make street (N.of_nat j)) as [a|] eqn:Ea; [|discriminate Hy].
  injection Hy as Hy. subst y.
  rewrite (nearest_of F flt c j x En). exists x, a. repeat split; assumption.
Qed.

Theorem lookup_aligned : forall street classes columns l,
  length classes = length columns ->
  lookup_step F flt street classes columns = Some l ->
  length l = length classes /\
  (forall i o c, nth_error classes i = Some o -> nth_error columns i = Some c ->
     exists x a, neighborhood F flt c = Some (nearest flt c, x) /\
                 abs_make street (N.of_nat (nearest flt c)) = Some a /\
                 nth_error l i = Some (o, abits a)).
Proof.
  intros street classes columns l Hlen H.
  destruct (lookup_spec street classes columns l H) as [Hl Hn].
  split; [rewrite Hl, Hlen; apply Nat.min_id | exact Hn].
Qed.

Theorem lookup_truncates : forall street classes columns l,
  lookup_step F flt street classes columns = Some l ->
  length l = Nat.min (length classes) (length columns).
Proof. intros street classes columns l H. exact (proj1 (lookup_spec street classes columns l H)). Qed.

Theorem lookup_nan : forall street classes columns i o c,
  nth_error classes i = Some o -> nth_error columns i = Some c ->
  (In None c \/ c = []) ->
  lookup_step F flt street classes columns = None.
Proof.
  intros street classes columns i o c Ho Hc Hbad. rewrite lookup_step_eq.
  apply (opt_map_all_none _ _ _ _ (o, c)).
  - exact (in_combine_nth_error _ _ _ _ _ _ _ Ho Hc).
  - unfold lookup_entry. cbn [snd].
    assert (Hn : neighborhood F flt c = None).
    { destruct Hbad as [Hbad | Hbad]; [apply neighborhood_nan; exact Hbad | subst c; reflexivity]. }
    rewrite Hn. reflexivity.
Qed.

Hypothesis Hswo : strict_weak_order flt.

Theorem lookup_total : forall street classes columns,
  (street <= 3)%N ->
  (forall c, In c columns -> ~ In None c /\ c <> []) ->
  exists l, lookup_step F flt street classes columns = Some l.
Proof.
  intros street classes columns Hs Hgood. rewrite lookup_step_eq.
  apply opt_map_all_total. intros [o c] Hin. apply in_combine_r in Hin.
  destruct (Hgood c Hin) as [Hsome Hne].
  destruct (neighborhood_first_min F flt Hswo c Hsome Hne) as (j & x & Hn & _).
  unfold lookup_entry. cbn [fst snd]. rewrite Hn.
  destruct (abs_make_some street (N.of_nat j) Hs) as [a Ha]. rewrite Ha.
  eexists. reflexivity.
Qed.

End Lookup.
