(* Proofs/C07_BucketF32.v -- the binary32 river bucket (Model/BucketF32.bucket32) against the exact
   "nearest percent, halves up" integer bucket_exact, on the whole reachable range sum <= 990
   (C07_range_standard), by finite reflection sharded over Proofs/C07_BucketF32_s00..s11.v.
   RESULT: the equality bucket32 = bucket_exact is FALSE at 36 pairs (exact ties with ratio 21/40,
   53/200, 59/200 or 117/200, where binary32 falls just below the half and rounds down).  Proved here:
   the complete characterisation, the equality away from those ties, the refutation, and what stays
   true everywhere: bucket32 is a nearest integer to NN*won/sum, lies in [0, NN], is monotone in won. *)
From Coq Require Import ZArith NArith List Bool Lia.
From RP Require Import Gen.GenLib Model.BetF32 Model.BucketF32 Proofs.C07_BucketF32_chk.
From RP Require Proofs.C07_BucketF32_s00 Proofs.C07_BucketF32_s01 Proofs.C07_BucketF32_s02
  Proofs.C07_BucketF32_s03 Proofs.C07_BucketF32_s04 Proofs.C07_BucketF32_s05 Proofs.C07_BucketF32_s06
  Proofs.C07_BucketF32_s07 Proofs.C07_BucketF32_s08 Proofs.C07_BucketF32_s09 Proofs.C07_BucketF32_s10
  Proofs.C07_BucketF32_s11.
Import ListNotations.
Open Scope Z_scope.

Lemma all_pairs_ok : forall won sum, 0 <= won <= sum -> sum <= 990 -> pair_ok won sum.
Proof.
  intros won sum Hw Hs.
  destruct (Z_lt_dec sum 286) as [H0|H0]; [apply C07_BucketF32_s00.rows; lia|].
  destruct (Z_lt_dec sum 405) as [H1|H1]; [apply C07_BucketF32_s01.rows; lia|].
  destruct (Z_lt_dec sum 496) as [H2|H2]; [apply C07_BucketF32_s02.rows; lia|].
  destruct (Z_lt_dec sum 572) as [H3|H3]; [apply C07_BucketF32_s03.rows; lia|].
  destruct (Z_lt_dec sum 640) as [H4|H4]; [apply C07_BucketF32_s04.rows; lia|].
  destruct (Z_lt_dec sum 701) as [H5|H5]; [apply C07_BucketF32_s05.rows; lia|].
  destruct (Z_lt_dec sum 757) as [H6|H6]; [apply C07_BucketF32_s06.rows; lia|].
  destruct (Z_lt_dec sum 809) as [H7|H7]; [apply C07_BucketF32_s07.rows; lia|].
  destruct (Z_lt_dec sum 858) as [H8|H8]; [apply C07_BucketF32_s08.rows; lia|].
  destruct (Z_lt_dec sum 905) as [H9|H9]; [apply C07_BucketF32_s09.rows; lia|].
  destruct (Z_lt_dec sum 949) as [H10|H10]; [apply C07_BucketF32_s10.rows; lia|].
  apply C07_BucketF32_s11.rows; lia.
Qed.

(* ---------- the complete description on the reachable range ---------- *)
Theorem bucket32_characterised : forall won sum, 0 <= won <= sum -> sum <= 990 ->
  bucket32 won sum = if rounds_down_tie won sum then bucket_exact won sum - 1 else bucket_exact won sum.
Proof.
  intros won sum Hw Hs. pose proof (all_pairs_ok won sum Hw Hs) as H. unfold pair_ok in H.
  destruct (rounds_down_tie won sum); [exact (proj1 H)|exact H].
Qed.
Lemma rounds_down_is_tie : forall won sum, 0 <= won <= sum -> sum <= 990 ->
  rounds_down_tie won sum = true -> is_tie won sum = true /\ 1 <= bucket_exact won sum.
Proof.
  intros won sum Hw Hs Ht. pose proof (all_pairs_ok won sum Hw Hs) as H. unfold pair_ok in H.
  rewrite Ht in H. exact (proj2 H).
Qed.

(* FALSE as asked:
     Theorem bucket32_exact : forall won sum, 0 <= won <= sum -> sum <= 990 ->
       bucket32 won sum = bucket_exact won sum.
   What is missing: nothing can be added, the implementation differs at the ties below. *)
Theorem bucket32_exact_partial : forall won sum, 0 <= won <= sum -> sum <= 990 ->
  rounds_down_tie won sum = false -> bucket32 won sum = bucket_exact won sum.
Proof.
  intros won sum Hw Hs Ht. rewrite (bucket32_characterised won sum Hw Hs), Ht. reflexivity.
Qed.
Theorem bucket32_exact_refuted : forall won sum, 0 <= won <= sum -> sum <= 990 ->
  rounds_down_tie won sum = true ->
  bucket32 won sum = bucket_exact won sum - 1 /\ bucket32 won sum <> bucket_exact won sum.
Proof.
  intros won sum Hw Hs Ht. rewrite (bucket32_characterised won sum Hw Hs), Ht. split; [reflexivity|lia].
Qed.
(* the smallest instance of each ratio, and the largest pair *)
Lemma bucket32_refuted_instances :
  (bucket32 21 40 = 52 /\ bucket_exact 21 40 = 53) /\ (bucket32 53 200 = 26 /\ bucket_exact 53 200 = 27) /\
  (bucket32 59 200 = 29 /\ bucket_exact 59 200 = 30) /\ (bucket32 117 200 = 58 /\ bucket_exact 117 200 = 59) /\
  (bucket32 504 960 = 52 /\ bucket_exact 504 960 = 53).
Proof. vm_compute. repeat split; reflexivity. Qed.
(* all of them: the pairs in range at which rounds_down_tie holds *)
Definition down_pairs : list (Z * Z) :=
  flat_map (fun pq => map (fun k => (fst pq * Z.of_nat k, snd pq * Z.of_nat k)) (seq 1 (Z.to_nat (990 / snd pq))))
           tie_down_ratios.
Lemma down_pairs_count : length down_pairs = 36%nat.
Proof. vm_compute. reflexivity. Qed.
Lemma down_pairs_refute : forallb (fun ws => (fst ws <=? snd ws) && (snd ws <=? 990) &&
  rounds_down_tie (fst ws) (snd ws) && (bucket32 (fst ws) (snd ws) =? bucket_exact (fst ws) (snd ws) - 1)) down_pairs = true.
Proof. vm_compute. reflexivity. Qed.

(* ---------- what holds everywhere on the range ---------- *)
Lemma NN_pos : 0 < NN.
Proof. reflexivity. Qed.
Lemma is_tie_eq : forall won sum, 0 < sum -> is_tie won sum = true ->
  2 * NN * won + sum = 2 * sum * bucket_exact won sum.
Proof.
  intros won sum Hs H. unfold is_tie in H. apply andb_true_iff in H. destruct H as [_ H].
  apply Z.eqb_eq in H. unfold bucket_exact. replace (sum =? 0) with false by (symmetry; apply Z.eqb_neq; lia).
  pose proof (Z.div_mod (2 * NN * won + sum) (2 * sum) ltac:(lia)) as E. rewrite H in E. lia.
Qed.
Lemma exact_bounds : forall won sum, 0 < sum ->
  2 * sum * bucket_exact won sum <= 2 * NN * won + sum < 2 * sum * bucket_exact won sum + 2 * sum.
Proof.
  intros won sum Hs. unfold bucket_exact. replace (sum =? 0) with false by (symmetry; apply Z.eqb_neq; lia).
  pose proof (Z.div_mod (2 * NN * won + sum) (2 * sum) ltac:(lia)) as E.
  pose proof (Z.mod_pos_bound (2 * NN * won + sum) (2 * sum) ltac:(lia)) as B. lia.
Qed.
Lemma rounds_down_sum_pos : forall won sum, rounds_down_tie won sum = true -> sum <> 0.
Proof.
  intros won sum H. unfold rounds_down_tie in H. apply andb_true_iff in H. destruct H as [H _].
  apply negb_true_iff in H. apply Z.eqb_neq in H. exact H.
Qed.

(* bucket32 is a nearest integer to NN * won / sum: within one half *)
Theorem bucket32_nearest : forall won sum, 0 <= won <= sum -> sum <= 990 -> 0 < sum ->
  2 * sum * bucket32 won sum - sum <= 2 * NN * won <= 2 * sum * bucket32 won sum + sum.
Proof.
  intros won sum Hw Hs Hp. rewrite (bucket32_characterised won sum Hw Hs).
  pose proof (exact_bounds won sum Hp) as B.
  destruct (rounds_down_tie won sum) eqn:Ht.
  - destruct (rounds_down_is_tie won sum Hw Hs Ht) as [Hi _].
    pose proof (is_tie_eq won sum Hp Hi) as E. lia.
  - lia.
Qed.

Corollary bucket32_nearest_abs : forall won sum, 0 <= won <= sum -> sum <= 990 ->
  Z.abs (2 * NN * won - 2 * sum * bucket32 won sum) <= sum.
Proof.
  intros won sum Hw Hs. destruct (Z.eq_dec sum 0) as [->|Hne].
  - assert (won = 0) as -> by lia. lia.
  - pose proof (bucket32_nearest won sum Hw Hs ltac:(lia)) as B. lia.
Qed.

Lemma exact_range : forall won sum, 0 <= won <= sum -> 0 <= bucket_exact won sum <= NN.
Proof.
  intros won sum Hw. pose proof NN_pos as HN. unfold bucket_exact. destruct (Z.eqb_spec sum 0) as [Hz|Hz].
  - split; [apply Z.div_pos; lia|]. apply Z.div_le_upper_bound; lia.
  - split; [apply Z.div_pos; nia|].
    assert ((2 * NN * won + sum) / (2 * sum) < NN + 1) as Hlt by (apply Z.div_lt_upper_bound; [lia|nia]). lia.
Qed.
Theorem bucket32_range : forall won sum, 0 <= won <= sum -> sum <= 990 -> 0 <= bucket32 won sum <= NN.
Proof.
  intros won sum Hw Hs. rewrite (bucket32_characterised won sum Hw Hs).
  pose proof (exact_range won sum Hw) as R.
  destruct (rounds_down_tie won sum) eqn:Ht; [|exact R].
  destruct (rounds_down_is_tie won sum Hw Hs Ht) as [_ H1]. lia.
Qed.

Lemma exact_monotone : forall won won' sum, 0 <= won <= won' -> won' <= sum ->
  bucket_exact won sum <= bucket_exact won' sum.
Proof.
  intros won won' sum Hw Hw'. pose proof NN_pos as HN. unfold bucket_exact.
  destruct (Z.eqb_spec sum 0) as [Hz|Hz]; [lia|]. apply Z.div_le_mono; [lia|nia].
Qed.
Theorem bucket32_monotone : forall won won' sum, 0 <= won <= won' -> won' <= sum -> sum <= 990 ->
  bucket32 won sum <= bucket32 won' sum.
Proof.
  intros won won' sum Hw Hw' Hs.
  destruct (Z.eq_dec won won') as [->|Hne]; [lia|].
  pose proof (exact_monotone won won' sum Hw Hw') as M.
  rewrite (bucket32_characterised won sum ltac:(lia) Hs), (bucket32_characterised won' sum ltac:(lia) Hs).
  destruct (rounds_down_tie won' sum) eqn:Ht'.
  - (* won' is an exact tie: bucket_exact jumps there, so the strictly smaller won is strictly below *)
    destruct (rounds_down_is_tie won' sum ltac:(lia) Hs Ht') as [Hi _].
    pose proof (rounds_down_sum_pos _ _ Ht') as Hp.
    pose proof (is_tie_eq won' sum ltac:(lia) Hi) as E.
    pose proof (exact_bounds won sum ltac:(lia)) as B. pose proof NN_pos as HN.
    assert (bucket_exact won sum < bucket_exact won' sum) as Hlt by nia.
    destruct (rounds_down_tie won sum); lia.
  - destruct (rounds_down_tie won sum); lia.
Qed.

(* ---------- the instance of the bucket_of parameter ---------- *)
Lemma of_N_hyps : forall w n, (w <= n)%N -> (n <= 990)%N -> 0 <= Z.of_N w <= Z.of_N n /\ Z.of_N n <= 990.
Proof. intros w n Hw Hn. lia. Qed.
Theorem bucket_of32_characterised : forall w n, (w <= n)%N -> (n <= 990)%N ->
  bucket_of32 (w, n) = Z.to_N (if rounds_down_tie (Z.of_N w) (Z.of_N n)
                               then bucket_exact (Z.of_N w) (Z.of_N n) - 1 else bucket_exact (Z.of_N w) (Z.of_N n)).
Proof.
  intros w n Hw Hn. destruct (of_N_hyps w n Hw Hn) as [H1 H2]. unfold bucket_of32.
  rewrite (bucket32_characterised _ _ H1 H2). reflexivity.
Qed.
(* FALSE as asked (same 36 pairs):
     forall w n, (w <= n)%N -> (n <= 990)%N -> bucket_of32 (w,n) = Z.to_N (bucket_exact (Z.of_N w) (Z.of_N n)) *)
Theorem bucket_of32_meaning_partial : forall w n, (w <= n)%N -> (n <= 990)%N ->
  rounds_down_tie (Z.of_N w) (Z.of_N n) = false ->
  bucket_of32 (w, n) = Z.to_N (bucket_exact (Z.of_N w) (Z.of_N n)).
Proof.
  intros w n Hw Hn Ht. rewrite (bucket_of32_characterised w n Hw Hn), Ht. reflexivity.
Qed.
Theorem bucket_of32_range : forall w n, (w <= n)%N -> (n <= 990)%N -> (bucket_of32 (w, n) <= Z.to_N NN)%N.
Proof.
  intros w n Hw Hn. destruct (of_N_hyps w n Hw Hn) as [H1 H2]. unfold bucket_of32.
  pose proof (bucket32_range _ _ H1 H2) as R. lia.
Qed.

(* hypotheses are satisfiable, both branches *)
Example bucket32_hyps : (0 <= 600 <= 984 /\ 984 <= 990 /\ rounds_down_tie 600 984 = false /\ bucket32 600 984 = 61) /\
  (0 <= 21 <= 40 /\ 40 <= 990 /\ rounds_down_tie 21 40 = true /\ is_tie 21 40 = true) /\
  (0 <= 1 <= 200 /\ is_tie 1 200 = true /\ rounds_down_tie 1 200 = false /\ bucket32 1 200 = 1) /\
  bucket32 0 0 = 50 /\ bucket_of32 (600%N, 984%N) = 61%N.
Proof. vm_compute. repeat split; try reflexivity; discriminate. Qed.
