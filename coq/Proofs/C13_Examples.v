(* Proofs/C13_Examples.v -- concrete rational instances for C13: computed results of the model
   (a tie broken to the first centroid, a NaN column, a k-means step, a lookup, a metric) and
   witnesses showing that the hypotheses of the theorems are satisfiable. *)
From Coq Require Import Arith NArith List Bool Lia QArith.
From RP Require Import Base.Bits Model.Codec Model.Kmeans Spec.SpecKmeans.
From RP Require Import Proofs.C13_Neighborhood Proofs.C13_Next Proofs.C13_Lookup Proofs.C13_Metric
                       Proofs.C13_Q.
Import ListNotations.
Close Scope Q_scope.

(* ---------- the order ---------- *)

(* N.ltb is a strict total order, hence a strict weak order *)
Lemma ex_Nltb_total : strict_total_order N.ltb.
Proof.
  constructor.
  - intros x. apply N.ltb_irrefl.
  - intros x y z H1 H2. apply N.ltb_lt in H1. apply N.ltb_lt in H2. apply N.ltb_lt. lia.
  - intros x y. destruct (N.lt_trichotomy x y) as [H | [H | H]].
    + left. apply N.ltb_lt. exact H.
    + right. left. exact H.
    + right. right. apply N.ltb_lt. exact H.
Qed.

(* the comparison of the rationals (like the one of the floats, with +0.0 / -0.0) is NOT a strict
   total order for Leibniz equality: 1/2 and 2/4 are different and incomparable *)
Lemma ex_Qltb_not_total : ~ strict_total_order Qltb.
Proof.
  intros [_ _ Ht]. destruct (Ht (1 # 2)%Q (2 # 4)%Q) as [H | [H | H]]; discriminate H.
Qed.

(* ---------- neighborhood ---------- *)

Definition col_tie : list (option Q) := [Some (3 # 2); Some (1 # 2); Some (2 # 4); Some (1 # 1)]%Q.
Definition col_nan : list (option Q) := [Some (1 # 1); None; Some (0 # 1)]%Q.

(* centroids 1 and 2 are equally near (1/2 = 2/4): the first one is chosen *)
Lemma ex_tie : neighborhood_Q col_tie = Some (1%nat, (1 # 2)%Q).
Proof. vm_compute. reflexivity. Qed.

Lemma ex_nan : neighborhood_Q col_nan = None.
Proof. vm_compute. reflexivity. Qed.

Lemma ex_col_tie_good : ~ In None col_tie /\ col_tie <> [].
Proof.
  split.
  - intros H. unfold col_tie in H. cbn [In] in H.
    repeat (destruct H as [H | H]; [discriminate H|]). exact H.
  - discriminate.
Qed.

Lemma ex_col_nan_bad : In None col_nan.
Proof. right. left. reflexivity. Qed.

(* ---------- one k-means step ---------- *)

Definition pts : list hist := [[(1, 2); (5, 1)]; [(1, 1); (7, 4)]; [(5, 3)]; [(2, 2); (7, 1)]]%N.
Definition cols : list (list (option Q)) :=
  [[Some (1 # 2); Some (1 # 2)]; [Some (3 # 4); Some (1 # 4)];
   [Some (0 # 1); Some (1 # 1)]; [Some (2 # 3); Some (1 # 3)]]%Q.
Definition cols_nan : list (list (option Q)) :=
  [[Some (1 # 2); Some (1 # 2)]; [Some (3 # 4); None];
   [Some (0 # 1); Some (1 # 1)]; [Some (2 # 3); Some (1 # 3)]]%Q.

(* point 0 is a tie and goes to centroid 0; points 0 and 2 are merged into centroid 0,
   points 1 and 3 into centroid 1 *)
Lemma ex_next : next_step_Q 2 pts cols = Some [[(1, 2); (5, 4)]; [(1, 1); (2, 2); (7, 5)]]%N.
Proof. vm_compute. reflexivity. Qed.

Lemma ex_members : members Qltb cols 0 = [0; 2]%nat /\ members Qltb cols 1 = [1; 3]%nat.
Proof. vm_compute. split; reflexivity. Qed.

Lemma ex_next_nan : next_step_Q 2 pts cols_nan = None.
Proof. vm_compute. reflexivity. Qed.

Lemma ex_next_hyp :
  length pts = length cols /\ (0 < 2)%nat /\ (forall c, In c cols -> good_column 2 c).
Proof.
  split; [reflexivity|]. split; [lia|].
  intros c Hc. unfold cols in Hc. cbn [In] in Hc.
  repeat (destruct Hc as [Hc | Hc];
          [subst c; split; [reflexivity|];
           intros H; cbn [In] in H; repeat (destruct H as [H | H]; [discriminate H|]); exact H|]).
  destruct Hc.
Qed.

(* ---------- lookup ---------- *)

Definition cls : list obs := [mkObs 3 28; mkObs 5 56; mkObs 6 112; mkObs 9 224]%N.

Lemma ex_lookup :
  lookup_step_Q 2 cls cols =
  Some [(mkObs 3 28, bucket_code 2 0); (mkObs 5 56, bucket_code 2 1);
        (mkObs 6 112, bucket_code 2 0); (mkObs 9 224, bucket_code 2 1)]%N.
Proof. vm_compute. reflexivity. Qed.

Lemma ex_bucket_codes : bucket_code 2 0 = 159648990902788096%N /\ bucket_code 2 1 = 175263952233369601%N.
Proof. vm_compute. split; reflexivity. Qed.

(* one class fewer than points: the result silently has three entries *)
Lemma ex_lookup_trunc :
  lookup_step_Q 2 (firstn 3 cls) cols =
  Some [(mkObs 3 28, bucket_code 2 0); (mkObs 5 56, bucket_code 2 1); (mkObs 6 112, bucket_code 2 0)]%N.
Proof. vm_compute. reflexivity. Qed.

Lemma ex_lookup_hyp : length cls = length cols /\ exists l, lookup_step_Q 2 cls cols = Some l.
Proof. split; [reflexivity|]. eexists. exact ex_lookup. Qed.

(* ---------- metric ---------- *)

Definition d3 (i j : nat) : Q :=
  match i, j with
  | 1, 0 => 1 # 2 | 0, 1 => 1 # 4 | 2, 0 => 1 # 1 | 0, 2 => 2 # 1 | 2, 1 => 3 # 4 | 1, 2 => 3 # 4
  | _, _ => 0 # 1
  end%nat%Q.

(* symmetrised distances 3/8, 3/2, 3/4; divided by the maximum 3/2 *)
Lemma ex_metric :
  option_map (map (fun e => (fst e, Qred (snd e)))) (metric_step_Q Q_MIN_POSITIVE 1 d3 3) =
  Some [(pair_key (bucket_code 1 1) (bucket_code 1 0), 1 # 4);
        (pair_key (bucket_code 1 2) (bucket_code 1 0), 1 # 1);
        (pair_key (bucket_code 1 2) (bucket_code 1 1), 1 # 2)]%Q.
Proof. vm_compute. reflexivity. Qed.

(* a positive distance below MIN_POSITIVE: the maximum of the result is 1/2, not 1 *)
Definition dtiny (i j : nat) : Q := (1 # (2 ^ 127))%Q.
Lemma ex_metric_tiny :
  option_map (map (fun e => (fst e, Qred (snd e)))) (metric_step_Q Q_MIN_POSITIVE 1 dtiny 2) =
  Some [(pair_key (bucket_code 1 1) (bucket_code 1 0), 1 # 2)]%Q.
Proof. vm_compute. reflexivity. Qed.

(* an invalid street: the model aborts (Abstraction::from panics) *)
Lemma ex_metric_bad_street : metric_step_Q Q_MIN_POSITIVE 4 d3 3 = None.
Proof. vm_compute. reflexivity. Qed.

Lemma ex_min_positive : (0 < Q_MIN_POSITIVE)%Q.
Proof. reflexivity. Qed.

Lemma ex_metric_hyp :
  (0 < Q_MIN_POSITIVE)%Q /\ (exists m, metric_step_Q Q_MIN_POSITIVE 1 d3 3 = Some m) /\
  (forall i j, (i < 3)%nat -> (j < 3)%nat -> (0 <= d3 i j)%Q) /\
  (exists i j, (j < i)%nat /\ (i < 3)%nat /\ (Q_MIN_POSITIVE <= sym_Q d3 i j)%Q).
Proof.
  split; [reflexivity|]. split; [|split].
  - apply (metric_total Q Qplus Qdiv Qle_bool Qtwo Q_MIN_POSITIVE 1%N d3 3). lia.
  - intros i j Hi Hj.
    destruct i as [|[|[|i]]]; [| | |lia]; (destruct j as [|[|[|j]]]; [| | |lia]); discriminate.
  - exists 1%nat, 0%nat. split; [lia|]. split; [lia|]. vm_compute. discriminate.
Qed.

(* the full number of buckets of the turn (144 = street_k 2) *)
Lemma ex_keys_hyp :
  (1 <= 2 <= 3)%N /\ (N.of_nat 144 <= street_k 2)%N /\
  exists m, metric_step_Q Q_MIN_POSITIVE 2 d3 144 = Some m.
Proof.
  split; [lia|]. split; [vm_compute; discriminate|].
  apply (metric_total Q Qplus Qdiv Qle_bool Qtwo Q_MIN_POSITIVE 2%N d3 144). lia.
Qed.

(* ---------- further hypothesis witnesses ---------- *)

Lemma ex_sorted : sorted_keys [(1, 2); (5, 1)]%N /\ In (5, 1)%N [(1, 2); (5, 1)]%N.
Proof.
  split; [|right; left; reflexivity].
  unfold sorted_keys. cbn [map fst].
  repeat constructor.
Qed.

Lemma ex_absorb : absorb [(1, 2); (5, 1)]%N [(5, 3); (0, 7); (9, 1)]%N = [(0, 7); (1, 2); (5, 4); (9, 1)]%N.
Proof. vm_compute. reflexivity. Qed.

Lemma ex_lookup_total_hyp : (2 <= 3)%N /\ (forall c, In c cols -> ~ In None c /\ c <> []).
Proof.
  split; [lia|]. intros c Hc.
  destruct ex_next_hyp as (_ & _ & Hg). destruct (Hg c Hc) as [Hl Hs].
  split; [exact Hs|]. intros E. subst c. discriminate Hl.
Qed.

Lemma ex_lookup_nan : lookup_step_Q 2 cls cols_nan = None.
Proof. vm_compute. reflexivity. Qed.

Lemma ex_keys_all_hyp :
  (1 <= 2 <= 3)%N /\
  exists m, metric_step_Q Q_MIN_POSITIVE 2 d3 (N.to_nat (street_k 2)) = Some m.
Proof.
  split; [lia|].
  apply (metric_total Q Qplus Qdiv Qle_bool Qtwo Q_MIN_POSITIVE 2%N d3). lia.
Qed.
