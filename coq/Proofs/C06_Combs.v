(* Proofs/C06_Combs.v -- [combs_of cs k] (cs strictly descending) lists exactly the words with k bits, all
   of them in cs, in strictly increasing numeric order; its length is the binomial coefficient. *)
From Coq Require Import NArith ZArith List Bool Lia ZifyBool ZifyN ZifyNat Sorted.
From RP Require Import Base.Bits Model.Codec Spec.SpecCombs Proofs.BitsLemmas Proofs.C06_Cat.
Import ListNotations.
Open Scope N_scope.

Arguments N.add : simpl never.
Arguments N.mul : simpl never.
Arguments N.sub : simpl never.
Arguments N.shiftl : simpl never.
Arguments N.shiftr : simpl never.
Arguments N.land : simpl never.
Arguments N.lor : simpl never.
Arguments N.lxor : simpl never.
Arguments N.pow : simpl never.
Arguments N.testbit : simpl never.

Definition bits_in (z : N) (cs : list N) : Prop := forall i, N.testbit z i = true -> In i cs.
Definition desc (cs : list N) : Prop := StronglySorted (fun a b => b < a) cs.

Lemma bits_in_lt : forall z cs c, bits_in z cs -> Forall (fun i => i < c) cs -> z < 2 ^ c.
Proof.
  intros z cs c Hz Hc. apply lt_pow2_of_bits. intros k Hk.
  destruct (N.testbit z k) eqn:E; [|reflexivity].
  apply Hz in E. rewrite Forall_forall in Hc. apply Hc in E. lia.
Qed.

Lemma shiftl_1 : forall c, N.shiftl 1 c = 2 ^ c.
Proof. intros c. apply N.shiftl_1_l. Qed.

Lemma add_bit_cat : forall x c, x + N.shiftl 1 c = cat c x 1.
Proof. intros x c. rewrite shiftl_1. unfold cat. lia. Qed.

Lemma length_combs_of : forall cs k, N.of_nat (length (combs_of cs k)) = choose (length cs) k.
Proof.
  induction cs as [|c r IH]; intros k.
  - destruct k; reflexivity.
  - cbn [combs_of length]. rewrite app_length. destruct k as [|j].
    + cbn [length choose]. rewrite Nat.add_0_r, IH. destruct (length r); reflexivity.
    + rewrite map_length. cbn [choose]. rewrite <- !IH. lia.
Qed.

Lemma combs_of_spec : forall cs, desc cs -> forall k z,
  In z (combs_of cs k) <-> (bits_in z cs /\ pc z = N.of_nat k).
Proof.
  induction cs as [|c r IH]; intros Hd k z.
  - cbn [combs_of]. destruct k as [|j].
    + split.
      * intros [E | []]. subst z. split; [|reflexivity]. intros i Hi. rewrite N.bits_0 in Hi. discriminate.
      * intros [Hb Hp]. left. symmetry. apply pc_zero_iff. exact Hp.
    + split; [intros []|]. intros [Hb Hp]. exfalso.
      assert (z = 0).
      { apply N.bits_inj. intros i. rewrite N.bits_0. destruct (N.testbit z i) eqn:E; [|reflexivity].
        destruct (Hb i E). }
      subst z. cbn in Hp. lia.
  - inversion Hd as [| c' r' Hdr Hlt]; subst.
    specialize (IH Hdr).
    cbn [combs_of]. rewrite in_app_iff. split.
    + intros [H | H].
      * apply IH in H. destruct H as [Hb Hp]. split; [|exact Hp].
        intros i Hi. right. apply Hb. exact Hi.
      * destruct k as [|j]; [destruct H|].
        apply in_map_iff in H. destruct H as (x & E & Hx). subst z.
        apply IH in Hx. destruct Hx as [Hb Hp].
        assert (Hxc : x < 2 ^ c) by (apply (bits_in_lt x r c Hb Hlt)).
        rewrite add_bit_cat. split.
        -- intros i Hi. rewrite testbit_cat in Hi by exact Hxc.
           destruct (N.ltb_spec i c) as [Hic | Hic].
           ++ right. apply Hb. exact Hi.
           ++ left. destruct (N.eq_dec (i - c) 0) as [E0 | NE0]; [lia|].
              exfalso. rewrite (testbit_high_lt 1 1 (i - c)) in Hi by (try reflexivity; lia). discriminate.
        -- rewrite pc_cat by exact Hxc. rewrite Hp, pc_1. lia.
    + intros [Hb Hp].
      destruct (N.testbit z c) eqn:Ec.
      * (* bit c set *)
        right.
        assert (Hz : z < 2 ^ (c + 1)).
        { apply (bits_in_lt z (c :: r) (c + 1) Hb). constructor; [lia|].
          eapply Forall_impl; [|exact Hlt]. cbv beta. intros a Ha. lia. }
        set (x := z mod 2 ^ c).
        assert (Hx : x < 2 ^ c) by apply mod_pow2_lt.
        assert (Hh : z / 2 ^ c = 1).
        { assert (Hh1 : z / 2 ^ c < 2).
          { apply N.div_lt_upper_bound; [pose proof (pow2_pos c); lia|]. rewrite pow2_succ in Hz. lia. }
          assert (Hh2 : N.testbit (z / 2 ^ c) 0 = true).
          { rewrite N.div_pow2_bits. rewrite N.add_0_l. exact Ec. }
          set (h := z / 2 ^ c) in *.
          destruct (N.eq_dec h 0) as [E0 | NE0]; [rewrite E0, N.bits_0 in Hh2; discriminate | lia]. }
        assert (Ez : z = cat c x 1) by (rewrite <- Hh; apply cat_div_mod).
        destruct k as [|j].
        -- exfalso. rewrite Ez, pc_cat in Hp by exact Hx. rewrite pc_1 in Hp. lia.
        -- apply in_map_iff. exists x. split; [rewrite add_bit_cat; symmetry; exact Ez|].
           apply IH. split.
           ++ intros i Hi.
              assert (Hic : i < c).
              { destruct (N.lt_ge_cases i c) as [H | H]; [exact H|].
                rewrite (testbit_high_lt x c i Hx H) in Hi. discriminate. }
              assert (Hzi : N.testbit z i = true).
              { rewrite Ez, testbit_cat by exact Hx.
                destruct (N.ltb_spec i c) as [_ | H]; [exact Hi | lia]. }
              destruct (Hb i Hzi) as [E | H]; [lia | exact H].
           ++ rewrite Ez, pc_cat in Hp by exact Hx. rewrite pc_1 in Hp. lia.
      * left. apply IH. split; [|exact Hp].
        intros i Hi. destruct (Hb i Hi) as [E | H]; [|exact H]. subst i. rewrite Hi in Ec. discriminate.
Qed.

Lemma combs_of_lt : forall cs c k z, desc cs -> Forall (fun i => i < c) cs -> In z (combs_of cs k) -> z < 2 ^ c.
Proof.
  intros cs c k z Hd Hc Hz. apply (combs_of_spec cs Hd) in Hz. destruct Hz as [Hb _].
  apply (bits_in_lt z cs c Hb Hc).
Qed.

Lemma StronglySorted_app : forall (R : N -> N -> Prop) l1 l2,
  StronglySorted R l1 -> StronglySorted R l2 -> (forall a b, In a l1 -> In b l2 -> R a b) ->
  StronglySorted R (l1 ++ l2).
Proof.
  intros R. induction l1 as [|x l1 IH]; intros l2 H1 H2 H12.
  - exact H2.
  - inversion H1 as [| x' l' Hs Hf]; subst. cbn [app]. constructor.
    + apply IH; [exact Hs | exact H2 |]. intros a b Ha Hb. apply H12; [right; exact Ha | exact Hb].
    + apply Forall_app. split; [exact Hf|]. apply Forall_forall. intros b Hb. apply H12; [left; reflexivity | exact Hb].
Qed.

Lemma StronglySorted_map_add : forall l d, StronglySorted N.lt l -> StronglySorted N.lt (map (fun x => x + d) l).
Proof.
  induction l as [|a l IH]; intros d H.
  - constructor.
  - inversion H as [| a' l' Hs Hf]; subst. cbn [map]. constructor; [apply IH; exact Hs|].
    apply Forall_forall. intros y Hy. apply in_map_iff in Hy. destruct Hy as (x & E & Hx). subst y.
    rewrite Forall_forall in Hf. specialize (Hf x Hx). lia.
Qed.

Lemma combs_of_sorted : forall cs, desc cs -> forall k, StronglySorted N.lt (combs_of cs k).
Proof.
  induction cs as [|c r IH]; intros Hd k.
  - destruct k; cbn [combs_of]; repeat constructor.
  - inversion Hd as [| c' r' Hdr Hlt]; subst. specialize (IH Hdr).
    cbn [combs_of]. apply StronglySorted_app.
    + apply IH.
    + destruct k as [|j]; [constructor|]. apply StronglySorted_map_add. apply IH.
    + intros a b Ha Hb. destruct k as [|j]; [destruct Hb|].
      apply in_map_iff in Hb. destruct Hb as (x & E & Hx). subst b.
      pose proof (combs_of_lt r c _ a Hdr Hlt Ha) as Hac. rewrite shiftl_1. lia.
Qed.

Lemma desc_rev : forall l, StronglySorted N.lt l -> desc (rev l).
Proof.
  induction l as [|a l IH]; intros H.
  - constructor.
  - inversion H as [| a' l' Hs Hf]; subst. cbn [rev]. apply StronglySorted_app.
    + apply IH. exact Hs.
    + repeat constructor.
    + intros x y Hx Hy. destruct Hy as [E | []]. subst y. apply in_rev in Hx.
      rewrite Forall_forall in Hf. apply Hf. exact Hx.
Qed.

(* sorted lists and filtering from a threshold *)
Definition from (x : N) (l : list N) : list N := filter (fun z => x <=? z) l.

Lemma from_all : forall x l, (forall z, In z l -> x <= z) -> from x l = l.
Proof.
  intros x. induction l as [|a l IH]; intros H.
  - reflexivity.
  - unfold from in *. cbn [filter]. destruct (N.leb_spec x a) as [Hle | Hgt].
    + f_equal. apply IH. intros z Hz. apply H. right. exact Hz.
    + specialize (H a (or_introl eq_refl)). lia.
Qed.

Lemma from_none : forall x l, (forall z, In z l -> z < x) -> from x l = [].
Proof.
  intros x. induction l as [|a l IH]; intros H.
  - reflexivity.
  - unfold from in *. cbn [filter]. destruct (N.leb_spec x a) as [Hle | Hgt].
    + specialize (H a (or_introl eq_refl)). lia.
    + apply IH. intros z Hz. apply H. right. exact Hz.
Qed.

Lemma from_step : forall l x y, StronglySorted N.lt l -> In x l -> x < y ->
  (forall z, In z l -> x < z -> y <= z) -> from x l = x :: from y l.
Proof.
  induction l as [|a l IH]; intros x y Hs Hin Hxy Hgap.
  - destruct Hin.
  - inversion Hs as [| a' l' Hs' Hf]; subst. rewrite Forall_forall in Hf.
    unfold from in *. cbn [filter].
    destruct Hin as [E | Hin].
    + subst a. rewrite N.leb_refl.
      destruct (N.leb_spec y x) as [H | _]; [lia|]. f_equal.
      transitivity l.
      * apply from_all. intros z Hz. specialize (Hf z Hz). lia.
      * symmetry. apply from_all. intros z Hz. apply Hgap; [right; exact Hz | apply Hf; exact Hz].
    + pose proof (Hf x Hin) as Hax.
      destruct (N.leb_spec x a) as [H | _]; [lia|].
      destruct (N.leb_spec y a) as [H | _]; [lia|].
      apply IH; [exact Hs' | exact Hin | exact Hxy |].
      intros z Hz Hxz. apply Hgap; [right; exact Hz | exact Hxz].
Qed.
