(* Proofs/C11_Menu.v -- property C11: the abstract action menu of a decision node is non-empty,
   duplicate-free, every edge translates to an allowed action; raise edges are snapped into
   [to_raise, to_shove] monotonically *)
From Coq Require Import ZArith NArith List Bool Lia.
From RP Require Import Base.Bits Gen.GenLib Gen.GenFixes Gen.GenAbstract Model.Codec Model.Showdown Model.Game
                       Spec.SpecNLHE Spec.SpecGameInv Spec.SpecRel Spec.SpecMenu
                       Proofs.C03_Flat Proofs.C03_Settle Proofs.C03_Sym Proofs.C03_Moves Proofs.C03_Bisim
                       Proofs.C03_Examples.
Import ListNotations.
Open Scope Z_scope.
Ltac Zify.zify_post_hook ::= Z.div_mod_to_equations.

(* ---------- what R gives at a decision node ---------- *)
Lemma choice_phase : forall g i, turn_of g = Choice i -> must_stop g = false /\ must_deal g = false.
Proof.
  intros g i H. unfold turn_of in H.
  destruct (must_stop g); [discriminate H|]. destruct (must_deal g); [discriminate H|]. split; reflexivity.
Qed.

Lemma R_choice_facts : forall d g s i, R d g s -> turn_of g = Choice i ->
  must_post g = false /\ may_shove g = true /\ 0 <= pot g.
Proof.
  intros d g s i HR Ht. destruct (choice_phase g i Ht) as [Hs Hd].
  destruct HR as [s0 s1 k0 k1 e0 e1 p0 p1 c0 c1 pt bd t ac0 ac1 lr ta aw ov
                  Hi0 Hi1 Hpt Hbl Hbase Hnf Hbd Hcards Hstop Hdeal Hover Hch].
  pose proof blinds_facts as (Hsb0 & Hsbb & Hbst).
  split; [apply must_post_false; exact Hbl|].
  split; [|cbn [pot G2]; lia].
  rewrite Hs in Hstop. subst ov. rewrite (Hdeal eq_refl) in Hd. subst aw.
  destruct (Hch eq_refl eq_refl) as (_ & Hmod & Hta).
  unfold may_shove, to_shove. apply Z.ltb_lt.
  destruct Hta as [[-> Hci]|[-> Hci]]; destruct Hci as (-> & _); cbn [Z.of_nat] in Hmod.
  - rewrite actor_flat0 by assumption. cbn [stack]. eapply seat_inv_betting_pos; eassumption.
  - rewrite actor_flat1 by assumption. cbn [stack]. eapply seat_inv_betting_pos; eassumption.
Qed.

(* ---------- the menu at a decision node ---------- *)
Definition menu (g : game) (n : Z) : list edge :=
  (if may_raise g then map (fun o => ERaise (fst o) (snd o)) (raises g n) else [])
  ++ (if may_shove g then [EShove] else []) ++ (if may_call g then [ECall] else [])
  ++ (if may_fold g then [EFold] else []) ++ (if may_check g then [ECheck] else []).

Lemma choices_menu : forall g n, must_stop g = false -> must_deal g = false -> must_post g = false ->
  choices g n = Some (menu g n).
Proof.
  intros g n Hs Hd Hp. unfold choices, legal, menu. rewrite Hs, Hd, Hp.
  destruct (may_raise g), (may_shove g), (may_call g), (may_fold g), (may_check g); cbn;
    rewrite ?app_nil_r; reflexivity.
Qed.

Definition edge_eqb (a b : edge) : bool :=
  match a, b with
  | EDraw, EDraw | EFold, EFold | ECheck, ECheck | ECall, ECall | EShove, EShove => true
  | ERaise n d, ERaise n' d' => (n =? n') && (d =? d')
  | _, _ => false
  end.
Lemma edge_eqb_eq : forall a b, edge_eqb a b = true <-> a = b.
Proof.
  intros a b. destruct a, b; cbn; split; intros H; try reflexivity; try discriminate H.
  - apply andb_prop in H. destruct H as [H1 H2]. apply Z.eqb_eq in H1, H2. subst. reflexivity.
  - injection H as -> ->. rewrite !Z.eqb_refl. reflexivity.
Qed.
Fixpoint nodupb (l : list edge) : bool :=
  match l with [] => true | x :: r => negb (existsb (edge_eqb x) r) && nodupb r end.
Lemma nodupb_sound : forall l, nodupb l = true -> NoDup l.
Proof.
  induction l as [|x r IH]; intros H; [constructor|].
  cbn in H. apply andb_prop in H. destruct H as [H1 H2]. constructor; [|apply IH; exact H2].
  intros Hin. apply negb_true_iff in H1.
  assert (existsb (edge_eqb x) r = true) by (apply existsb_exists; exists x; split; [exact Hin|apply edge_eqb_eq; reflexivity]).
  congruence.
Qed.

Lemma raises_cases : forall g n,
  raises g n = [] \/ raises g n = PREF_RAISES \/ raises g n = FLOP_RAISES \/
  raises g n = LATE_RAISES \/ raises g n = LAST_RAISES.
Proof.
  intros g n. unfold raises.
  destruct (MAX_RAISE_REPEATS <? n); [auto|].
  destruct (street g =? 0); [auto|]. destruct (street g =? 1); [auto|].
  destruct (n =? 0); auto.
Qed.

Lemma menu_nodup : forall g n, NoDup (menu g n).
Proof.
  intros g n. apply nodupb_sound. unfold menu.
  destruct (raises_cases g n) as [-> | [-> | [-> | [-> | ->]]]];
    destruct (may_raise g), (may_shove g), (may_call g), (may_fold g), (may_check g); vm_compute; reflexivity.
Qed.

Theorem menu_ok : forall d hs g n i, wf_holes d hs -> reachable d hs g -> turn_of g = Choice i -> 0 <= n ->
  exists es, choices g n = Some es /\ es <> [] /\ NoDup es.
Proof.
  intros d hs g n i Hwf (g0 & acts & Hroot & Hrun) Ht _.
  assert (Hfix : RAISE_ARM_CHECKS_TURN = true) by reflexivity.
  destruct (bisim Hfix d hs acts g0 g Hwf Hroot Hrun) as (s & _ & HR).
  destruct (choice_phase g i Ht) as [Hs Hd].
  destruct (R_choice_facts d g s i HR Ht) as (Hp & Hsh & _).
  exists (menu g n). split; [apply choices_menu; assumption|]. split; [|apply menu_nodup].
  unfold menu. rewrite Hsh. intros H. apply app_eq_nil in H. destruct H as [_ H]. discriminate H.
Qed.

(* ---------- every edge of the menu is playable ---------- *)
Lemma in_menu : forall g n e, In e (menu g n) ->
  match e with
  | ERaise _ _ => may_raise g = true
  | EShove => may_shove g = true | ECall => may_call g = true
  | EFold => may_fold g = true | ECheck => may_check g = true
  | EDraw => False
  end.
Proof.
  intros g n e H. unfold menu in H.
  repeat (apply in_app_or in H; destruct H as [H|H]).
  - destruct (may_raise g); [|contradiction H]. apply in_map_iff in H. destruct H as (o & <- & _). reflexivity.
  - destruct (may_shove g); [|contradiction H]. destruct H as [<-|[]]. reflexivity.
  - destruct (may_call g); [|contradiction H]. destruct H as [<-|[]]. reflexivity.
  - destruct (may_fold g); [|contradiction H]. destruct H as [<-|[]]. reflexivity.
  - destruct (may_check g); [|contradiction H]. destruct H as [<-|[]]. reflexivity.
Qed.

Theorem menu_accepts : forall d hs g n i es e, wf_holes d hs -> reachable d hs g -> turn_of g = Choice i ->
  choices g n = Some es -> In e es -> is_allowed d g (actionize g e) = Some true.
Proof.
  intros d hs g n i es e Hwf (g0 & acts & Hroot & Hrun) Ht Hes Hin.
  assert (Hfix : RAISE_ARM_CHECKS_TURN = true) by reflexivity.
  destruct (bisim Hfix d hs acts g0 g Hwf Hroot Hrun) as (s & _ & HR).
  destruct (choice_phase g i Ht) as [Hs Hd].
  destruct (R_choice_facts d g s i HR Ht) as (Hp & Hsh & _).
  rewrite (choices_menu g n Hs Hd Hp) in Hes. injection Hes as <-.
  pose proof (in_menu g n e Hin) as He.
  destruct (allowed_choice d g Hs Hd Hp) as (HF & HC & HCa & HSh & HRa & _ & _).
  destruct e as [| | | |num den|]; cbn [actionize].
  - contradiction He.
  - rewrite HF, He. reflexivity.
  - rewrite HC, He. reflexivity.
  - rewrite HCa, He, Z.eqb_refl. reflexivity.
  - unfold may_raise in He. apply Z.ltb_lt in He.
    destruct (Z.leb_spec (to_shove g) (bet_of_odds (pot g) num den)) as [H1|H1].
    + rewrite HSh, Hsh, Z.eqb_refl. reflexivity.
    + destruct (Z.leb_spec (bet_of_odds (pot g) num den) (to_raise g)) as [H2|H2]; rewrite HRa; unfold may_raise.
      * f_equal. rewrite !andb_true_iff, Z.ltb_lt, !Z.leb_le. lia.
      * f_equal. rewrite !andb_true_iff, Z.ltb_lt, !Z.leb_le. lia.
  - rewrite HSh, Hsh, Z.eqb_refl. reflexivity.
Qed.

(* ---------- snapping ---------- *)
Theorem snap : forall g num den,
  let bet := pot g * num / den in
  (to_shove g <= bet -> actionize g (ERaise num den) = Shove (to_shove g)) /\
  (bet < to_shove g -> bet <= to_raise g -> actionize g (ERaise num den) = Raise (to_raise g)) /\
  (bet < to_shove g -> to_raise g < bet -> actionize g (ERaise num den) = Raise bet) /\
  (to_raise g <= to_shove g ->
   to_raise g <= amount_of (actionize g (ERaise num den)) <= to_shove g).
Proof.
  intros g num den bet. cbn [actionize]. unfold bet_of_odds. fold bet.
  destruct (Z.leb_spec (to_shove g) bet) as [H1|H1]; destruct (Z.leb_spec bet (to_raise g)) as [H2|H2];
    repeat split; intros; cbn [amount_of]; try reflexivity; lia.
Qed.

Theorem snap_menu : forall d hs g n i es num den, wf_holes d hs -> reachable d hs g -> turn_of g = Choice i ->
  choices g n = Some es -> In (ERaise num den) es ->
  to_raise g < to_shove g /\
  to_raise g <= amount_of (actionize g (ERaise num den)) <= to_shove g /\
  (forall x, actionize g (ERaise num den) = Raise x -> to_raise g <= x <= to_shove g - 1) /\
  (forall x, actionize g (ERaise num den) = Shove x -> x = to_shove g).
Proof.
  intros d hs g n i es num den Hwf (g0 & acts & Hroot & Hrun) Ht Hes Hin.
  assert (Hfix : RAISE_ARM_CHECKS_TURN = true) by reflexivity.
  destruct (bisim Hfix d hs acts g0 g Hwf Hroot Hrun) as (s & _ & HR).
  destruct (choice_phase g i Ht) as [Hs Hd].
  destruct (R_choice_facts d g s i HR Ht) as (Hp & Hsh & _).
  rewrite (choices_menu g n Hs Hd Hp) in Hes. injection Hes as <-.
  pose proof (in_menu g n _ Hin) as He. cbn in He. unfold may_raise in He. apply Z.ltb_lt in He.
  split; [exact He|]. cbn [actionize].
  destruct (Z.leb_spec (to_shove g) (bet_of_odds (pot g) num den)) as [H1|H1];
    [|destruct (Z.leb_spec (bet_of_odds (pot g) num den) (to_raise g)) as [H2|H2]];
    cbn [amount_of]; (split; [lia|]); split; intros x Hx; try discriminate Hx; injection Hx as <-; lia.
Qed.

(* ---------- monotonicity ---------- *)
Lemma div_mono_cross : forall a b d1 d2, 0 < d1 -> 0 < d2 -> a * d2 <= b * d1 -> a / d1 <= b / d2.
Proof.
  intros a b d1 d2 H1 H2 H.
  apply Z.div_le_lower_bound; [exact H2|].
  pose proof (Z.mul_div_le a d1 H1) as Hq.
  (* d2 * (a/d1) <= b : multiply by d1 > 0 *)
  apply Z.mul_le_mono_pos_l with (p := d1); [exact H1|].
  assert (d1 * (d2 * (a / d1)) = d2 * (d1 * (a / d1))) as -> by ring.
  assert (d2 * (d1 * (a / d1)) <= d2 * a) by (apply Z.mul_le_mono_nonneg_l; lia).
  lia.
Qed.

Theorem monotone : forall g n1 d1 n2 d2,
  0 <= pot g -> to_raise g <= to_shove g -> 0 < d1 -> 0 < d2 -> n1 * d2 <= n2 * d1 ->
  amount_of (actionize g (ERaise n1 d1)) <= amount_of (actionize g (ERaise n2 d2)).
Proof.
  intros g n1 d1 n2 d2 Hpot Hrs Hd1 Hd2 Hle.
  assert (Hb : bet_of_odds (pot g) n1 d1 <= bet_of_odds (pot g) n2 d2).
  { unfold bet_of_odds. apply div_mono_cross; try assumption.
    assert (pot g * n1 * d2 = pot g * (n1 * d2)) as -> by ring.
    assert (pot g * n2 * d1 = pot g * (n2 * d1)) as -> by ring.
    apply Z.mul_le_mono_nonneg_l; assumption. }
  cbn [actionize].
  destruct (Z.leb_spec (to_shove g) (bet_of_odds (pot g) n1 d1));
    destruct (Z.leb_spec (to_shove g) (bet_of_odds (pot g) n2 d2));
    destruct (Z.leb_spec (bet_of_odds (pot g) n1 d1) (to_raise g));
    destruct (Z.leb_spec (bet_of_odds (pot g) n2 d2) (to_raise g)); cbn [amount_of]; lia.
Qed.

Theorem monotone_menu : forall d hs g n i es n1 d1 n2 d2,
  wf_holes d hs -> reachable d hs g -> turn_of g = Choice i -> choices g n = Some es ->
  In (ERaise n1 d1) es -> 0 < d1 -> 0 < d2 -> n1 * d2 <= n2 * d1 ->
  amount_of (actionize g (ERaise n1 d1)) <= amount_of (actionize g (ERaise n2 d2)).
Proof.
  intros d hs g n i es n1 d1 n2 d2 Hwf Hreach Ht Hes Hin Hd1 Hd2 Hle.
  destruct (snap_menu d hs g n i es n1 d1 Hwf Hreach Ht Hes Hin) as (Hlt & _).
  destruct Hreach as (g0 & acts & Hroot & Hrun).
  assert (Hfix : RAISE_ARM_CHECKS_TURN = true) by reflexivity.
  destruct (bisim Hfix d hs acts g0 g Hwf Hroot Hrun) as (s & _ & HR).
  destruct (R_choice_facts d g s i HR Ht) as (_ & _ & Hpot).
  apply monotone; try assumption; lia.
Qed.

(* ---------- examples ---------- *)
Lemma ex_menu_root :
  exists g0, root Standard ex_holes = Some g0 /\ reachable Standard ex_holes g0 /\ turn_of g0 = Choice 1 /\
    choices g0 0 = Some (map (fun o => ERaise (fst o) (snd o)) PREF_RAISES ++ [EShove; ECall; EFold]) /\
    map (actionize g0) [ERaise 1 4; ERaise 1 1; ERaise 4 1; EShove; ECall; EFold]
    = [Raise 3; Raise 3; Raise 12; Shove 99; Call 1; Fold].
Proof.
  assert (H : match root Standard ex_holes with
              | Some g0 => turn_of g0 = Choice 1 /\
                  choices g0 0 = Some (map (fun o => ERaise (fst o) (snd o)) PREF_RAISES ++ [EShove; ECall; EFold]) /\
                  map (actionize g0) [ERaise 1 4; ERaise 1 1; ERaise 4 1; EShove; ECall; EFold]
                  = [Raise 3; Raise 3; Raise 12; Shove 99; Call 1; Fold]
              | None => False end) by (vm_compute; repeat split; reflexivity).
  destruct (root Standard ex_holes) as [g0|] eqn:Hr; [|contradiction].
  exists g0. destruct H as (H1 & H2 & H3). repeat split; try assumption.
  exists g0, []. split; [exact Hr|reflexivity].
Qed.
