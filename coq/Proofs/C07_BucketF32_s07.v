(* Proofs/C07_BucketF32_s07.v -- shard: rows 757 <= sum < 809, every 0 <= won <= sum, by evaluation (check_pair). *)
From Coq Require Import ZArith.
From RP Require Import Model.BucketF32 Proofs.C07_BucketF32_chk.
Open Scope Z_scope.
Lemma block : check_block 757 809 = true.
Proof. vm_compute. reflexivity. Qed.
Lemma rows : forall sum won, 757 <= sum < 809 -> 0 <= won <= sum -> pair_ok won sum.
Proof. exact (check_block_ok 757 809 ltac:(discriminate) block). Qed.
