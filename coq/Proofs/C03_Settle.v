(* Proofs/C03_Settle.v -- the crux: the engine's inferred end of a betting round
   (ticker above the `touched' threshold and stakes matched, or everyone all-in) is the rule
   book's `closed' (everyone who can act has acted and matched); establishing R after a move *)
From Coq Require Import ZArith NArith List Bool Lia.
From RP Require Import Base.Bits Gen.GenLib Gen.GenFixes Model.Codec Model.Showdown Model.Game
                       Spec.SpecNLHE Spec.SpecGameInv Spec.SpecRel Proofs.C03_Flat.
Import ListNotations.
Open Scope Z_scope.
Ltac Zify.zify_post_hook ::= Z.div_mod_to_equations.

(* flags computed by settle_round *)
Definition sov (s : nlhe) : bool :=
  if Nat.eqb (length (slive s)) 1 then true
  else if closed s then (if nstreet s =? 3 then true else over s) else over s.
Definition saw (s : nlhe) : bool :=
  if Nat.eqb (length (slive s)) 1 then false
  else if closed s then (if nstreet s =? 3 then awaiting s else true) else awaiting s.

Lemma settle_round_S2 : forall s0 s1 k0 k1 e0 e1 p0 p1 c0 c1 bd ac0 ac1 lr ta aw ov,
  settle_round (S2 s0 s1 k0 k1 e0 e1 p0 p1 c0 c1 bd ac0 ac1 lr ta aw ov) =
  S2 s0 s1 k0 k1 e0 e1 p0 p1 c0 c1 bd ac0 ac1 lr ta
     (saw (S2 s0 s1 k0 k1 e0 e1 p0 p1 c0 c1 bd ac0 ac1 lr ta aw ov))
     (sov (S2 s0 s1 k0 k1 e0 e1 p0 p1 c0 c1 bd ac0 ac1 lr ta aw ov)).
Proof.
  intros. unfold settle_round, saw, sov.
  destruct (Nat.eqb _ 1); [reflexivity|].
  destruct (closed _); [|reflexivity].
  destruct (nstreet _ =? 3); reflexivity.
Qed.

Lemma live1_S2 : forall s0 s1 k0 k1 e0 e1 p0 p1 c0 c1 bd ac0 ac1 lr ta aw ov,
  Nat.eqb (length (slive (S2 s0 s1 k0 k1 e0 e1 p0 p1 c0 c1 bd ac0 ac1 lr ta aw ov))) 1
  = xorb (is_fold s0) (is_fold s1).
Proof. intros. destruct s0, s1; reflexivity. Qed.

(* closed on a flat state: a seat is fine if folded, all-in, or (acted and matched) *)
Definition seat_closed (s : sstate) (k e m : Z) (ac : bool) : bool :=
  is_fold s || (k =? 0) || (ac && (e =? m)).
Lemma closed_S2 : forall s0 s1 k0 k1 e0 e1 p0 p1 c0 c1 bd ac0 ac1 lr ta aw ov,
  closed (S2 s0 s1 k0 k1 e0 e1 p0 p1 c0 c1 bd ac0 ac1 lr ta aw ov)
  = seat_closed s0 k0 e0 (Z.max (Z.max 0 e0) e1) ac0 && seat_closed s1 k1 e1 (Z.max (Z.max 0 e0) e1) ac1.
Proof.
  intros. unfold closed, canact, maxin, seat_closed.
  cbn [S2 folded behind acted instreet seats2 filter nthB nthZ nth fold_left].
  destruct (is_fold s0), (k0 =? 0), (is_fold s1), (k1 =? 0); cbn;
    rewrite ?andb_true_r; reflexivity.
Qed.
Lemma closed_indep : forall s0 s1 k0 k1 e0 e1 p0 p1 c0 c1 bd ac0 ac1 lr ta aw ov aw' ov',
  closed (S2 s0 s1 k0 k1 e0 e1 p0 p1 c0 c1 bd ac0 ac1 lr ta aw ov)
  = closed (S2 s0 s1 k0 k1 e0 e1 p0 p1 c0 c1 bd ac0 ac1 lr ta aw' ov').
Proof. intros. rewrite !closed_S2. reflexivity. Qed.

(* crux (i)+(iii): with the chip invariants, for two live seats,
   calling || shoving = closed, provided the ticker agrees with the acted flags when both seats
   are Betting and matched *)
Lemma crux_closed : forall s0 s1 k0 k1 e0 e1 p0 p1 c0 c1 pt bd t ac0 ac1 lr ta aw ov,
  seat_inv s0 k0 e0 p0 -> seat_inv s1 k1 e1 p1 -> p0 - e0 = p1 - e1 ->
  s0 <> Folding -> s1 <> Folding ->
  (s0 = Betting -> s1 = Betting -> e0 = e1 -> (2 + street_off bd <? t) = ac0 && ac1) ->
  is_everyone_calling (G2 s0 s1 k0 k1 e0 e1 p0 p1 c0 c1 pt bd t)
  || is_everyone_shoving (G2 s0 s1 k0 k1 e0 e1 p0 p1 c0 c1 pt bd t)
  = closed (S2 s0 s1 k0 k1 e0 e1 p0 p1 c0 c1 bd ac0 ac1 lr ta aw ov).
Proof.
  intros s0 s1 k0 k1 e0 e1 p0 p1 c0 c1 pt bd t ac0 ac1 lr ta aw ov
         (Hk0 & Hs0 & He0 & Hep0 & Hsh0 & Hbt0) (Hk1 & Hs1 & He1 & Hep1 & Hsh1 & Hbt1) Hbase Hf0 Hf1 HJ.
  unfold is_everyone_calling. rewrite touched_flat, matched_flat, shoving_flat, closed_S2.
  unfold seat_closed.
  destruct s0, s1; try congruence; cbn [isB isS is_fold sstate_eqb orb andb].
  - (* both Betting *)
    assert (k0 <> 0) by (intros Hz; apply (Hbt0 Hz); reflexivity).
    assert (k1 <> 0) by (intros Hz; apply (Hbt1 Hz); reflexivity).
    destruct (Z.eqb_spec k0 0) as [|_]; [contradiction|].
    destruct (Z.eqb_spec k1 0) as [|_]; [contradiction|]. cbn [orb].
    rewrite orb_false_r.
    destruct (Z.eq_dec e0 e1) as [He|He].
    + rewrite (HJ eq_refl eq_refl He). subst e1.
      replace (Z.max (Z.max 0 e0) e0) with e0 by lia. replace (Z.max e0 e0) with e0 by lia.
      rewrite Z.eqb_refl. destruct ac0, ac1; reflexivity.
    + destruct (Z.eqb_spec e0 (Z.max e0 e1)), (Z.eqb_spec e1 (Z.max e0 e1)),
               (Z.eqb_spec e0 (Z.max (Z.max 0 e0) e1)), (Z.eqb_spec e1 (Z.max (Z.max 0 e0) e1));
        try lia; rewrite ?andb_false_r; cbn; rewrite ?andb_false_r; reflexivity.
  - (* seat 0 Betting, seat 1 all-in: seat 0 is behind *)
    assert (k0 <> 0) by (intros Hz; apply (Hbt0 Hz); reflexivity).
    specialize (Hsh1 eq_refl).
    destruct (Z.eqb_spec k0 0) as [|_]; [contradiction|].
    destruct (Z.eqb_spec k1 0) as [_|]; [|contradiction]. cbn [orb andb].
    rewrite andb_true_r, orb_false_r.
    destruct (Z.eqb_spec e0 (Z.max e0 e1)), (Z.eqb_spec e0 (Z.max (Z.max 0 e0) e1)); try lia;
      rewrite ?andb_false_r; reflexivity.
  - assert (k1 <> 0) by (intros Hz; apply (Hbt1 Hz); reflexivity).
    specialize (Hsh0 eq_refl).
    destruct (Z.eqb_spec k1 0) as [|_]; [contradiction|].
    destruct (Z.eqb_spec k0 0) as [_|]; [|contradiction]. cbn [orb andb].
    rewrite orb_false_r.
    destruct (Z.eqb_spec e1 (Z.max e0 e1)), (Z.eqb_spec e1 (Z.max (Z.max 0 e0) e1)); try lia;
      rewrite ?andb_false_r; reflexivity.
  - rewrite (Hsh0 eq_refl), (Hsh1 eq_refl). cbn. rewrite orb_true_r. reflexivity.
Qed.

Lemma not_fold_iff : forall s, is_fold s = false <-> s <> Folding.
Proof. intros s. destruct s; cbn; split; congruence. Qed.

(* establishing R for an engine state and the settle_round of a rule-book state *)
Lemma R_settle : forall d s0 s1 k0 k1 e0 e1 p0 p1 c0 c1 pt bd t ac0 ac1 lr ta,
  seat_inv s0 k0 e0 p0 -> seat_inv s1 k1 e1 p1 ->
  pt = p0 + p1 -> S_BLIND + B_BLIND <= pt -> p0 - e0 = p1 - e1 ->
  ~ (s0 = Folding /\ s1 = Folding) ->
  In (Z.of_N (hand_size bd)) [0; 3; 4; 5] ->
  cards_ok d bd c0 c1 ->
  (s0 = Betting -> s1 = Betting -> e0 = e1 -> (2 + street_off bd <? t) = ac0 && ac1) ->
  (s0 <> Folding -> s1 <> Folding ->
   closed (S2 s0 s1 k0 k1 e0 e1 p0 p1 c0 c1 bd ac0 ac1 lr ta false false) = false ->
   1 <= t - street_off bd /\ t mod 2 = Z.of_nat ta /\
   ((ta = 0%nat /\ choice_inv s0 s1 e0 e1 ac0 ac1 lr (t - street_off bd)) \/
    (ta = 1%nat /\ choice_inv s1 s0 e1 e0 ac1 ac0 lr (t - street_off bd)))) ->
  R d (G2 s0 s1 k0 k1 e0 e1 p0 p1 c0 c1 pt bd t)
      (settle_round (S2 s0 s1 k0 k1 e0 e1 p0 p1 c0 c1 bd ac0 ac1 lr ta false false)).
Proof.
  intros d s0 s1 k0 k1 e0 e1 p0 p1 c0 c1 pt bd t ac0 ac1 lr ta Hi0 Hi1 Hpt Hbl Hbase Hnf Hbd Hcards HJ HP.
  rewrite settle_round_S2.
  set (sp := S2 s0 s1 k0 k1 e0 e1 p0 p1 c0 c1 bd ac0 ac1 lr ta false false) in *.
  assert (Hlive : xorb (is_fold s0) (is_fold s1) = false -> s0 <> Folding /\ s1 <> Folding).
  { intros Hx. destruct s0, s1; cbn in Hx; try discriminate; split; try congruence;
      exfalso; apply Hnf; split; reflexivity. }
  assert (Hcrux : xorb (is_fold s0) (is_fold s1) = false ->
                  is_everyone_alright (G2 s0 s1 k0 k1 e0 e1 p0 p1 c0 c1 pt bd t) = closed sp).
  { intros Hx. destruct (Hlive Hx) as [Hf0 Hf1]. unfold is_everyone_alright.
    rewrite folding_flat, Hx, orb_false_r. apply crux_closed; assumption. }
  assert (Hstop : must_stop (G2 s0 s1 k0 k1 e0 e1 p0 p1 c0 c1 pt bd t) = sov sp).
  { unfold must_stop, sov. rewrite street_flat. unfold sp at 1. rewrite live1_S2. cbn [nstreet over S2 sp].
    destruct (xorb (is_fold s0) (is_fold s1)) eqn:Hx.
    - unfold is_everyone_alright. rewrite !folding_flat, Hx, orb_true_r. cbn [orb].
      destruct (sob bd =? 3); reflexivity.
    - rewrite folding_flat, Hx, (Hcrux eq_refl).
      destruct (sob bd =? 3), (closed sp); reflexivity. }
  apply R_intro; try assumption.
  - intros Hov. unfold must_deal, saw. rewrite street_flat.
    unfold sov in Hov. unfold sp at 1. unfold sp at 1 in Hov. rewrite live1_S2 in *. cbn [nstreet awaiting over S2 sp] in *.
    destruct (xorb (is_fold s0) (is_fold s1)) eqn:Hx; [discriminate|].
    rewrite (Hcrux eq_refl). destruct (sob bd =? 3), (closed sp); try reflexivity; discriminate.
  - rewrite <- (closed_indep s0 s1 k0 k1 e0 e1 p0 p1 c0 c1 bd ac0 ac1 lr ta false false).
    fold sp. rewrite live1_S2. unfold sov. unfold sp at 1. rewrite live1_S2. cbn [nstreet over S2 sp].
    destruct (xorb (is_fold s0) (is_fold s1)), (sob bd =? 3), (closed sp); reflexivity.
  - intros Hov Haw. unfold sov in Hov. unfold saw in Haw.
    unfold sp at 1 in Hov. unfold sp at 1 in Haw. rewrite live1_S2 in *. cbn [nstreet awaiting over S2 sp] in *.
    destruct (xorb (is_fold s0) (is_fold s1)) eqn:Hx; [discriminate|].
    destruct (Hlive eq_refl) as [Hf0 Hf1].
    apply HP; try assumption.
    destruct (closed sp); [|reflexivity]. destruct (sob bd =? 3); discriminate.
Qed.

(* settle_round in general: from a state that is not over, the hand is over afterwards iff one
   player is left, or betting is closed on the river; a card is awaited iff betting is closed
   before the river with several players left *)
Lemma settle_round_over : forall s, over s = false ->
  over (settle_round s) = (Nat.eqb (length (slive s)) 1 || (closed s && (nstreet s =? 3))).
Proof.
  intros s Hov. unfold settle_round.
  destruct (Nat.eqb (length (slive s)) 1); [reflexivity|].
  destruct (closed s); [|exact Hov].
  destruct (nstreet s =? 3); [reflexivity|exact Hov].
Qed.
Lemma settle_round_awaiting : forall s, over s = false -> awaiting s = false ->
  awaiting (settle_round s) = (negb (Nat.eqb (length (slive s)) 1) && closed s && negb (nstreet s =? 3)).
Proof.
  intros s Hov Haw. unfold settle_round.
  destruct (Nat.eqb (length (slive s)) 1); [reflexivity|].
  destruct (closed s); [|exact Haw].
  destruct (nstreet s =? 3); [exact Haw|reflexivity].
Qed.
